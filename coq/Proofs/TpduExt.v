(* Extension, OUTSIDE properties C18 / C19 (which speak of SMS-DELIVER and SMS-SUBMIT only): the other TPDU
   types over the struct layouts regenerated from the running code.  SMS-STATUS-REPORT (GSM 03.40 9.2.2.3) in
   general; SMS-COMMAND, the reports and the error flavours by witnesses. *)
From V Require Import Model.TpduRun Spec.Gsm0340 Proofs.SmsOctetTables Proofs.TpduRoundtrip.
From Coq Require Import ZifyN ZifyNat ZifyBool.
Open Scope N_scope.

(* ---- GSM 03.40 9.2.2.3 SMS-STATUS-REPORT, mandatory parameters *)
Record s_status := {
  r_sc : s_addr;                 (* RP service-centre address *)
  r_mms : bool;                  (* bit 2  TP-MMS *)
  r_srq : bool;                  (* bit 5  TP-SRQ *)
  r_mr : N;                      (* TP-MR *)
  r_ra : s_addr;                 (* TP-RA *)
  r_scts : s_time;               (* TP-SCTS *)
  r_dt : s_time;                 (* TP-DT *)
  r_st : N                       (* TP-ST *)
}.
Definition status_first_octet (t : s_status) : N := 2 + 4 * b2n (r_mms t) + 32 * b2n (r_srq t).   (* TP-MTI = 10 *)
Definition layout_status_with (fo : N) (t : s_status) : bytes :=
  sc_addr (r_sc t) ++ fo :: r_mr t :: tp_addr (r_ra t) ++ scts (r_scts t) ++ scts (r_dt t) ++ [r_st t].
Definition layout_status (t : s_status) : bytes := layout_status_with (status_first_octet t) t.
Definition status_wf (t : s_status) : Prop :=
  sc_wf (r_sc t) /\ r_mr t < 256 /\ addr_wf (r_ra t) /\ time_wf (r_scts t) /\ time_wf (r_dt t) /\ r_st t < 256.

Definition FF := fs_fields fs_Flags.
Definition status_fields : list tfield := Eval vm_compute in tl_fields (layout_of "StatusReport").
Lemma find_status : find_layout tpdu_layouts "StatusReport" = Some {| tl_name := "StatusReport"; tl_fields := status_fields |}.
Proof. reflexivity. Qed.

Definition status_vals (t : s_status) : list tval :=
  [TVAddr (addr_num_val (r_sc t) (digits_of (r_sc t)));
   TVFlags (set_direction FF (unmarshal_flags FF (status_first_octet t) 0) 0);
   TVByte (r_mr t); TVSkip;
   TVAddr (addr_val (r_ra t));
   TVTime (time_val (r_scts t)); TVTime (time_val (r_dt t));
   TVByte (r_st t)].

Lemma fr_skip g st f bs : f_dkind f = KSkip -> field_read false g st f bs = Ok (TVSkip, bs).
Proof. intros Hf. unfold field_read. rewrite Hf. reflexivity. Qed.
Lemma fw_skip g vpf dcs f : f_ekind f = KSkip -> field_write g vpf dcs f TVSkip = Ok [].
Proof. intros Hf. unfold field_write. rewrite Hf. reflexivity. Qed.

Lemma status_first_octet_facts t :
  status_first_octet t < 256 /\ N.land (status_first_octet t) 3 = 2 /\
  marshal_flags FF (set_direction FF (unmarshal_flags FF (status_first_octet t) 0) 0) 0 = 2.
Proof. unfold status_first_octet. destruct (r_mms t), (r_srq t); vm_compute; repeat split; reflexivity. Qed.

Theorem status_decode t :
  status_wf t -> addr_ok (r_ra t) ->
  sms_unmarshal (layout_status t) = Ok ("StatusReport"%string, status_vals t).
Proof.
  intros [Hsc [Hmr [Hra [Hts [Hdt Hst]]]]] Hok.
  pose proof Hsc as [Hsc_wf Hsc_num].
  assert (Hscv : sa_val (r_sc t) = Digits (digits_of (r_sc t))).
  { apply numeric_val. unfold is_numeric. destruct (sa_val (r_sc t)); [exact I|contradiction]. }
  destruct (status_first_octet_facts t) as [Hfo [Hmti _]].
  unfold sms_unmarshal, unmarshal, unmarshal_gen, layout_status, layout_status_with.
  destruct (sc_addr_shape _ Hsc) as [l [p [Esc [Hl Hl0]]]].
  assert (Egt : get_type (sc_addr (r_sc t) ++ status_first_octet t :: r_mr t :: tp_addr (r_ra t) ++
                 scts (r_scts t) ++ scts (r_dt t) ++ [r_st t]) = Ok (4, 127 <? r_mr t)).
  { rewrite Esc. cbn [app]. rewrite (get_type_at l p _ (r_mr t) _ Hl). rewrite Hmti.
    destruct (N.eqb_spec l 0); [contradiction|]. reflexivity. }
  rewrite Egt. cbn [obind struct_of]. change (e_layouts sms_env) with tpdu_layouts. rewrite find_status.
  cbn [tl_fields e_g7 sms_env]. unfold status_fields.
  erewrite fields_read_step; [|reflexivity|apply fr_sc; [reflexivity|exact Hscv|exact Hsc_wf]].
  cbn [state_after f_dkind].
  erewrite fields_read_step; [|reflexivity|apply (fr_flags_dir _ _ _ fs_Flags _ 0); reflexivity].
  cbn [state_after f_dkind fs_name fs_Flags String.eqb Ascii.eqb Bool.eqb].
  erewrite fields_read_step; [|reflexivity|apply fr_byte; reflexivity].
  cbn [state_after f_dkind].
  erewrite fields_read_step; [|reflexivity|apply fr_skip; reflexivity].
  cbn [state_after f_dkind].
  erewrite fields_read_step; [|reflexivity|apply fr_addr; [reflexivity|exact Hra|exact Hok]].
  cbn [state_after f_dkind].
  erewrite fields_read_step; [|reflexivity|apply fr_time; [reflexivity|exact Hts]].
  cbn [state_after f_dkind].
  erewrite fields_read_step; [|reflexivity|apply fr_time; [reflexivity|exact Hdt]].
  cbn [state_after f_dkind].
  erewrite fields_read_step; [|reflexivity|apply fr_byte; reflexivity].
  cbn [fields_read obind]. reflexivity.
Qed.

(* Unmarshal then Marshal: everything comes back except the first-octet bits other than TP-MTI (the Flags struct
   has the message type only) *)
Theorem status_remarshal t :
  status_wf t -> addr_ok (r_ra t) ->
  sms_remarshal (layout_status t) = Ok (layout_status_with 2 t).
Proof.
  intros Hwf Hok.
  unfold sms_remarshal, remarshal. fold sms_unmarshal. rewrite (status_decode t Hwf Hok). cbn [obind].
  destruct Hwf as [Hsc [Hmr [Hra [Hts [Hdt Hst]]]]]. pose proof Hsc as [Hsc_wf Hsc_num].
  assert (Hscv : sa_val (r_sc t) = Digits (digits_of (r_sc t))).
  { apply numeric_val. unfold is_numeric. destruct (sa_val (r_sc t)); [exact I|contradiction]. }
  destruct (status_first_octet_facts t) as [_ [_ Hrt]].
  unfold marshal. change (e_layouts sms_env) with tpdu_layouts. rewrite find_status.
  cbn [tl_fields e_g7 sms_env]. set (vpf := vpf_scan _ _ _). clearbody vpf.
  unfold status_fields, status_vals.
  erewrite fields_write_step; [|apply fw_sc; [reflexivity|exact Hscv|exact Hsc_wf]].
  cbn [dcs_after f_ekind].
  erewrite fields_write_step; [|apply (fw_flags_plain _ _ _ _ fs_Flags); reflexivity].
  cbn [dcs_after f_ekind].
  erewrite fields_write_step; [|apply fw_byte; reflexivity].
  cbn [dcs_after f_ekind f_tp String.eqb Ascii.eqb Bool.eqb].
  erewrite fields_write_step; [|apply fw_skip; reflexivity].
  cbn [dcs_after f_ekind].
  erewrite fields_write_step; [|apply fw_addr; [reflexivity|exact Hra|exact Hok]].
  cbn [dcs_after f_ekind].
  erewrite fields_write_step; [|apply fw_time; [reflexivity|exact Hts]].
  cbn [dcs_after f_ekind].
  erewrite fields_write_step; [|apply fw_time; [reflexivity|exact Hdt]].
  cbn [dcs_after f_ekind].
  erewrite fields_write_step; [|apply fw_byte; reflexivity].
  cbn [fields_write obind dcs_after f_ekind f_tp String.eqb Ascii.eqb Bool.eqb]. fold FF. rewrite Hrt.
  unfold layout_status_with. cbn [app]. rewrite <- ?app_assoc. cbn [app]. reflexivity.
Qed.

Corollary status_roundtrip t :
  status_wf t -> addr_ok (r_ra t) -> r_mms t = false -> r_srq t = false ->
  sms_remarshal (layout_status t) = Ok (layout_status t).
Proof.
  intros Hwf Hok Hm Hq. rewrite (status_remarshal t Hwf Hok). unfold layout_status, status_first_octet.
  rewrite Hm, Hq. reflexivity.
Qed.

Theorem status_values t :
  status_wf t -> addr_ok (r_ra t) ->
  exists sc fl ra ts dt,
    sms_unmarshal (layout_status t) =
      Ok ("StatusReport"%string, [TVAddr sc; TVFlags fl; TVByte (r_mr t); TVSkip; TVAddr ra; TVTime ts; TVTime dt; TVByte (r_st t)]) /\
    sc = {| a_npi := sa_npi (r_sc t); a_ton := sa_ton (r_sc t); a_no := ascii_digits (digits_of (r_sc t)) |} /\
    flag_get FF fl "MessageType" = 4 /\                    (* MessageTypeStatusReport *)
    ra = {| a_npi := sa_npi (r_ra t); a_ton := sa_ton (r_ra t); a_no := addr_text_spec (r_ra t) |} /\
    time_civil ts = ((2000 + Z.of_N (t_yy (r_scts t)))%Z, Z.of_N (t_mo (r_scts t)), Z.of_N (t_dd (r_scts t)),
                     Z.of_N (t_hh (r_scts t)), Z.of_N (t_mi (r_scts t)), Z.of_N (t_ss (r_scts t)), time_offset_q (r_scts t)) /\
    time_civil dt = ((2000 + Z.of_N (t_yy (r_dt t)))%Z, Z.of_N (t_mo (r_dt t)), Z.of_N (t_dd (r_dt t)),
                     Z.of_N (t_hh (r_dt t)), Z.of_N (t_mi (r_dt t)), Z.of_N (t_ss (r_dt t)), time_offset_q (r_dt t)).
Proof.
  intros Hwf Hok. do 5 eexists. split; [apply status_decode; assumption|].
  split; [reflexivity|]. split; [unfold status_first_octet; destruct (r_mms t), (r_srq t); vm_compute; reflexivity|]. split; [apply addr_val_text|].
  split; apply time_value_spec; apply Hwf.
Qed.

(* ---- witnesses *)
Definition w_status : s_status :=
  {| r_sc := w_sc; r_mms := true; r_srq := true; r_mr := 38; r_ra := w_oa; r_scts := w_time; r_dt := w_time_minus_zero; r_st := 0 |}.
Lemma w_status_wf : status_wf w_status.
Proof. unfold status_wf, sc_wf, addr_wf, time_wf; cbn. repeat (split || constructor || lia || reflexivity || (intro; discriminate) || exact I). Qed.
(* the full round trip is false when TP-MMS / TP-SRQ are set: first octet 0x26 comes back as 0x02; and neither bit is
   decoded anywhere (the MoreMessagesToSend field is never written: TVSkip) *)
Lemma status_first_octet_refuted :
  status_wf w_status /\ nth 8 (layout_status w_status) 0 = 38 /\
  exists out, sms_remarshal (layout_status w_status) = Ok out /\ nth 8 out 0 = 2 /\ out <> layout_status w_status.
Proof.
  split; [exact w_status_wf|]. split; [reflexivity|]. eexists. split; [vm_compute; reflexivity|]. split; [reflexivity|].
  vm_compute. congruence.
Qed.

(* SMS-COMMAND (9.2.2.4), no SC address: 00 | 02 | MR | PID | CT | MN | DA | CDL | CD round-trips and decodes to the
   standard's values; with TP-SRR (bit 5) set the bit is lost *)
Definition w_command : bytes := hx "000226000105" ++ tp_addr w_oa ++ hx "03010203".
Lemma command_witness :
  sms_remarshal w_command = Ok w_command /\
  (exists vs, sms_unmarshal w_command = Ok ("Command"%string, vs) /\
     vs = [TVAddr addr0; TVFlags [5]; TVByte 38; TVSkip; TVByte 0; TVByte 1; TVByte 5; TVAddr (addr_val w_oa); TVBytes [1; 2; 3]]) /\
  sms_remarshal (hx "002226000105" ++ tp_addr w_oa ++ hx "03010203") = Ok w_command.
Proof. vm_compute. split; [reflexivity|]. split; [eexists; split; reflexivity|reflexivity]. Qed.

(* SMS-DELIVER-REPORT for RP-ACK (9.2.2.1a), no SC address: 00 | 00 | PI | PID | DCS | UDL UD.  With all three optional
   parameters present (PI = 07) it round-trips; with a parameter absent it does NOT: Marshal writes every field
   whatever the indicator says (PI 01 + PID comes back with a DCS and a TP-UDL octet appended) *)
Lemma deliver_report_witness :
  sms_remarshal (hx "00000741040241e1") = Ok (hx "00000741040241e1") /\
  sms_remarshal (hx "00000141") = Ok (hx "000001410000") /\
  sms_remarshal (hx "000000") = Ok (hx "000000000000").
Proof. vm_compute. repeat split; reflexivity. Qed.

(* The error flavours and SMS-SUBMIT-REPORT do NOT round-trip: TP-FCS is never decoded (the FailureCause field is
   dispatched by neither walk), and in SubmitReport the TP-SCTS field is skipped whenever the parameter indicator has
   been read (Has("SCTS") is false) and written back as the zero time, nine octets *)
Lemma report_errors_refuted :
  sms_remarshal (hx "0000c400") = Ok (hx "0000") /\                                     (* DELIVER-REPORT for RP-ERROR, FCS C4 *)
  (exists out, sms_remarshal (hx "0191010042208062917314080000") = Ok out /\              (* SUBMIT-REPORT for RP-ACK, PI 00, SCTS *)
               out <> hx "0191010042208062917314080000" /\ List.length out = 15%nat).
Proof. split; [vm_compute; reflexivity|]. eexists. split; [vm_compute; reflexivity|]. split; [vm_compute; congruence|reflexivity]. Qed.
