(* C15 — connection teardown wakes every caller and stops every loop, without panics. *)
From Coq Require Import List ZArith Lia Bool Arith.
From V Require Import Model.Base Model.Pdu Gen.PduLayouts Model.ConnLTS Proofs.ConnBase Proofs.ConnC14 Proofs.ConnC16 Proofs.ConnC05.
Import ListNotations.
Open Scope N_scope.

(* ------------------------------------------------------------------ Done() *)
Lemma done_stable v s e s' : step v s e = Some s' -> done s = true -> done s' = true.
Proof. intros H D. destruct e; step_inv H; sproj; auto; congruence. Qed.

Lemma done_run v t : forall s s', run v s t = Some s' -> done s = true -> done s' = true.
Proof.
  induction t as [|e t IH]; intros s s' H D; cbn [run] in H; [now injection H as <-|].
  destruct (step v s e) eqn:E; [|discriminate]. eapply IH; eauto using done_stable.
Qed.

(* Watch has returned only with Done() closed and (repaired) the queue closed by itself *)
Lemma exited_inv s : reachable fixed s -> wpc s = WExited -> done s = true /\ queue_closed s = true.
Proof.
  revert s. reach_ind.
  - cbn. discriminate.
  - intros s e s' _ IH H. destruct e; step_inv H; sproj; auto; try discriminate;
      try (intros E; destruct (IH E); split; auto).
Qed.

(* the terminating events that close Done() directly *)
Lemma cancel_parent_done v s : exists s', step v s CancelParent = Some s' /\ done s' = true.
Proof. eexists. split; [reflexivity|]. reflexivity. Qed.

Lemma close_finish_done v s c r :
  c_pc (callers s c) = PClosing r ->
  exists s', step v s (CloseFinish c) = Some s' /\ done s' = true /\ c_pc (callers s' c) = PReturned r /\
             (forall m, r = ROk m -> transport_closed s' = true).
Proof.
  intros P. unfold step. rewrite P. eexists. split; [reflexivity|]. sproj.
  split; [reflexivity|]. split.
  - destruct r; [destruct (v_watch_closes v); [|destruct (wpc _)]|..]; sproj; now rewrite upd_same.
  - intros m ->. destruct (v_watch_closes v); sproj; reflexivity.
Qed.

(* ------------------------------------------------------------------ Watch returns *)
Definition watch_event (e : event) : Prop :=
  match e with WatchLoop | WatchStep | AppRecv => True | _ => False end.

Definition wmeasure (s : state) : nat :=
  3 * List.length (inbound s) + match wpc s with WTop => 1 | WSending _ => 2 | _ => 0 end.

Definition ended (s : state) : Prop := in_end s = true \/ transport_closed s = true.

Lemma watch_progress s : reachable fixed s -> ended s -> wpc s <> WExited ->
  exists e s', watch_event e /\ step fixed s e = Some s' /\ ended s' /\
    ((wpc s' = WExited /\ done s' = true) \/ (wmeasure s' < wmeasure s)%nat).
Proof.
  intros R E NE. destruct (watch_sane s R) as (NS & NP). unfold ended, wmeasure in *.
  destruct (wpc s) eqn:W; try congruence.
  - exists WatchLoop. unfold step. rewrite W. destruct (done s) eqn:D; eexists; (split; [exact I|]);
      (split; [reflexivity|]); sproj; (split; [exact E|]); [left; auto | right; lia].
  - destruct (transport_closed s) eqn:T.
    + exists WatchStep. unfold step. rewrite W, T. eexists. split; [exact I|]. split; [reflexivity|]. sproj. auto.
    + destruct E as [E|E]; [|discriminate]. destruct (inbound s) as [|i rest] eqn:Ei.
      * exists WatchStep. unfold step. rewrite W, T, Ei, E. eexists. split; [exact I|]. split; [reflexivity|]. sproj. auto.
      * pose proof (queue_inv s R) as Q. destruct (waiter_inv s R) as (Wi & _).
        exists WatchStep. unfold step. rewrite W, T, Ei. cbn [v_oneshot fixed].
        destruct i as [p|q|].
        -- destruct (pending s (snd p)) as [c|] eqn:P.
           ++ destruct (Wi _ _ P) as (_ & M & _). rewrite M. eexists. split; [exact I|]. split; [reflexivity|].
              sproj. split; [auto|]. right. cbn. lia.
           ++ destruct (queue_closed s) eqn:Qc; [specialize (Q eq_refl); congruence|].
              eexists. split; [exact I|]. split; [reflexivity|]. sproj. split; [auto|]. right. cbn. lia.
        -- eexists. split; [exact I|]. split; [reflexivity|]. destruct (0 <? q)%Z; sproj; (split; [auto|]); right; cbn; lia.
        -- eexists. split; [exact I|]. split; [reflexivity|]. sproj. auto.
  - exists AppRecv. unfold step. rewrite W. eexists. split; [exact I|]. split; [reflexivity|]. sproj.
    split; [exact E|]. right. lia.
Qed.

(* Once the transport has reported its end (EOF, error, timeout: [in_end]) or
   was closed by Close, Watch — with the application receiving what it is
   offered — reaches its return by its own steps: Done() closed. *)
Lemma watch_finishes_n n : forall s,
  (wmeasure s <= n)%nat -> reachable fixed s -> ended s ->
  exists t s', run fixed s t = Some s' /\ wpc s' = WExited /\ done s' = true /\ Forall watch_event t.
Proof.
  assert (Dec : forall s, wpc s = WExited \/ wpc s <> WExited) by (intros s; destruct (wpc s); auto; right; discriminate).
  induction n as [|n IH]; intros s Hm R E; destruct (Dec s) as [W|W].
  1,3: exists [], s; (split; [reflexivity|]); (split; [exact W|]); (split; [apply (proj1 (exited_inv s R W)) | constructor]).
  all: destruct (watch_progress s R E W) as (e & s1 & We & S1 & E1 & [(X & D)|Lt]).
  1,3: exists [e], s1; cbn [run]; rewrite S1; (split; [reflexivity|]); (split; [exact X|]); (split; [exact D|]); repeat constructor; exact We.
  - exfalso. lia.
  - destruct (IH s1) as (t & s' & Ht & Hw & Hd & Hf); [lia | eauto using reachable_step | exact E1 |].
    exists (e :: t), s'. cbn [run]. rewrite S1. repeat split; auto.
Qed.

Lemma watch_finishes s : reachable fixed s -> ended s ->
  exists t s', run fixed s t = Some s' /\ wpc s' = WExited /\ done s' = true /\ Forall watch_event t.
Proof. intros R E. exact (watch_finishes_n (wmeasure s) s (le_n _) R E). Qed.

(* ------------------------------------------------------------------ blocked callers are released *)
(* a Submit blocked in its select when Done() is closed (or its own context is
   done) returns an error: both steps are enabled *)
Lemma wake_done v s c :
  c_pc (callers s c) = PWaiting -> done s = true ->
  exists s1 s2, step v s (WakeDone c) = Some s1 /\ step v s1 (Unregister c) = Some s2 /\
                c_pc (callers s2 c) = after_call (callers s c) RErr /\ done s2 = true.
Proof.
  intros P D. unfold step at 1. rewrite P, D. eexists. eexists. split; [reflexivity|].
  unfold step. sproj. rewrite upd_same. sproj. split; [reflexivity|]. sproj. rewrite upd_same. sproj.
  split; [reflexivity | exact D].
Qed.

Lemma wake_ctx v s c :
  c_pc (callers s c) = PWaiting -> c_ctx (callers s c) = true ->
  exists s1 s2, step v s (WakeCtx c) = Some s1 /\ step v s1 (Unregister c) = Some s2 /\
                c_pc (callers s2 c) = after_call (callers s c) RErr.
Proof.
  intros P D. unfold step at 1. rewrite P, D. eexists. eexists. split; [reflexivity|].
  unfold step. sproj. rewrite upd_same. sproj. split; [reflexivity|]. sproj. rewrite upd_same. sproj.
  reflexivity.
Qed.

(* every issued call runs to its return once Done() is closed, by its own steps
   and the transport letting its Write return *)
Definition rank (p : cpc) : nat :=
  match p with
  | PNone => 0 | PStarted => 7 | PRegistered => 6 | PWriting => 5 | PWritten => 4 | PWaiting => 3
  | PLeaving _ => 2 | PClosing _ => 1 | PReturned _ => 0
  end.
Definition own_event (c : nat) (e : event) : Prop :=
  match e with
  | Register d | WireWrite d | SendFail d | WriteReturn d | WakeDone d | Unregister d | CloseFinish d => d = c
  | _ => False
  end.

Ltac prog_fin :=
  eexists; (split; [reflexivity|]); (split; [reflexivity|]); sproj; rewrite ?upd_same; sproj;
  unfold after_call; repeat match goal with |- context [close_like ?k] => destruct (close_like k) end;
  repeat match goal with |- context [submit_like ?k] => destruct (submit_like k) end;
  cbn; repeat split; auto; try discriminate; try lia.

Lemma caller_progress s c :
  reachable fixed s -> done s = true -> live s c -> is_returned (c_pc (callers s c)) = false ->
  exists e s', own_event c e /\ step fixed s e = Some s' /\ done s' = true /\ live s' c /\
               (rank (c_pc (callers s' c)) < rank (c_pc (callers s c)))%nat.
Proof.
  intros R D L NR. unfold live in *. destruct (pc_shapes s R c) as (NW & _).
  destruct (c_pc (callers s c)) eqn:P; try congruence; try discriminate.
  - (* PStarted *)
    destruct (submit_like (c_kind (callers s c))) eqn:K.
    + exists (Register c). unfold step. rewrite K, P. cbn [v_reg_first fixed]. prog_fin.
    + destruct (can_write s (callers s c)) eqn:CW.
      * exists (WireWrite c). unfold step, at_send. rewrite P, K, CW. cbn [negb andb v_reg_first fixed]. prog_fin.
      * exists (SendFail c). unfold step, at_send. rewrite P, K, CW. cbn [negb andb v_reg_first fixed]. prog_fin.
  - (* PRegistered *)
    assert (K : submit_like (c_kind (callers s c)) = true) by (apply (leaving_sub s R); now left).
    destruct (can_write s (callers s c)) eqn:CW.
    + exists (WireWrite c). unfold step, at_send. rewrite P, K, CW. cbn [negb andb v_reg_first fixed]. prog_fin.
    + exists (SendFail c). unfold step, at_send. rewrite P, K, CW. cbn [negb andb v_reg_first fixed]. prog_fin.
  - exists (WriteReturn c). unfold step. rewrite P. prog_fin.
  - exists (WakeDone c). unfold step. rewrite P, D. prog_fin.
  - exists (Unregister c). unfold step. rewrite P. prog_fin.
  - exists (CloseFinish c). unfold step. rewrite P. cbn [v_watch_closes fixed]. destruct r; prog_fin.
Qed.

Lemma caller_finishes_n n : forall s c,
  (rank (c_pc (callers s c)) <= n)%nat -> reachable fixed s -> done s = true -> live s c ->
  exists t s', run fixed s t = Some s' /\ is_returned (c_pc (callers s' c)) = true /\ Forall (own_event c) t.
Proof.
  induction n as [|n IH]; intros s c Hr R D L; destruct (is_returned (c_pc (callers s c))) eqn:Ret.
  1,3: exists [], s; repeat split; auto.
  all: destruct (caller_progress s c R D L Ret) as (e & s1 & Oe & S1 & D1 & L1 & Lt).
  - exfalso. lia.
  - destruct (IH s1 c) as (t & s' & Ht & Hret & Hf); [lia | eauto using reachable_step | exact D1 | exact L1 |].
    exists (e :: t), s'. cbn [run]. rewrite S1. repeat split; auto.
Qed.

(* After the teardown every call still in progress — wherever it is: about to
   register, inside the transport Write, blocked in its select, running its
   deferred unregister, finishing Close — reaches its return through steps of
   its own (and the transport letting its Write return). *)
Lemma caller_finishes s c : reachable fixed s -> done s = true -> live s c ->
  exists t s', run fixed s t = Some s' /\ is_returned (c_pc (callers s' c)) = true /\ Forall (own_event c) t.
Proof. intros R D L. exact (caller_finishes_n _ s c (le_n _) R D L). Qed.

(* a Submit released by the teardown (blocked in its select, no response in its channel) returns an error *)
Lemma released_error s : reachable fixed s ->
  forall c r, c_pc (callers s c) = PReturned r -> submit_like (c_kind (callers s c)) = true ->
    r = RErr \/ exists m, r = ROk m /\ snd m = c_seq (callers s c).
Proof.
  intros R c r P K. destruct r as [m| |]; [right | exfalso | now left].
  - exists m. split; [reflexivity|]. apply (own_response s R c m). right. rewrite P. reflexivity.
  - destruct (pc_shapes s R c) as (_ & N). destruct (N K) as (_ & _ & N3). congruence.
Qed.

(* ------------------------------------------------------------------ the keep-alive loop *)
Lemma ka_exit_enabled s : ka s = KWaitTick -> done s = true ->
  exists s', step fixed s KaSeeDone = Some s' /\ ka s' = KExited.
Proof. intros K D. unfold step. rewrite K, D. eexists. split; reflexivity. Qed.

(* a returned Close has closed Done(); the loop is inside a Close only through a close-like call *)
Lemma close_returned_done s : reachable fixed s ->
  (forall c r, close_like (c_kind (callers s c)) = true -> c_pc (callers s c) = PReturned r -> done s = true) /\
  (forall c, ka s = KInClose c -> close_like (c_kind (callers s c)) = true /\ live s c).
Proof.
  revert s. reach_ind.
  - cbn. split; [discriminate | discriminate].
  - intros s e s' R [I1 I2] H. split.
    + intros c0 r0. destruct e; step_inv H; sproj; upd_cases; sproj; auto;
        try (intros K P; try discriminate P; try (rewrite K in *; discriminate); eauto; fail).
      intros K _. destruct (c_kind (callers s c)); discriminate.
    + intros c0. unfold live in *. destruct e; step_inv H; sproj; upd_cases; sproj; unfold ka_after;
        try (intros P; try discriminate P; try (injection P as <-); try (destruct (I2 _ P)); split; auto; congruence; fail).
      * destruct k; intros P; try discriminate P; try (split; [reflexivity | discriminate]);
          destruct (I2 _ P) as (_ & X); congruence.
      * destruct k; intros P; try discriminate P; try (injection P as ->; congruence); apply (I2 _ P).
Qed.

(* D28: whenever the loop waits on a ticker it has stopped, Done() is closed — so its return is enabled *)
Lemma ka_stopped_done s : reachable fixed s ->
  (ka s = KNeedClose -> ticker_stopped s = true) /\
  (forall c, ka s = KInClose c -> ticker_stopped s = true) /\
  (ka s = KWaitTick -> ticker_stopped s = true -> done s = true) /\
  (ka s = KOff \/ ka s = KReady \/ (exists c, ka s = KInPing c) -> ticker_stopped s = false).
Proof.
  revert s. reach_ind.
  - cbn. repeat split; try discriminate; auto.
  - intros s e s' R (I1 & I2 & I3 & I4) H. destruct (close_returned_done s R) as (C1 & C2).
    destruct e; step_inv H; sproj; unfold ka_after; repeat split; auto;
      try (intros; discriminate); try (intros; congruence); try (intros c0; eauto; fail);
      try (intros; eauto using done_stable; fail);
      try (intros [P|[P|[c0 P]]]; try discriminate P; apply I4; eauto; fail).
    + destruct k; eauto; discriminate.
    + bools. intros c0. destruct k; try discriminate; eauto.
      intros _. apply I1. unfold ka_allows in *. destruct (ka s); try discriminate; reflexivity.
    + destruct k; eauto; discriminate.
    + bools. unfold ka_allows in *.
      intros [P|[P|[c0 P]]]; destruct k; try discriminate P; try (apply I4; eauto; fail);
        apply I4; destruct (ka s); try discriminate; auto.
    + intros _ T. rewrite I4 in T; [discriminate | eauto].
    + intros _ _. destruct (C2 _ eq_refl) as (K & _). eapply C1; eauto.
Qed.


(* the keep-alive loop waiting on a stopped ticker can return *)
Lemma ka_can_exit s : reachable fixed s -> ka s = KWaitTick -> ticker_stopped s = true ->
  exists s', step fixed s KaSeeDone = Some s' /\ ka s' = KExited.
Proof.
  intros R K T. destruct (ka_stopped_done s R) as (_ & _ & I3 & _). apply ka_exit_enabled; auto.
Qed.

(* ------------------------------------------------------------------ pre-repair behaviour *)
(* D27: unbind_resp, then an unsolicited PDU nobody receives; Close closes the
   queue while Watch is blocked sending on it *)
Definition d27_trace : list event :=
  [WatchLoop; Start 0 KClose 0 9%Z (Ok [9]); Register 0; WireWrite 0; WriteReturn 0;
   PeerFrame (IPdu (2147483654, 9%Z)); PeerFrame (IPdu (5, 100%Z));
   WatchStep; WatchLoop; WatchStep; WakeResp 0; Unregister 0; CloseFinish 0].

Lemma d27_refuted : exists s, run legacy_D27 init d27_trace = Some s /\ wpc s = WPanicked.
Proof.
  destruct (run legacy_D27 init d27_trace) as [s|] eqn:E; [|vm_compute in E; discriminate].
  exists s. split; [reflexivity|]. vm_compute in E. injection E as <-. reflexivity.
Qed.
(* the repaired code in the same situation: Watch gives the send up and returns *)
Lemma d27_fixed_ok : exists s, run fixed init d27_trace = Some s /\ wpc s = WSending (5, 100%Z) /\ done s = true /\
  exists s', step fixed s WatchSeeDone = Some s' /\ wpc s' = WExited /\ queue_closed s' = true.
Proof.
  destruct (run fixed init d27_trace) as [s|] eqn:E; [|vm_compute in E; discriminate].
  exists s. split; [reflexivity|]. vm_compute in E. injection E as <-. repeat split; auto.
  eexists. split; [reflexivity|]. split; reflexivity.
Qed.

(* D28: the enquire_link fails, the loop stops its ticker and closes the
   connection, then waits on the ticker: in the pre-repair loop no event ever moves it again *)
Definition d28_trace : list event :=
  [WatchLoop; KaStart; Start 0 KPing 9 5%Z (Ok [5]); Register 0; WireWrite 0; WriteReturn 0;
   CancelCtx 0; WakeCtx 0; Unregister 0; KaNext;
   Start 1 KKaClose 9 6%Z (Ok [6]); Register 1; WireWrite 1; WriteReturn 1;
   CancelCtx 1; WakeCtx 1; Unregister 1; CloseFinish 1; KaNext].

Lemma d28_stuck_step s e s' :
  ka s = KWaitTick -> ticker_stopped s = true -> step legacy_D28 s e = Some s' ->
  ka s' = KWaitTick /\ ticker_stopped s' = true.
Proof.
  intros K T H. destruct e; unfold step, at_send, can_write, after_call in H; cbv zeta in H;
    cbn [v_reg_first v_oneshot v_watch_closes v_ka_ctx legacy_D28] in H;
    break_match_hyp H; try (injection H as <-); sproj; unfold ka_after; try (split; assumption); try congruence.
  - bools. unfold ka_allows in *. rewrite K in *. destruct k; try discriminate; auto.
  - match goal with E : _ && false = true |- _ => rewrite andb_false_r in E; discriminate end.
Qed.

Lemma d28_refuted :
  exists s, run legacy_D28 init d28_trace = Some s /\ done s = true /\ ka s = KWaitTick /\
    forall t s', run legacy_D28 s t = Some s' -> ka s' = KWaitTick.
Proof.
  destruct (run legacy_D28 init d28_trace) as [s|] eqn:E; [|vm_compute in E; discriminate].
  exists s. split; [reflexivity|].
  assert (P : done s = true /\ ka s = KWaitTick /\ ticker_stopped s = true).
  { vm_compute in E. injection E as <-. repeat split; reflexivity. }
  destruct P as (D & K & T). repeat split; auto.
  intros t. revert K T. generalize s. induction t as [|e t IH]; intros s0 K T s' H; cbn [run] in H.
  - now injection H as <-.
  - destruct (step legacy_D28 s0 e) as [s1|] eqn:S; [|discriminate].
    destruct (d28_stuck_step _ _ _ K T S) as (K1 & T1). eapply IH; eauto.
Qed.
(* the repaired loop returns from the same state *)
Lemma d28_fixed_ok :
  exists s, run fixed init d28_trace = Some s /\ exists s', step fixed s KaSeeDone = Some s' /\ ka s' = KExited.
Proof.
  destruct (run fixed init d28_trace) as [s|] eqn:E; [|vm_compute in E; discriminate].
  exists s. split; [reflexivity|]. vm_compute in E. injection E as <-. eexists. split; reflexivity.
Qed.

(* D32: a repeated response while the caller has not yet taken the first:
   Watch blocks inside the waiter's callback; no event ever moves it again —
   not EOF, not a cancelled context *)
Definition d32_trace : list event :=
  [WatchLoop; Start 0 KSubmit 0 11%Z (Ok [11]); Register 0; WireWrite 0;
   PeerFrame (IPdu (2147483669, 11%Z)); PeerFrame (IPdu (2147483669, 11%Z));
   WatchStep; WatchLoop; WatchStep].

Lemma d32_stuck_step s e s' : wpc s = WStuck -> step legacy_D32 s e = Some s' -> wpc s' = WStuck.
Proof.
  intros K H. destruct e; unfold step, at_send, can_write, after_call in H; cbv zeta in H;
    cbn [v_reg_first v_oneshot v_watch_closes v_ka_ctx legacy_D32] in H;
    break_match_hyp H; try (injection H as <-); sproj; congruence.
Qed.

Lemma d32_refuted :
  exists s, run legacy_D32 init d32_trace = Some s /\ wpc s = WStuck /\
    forall t s', run legacy_D32 s t = Some s' -> wpc s' = WStuck.
Proof.
  destruct (run legacy_D32 init d32_trace) as [s|] eqn:E; [|vm_compute in E; discriminate].
  exists s. split; [reflexivity|].
  assert (P : wpc s = WStuck) by (vm_compute in E; injection E as <-; reflexivity).
  split; [exact P|]. intros t. revert P. generalize s. induction t as [|e t IH]; intros s0 K s' H; cbn [run] in H.
  - now injection H as <-.
  - destruct (step legacy_D32 s0 e) as [s1|] eqn:S; [|discriminate].
    apply (IH s1 (d32_stuck_step _ _ _ K S) s' H).
Qed.

(* ------------------------------------------------------------------ non-vacuity *)
(* two Submits blocked, an unsolicited PDU in Watch's hand, then EOF: Watch
   returns, Done() closes, both callers run to an error *)
Definition c15_trace : list event :=
  [WatchLoop; Start 0 KSubmit 0 21%Z (Ok [21]); Register 0; WireWrite 0; WriteReturn 0;
   Start 1 KSubmit 1 22%Z (Ok [22]); Register 1; WireWrite 1;
   PeerFrame (IPdu (5, 100%Z)); PeerEnd; WatchStep].

Lemma c15_example :
  exists s, reachable fixed s /\ ended s /\ wpc s = WSending (5, 100%Z) /\ done s = false /\
            c_pc (callers s 0%nat) = PWaiting /\ c_pc (callers s 1%nat) = PWriting /\
   exists t s', run fixed s t = Some s' /\ wpc s' = WExited /\ done s' = true /\ Forall watch_event t /\
   exists t1 s1, run fixed s' t1 = Some s1 /\ c_pc (callers s1 0%nat) = PReturned RErr /\ Forall (own_event 0) t1 /\
   exists t2 s2, run fixed s1 t2 = Some s2 /\ c_pc (callers s2 1%nat) = PReturned RErr /\ Forall (own_event 1) t2.
Proof.
  destruct (run fixed init c15_trace) as [s|] eqn:E; [|vm_compute in E; discriminate].
  exists s. split; [exists c15_trace; exact E|].
  vm_compute in E. injection E as <-.
  split; [left; reflexivity|]. do 4 (split; [reflexivity|]).
  exists [AppRecv; WatchLoop; WatchStep]. eexists. split; [vm_compute; reflexivity|].
  do 2 (split; [reflexivity|]). split; [repeat constructor|].
  exists [WakeDone 0; Unregister 0]. eexists. split; [vm_compute; reflexivity|].
  split; [reflexivity|]. split; [repeat constructor|].
  exists [WriteReturn 1; WakeDone 1; Unregister 1]. eexists. split; [vm_compute; reflexivity|].
  split; [reflexivity|]. repeat constructor.
Qed.
