(* Bit-level facts about the packing loop of coding/gsm7bit (Model/Gsm7.v):
   the operational model (dst slice, index, bit) writes bit j of septet i at
   absolute bit offset 7i+j, panics exactly when it has to touch an octet
   beyond len(dst), and unpack_septets inverts it. *)
From V Require Import Model.Base Model.Gsm7.
From Coq Require Import ZifyN ZifyNat ZifyBool Arith.
Ltac Zify.zify_post_hook ::= Z.div_mod_to_equations.
Open Scope nat_scope.
Local Notation length := List.length.

(* bit p of an octet string: bit (p mod 8) of octet p/8, least significant first *)
Definition get_bit (d : bytes) (p : nat) : bool :=
  N.testbit (nth (p / 8) d 0%N) (N.of_nat (p mod 8)).

Definition septet_bits (ss : list N) : list bool := flat_map (bits_of 7) ss.
Definition octet_bits (d : bytes) : list bool := flat_map (bits_of 8) d.

(* the CR filler: appended exactly when seven bits would be spare *)
Definition with_filler (ss : list N) : list N :=
  if Nat.eqb (length ss mod 8) 7 then ss ++ [cr] else ss.

(* ---------------------------------------------------------------- bits_of / of_bits *)
Lemma bits_of_length w n : length (bits_of w n) = w.
Proof. revert n; induction w; simpl; auto. Qed.

Lemma nth_bits_of w : forall n k, k < w -> nth k (bits_of w n) false = N.testbit n (N.of_nat k).
Proof.
  induction w as [|w IH]; intros n k Hk; [lia|].
  cbn [bits_of]. destruct k as [|k].
  - cbn [nth]. change (N.of_nat 0) with 0%N. now rewrite N.bit0_odd.
  - cbn [nth]. rewrite IH by lia. rewrite Nat2N.inj_succ. now rewrite N.div2_spec, N.shiftr_spec', N.add_1_r.
Qed.

Lemma of_bits_bits_of w n : (n < 2 ^ N.of_nat w)%N -> of_bits (bits_of w n) = n.
Proof.
  revert n. induction w as [|w IH]; intros n Hn.
  - simpl in *. lia.
  - cbn [bits_of of_bits]. rewrite IH.
    + pose proof (N.div2_odd n) as H. unfold N.b2n in H. destruct (N.odd n); lia.
    + rewrite Nat2N.inj_succ, N.pow_succ_r' in Hn. rewrite N.div2_div.
      apply N.div_lt_upper_bound; lia.
Qed.

Lemma of_bits_lt l : (of_bits l < 2 ^ N.of_nat (length l))%N.
Proof.
  induction l as [|b l IH]; [simpl; lia|].
  cbn [length of_bits]. rewrite Nat2N.inj_succ, N.pow_succ_r'. destruct b; lia.
Qed.

(* ---------------------------------------------------------------- fixed-size flat_map *)
Lemma flat_map_fixed_length {A} (f : A -> list bool) k (l : list A) :
  (forall x, length (f x) = k) -> length (flat_map f l) = k * length l.
Proof.
  intros Hf. induction l as [|x l IH]; cbn [flat_map length]; [lia|].
  rewrite app_length, Hf, IH. lia.
Qed.

Lemma nth_flat_map_fixed {A} (f : A -> list bool) k (a0 : A) (Hf : forall x, length (f x) = k) :
  forall (l : list A) i j, i < length l -> j < k ->
  nth (k * i + j) (flat_map f l) false = nth j (f (nth i l a0)) false.
Proof.
  induction l as [|x l IH]; intros i j Hi Hj; cbn [length] in Hi; [lia|].
  cbn [flat_map]. destruct i as [|i].
  - rewrite Nat.mul_0_r, Nat.add_0_l. rewrite app_nth1 by (rewrite Hf; lia). reflexivity.
  - rewrite app_nth2 by (rewrite Hf; lia). rewrite Hf.
    replace (k * S i + j - k) with (k * i + j) by lia. cbn [nth]. apply IH; lia.
Qed.

Lemma nth_septet_bits ss i j : i < length ss -> j < 7 ->
  nth (7 * i + j) (septet_bits ss) false = N.testbit (nth i ss 0%N) (N.of_nat j).
Proof.
  intros Hi Hj. unfold septet_bits.
  rewrite (nth_flat_map_fixed (bits_of 7) 7 0%N (bits_of_length 7)) by assumption.
  now apply nth_bits_of.
Qed.

Lemma septet_bits_length ss : length (septet_bits ss) = 7 * length ss.
Proof. apply flat_map_fixed_length. apply bits_of_length. Qed.
Lemma octet_bits_length d : length (octet_bits d) = 8 * length d.
Proof. apply flat_map_fixed_length. apply bits_of_length. Qed.

Lemma nth_octet_bits d q : nth q (octet_bits d) false = get_bit d q.
Proof.
  unfold get_bit. destruct (Nat.lt_ge_cases q (8 * length d)) as [H|H].
  - replace q with (8 * (q / 8) + q mod 8) at 1 by lia. unfold octet_bits.
    rewrite (nth_flat_map_fixed (bits_of 8) 8 0%N (bits_of_length 8)) by lia.
    apply nth_bits_of. lia.
  - rewrite nth_overflow by (rewrite octet_bits_length; lia).
    rewrite (nth_overflow d) by lia. now rewrite N.bits_0.
Qed.

(* ---------------------------------------------------------------- octets from their bits *)
Lemma lt256_high_bits x : (x < 256)%N -> forall m, (8 <= m)%N -> N.testbit x m = false.
Proof.
  intros Hx m Hm. rewrite <- (N.mod_small x (2 ^ 8)) by exact Hx. now apply N.mod_pow2_bits_high.
Qed.

Lemma high_bits_lt256 x : (forall m, (8 <= m)%N -> N.testbit x m = false) -> (x < 256)%N.
Proof.
  intros H. assert (E : x = (x mod 2 ^ 8)%N).
  { apply N.bits_inj. intros m. destruct (N.lt_ge_cases m 8) as [L|G].
    - now rewrite N.mod_pow2_bits_low.
    - rewrite N.mod_pow2_bits_high by exact G. now apply H. }
  rewrite E. apply N.mod_upper_bound. discriminate.
Qed.

Lemma octet_eq_bits x y : (x < 256)%N -> (y < 256)%N ->
  (forall k, k < 8 -> N.testbit x (N.of_nat k) = N.testbit y (N.of_nat k)) -> x = y.
Proof.
  intros Hx Hy H. apply N.bits_inj. intros m. destruct (N.lt_ge_cases m 8) as [L|G].
  - specialize (H (N.to_nat m)). rewrite N2Nat.id in H. apply H. lia.
  - now rewrite !lt256_high_bits.
Qed.

Lemma bytes_ext (a b : bytes) :
  length a = length b -> octets a -> octets b -> (forall q, get_bit a q = get_bit b q) -> a = b.
Proof.
  intros Hl Ha Hb H. apply (nth_ext a b 0%N 0%N Hl). intros i Hi.
  unfold octets, octet in *. rewrite Forall_forall in Ha, Hb.
  apply octet_eq_bits.
  - apply Ha, nth_In, Hi.
  - apply Hb, nth_In. lia.
  - intros k Hk. specialize (H (8 * i + k)). unfold get_bit in H.
    replace ((8 * i + k) / 8) with i in H by lia. replace ((8 * i + k) mod 8) with k in H by lia. exact H.
Qed.

(* ---------------------------------------------------------------- upd *)
Lemma upd_length i v d : length (upd i v d) = length d.
Proof. revert i; induction d as [|x d IH]; intros [|i]; cbn [upd length]; auto. Qed.

Lemma nth_upd d : forall i j v, i < length d -> nth j (upd i v d) 0%N = if Nat.eqb j i then v else nth j d 0%N.
Proof.
  induction d as [|x d IH]; intros i j v Hi; cbn [length] in Hi; [lia|].
  destruct i as [|i]; destruct j as [|j]; cbn [upd nth Nat.eqb]; auto. apply IH. lia.
Qed.

Lemma upd_octets i v d : octets d -> (v < 256)%N -> octets (upd i v d).
Proof.
  unfold octets. intros Hd Hv. revert i. induction Hd as [|x d Hx Hd IH]; intros [|i]; cbn [upd]; constructor; auto.
Qed.

(* ---------------------------------------------------------------- one bit *)
Definition pos (st : pstate) : nat := 8 * p_index st + p_bit st.
Definition wf (st : pstate) : Prop := p_bit st < 8.

Lemma testbit_shiftl_b2n b k m : N.testbit (N.shiftl (N.b2n b) k) m = b && (m =? k)%N.
Proof.
  destruct b; cbn [N.b2n andb].
  - rewrite N.shiftl_1_l, N.pow2_bits_eqb. apply N.eqb_sym.
  - now rewrite N.shiftl_0_l, N.bits_0.
Qed.

Lemma lor_bit_lt256 o b k : (o < 256)%N -> (k < 8)%N -> (N.lor o (N.shiftl (N.b2n b) k) < 256)%N.
Proof.
  intros Ho Hk. apply high_bits_lt256. intros m Hm.
  rewrite N.lor_spec, testbit_shiftl_b2n, (lt256_high_bits o Ho m Hm).
  destruct b; cbn [orb andb]; [|reflexivity]. apply N.eqb_neq. lia.
Qed.

Lemma or_bit_panic st b : length (p_dst st) <= p_index st -> or_bit st b = Panic.
Proof.
  intros H. unfold or_bit. apply nth_error_None in H. now rewrite H.
Qed.

Lemma or_bit_ok st b : wf st -> p_index st < length (p_dst st) ->
  exists st', or_bit st b = Ok st' /\ wf st' /\ pos st' = S (pos st) /\
    length (p_dst st') = length (p_dst st) /\
    (octets (p_dst st) -> octets (p_dst st')) /\
    forall q, get_bit (p_dst st') q = if Nat.eqb q (pos st) then get_bit (p_dst st) q || b else get_bit (p_dst st) q.
Proof.
  intros Hwf Hi. unfold or_bit. destruct st as [d idx bit]. unfold wf, pos in *. cbn [p_dst p_index p_bit] in *.
  destruct (nth_error d idx) as [o|] eqn:Eo; [|apply nth_error_None in Eo; lia].
  assert (Eo' : nth idx d 0%N = o) by (now apply nth_error_nth).
  set (v := N.lor o (N.shiftl (N.b2n b) (N.of_nat bit))).
  assert (Hbits : forall q, get_bit (upd idx v d) q =
                            if Nat.eqb q (8 * idx + bit) then get_bit d q || b else get_bit d q).
  { intros q. unfold get_bit. rewrite nth_upd by exact Hi.
    destruct (Nat.eqb_spec (q / 8) idx) as [E|E].
    - unfold v. rewrite N.lor_spec, testbit_shiftl_b2n, <- Eo'.
      destruct (Nat.eqb_spec q (8 * idx + bit)) as [E2|E2]; rewrite <- E.
      + replace (N.of_nat (q mod 8) =? N.of_nat bit)%N with true by (symmetry; apply N.eqb_eq; lia).
        now rewrite andb_true_r.
      + replace (N.of_nat (q mod 8) =? N.of_nat bit)%N with false by (symmetry; apply N.eqb_neq; lia).
        now rewrite andb_false_r, orb_false_r.
    - destruct (Nat.eqb_spec q (8 * idx + bit)) as [E2|E2]; [lia|reflexivity]. }
  assert (Hoct : octets d -> octets (upd idx v d)).
  { intros Hd. apply upd_octets; [exact Hd|]. unfold v. apply lor_bit_lt256; [|lia].
    unfold octets in Hd. rewrite Forall_forall in Hd. apply Hd. rewrite <- Eo'. now apply nth_In. }
  destruct (Nat.eqb_spec (S bit) 8) as [E8|E8]; eexists; (split; [reflexivity|]);
    cbn [p_dst p_index p_bit]; rewrite upd_length; repeat split; try lia; auto.
Qed.

(* ---------------------------------------------------------------- a run of bits *)
Lemma or_bits_app st a b : or_bits st (a ++ b) = (do st' <- or_bits st a; or_bits st' b).
Proof.
  revert st; induction a as [|x a IH]; intros st; cbn [app or_bits obind]; [reflexivity|].
  destruct (or_bit st x); cbn [obind]; auto.
Qed.

Lemma or_bits_ok : forall bs st, wf st -> pos st + length bs <= 8 * length (p_dst st) ->
  exists st', or_bits st bs = Ok st' /\ wf st' /\ pos st' = pos st + length bs /\
    length (p_dst st') = length (p_dst st) /\
    (octets (p_dst st) -> octets (p_dst st')) /\
    forall q, get_bit (p_dst st') q =
      if (pos st <=? q) && (q <? pos st + length bs) then get_bit (p_dst st) q || nth (q - pos st) bs false
      else get_bit (p_dst st) q.
Proof.
  induction bs as [|b bs IH]; intros st Hwf Hfit.
  - exists st. cbn [or_bits length]. repeat split; auto.
    intros q. destruct (Nat.leb_spec (pos st) q), (Nat.ltb_spec q (pos st + 0)); cbn [andb]; auto; lia.
  - cbn [length] in Hfit. unfold wf, pos in *.
    destruct (or_bit_ok st b Hwf) as (st1 & E1 & W1 & P1 & L1 & O1 & B1); [lia|].
    unfold wf, pos in *.
    destruct (IH st1 W1) as (st2 & E2 & W2 & P2 & L2 & O2 & B2); [unfold pos; lia|].
    unfold pos in *.
    exists st2. cbn [or_bits]. rewrite E1. cbn [obind]. rewrite E2. cbn [length].
    repeat split; auto; try lia.
    intros q. rewrite B2, !B1.
    destruct (Nat.eqb_spec q (8 * p_index st + p_bit st)) as [Eq|Eq].
    + subst q. rewrite Nat.sub_diag. cbn [nth].
      destruct (Nat.leb_spec (8 * p_index st1 + p_bit st1) (8 * p_index st + p_bit st)); [lia|].
      destruct (Nat.leb_spec (8 * p_index st + p_bit st) (8 * p_index st + p_bit st)); [|lia].
      destruct (Nat.ltb_spec (8 * p_index st + p_bit st) (8 * p_index st + p_bit st + S (length bs))); [|lia].
      reflexivity.
    + destruct (Nat.leb_spec (8 * p_index st1 + p_bit st1) q),
               (Nat.ltb_spec q (8 * p_index st1 + p_bit st1 + length bs)),
               (Nat.leb_spec (8 * p_index st + p_bit st) q),
               (Nat.ltb_spec q (8 * p_index st + p_bit st + S (length bs))); cbn [andb]; try lia; auto.
      replace (q - (8 * p_index st + p_bit st)) with (S (q - (8 * p_index st1 + p_bit st1))) by lia.
      reflexivity.
Qed.

Lemma or_bits_panic : forall bs st, wf st -> pos st <= 8 * length (p_dst st) ->
  8 * length (p_dst st) < pos st + length bs -> or_bits st bs = Panic.
Proof.
  induction bs as [|b bs IH]; intros st Hwf Hle Hgt; cbn [length] in Hgt; [lia|].
  cbn [or_bits]. unfold wf, pos in *.
  destruct (Nat.lt_ge_cases (p_index st) (length (p_dst st))) as [Hi|Hi].
  - destruct (or_bit_ok st b Hwf Hi) as (st1 & E1 & W1 & P1 & L1 & _ & _). rewrite E1. cbn [obind].
    unfold pos in *. apply IH; unfold wf, pos; try lia; auto.
  - now rewrite or_bit_panic.
Qed.

(* ---------------------------------------------------------------- packSeptets *)
Lemma pack_all_bits : forall ss st, pack_all st ss = or_bits st (septet_bits ss).
Proof.
  induction ss as [|c ss IH]; intros st; cbn [pack_all septet_bits flat_map]; [reflexivity|].
  unfold pack_one. rewrite or_bits_app. destruct (or_bits st (bits_of 7 c)); cbn [obind]; auto.
Qed.

Lemma septet_bits_app a b : septet_bits (a ++ b) = septet_bits a ++ septet_bits b.
Proof. unfold septet_bits. now rewrite flat_map_app. Qed.

Lemma with_filler_length ss : length (with_filler ss) = length ss + (if Nat.eqb (length ss mod 8) 7 then 1 else 0).
Proof. unfold with_filler. destruct (Nat.eqb (length ss mod 8) 7); [rewrite app_length; simpl|]; lia. Qed.

Lemma blocks_spec n : blocks n = (n + 7) / 8.
Proof. unfold blocks. destruct (Nat.eqb_spec (n mod 8) 0); lia. Qed.

Lemma blocks_with_filler ss : blocks (7 * length (with_filler ss)) = blocks (7 * length ss).
Proof. rewrite with_filler_length, !blocks_spec. destruct (Nat.eqb_spec (length ss mod 8) 7); lia. Qed.

(* spare bits after the (possibly filled) septets: never seven *)
Lemma spare_with_filler ss : 8 * blocks (7 * length ss) - 7 * length (with_filler ss) < 7.
Proof. rewrite with_filler_length, blocks_spec. destruct (Nat.eqb_spec (length ss mod 8) 7); lia. Qed.

(* packSeptets is "write the bits of the filled septets from offset 0" *)
Lemma pack_septets_bits dst ss :
  pack_septets dst ss = (do st <- or_bits (mkp dst 0 0) (septet_bits (with_filler ss)); Ok (p_dst st)).
Proof.
  unfold pack_septets, with_filler. rewrite pack_all_bits.
  destruct (Nat.lt_ge_cases (8 * length dst) (7 * length ss)) as [Hshort|Hfit].
  - (* the septets themselves do not fit: both sides panic *)
    assert (P : or_bits (mkp dst 0 0) (septet_bits ss) = Panic).
    { apply or_bits_panic; unfold wf, pos; cbn [p_dst p_index p_bit]; rewrite ?septet_bits_length; lia. }
    rewrite P. cbn [obind]. destruct (Nat.eqb (length ss mod 8) 7); [|now rewrite P].
    now rewrite septet_bits_app, or_bits_app, P.
  - destruct (or_bits_ok (septet_bits ss) (mkp dst 0 0)) as (st & E & W & P & L & _ & _);
      [unfold wf; cbn; lia | unfold pos; cbn [p_dst p_index p_bit]; rewrite septet_bits_length; lia|].
    rewrite E. cbn [obind]. unfold wf, pos in *. cbn [p_dst p_index p_bit] in *. rewrite septet_bits_length in P.
    assert (Hb : p_bit st = (7 * length ss) mod 8) by lia.
    destruct (Nat.eqb_spec (length ss mod 8) 7) as [E7|E7].
    + replace (Nat.eqb (8 - p_bit st) 7) with true by (symmetry; apply Nat.eqb_eq; lia).
      rewrite septet_bits_app, or_bits_app, E. cbn [obind]. unfold pack_one, septet_bits. cbn [flat_map].
      now rewrite app_nil_r.
    + replace (Nat.eqb (8 - p_bit st) 7) with false by (symmetry; apply Nat.eqb_neq; lia).
      rewrite E. reflexivity.
Qed.

Lemma get_bit_zeros n q : get_bit (repeat 0%N n) q = false.
Proof.
  unfold get_bit. destruct (Nat.lt_ge_cases (q / 8) n).
  - rewrite nth_repeat. apply N.bits_0.
  - rewrite nth_overflow by (rewrite repeat_length; lia). apply N.bits_0.
Qed.

Lemma octets_zeros n : octets (repeat 0%N n).
Proof. unfold octets, octet. apply Forall_forall. intros x Hx. apply repeat_spec in Hx. subst. reflexivity. Qed.

(* Into a zeroed destination of dstlen octets: panics iff the filled septets
   need more octets than there are; otherwise every bit is where GSM 03.38 puts it. *)
Lemma pack_septets_zeroed dstlen ss :
  (dstlen < blocks (7 * length ss) -> pack_septets (repeat 0%N dstlen) ss = Panic) /\
  (blocks (7 * length ss) <= dstlen ->
   exists d, pack_septets (repeat 0%N dstlen) ss = Ok d /\ length d = dstlen /\ octets d /\
     forall q, get_bit d q = nth q (septet_bits (with_filler ss)) false).
Proof.
  rewrite pack_septets_bits. rewrite <- (blocks_with_filler ss). set (ss' := with_filler ss).
  rewrite blocks_spec. split; intros H.
  - rewrite or_bits_panic; [reflexivity|unfold wf; cbn; lia| |];
      unfold pos; cbn [p_dst p_index p_bit]; rewrite repeat_length, ?septet_bits_length; lia.
  - destruct (or_bits_ok (septet_bits ss') (mkp (repeat 0%N dstlen) 0 0)) as (st & E & W & P & L & O & B);
      [unfold wf; cbn; lia | unfold pos; cbn [p_dst p_index p_bit]; rewrite repeat_length, septet_bits_length; lia|].
    rewrite E. cbn [obind]. exists (p_dst st). cbn [p_dst] in *. rewrite repeat_length in L.
    repeat split; auto.
    + apply O, octets_zeros.
    + intros q. rewrite B. unfold pos. cbn [p_index p_bit]. rewrite !get_bit_zeros. cbn [orb Nat.add Nat.mul].
      rewrite Nat.sub_0_r. destruct (Nat.ltb_spec q (length (septet_bits ss'))); cbn [andb]; [reflexivity|].
      now rewrite nth_overflow.
Qed.

(* ---------------------------------------------------------------- unpackSeptets *)
Lemma unpack_bits_short : forall bs cur, length cur + length bs < 7 -> unpack_bits cur bs = [].
Proof.
  induction bs as [|b bs IH]; intros cur H; cbn [unpack_bits]; [reflexivity|].
  cbn [length] in H. rewrite app_length. cbn [length].
  destruct (Nat.eqb_spec (length cur + 1) 7); [lia|]. apply IH. rewrite app_length. cbn [length]. lia.
Qed.

Lemma unpack_bits_chunk : forall x cur rest, length cur + length x = 7 -> x <> [] ->
  unpack_bits cur (x ++ rest) = of_bits (cur ++ x) :: unpack_bits [] rest.
Proof.
  induction x as [|b x IH]; intros cur rest H Hne; [congruence|].
  cbn [app unpack_bits]. cbn [length] in H. rewrite app_length. cbn [length].
  destruct (Nat.eqb_spec (length cur + 1) 7) as [E|E].
  - destruct x; [|cbn [length] in H; lia]. cbn [app]. reflexivity.
  - destruct x as [|b' x]; [cbn [length] in H; lia|].
    rewrite IH; [|rewrite app_length; cbn [length] in *; lia|discriminate].
    now rewrite <- app_assoc.
Qed.

Lemma unpack_bits_septets ss pad : Forall (fun s => (s < 128)%N) ss -> length pad < 7 ->
  unpack_bits [] (septet_bits ss ++ pad) = ss.
Proof.
  intros Hs Hp. induction Hs as [|s ss Hs _ IH].
  - cbn [septet_bits flat_map app]. now apply unpack_bits_short.
  - cbn [septet_bits flat_map]. rewrite <- app_assoc.
    rewrite unpack_bits_chunk; [|rewrite bits_of_length; reflexivity|discriminate].
    cbn [app]. fold (septet_bits ss). rewrite IH. f_equal. now apply (of_bits_bits_of 7).
Qed.

Lemma unpack_bits_lt128 : forall bs cur, length cur < 7 -> Forall (fun s => (s < 128)%N) (unpack_bits cur bs).
Proof.
  induction bs as [|b bs IH]; intros cur H; cbn [unpack_bits]; [constructor|].
  destruct (Nat.eqb_spec (length (cur ++ [b])) 7) as [E|E].
  - constructor; [|apply IH; cbn; lia]. pose proof (of_bits_lt (cur ++ [b])) as L. rewrite E in L. exact L.
  - apply IH. rewrite app_length in *. cbn [length] in *. lia.
Qed.

Lemma unpack_septets_lt128 src : Forall (fun s => (s < 128)%N) (unpack_septets src).
Proof. apply unpack_bits_lt128. cbn; lia. Qed.

(* an octet string whose bits are those of the septets ss, zero beyond, and
   which is not long enough to hold another septet, unpacks to ss *)
Lemma unpack_of_layout d ss :
  Forall (fun s => (s < 128)%N) ss ->
  7 * length ss <= 8 * length d < 7 * length ss + 7 ->
  (forall q, get_bit d q = nth q (septet_bits ss) false) ->
  unpack_septets d = ss.
Proof.
  intros Hs Hl Hb. unfold unpack_septets. fold (octet_bits d).
  assert (E : octet_bits d = septet_bits ss ++ repeat false (8 * length d - 7 * length ss)).
  { apply (nth_ext _ _ false false).
    - rewrite app_length, octet_bits_length, septet_bits_length, repeat_length. lia.
    - intros q _. rewrite nth_octet_bits, Hb.
      destruct (Nat.lt_ge_cases q (length (septet_bits ss))) as [L|G].
      + now rewrite app_nth1.
      + rewrite app_nth2 by exact G. rewrite nth_overflow by exact G.
        destruct (Nat.lt_ge_cases (q - length (septet_bits ss)) (8 * length d - 7 * length ss)).
        * now rewrite nth_repeat.
        * rewrite nth_overflow; [reflexivity|]. rewrite repeat_length. lia. }
  rewrite E. apply unpack_bits_septets; [exact Hs|]. rewrite repeat_length. lia.
Qed.

Lemma firstn_all_eq {A} (l : list A) n : n = length l -> firstn n l = l.
Proof. intros ->. apply firstn_all. Qed.
