(* Multipart composition (Model/Compose.v), generic in the coding: what a
   successful call returns (sizes, labels, the segments behind the payloads,
   maximality), when it is refused, and the GSM 7-bit instance. *)
From V Require Import Model.Base Model.Gsm7 Model.Splitter Model.Compose
  Proofs.Gsm7Bits Proofs.Gsm7Proofs Proofs.SplitterProofs.
From Coq Require Import ZifyN ZifyNat ZifyBool Arith.
Ltac Zify.zify_post_hook ::= Z.div_mod_to_equations.
Open Scope nat_scope.
Local Notation length := List.length.
Local Notation concat := List.concat.

(* ---------------------------------------------------------------- the concatenation element *)
Lemma udh_len_concat_ie_le ref total seq : udh_len [concat_ie ref total seq] <= hdr_len ref + 1.
Proof.
  unfold concat_ie, hdr_len, udh_len. destruct (N.eqb_spec ((ref / 256) mod 256) 0); destruct (N.leb_spec ref 255); cbn; lia.
Qed.

Lemma udh_len_concat_ie ref total seq : (ref < 65536)%N -> udh_len [concat_ie ref total seq] = hdr_len ref + 1.
Proof.
  intros H. unfold concat_ie, hdr_len, udh_len.
  destruct (N.eqb_spec ((ref / 256) mod 256) 0); destruct (N.leb_spec ref 255); cbn; lia.
Qed.

(* the element decodes (UserDataHeader.ConcatenatedHeader) to the caller's reference, the total and the sequence *)
Lemma concat_of_concat_ie ref total seq : (ref < 65536)%N -> (total < 256)%N -> (seq < 256)%N ->
  concat_of_udh [concat_ie ref total seq] = Some (ref, total, seq).
Proof.
  intros Hr Ht Hs. unfold concat_ie. destruct (N.eqb_spec ((ref / 256) mod 256) 0) as [E|E].
  - cbn. rewrite !N.mod_small by lia. reflexivity.
  - cbn. rewrite (N.mod_small total), (N.mod_small seq) by lia. do 3 f_equal. lia.
Qed.

(* 8-bit form exactly for references up to 255 *)
Lemma concat_ie_form ref total seq : (ref < 65536)%N ->
  fst (concat_ie ref total seq) = (if (ref <=? 255)%N then 0 else 8)%N /\
  length (snd (concat_ie ref total seq)) = (if (ref <=? 255)%N then 3 else 4).
Proof.
  intros H. unfold concat_ie. destruct (N.eqb_spec ((ref / 256) mod 256) 0); destruct (N.leb_spec ref 255); cbn; split; try reflexivity; lia.
Qed.

Section Compose.
  Variable P : Type.
  Variable plen : P -> nat.
  Variable w : N -> nat.
  Variable enc : list N -> outcome P.
  Hypothesis w_pos : forall r, 0 < w r.

  Notation part := (part P).
  Notation cmp := (compose P plen w enc).
  Notation cparts := (compose_parts P plen enc).

  (* part i (0-based) of a composed message: segment s encoded on its own, labelled (ref, total, seq0 + i + 1) *)
  Inductive parts_rel (ref total : N) : N -> list (list N) -> list part -> Prop :=
  | pr_nil seq : parts_rel ref total seq [] []
  | pr_cons seq s rest p ps :
      enc s = Ok p ->
      udh_len [concat_ie ref total ((seq + 1) mod 256)] + plen p <= max_sm_len ->
      parts_rel ref total ((seq + 1) mod 256) rest ps ->
      parts_rel ref total seq (s :: rest) (mkpart [concat_ie ref total ((seq + 1) mod 256)] p :: ps).

  Lemma compose_parts_rel ref total : forall segs seq parts,
    cparts ref total seq segs = Ok parts -> parts_rel ref total seq segs parts.
  Proof.
    induction segs as [|s rest IH]; intros seq parts H; cbn [compose_parts] in H.
    - injection H as <-. constructor.
    - destruct (enc s) as [p| |] eqn:E; cbn [obind] in H; try discriminate.
      destruct (Nat.ltb_spec max_sm_len (udh_len [concat_ie ref total ((seq + 1) mod 256)] + plen p)) as [L|L]; [discriminate|].
      destruct (compose_parts P plen enc ref total ((seq + 1) mod 256) rest) as [ps| |] eqn:E2; cbn [obind] in H; try discriminate.
      injection H as <-. constructor; auto.
  Qed.

  Lemma parts_rel_nth ref total : forall segs seq parts, parts_rel ref total seq segs parts ->
    (N.to_nat seq + length segs < 256) ->
    length parts = length segs /\
    forall i s, nth_error segs i = Some s ->
      exists p, enc s = Ok p /\
        nth_error parts i = Some (mkpart [concat_ie ref total (seq + N.of_nat i + 1)] p) /\
        udh_len [concat_ie ref total (seq + N.of_nat i + 1)] + plen p <= max_sm_len.
  Proof.
    induction 1 as [|seq s rest p ps E L _ IH]; intros Hs.
    - split; [reflexivity|]. intros [|i] s H; discriminate.
    - cbn [length] in Hs. rewrite N.mod_small in * by lia.
      destruct IH as [IH1 IH2]; [lia|]. split; [cbn [length]; lia|].
      intros [|i] s0 H; cbn [nth_error] in *.
      + injection H as <-. exists p. change (N.of_nat 0) with 0%N. rewrite N.add_0_r. auto.
      + destruct (IH2 i s0 H) as (p0 & E0 & N0 & L0). exists p0.
        replace (seq + N.of_nat (S i) + 1)%N with (seq + 1 + N.of_nat i + 1)%N by lia. auto.
  Qed.

  (* ---- what a successful call returns -------------------------------- *)
  Theorem compose_single ref t parts : cmp ref t = Ok parts -> text_len w t <= max_sm_len ->
    exists p, enc t = Ok p /\ parts = [mkpart [] p] /\ plen p <= max_sm_len.
  Proof.
    unfold compose. intros H L. destruct (Nat.leb_spec (text_len w t) max_sm_len); [|lia].
    destruct (enc t) as [p| |]; cbn [obind] in H; try discriminate.
    destruct (Nat.ltb_spec max_sm_len (plen p)); [discriminate|]. injection H as <-. exists p. auto.
  Qed.

  Theorem compose_multi ref t parts : cmp ref t = Ok parts -> max_sm_len < text_len w t ->
    exists segs, split w (max_sm_len - 1 - hdr_len ref) t = Ok segs /\
      2 <= length segs <= 254 /\ length parts = length segs /\
      forall i s, nth_error segs i = Some s ->
        exists p, enc s = Ok p /\
          nth_error parts i = Some (mkpart [concat_ie ref (N.of_nat (length segs)) (N.of_nat (i + 1))] p) /\
          udh_len [concat_ie ref (N.of_nat (length segs)) (N.of_nat (i + 1))] + plen p <= max_sm_len.
  Proof.
    unfold compose. intros H L. destruct (Nat.leb_spec (text_len w t) max_sm_len); [lia|].
    destruct (split w (max_sm_len - 1 - hdr_len ref) t) as [segs| |] eqn:ES; cbn [obind] in H; try discriminate.
    destruct (Nat.ltb_spec 254 (length segs)) as [L2|L2]; [discriminate|].
    exists segs. split; [reflexivity|].
    assert (H2 : 2 <= length segs).
    { apply (split_at_least_two w w_pos _ _ _ ES). unfold text_len, max_sm_len, hdr_len in *. destruct (ref <=? 255)%N; lia. }
    rewrite N.mod_small in H by lia.
    apply compose_parts_rel in H. apply parts_rel_nth in H; [|cbn; lia]. destruct H as [H3 H4].
    repeat split; auto. intros i s Hi. destruct (H4 i s Hi) as (p & E & N1 & L1). exists p.
    replace (N.of_nat (i + 1)) with (0 + N.of_nat i + 1)%N by lia. auto.
  Qed.

  (* ---- every part fits ------------------------------------------------ *)
  Theorem compose_fits ref t parts : cmp ref t = Ok parts ->
    Forall (fun pt => udh_len (pt_udh pt) + plen (pt_payload pt) <= max_sm_len) parts.
  Proof.
    intros H. destruct (Nat.le_gt_cases (text_len w t) max_sm_len) as [L|L].
    - destruct (compose_single _ _ _ H L) as (p & _ & -> & Lp). constructor; [cbn [pt_udh pt_payload udh_len Nat.add]; exact Lp|constructor].
    - destruct (compose_multi _ _ _ H L) as (segs & _ & _ & Hl & Hn).
      apply Forall_forall. intros pt Hin. apply In_nth_error in Hin. destruct Hin as [i Hi].
      assert (i < length segs) by (rewrite <- Hl; apply nth_error_Some; congruence).
      destruct (nth_error segs i) as [s|] eqn:Es; [|apply nth_error_None in Es; lia].
      destruct (Hn i s Es) as (p & _ & N1 & L1). rewrite Hi in N1. injection N1 as ->. exact L1.
  Qed.

  (* ---- labels ---------------------------------------------------------- *)
  Theorem compose_labels ref t parts : (ref < 65536)%N -> cmp ref t = Ok parts ->
    (exists p, parts = [mkpart [] p]) \/
    (2 <= length parts <= 254 /\
     forall i pt, nth_error parts i = Some pt ->
       exists ie, pt_udh pt = [ie] /\
         concat_of_udh (pt_udh pt) = Some (ref, N.of_nat (length parts), N.of_nat (i + 1)) /\
         fst ie = (if (ref <=? 255)%N then 0 else 8)%N).
  Proof.
    intros Hr H. destruct (Nat.le_gt_cases (text_len w t) max_sm_len) as [L|L].
    - left. destruct (compose_single _ _ _ H L) as (p & _ & -> & _). eauto.
    - right. destruct (compose_multi _ _ _ H L) as (segs & _ & Hc & Hl & Hn). rewrite Hl. split; [exact Hc|].
      intros i pt Hi.
      assert (i < length segs) by (rewrite <- Hl; apply nth_error_Some; congruence).
      destruct (nth_error segs i) as [s|] eqn:Es; [|apply nth_error_None in Es; lia].
      destruct (Hn i s Es) as (p & _ & N1 & _). rewrite Hi in N1. injection N1 as ->. cbn [pt_udh].
      eexists. split; [reflexivity|]. split; [apply concat_of_concat_ie; lia|apply concat_ie_form; exact Hr].
  Qed.

  (* ---- nothing lost: the payloads are the encodings of consecutive pieces of the text --- *)
  Lemma nth_rel_forall2 ref : forall k (segs0 : list (list N)) (parts0 : list part) total, length parts0 = length segs0 ->
    (forall i s, nth_error segs0 i = Some s -> exists p, enc s = Ok p /\
       nth_error parts0 i = Some (mkpart [concat_ie ref total (N.of_nat (k + i + 1))] p) /\
       udh_len [concat_ie ref total (N.of_nat (k + i + 1))] + plen p <= max_sm_len) ->
    Forall2 (fun pt s => enc s = Ok (pt_payload pt)) parts0 segs0.
  Proof.
    intros k segs0. revert k. induction segs0 as [|s segs0 IH]; intros k parts0 total Hl Hn.
    - destruct parts0; [constructor|discriminate].
    - destruct parts0 as [|pt parts0]; [discriminate|]. constructor.
      + destruct (Hn 0 s eq_refl) as (p & E & N1 & _). cbn in N1. injection N1 as ->. exact E.
      + apply (IH (S k) parts0 total); [cbn in Hl; lia|]. intros i s0 Hi. destruct (Hn (S i) s0 Hi) as (p & E & N1 & L1).
        exists p. cbn [nth_error] in N1. replace (S k + i + 1) with (k + S i + 1) by lia. auto.
  Qed.

  Theorem compose_segments ref t parts : cmp ref t = Ok parts ->
    exists segs, concat segs = t /\ Forall2 (fun pt s => enc s = Ok (pt_payload pt)) parts segs /\
      (length segs = 1 \/ Forall (fun s => s <> []) segs).
  Proof.
    intros H. destruct (Nat.le_gt_cases (text_len w t) max_sm_len) as [L|L].
    - destruct (compose_single _ _ _ H L) as (p & E & -> & _). exists [t]. cbn. rewrite app_nil_r. repeat constructor. exact E.
    - destruct (compose_multi _ _ _ H L) as (segs & ES & _ & Hl & Hn). exists segs.
      split; [apply (split_concat w w_pos _ _ _ ES)|]. split; [|right; apply (split_nonempty w _ _ _ ES)].
      apply (nth_rel_forall2 ref 0 segs parts (N.of_nat (length segs)) Hl). exact Hn.
  Qed.

  Lemma maximal_nth lim : forall segs, maximal w lim segs -> forall i s r s',
    nth_error segs i = Some s -> nth_error segs (S i) = Some (r :: s') -> lim < total w s + w r.
  Proof.
    induction 1 as [|s0|s0 r0 t0 rest Hlt Hm IH]; intros i s r s' H1 H2.
    - destruct i; discriminate.
    - destruct i as [|i]; cbn in H2; [discriminate|]. destruct i; discriminate.
    - destruct i as [|i]; cbn [nth_error] in H1, H2.
      + injection H1 as <-. injection H2 as <- <-. exact Hlt.
      + apply (IH i s r s' H1 H2).
  Qed.

  (* ---- maximality: no part but the last could have taken the next character (by the width function) --- *)
  Theorem compose_maximal ref t parts : (ref < 65536)%N -> cmp ref t = Ok parts -> max_sm_len < text_len w t ->
    exists segs, concat segs = t /\ Forall2 (fun pt s => enc s = Ok (pt_payload pt)) parts segs /\
      maximal w (8 * (max_sm_len - udh_len [concat_ie ref (N.of_nat (length parts)) 1])) segs.
  Proof.
    intros Hr H L. destruct (compose_multi _ _ _ H L) as (segs & ES & _ & Hl & Hn). exists segs.
    split; [apply (split_concat w w_pos _ _ _ ES)|].
    split; [apply (nth_rel_forall2 ref 0 segs parts (N.of_nat (length segs)) Hl); exact Hn|].
    rewrite udh_len_concat_ie by exact Hr. replace (max_sm_len - (hdr_len ref + 1)) with (max_sm_len - 1 - hdr_len ref) by lia.
    apply (split_maximal w w_pos _ _ _ ES).
  Qed.

  (* in octets: if Splitter.Len is exact for the coding (fixed-width alphabets: 7 bits per character of the
     GSM default table, 8 per character of a single-octet charset, 16 per BMP character in UCS-2), then
     appending the next character to any part but the last would push header + payload beyond 140 octets *)
  Theorem compose_maximal_octets ref t parts : (ref < 65536)%N -> cmp ref t = Ok parts -> max_sm_len < text_len w t ->
    exists segs, concat segs = t /\ Forall2 (fun pt s => enc s = Ok (pt_payload pt)) parts segs /\
      forall i pt s r s', nth_error parts i = Some pt -> nth_error segs i = Some s -> nth_error segs (S i) = Some (r :: s') ->
        max_sm_len < udh_len (pt_udh pt) + (total w (s ++ [r]) + 7) / 8.
  Proof.
    intros Hr H L. destruct (compose_maximal ref t parts Hr H L) as (segs & C & F & M). exists segs.
    split; [exact C|]. split; [exact F|]. intros i pt s r s' Hp Hs Hs'.
    pose proof (maximal_nth _ _ M i s r s' Hs Hs') as K.
    destruct (compose_multi _ _ _ H L) as (segs2 & _ & _ & Hl & Hn).
    assert (U : udh_len (pt_udh pt) = hdr_len ref + 1).
    { assert (i < length segs2) by (rewrite <- Hl; apply nth_error_Some; congruence).
      destruct (nth_error segs2 i) as [s2|] eqn:E2; [|apply nth_error_None in E2; lia].
      destruct (Hn i s2 E2) as (p & _ & N1 & _). rewrite Hp in N1. injection N1 as ->. cbn [pt_udh].
      now apply udh_len_concat_ie. }
    rewrite udh_len_concat_ie in K by exact Hr. rewrite U.
    assert (T : total w (s ++ [r]) = total w s + w r).
    { clear. induction s as [|x s IH]; cbn [app total fold_right]; [lia|]. fold (total w (s ++ [r])). fold (total w s). lia. }
    rewrite T. unfold max_sm_len, hdr_len in *. destruct (ref <=? 255)%N; lia.
  Qed.

  (* ---- refusals ---------------------------------------------------------- *)
  Theorem compose_too_many ref t segs : max_sm_len < text_len w t ->
    split w (max_sm_len - 1 - hdr_len ref) t = Ok segs -> 254 < length segs -> cmp ref t = Err ECount.
  Proof.
    intros L ES Hn. unfold compose. destruct (Nat.leb_spec (text_len w t) max_sm_len); [lia|].
    rewrite ES. cbn [obind]. destruct (Nat.ltb_spec 254 (length segs)); [reflexivity|lia].
  Qed.

  (* success implies at most 254 parts *)
  Theorem compose_at_most_254 ref t parts : cmp ref t = Ok parts -> 1 <= length parts <= 254.
  Proof.
    intros H. destruct (Nat.le_gt_cases (text_len w t) max_sm_len) as [L|L].
    - destruct (compose_single _ _ _ H L) as (p & _ & -> & _). cbn. lia.
    - destruct (compose_multi _ _ _ H L) as (segs & _ & Hc & Hl & _). lia.
  Qed.

  (* ---- outcomes: no panic of its own, no divergence ------------------------ *)
  Lemma compose_parts_no_panic ref total : (forall s, enc s <> Panic) -> forall segs seq, cparts ref total seq segs <> Panic.
  Proof.
    intros Hn. induction segs as [|s rest IH]; intros seq; cbn [compose_parts]; [discriminate|].
    specialize (Hn s). destruct (enc s) as [p| |]; cbn [obind]; [|discriminate|congruence].
    destruct (Nat.ltb max_sm_len (udh_len [concat_ie ref total ((seq + 1) mod 256)] + plen p)); [discriminate|].
    specialize (IH ((seq + 1) mod 256)%N). destruct (compose_parts P plen enc ref total ((seq + 1) mod 256) rest); cbn [obind]; congruence.
  Qed.

  Theorem compose_no_panic ref t : (forall s, enc s <> Panic) -> cmp ref t <> Panic.
  Proof.
    intros Hn. unfold compose. destruct (Nat.leb (text_len w t) max_sm_len).
    - specialize (Hn t). destruct (enc t) as [p| |]; cbn [obind]; [|discriminate|congruence].
      destruct (Nat.ltb max_sm_len (plen p)); discriminate.
    - destruct (split_outcome w (max_sm_len - 1 - hdr_len ref) t) as [[segs E]|E]; rewrite E; cbn [obind]; [|discriminate].
      destruct (Nat.ltb 254 (length segs)); [discriminate|]. now apply compose_parts_no_panic.
  Qed.

  Lemma compose_parts_no_fuel ref total : (forall s, enc s <> Err EFuel) -> forall segs seq, cparts ref total seq segs <> Err EFuel.
  Proof.
    intros Hn. induction segs as [|s rest IH]; intros seq; cbn [compose_parts]; [discriminate|].
    specialize (Hn s). destruct (enc s) as [p|e|]; cbn [obind]; [|congruence|discriminate].
    destruct (Nat.ltb max_sm_len (udh_len [concat_ie ref total ((seq + 1) mod 256)] + plen p)); [discriminate|].
    specialize (IH ((seq + 1) mod 256)%N). destruct (compose_parts P plen enc ref total ((seq + 1) mod 256) rest); cbn [obind]; congruence.
  Qed.

  (* Split terminates inside Compose: no character is wider than a part *)
  Theorem compose_no_fuel ref t : (forall r, w r <= 8 * 133) -> (forall s, enc s <> Err EFuel) -> cmp ref t <> Err EFuel.
  Proof.
    intros Hw Hn. unfold compose. destruct (Nat.leb (text_len w t) max_sm_len).
    - specialize (Hn t). destruct (enc t) as [p|e|]; cbn [obind]; [|congruence|discriminate].
      destruct (Nat.ltb max_sm_len (plen p)); discriminate.
    - destruct (split_terminates w (max_sm_len - 1 - hdr_len ref) t) as [segs E].
      { apply Forall_forall. intros r _. specialize (Hw r). unfold max_sm_len, hdr_len. destruct (ref <=? 255)%N; lia. }
      rewrite E. cbn [obind]. destruct (Nat.ltb 254 (length segs)); [discriminate|]. now apply compose_parts_no_fuel.
  Qed.

  (* ---- an error the encoder does not give on any piece of the text is not given by Compose either ---- *)
  Lemma compose_parts_err_local ref total e : e <> ESize ->
    forall segs seq, (forall s, In s segs -> enc s <> Err e) -> cparts ref total seq segs <> Err e.
  Proof.
    intros He. induction segs as [|s rest IH]; intros seq Hn; cbn [compose_parts]; [discriminate|].
    pose proof (Hn s (or_introl eq_refl)) as Hs. destruct (enc s) as [p|e'|]; cbn [obind]; [|congruence|discriminate].
    destruct (Nat.ltb max_sm_len (udh_len [concat_ie ref total ((seq + 1) mod 256)] + plen p)); [congruence|].
    specialize (IH ((seq + 1) mod 256)%N (fun s' Hs' => Hn s' (or_intror Hs'))).
    destruct (compose_parts P plen enc ref total ((seq + 1) mod 256) rest); cbn [obind]; congruence.
  Qed.

  Theorem compose_err_local ref t e : e <> ESize -> e <> ECount -> e <> EFuel ->
    (forall s, (forall r, In r s -> In r t) -> enc s <> Err e) -> cmp ref t <> Err e.
  Proof.
    intros H1 H2 H3 Hn. unfold compose. destruct (Nat.leb (text_len w t) max_sm_len).
    - pose proof (Hn t (fun r Hr => Hr)) as Ht. destruct (enc t) as [p|e'|]; cbn [obind]; [|congruence|discriminate].
      destruct (Nat.ltb max_sm_len (plen p)); congruence.
    - destruct (split_outcome w (max_sm_len - 1 - hdr_len ref) t) as [[segs E]|E]; rewrite E; cbn [obind]; [|congruence].
      destruct (Nat.ltb 254 (length segs)); [congruence|].
      apply compose_parts_err_local; [exact H1|]. intros s Hs. apply Hn. intros r Hr.
      rewrite <- (split_concat w w_pos _ _ _ E). apply in_concat. exists s. split; assumption.
  Qed.

  (* ---- the parts returned together with an error: a prefix of a well-formed message, never anything else ---- *)
  Lemma compose_parts_done_ok ref total : forall segs seq ps,
    cparts ref total seq segs = Ok ps -> compose_parts_done P plen enc ref total seq segs = ps.
  Proof.
    induction segs as [|s rest IH]; intros seq ps H; cbn [compose_parts compose_parts_done] in *; [now injection H as <-|].
    destruct (enc s) as [p|e|]; cbn [obind] in H; try discriminate.
    destruct (Nat.ltb max_sm_len (udh_len [concat_ie ref total ((seq + 1) mod 256)] + plen p)); [discriminate|].
    destruct (compose_parts P plen enc ref total ((seq + 1) mod 256) rest) as [ps'|e|] eqn:E; cbn [obind] in H; try discriminate.
    injection H as <-. f_equal. exact (IH _ _ E).
  Qed.

  Lemma compose_parts_done_prefix ref total : forall segs seq,
    exists k, cparts ref total seq (firstn k segs) = Ok (compose_parts_done P plen enc ref total seq segs).
  Proof.
    induction segs as [|s rest IH]; intros seq; [exists 0; reflexivity|].
    cbn [compose_parts_done]. destruct (enc s) as [p|e|] eqn:E; [|exists 0; reflexivity|exists 0; reflexivity].
    destruct (Nat.ltb max_sm_len (udh_len [concat_ie ref total ((seq + 1) mod 256)] + plen p)) eqn:L; [exists 0; reflexivity|].
    destruct (IH ((seq + 1) mod 256)%N) as [k Hk]. exists (S k). cbn [firstn compose_parts]. rewrite E. cbn [obind]. rewrite L, Hk. reflexivity.
  Qed.

  (* on success the returned parts are the parts; with an error they are what a SUCCESSFUL composition of the first k segments
     would have returned (so each of them fits 140 octets and is labelled (ref, N, i): compose_parts_rel applies) *)
  Theorem compose_returned_multi_ok ref t parts : cmp ref t = Ok parts -> max_sm_len < text_len w t ->
    compose_returned_multi P plen w enc ref t = parts.
  Proof.
    intros H L. unfold compose in H. unfold compose_returned_multi.
    destruct (Nat.leb_spec (text_len w t) max_sm_len); [lia|].
    destruct (split w (max_sm_len - 1 - hdr_len ref) t) as [segs|e|]; cbn [obind] in H; try discriminate.
    destruct (Nat.ltb 254 (length segs)); [discriminate|]. now apply compose_parts_done_ok.
  Qed.

  Theorem compose_returned_multi_prefix ref t : forall segs, split w (max_sm_len - 1 - hdr_len ref) t = Ok segs ->
    length segs <= 254 ->
    exists k, cparts ref (N.of_nat (length segs) mod 256) 0 (firstn k segs) = Ok (compose_returned_multi P plen w enc ref t).
  Proof.
    intros segs ES Hl. unfold compose_returned_multi. rewrite ES.
    destruct (Nat.ltb_spec 254 (length segs)); [lia|]. apply compose_parts_done_prefix.
  Qed.

  (* ---- the size check never fires when Splitter.Len bounds the encoder ---- *)
  Hypothesis enc_len_sound : forall s p, enc s = Ok p -> plen p <= (total w s + 7) / 8.
  Hypothesis enc_no_esize : forall s, enc s <> Err ESize.

  Lemma compose_parts_no_esize ref total lim : forall segs seq,
    Forall (fun s => Splitter.total w s <= 8 * lim) segs -> lim + hdr_len ref + 1 <= max_sm_len ->
    cparts ref total seq segs <> Err ESize.
  Proof.
    induction segs as [|s rest IH]; intros seq F Hl; cbn [compose_parts]; [discriminate|].
    inversion F as [|? ? Fs Frest]; subst.
    destruct (enc s) as [p|e|] eqn:E; cbn [obind]; [| |discriminate].
    - pose proof (enc_len_sound _ _ E) as B. pose proof (udh_len_concat_ie_le ref total ((seq + 1) mod 256)) as U.
      destruct (Nat.ltb_spec max_sm_len (udh_len [concat_ie ref total ((seq + 1) mod 256)] + plen p)) as [X|X]; [lia|].
      specialize (IH ((seq + 1) mod 256)%N Frest Hl).
      destruct (compose_parts P plen enc ref total ((seq + 1) mod 256) rest); cbn [obind]; congruence.
    - intros [= ->]. now apply (enc_no_esize s).
  Qed.

  Theorem compose_no_esize ref t : cmp ref t <> Err ESize.
  Proof.
    unfold compose. destruct (Nat.leb_spec (text_len w t) max_sm_len) as [L|L].
    - destruct (enc t) as [p|e|] eqn:E; cbn [obind]; [| |discriminate].
      + pose proof (enc_len_sound _ _ E) as B. unfold text_len in L.
        destruct (Nat.ltb_spec max_sm_len (plen p)); [lia|discriminate].
      + intros [= ->]. now apply (enc_no_esize t).
    - destruct (split w (max_sm_len - 1 - hdr_len ref) t) as [segs|e|] eqn:ES; cbn [obind]; [| |discriminate].
      + destruct (Nat.ltb 254 (length segs)); [discriminate|].
        apply (compose_parts_no_esize ref _ (max_sm_len - 1 - hdr_len ref)).
        * apply (split_fits w _ _ _ ES).
        * unfold max_sm_len, hdr_len. destruct (ref <=? 255)%N; lia.
      + destruct (split_outcome w (max_sm_len - 1 - hdr_len ref) t) as [[x Ex]|Ex]; rewrite Ex in ES; [discriminate|].
        injection ES as <-. discriminate.
  Qed.
End Compose.
