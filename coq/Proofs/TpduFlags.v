(* C19, first-octet parameters BY NAME: what each named field of the decoded DeliverFlags / SubmitFlags
   structure holds, for every well-formed TPDU of the layout model.  [DF] / [SF] are the field lists of the
   two structs regenerated from the running code (names and declaration order), so a field that moves to
   another bit or swaps places with another one breaks these lemmas (the octets alone cannot see that). *)
From V Require Import Model.TpduRun Spec.Gsm0340 Proofs.SmsOctetTables Proofs.TpduRoundtrip.
From Coq Require Import ZifyN ZifyNat ZifyBool.
Open Scope N_scope.
Local Open Scope string_scope.

(* the parameters of GSM 03.40 9.2.2.1 under the Go field names *)
Definition deliver_flags_named (t : s_deliver) (fl : list N) : Prop :=
  flag_get DF fl "MessageType" = 0%N /\                                  (* TP-MTI 00, direction MT: MessageTypeDeliver *)
  flag_get DF fl "MoreMessagesToSend" = b2n (d_mms t) /\                 (* bit 2 TP-MMS *)
  flag_get DF fl "StatusReportIndication" = b2n (d_sri t) /\             (* bit 5 TP-SRI *)
  flag_get DF fl "TPUDHI" = b2n (d_udhi t) /\                            (* bit 6 TP-UDHI *)
  flag_get DF fl "TPRP" = b2n (d_rp t) /\                                (* bit 7 TP-RP *)
  (* known finding: the two fields named after TP-RP / TP-UDHI hold the unused bits 3 / 4 *)
  flag_get DF fl "ReplyPath" = b2n (d_bit3 t) /\
  flag_get DF fl "UDHIndicator" = b2n (d_bit4 t).

(* the parameters of GSM 03.40 9.2.2.2 under the Go field names *)
Definition submit_flags_named (t : s_submit) (fl : list N) : Prop :=
  flag_get SF fl "MessageType" = 3%N /\                                  (* TP-MTI 01, direction MO: MessageTypeSubmit *)
  flag_get SF fl "RejectDuplicates" = b2n (s_rd t) /\                    (* bit 2 TP-RD *)
  flag_get SF fl "ValidityPeriodFormat" = vpf_bits (s_vp t) /\           (* bits 4..3 TP-VPF *)
  flag_get SF fl "StatusReportRequest" = b2n (s_srr t) /\                (* bit 5 TP-SRR *)
  flag_get SF fl "UserDataHeaderIndicator" = b2n (s_udhi t) /\           (* bit 6 TP-UDHI *)
  flag_get SF fl "ReplyPath" = b2n (s_rp t).                             (* bit 7 TP-RP *)

Lemma deliver_flags_named_ok t : deliver_flags_named t (unmarshal_flags DF (deliver_first_octet t) 0).
Proof.
  unfold deliver_flags_named, deliver_first_octet.
  destruct (d_mms t), (d_bit3 t), (d_bit4 t), (d_sri t), (d_udhi t), (d_rp t); vm_compute; repeat split; reflexivity.
Qed.

Lemma submit_flags_named_ok t : submit_flags_named t (submit_vals (submit_first_octet t)).
Proof.
  unfold submit_flags_named, submit_first_octet.
  destruct (s_rd t), (s_srr t), (s_udhi t), (s_rp t), (s_vp t); vm_compute; repeat split; reflexivity.
Qed.

Theorem deliver_flags_by_name t :
  deliver_wf t -> addr_ok (d_oa t) ->
  exists sc fl oa ts ud,
    sms_unmarshal (layout_deliver t) =
      Ok ("Deliver", [TVAddr sc; TVFlags fl; TVAddr oa; TVByte (d_pid t); TVByte (d_dcs t); TVTime ts; TVBytes ud]) /\
    deliver_flags_named t fl.
Proof.
  intros Hwf Hok. do 5 eexists. split; [apply deliver_decode; assumption|]. apply deliver_flags_named_ok.
Qed.

Theorem submit_flags_by_name t :
  submit_wf t -> addr_ok (s_da t) ->
  exists fl da v ud,
    sms_unmarshal (layout_submit t) =
      Ok ("Submit", [TVAddr addr0; TVFlags fl; TVByte (s_mr t); TVAddr da; TVByte (s_pid t); TVByte (s_dcs t); TVVP v; TVBytes ud]) /\
    submit_flags_named t fl.
Proof.
  intros Hwf Hok. do 4 eexists. split; [apply submit_decode; assumption|]. apply submit_flags_named_ok.
Qed.

(* the known finding: a well-formed SMS-DELIVER with TP-UDHI and TP-RP set (and bits 3, 4 clear) decodes with
   ReplyPath = UDHIndicator = false *)
Lemma deliver_old_flag_fields_refuted :
  deliver_wf w_deliver /\ d_rp w_deliver = true /\ d_udhi w_deliver = true /\
  exists vs fl, sms_unmarshal (layout_deliver w_deliver) = Ok ("Deliver", vs) /\ nth_error vs 1 = Some (TVFlags fl) /\
    flag_get DF fl "ReplyPath" = 0%N /\ flag_get DF fl "UDHIndicator" = 0%N /\
    flag_get DF fl "TPRP" = 1%N /\ flag_get DF fl "TPUDHI" = 1%N.
Proof.
  split; [exact w_deliver_wf|]. split; [reflexivity|]. split; [reflexivity|].
  eexists. eexists. split; [vm_compute; reflexivity|]. vm_compute. repeat split; reflexivity.
Qed.

(* the repaired defect: with the field order of SubmitFlags before fix 922f91c (ReplyPath declared before
   UserDataHeaderIndicator and StatusReportRequest) a first octet with only TP-SRR set (0x21) shows
   ReplyPath = 1, StatusReportRequest = 0; with the order of the running code it shows the standard's values *)
Definition submit_fields_legacy : list (string * fbit) :=
  [("MessageType", FbMT); ("RejectDuplicates", FbBool); ("ValidityPeriodFormat", FbByte);
   ("ReplyPath", FbBool); ("UserDataHeaderIndicator", FbBool); ("StatusReportRequest", FbBool)].
Lemma submit_flag_names_legacy_refuted :
  flag_get submit_fields_legacy (unmarshal_flags submit_fields_legacy 33 0) "ReplyPath" = 1%N /\
  flag_get submit_fields_legacy (unmarshal_flags submit_fields_legacy 33 0) "StatusReportRequest" = 0%N /\
  flag_get SF (unmarshal_flags SF 33 0) "ReplyPath" = 0%N /\
  flag_get SF (unmarshal_flags SF 33 0) "StatusReportRequest" = 1%N /\
  marshal_flags submit_fields_legacy (unmarshal_flags submit_fields_legacy 33 0) 0 = 33%N.
Proof. vm_compute. repeat split; reflexivity. Qed.
