(* ReadPDU over a fragmented transport (Model/Pdu.v: readfull, read_pdu,
   read_many): re-framing under EVERY read schedule, exact consumption,
   truncation.  Used by Properties/C03.v, C04.v, C16.v. *)
From V Require Import Model.Pdu Proofs.PduMarshalProofs.
From Coq Require Import ZifyN ZifyNat ZifyBool.
Ltac Zify.zify_post_hook ::= Z.div_mod_to_equations.
Open Scope N_scope.

(* ------------------------------------------------------------ list facts *)
Lemma firstn_split_app {A} (k n : nat) (s : list A) :
  (k <= n)%nat -> firstn k s ++ firstn (n - k) (skipn k s) = firstn n s.
Proof.
  revert n s. induction k as [|k IH]; intros n s Hk.
  - cbn. now rewrite Nat.sub_0_r.
  - destruct n as [|n]; [lia|]. destruct s as [|x s]; cbn.
    + now rewrite firstn_nil.
    + f_equal. apply IH. lia.
Qed.

Lemma skipn_skipn' {A} (k n : nat) (s : list A) :
  (k <= n)%nat -> skipn (n - k) (skipn k s) = skipn n s.
Proof.
  revert n s. induction k as [|k IH]; intros n s Hk.
  - cbn. now rewrite Nat.sub_0_r.
  - destruct n as [|n]; [lia|]. destruct s as [|x s]; cbn.
    + now rewrite skipn_nil.
    + apply IH. lia.
Qed.

Lemma firstn_app_l {A} (n : nat) (a b : list A) : (n <= List.length a)%nat -> firstn n (a ++ b) = firstn n a.
Proof. intros H. rewrite firstn_app. replace (n - List.length a)%nat with 0%nat by lia. cbn. apply app_nil_r. Qed.

Lemma skipn_app_l {A} (n : nat) (a b : list A) : (n <= List.length a)%nat -> skipn n (a ++ b) = skipn n a ++ b.
Proof. intros H. rewrite skipn_app. replace (n - List.length a)%nat with 0%nat by lia. reflexivity. Qed.

(* ------------------------------------------------ io.ReadFull on any schedule *)
(* enough octets: the first n are returned, the rest stays, whatever the schedule *)
Lemma readfull_ok fuel : forall n s sched,
  (n <= fuel)%nat -> (n <= List.length s)%nat ->
  exists sched', readfull fuel n s sched = RfOk (firstn n s) {| st_data := skipn n s; st_sched := sched' |}.
Proof.
  induction fuel as [|fuel IH]; intros n s sched Hf Hs.
  - assert (n = 0%nat) as -> by lia. exists sched. reflexivity.
  - destruct n as [|n0]; [exists sched; reflexivity|].
    cbn [readfull]. destruct s as [|x s']; [cbn in Hs; lia|].
    set (s := x :: s') in *.
    set (c := match sched with [] => 1%nat | c :: _ => Nat.max 1 c end).
    set (k := Nat.min (S n0) (Nat.min c (List.length s))).
    assert (Hk1 : (1 <= k)%nat).
    { unfold k, c. cbn [List.length s]. destruct sched; lia. }
    assert (Hk2 : (k <= S n0)%nat) by (unfold k; lia).
    destruct (IH (S n0 - k)%nat (skipn k s) (tl sched)) as [sched' E].
    + lia.
    + rewrite skipn_length. lia.
    + rewrite E. exists sched'. f_equal.
      * apply firstn_split_app; exact Hk2.
      * f_equal. apply skipn_skipn'; exact Hk2.
Qed.

(* too few octets: everything that is there is taken, then end of data *)
Lemma readfull_eof fuel : forall n s sched,
  (n <= fuel)%nat -> (List.length s < n)%nat ->
  exists sched', readfull fuel n s sched = RfEOF s {| st_data := []; st_sched := sched' |}.
Proof.
  induction fuel as [|fuel IH]; intros n s sched Hf Hs; [lia|].
  destruct n as [|n0]; [lia|].
  cbn [readfull]. destruct s as [|x s']; [exists sched; reflexivity|].
  set (s := x :: s') in *.
  set (c := match sched with [] => 1%nat | c :: _ => Nat.max 1 c end).
  set (k := Nat.min (S n0) (Nat.min c (List.length s))).
  assert (Hk1 : (1 <= k)%nat).
  { unfold k, c. cbn [List.length s]. destruct sched; lia. }
  assert (Hk2 : (k <= List.length s)%nat) by (unfold k; lia).
  destruct (IH (S n0 - k)%nat (skipn k s) (tl sched)) as [sched' E].
  - lia.
  - rewrite skipn_length. lia.
  - rewrite E. exists sched'. f_equal. apply firstn_skipn.
Qed.

Lemma read_full_ok n st : (n <= List.length (st_data st))%nat ->
  exists sched', read_full n st = RfOk (firstn n (st_data st)) {| st_data := skipn n (st_data st); st_sched := sched' |}.
Proof. intros H. unfold read_full. apply readfull_ok; [lia | exact H]. Qed.

Lemma read_full_eof n st : (List.length (st_data st) < n)%nat ->
  exists sched', read_full n st = RfEOF (st_data st) {| st_data := []; st_sched := sched' |}.
Proof. intros H. unfold read_full. apply readfull_eof; [lia | exact H]. Qed.

Lemma read_full_never_fuel n st : read_full n st <> RfFuel.
Proof.
  destruct (Nat.le_gt_cases n (List.length (st_data st))) as [H|H].
  - destruct (read_full_ok n st H) as [? ->]. discriminate.
  - destruct (read_full_eof n st H) as [? ->]. discriminate.
Qed.

(* ------------------------------------------------------------ the header *)
Lemma dec_header_ok_inv s h r : dec_header s = Ok (h, r) ->
  (16 <= List.length s)%nat /\ r = skipn 16 s /\ 16 <= h_len h <= 65536.
Proof.
  unfold dec_header. do 16 (destruct s as [|? s]; [discriminate|]).
  destruct (_ || _) eqn:E; [discriminate|]. intros [= <- <-].
  apply orb_false_iff in E. destruct E as [E1 E2]. cbn [h_len List.length skipn]. split; [lia|]. split; [reflexivity|]. lia.
Qed.

Lemma dec_header_firstn16 s : (16 <= List.length s)%nat ->
  match dec_header s, dec_header (firstn 16 s) with
  | Ok (h, _), Ok (h', r') => h = h' /\ r' = []
  | Err e, Err e' => e = e'
  | _, _ => False
  end.
Proof.
  intros H. do 16 (destruct s as [|? s]; [cbn in H; lia|]).
  cbn [firstn]. unfold dec_header. destruct (_ || _); auto.
Qed.

(* one-shot decoding of a complete frame: what ReadPDU returns for it *)
Definition decode_frame (layouts : list layout) (f : bytes) : rp_result :=
  match dec_header (firstn 16 f) with
  | Ok (h, _) =>
    match find_layout layouts (h_id h) with
    | None => RpUnknownId h
    | Some lay =>
      match unmarshal lay f with
      | Ok vs => RpOk lay vs
      | Err _ => RpDecodeErr lay h
      | Panic => RpPanic
      end
    end
  | _ => RpBadLen
  end.

(* a frame whose header is acceptable and states the frame's own length *)
Definition well_framed (f : bytes) : Prop :=
  exists h r, dec_header (firstn 16 f) = Ok (h, r) /\ h_len h = len f.

Lemma well_framed_len f : well_framed f -> (16 <= List.length f)%nat /\ len f <= 65536.
Proof.
  intros (h & r & E & L). apply dec_header_ok_inv in E. destruct E as (E1 & _ & E3).
  rewrite firstn_length in E1. split; [lia|]. rewrite <- L. lia.
Qed.

Lemma len_nat (s : bytes) : N.to_nat (len s) = List.length s.
Proof. unfold len. lia. Qed.

(* ReadPDU on a stream that starts with a well-framed frame: the frame is
   decoded, exactly its octets are consumed, the rest of the stream is intact —
   for every schedule. *)
Lemma read_pdu_well_framed layouts f : well_framed f -> forall rest sched,
  exists sched', read_pdu layouts {| st_data := f ++ rest; st_sched := sched |}
                 = (decode_frame layouts f, len f, {| st_data := rest; st_sched := sched' |}).
Proof.
  intros Hw rest sched. destruct (well_framed_len f Hw) as [H16 _].
  destruct Hw as (h & r & E & L).
  unfold read_pdu.
  destruct (read_full_ok 16 {| st_data := f ++ rest; st_sched := sched |}) as [s1 E1].
  { cbn [st_data]. rewrite app_length. lia. }
  rewrite E1. cbn [st_data]. rewrite firstn_app_l by exact H16.
  unfold decode_frame. rewrite E.
  rewrite skipn_app_l by exact H16.
  destruct (read_full_ok (N.to_nat (h_len h - 16)) {| st_data := skipn 16 f ++ rest; st_sched := s1 |}) as [s2 E2].
  { cbn [st_data]. rewrite app_length, skipn_length. rewrite L. unfold len. lia. }
  rewrite E2. cbn [st_data].
  assert (Hn : N.to_nat (h_len h - 16) = List.length (skipn 16 f)).
  { rewrite skipn_length, L. unfold len. lia. }
  rewrite Hn. rewrite firstn_app_l by lia. rewrite firstn_all.
  rewrite skipn_app_l by lia. rewrite skipn_all. cbn [app].
  rewrite firstn_skipn. rewrite L.
  exists s2. destruct (find_layout layouts (h_id h)); [|reflexivity].
  destruct (unmarshal l f); reflexivity.
Qed.

(* exact consumption, stated on the stream: acceptable header and enough octets *)
Lemma read_pdu_exact_consumption layouts s sched h r :
  dec_header (firstn 16 s) = Ok (h, r) -> h_len h <= len s ->
  snd (fst (read_pdu layouts {| st_data := s; st_sched := sched |})) = h_len h.
Proof.
  intros E L.
  pose proof (dec_header_ok_inv _ _ _ E) as (E1 & _ & E3). rewrite firstn_length in E1.
  set (n := N.to_nat (h_len h)).
  assert (Hn : (16 <= n <= List.length s)%nat) by (unfold n, len in *; lia).
  assert (Hw : well_framed (firstn n s)).
  { exists h, r. split.
    - rewrite firstn_firstn. replace (Nat.min 16 n) with 16%nat by lia. exact E.
    - unfold len. rewrite firstn_length. lia. }
  destruct (read_pdu_well_framed layouts _ Hw (skipn n s) sched) as [s' E'].
  rewrite firstn_skipn in E'. rewrite E'. cbn [fst snd]. unfold len. rewrite firstn_length. lia.
Qed.

(* a header announcing < 16 or > 65536: rejected after exactly 16 octets *)
Lemma read_pdu_bad_header layouts s sched e :
  (16 <= List.length s)%nat -> dec_header (firstn 16 s) = Err e ->
  exists sched', read_pdu layouts {| st_data := s; st_sched := sched |}
                 = (RpBadLen, 16, {| st_data := skipn 16 s; st_sched := sched' |}).
Proof.
  intros H16 E. unfold read_pdu.
  destruct (read_full_ok 16 {| st_data := s; st_sched := sched |}) as [s1 E1]; [exact H16|].
  rewrite E1. cbn [st_data]. rewrite E. exists s1. reflexivity.
Qed.

(* end of data before the first octet: io.EOF; inside the header or the body: an error *)
Lemma read_pdu_empty layouts sched :
  exists st', read_pdu layouts {| st_data := []; st_sched := sched |} = (RpEOF, 0, st').
Proof.
  unfold read_pdu. destruct (read_full_eof 16 {| st_data := []; st_sched := sched |}) as [s1 E1]; [cbn [st_data List.length]; lia|].
  rewrite E1. eexists. reflexivity.
Qed.

Lemma read_pdu_truncated layouts f : well_framed f -> forall k sched,
  (0 < k < List.length f)%nat ->
  exists st', read_pdu layouts {| st_data := firstn k f; st_sched := sched |} = (RpTruncated, N.of_nat k, st').
Proof.
  intros Hw k sched Hk. destruct (well_framed_len f Hw) as [H16 _].
  destruct Hw as (h & r & E & L). unfold read_pdu.
  destruct (Nat.lt_ge_cases k 16) as [Hlt|Hge].
  - destruct (read_full_eof 16 {| st_data := firstn k f; st_sched := sched |}) as [s1 E1].
    { cbn [st_data]. rewrite firstn_length. lia. }
    rewrite E1. cbn [st_data]. destruct (firstn k f) as [|x t] eqn:Ef.
    + apply (f_equal (@List.length N)) in Ef. rewrite firstn_length in Ef. cbn in Ef. lia.
    + eexists. f_equal. f_equal. rewrite <- Ef. unfold len. rewrite firstn_length. lia.
  - destruct (read_full_ok 16 {| st_data := firstn k f; st_sched := sched |}) as [s1 E1].
    { cbn [st_data]. rewrite firstn_length. lia. }
    rewrite E1. cbn [st_data]. rewrite firstn_firstn. replace (Nat.min 16 k) with 16%nat by lia.
    rewrite E.
    destruct (read_full_eof (N.to_nat (h_len h - 16)) {| st_data := skipn 16 (firstn k f); st_sched := s1 |}) as [s2 E2].
    { cbn [st_data]. rewrite skipn_length, firstn_length, L. unfold len. lia. }
    rewrite E2. cbn [st_data]. eexists. f_equal. f_equal.
    unfold len. rewrite skipn_length, firstn_length. lia.
Qed.

(* ----------------------------------------------------- totality of decoding *)
Lemma dec_cstr_not_panic s : dec_cstr s <> Panic.
Proof.
  induction s as [|c r IH]; cbn [dec_cstr]; [discriminate|].
  destruct (c =? 0); [discriminate|]. destruct (dec_cstr r) as [[v r']| |]; [discriminate|discriminate|congruence].
Qed.
Lemma dec_u8_not_panic s : dec_u8 s <> Panic.
Proof. destruct s; discriminate. Qed.
Lemma take_not_panic n s : take n s <> Panic.
Proof. unfold take. destruct (n <=? len s); discriminate. Qed.
Lemma dec_be32_not_panic s : dec_be32 s <> Panic.
Proof. unfold dec_be32. do 4 (destruct s as [|? s]; [discriminate|]). discriminate. Qed.

Ltac np_bind := apply obind_not_panic;
  [ | let x := fresh "x" in intros x; repeat match goal with p : (_ * _)%type |- _ => destruct p end ].

Lemma dec_addr_not_panic s : dec_addr s <> Panic.
Proof.
  unfold dec_addr. np_bind; [apply dec_u8_not_panic|].
  np_bind; [apply dec_u8_not_panic|].
  np_bind; [apply dec_cstr_not_panic|]. discriminate.
Qed.

Lemma dec_dests_loop_not_panic n : forall s sme dl, dec_dests_loop n s sme dl <> Panic.
Proof.
  induction n as [|n IH]; intros s sme dl; cbn [dec_dests_loop]; [discriminate|].
  destruct s as [|c r]; [discriminate|].
  destruct c as [|[p|[p|p|]|]]; try discriminate.
  - np_bind; [apply dec_cstr_not_panic|]. apply IH.
  - np_bind; [apply dec_addr_not_panic|]. apply IH.
Qed.
Lemma dec_dests_not_panic s : dec_dests s <> Panic.
Proof. unfold dec_dests. np_bind; [apply dec_u8_not_panic|]. apply dec_dests_loop_not_panic. Qed.

Lemma dec_unsucc_loop_not_panic n : forall s acc, dec_unsucc_loop n s acc <> Panic.
Proof.
  induction n as [|n IH]; intros s acc; cbn [dec_unsucc_loop]; [discriminate|].
  np_bind; [apply dec_addr_not_panic|].
  np_bind; [apply dec_be32_not_panic|]. apply IH.
Qed.
Lemma dec_unsucc_not_panic s : dec_unsucc s <> Panic.
Proof. unfold dec_unsucc. np_bind; [apply dec_u8_not_panic|]. apply dec_unsucc_loop_not_panic. Qed.

Lemma dec_udh_loop_not_panic fuel : forall rem s m, dec_udh_loop fuel rem s m <> Panic.
Proof.
  induction fuel as [|fuel IH]; intros rem s m; cbn [dec_udh_loop]; destruct (rem =? 0); try discriminate.
  np_bind; [apply dec_u8_not_panic|].
  np_bind; [apply dec_u8_not_panic|].
  np_bind; [apply take_not_panic|]. apply IH.
Qed.
Lemma dec_udh_not_panic s : dec_udh s <> Panic.
Proof. unfold dec_udh. np_bind; [apply dec_u8_not_panic|]. apply dec_udh_loop_not_panic. Qed.

Lemma dec_short_not_panic rp ua s : dec_short rp ua s <> Panic.
Proof.
  unfold dec_short. np_bind.
  { destruct rp; [discriminate|]. destruct s; discriminate. }
  np_bind; [apply dec_u8_not_panic|].
  np_bind; [apply dec_u8_not_panic|].
  np_bind.
  { destruct ua; [|discriminate]. np_bind; [apply dec_udh_not_panic|]. discriminate. }
  np_bind; [apply take_not_panic|]. discriminate.
Qed.

Lemma dec_tags_loop_not_panic fuel : forall s m, dec_tags_loop fuel s m <> Panic.
Proof.
  induction fuel as [|fuel IH]; intros s m; cbn [dec_tags_loop].
  - do 4 (destruct s as [|? s]; [discriminate|]). discriminate.
  - do 4 (destruct s as [|? s]; [discriminate|]).
    destruct (_ =? 0); [apply IH|]. destruct s; [discriminate|].
    destruct (_ <=? _); [apply IH | discriminate].
Qed.
Lemma dec_tags_not_panic s : dec_tags s <> Panic.
Proof. apply dec_tags_loop_not_panic. Qed.

Lemma dec_field_not_panic lay u k s : dec_field lay u k s <> Panic.
Proof.
  destruct k; cbn [dec_field]; try discriminate;
    try (np_bind; [first [apply dec_cstr_not_panic | apply dec_u8_not_panic | apply dec_addr_not_panic
                          | apply dec_dests_not_panic | apply dec_unsucc_not_panic | apply dec_short_not_panic
                          | apply dec_tags_not_panic] | ]).
  all: discriminate.
Qed.

Lemma dec_fields_not_panic lay ks : forall s u, dec_fields lay ks s u <> Panic.
Proof.
  induction ks as [|k ks IH]; intros s u; cbn [dec_fields]; [discriminate|].
  np_bind; [apply dec_field_not_panic|].
  np_bind; [apply IH | discriminate].
Qed.

Lemma dec_header_not_panic s : dec_header s <> Panic.
Proof. unfold dec_header. do 16 (destruct s as [|? s]; [discriminate|]). destruct (_ || _); discriminate. Qed.

Lemma unmarshal_not_panic lay f : unmarshal lay f <> Panic.
Proof.
  unfold unmarshal. destruct (l_fields lay) as [|k ks]; [discriminate|]. destruct k; try discriminate.
  np_bind; [apply dec_header_not_panic|].
  destruct (negb _); [discriminate|]. np_bind; [apply dec_fields_not_panic | discriminate].
Qed.

Lemma decode_frame_not_panic layouts f : decode_frame layouts f <> RpPanic.
Proof.
  unfold decode_frame. destruct (dec_header _) as [[h r]| |]; try discriminate.
  destruct (find_layout _ _); [|discriminate].
  pose proof (unmarshal_not_panic l f). destruct (unmarshal l f); try discriminate. congruence.
Qed.

Definition terminal (r : rp_result) : bool :=
  match r with RpEOF | RpTruncated | RpFuel | RpPanic => true | _ => false end.

Lemma decode_frame_not_terminal layouts f : terminal (decode_frame layouts f) = false.
Proof.
  pose proof (decode_frame_not_panic layouts f) as Hp.
  unfold decode_frame in *. destruct (dec_header _) as [[h r]| |]; try reflexivity.
  destruct (find_layout _ _); [|reflexivity].
  destruct (unmarshal l f); try reflexivity. congruence.
Qed.

(* --------------------------------------------------- successive ReadPDU calls *)
Lemma read_many_step fuel layouts st r c st' :
  read_pdu layouts st = (r, c, st') ->
  read_many (S fuel) layouts st = if terminal r then [(r, c)] else (r, c) :: read_many fuel layouts st'.
Proof. intros E. cbn [read_many]. rewrite E. destruct r; reflexivity. Qed.

(* a stream that starts with well-framed frames: each call returns one of them, whatever the schedule *)
Lemma read_many_frames layouts fs : Forall well_framed fs -> forall rest sched fuel,
  exists sched',
    read_many (List.length fs + fuel)%nat layouts {| st_data := List.concat fs ++ rest; st_sched := sched |}
    = map (fun f => (decode_frame layouts f, len f)) fs
      ++ read_many fuel layouts {| st_data := rest; st_sched := sched' |}.
Proof.
  induction 1 as [|f fs Hf Hfs IH]; intros rest sched fuel.
  - exists sched. reflexivity.
  - cbn [List.concat List.length map Nat.add]. rewrite <- app_assoc.
    destruct (read_pdu_well_framed layouts f Hf (List.concat fs ++ rest) sched) as [s1 E1].
    rewrite (read_many_step _ _ _ _ _ _ E1). rewrite decode_frame_not_terminal.
    destruct (IH rest s1 fuel) as [s2 E2]. rewrite E2. exists s2. reflexivity.
Qed.

Lemma read_many_eof layouts sched fuel :
  read_many (S fuel) layouts {| st_data := []; st_sched := sched |} = [(RpEOF, 0)].
Proof.
  destruct (read_pdu_empty layouts sched) as [st' E]. rewrite (read_many_step _ _ _ _ _ _ E). reflexivity.
Qed.

(* C03, re-framing: the PDUs in order, then io.EOF *)
Theorem reframe layouts fs : Forall well_framed fs -> forall sched fuel,
  read_many (List.length fs + S fuel)%nat layouts {| st_data := List.concat fs; st_sched := sched |}
  = map (fun f => (decode_frame layouts f, len f)) fs ++ [(RpEOF, 0)].
Proof.
  intros H sched fuel. destruct (read_many_frames layouts fs H [] sched (S fuel)) as [s' E].
  rewrite app_nil_r in E. rewrite E. rewrite read_many_eof. reflexivity.
Qed.

(* C03, truncation inside the last frame: the complete frames, then an error, never a PDU *)
Theorem reframe_truncated layouts fs f : Forall well_framed fs -> well_framed f -> forall k sched fuel,
  (0 < k < List.length f)%nat ->
  read_many (List.length fs + S fuel)%nat layouts {| st_data := List.concat fs ++ firstn k f; st_sched := sched |}
  = map (fun f => (decode_frame layouts f, len f)) fs ++ [(RpTruncated, N.of_nat k)].
Proof.
  intros H Hf k sched fuel Hk. destruct (read_many_frames layouts fs H (firstn k f) sched (S fuel)) as [s' E].
  rewrite E. destruct (read_pdu_truncated layouts f Hf k s' Hk) as [st' E'].
  rewrite (read_many_step _ _ _ _ _ _ E'). reflexivity.
Qed.

(* ------------------------------------------------------------- C04 totality *)
Lemma find_layout_in ls id l : find_layout ls id = Some l -> In l ls /\ l_id l = id.
Proof.
  induction ls as [|x r IH]; cbn [find_layout]; [discriminate|].
  destruct (N.eqb_spec (l_id x) id) as [E|E].
  - intros [= <-]. split; [left; reflexivity | exact E].
  - intros H. destruct (IH H). split; [right; assumption | assumption].
Qed.

Definition rp_is_error (r : rp_result) : bool :=
  match r with RpOk _ _ => false | RpPanic | RpFuel => false | _ => true end.

(* ReadPDU on ARBITRARY data and schedule *)
Theorem read_pdu_total layouts s sched :
  let '(r, c, st') := read_pdu layouts {| st_data := s; st_sched := sched |} in
  r <> RpPanic /\ r <> RpFuel /\ c <= 65536 /\ c <= len s /\
  st_data st' = skipn (N.to_nat c) s /\
  (rp_is_error r = true \/ exists lay vs, r = RpOk lay vs /\ In lay layouts /\ unmarshal lay (firstn (N.to_nat c) s) = Ok vs).
Proof.
  unfold read_pdu.
  destruct (Nat.le_gt_cases 16 (List.length s)) as [H16|H16].
  2:{ destruct (read_full_eof 16 {| st_data := s; st_sched := sched |}) as [s1 E1]; [exact H16|].
      rewrite E1. cbn [st_data].
      assert (len s <= 65536) by (unfold len; lia).
      assert (st_data {| st_data := []; st_sched := s1 |} = skipn (N.to_nat (len s)) s) as Hs.
      { cbn [st_data]. rewrite len_nat, skipn_all. reflexivity. }
      destruct s; repeat split; try discriminate; try lia; try exact Hs; left; reflexivity. }
  destruct (read_full_ok 16 {| st_data := s; st_sched := sched |}) as [s1 E1]; [exact H16|].
  rewrite E1. cbn [st_data].
  destruct (dec_header (firstn 16 s)) as [[h r]| |] eqn:E.
  2,3: (repeat split; try discriminate; try (unfold len; lia); left; reflexivity).
  pose proof (dec_header_ok_inv _ _ _ E) as (_ & _ & E3).
  destruct (Nat.le_gt_cases (N.to_nat (h_len h - 16)) (List.length (skipn 16 s))) as [Hb|Hb].
  - destruct (read_full_ok (N.to_nat (h_len h - 16)) {| st_data := skipn 16 s; st_sched := s1 |}) as [s2 E2]; [exact Hb|].
    rewrite E2. cbn [st_data]. rewrite skipn_length in Hb.
    assert (Hc : h_len h <= len s) by (unfold len; lia).
    assert (Hfr : firstn 16 s ++ firstn (N.to_nat (h_len h - 16)) (skipn 16 s) = firstn (N.to_nat (h_len h)) s).
    { replace (N.to_nat (h_len h - 16)) with (N.to_nat (h_len h) - 16)%nat by lia. apply firstn_split_app. lia. }
    assert (Hsk : skipn (N.to_nat (h_len h - 16)) (skipn 16 s) = skipn (N.to_nat (h_len h)) s).
    { replace (N.to_nat (h_len h - 16)) with (N.to_nat (h_len h) - 16)%nat by lia. apply skipn_skipn'. lia. }
    destruct (find_layout layouts (h_id h)) as [lay|] eqn:El.
    + rewrite Hfr. pose proof (unmarshal_not_panic lay (firstn (N.to_nat (h_len h)) s)) as Hnp.
      destruct (unmarshal lay _) as [vs| |] eqn:Eu; [| |congruence].
      * repeat split; try discriminate; try lia; try exact Hsk.
        right. exists lay, vs. split; [reflexivity|]. split; [apply (find_layout_in _ _ _ El) | exact Eu].
      * repeat split; try discriminate; try lia; try exact Hsk. left; reflexivity.
    + repeat split; try discriminate; try lia; try exact Hsk. left; reflexivity.
  - destruct (read_full_eof (N.to_nat (h_len h - 16)) {| st_data := skipn 16 s; st_sched := s1 |}) as [s2 E2]; [exact Hb|].
    rewrite E2. cbn [st_data]. rewrite skipn_length in Hb.
    assert (Hl : 16 + len (skipn 16 s) = len s) by (unfold len; rewrite skipn_length; lia).
    repeat split; try discriminate; try lia.
    + rewrite Hl. unfold len. lia.
    + rewrite Hl, len_nat, skipn_all. reflexivity.
    + left; reflexivity.
Qed.

(* the header check comes first: rejected after exactly 16 octets, nothing else read *)
Theorem read_pdu_header_reject layouts s sched a b c d :
  (16 <= List.length s)%nat -> firstn 4 s = [a; b; c; d] ->
  (de32 a b c d < 16 \/ 65536 < de32 a b c d) ->
  exists sched', read_pdu layouts {| st_data := s; st_sched := sched |}
                 = (RpBadLen, 16, {| st_data := skipn 16 s; st_sched := sched' |}).
Proof.
  intros H16 H4 Hbad. apply read_pdu_bad_header with (e := EFrameLen); [exact H16|].
  do 16 (destruct s as [|? s]; [cbn in H16; lia|]). cbn in H4. injection H4 as -> -> -> ->.
  cbn [firstn]. unfold dec_header.
  destruct ((de32 a b c d <? 16) || (65536 <? de32 a b c d)) eqn:E; [reflexivity|].
  apply orb_false_iff in E. lia.
Qed.

(* ------------------------------------------------ fuel is never the reason *)
Definition nofuel {A} (x : outcome A) : Prop := x <> Err EFuel.

Lemma obind_nofuel {A B} (x : outcome A) (f : A -> outcome B) :
  nofuel x -> (forall a, nofuel (f a)) -> nofuel (obind x f).
Proof. unfold nofuel. destruct x; cbn; intros Hx Hf; [apply Hf | congruence | discriminate]. Qed.

Ltac nf_bind := apply obind_nofuel;
  [ | let x := fresh "x" in intros x; repeat match goal with p : (_ * _)%type |- _ => destruct p end ].

Lemma dec_cstr_nofuel s : nofuel (dec_cstr s).
Proof.
  unfold nofuel. induction s as [|c r IH]; cbn [dec_cstr]; [discriminate|].
  destruct (c =? 0); [discriminate|]. destruct (dec_cstr r) as [[v r']| |]; [discriminate|congruence|discriminate].
Qed.
Lemma dec_u8_nofuel s : nofuel (dec_u8 s).
Proof. destruct s; discriminate. Qed.
Lemma take_nofuel n s : nofuel (take n s).
Proof. unfold take, nofuel. destruct (n <=? len s); discriminate. Qed.
Lemma dec_be32_nofuel s : nofuel (dec_be32 s).
Proof. unfold dec_be32, nofuel. do 4 (destruct s as [|? s]; [discriminate|]). discriminate. Qed.
Lemma dec_addr_nofuel s : nofuel (dec_addr s).
Proof.
  unfold dec_addr. nf_bind; [apply dec_u8_nofuel|]. nf_bind; [apply dec_u8_nofuel|].
  nf_bind; [apply dec_cstr_nofuel|]. discriminate.
Qed.
Lemma dec_dests_loop_nofuel n : forall s sme dl, nofuel (dec_dests_loop n s sme dl).
Proof.
  induction n as [|n IH]; intros s sme dl; cbn [dec_dests_loop]; [discriminate|].
  destruct s as [|c r]; [discriminate|].
  destruct c as [|[p|[p|p|]|]]; try discriminate.
  - nf_bind; [apply dec_cstr_nofuel|]. apply IH.
  - nf_bind; [apply dec_addr_nofuel|]. apply IH.
Qed.
Lemma dec_dests_nofuel s : nofuel (dec_dests s).
Proof. unfold dec_dests. nf_bind; [apply dec_u8_nofuel|]. apply dec_dests_loop_nofuel. Qed.
Lemma dec_unsucc_loop_nofuel n : forall s acc, nofuel (dec_unsucc_loop n s acc).
Proof.
  induction n as [|n IH]; intros s acc; cbn [dec_unsucc_loop]; [discriminate|].
  nf_bind; [apply dec_addr_nofuel|]. nf_bind; [apply dec_be32_nofuel|]. apply IH.
Qed.
Lemma dec_unsucc_nofuel s : nofuel (dec_unsucc s).
Proof. unfold dec_unsucc. nf_bind; [apply dec_u8_nofuel|]. apply dec_unsucc_loop_nofuel. Qed.

(* the UDH loop: each element covers at least two of the UDHL octets *)
Lemma dec_udh_loop_nofuel fuel : forall rem s m, (N.to_nat rem <= fuel)%nat -> nofuel (dec_udh_loop fuel rem s m).
Proof.
  induction fuel as [|fuel IH]; intros rem s m Hf; cbn [dec_udh_loop]; destruct (N.eqb_spec rem 0); try discriminate.
  - lia.
  - nf_bind; [apply dec_u8_nofuel|]. nf_bind; [apply dec_u8_nofuel|]. nf_bind; [apply take_nofuel|].
    apply IH. lia.
Qed.
Lemma dec_udh_nofuel s : nofuel (dec_udh s).
Proof. unfold dec_udh. nf_bind; [apply dec_u8_nofuel|]. apply dec_udh_loop_nofuel. lia. Qed.

Lemma dec_short_nofuel rp ua s : nofuel (dec_short rp ua s).
Proof.
  unfold dec_short. nf_bind.
  { destruct rp; [discriminate|]. destruct s; discriminate. }
  nf_bind; [apply dec_u8_nofuel|]. nf_bind; [apply dec_u8_nofuel|].
  nf_bind.
  { destruct ua; [|discriminate]. nf_bind; [apply dec_udh_nofuel|]. discriminate. }
  nf_bind; [apply take_nofuel|]. discriminate.
Qed.

(* the TLV loop: each TLV covers at least four octets of the frame *)
Lemma dec_tags_loop_nofuel fuel : forall s m, (List.length s <= fuel)%nat -> nofuel (dec_tags_loop fuel s m).
Proof.
  induction fuel as [|fuel IH]; intros s m Hf; cbn [dec_tags_loop].
  - destruct s; [discriminate | cbn in Hf; lia].
  - do 4 (destruct s as [|? s]; [discriminate|]). cbn [List.length] in Hf.
    destruct (_ =? 0); [apply IH; lia|]. destruct s as [|x s']; [discriminate|].
    destruct (_ <=? _); [|discriminate]. apply IH. rewrite skipn_length. lia.
Qed.
Lemma dec_tags_nofuel s : nofuel (dec_tags s).
Proof. apply dec_tags_loop_nofuel. lia. Qed.

Lemma dec_field_nofuel lay u k s : nofuel (dec_field lay u k s).
Proof.
  destruct k; cbn [dec_field]; try discriminate;
    (nf_bind; [first [apply dec_cstr_nofuel | apply dec_u8_nofuel | apply dec_addr_nofuel
                      | apply dec_dests_nofuel | apply dec_unsucc_nofuel | apply dec_short_nofuel
                      | apply dec_tags_nofuel] | discriminate]).
Qed.

Lemma dec_fields_nofuel lay ks : forall s u, nofuel (dec_fields lay ks s u).
Proof.
  induction ks as [|k ks IH]; intros s u; cbn [dec_fields]; [discriminate|].
  nf_bind; [apply dec_field_nofuel|]. nf_bind; [apply IH | discriminate].
Qed.

Lemma dec_header_nofuel s : nofuel (dec_header s).
Proof. unfold dec_header, nofuel. do 16 (destruct s as [|? s]; [discriminate|]). destruct (_ || _); discriminate. Qed.

Theorem unmarshal_no_fuel lay f : unmarshal lay f <> Err EFuel.
Proof.
  change (nofuel (unmarshal lay f)).
  unfold unmarshal. destruct (l_fields lay) as [|k ks]; [discriminate|]. destruct k; try discriminate.
  nf_bind; [apply dec_header_nofuel|]. destruct (negb _); [discriminate|].
  nf_bind; [apply dec_fields_nofuel | discriminate].
Qed.
