(* Lemmas about Model/Accessors.v (C11): every accessor returns normally on
   every input. *)
From V Require Import Model.Accessors Spec.CombinerSpec Proofs.CombinerProofs.
From Coq Require Import ZifyN ZifyNat ZifyBool.
Ltac Zify.zify_post_hook ::= Z.div_mod_to_equations.
Open Scope N_scope.

(* ---------------------------------------------------- MessageState.String *)
Lemma n_names_10 : n_names = 10.
Proof. reflexivity. Qed.

Lemma name_at_ok m : m < n_names -> exists s, name_at m = Ok s.
Proof.
  intros H. unfold name_at.
  destruct (nth_error message_state_names (N.to_nat m)) as [s|] eqn:E; [eexists; reflexivity|].
  apply nth_error_None in E. unfold n_names in H. lia.
Qed.

(* for every value, not only octets *)
Lemma message_state_string_ok m : exists s, message_state_string m = Ok s.
Proof.
  unfold message_state_string. destruct (n_names <=? m) eqn:E; [eexists; reflexivity|].
  apply name_at_ok. lia.
Qed.
Lemma message_state_string_total m : message_state_string m <> Panic.
Proof. destruct (message_state_string_ok m) as [s H]. rewrite H. discriminate. Qed.

(* D6: with > instead of >= the first value without a name indexes past the table *)
Lemma message_state_string_legacy_refuted : exists m, m < 256 /\ message_state_string_legacy m = Panic.
Proof. exists 10. split; [reflexivity|]. vm_compute. reflexivity. Qed.
(* ... and it is the only such value *)
Lemma message_state_string_legacy_only_10 m : message_state_string_legacy m = Panic -> m = 10.
Proof.
  unfold message_state_string_legacy. destruct (n_names <? m) eqn:E; [discriminate|].
  rewrite n_names_10 in E. intros H.
  destruct (N.eq_dec m 10) as [->|Hne]; [reflexivity|].
  destruct (name_at_ok m) as [s Hs]; [rewrite n_names_10; lia|]. congruence.
Qed.

(* --------------------------------------------------------- Address.String *)
Lemma address_string_ok a : exists s, address_string a = Ok s.
Proof.
  unfold address_string.
  destruct ((a_ton a =? 1) && (a_npi a =? 1) && (0 <? len (a_no a))) eqn:E; [|eexists; reflexivity].
  destruct (a_no a) as [|c r] eqn:En.
  - unfold len in E. cbn [List.length] in E. lia.
  - cbn [idx nth_error obind]. destruct (negb (c =? 43)); eexists; reflexivity.
Qed.
Lemma address_string_total a : address_string a <> Panic.
Proof. destruct (address_string_ok a) as [s H]. rewrite H. discriminate. Qed.

(* ------------------------------------------------------------------ Parse *)
(* Parse never panics provided no decoder does; without a decoder it returns the hex text *)
Lemma parse_total encoding m :
  (forall d, encoding (sm_dc m) = Some d -> d (sm_msg m) <> Panic) -> parse encoding m <> Panic.
Proof.
  intros H. unfold parse. destruct (encoding (sm_dc m)) as [d|] eqn:E; [apply H; reflexivity|discriminate].
Qed.
Lemma parse_no_decoder encoding m : encoding (sm_dc m) = None -> parse encoding m = Ok (hex_string (sm_msg m)).
Proof. intros H. unfold parse. rewrite H. reflexivity. Qed.
Lemma hex_string_length b : List.length (hex_string b) = (2 * List.length b)%nat.
Proof. induction b as [|x b IH]; cbn [hex_string flat_map List.length app]; [reflexivity|]. unfold hex_string in IH. rewrite IH. lia. Qed.

(* --------------------------------------------------- CommandStatus.String *)
Lemma command_status_string_ok named s : exists t, command_status_string named s = Ok t.
Proof. unfold command_status_string. destruct (find_name named s); eexists; reflexivity. Qed.
Lemma hex8_length s : List.length (hex8 s) = 8%nat.
Proof. reflexivity. Qed.

(* -------------------------------------- ReadSequence, ReadCommandStatus, Resp *)
Lemma read_sequence_ok vs : exists s, read_sequence vs = Ok s.
Proof. unfold read_sequence. destruct (get_header vs); eexists; reflexivity. Qed.
Lemma read_status_ok vs : exists s, read_status vs = Ok s.
Proof. unfold read_status. destruct (get_header vs); eexists; reflexivity. Qed.
(* getHeader through reflect: when does it return? *)
Lemma get_header_pointer_header_first fs : get_header_reflect (ShPtrStruct (KHeader :: fs)) = Ok true.
Proof. reflexivity. Qed.
(* on a pointer to a struct it panics exactly when an unexported field comes before any Header *)
Lemma scan_fields_panic_iff fs :
  scan_fields fs = Panic <-> exists pre post, fs = pre ++ KUnexported :: post /\ Forall (fun k => k = KExported) pre.
Proof.
  induction fs as [|k fs IH]; cbn [scan_fields].
  - split; [discriminate|]. intros (pre & post & E & _). destruct pre; discriminate.
  - destruct k.
    + split; [discriminate|]. intros (pre & post & E & F). destruct pre as [|x pre]; [discriminate|].
      inversion E; subst. inversion F; subst. discriminate.
    + rewrite IH. split.
      * intros (pre & post & -> & F). exists (KExported :: pre), post. split; [reflexivity|constructor; auto].
      * intros (pre & post & E & F). destruct pre as [|x pre]; [discriminate|]. inversion E; subst. inversion F; subst.
        exists pre, post. split; auto.
    + split; [|reflexivity]. intros _. exists [], fs. split; [reflexivity|constructor].
Qed.
(* ... and on anything but a non-nil pointer to a struct (or the empty struct by value) it panics:
   ReadSequence(pdu.DeliverSM{}) — the value instead of the pointer — does *)
Lemma get_header_value_refuted : exists s, s = ShStruct [KHeader; KExported] /\ get_header_reflect s = Panic.
Proof. eexists; split; reflexivity. Qed.
Lemma get_header_not_pointer s : get_header_reflect s <> Panic ->
  (exists fs, s = ShPtrStruct fs) \/ s = ShStruct [].
Proof.
  destruct s as [fs| |fs|]; cbn [get_header_reflect]; intros H; try congruence.
  - left. eexists; reflexivity.
  - destruct fs; [right; reflexivity|congruence].
Qed.

Lemma resp_ok pairs lay vs : exists o, resp pairs lay vs = Ok o.
Proof.
  unfold resp. destruct (find_pair pairs (l_id lay)) as [[rid c]|]; [|eexists; reflexivity].
  destruct (read_sequence_ok vs) as [s H]. rewrite H. cbn [obind]. eexists; reflexivity.
Qed.
(* the response carries the request's sequence number (for the pairs that copy it) *)
Lemma resp_sequence pairs lay vs rid s : resp pairs lay vs = Ok (Some (rid, s)) ->
  find_pair pairs (l_id lay) = Some (rid, true) -> read_sequence vs = Ok s.
Proof.
  unfold resp. intros H F. rewrite F in H.
  destruct (read_sequence_ok vs) as [s' Hs]. rewrite Hs in *. cbn [obind] in H. inversion H. reflexivity.
Qed.

(* ------------------------------------------------------ all accessors at once *)
Lemma omap_ok {A B} (f : A -> outcome B) l : (forall x, exists y, f x = Ok y) -> exists ys, omap f l = Ok ys.
Proof.
  intros H. induction l as [|x l IH]; cbn [omap]; [eexists; reflexivity|].
  destruct (H x) as [y Hy]. rewrite Hy. cbn [obind]. destruct IH as [ys Hys]. rewrite Hys. cbn [obind].
  eexists; reflexivity.
Qed.

Lemma field_accessors_ok has_dec v : exists o, field_accessors has_dec v = Ok o.
Proof.
  destruct v; cbn [field_accessors]; try (eexists; reflexivity).
  - destruct (message_state_string_ok b) as [s H]. rewrite H. eexists; reflexivity.
  - destruct (address_string_ok a) as [s H]. rewrite H. eexists; reflexivity.
  - destruct (omap_ok address_string sme address_string_ok) as [ys H]. rewrite H. eexists; reflexivity.
  - destruct (omap_ok (fun e : addr * N => address_string (fst e)) l (fun e => address_string_ok (fst e))) as [ys H].
    rewrite H. eexists; reflexivity.
  - destruct (concatenated_header_ok (sm_udh m)) as [c H]. rewrite H. cbn [obind].
    destruct (has_dec (sm_dc m)); cbn [obind parse]; eexists; reflexivity.
Qed.

Lemma run_accessors_ok pairs has_dec lay vs : exists o, run_accessors pairs has_dec lay vs = Ok o.
Proof.
  unfold run_accessors.
  destruct (read_sequence_ok vs) as [s H1]. rewrite H1. cbn [obind].
  destruct (read_status_ok vs) as [st H2]. rewrite H2. cbn [obind].
  destruct (resp_ok pairs lay vs) as [r H3]. rewrite H3. cbn [obind].
  destruct (omap_ok (field_accessors has_dec) vs (field_accessors_ok has_dec)) as [fs H4]. rewrite H4. cbn [obind].
  eexists; reflexivity.
Qed.

(* C11 over the PDUs ReadPDU returns: for any transport content and read
   schedule, whatever value the decoder model yields, every accessor returns
   normally on it; and if it is a deliver_sm, feeding it to the combiner in
   any registry state, and any history of such PDUs, returns normally. *)
Theorem accessors_on_read_pdu pairs has_dec layouts st lay vs n st' :
  read_pdu layouts st = (RpOk lay vs, n, st') ->
  (exists o, run_accessors pairs has_dec lay vs = Ok o) /\
  (forall id d r, dsm_of id vs = Some d -> cstep r d <> Panic).
Proof.
  intros _. split; [apply run_accessors_ok|]. intros id d r _. apply cstep_total.
Qed.

(* a history of PDUs, each one returned by some ReadPDU call *)
Theorem combiner_on_read_pdus layouts (reads : list (stream * list fval)) :
  (forall s vs, In (s, vs) reads -> exists lay n s', read_pdu layouts s = (RpOk lay vs, n, s')) ->
  forall h, h = flat_map (fun sv => match dsm_of 0 (snd sv) with Some d => [d] | None => [] end) reads ->
  forall r, crun r h <> Panic.
Proof. intros _ h _ r. apply crun_total. Qed.
