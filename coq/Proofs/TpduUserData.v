(* C19, the decoded user data, EXACTLY (audit C19-A2).  sms.Unmarshal stores TP-UDL octets in UserData: the data
   octets of the TPDU, then zero octets up to TP-UDL.  For an octet-counted data coding scheme and for fewer than 8
   septets that IS the user data; for 8 or more septets the decoded value is longer than the user data by
   UDL - ceil(7 UDL / 8) zero octets (8 septets: 7 data octets + 1 zero octet) - the length of the slice is how the
   structure carries TP-UDL, there is no other field for it (known finding
   value/user-data/septet-coded-8-or-more-septets-zero-padded-to-tp-udl-octets). *)
From V Require Import Model.TpduRun Spec.Gsm0340 Proofs.TpduAlnum Proofs.TpduRoundtrip.
From Coq Require Import ZifyN ZifyNat ZifyBool.
Open Scope N_scope.

(* the class of the finding, a predicate on the spec value *)
Definition ud_padded (u : s_userdata) : Prop :=
  match u with UdSeptets ss => 8 <= nlen ss | UdOctets _ => False end.
(* number of zero octets after the data *)
Definition ud_padding (u : s_userdata) : nat := (N.to_nat (udl u) - List.length (ud_octets u))%nat.

Lemma ud_padding_septets ss : ud_padding (UdSeptets ss) = (List.length ss - (7 * List.length ss + 7) / 8)%nat.
Proof. unfold ud_padding. cbn [udl ud_octets]. rewrite pack7_length. unfold packed_len, nlen. rewrite Nat2N.id. reflexivity. Qed.

(* the exclusion is exactly as wide as the defect *)
Lemma ud_padding_zero_iff u : ud_padding u = 0%nat <-> ~ ud_padded u.
Proof.
  destruct u as [ss|os].
  - rewrite ud_padding_septets. unfold ud_padded, nlen. split; intros H.
    + intros Hp. assert (8 <= List.length ss)%nat by lia.
      assert ((7 * List.length ss + 7) / 8 < List.length ss)%nat by (apply Nat.div_lt_upper_bound; lia). lia.
    + assert (List.length ss < 8)%nat by lia.
      assert (List.length ss <= (7 * List.length ss + 7) / 8)%nat by (apply Nat.div_le_lower_bound; lia). lia.
  - unfold ud_padding, ud_padded. cbn [udl ud_octets]. unfold nlen. rewrite Nat2N.id, Nat.sub_diag. tauto.
Qed.

(* the value Unmarshal stores, in both cases *)
Lemma ud_val_exact u : ud_val u = ud_octets u ++ repeat 0 (ud_padding u).
Proof. reflexivity. Qed.
Lemma ud_val_is_user_data u : ~ ud_padded u -> ud_val u = ud_octets u.
Proof. intros H. rewrite ud_val_exact. apply ud_padding_zero_iff in H. rewrite H. cbn. apply app_nil_r. Qed.
Lemma ud_val_padded u : ud_padded u ->
  ud_val u <> ud_octets u /\ List.length (ud_val u) = N.to_nat (udl u) /\ (0 < ud_padding u)%nat /\
  firstn (List.length (ud_octets u)) (ud_val u) = ud_octets u.
Proof.
  intros H. assert (Hp : (0 < ud_padding u)%nat).
  { destruct (Nat.eq_dec (ud_padding u) 0) as [E|E]; [apply ud_padding_zero_iff in E; contradiction|lia]. }
  split; [|split; [apply ud_val_length|split; [exact Hp|]]].
  - intros E. apply (f_equal (@List.length N)) in E. rewrite ud_val_exact, app_length, repeat_length in E. lia.
  - rewrite ud_val_exact, firstn_app, Nat.sub_diag, firstn_all. cbn. apply app_nil_r.
Qed.

Theorem deliver_user_data t :
  deliver_wf t -> addr_ok (d_oa t) ->
  exists sc fl oa ts ud,
    sms_unmarshal (layout_deliver t) =
      Ok ("Deliver"%string, [TVAddr sc; TVFlags fl; TVAddr oa; TVByte (d_pid t); TVByte (d_dcs t); TVTime ts; TVBytes ud]) /\
    ud = ud_octets (d_ud t) ++ repeat 0 (ud_padding (d_ud t)) /\
    (~ ud_padded (d_ud t) -> ud = ud_octets (d_ud t)) /\
    (ud_padded (d_ud t) -> ud <> ud_octets (d_ud t) /\ List.length ud = N.to_nat (udl (d_ud t))).
Proof.
  intros Hwf Hok. do 5 eexists. split; [apply deliver_decode; assumption|].
  split; [apply ud_val_exact|]. split; [apply ud_val_is_user_data|]. intros H. destruct (ud_val_padded _ H) as [A [B _]]. auto.
Qed.
Theorem submit_user_data t :
  submit_wf t -> addr_ok (s_da t) ->
  exists fl da v ud,
    sms_unmarshal (layout_submit t) =
      Ok ("Submit"%string, [TVAddr addr0; TVFlags fl; TVByte (s_mr t); TVAddr da; TVByte (s_pid t); TVByte (s_dcs t); TVVP v; TVBytes ud]) /\
    ud = ud_octets (s_ud t) ++ repeat 0 (ud_padding (s_ud t)) /\
    (~ ud_padded (s_ud t) -> ud = ud_octets (s_ud t)) /\
    (ud_padded (s_ud t) -> ud <> ud_octets (s_ud t) /\ List.length ud = N.to_nat (udl (s_ud t))).
Proof.
  intros Hwf Hok. do 4 eexists. split; [apply submit_decode; assumption|].
  split; [apply ud_val_exact|]. split; [apply ud_val_is_user_data|]. intros H. destruct (ud_val_padded _ H) as [A [B _]]. auto.
Qed.

(* witness: eight septets "hellohel" -> seven data octets, the decoded UserData has eight *)
Definition w_ud8 : s_submit :=
  {| s_rd := false; s_srr := false; s_udhi := false; s_rp := false; s_mr := 0; s_da := w_oa; s_pid := 0; s_dcs := 0;
     s_vp := VpAbsent; s_ud := UdSeptets [104; 101; 108; 108; 111; 104; 101; 108] |}.
Lemma user_data_padding_refuted :
  submit_wf w_ud8 /\ ud_padded (s_ud w_ud8) /\ List.length (ud_octets (s_ud w_ud8)) = 7%nat /\
  exists vs ud, sms_unmarshal (layout_submit w_ud8) = Ok ("Submit"%string, vs) /\ nth_error vs 7 = Some (TVBytes ud) /\
    List.length ud = 8%nat /\ ud = ud_octets (s_ud w_ud8) ++ [0] /\ ud <> ud_octets (s_ud w_ud8) /\
    sms_remarshal (layout_submit w_ud8) = Ok (layout_submit w_ud8).
Proof.
  split; [unfold submit_wf, addr_wf, vp_wf, ud_wf; cbn; repeat (split || constructor || lia || reflexivity || (intro; discriminate) || exact I)|].
  split; [cbn; lia|]. split; [reflexivity|]. eexists. eexists. split; [vm_compute; reflexivity|].
  split; [reflexivity|]. split; [reflexivity|]. split; [vm_compute; reflexivity|]. split; [vm_compute; congruence|vm_compute; reflexivity].
Qed.
