(* Soundness of the tie used by the generated cases of C05 C14 C15 C16.
   [sched_admits v auto groups snaps final = true] — what coqc evaluates for
   every forced schedule the harness ran on the real Conn — means: there IS a
   trace of the labelled transition system ([step] only) from [init] whose
   final state shows the final observation of the implementation.  The
   search ([settle_nd], [run_group_nd], [run_sched_nd], [dedup]) is untrusted:
   whatever it returns is an ordinary run. *)
From Coq Require Import List ZArith Lia Bool Arith.
From V Require Import Model.Base Model.ConnLTS Proofs.ConnBase.
Import ListNotations.
Open Scope N_scope.

Definition good (v : variant) (p : cand) : Prop := run v init (snd p) = Some (fst p).

Lemma first_enabled_step v s evs e s' : first_enabled v s evs = Some (e, s') -> step v s e = Some s'.
Proof.
  induction evs as [|x evs IH]; cbn [first_enabled]; [discriminate|].
  destruct (step v s x) eqn:E; [intros H; injection H as <- <-; exact E | exact IH].
Qed.

Lemma good_snoc v s tr e s' : good v (s, tr) -> step v s e = Some s' -> good v (s', tr ++ [e]).
Proof. unfold good; cbn [fst snd]. intros G S. eapply run_snoc; eauto. Qed.

Lemma alt_step_good v s tr evs : good v (s, tr) -> Forall (good v) (alt_step v s tr evs).
Proof.
  intros G. unfold alt_step. destruct (first_enabled v s evs) as [[e s']|] eqn:E; [|constructor].
  constructor; [|constructor]. eapply good_snoc; eauto using first_enabled_step.
Qed.

Lemma Forall_flat_map {A B} (P : A -> Prop) (Q : B -> Prop) (f : A -> list B) l :
  Forall P l -> (forall x, P x -> Forall Q (f x)) -> Forall Q (flat_map f l).
Proof.
  induction 1 as [|x l Hx _ IH]; intros Hf; cbn [flat_map]; [constructor|].
  apply Forall_app. split; [apply Hf, Hx | apply IH, Hf].
Qed.

Lemma settle_nd_good v a lazy target fuel : forall skip p, good v p -> Forall (good v) (settle_nd v a lazy target fuel skip p).
Proof.
  induction fuel as [|f IH]; intros skip [s tr] G; cbn [settle_nd]; [constructor|].
  destruct (first_enabled v s (internal_events_skip a skip s)) as [[e s']|] eqn:E.
  - pose proof (first_enabled_step _ _ _ _ _ E) as S.
    assert (T : Forall (good v) (settle_nd v a lazy target f skip (s', tr ++ [e]))) by (apply IH; eapply good_snoc; eauto).
    assert (L : forall c, Forall (good v) (if lazy || write_open v s c then settle_nd v a lazy target f (c :: skip) (s, tr) else []))
      by (intros c; destruct (lazy || write_open v s c); [apply IH, G | constructor]).
    destruct e; try (apply Forall_app; split; [exact T | constructor]).
    + (* WireWrite *)
      destruct (nth_error target (List.length (wire s))) as [id|]; [destruct (id =? Z.of_nat c)%Z|]; auto.
    + (* SendFail *) apply Forall_app; split; [exact T | apply L].
    + (* WakeResp *) apply Forall_app; split; [exact T|]. destruct (racing s c); [|constructor].
      eapply Forall_flat_map; [apply alt_step_good, G | intros x Hx; apply IH, Hx].
    + (* AppRecv *) apply Forall_app; split; [exact T|]. destruct (done s); [|constructor].
      eapply Forall_flat_map; [apply alt_step_good, G | intros x Hx; apply IH, Hx].
  - constructor; [exact G | constructor].
Qed.

Lemma Forall_filter {A} (P : A -> Prop) f l : Forall P l -> Forall P (filter f l).
Proof. induction 1; cbn; [constructor|]. destruct (f x); [constructor|]; auto. Qed.

Lemma dedup_good (P : cand -> Prop) cs : Forall P cs -> Forall P (dedup cs).
Proof.
  unfold dedup. intros H.
  assert (K : forall acc, Forall P acc ->
            Forall P (fold_left (fun acc p => if existsb (fun q => same_state (fst q) (fst p)) acc then acc else acc ++ [p]) cs acc)).
  { induction H as [|x l Hx _ IH]; intros acc Ha; cbn [fold_left]; [exact Ha|].
    apply IH. match goal with |- Forall P (if ?b then _ else _) => destruct b end; [exact Ha|]. apply Forall_app. split; [exact Ha | constructor; [exact Hx | constructor]]. }
  apply K. constructor.
Qed.

Lemma run_group_nd_good v a target evs : forall p, good v p -> Forall (good v) (run_group_nd v a target evs p).
Proof.
  induction evs as [|e r IH]; intros [s tr] G; cbn [run_group_nd fst snd].
  - apply settle_nd_good, G.
  - destruct (step v s e) as [s1|] eqn:S.
    + apply IH. eapply good_snoc; eauto.
    + eapply Forall_flat_map; [apply dedup_good, settle_nd_good, G|].
      intros [s2 tr2] G2. cbn [fst snd]. destruct (step v s2 e) as [s3|] eqn:S3; [|constructor].
      apply IH. eapply good_snoc; eauto.
Qed.

Lemma run_sched_nd_good v a gs : forall snaps cs, Forall (good v) cs -> Forall (good v) (run_sched_nd v a gs snaps cs).
Proof.
  induction gs as [|g gr IH]; intros [|sn sr] cs H; cbn [run_sched_nd]; try constructor; [exact H|].
  apply IH. apply dedup_good, Forall_filter.
  eapply Forall_flat_map; [exact H | intros p Hp; apply run_group_nd_good, Hp].
Qed.

(* The tie: an admitted observation is the observation of a run of the LTS. *)
Theorem sched_nd_sound v a gs snaps final s tr :
  sched_nd v a gs snaps final = Some (s, tr) ->
  run v init tr = Some s /\ beq_obs (observe s) final = true.
Proof.
  unfold sched_nd. intros H. apply find_some in H. destruct H as [In Ob]. split; [|exact Ob].
  assert (G : Forall (good v) (run_sched_nd v a gs snaps (settle_nd v a false [] settle_fuel [] (init, [])))).
  { apply run_sched_nd_good, settle_nd_good. reflexivity. }
  rewrite Forall_forall in G. exact (G _ In).
Qed.

Theorem sched_admits_sound v a gs snaps final :
  sched_admits v a gs snaps final = true ->
  exists tr s, run v init tr = Some s /\ reachable v s /\ beq_obs (observe s) final = true.
Proof.
  unfold sched_admits. destruct (sched_nd v a gs snaps final) as [[s tr]|] eqn:E; [|discriminate].
  intros _. destruct (sched_nd_sound _ _ _ _ _ _ _ E) as [R O]. exists tr, s. repeat split; auto. exists tr; exact R.
Qed.

(* ... and, for C05, one that stays within the property's hypotheses on the environment *)
Theorem sched_env_admits_sound v a gs snaps final :
  sched_env_admits v a gs snaps final = true ->
  exists tr s s', run v init tr = Some s /\ erunb v init tr = Some s' /\ beq_obs (observe s) final = true.
Proof.
  unfold sched_env_admits. destruct (sched_nd v a gs snaps final) as [[s tr]|] eqn:E; [|discriminate].
  destruct (erunb v init tr) as [s'|] eqn:Er; [|discriminate]. intros _.
  destruct (sched_nd_sound _ _ _ _ _ _ _ E) as [R O]. exists tr, s, s'. auto.
Qed.
