(* C19: theorems about the complete 256-row tables dumped from the running code
   (Gen/SmsOctets.v): the four first-octet / indicator structs and the relative
   validity period.  Each table has exactly one row per octet; each row is what
   the model computes (so on these finite domains model = code, exhaustively)
   and is compared with the bit positions / durations GSM 03.40 assigns. *)
From V Require Import Model.TpduRun Spec.Gsm0340 Gen.SmsOctets.
Open Scope N_scope.

Definition oct256 : list N := map N.of_nat (seq 0 256).
Lemma oct256_spec b : b < 256 -> In b oct256.
Proof.
  intros H. unfold oct256. apply in_map_iff. exists (N.to_nat b). split; [lia|]. apply in_seq. lia.
Qed.
Lemma oct256_bound b : In b oct256 -> b < 256.
Proof. unfold oct256. intros H. apply in_map_iff in H. destruct H as [k [<- Hk]]. apply in_seq in Hk. lia. Qed.
Lemma sweep_oct (P : N -> bool) : forallb P oct256 = true -> forall b, b < 256 -> P b = true.
Proof. intros H b Hb. eapply forallb_forall in H; [exact H|]. apply oct256_spec; exact Hb. Qed.

(* ------------------------------------------------------------------ first octets *)
(* row = (b, field values after WriteByte(b), octet from ReadByte) *)
Definition flag_row_ok (fs : flagstruct) (keep : N) (row : N * list N * N) : bool :=
  let '(b, vals, c) := row in
  beq_list N.eqb vals (unmarshal_flags (fs_fields fs) b 0) &&
  (c =? marshal_flags (fs_fields fs) vals 0) && (c =? N.land b keep).

Lemma deliver_flags_table_complete : map (fun r => fst (fst r)) deliver_flags_table = oct256.
Proof. vm_compute. reflexivity. Qed.
Lemma submit_flags_table_complete : map (fun r => fst (fst r)) submit_flags_table = oct256.
Proof. vm_compute. reflexivity. Qed.
Lemma flags_table_complete : map (fun r => fst (fst r)) flags_table = oct256.
Proof. vm_compute. reflexivity. Qed.
Lemma pi_table_complete : map (fun r => fst (fst r)) pi_table = oct256.
Proof. vm_compute. reflexivity. Qed.

(* the model reproduces every row; the octet written back keeps exactly the bits in [keep] *)
Lemma deliver_flags_table_ok : forallb (flag_row_ok fs_DeliverFlags 255) deliver_flags_table = true.
Proof. vm_compute. reflexivity. Qed.
Lemma submit_flags_table_ok : forallb (flag_row_ok fs_SubmitFlags 255) submit_flags_table = true.
Proof. vm_compute. reflexivity. Qed.
Lemma flags_table_ok : forallb (flag_row_ok fs_Flags 3) flags_table = true.
Proof. vm_compute. reflexivity. Qed.
Lemma pi_table_ok : forallb (flag_row_ok fs_ParameterIndicator 7) pi_table = true.
Proof. vm_compute. reflexivity. Qed.

(* GSM 03.40 9.2.2.2 bit assignment of the SMS-SUBMIT first octet, on the struct as decoded:
   [MessageType; RejectDuplicates; ValidityPeriodFormat; ReplyPath; UserDataHeaderIndicator; StatusReportRequest]
   holds, in this order, bits 1..0 (as type<<1), bit 2, bits 4..3, bit 5, bit 6, bit 7.  (The Go field
   names of bits 5 and 7 are swapped with respect to the standard - TP-SRR is bit 5, TP-RP bit 7 -
   which no octet can observe.) *)
Definition submit_row_spec (row : N * list N * N) : bool :=
  let '(b, vals, c) := row in
  beq_list N.eqb vals [2 * (b mod 4); (b / 4) mod 2; (b / 8) mod 4; (b / 32) mod 2; (b / 64) mod 2; (b / 128) mod 2]
  && (c =? b).
Lemma submit_flags_table_spec : forallb submit_row_spec submit_flags_table = true.
Proof. vm_compute. reflexivity. Qed.

(* SMS-DELIVER (9.2.2.1) after the D24 fix: TP-MMS bit 2, TP-SRI bit 5, TP-UDHI bit 6 (field TPUDHI) and
   TP-RP bit 7 (field TPRP) are where the standard puts them; the fields called ReplyPath / UDHIndicator
   read bits 3 / 4 (not used in SMS-DELIVER; TestFlags pins them there).  All eight bits are written back. *)
Definition deliver_row_spec (row : N * list N * N) : bool :=
  let '(b, vals, c) := row in
  beq_list N.eqb vals [2 * (b mod 4); (b / 4) mod 2; (b / 8) mod 2; (b / 16) mod 2; (b / 32) mod 2; (b / 64) mod 2; (b / 128) mod 2]
  && (c =? b).
Lemma deliver_flags_table_spec : forallb deliver_row_spec deliver_flags_table = true.
Proof. vm_compute. reflexivity. Qed.

Lemma beq_nlist_eq (a b : list N) : beq_list N.eqb a b = true -> a = b.
Proof.
  revert b. induction a as [|x a IH]; intros [|y b]; cbn; try discriminate; auto.
  intros H. apply andb_true_iff in H. destruct H as [Hx Hl]. apply N.eqb_eq in Hx. subst. f_equal. auto.
Qed.

Lemma table_row_in {A} (tbl : list (N * A * N)) b :
  map (fun r => fst (fst r)) tbl = oct256 -> b < 256 -> exists v c, In (b, v, c) tbl.
Proof.
  intros Hc Hb. pose proof (oct256_spec b Hb) as Hin. rewrite <- Hc in Hin.
  apply in_map_iff in Hin. destruct Hin as [[[b' v] c] [E Hin]]. cbn in E. subst b'. eauto.
Qed.

Theorem first_octet_tables :
  (* SMS-SUBMIT: all 256 octets are decoded to the standard's bit fields and written back unchanged *)
  (forall b, b < 256 -> exists vals, In (b, vals, b) submit_flags_table /\
      vals = [2 * (b mod 4); (b / 4) mod 2; (b / 8) mod 4; (b / 32) mod 2; (b / 64) mod 2; (b / 128) mod 2]) /\
  (* SMS-DELIVER: likewise, all eight bits *)
  (forall b, b < 256 -> exists vals, In (b, vals, b) deliver_flags_table /\
      vals = [2 * (b mod 4); (b / 4) mod 2; (b / 8) mod 2; (b / 16) mod 2; (b / 32) mod 2; (b / 64) mod 2; (b / 128) mod 2]).
Proof.
  split; intros b Hb.
  - destruct (table_row_in _ b submit_flags_table_complete Hb) as [v [c Hin]].
    pose proof submit_flags_table_spec as H. rewrite forallb_forall in H. specialize (H _ Hin).
    unfold submit_row_spec in H. apply andb_true_iff in H. destruct H as [H1 H2]. apply N.eqb_eq in H2. subst c.
    exists v. split; [exact Hin|]. apply beq_nlist_eq. exact H1.
  - destruct (table_row_in _ b deliver_flags_table_complete Hb) as [v [c Hin]].
    pose proof deliver_flags_table_spec as H. rewrite forallb_forall in H. specialize (H _ Hin).
    unfold deliver_row_spec in H. apply andb_true_iff in H. destruct H as [H1 H2]. apply N.eqb_eq in H2. subst c.
    exists v. split; [exact Hin|]. apply beq_nlist_eq. exact H1.
Qed.

(* D24 (repaired): the struct before the fix had five fields; first octet 0x40 (TP-UDHI) was written back as 0x00 *)
Definition deliver_fields_legacy : list (string * fbit) :=
  [("MessageType"%string, FbMT); ("MoreMessagesToSend"%string, FbBool); ("ReplyPath"%string, FbBool);
   ("UDHIndicator"%string, FbBool); ("StatusReportIndication"%string, FbBool)].
Lemma deliver_first_octet_legacy_refuted :
  marshal_flags deliver_fields_legacy (unmarshal_flags deliver_fields_legacy 64 0) 0 = 0 /\
  marshal_flags (fs_fields fs_DeliverFlags) (unmarshal_flags (fs_fields fs_DeliverFlags) 64 0) 0 = 64.
Proof. split; vm_compute; reflexivity. Qed.

(* ------------------------------------------------------------------ data coding scheme -> TP-UDL unit *)
(* row = (d, Marshal wrote 7 of 8 user-data octets under DCS d): the code against the model against GSM 03.38 section 4 *)
Definition dcs_row_ok (row : N * bool) : bool :=
  let '(d, c) := row in Bool.eqb c (counts_septets d) && Bool.eqb c (dcs_counts_septets d).
Lemma dcs_table_complete : map fst dcs_table = oct256.
Proof. vm_compute. reflexivity. Qed.
Lemma dcs_table_ok : forallb dcs_row_ok dcs_table = true.
Proof. vm_compute. reflexivity. Qed.
Lemma dcs_model_sweep : forallb (fun d => Bool.eqb (counts_septets d) (dcs_counts_septets d)) oct256 = true.
Proof. vm_compute. reflexivity. Qed.
Lemma dcs_model d : d < 256 -> counts_septets d = dcs_counts_septets d.
Proof. intros Hd. apply Bool.eqb_prop. exact (sweep_oct _ dcs_model_sweep d Hd). Qed.
Theorem dcs_table_spec : forall d, d < 256 -> In (d, dcs_counts_septets d) dcs_table.
Proof.
  intros d Hd. pose proof (oct256_spec d Hd) as Hin. rewrite <- dcs_table_complete in Hin.
  apply in_map_iff in Hin. destruct Hin as [[d' c] [E Hin]]. cbn in E. subst d'.
  pose proof dcs_table_ok as H. rewrite forallb_forall in H. specialize (H _ Hin). cbn in H.
  apply andb_true_iff in H. destruct H as [_ H]. apply Bool.eqb_prop in H. subst c. exact Hin.
Qed.

(* ------------------------------------------------------------------ relative validity period *)
(* row = (b, whole seconds, nanosecond remainder, octet written back) *)
Definition rel_row_ok (row : N * N * N * N) : bool :=
  let '(b, secs, ns, c) := row in
  (secs =? rel_seconds b) && (ns =? 0) && (c =? b) &&      (* the code against the standard *)
  (rel_dur b =? secs) && (rel_octet secs =? c).            (* the model against the code *)
Lemma rel_vp_table_complete : map (fun r => fst (fst (fst r))) rel_vp_table = oct256.
Proof. vm_compute. reflexivity. Qed.
Lemma rel_vp_table_ok : forallb rel_row_ok rel_vp_table = true.
Proof. vm_compute. reflexivity. Qed.

Theorem rel_vp_table_spec :
  forall b, b < 256 -> In (b, rel_seconds b, 0, b) rel_vp_table.
Proof.
  intros b Hb. pose proof (oct256_spec b Hb) as Hin. rewrite <- rel_vp_table_complete in Hin.
  apply in_map_iff in Hin. destruct Hin as [[[[b' s] ns] c] [E Hin]]. cbn in E. subst b'.
  pose proof rel_vp_table_ok as H. rewrite forallb_forall in H. specialize (H _ Hin). cbn in H.
  repeat (apply andb_true_iff in H; destruct H as [H ?]).
  repeat match goal with Hx : (_ =? _) = true |- _ => apply N.eqb_eq in Hx end. subst. exact Hin.
Qed.

(* the model, for all 256 octets: duration of the standard, and written back unchanged *)
Lemma rel_model_sweep : forallb (fun b => (rel_dur b =? rel_seconds b) && (rel_octet (rel_dur b) =? b)) oct256 = true.
Proof. vm_compute. reflexivity. Qed.
Lemma rel_model b : b < 256 -> rel_dur b = rel_seconds b /\ rel_octet (rel_dur b) = b.
Proof.
  intros Hb. pose proof (sweep_oct _ rel_model_sweep b Hb) as H. cbn in H.
  apply andb_true_iff in H. destruct H as [H1 H2]. apply N.eqb_eq in H1, H2. auto.
Qed.

(* D23 (repaired): the code before the fix compared whole hours with 12 *)
Lemma rel_octet_legacy_refuted : rel_octet_gen true (rel_dur 144) = 149 /\ rel_octet (rel_dur 144) = 144.
Proof. split; vm_compute; reflexivity. Qed.
