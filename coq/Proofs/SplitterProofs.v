(* The greedy splitter (Model/Splitter.v), for an ARBITRARY width function:
   nothing dropped / duplicated / reordered, every segment within the limit,
   no empty segment, every segment but the last maximal; terminates (no
   Err EFuel) as soon as no single rune is wider than the limit. *)
From V Require Import Model.Base Model.Splitter.
From Coq Require Import Arith.
Open Scope nat_scope.
Local Notation length := List.length.
Local Notation concat := List.concat.

Section Split.
  Variable w : N -> nat.
  Variable lim : nat.                       (* limit in bits *)
  Hypothesis w_pos : forall r, 0 < w r.

  Notation total := (total w).

  Lemma total_app a b : total (a ++ b) = total a + total b.
  Proof. induction a; simpl; lia. Qed.
  Lemma total_rev a : total (rev a) = total a.
  Proof. induction a; simpl; auto. rewrite total_app; simpl; lia. Qed.
  Lemma total_pos_iff a : 0 < total a <-> a <> [].
  Proof. destruct a; simpl; [split; [lia|congruence]|]. pose proof (w_pos n). split; [discriminate|lia]. Qed.
  Lemma total_concat segs : total (concat segs) = fold_right (fun s a => total s + a) 0 segs.
  Proof. induction segs; simpl; auto. rewrite total_app. lia. Qed.

  (* every segment that has a successor could not have taken the successor's first rune *)
  Inductive maximal : list (list N) -> Prop :=
  | max_nil : maximal []
  | max_one s : maximal [s]
  | max_cons s r t rest : lim < total s + w r -> maximal ((r :: t) :: rest) -> maximal (s :: (r :: t) :: rest).

  (* the outcome is never a panic and the only error is the divergence marker *)
  Lemma split_aux_outcome : forall rs cur len,
    (exists segs, split_aux w lim cur len rs = Ok segs) \/ split_aux w lim cur len rs = Err EFuel.
  Proof.
    induction rs as [|r rest IH]; intros cur len; cbn [split_aux]; [left; eauto|].
    destruct (Nat.ltb lim (len + w r)).
    - destruct (Nat.ltb lim (w r)); [now right|].
      destruct (IH [r] (w r)) as [[segs E]|E]; rewrite E; cbn [obind]; [left; eauto|now right].
    - apply IH.
  Qed.

  Lemma split_aux_terminates : forall rs cur len, Forall (fun r => w r <= lim) rs ->
    exists segs, split_aux w lim cur len rs = Ok segs.
  Proof.
    induction rs as [|r rest IH]; intros cur len H; cbn [split_aux]; [eauto|].
    inversion H as [|? ? Hr Hrest]; subst.
    destruct (Nat.ltb lim (len + w r)); [|now apply IH].
    destruct (Nat.ltb_spec lim (w r)); [lia|].
    destruct (IH [r] (w r) Hrest) as [segs E]. rewrite E. cbn [obind]. eauto.
  Qed.

  Lemma split_aux_concat : forall rs cur len segs, len = total cur ->
    split_aux w lim cur len rs = Ok segs -> concat segs = rev cur ++ rs.
  Proof.
    induction rs as [|r rest IH]; intros cur len segs Hl H; cbn [split_aux] in H.
    - injection H as <-. rewrite app_nil_r. destruct (Nat.ltb_spec 0 len) as [L|L]; cbn [concat]; [now rewrite app_nil_r|].
      assert (cur = []) as ->; [|reflexivity]. destruct cur; [reflexivity|]. exfalso.
      assert (0 < total (n :: cur)) by (apply total_pos_iff; discriminate). lia.
    - destruct (Nat.ltb lim (len + w r)).
      + destruct (Nat.ltb lim (w r)); [discriminate|].
        destruct (split_aux w lim [r] (w r) rest) as [segs'| |] eqn:E; cbn [obind] in H; try discriminate.
        injection H as <-. cbn [List.concat]. rewrite (IH [r] (w r) segs' ltac:(simpl; lia) E). reflexivity.
      + rewrite (IH (r :: cur) (len + w r) segs ltac:(simpl; lia) H). simpl. now rewrite <- app_assoc.
  Qed.

  Lemma split_aux_fits : forall rs cur len segs, len = total cur -> len <= lim ->
    split_aux w lim cur len rs = Ok segs -> Forall (fun s => total s <= lim) segs.
  Proof.
    induction rs as [|r rest IH]; intros cur len segs Hl Hle H; cbn [split_aux] in H.
    - injection H as <-. destruct (Nat.ltb 0 len); repeat constructor. rewrite total_rev. lia.
    - destruct (Nat.ltb_spec lim (len + w r)).
      + destruct (Nat.ltb_spec lim (w r)); [discriminate|].
        destruct (split_aux w lim [r] (w r) rest) as [segs'| |] eqn:E; cbn [obind] in H; try discriminate.
        injection H as <-. constructor; [rewrite total_rev; lia|].
        apply (IH [r] (w r) segs' ltac:(simpl; lia) ltac:(assumption) E).
      + apply (IH (r :: cur) (len + w r) segs ltac:(simpl; lia) ltac:(assumption) H).
  Qed.

  Lemma split_aux_nonempty : forall rs cur len segs, len = total cur ->
    split_aux w lim cur len rs = Ok segs -> Forall (fun s => s <> []) segs.
  Proof.
    induction rs as [|r rest IH]; intros cur len segs Hl H; cbn [split_aux] in H.
    - injection H as <-. destruct (Nat.ltb_spec 0 len); repeat constructor.
      intros E. apply (f_equal (@length N)) in E. rewrite rev_length in E. destruct cur; [simpl in Hl; lia|discriminate].
    - destruct (Nat.ltb_spec lim (len + w r)).
      + destruct (Nat.ltb_spec lim (w r)); [discriminate|].
        destruct (split_aux w lim [r] (w r) rest) as [segs'| |] eqn:E; cbn [obind] in H; try discriminate.
        injection H as <-. constructor.
        * intros X. apply (f_equal (@length N)) in X. rewrite rev_length in X. destruct cur; [simpl in Hl; lia|discriminate].
        * apply (IH [r] (w r) segs' ltac:(simpl; lia) E).
      + apply (IH (r :: cur) (len + w r) segs ltac:(simpl; lia) H).
  Qed.

  (* the first segment produced from an open segment starts with that open segment *)
  Lemma split_aux_head : forall rs cur len segs, cur <> [] -> len = total cur ->
    split_aux w lim cur len rs = Ok segs -> exists t more, segs = (rev cur ++ t) :: more.
  Proof.
    induction rs as [|x rs IH]; intros cur len segs Hc Hl H; cbn [split_aux] in H.
    - injection H as <-. destruct (Nat.ltb_spec 0 len).
      + exists [], []. now rewrite app_nil_r.
      + exfalso. apply total_pos_iff in Hc. lia.
    - destruct (Nat.ltb lim (len + w x)).
      + destruct (Nat.ltb lim (w x)); [discriminate|].
        destruct (split_aux w lim [x] (w x) rs) as [segs'| |]; cbn [obind] in H; try discriminate.
        injection H as <-. exists [], segs'. now rewrite app_nil_r.
      + destruct (IH (x :: cur) (len + w x) segs) as (t & more & E); [discriminate|simpl; lia|exact H|].
        exists (x :: t), more. rewrite E. simpl. now rewrite <- app_assoc.
  Qed.

  Lemma split_aux_maximal : forall rs cur len segs, len = total cur ->
    split_aux w lim cur len rs = Ok segs -> maximal segs.
  Proof.
    induction rs as [|r rest IH]; intros cur len segs Hl H; cbn [split_aux] in H.
    - injection H as <-. destruct (Nat.ltb 0 len); constructor.
    - destruct (Nat.ltb_spec lim (len + w r)).
      + destruct (Nat.ltb_spec lim (w r)); [discriminate|].
        destruct (split_aux w lim [r] (w r) rest) as [segs'| |] eqn:E; cbn [obind] in H; try discriminate.
        injection H as <-.
        destruct (split_aux_head rest [r] (w r) segs') as (t & more & ->); [discriminate|simpl; lia|exact E|].
        cbn [rev app]. constructor; [rewrite total_rev; lia|].
        apply (IH [r] (w r)); [simpl; lia|exact E].
      + apply (IH (r :: cur) (len + w r) segs ltac:(simpl; lia) H).
  Qed.
End Split.

(* ---------------------------------------------------------------- the theorems about Split(input, limit) *)
Section SplitTheorems.
  Variable w : N -> nat.
  Hypothesis w_pos : forall r, 0 < w r.
  Variable limit : nat.                     (* in octets, as the caller passes it *)

  Theorem split_concat rs segs : split w limit rs = Ok segs -> concat segs = rs.
  Proof. intros H. apply (split_aux_concat w (8 * limit) w_pos rs [] 0 segs eq_refl H). Qed.

  Theorem split_fits rs segs : split w limit rs = Ok segs -> Forall (fun s => total w s <= 8 * limit) segs.
  Proof. intros H. apply (split_aux_fits w (8 * limit) rs [] 0 segs eq_refl (Nat.le_0_l _) H). Qed.

  Theorem split_nonempty rs segs : split w limit rs = Ok segs -> Forall (fun s => s <> []) segs.
  Proof. intros H. apply (split_aux_nonempty w (8 * limit) rs [] 0 segs eq_refl H). Qed.

  Theorem split_maximal rs segs : split w limit rs = Ok segs -> maximal w (8 * limit) segs.
  Proof. intros H. apply (split_aux_maximal w (8 * limit) w_pos rs [] 0 segs eq_refl H). Qed.

  Theorem split_terminates rs : Forall (fun r => w r <= 8 * limit) rs -> exists segs, split w limit rs = Ok segs.
  Proof. apply split_aux_terminates. Qed.

  Theorem split_outcome rs : (exists segs, split w limit rs = Ok segs) \/ split w limit rs = Err EFuel.
  Proof. apply split_aux_outcome. Qed.

  (* a text wider than one segment gives at least two segments *)
  Theorem split_at_least_two rs segs : split w limit rs = Ok segs -> 8 * limit < total w rs -> 2 <= length segs.
  Proof.
    intros H Hw. pose proof (split_concat _ _ H) as C. pose proof (split_fits _ _ H) as F.
    destruct segs as [|s1 [|s2 segs]]; cbn [length]; try lia.
    - cbn in C. subst rs. cbn in Hw. lia.
    - cbn in C. rewrite app_nil_r in C. subst s1. inversion F; subst. lia.
  Qed.
End SplitTheorems.
