(* C07 at payload level for the nine table codings: ComposeMultipartShortMessage with the encoders of
   Model/Charset.v (compose_cs).  Reassembly - decoding every part's payload with the same coding and joining
   gives the text - follows from the generic segment theorem (ComposeProofs.v) and the round trips of C17
   (CharsetProofs.v, CharsetRoundtrip.v); no panic, no divergence. *)
From V Require Import Model.Base Model.IntervalMap Model.Splitter Model.Compose Gen.Widths Gen.Charsets
  Model.Charset Model.ComposeText Proofs.SplitterProofs Proofs.ComposeProofs Proofs.ComposeInst
  Proofs.CharsetProofs Proofs.CharsetRoundtrip.
From Coq Require Import Lia ZifyN ZifyNat ZifyBool.
Ltac Zify.zify_post_hook ::= Z.div_mod_to_equations.
Open Scope nat_scope.
Local Notation length := List.length.
Local Notation concat := List.concat.

Lemma w_of_pos c r : 0 < w_of c r.
Proof.
  destruct c; cbn [w_of]; first [apply w_1byte_pos | apply w_multibyte_pos | apply w_utf16_pos | apply w_measured_pos].
Qed.

(* no character is charged more than 32 bits: Split always terminates inside Compose *)
Lemma w_measured_eucjp_le r : w_measured wd_eucjp r <= 32.
Proof.
  unfold w_measured. destruct (r <? 128)%N; [lia|].
  destruct (wd_find r wd_eucjp) as [[n wd]|] eqn:F; [|lia].
  destruct (wd_find_in _ _ _ _ F) as (lo & hi & I & _).
  pose proof wd_eucjp_ok as K. rewrite forallb_forall in K. specialize (K _ I). unfold row_measured in K.
  destruct (0 <? n)%N; [|lia]. rewrite !andb_true_iff in K. destruct K as [[_ K] _]. apply N.leb_le in K. lia.
Qed.
Lemma w_of_le c r : w_of c r <= 8 * 133.
Proof.
  destruct c; cbn [w_of]; unfold w_1byte, w_multibyte, w_utf16; try lia;
    try (destruct (r <? 127)%N; lia);
    try (destruct ((r <=? 55295)%N || ((57344 <=? r)%N && (r <=? 65535)%N)); lia).
  pose proof (w_measured_eucjp_le r). lia.
Qed.

Lemma in_concat_segs {A} (segs : list (list A)) s x : In s segs -> In x s -> In x (concat segs).
Proof. intros Hs Hx. apply in_concat. exists s. split; assumption. Qed.

Lemma cs_scope_segment c segs s : cs_scope c (concat segs) -> In s segs -> cs_scope c s.
Proof.
  intros [Hj Hu] Hin. split.
  - intros E Hx. exact (Hj E (in_concat_segs segs s 27%N Hin Hx)).
  - intros E. specialize (Hu E). rewrite Forall_forall in Hu |- *. intros x Hx. exact (Hu x (in_concat_segs segs s x Hin Hx)).
Qed.

(* reassembly: the parts' payloads, decoded with the same coding, are consecutive pieces of the text that join to it *)
Theorem compose_cs_lossless c ref t parts : cs_scope c t -> compose_cs c ref t = Ok parts ->
  exists segs, concat segs = t /\ Forall2 (fun pt s => decode c (pt_payload pt) = Ok s) parts segs /\
    (length segs = 1 \/ Forall (fun s => s <> []) segs).
Proof.
  intros Hsc H.
  destruct (compose_segments bytes (@length N) (w_of c) (encode c) (w_of_pos c) ref t parts H) as (segs & C & F & NE).
  exists segs. split; [exact C|]. split; [|exact NE]. subst t.
  assert (G : forall s, In s segs -> cs_scope c s) by (intros s Hs; exact (cs_scope_segment c segs s Hsc Hs)).
  clear H NE Hsc. induction F as [|pt s parts segs E F IH]; constructor.
  - exact (cs_roundtrip c s (pt_payload pt) (G s (or_introl eq_refl)) E).
  - apply IH. intros s' Hs'. apply G. right. exact Hs'.
Qed.

(* hence the joined decodings are the text itself *)
Fixpoint decode_parts (c : coding) (parts : list (part bytes)) : outcome (list N) :=
  match parts with
  | [] => Ok []
  | pt :: rest =>
      match decode c (pt_payload pt), decode_parts c rest with
      | Ok s, Ok t => Ok (s ++ t)
      | Ok _, e => e
      | e, _ => e
      end
  end.
Theorem compose_cs_reassembles c ref t parts : cs_scope c t -> compose_cs c ref t = Ok parts ->
  decode_parts c parts = Ok t.
Proof.
  intros Hsc H. destruct (compose_cs_lossless c ref t parts Hsc H) as (segs & C & F & _). subst t. clear H Hsc.
  induction F as [|pt s parts segs E F IH]; [reflexivity|].
  cbn [decode_parts concat]. rewrite E, IH. reflexivity.
Qed.

(* outcomes: never a panic, never the divergence of Split, errors are "not in the code", "too many parts" or "too large" *)
Theorem compose_cs_total c ref t : compose_cs c ref t <> Panic /\ compose_cs c ref t <> Err EFuel.
Proof.
  split.
  - apply compose_no_panic. intros s. apply encode_no_panic.
  - apply compose_no_fuel; [apply w_of_pos|apply w_of_le|]. intros s E. apply encode_err in E. discriminate.
Qed.

(* ---- the two independent dumps of the encoders agree: Gen/Widths.v (wd_<c>: octets of the one-character text, used by the
        length-only instance compose_len and by the width theorems) and Gen/Charsets.v (enc_runs_<c>: the octets themselves,
        used by compose_cs and by C17), point by point over every accepted scalar value - proved for the four single-octet
        charsets (see PARTIAL below for the multi-octet ones; for UCS-2 C17_exact_ucs2 and C07_width_exact say the same). ---- *)
Open Scope N_scope.
Definition agree_wd_row (es : runs) (x : wrow) : bool :=
  let '(lo, hi, n, _) := x in
  forall_in lo hi (fun r => match lookup r es with Some (n', _) => n' =? n | None => false end).
Definition agree_enc_run (tbl : list wrow) (q : run) : bool :=
  let '(lo, hi, n, _) := q in
  forall_in lo hi (fun r => match wd_find r tbl with Some (n', _) => n' =? n | None => false end).
Definition tables_agree (tbl : list wrow) (es : runs) : bool :=
  forallb (agree_wd_row es) tbl && forallb (agree_enc_run tbl) es.

Lemma tables_agree_sound tbl es : tables_agree tbl es = true ->
  forall r, match wd_find r tbl, enc_rune_t es r with
            | Some (n, _), Some b => N.of_nat (length b) = n
            | None, None => True
            | _, _ => False
            end.
Proof.
  unfold tables_agree. rewrite andb_true_iff. intros [H1 H2] r.
  rewrite forallb_forall in H1. rewrite forallb_forall in H2.
  destruct (wd_find r tbl) as [[n wd]|] eqn:F.
  - destruct (wd_find_in _ _ _ _ F) as (lo & hi & I & B). specialize (H1 _ I). unfold agree_wd_row in H1.
    pose proof (forall_in_sound _ _ _ H1 r B) as H. cbv beta in H. unfold enc_rune_t.
    destruct (lookup r es) as [[n' x]|]; [|discriminate]. apply N.eqb_eq in H. subst n'.
    rewrite be_bytes_length. lia.
  - unfold enc_rune_t. destruct (lookup r es) as [[n x]|] eqn:L; [|exact I].
    destruct (lookup_Some_in _ _ _ _ L) as (lo & hi & v & Hin & B & _). specialize (H2 _ Hin). unfold agree_enc_run in H2.
    pose proof (forall_in_sound _ _ _ H2 r B) as H. cbv beta in H. rewrite F in H. discriminate.
Qed.

Lemma agree_ascii : tables_agree wd_ascii enc_runs_ascii = true. Proof. vm_compute. reflexivity. Qed.
Lemma agree_latin1 : tables_agree wd_latin1 enc_runs_latin1 = true. Proof. vm_compute. reflexivity. Qed.
Lemma agree_cyrillic : tables_agree wd_cyrillic enc_runs_cyrillic = true. Proof. vm_compute. reflexivity. Qed.
Lemma agree_hebrew : tables_agree wd_hebrew enc_runs_hebrew = true. Proof. vm_compute. reflexivity. Qed.
(* PARTIAL: the same check holds for Shift-JIS, EUC-JP and EUC-KR (tables_agree wd_shiftjis enc_runs_sjis = true etc.,
   evaluated once during development: 5 min 46 s of kernel time for the three, point-by-point with linear look-ups) but
   is not part of the build - every change of the encoders would pay it again in the quick tier.  A linear merge over
   the two sorted tables would make it affordable: DONE in Proofs/TablesAgree.v (runs_agree, all eight stateless table
   codings in < 4 s; C07_tables_agree). *)

Definition single_octet (c : coding) : Prop := c = CAscii \/ c = CLatin1 \/ c = CCyrillic \/ c = CHebrew.

Theorem tables_agree_all c : single_octet c ->
  forall r, match wd_find r (wd_of c), enc_rune_t (enc_runs c) r with
            | Some (n, _), Some b => N.of_nat (length b) = n
            | None, None => True
            | _, _ => False
            end.
Proof.
  intros [->|[->|[->| ->]]]; cbn [wd_of enc_runs]; apply tables_agree_sound.
  - exact agree_ascii.
  - exact agree_latin1.
  - exact agree_cyrillic.
  - exact agree_hebrew.
Qed.

(* hence the length-only encoder of compose_len is the length of the octets compose_cs encodes, for every text *)
Theorem enc_len_is_length c : single_octet c -> forall t,
  match enc_len_stateless (wd_of c) t, encode c t with
  | Ok n, Ok bs => n = length bs
  | Err _, Err _ => True
  | _, _ => False
  end.
Proof.
  intros Hc. assert (E : encode c = encode_t (enc_runs c)) by (destruct Hc as [->|[->|[->| ->]]]; reflexivity).
  rewrite E. induction t as [|r t IH]; cbn [enc_len_stateless encode_t]; [reflexivity|].
  pose proof (tables_agree_all c Hc r) as A.
  destruct (wd_find r (wd_of c)) as [[n wd]|]; destruct (enc_rune_t (enc_runs c) r) as [b|]; try contradiction; [|exact I].
  destruct (enc_len_stateless (wd_of c) t) as [l|e|]; destruct (encode_t (enc_runs c) t) as [bs|e'|]; try contradiction; cbn [obind].
  - rewrite app_length. lia.
  - exact I.
Qed.
