(* C07 at payload level for the nine table codings: ComposeMultipartShortMessage with the encoders of
   Model/Charset.v (compose_cs).  Reassembly - decoding every part's payload with the same coding and joining
   gives the text - follows from the generic segment theorem (ComposeProofs.v) and the round trips of C17
   (CharsetProofs.v, CharsetRoundtrip.v); no panic, no divergence. *)
From V Require Import Model.Base Model.IntervalMap Model.Splitter Model.Compose Gen.Widths Gen.Charsets
  Model.Charset Model.ComposeText Proofs.SplitterProofs Proofs.ComposeProofs Proofs.ComposeInst
  Proofs.CharsetProofs Proofs.CharsetRoundtrip.
From Coq Require Import Lia ZifyN ZifyNat ZifyBool.
Ltac Zify.zify_post_hook ::= Z.div_mod_to_equations.
Open Scope nat_scope.
Local Notation length := List.length.
Local Notation concat := List.concat.

Lemma w_of_pos c r : 0 < w_of c r.
Proof.
  destruct c; cbn [w_of]; first [apply w_1byte_pos | apply w_multibyte_pos | apply w_utf16_pos | apply w_measured_pos].
Qed.

(* no character is charged more than 32 bits: Split always terminates inside Compose *)
Lemma w_measured_eucjp_le r : w_measured wd_eucjp r <= 32.
Proof.
  unfold w_measured. destruct (r <? 128)%N; [lia|].
  destruct (wd_find r wd_eucjp) as [[n wd]|] eqn:F; [|lia].
  destruct (wd_find_in _ _ _ _ F) as (lo & hi & I & _).
  pose proof wd_eucjp_ok as K. rewrite forallb_forall in K. specialize (K _ I). unfold row_measured in K.
  destruct (0 <? n)%N; [|lia]. rewrite !andb_true_iff in K. destruct K as [[_ K] _]. apply N.leb_le in K. lia.
Qed.
Lemma w_of_le c r : w_of c r <= 8 * 133.
Proof.
  destruct c; cbn [w_of]; unfold w_1byte, w_multibyte, w_utf16; try lia;
    try (destruct (r <? 127)%N; lia);
    try (destruct ((r <=? 55295)%N || ((57344 <=? r)%N && (r <=? 65535)%N)); lia).
  pose proof (w_measured_eucjp_le r). lia.
Qed.

Lemma in_concat_segs {A} (segs : list (list A)) s x : In s segs -> In x s -> In x (concat segs).
Proof. intros Hs Hx. apply in_concat. exists s. split; assumption. Qed.

Lemma cs_scope_segment c segs s : cs_scope c (concat segs) -> In s segs -> cs_scope c s.
Proof.
  intros [Hj Hu] Hin. split.
  - intros E Hx. exact (Hj E (in_concat_segs segs s 27%N Hin Hx)).
  - intros E. specialize (Hu E). rewrite Forall_forall in Hu |- *. intros x Hx. exact (Hu x (in_concat_segs segs s x Hin Hx)).
Qed.

(* reassembly: the parts' payloads, decoded with the same coding, are consecutive pieces of the text that join to it *)
Theorem compose_cs_lossless c ref t parts : cs_scope c t -> compose_cs c ref t = Ok parts ->
  exists segs, concat segs = t /\ Forall2 (fun pt s => decode c (pt_payload pt) = Ok s) parts segs /\
    (length segs = 1 \/ Forall (fun s => s <> []) segs).
Proof.
  intros Hsc H.
  destruct (compose_segments bytes (@length N) (w_of c) (encode c) (w_of_pos c) ref t parts H) as (segs & C & F & NE).
  exists segs. split; [exact C|]. split; [|exact NE]. subst t.
  assert (G : forall s, In s segs -> cs_scope c s) by (intros s Hs; exact (cs_scope_segment c segs s Hsc Hs)).
  clear H NE Hsc. induction F as [|pt s parts segs E F IH]; constructor.
  - exact (cs_roundtrip c s (pt_payload pt) (G s (or_introl eq_refl)) E).
  - apply IH. intros s' Hs'. apply G. right. exact Hs'.
Qed.

(* hence the joined decodings are the text itself *)
Fixpoint decode_parts (c : coding) (parts : list (part bytes)) : outcome (list N) :=
  match parts with
  | [] => Ok []
  | pt :: rest =>
      match decode c (pt_payload pt), decode_parts c rest with
      | Ok s, Ok t => Ok (s ++ t)
      | Ok _, e => e
      | e, _ => e
      end
  end.
Theorem compose_cs_reassembles c ref t parts : cs_scope c t -> compose_cs c ref t = Ok parts ->
  decode_parts c parts = Ok t.
Proof.
  intros Hsc H. destruct (compose_cs_lossless c ref t parts Hsc H) as (segs & C & F & _). subst t. clear H Hsc.
  induction F as [|pt s parts segs E F IH]; [reflexivity|].
  cbn [decode_parts concat]. rewrite E, IH. reflexivity.
Qed.

(* outcomes: never a panic, never the divergence of Split, errors are "not in the code", "too many parts" or "too large" *)
Theorem compose_cs_total c ref t : compose_cs c ref t <> Panic /\ compose_cs c ref t <> Err EFuel.
Proof.
  split.
  - apply compose_no_panic. intros s. apply encode_no_panic.
  - apply compose_no_fuel; [apply w_of_pos|apply w_of_le|]. intros s E. apply encode_err in E. discriminate.
Qed.
