(* Lemmas for C09: the coding returned by the detector can represent the text. *)
From V Require Import Model.Base Model.IntervalMap Spec.Iso8859 Spec.Utf16 Gen.Charsets Model.Charset
  Gen.Detect Gen.KnownBad Model.Detect Proofs.CharsetProofs Proofs.CharsetRoundtrip Proofs.DetectBits.
From Coq Require Import ZifyN ZifyNat ZifyBool Arith.
Ltac Zify.zify_post_hook ::= Z.div_mod_to_equations.
Open Scope N_scope.

(* the committed known-bad set of each label (finding D17); none for UCS-2 *)
Definition known_bad_of (l : label) : ranges :=
  match l with
  | LGsm7 => known_bad_gsm7
  | LCs CAscii => known_bad_ascii | LCs CLatin1 => known_bad_latin1
  | LCs CCyrillic => known_bad_cyrillic | LCs CHebrew => known_bad_hebrew
  | LCs CSjis => known_bad_sjis | LCs CEuckr => known_bad_euckr
  | LCs _ => []
  end.

(* ------------------------------------------------------------- helpers *)
Lemma encode_t_total t : forall rs, (forall r, In r rs -> mem r (ranges_of t) = true) ->
  exists bs, encode_t t rs = Ok bs.
Proof.
  induction rs as [|r rest IH]; intros H; [exists []; reflexivity|].
  destruct (lookup_mem r t (H r (or_introl eq_refl))) as [[n x] Hl].
  destruct (IH (fun r' Hr' => H r' (or_intror Hr'))) as [bs Hbs].
  exists (be_bytes (N.to_nat n) x ++ bs). cbn [encode_t]. unfold enc_rune_t. rewrite Hl, Hbs. reflexivity.
Qed.

(* Validate admits r, r not in the known-bad set  ==>  the encoder accepts r *)
Lemma accepts_from_incl v a k r :
  incl2 v a k = true -> mem r v = true -> mem r k = false -> mem r a = true.
Proof.
  intros Hi Hv Hk. pose proof (incl2_sound _ _ _ Hi r Hv) as H. rewrite Hk, orb_false_r in H. exact H.
Qed.

Lemma validates_forall l rs : l <> LCs CUcs2 -> validates l rs = true ->
  forall r, In r rs -> mem r (validate_ranges l) = true.
Proof.
  intros Hl Hv r Hin.
  assert (H : forallb (fun r => mem r (validate_ranges l)) rs = true).
  { destruct l as [|c]; [exact Hv|]. destruct c; try exact Hv. contradiction Hl. reflexivity. }
  rewrite forallb_forall in H. exact (H r Hin).
Qed.

(* --------------------------------------------------------- GSM 7-bit text *)
Definition nth_is (tbl : list N) (i r : N) : bool :=
  match nth_error tbl (N.to_nat i) with Some r' => r' =? r | None => false end.

(* every accepted rune: one septet (not ESC) that the decoder maps back, or
   ESC + a code (not CR) that the decoder maps back *)
Definition runG (q : run) : bool :=
  let '(lo, hi, n, v) := q in
  (lo <=? hi) &&
  forall_in lo hi (fun r =>
    let x := v + (r - lo) in
    if n =? 1 then (x <? 128) && negb (x =? 27) && nth_is gsm7_dec x r
    else (n =? 2) && (x / 256 =? 27) && (x mod 256 <? 128) && negb (x mod 256 =? 13) &&
         nth_is gsm7_dec_esc (x mod 256) r && negb (r =? 65533)).
Lemma gsm7_G : forallb runG gsm7_enc_runs = true. Proof. vm_compute. reflexivity. Qed.

Lemma nth_is_spec tbl i r : nth_is tbl i r = true -> nth_error tbl (N.to_nat i) = Some r.
Proof.
  unfold nth_is. destruct (nth_error tbl (N.to_nat i)) as [r'|]; [|discriminate].
  intros H. apply N.eqb_eq in H. subst. reflexivity.
Qed.

Lemma g7_rune_facts r s : g7_rune r = Some s ->
  (exists x, s = [x] /\ x < 128 /\ x <> 27 /\ nth_error gsm7_dec (N.to_nat x) = Some r) \/
  (exists c, s = [27; c] /\ c < 128 /\ c <> 13 /\ nth_error gsm7_dec_esc (N.to_nat c) = Some r /\ r <> 65533).
Proof.
  unfold g7_rune. destruct (lookup r gsm7_enc_runs) as [[n x]|] eqn:Hl; [|discriminate].
  destruct (lookup_forall runG _ gsm7_G r n x Hl) as (lo & hi & v & HP & Hr & Hx). clear Hl.
  unfold runG in HP. apply andb_true_iff in HP. destruct HP as [_ HP].
  pose proof (forall_in_sound _ _ _ HP r Hr) as H. cbv beta zeta in H. rewrite <- Hx in H. clear HP.
  destruct (n =? 1).
  - intros E. injection E as <-. left. exists x.
    rewrite !andb_true_iff in H. destruct H as [[H1 H2] H3].
    apply N.ltb_lt in H1. apply negb_true_iff, N.eqb_neq in H2. apply nth_is_spec in H3. auto.
  - intros E. injection E as <-. right. exists (x mod 256).
    rewrite !andb_true_iff in H. destruct H as [[[[[H1 H2] H3] H4] H5] H6].
    apply N.eqb_eq in H2. apply N.ltb_lt in H3. apply negb_true_iff, N.eqb_neq in H4, H6.
    apply nth_is_spec in H5. rewrite H2. auto 6.
Qed.

Lemma g7_septets_bound : forall rs ss, g7_septets rs = Ok ss -> Forall (fun s => s < 128) ss.
Proof.
  induction rs as [|r rest IH]; intros ss H; cbn [g7_septets] in H.
  - injection H as <-. constructor.
  - destruct (g7_rune r) as [s|] eqn:Hs; [|discriminate].
    destruct (g7_septets rest) as [ss'| |] eqn:Hr; try discriminate. injection H as <-.
    apply Forall_app. split; [|apply IH; reflexivity].
    destruct (g7_rune_facts r s Hs) as [(x & -> & Hx & _)|(c & -> & Hc & _)].
    + constructor; [exact Hx|constructor].
    + constructor; [lia|]. constructor; [exact Hc|constructor].
Qed.

Definition oapp (rs : list N) (o : outcome (list N)) : outcome (list N) :=
  match o with Ok t => Ok (rs ++ t) | e => e end.

Lemma g7_runes_app : forall rs ss tail, g7_septets rs = Ok ss ->
  g7_runes (ss ++ tail) = oapp rs (g7_runes tail).
Proof.
  induction rs as [|r rest IH]; intros ss tail H; cbn [g7_septets] in H.
  - injection H as <-. cbn [app]. destruct (g7_runes tail); reflexivity.
  - destruct (g7_rune r) as [s|] eqn:Hs; [|discriminate].
    destruct (g7_septets rest) as [ss'| |] eqn:Hr; try discriminate. injection H as <-.
    rewrite <- app_assoc.
    destruct (g7_rune_facts r s Hs) as [(x & -> & Hx & Hx27 & Hd)|(c & -> & Hc & Hc13 & Hd & Hf)].
    + cbn [app g7_runes]. apply N.eqb_neq in Hx27. rewrite Hx27, Hd, (IH ss' tail eq_refl).
      destruct (g7_runes tail); reflexivity.
    + cbn [app g7_runes]. cbn [N.eqb Pos.eqb]. rewrite Hd. apply N.eqb_neq in Hf. rewrite Hf, (IH ss' tail eq_refl).
      destruct (g7_runes tail); reflexivity.
Qed.

Lemma padlen_ok n : (n mod 8 <> 7)%nat -> (padlen (7 * n) < 7)%nat.
Proof. unfold padlen. intros H. lia. Qed.
Lemma padlen_fill n : (n mod 8 = 7)%nat -> padlen (7 * (n + 1)) = 0%nat.
Proof. unfold padlen. intros H. lia. Qed.

Lemma last_app_single (l : list N) x d : last (l ++ [x]) d = x.
Proof. induction l as [|a l IH]; [reflexivity|]. cbn [app]. destruct (l ++ [x]) eqn:E; [destruct l; discriminate|]. exact IH. Qed.

(* decode (encode text) = text unless the septets are 8k ending in CR *)
Theorem g7_roundtrip rs ss : g7_septets rs = Ok ss -> g7_ambiguous ss = false ->
  g7_decode (g7_pack ss) = Ok rs.
Proof.
  intros Hs Ha. pose proof (g7_septets_bound rs ss Hs) as Hb.
  unfold g7_decode, g7_pack, g7_fill. cbv zeta.
  destruct (Nat.eqb (List.length ss mod 8) 7) eqn:E.
  - apply Nat.eqb_eq in E.
    assert (Hb' : Forall (fun s => s < 128) (ss ++ [13])).
    { apply Forall_app. split; [exact Hb|]. constructor; [lia|constructor]. }
    rewrite unpack_pack; [|exact Hb'|rewrite app_length; cbn [List.length]; rewrite (padlen_fill _ E); lia].
    rewrite (g7_runes_app rs ss [13] Hs).
    change (g7_runes [13]) with (Ok (A:=list N) [13]). cbn [oapp].
    unfold g7_strip. rewrite app_length. cbn [List.length]. rewrite last_app_single.
    replace (Nat.eqb (List.length ss + 1) 0) with false by (symmetry; apply Nat.eqb_neq; lia).
    replace (Nat.eqb ((List.length ss + 1) mod 8) 0) with true by (symmetry; apply Nat.eqb_eq; lia).
    cbn [negb andb N.eqb Pos.eqb]. rewrite removelast_last. reflexivity.
  - apply Nat.eqb_neq in E.
    rewrite unpack_pack; [|exact Hb|apply padlen_ok; exact E].
    pose proof (g7_runes_app rs ss [] Hs) as Hr. rewrite app_nil_r in Hr. rewrite Hr.
    cbn [g7_runes oapp]. rewrite app_nil_r. unfold g7_strip. unfold g7_ambiguous in Ha. rewrite Ha. reflexivity.
Qed.

Lemma g7_septets_total : forall rs, (forall r, In r rs -> mem r (ranges_of gsm7_enc_runs) = true) ->
  exists ss, g7_septets rs = Ok ss.
Proof.
  induction rs as [|r rest IH]; intros H; [exists []; reflexivity|].
  destruct (lookup_mem r _ (H r (or_introl eq_refl))) as [[n x] Hl].
  destruct (IH (fun r' Hr' => H r' (or_intror Hr'))) as [ss Hss].
  cbn [g7_septets]. unfold g7_rune. rewrite Hl, Hss. destruct (n =? 1); eexists; reflexivity.
Qed.

(* ---------------- alphabet tables inside accepted sets, up to the known-bad set
   One new code point that Validate admits and the encoder rejects, outside the
   committed known/ files, makes the corresponding check false. *)
Definition accept_ranges (l : label) : ranges :=
  match l with
  | LGsm7 => ranges_of gsm7_enc_runs
  | LCs c => ranges_of (enc_runs c)
  end.
Definition incl_check (l : label) : bool := incl2 (validate_ranges l) (accept_ranges l) (known_bad_of l).

Lemma incl_gsm7 : incl_check LGsm7 = true. Proof. vm_compute. reflexivity. Qed.
Lemma incl_ascii : incl_check (LCs CAscii) = true. Proof. vm_compute. reflexivity. Qed.
Lemma incl_latin1 : incl_check (LCs CLatin1) = true. Proof. vm_compute. reflexivity. Qed.
Lemma incl_cyrillic : incl_check (LCs CCyrillic) = true. Proof. vm_compute. reflexivity. Qed.
Lemma incl_hebrew : incl_check (LCs CHebrew) = true. Proof. vm_compute. reflexivity. Qed.
Lemma incl_sjis : incl_check (LCs CSjis) = true. Proof. vm_cast_no_check (eq_refl true). Qed.
Lemma incl_euckr : incl_check (LCs CEuckr) = true. Proof. vm_cast_no_check (eq_refl true). Qed.

(* ... and the committed known-bad sets are TIGHT: every rune of known/C09-D17-<c>.ranges is admitted by Validate(c)
   and rejected by the encoder of c.  A stale file (after an upstream repair) or an enlarged one would otherwise
   weaken every theorem that excludes the known-bad set, unnoticed. *)
Definition tight_check (l : label) : bool :=
  incl2 (known_bad_of l) (validate_ranges l) [] && disjoint_sorted (known_bad_of l) (accept_ranges l).

Lemma tight_gsm7 : tight_check LGsm7 = true. Proof. vm_compute. reflexivity. Qed.
Lemma tight_ascii : tight_check (LCs CAscii) = true. Proof. vm_compute. reflexivity. Qed.
Lemma tight_latin1 : tight_check (LCs CLatin1) = true. Proof. vm_compute. reflexivity. Qed.
Lemma tight_cyrillic : tight_check (LCs CCyrillic) = true. Proof. vm_compute. reflexivity. Qed.
Lemma tight_hebrew : tight_check (LCs CHebrew) = true. Proof. vm_compute. reflexivity. Qed.
Lemma tight_sjis : tight_check (LCs CSjis) = true. Proof. vm_cast_no_check (eq_refl true). Qed.
Lemma tight_euckr : tight_check (LCs CEuckr) = true. Proof. vm_cast_no_check (eq_refl true). Qed.

Lemma tight_sound l r : tight_check l = true -> mem r (known_bad_of l) = true ->
  mem r (validate_ranges l) = true /\ mem r (accept_ranges l) = false.
Proof.
  unfold tight_check. rewrite andb_true_iff. intros [Hi Hd] Hr. split.
  - pose proof (incl2_sound _ _ _ Hi r Hr) as H. cbn [mem existsb] in H. rewrite orb_false_r in H. exact H.
  - exact (disjoint_sorted_sound _ _ Hd r Hr).
Qed.

Theorem known_bad_tight l r : mem r (known_bad_of l) = true ->
  mem r (validate_ranges l) = true /\ mem r (accept_ranges l) = false.
Proof.
  intros Hr. destruct l as [|c].
  - exact (tight_sound _ r tight_gsm7 Hr).
  - destruct c.
    + exact (tight_sound _ r tight_ascii Hr).
    + exact (tight_sound _ r tight_latin1 Hr).
    + exact (tight_sound _ r tight_sjis Hr).
    + exact (tight_sound _ r tight_cyrillic Hr).
    + exact (tight_sound _ r tight_hebrew Hr).
    + discriminate Hr.
    + discriminate Hr.
    + discriminate Hr.
    + exact (tight_sound _ r tight_euckr Hr).
Qed.

(* hence an excluded rune really is a rune the detected coding cannot carry: its one-character text is rejected *)
Lemma lookup_none_enc_rune t r : mem r (ranges_of t) = false -> enc_rune_t t r = None.
Proof. intros H. unfold enc_rune_t. apply lookup_None_mem in H. rewrite H. reflexivity. Qed.

Lemma accepted l rs : l <> LCs CUcs2 -> incl_check l = true -> validates l rs = true ->
  (forall r, In r rs -> mem r (known_bad_of l) = false) ->
  forall r, In r rs -> mem r (accept_ranges l) = true.
Proof.
  intros Hl Hi Hv Hk r Hin.
  exact (accepts_from_incl _ _ _ r Hi (validates_forall l rs Hl Hv r Hin) (Hk r Hin)).
Qed.

(* the statement of C09 for one label: the encoder accepts the text and the
   decoder returns it *)
Definition represents (l : label) (rs : list N) : Prop :=
  exists bs, encode_l l rs = Ok bs /\ decode_l l bs = Ok rs.

(* GSM 7-bit: exclusion of the 8k-septets-ending-in-CR texts *)
Definition g7_clear (rs : list N) : Prop := forall ss, g7_septets rs = Ok ss -> g7_ambiguous ss = false.

Lemma represents_gsm7 rs : (forall r, In r rs -> mem r (accept_ranges LGsm7) = true) -> g7_clear rs ->
  represents LGsm7 rs.
Proof.
  intros Ha Hc. destruct (g7_septets_total rs Ha) as [ss Hss].
  exists (g7_pack ss). cbn [encode_l decode_l]. unfold g7_encode. rewrite Hss. split; [reflexivity|].
  exact (g7_roundtrip rs ss Hss (Hc ss Hss)).
Qed.

Lemma represents_sb c tbl : enc_runs c <> [] -> encode c = encode_t (enc_runs c) -> decode c = decode_sb tbl ->
  checkD tbl (enc_runs c) = true ->
  forall rs, (forall r, In r rs -> mem r (accept_ranges (LCs c)) = true) -> represents (LCs c) rs.
Proof.
  intros _ He Hd HD rs Ha. destruct (encode_t_total (enc_runs c) rs Ha) as [bs Hbs].
  exists bs. cbn [encode_l decode_l]. rewrite He, Hd. split; [exact Hbs|].
  exact (sb_roundtrip tbl (enc_runs c) HD rs bs Hbs).
Qed.

Lemma represents_ascii rs : (forall r, In r rs -> mem r (accept_ranges (LCs CAscii)) = true) -> represents (LCs CAscii) rs.
Proof. apply (represents_sb CAscii dec_sb_ascii); [discriminate|reflexivity|reflexivity|exact ascii_D]. Qed.
Lemma represents_latin1 rs : (forall r, In r rs -> mem r (accept_ranges (LCs CLatin1)) = true) -> represents (LCs CLatin1) rs.
Proof. apply (represents_sb CLatin1 dec_sb_latin1); [discriminate|reflexivity|reflexivity|exact latin1_D]. Qed.
Lemma represents_cyrillic rs : (forall r, In r rs -> mem r (accept_ranges (LCs CCyrillic)) = true) -> represents (LCs CCyrillic) rs.
Proof. apply (represents_sb CCyrillic dec_sb_cyrillic); [discriminate|reflexivity|reflexivity|exact cyrillic_D]. Qed.
Lemma represents_hebrew rs : (forall r, In r rs -> mem r (accept_ranges (LCs CHebrew)) = true) -> represents (LCs CHebrew) rs.
Proof. apply (represents_sb CHebrew dec_sb_hebrew); [discriminate|reflexivity|reflexivity|exact hebrew_D]. Qed.

Lemma represents_sjis rs : (forall r, In r rs -> mem r (accept_ranges (LCs CSjis)) = true) -> represents (LCs CSjis) rs.
Proof.
  intros Ha. destruct (encode_t_total enc_runs_sjis rs Ha) as [bs Hbs]. exists bs. split; [exact Hbs|].
  exact (mb_roundtrip lead_lens_sjis dec_runs_sjis enc_runs_sjis sjis_M rs bs Hbs).
Qed.
Lemma represents_euckr rs : (forall r, In r rs -> mem r (accept_ranges (LCs CEuckr)) = true) -> represents (LCs CEuckr) rs.
Proof.
  intros Ha. destruct (encode_t_total enc_runs_euckr rs Ha) as [bs Hbs]. exists bs. split; [exact Hbs|].
  exact (mb_roundtrip lead_lens_euckr dec_runs_euckr enc_runs_euckr euckr_M rs bs Hbs).
Qed.
Lemma represents_ucs2 rs : Forall scalar rs -> represents (LCs CUcs2) rs.
Proof.
  intros Hs. exists (utf16be_text rs). split; [exact (ucs2_text rs Hs)|].
  exact (ucs2_roundtrip rs _ Hs (ucs2_text rs Hs)).
Qed.

(* any label of the priority list (and UCS-2) that validates the text represents it,
   outside the known-bad set / the CR ambiguity *)
Definition detectable (l : label) : Prop := In l priority \/ l = LCs CUcs2.

Theorem label_represents l rs : detectable l -> Forall scalar rs -> validates l rs = true ->
  (forall r, In r rs -> mem r (known_bad_of l) = false) ->
  (l = LGsm7 -> g7_clear rs) ->
  represents l rs.
Proof.
  intros Hd Hs Hv Hk Hc.
  destruct Hd as [Hin| ->]; [|exact (represents_ucs2 rs Hs)].
  cbn [priority In] in Hin.
  destruct Hin as [<-|[<-|[<-|[<-|[<-|[<-|[<-|[]]]]]]]].
  - apply represents_gsm7; [|exact (Hc eq_refl)]. apply (accepted LGsm7 rs); [discriminate|exact incl_gsm7|exact Hv|exact Hk].
  - apply represents_ascii. apply (accepted (LCs CAscii) rs); [discriminate|exact incl_ascii|exact Hv|exact Hk].
  - apply represents_latin1. apply (accepted (LCs CLatin1) rs); [discriminate|exact incl_latin1|exact Hv|exact Hk].
  - apply represents_cyrillic. apply (accepted (LCs CCyrillic) rs); [discriminate|exact incl_cyrillic|exact Hv|exact Hk].
  - apply represents_hebrew. apply (accepted (LCs CHebrew) rs); [discriminate|exact incl_hebrew|exact Hv|exact Hk].
  - apply represents_sjis. apply (accepted (LCs CSjis) rs); [discriminate|exact incl_sjis|exact Hv|exact Hk].
  - apply represents_euckr. apply (accepted (LCs CEuckr) rs); [discriminate|exact incl_euckr|exact Hv|exact Hk].
Qed.

(* ------------------------------------------------ BestCoding, BestSafeCoding *)
Lemma best_spec rs : detectable (best rs) /\ validates (best rs) rs = true.
Proof.
  unfold best. destruct (find (fun l => validates l rs) priority) as [l|] eqn:E.
  - apply find_some in E. destruct E as [Hin Hv]. split; [left; exact Hin|exact Hv].
  - split; [right; reflexivity|reflexivity].
Qed.

Lemma best_safe_spec rs : detectable (best_safe rs) /\ validates (best_safe rs) rs = true.
Proof.
  unfold best_safe. destruct (validates LGsm7 rs) eqn:E.
  - split; [left; left; reflexivity|exact E].
  - split; [right; reflexivity|reflexivity].
Qed.

Theorem best_text rs : Forall scalar rs ->
  (forall r, In r rs -> mem r (known_bad_of (best rs)) = false) ->
  (best rs = LGsm7 -> g7_clear rs) ->
  represents (best rs) rs.
Proof.
  intros Hs Hk Hc. destruct (best_spec rs) as [Hd Hv]. exact (label_represents _ rs Hd Hs Hv Hk Hc).
Qed.

Theorem best_safe_text rs : Forall scalar rs ->
  (best_safe rs = LGsm7 -> g7_clear rs) ->
  represents (best_safe rs) rs.
Proof.
  intros Hs Hc. destruct (best_safe_spec rs) as [Hd Hv].
  apply (label_represents _ rs Hd Hs Hv); [|exact Hc].
  intros r _. unfold best_safe. destruct (validates LGsm7 rs); reflexivity.
Qed.

(* one-character texts are never in the ambiguous case *)
Lemma g7_clear_single r : g7_clear [r].
Proof.
  intros ss H. cbn [g7_septets] in H. destruct (g7_rune r) as [s|] eqn:Hs; [|discriminate].
  injection H as <-. rewrite app_nil_r.
  destruct (g7_rune_facts r s Hs) as [(x & -> & _)|(c & -> & _)]; reflexivity.
Qed.

Theorem best_rune r : scalar r -> mem r (known_bad_of (best [r])) = false -> represents (best [r]) [r].
Proof.
  intros Hs Hk. apply best_text.
  - constructor; [exact Hs|constructor].
  - intros r' [<-|[]]. exact Hk.
  - intros _. apply g7_clear_single.
Qed.

Theorem best_safe_rune r : scalar r -> represents (best_safe [r]) [r].
Proof.
  intros Hs. apply best_safe_text; [constructor; [exact Hs|constructor]|]. intros _. apply g7_clear_single.
Qed.

(* ----------------------------------------------------- Compose / Parse *)
Lemma label_of_dc_of_label l : detectable l -> label_of_dc (dc_of_label l) = Some l.
Proof.
  intros [Hin| ->]; [|reflexivity]. cbn [priority In] in Hin.
  destruct Hin as [<-|[<-|[<-|[<-|[<-|[<-|[<-|[]]]]]]]]; reflexivity.
Qed.

Theorem compose_parse rs : Forall scalar rs ->
  (forall r, In r rs -> mem r (known_bad_of (best rs)) = false) ->
  (best rs = LGsm7 -> g7_clear rs) ->
  compose rs = Err ESize \/
  exists bs, compose rs = Ok (dc_of_label (best rs), bs) /\ parse (dc_of_label (best rs), bs) = Ok rs.
Proof.
  intros Hs Hk Hc. destruct (best_text rs Hs Hk Hc) as (bs & He & Hd).
  unfold compose. cbv zeta. destruct (140 <? splitter_len (best rs) rs); [left; reflexivity|].
  right. exists bs. rewrite He. split; [reflexivity|].
  unfold parse. cbn [fst snd]. rewrite (label_of_dc_of_label _ (proj1 (best_spec rs))). exact Hd.
Qed.

(* ------------------------------------- the unrestricted statement is false *)
Lemma best_rune_refuted : exists r, scalar r /\ encode_l (best [r]) [r] = Err EText.
Proof. exists 256. split; [left; lia|]. vm_compute. reflexivity. Qed.

(* detection rune by rune does NOT decide encodability of texts: each of the two
   characters alone is represented, the two together are labelled Shift-JIS,
   whose encoder rejects the euro sign *)
Lemma best_runewise_refuted :
  exists a b, scalar a /\ scalar b /\
    (exists bs, encode_l (best [a]) [a] = Ok bs) /\ (exists bs, encode_l (best [b]) [b] = Ok bs) /\
    encode_l (best [a; b]) [a; b] = Err EText.
Proof.
  exists 8364, 26085. split; [left; lia|]. split; [left; lia|].
  split; [eexists; vm_compute; reflexivity|]. split; [eexists; vm_compute; reflexivity|]. vm_compute. reflexivity.
Qed.

(* GSM 03.38 6.1.2.3.1: eight septets ending in CR come back without the CR *)
Lemma best_gsm7_cr_refuted :
  exists rs bs, best rs = LGsm7 /\ encode_l (best rs) rs = Ok bs /\ decode_l (best rs) bs = Ok (removelast rs) /\ removelast rs <> rs.
Proof.
  exists [97; 98; 99; 100; 101; 102; 103; 13]. eexists. split; [vm_compute; reflexivity|].
  split; [vm_compute; reflexivity|]. split; [vm_compute; reflexivity|]. discriminate.
Qed.

(* ---- the per-rune label tables dumped from BestCoding / BestSafeCoding are what
   the model computes from the Validate tables, for every scalar value *)
Definition label_eqb (a b : label) : bool := dc_of_label a =? dc_of_label b.
Lemma label_eqb_eq a b : label_eqb a b = true -> a = b.
Proof.
  unfold label_eqb. destruct a as [|[]], b as [|[]]; cbn; intros H; try reflexivity; discriminate.
Qed.
Lemma label_eqb_refl a : label_eqb a a = true.
Proof. unfold label_eqb. apply N.eqb_refl. Qed.

Fixpoint before (l : label) (ps : list label) : list label :=
  match ps with [] => [] | p :: t => if label_eqb p l then [] else p :: before l t end.

Definition label_run_ok (ps : list label) (fallback : label) (q : N * N * N) : bool :=
  let '(lo, hi, dc) := q in
  (lo <=? hi) &&
  match label_of_dc dc with
  | None => false
  | Some l =>
      (label_eqb l fallback && negb (existsb (label_eqb l) ps)
       || existsb (label_eqb l) ps && covers lo hi (validate_ranges l)) &&
      forallb (fun l' => disjoint_ranges [(lo, hi)] (validate_ranges l')) (before l ps)
  end.

Lemma best_runs_ok : forallb (label_run_ok priority (LCs CUcs2)) best_runs = true.
Proof. vm_compute. reflexivity. Qed.
Lemma best_safe_runs_ok : forallb (label_run_ok [LGsm7] (LCs CUcs2)) best_safe_runs = true.
Proof. vm_compute. reflexivity. Qed.
Lemma label_runs_cover :
  covers 0 55295 (map (fun q => (fst (fst q), snd (fst q))) best_runs) &&
  covers 57344 1114111 (map (fun q => (fst (fst q), snd (fst q))) best_runs) &&
  covers 0 55295 (map (fun q => (fst (fst q), snd (fst q))) best_safe_runs) &&
  covers 57344 1114111 (map (fun q => (fst (fst q), snd (fst q))) best_safe_runs) = true.
Proof. vm_compute. reflexivity. Qed.

Lemma find_first (f : label -> bool) ps l :
  In l ps -> f l = true -> (forall l', In l' (before l ps) -> f l' = false) -> find f ps = Some l.
Proof.
  induction ps as [|p t IH]; intros Hin Hf Hb; [destruct Hin|].
  cbn [find]. cbn [before] in Hb. destruct (label_eqb p l) eqn:E.
  - apply label_eqb_eq in E. subst p. rewrite Hf. reflexivity.
  - rewrite (Hb p (or_introl eq_refl)).
    destruct Hin as [->|Hin]; [rewrite label_eqb_refl in E; discriminate|].
    apply IH; [exact Hin|exact Hf|]. intros l' Hl'. apply Hb. right. exact Hl'.
Qed.

Lemma find_none_before (f : label -> bool) ps l :
  existsb (label_eqb l) ps = false -> (forall l', In l' (before l ps) -> f l' = false) -> find f ps = None.
Proof.
  induction ps as [|p t IH]; intros He Hb; [reflexivity|].
  cbn [existsb] in He. apply orb_false_iff in He. destruct He as [He1 He2].
  cbn [find]. cbn [before] in Hb.
  assert (E : label_eqb p l = false).
  { unfold label_eqb in *. rewrite N.eqb_sym. exact He1. }
  rewrite E in Hb. rewrite (Hb p (or_introl eq_refl)). apply IH; [exact He2|].
  intros l' Hl'. apply Hb. right. exact Hl'.
Qed.

Lemma validates_single l r : l <> LCs CUcs2 -> validates l [r] = mem r (validate_ranges l).
Proof.
  intros Hl. unfold validates.
  destruct l as [|c]; [cbn [forallb]; apply andb_true_r|].
  destruct c; try (cbn [forallb]; apply andb_true_r). exfalso. apply Hl. reflexivity.
Qed.

Lemma existsb_label_in l ps : existsb (label_eqb l) ps = true -> In l ps.
Proof.
  intros H. apply existsb_exists in H. destruct H as [p [Hin E]]. apply label_eqb_eq in E. subst. exact Hin.
Qed.

Lemma before_in l ps l' : In l' (before l ps) -> In l' ps.
Proof.
  induction ps as [|p t IH]; cbn [before]; [tauto|]. destruct (label_eqb p l); [intros []|].
  intros [->|H]; [left; reflexivity|right; exact (IH H)].
Qed.

(* generic: a detector that returns the first label of ps validating [r], else the fallback *)
Lemma label_table_sound ps tbl r dc :
  ~ In (LCs CUcs2) ps ->
  forallb (label_run_ok ps (LCs CUcs2)) tbl = true -> lookup3 r tbl = Some dc ->
  dc_of_label (match find (fun l => validates l [r]) ps with Some l => l | None => LCs CUcs2 end) = dc.
Proof.
  intros Hps Hok Hl. destruct (lookup3_Some_in r tbl dc Hl) as (lo & hi & Hin & Hr).
  rewrite forallb_forall in Hok. specialize (Hok _ Hin). unfold label_run_ok in Hok.
  apply andb_true_iff in Hok. destruct Hok as [_ Hok].
  destruct (label_of_dc dc) as [l|] eqn:El; [|discriminate].
  assert (Hdc : dc_of_label l = dc).
  { unfold label_of_dc in El. destruct (dc =? 0) eqn:E0.
    - injection El as <-. apply N.eqb_eq in E0. subst. reflexivity.
    - destruct (coding_of_dc dc) as [c|] eqn:Ec; [|discriminate]. injection El as <-.
      unfold coding_of_dc in Ec. apply find_some in Ec. destruct Ec as [_ Ec]. apply N.eqb_eq in Ec. exact Ec. }
  apply andb_true_iff in Hok. destruct Hok as [H1 H2].
  assert (Hbefore : forall l', In l' (before l ps) -> validates l' [r] = false).
  { intros l' Hl'. rewrite forallb_forall in H2. specialize (H2 l' Hl').
    rewrite validates_single by (intros ->; apply Hps; exact (before_in _ _ _ Hl')).
    destruct (mem r (validate_ranges l')) eqn:Em; [|reflexivity]. exfalso.
    apply (disjoint_sound _ _ H2 r); [|exact Em].
    apply mem_spec. exists (lo, hi). split; [left; reflexivity|exact Hr]. }
  apply orb_true_iff in H1. destruct H1 as [H1|H1]; apply andb_true_iff in H1; destruct H1 as [Ha Hb].
  - apply label_eqb_eq in Ha. subst l. apply negb_true_iff in Hb.
    rewrite (find_none_before _ ps (LCs CUcs2) Hb Hbefore). exact Hdc.
  - pose proof (existsb_label_in l ps Ha) as Hlin.
    rewrite (find_first _ ps l Hlin); [exact Hdc| |exact Hbefore].
    rewrite validates_single by (intros ->; apply Hps; exact Hlin).
    exact (covers_sound _ _ _ Hb r Hr).
Qed.

Theorem best_table r dc : lookup3 r best_runs = Some dc -> dc_of_label (best [r]) = dc.
Proof.
  apply (label_table_sound priority best_runs r dc); [|exact best_runs_ok].
  cbn [priority In]. intros [H|[H|[H|[H|[H|[H|[H|[]]]]]]]]; discriminate.
Qed.

Theorem best_safe_table r dc : lookup3 r best_safe_runs = Some dc -> dc_of_label (best_safe [r]) = dc.
Proof.
  intros H. pose proof (label_table_sound [LGsm7] best_safe_runs r dc) as L.
  cbn [find] in L. unfold best_safe. destruct (validates LGsm7 [r]); apply L; try exact best_safe_runs_ok; try exact H;
    cbn [In]; intros [E|[]]; discriminate.
Qed.

Theorem label_tables_total r : scalar r ->
  (exists dc, lookup3 r best_runs = Some dc) /\ (exists dc, lookup3 r best_safe_runs = Some dc).
Proof.
  intros Hs. pose proof label_runs_cover as H. rewrite !andb_true_iff in H. destruct H as [[[H1 H2] H3] H4].
  assert (G : forall tbl, mem r (map (fun q : N * N * N => (fst (fst q), snd (fst q))) tbl) = true -> exists dc, lookup3 r tbl = Some dc).
  { induction tbl as [|[[lo hi] dc] t IH]; [discriminate|]. cbn [map mem existsb lookup3 fst snd].
    unfold in_rng at 1. cbn [fst snd]. destruct ((lo <=? r) && (r <=? hi)); [intros _; exists dc; reflexivity|exact IH]. }
  split; apply G; destruct Hs as [Hs|Hs];
    first [apply (covers_sound _ _ _ H1); lia | apply (covers_sound _ _ _ H2); lia
          | apply (covers_sound _ _ _ H3); lia | apply (covers_sound _ _ _ H4); lia].
Qed.

(* ---- histories: whatever the ShortMessage held before, after a successful
   Compose the stored label and octets parse back to the text *)
Theorem compose_step_parse m rs : Forall scalar rs ->
  (forall r, In r rs -> mem r (known_bad_of (best rs)) = false) ->
  (best rs = LGsm7 -> g7_clear rs) ->
  (snd (compose_step m rs) = 1 /\ fst (compose_step m rs) = m) \/
  (snd (compose_step m rs) = 0 /\ fst (fst (compose_step m rs)) = dc_of_label (best rs) /\
   parse (fst (compose_step m rs)) = Ok rs).
Proof.
  intros Hs Hk Hc. unfold compose_step.
  destruct (compose_parse rs Hs Hk Hc) as [->|(bs & -> & Hp)].
  - left. split; reflexivity.
  - right. cbn [fst snd]. split; [reflexivity|]. split; [reflexivity|exact Hp].
Qed.

(* the model of Compose is one of the implementations the observation check accepts (so comparing observations with
   compose_obs_ok demands nothing the model itself does not do) *)
Lemma beq_bytes_refl : forall b : bytes, beq_bytes b b = true.
Proof. induction b as [|x b IH]; cbn [beq_bytes]; [reflexivity|]. rewrite N.eqb_refl, IH. reflexivity. Qed.
Lemma g7_septets_err : forall rs e, g7_septets rs = Err e -> e = EText.
Proof.
  induction rs as [|r t IH]; intros e H; cbn [g7_septets] in H; [discriminate|].
  destruct (g7_rune r); [|congruence]. destruct (g7_septets t) as [ss|e'|]; try discriminate.
  injection H as <-. exact (IH e' eq_refl).
Qed.
Lemma encode_l_err l rs e : encode_l l rs = Err e -> e = EText.
Proof.
  destruct l as [|c]; cbn [encode_l]; [|apply encode_err].
  unfold g7_encode. destruct (g7_septets rs) as [ss|e'|] eqn:E; try discriminate. intros [= <-]. exact (g7_septets_err rs e' E).
Qed.
Theorem compose_obs_model rs : compose_obs_ok rs (compose rs) = true.
Proof.
  unfold compose_obs_ok, compose. cbv zeta. destruct (140 <? splitter_len (best rs) rs) eqn:E.
  - destruct (encode_l (best rs) rs); reflexivity.
  - destruct (encode_l (best rs) rs) as [bs|e|] eqn:X.
    + rewrite N.eqb_refl, beq_bytes_refl. reflexivity.
    + rewrite (encode_l_err _ _ _ X). reflexivity.
    + reflexivity.
Qed.

(* Compose on a value with a user-data header: the header component is never read nor written, and label / octets are
   those of compose_step on the projection - so C09_compose_reused holds whatever header the value carries *)
Theorem compose_step_u_spec {H : Type} (dc : N) (u : H) (o : bytes) rs :
  let r := compose_step_u (dc, u, o) rs in
  snd (fst (fst r)) = u /\
  (fst (fst (fst r)), snd (fst r)) = fst (compose_step (dc, o) rs) /\ snd r = snd (compose_step (dc, o) rs).
Proof.
  unfold compose_step_u. destruct (compose_step (dc, o) rs) as [[dc' o'] st]. cbn. repeat split.
Qed.
