(* C16, "under all fragmentations of the inbound stream": what one ReadPDU call
   yields does not depend on how the transport cuts the octets into Read results.
   (About Model/Pdu.v's stream reader; the pdu engine's C03 states the same for
   whole streams — this file only needs the single-frame fact to connect the
   harness's [frame_item data pieces] to the items of the connection model.) *)
From Coq Require Import List Lia Arith.
From V Require Import Model.Base Model.Pdu Model.PduRun Model.ConnLTS Model.ConnRun.
Import ListNotations.

Definition rf_view (r : rf_result) : option (bool * bytes * bytes) :=
  match r with
  | RfOk got rest => Some (true, got, st_data rest)
  | RfEOF got rest => Some (false, got, st_data rest)
  | RfFuel => None
  end.

Definition rf_spec (n : nat) (s : bytes) : bool * bytes * bytes :=
  if Nat.leb n (List.length s) then (true, firstn n s, skipn n s) else (false, s, []).

Lemma firstn_split {A} k : forall n (s : list A), (k <= n)%nat ->
  firstn n s = firstn k s ++ firstn (n - k) (skipn k s).
Proof.
  induction k as [|k IH]; intros n s H.
  - cbn. now rewrite Nat.sub_0_r.
  - destruct n as [|n]; [lia|]. destruct s as [|x s]; cbn.
    + now rewrite firstn_nil.
    + f_equal. apply IH. lia.
Qed.

Lemma skipn_split {A} k : forall n (s : list A), (k <= n)%nat -> skipn (n - k) (skipn k s) = skipn n s.
Proof.
  induction k as [|k IH]; intros n s H.
  - cbn. now rewrite Nat.sub_0_r.
  - destruct n as [|n]; [lia|]. destruct s as [|x s]; cbn.
    + now rewrite skipn_nil.
    + apply IH. lia.
Qed.

Lemma readfull_indep fuel : forall n s sc, (n <= fuel)%nat ->
  rf_view (readfull fuel n s sc) = Some (rf_spec n s).
Proof.
  induction fuel as [|f IH]; intros n s sc Hn.
  - assert (n = 0)%nat by lia. subst. cbn. unfold rf_spec. cbn. reflexivity.
  - destruct n as [|n']; [cbn; unfold rf_spec; cbn; reflexivity|].
    cbn [readfull]. destruct s as [|x s'].
    + cbn. reflexivity.
    + set (s := x :: s') in *.
      set (c := match sc with [] => 1%nat | c :: _ => Nat.max 1 c end).
      set (k := Nat.min (S n') (Nat.min c (List.length s))).
      assert (Hc : (1 <= c)%nat) by (unfold c; destruct sc; lia).
      assert (Hl : (1 <= List.length s)%nat) by (unfold s; cbn; lia).
      assert (Hk1 : (1 <= k)%nat) by (unfold k; lia).
      assert (Hk2 : (k <= S n')%nat) by (unfold k; lia).
      assert (Hk3 : (k <= List.length s)%nat) by (unfold k; lia).
      remember (S n' - k)%nat as m eqn:Em.
      assert (Hm : (m + k = S n')%nat) by lia.
      specialize (IH m (skipn k s) (tl sc)).
      assert (Hf : (m <= f)%nat) by lia. specialize (IH Hf).
      assert (F1 : firstn (S n') s = firstn k s ++ firstn m (skipn k s)) by (rewrite Em; now apply firstn_split).
      assert (F2 : skipn m (skipn k s) = skipn (S n') s) by (rewrite Em; now apply skipn_split).
      clear Em. unfold rf_spec in *. rewrite skipn_length in IH.
      destruct (readfull f m (skipn k s) (tl sc)) as [got rest|got rest|]; cbn [rf_view st_data] in IH |- *; try discriminate;
        destruct (Nat.leb_spec m (List.length s - k)); destruct (Nat.leb_spec (S n') (List.length s)); try lia;
        try discriminate IH; assert (E := f_equal (fun o => match o with Some v => v | None => (true, [], []) end) IH);
        cbv beta iota in E; try discriminate E; injection E as -> ->.
      * now rewrite F1, F2.
      * f_equal. f_equal. f_equal. apply firstn_skipn.
Qed.

Lemma read_full_indep n d sc : rf_view (read_full n {| st_data := d; st_sched := sc |}) = Some (rf_spec n d).
Proof. unfold read_full. cbn. apply readfull_indep. lia. Qed.

(* one ReadPDU call: result and octets consumed do not depend on the cuts *)
Lemma read_pdu_indep L d sc1 sc2 :
  fst (read_pdu L {| st_data := d; st_sched := sc1 |}) = fst (read_pdu L {| st_data := d; st_sched := sc2 |}).
Proof.
  unfold read_pdu.
  pose proof (read_full_indep 16 d sc1) as H1. pose proof (read_full_indep 16 d sc2) as H2.
  destruct (read_full 16 {| st_data := d; st_sched := sc1 |}) as [g1 r1|g1 r1|];
  destruct (read_full 16 {| st_data := d; st_sched := sc2 |}) as [g2 r2|g2 r2|]; cbn in H1, H2; try discriminate;
    rewrite <- H2 in H1; try discriminate; injection H1 as -> E.
  - destruct (dec_header g2) as [[h rest]| |]; try reflexivity.
    destruct r1 as [d1 s1], r2 as [d2 s2]. cbn in E. subst d2.
    pose proof (read_full_indep (N.to_nat (h_len h - 16)) d1 s1) as B1.
    pose proof (read_full_indep (N.to_nat (h_len h - 16)) d1 s2) as B2.
    destruct (read_full (N.to_nat (h_len h - 16)) {| st_data := d1; st_sched := s1 |}) as [b1 q1|b1 q1|];
    destruct (read_full (N.to_nat (h_len h - 16)) {| st_data := d1; st_sched := s2 |}) as [b2 q2|b2 q2|]; cbn in B1, B2; try discriminate;
      rewrite <- B2 in B1; try discriminate; injection B1 as -> _; cbn [fst];
      repeat match goal with |- context [match ?x with _ => _ end] => destruct x end; reflexivity.
  - reflexivity.
Qed.

(* the item Watch sees for a frame is the same under every fragmentation *)
Lemma frame_item_indep d sc1 sc2 : frame_item d sc1 = frame_item d sc2.
Proof.
  unfold frame_item, run_read.
  pose proof (read_pdu_indep layouts d sc1 sc2) as H.
  destruct (read_pdu layouts {| st_data := d; st_sched := sc1 |}) as [[r1 c1] t1].
  destruct (read_pdu layouts {| st_data := d; st_sched := sc2 |}) as [[r2 c2] t2].
  cbn in H. injection H as -> ->. reflexivity.
Qed.
