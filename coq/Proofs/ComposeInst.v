(* Instances of the composition theorems: GSM 7-bit (payload octets from
   Model/Gsm7.v) and the codings known by their per-rune length tables
   (Gen/Widths.v, regenerated from the running code).  [width_sound]: the
   splitter never charges an accepted character less than the encoder emits -
   the obligation that was false before the D12 fixes and still is, on
   purpose, for the stateful ISO-2022-JP. *)
From V Require Import Model.Base Model.Gsm7 Model.Splitter Model.Compose Gen.Widths
  Proofs.Gsm7Bits Proofs.Gsm7Proofs Proofs.SplitterProofs Proofs.ComposeProofs.
From Coq Require Import ZifyN ZifyNat ZifyBool Arith.
Ltac Zify.zify_post_hook ::= Z.div_mod_to_equations.
Open Scope nat_scope.
Local Notation length := List.length.
Local Notation concat := List.concat.

(* ================================================================ GSM 7-bit *)
Lemma w_7bit_pos r : 0 < w_7bit r.
Proof. unfold w_7bit. destruct (forward_escape r); lia. Qed.
Lemma w_7bit_le r : w_7bit r <= 14.
Proof. unfold w_7bit. destruct (forward_escape r); lia. Qed.

(* for an accepted rune the splitter charges seven bits per septet the encoder emits *)
Lemma w_7bit_accepted r : rune_septets r <> None -> w_7bit r = 7 * rune_width r.
Proof.
  intros H. set (chk := fun r => match rune_septets r with None => true | Some _ => Nat.eqb (w_7bit r) (7 * rune_width r) end).
  assert (K : chk r = true).
  { apply (all_runes chk); [vm_compute; reflexivity|]. intros r0 H0. unfold chk. now rewrite H0. }
  unfold chk in K. destruct (rune_septets r); [now apply Nat.eqb_eq in K|congruence].
Qed.

Lemma total_w_7bit : forall t S, to_septets t = Ok S -> total w_7bit t = 7 * septet_count t.
Proof.
  induction t as [|r t IH]; intros S H; [reflexivity|].
  apply to_septets_cons in H. destruct H as (s & S' & Hs & Ht & ->).
  cbn [total septet_count fold_right]. fold (total w_7bit t). fold (septet_count t).
  rewrite (IH _ Ht), w_7bit_accepted by congruence. lia.
Qed.

Lemma to_septets_err t e : to_septets t = Err e -> e = EText.
Proof.
  induction t as [|r t IH]; cbn [to_septets]; [discriminate|].
  destruct (rune_septets r); [|congruence]. destruct (to_septets t); cbn [obind]; try discriminate. intros [= <-]. now apply IH.
Qed.

Lemma encode_outcome t : (exists S out, to_septets t = Ok S /\ encode t = Ok out) \/ encode t = Err EText.
Proof.
  destruct (to_septets t) as [S|e|] eqn:HS.
  - left. destruct t as [|r t]; [exists [], []; split; [now injection HS as <-|reflexivity]|].
    destruct (encode_layout (r :: t) S) as (o & E & _); [discriminate|exact HS|]. eauto.
  - right. unfold encode. rewrite (enc_transform_err _ _ _ HS). f_equal. now apply to_septets_err in HS.
  - now apply to_septets_no_panic in HS.
Qed.

Lemma gsm_enc_len_sound s p : encode s = Ok p -> length p <= (total w_7bit s + 7) / 8.
Proof.
  intros E. destruct (encode_outcome s) as [(S & out & HS & E2)|E2]; [|congruence].
  rewrite (encode_length _ _ _ HS E), (total_w_7bit _ _ HS). lia.
Qed.
Lemma gsm_enc_no_esize s : encode s <> Err ESize.
Proof. destruct (encode_outcome s) as [(S & out & _ & E)|E]; rewrite E; discriminate. Qed.

(* what decoding the payload of a segment gives back (C08) *)
Definition gsm_segment_decodes (payload : bytes) (s : list N) : Prop :=
  decode payload = Ok (if Nat.eqb (septet_count s mod 8) 0 && ends_cr s then removelast s else s).

Theorem compose_gsm7_lossless ref t parts : compose_gsm7 ref t = Ok parts ->
  exists segs, concat segs = t /\ Forall2 (fun pt s => gsm_segment_decodes (pt_payload pt) s) parts segs.
Proof.
  intros H. destruct (compose_segments bytes (@length N) w_7bit encode w_7bit_pos ref t parts H) as (segs & C & F & _).
  exists segs. split; [exact C|]. clear H C. induction F as [|pt s parts segs E F IH]; constructor; [|exact IH].
  destruct (encode_outcome s) as [(S & out & HS & E2)|E2]; [|congruence].
  destruct (roundtrip_exact s S HS) as (o & Eo & D). unfold gsm_segment_decodes.
  rewrite <- (to_septets_length _ _ HS). congruence.
Qed.

(* ================================================================ table codings *)
Lemma wd_find_in r : forall tbl n wd, wd_find r tbl = Some (n, wd) ->
  exists lo hi, In (lo, hi, n, wd) tbl /\ (lo <= r <= hi)%N.
Proof.
  induction tbl as [|[[[lo hi] n0] wd0] tbl IH]; intros n wd H; cbn [wd_find] in H; [discriminate|].
  destruct (N.ltb_spec r lo); [discriminate|]. destruct (N.leb_spec r hi).
  - injection H as <- <-. exists lo, hi. split; [now left|lia].
  - destruct (IH _ _ H) as (lo' & hi' & I & B). exists lo', hi'. split; [now right|exact B].
Qed.

(* a row check that is enough for "the width the code charges is the model's, and covers the octets" *)
Definition row_1byte (x : wrow) : bool := let '(lo, hi, n, wd) := x in (wd =? 8)%N && (n =? 1)%N.
Definition row_multibyte (x : wrow) : bool :=
  let '(lo, hi, n, wd) := x in
  (0 <? n)%N && (8 * n <=? wd)%N && (((hi <? 0x7F) && (wd =? 8)) || ((0x7F <=? lo) && (wd =? 16)))%N.
Definition row_utf16 (x : wrow) : bool :=
  let '(lo, hi, n, wd) := x in
  (0 <? n)%N && (8 * n <=? wd)%N &&
  ((((hi <=? 0xD7FF) || ((0xE000 <=? lo) && (hi <=? 0xFFFF))) && (wd =? 16)) || ((0x10000 <=? lo) && (wd =? 32)))%N.
Definition row_measured (x : wrow) : bool :=
  let '(lo, hi, n, wd) := x in
  (0 <? n)%N && (n <=? 4)%N && (((hi <? 0x80) && (wd =? 8) && (n =? 1)) || ((0x80 <=? lo) && (wd =? 8 * n)))%N.

Definition width_sound (tbl : list wrow) (wm : N -> nat) : Prop :=
  forall r n wd, wd_find r tbl = Some (n, wd) -> wm r = N.to_nat wd /\ 8 * N.to_nat n <= wm r.

(* the tables stay abstract in these sections: the kernel never has to unfold a 10,000-row constant *)
Section RowCheck.
  Variable tbl : list wrow.
  Variable wm : N -> nat.               (* the model of the coding's Splitter() *)
  Variable row_ok : wrow -> bool.
  Hypothesis rows_ok : forallb row_ok tbl = true.
  Hypothesis row_sound : forall lo hi n wd r, row_ok (lo, hi, n, wd) = true -> (lo <= r <= hi)%N ->
    wm r = N.to_nat wd /\ 8 * N.to_nat n <= wm r.

  Lemma table_width : width_sound tbl wm.
  Proof.
    intros r n wd H. destruct (wd_find_in _ _ _ _ H) as (lo & hi & I & B).
    rewrite forallb_forall in rows_ok. apply (row_sound lo hi); [now apply rows_ok|exact B].
  Qed.
End RowCheck.

Section Sound.
  Variable tbl : list wrow.
  Variable wm : N -> nat.
  Hypothesis ws : width_sound tbl wm.

  Lemma enc_len_stateless_sound : forall s l, enc_len_stateless tbl s = Ok l -> l <= (total wm s + 7) / 8.
  Proof.
    assert (G : forall s l, enc_len_stateless tbl s = Ok l -> 8 * l <= total wm s).
    { induction s as [|r s IH]; intros l H; cbn [enc_len_stateless] in H.
      - injection H as <-. cbn. lia.
      - destruct (wd_find r tbl) as [[n wd]|] eqn:F; [|discriminate].
        destruct (enc_len_stateless tbl s) as [l0| |]; cbn [obind] in H; try discriminate. injection H as <-.
        destruct (ws _ _ _ F) as [_ B]. specialize (IH _ eq_refl). cbn [total fold_right]. fold (total wm s). lia. }
    intros s l H. apply G in H. lia.
  Qed.

  Lemma enc_len_stateless_no_esize s : enc_len_stateless tbl s <> Err ESize.
  Proof.
    induction s as [|r s IH]; cbn [enc_len_stateless]; [discriminate|].
    destruct (wd_find r tbl) as [[n wd]|]; [|discriminate]. destruct (enc_len_stateless tbl s); cbn [obind]; congruence.
  Qed.
End Sound.

(* measuredSplitter: the model's width is read from the same table *)
Lemma measured_width tbl : forallb row_measured tbl = true -> width_sound tbl (w_measured tbl).
Proof.
  intros K r n wd H. destruct (wd_find_in _ _ _ _ H) as (lo & hi & I & B).
  rewrite forallb_forall in K. apply K in I. unfold row_measured in I.
  unfold w_measured. rewrite H. destruct (N.ltb_spec r 0x80); [lia|]. destruct (N.ltb_spec 0 n); lia.
Qed.
Lemma w_measured_pos tbl r : 0 < w_measured tbl r.
Proof.
  unfold w_measured. destruct (r <? 0x80)%N; [lia|]. destruct (wd_find r tbl) as [[n wd]|]; [|lia].
  destruct (N.ltb_spec 0 n); lia.
Qed.

(* ---- the row checks, rune-wise ------------------------------------------ *)
Lemma row_1byte_sound lo hi n wd r : row_1byte (lo, hi, n, wd) = true -> (lo <= r <= hi)%N ->
  w_1byte r = N.to_nat wd /\ 8 * N.to_nat n <= w_1byte r.
Proof. unfold row_1byte, w_1byte. intros H _. lia. Qed.

Lemma row_multibyte_sound lo hi n wd r : row_multibyte (lo, hi, n, wd) = true -> (lo <= r <= hi)%N ->
  w_multibyte r = N.to_nat wd /\ 8 * N.to_nat n <= w_multibyte r.
Proof. unfold row_multibyte, w_multibyte. intros H B. destruct (N.ltb_spec r 0x7F); lia. Qed.

Lemma row_utf16_sound lo hi n wd r : row_utf16 (lo, hi, n, wd) = true -> (lo <= r <= hi)%N ->
  w_utf16 r = N.to_nat wd /\ 8 * N.to_nat n <= w_utf16 r.
Proof.
  unfold row_utf16, w_utf16. intros H B.
  destruct ((r <=? 0xD7FF)%N || ((0xE000 <=? r)%N && (r <=? 0xFFFF)%N)) eqn:E; lia.
Qed.

(* ---- per coding: the regenerated table passes its row check --------------- *)
Lemma wd_ascii_ok : forallb row_1byte wd_ascii = true. Proof. vm_compute. reflexivity. Qed.
Lemma wd_latin1_ok : forallb row_1byte wd_latin1 = true. Proof. vm_compute. reflexivity. Qed.
Lemma wd_cyrillic_ok : forallb row_1byte wd_cyrillic = true. Proof. vm_compute. reflexivity. Qed.
Lemma wd_hebrew_ok : forallb row_1byte wd_hebrew = true. Proof. vm_compute. reflexivity. Qed.
Lemma wd_shiftjis_ok : forallb row_multibyte wd_shiftjis = true. Proof. vm_compute. reflexivity. Qed.
Lemma wd_euckr_ok : forallb row_multibyte wd_euckr = true. Proof. vm_compute. reflexivity. Qed.
Lemma wd_ucs2_ok : forallb row_utf16 wd_ucs2 = true. Proof. vm_compute. reflexivity. Qed.
Lemma wd_eucjp_ok : forallb row_measured wd_eucjp = true. Proof. vm_compute. reflexivity. Qed.

(* ---- width_sound, coding by coding ------------------------------------- *)
Theorem width_sound_ascii : width_sound wd_ascii w_1byte.
Proof. exact (table_width _ _ _ wd_ascii_ok row_1byte_sound). Qed.
Theorem width_sound_latin1 : width_sound wd_latin1 w_1byte.
Proof. exact (table_width _ _ _ wd_latin1_ok row_1byte_sound). Qed.
Theorem width_sound_cyrillic : width_sound wd_cyrillic w_1byte.
Proof. exact (table_width _ _ _ wd_cyrillic_ok row_1byte_sound). Qed.
Theorem width_sound_hebrew : width_sound wd_hebrew w_1byte.
Proof. exact (table_width _ _ _ wd_hebrew_ok row_1byte_sound). Qed.
Theorem width_sound_shiftjis : width_sound wd_shiftjis w_multibyte.
Proof. exact (table_width _ _ _ wd_shiftjis_ok row_multibyte_sound). Qed.
Theorem width_sound_euckr : width_sound wd_euckr w_multibyte.
Proof. exact (table_width _ _ _ wd_euckr_ok row_multibyte_sound). Qed.
Theorem width_sound_ucs2 : width_sound wd_ucs2 w_utf16.
Proof. exact (table_width _ _ _ wd_ucs2_ok row_utf16_sound). Qed.
Theorem width_sound_eucjp : width_sound wd_eucjp (w_measured wd_eucjp).
Proof. exact (measured_width _ wd_eucjp_ok). Qed.

(* ISO-2022-JP: the obligation is FALSE (the escape sequences are not charged): the size check of
   ComposeMultipartShortMessage is what keeps C07 true there, by refusing *)
Theorem width_sound_iso2022jp_refuted : ~ width_sound wd_iso2022jp w_multibyte.
Proof.
  intros H. destruct (H 0x3042%N 8%N 16%N) as [_ B]; [vm_compute; reflexivity|]. vm_compute in B. lia.
Qed.
Lemma iso2022jp_size_check_fires :
  compose_len w_multibyte (enc_len_2022 wd_iso2022jp JAscii) 1 (List.concat (repeat [0x3042; 97]%N 60)) = Err ESize.
Proof. vm_compute. reflexivity. Qed.

(* the GSM 7-bit width column of the regenerated table is the model's width on every accepted rune *)
Fixpoint nrange (a : N) (len : nat) : list N := match len with O => [] | S k => a :: nrange (a + 1)%N k end.
Lemma in_nrange : forall len a r, (a <= r)%N -> (N.to_nat (r - a) < len) -> In r (nrange a len).
Proof.
  induction len as [|len IH]; intros a r H1 H2; [lia|]. cbn [nrange].
  destruct (N.eq_dec a r) as [->|Hn]; [now left|]. right. apply IH; lia.
Qed.
Definition row_gsm7 (x : wrow) : bool :=
  let '(lo, hi, n, wd) := x in forallb (fun r => Nat.eqb (w_7bit r) (N.to_nat wd)) (nrange lo (N.to_nat (hi + 1 - lo))).
Lemma wd_gsm7_ok : forallb row_gsm7 wd_gsm7 = true. Proof. vm_compute. reflexivity. Qed.
Theorem width_code_gsm7 r n wd : wd_find r wd_gsm7 = Some (n, wd) -> w_7bit r = N.to_nat wd.
Proof.
  intros H. destruct (wd_find_in _ _ _ _ H) as (lo & hi & I & B).
  pose proof wd_gsm7_ok as K. rewrite forallb_forall in K. apply K in I. unfold row_gsm7 in I.
  rewrite forallb_forall in I. apply Nat.eqb_eq, I, in_nrange; lia.
Qed.

(* ================================================================ the header table *)
Definition hrow_ok (x : N * N * N * N * N) : bool :=
  let '(lo, hi, hl, id, dl) := x in
  ((hl =? dl + 2) && (N.of_nat (hdr_len lo) =? hl) && (N.of_nat (hdr_len hi) =? hl) && ((hi <=? 255) || (256 <=? lo))
   && (fst (concat_ie lo 7 3) =? id) && (N.of_nat (length (snd (concat_ie lo 7 3))) =? dl))%N.
Lemma wd_header_ok : forallb hrow_ok wd_header_runs = true. Proof. vm_compute. reflexivity. Qed.
Lemma wd_header_cover : map (fun x => let '(lo, hi, _, _, _) := x in (lo, hi)) wd_header_runs = [(0, 255); (256, 65535)]%N.
Proof. vm_compute. reflexivity. Qed.

(* for every one of the 65536 references: Len() as the running code computes it is the model's, it is
   2 + the length of the element Set() writes (D11 repaired), and the element has the model's id *)
Theorem header_code_is_model ref : (ref < 65536)%N ->
  exists lo hi hl id dl, In (lo, hi, hl, id, dl) wd_header_runs /\ (lo <= ref <= hi)%N /\
    N.of_nat (hdr_len ref) = hl /\ hl = (dl + 2)%N /\ fst (concat_ie ref 7 3) = id /\
    N.of_nat (length (snd (concat_ie ref 7 3))) = dl.
Proof.
  intros Hr. pose proof wd_header_cover as C. pose proof wd_header_ok as K. rewrite forallb_forall in K.
  destruct wd_header_runs as [|[[[[lo1 hi1] hl1] id1] dl1] [|[[[[lo2 hi2] hl2] id2] dl2] [|? ?]]]; try discriminate.
  cbn in C. injection C as -> -> -> ->.
  pose proof (concat_ie_form ref 7 3 Hr) as [F1 F2].
  destruct (N.leb_spec ref 255) as [L|L].
  - exists 0%N, 255%N, hl1, id1, dl1. split; [now left|]. split; [lia|].
    specialize (K _ (or_introl eq_refl)). unfold hrow_ok in K.
    change (fst (concat_ie 0 7 3)) with 0%N in K. change (length (snd (concat_ie 0 7 3))) with 3 in K.
    change (hdr_len 0) with 5 in K. change (hdr_len 255) with 5 in K.
    rewrite F1, F2. unfold hdr_len. replace (ref <=? 255)%N with true by (symmetry; apply N.leb_le; lia). lia.
  - exists 256%N, 65535%N, hl2, id2, dl2. split; [right; now left|]. split; [lia|].
    specialize (K _ (or_intror (or_introl eq_refl))). unfold hrow_ok in K.
    change (fst (concat_ie 256 7 3)) with 8%N in K. change (length (snd (concat_ie 256 7 3))) with 4 in K.
    change (hdr_len 256) with 6 in K. change (hdr_len 65535) with 6 in K.
    rewrite F1, F2. unfold hdr_len. replace (ref <=? 255)%N with false by (symmetry; apply N.leb_gt; lia). lia.
Qed.

(* ---- the DATA octets Set() writes: for every reference (total 7, sequence 3), and for every (total, sequence) pair at the
        references 0, 255, 256, 65535, the running code's element is the model's - id, length and the big-endian value of
        the data octets (which, with the length, fixes every octet) ---- *)
Definition be_val (d : bytes) : N := fold_left (fun a x => a * 256 + x)%N d 0%N.

Lemma wd_header_data_shape : wd_header_data_runs = [(0, 255, 0, 3, 1795); (256, 65535, 8, 4, 16779011)]%N.
Proof. vm_compute. reflexivity. Qed.
Lemma wd_header_ts_shape : wd_header_ts_runs =
  [(0, 0, 65535, 0, 3, 0); (255, 0, 65535, 0, 3, 16711680); (256, 0, 65535, 8, 4, 16777216); (65535, 0, 65535, 8, 4, 4294901760)]%N.
Proof. vm_compute. reflexivity. Qed.

Theorem header_data_is_model ref : (ref < 65536)%N ->
  exists lo hi id dl v0, In (lo, hi, id, dl, v0) wd_header_data_runs /\ (lo <= ref <= hi)%N /\
    fst (concat_ie ref 7 3) = id /\ N.of_nat (length (snd (concat_ie ref 7 3))) = dl /\
    be_val (snd (concat_ie ref 7 3)) = (v0 + 65536 * (ref - lo))%N.
Proof.
  intros Hr. rewrite wd_header_data_shape. unfold concat_ie.
  destruct (N.leb_spec ref 255) as [L|L].
  - exists 0%N, 255%N, 0%N, 3%N, 1795%N. split; [now left|]. split; [lia|].
    replace ((ref / 256) mod 256 =? 0)%N with true by (symmetry; apply N.eqb_eq; lia).
    cbn [fst snd tl length be_val fold_left]. repeat split; lia.
  - exists 256%N, 65535%N, 8%N, 4%N, 16779011%N. split; [right; now left|]. split; [lia|].
    replace ((ref / 256) mod 256 =? 0)%N with false by (symmetry; apply N.eqb_neq; lia).
    cbn [fst snd tl length be_val fold_left]. repeat split; lia.
Qed.

Theorem header_ts_is_model ref total seq : In ref [0; 255; 256; 65535]%N -> (total < 256)%N -> (seq < 256)%N ->
  exists id dl v0, In (ref, 0, 65535, id, dl, v0)%N wd_header_ts_runs /\
    fst (concat_ie ref total seq) = id /\ N.of_nat (length (snd (concat_ie ref total seq))) = dl /\
    be_val (snd (concat_ie ref total seq)) = (v0 + (256 * total + seq))%N.
Proof.
  intros Hin Ht Hs. rewrite wd_header_ts_shape. unfold concat_ie.
  destruct Hin as [<-|[<-|[<-|[<-|[]]]]].
  - exists 0%N, 3%N, 0%N. split; [now left|]. change ((0 / 256) mod 256 =? 0)%N with true.
    cbn [fst snd tl length be_val fold_left]. repeat split; lia.
  - exists 0%N, 3%N, 16711680%N. split; [right; now left|]. change ((255 / 256) mod 256 =? 0)%N with true.
    cbn [fst snd tl length be_val fold_left]. change (255 mod 256)%N with 255%N. repeat split; lia.
  - exists 8%N, 4%N, 16777216%N. split; [right; right; now left|]. change ((256 / 256) mod 256 =? 0)%N with false.
    cbn [fst snd tl length be_val fold_left]. change ((256 / 256) mod 256)%N with 1%N. change (256 mod 256)%N with 0%N. repeat split; lia.
  - exists 8%N, 4%N, 4294901760%N. split; [right; right; right; now left|]. change ((65535 / 256) mod 256 =? 0)%N with false.
    cbn [fst snd tl length be_val fold_left]. change ((65535 / 256) mod 256)%N with 255%N. change (65535 mod 256)%N with 255%N. repeat split; lia.
Qed.

(* ---- exact widths: for the single-octet charsets, UCS-2 and EUC-JP the splitter charges exactly 8 bits per octet the
        encoder emits, for every accepted scalar value (so for them C07_maximal reads in octets) ---- *)
Definition row_exact (x : wrow) : bool := let '(lo, hi, n, wd) := x in (wd =? 8 * n)%N.
Lemma wd_exact_ok : forallb row_exact wd_ascii = true /\ forallb row_exact wd_latin1 = true /\ forallb row_exact wd_cyrillic = true /\
  forallb row_exact wd_hebrew = true /\ forallb row_exact wd_ucs2 = true /\ forallb row_exact wd_eucjp = true.
Proof. repeat split; vm_compute; reflexivity. Qed.
Definition width_exact (tbl : list wrow) : Prop := forall r n wd, wd_find r tbl = Some (n, wd) -> wd = (8 * n)%N.
Lemma row_exact_sound tbl : forallb row_exact tbl = true -> width_exact tbl.
Proof.
  intros K r n wd H. destruct (wd_find_in _ _ _ _ H) as (lo & hi & I & _).
  rewrite forallb_forall in K. specialize (K _ I). unfold row_exact in K. apply N.eqb_eq in K. exact K.
Qed.
Theorem width_exact_all : width_exact wd_ascii /\ width_exact wd_latin1 /\ width_exact wd_cyrillic /\ width_exact wd_hebrew /\
  width_exact wd_ucs2 /\ width_exact wd_eucjp.
Proof. destruct wd_exact_ok as (A & B & C & D & E & F). repeat split; apply row_exact_sound; assumption. Qed.

(* ================================================================ assembled for Properties/C07.v *)
Lemma w_1byte_pos r : 0 < w_1byte r. Proof. unfold w_1byte. lia. Qed.
Lemma w_multibyte_pos r : 0 < w_multibyte r. Proof. unfold w_multibyte. destruct (r <? 127)%N; lia. Qed.
Lemma w_utf16_pos r : 0 < w_utf16 r. Proof. unfold w_utf16. destruct ((r <=? 55295)%N || ((57344 <=? r)%N && (r <=? 65535)%N)); lia. Qed.

(* a coding known by its table: with a sound width the size check never fires, i.e. whenever the
   encoder accepts the text and it needs at most 254 parts, composition succeeds *)
Theorem compose_len_no_esize tbl wm : (forall r, 0 < wm r) -> width_sound tbl wm ->
  forall ref t, compose_len wm (enc_len_stateless tbl) ref t <> Err ESize.
Proof.
  intros Hp Hs ref t. unfold compose_len. apply compose_no_esize.
  - exact Hp.
  - intros s p E. cbv beta. now apply (enc_len_stateless_sound tbl wm Hs).
  - apply enc_len_stateless_no_esize.
Qed.

Theorem no_esize_ascii ref t : compose_len w_1byte (enc_len_stateless wd_ascii) ref t <> Err ESize.
Proof. exact (compose_len_no_esize _ _ w_1byte_pos width_sound_ascii ref t). Qed.
Theorem no_esize_latin1 ref t : compose_len w_1byte (enc_len_stateless wd_latin1) ref t <> Err ESize.
Proof. exact (compose_len_no_esize _ _ w_1byte_pos width_sound_latin1 ref t). Qed.
Theorem no_esize_cyrillic ref t : compose_len w_1byte (enc_len_stateless wd_cyrillic) ref t <> Err ESize.
Proof. exact (compose_len_no_esize _ _ w_1byte_pos width_sound_cyrillic ref t). Qed.
Theorem no_esize_hebrew ref t : compose_len w_1byte (enc_len_stateless wd_hebrew) ref t <> Err ESize.
Proof. exact (compose_len_no_esize _ _ w_1byte_pos width_sound_hebrew ref t). Qed.
Theorem no_esize_shiftjis ref t : compose_len w_multibyte (enc_len_stateless wd_shiftjis) ref t <> Err ESize.
Proof. exact (compose_len_no_esize _ _ w_multibyte_pos width_sound_shiftjis ref t). Qed.
Theorem no_esize_euckr ref t : compose_len w_multibyte (enc_len_stateless wd_euckr) ref t <> Err ESize.
Proof. exact (compose_len_no_esize _ _ w_multibyte_pos width_sound_euckr ref t). Qed.
Theorem no_esize_ucs2 ref t : compose_len w_utf16 (enc_len_stateless wd_ucs2) ref t <> Err ESize.
Proof. exact (compose_len_no_esize _ _ w_utf16_pos width_sound_ucs2 ref t). Qed.
Theorem no_esize_eucjp ref t : compose_len (w_measured wd_eucjp) (enc_len_stateless wd_eucjp) ref t <> Err ESize.
Proof. exact (compose_len_no_esize _ _ (w_measured_pos wd_eucjp) width_sound_eucjp ref t). Qed.
Theorem no_esize_gsm7 ref t : compose_gsm7 ref t <> Err ESize.
Proof. unfold compose_gsm7. apply compose_no_esize; [exact w_7bit_pos|exact gsm_enc_len_sound|exact gsm_enc_no_esize]. Qed.

Theorem compose_gsm7_no_panic ref t : compose_gsm7 ref t <> Panic /\ compose_gsm7 ref t <> Err EFuel.
Proof.
  split.
  - apply compose_no_panic. exact encode_total.
  - apply compose_no_fuel; [exact w_7bit_pos|intros r; pose proof (w_7bit_le r); lia|].
    intros s. destruct (encode_outcome s) as [(S & out & _ & E)|E]; rewrite E; discriminate.
Qed.

(* GSM 7-bit fixed-width texts (default table only): a full part holds 153 (8-bit reference) or 152 septets *)
Lemma gsm_default_total t : Forall (fun r => forward_escape r = None) t -> total w_7bit t = 7 * length t.
Proof.
  induction 1 as [|r t Hr _ IH]; [reflexivity|]. cbn [total fold_right length]. fold (total w_7bit t).
  rewrite IH. unfold w_7bit. rewrite Hr. lia.
Qed.

Theorem width_sound_all :
  width_sound wd_ascii w_1byte /\ width_sound wd_latin1 w_1byte /\ width_sound wd_cyrillic w_1byte /\
  width_sound wd_hebrew w_1byte /\ width_sound wd_shiftjis w_multibyte /\ width_sound wd_euckr w_multibyte /\
  width_sound wd_ucs2 w_utf16 /\ width_sound wd_eucjp (w_measured wd_eucjp).
Proof.
  exact (conj width_sound_ascii (conj width_sound_latin1 (conj width_sound_cyrillic (conj width_sound_hebrew
        (conj width_sound_shiftjis (conj width_sound_euckr (conj width_sound_ucs2 width_sound_eucjp))))))).
Qed.

Theorem no_esize_all ref t :
  compose_gsm7 ref t <> Err ESize /\
  compose_len w_1byte (enc_len_stateless wd_ascii) ref t <> Err ESize /\
  compose_len w_1byte (enc_len_stateless wd_latin1) ref t <> Err ESize /\
  compose_len w_1byte (enc_len_stateless wd_cyrillic) ref t <> Err ESize /\
  compose_len w_1byte (enc_len_stateless wd_hebrew) ref t <> Err ESize /\
  compose_len w_multibyte (enc_len_stateless wd_shiftjis) ref t <> Err ESize /\
  compose_len w_multibyte (enc_len_stateless wd_euckr) ref t <> Err ESize /\
  compose_len w_utf16 (enc_len_stateless wd_ucs2) ref t <> Err ESize /\
  compose_len (w_measured wd_eucjp) (enc_len_stateless wd_eucjp) ref t <> Err ESize.
Proof.
  exact (conj (no_esize_gsm7 ref t) (conj (no_esize_ascii ref t) (conj (no_esize_latin1 ref t) (conj (no_esize_cyrillic ref t)
        (conj (no_esize_hebrew ref t) (conj (no_esize_shiftjis ref t) (conj (no_esize_euckr ref t) (conj (no_esize_ucs2 ref t) (no_esize_eucjp ref t))))))))).
Qed.
