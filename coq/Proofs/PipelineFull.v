(* C09, the pipeline  text -> BestCoding / BestSafeCoding -> ComposeMultipartShortMessage with the detected coding,
   completed: the ONLY refusal is "more than 254 parts".
     - e <> ESize: no part can exceed 140 octets when the coding is a detected one.  Per label, every run of the
       encoder's accept table (Gen/Charsets.v enc_runs_<c>, gsm7_enc_runs of Gen/Detect.v) is walked against the
       splitter width table of the same label (Gen/Detect.v width_<c>): 8 * octets <= bits charged (GSM 7-bit:
       7 * septets <= bits charged), run-wise in the kernel, lifted to every point; with the packed length of GSM 7-bit
       text and the generic compose_no_esize (ComposeProofs.v).
     - e <> EFuel: no width above 32 bits in any width table, so Split terminates (compose_no_fuel).
     - the detector never returns ISO-2022-JP or EUC-JP (for ISO-2022-JP width soundness is refuted, C07). *)
From V Require Import Model.Base Model.IntervalMap Model.Splitter Model.Compose Gen.Charsets Model.Charset
  Gen.Detect Gen.KnownBad Model.Detect Model.ComposePipeline
  Proofs.SplitterProofs Proofs.ComposeProofs Proofs.CharsetProofs Proofs.CharsetRoundtrip Proofs.DetectBits
  Proofs.DetectProofs Proofs.ComposePipeline.
From Coq Require Import Lia ZifyN ZifyNat ZifyBool Arith.
Ltac Zify.zify_post_hook ::= Z.div_mod_to_equations.
Open Scope N_scope.
Local Notation length := List.length.
Local Notation concat := List.concat.

(* ------------------------------------------------------------ label maps sorted by lo, pairwise disjoint *)
Fixpoint sorted3 (b : N) (l : list (N * N * N)) : bool :=
  match l with
  | [] => true
  | (lo, hi, _) :: t => (b <=? lo) && (lo <=? hi) && sorted3 (hi + 1) t
  end.

Lemma sorted3_in l : forall b lo hi x, sorted3 b l = true -> In (lo, hi, x) l -> b <= lo /\ lo <= hi.
Proof.
  induction l as [|[[lo0 hi0] x0] t IH]; intros b lo hi x Hs Hin; [destruct Hin|].
  cbn [sorted3] in Hs. rewrite !andb_true_iff, !N.leb_le in Hs. destruct Hs as [[H1 H2] H3].
  destruct Hin as [Heq|Hin].
  - injection Heq as <- <- <-. lia.
  - destruct (IH _ _ _ _ H3 Hin). lia.
Qed.

Lemma lookup3_sorted l : forall b lo hi x r, sorted3 b l = true -> In (lo, hi, x) l -> lo <= r <= hi ->
  lookup3 r l = Some x.
Proof.
  induction l as [|[[lo0 hi0] x0] t IH]; intros b lo hi x r Hs Hin Hr; [destruct Hin|].
  pose proof Hs as Hs'. cbn [sorted3] in Hs'. rewrite !andb_true_iff, !N.leb_le in Hs'.
  destruct Hs' as [[H1 H2] H3]. cbn [lookup3].
  destruct Hin as [Heq|Hin].
  - injection Heq as <- <- <-.
    replace ((lo0 <=? r) && (r <=? hi0)) with true; [reflexivity|].
    symmetry. apply andb_true_iff. rewrite !N.leb_le. lia.
  - destruct (sorted3_in _ _ _ _ _ H3 Hin) as [H4 H5].
    replace ((lo0 <=? r) && (r <=? hi0)) with false; [exact (IH _ _ _ _ _ H3 Hin Hr)|].
    symmetry. apply andb_false_iff. right. apply N.leb_gt. lia.
Qed.

(* every point of lo..hi is mapped, by the label map wr, to a value of at least [need]:
   walk from lo, each step jumps behind the end of the run of wr that contains the current point *)
Definition find3 (r : N) (l : list (N * N * N)) : option (N * N * N) :=
  find (fun q => (fst (fst q) <=? r) && (r <=? snd (fst q))) l.
Fixpoint cover3 (fuel : nat) (lo hi need : N) (wr : list (N * N * N)) : bool :=
  match fuel with
  | O => false
  | S f =>
      match find3 lo wr with
      | None => false
      | Some q => (need <=? snd q) && (if hi <=? snd (fst q) then true else cover3 f (snd (fst q) + 1) hi need wr)
      end
  end.

Lemma cover3_sound wr : sorted3 0 wr = true -> forall fuel lo hi need, cover3 fuel lo hi need wr = true ->
  forall r, lo <= r <= hi -> exists w, lookup3 r wr = Some w /\ need <= w.
Proof.
  intros Hs. induction fuel as [|f IH]; intros lo hi need H r Hr; [discriminate|].
  cbn [cover3] in H. destruct (find3 lo wr) as [[[l h] w]|] eqn:Hf; [|discriminate].
  unfold find3 in Hf. apply find_some in Hf. cbn [fst snd] in Hf, H. destruct Hf as [Hin Hp].
  rewrite andb_true_iff, !N.leb_le in Hp. rewrite andb_true_iff, N.leb_le in H. destruct H as [Hn H].
  destruct (N.le_gt_cases r h) as [Hle|Hgt].
  - exists w. split; [|exact Hn]. apply (lookup3_sorted wr 0 l h w r Hs Hin). lia.
  - destruct (hi <=? h) eqn:Hh; [apply N.leb_le in Hh; lia|]. apply (IH _ _ _ H). lia.
Qed.

(* ------------------------------------------------------------ per label: accept table against width table *)
Definition acc_runs (l : label) : runs := match l with LGsm7 => gsm7_enc_runs | LCs c => enc_runs c end.
(* bits the character needs: 8 per octet; GSM 7-bit 7 per septet (one septet, or ESC + code) *)
Definition need_of (l : label) (n : N) : N :=
  match l with LGsm7 => if n =? 1 then 7 else 14 | LCs _ => 8 * n end.
Definition width_check (l : label) : bool :=
  sorted3 0 (width_runs l) &&
  forallb (fun q : run => let '(lo, hi, n, _) := q in
             cover3 (S (length (width_runs l))) lo hi (need_of l n) (width_runs l)) (acc_runs l).

Lemma width_check_sound l : width_check l = true ->
  forall r n x, lookup r (acc_runs l) = Some (n, x) -> need_of l n <= width l r.
Proof.
  unfold width_check. rewrite andb_true_iff, forallb_forall. intros [Hs Hc] r n x Hl.
  destruct (lookup_Some_in _ _ _ _ Hl) as (lo & hi & v & Hin & Hr & _). specialize (Hc _ Hin). cbv beta iota in Hc.
  destruct (cover3_sound _ Hs _ _ _ _ Hc r Hr) as (w & Hw & Hn). unfold width. rewrite Hw. exact Hn.
Qed.

Lemma wc_gsm7 : width_check LGsm7 = true. Proof. vm_compute. reflexivity. Qed.
Lemma wc_ascii : width_check (LCs CAscii) = true. Proof. vm_compute. reflexivity. Qed.
Lemma wc_latin1 : width_check (LCs CLatin1) = true. Proof. vm_compute. reflexivity. Qed.
Lemma wc_cyrillic : width_check (LCs CCyrillic) = true. Proof. vm_compute. reflexivity. Qed.
Lemma wc_hebrew : width_check (LCs CHebrew) = true. Proof. vm_compute. reflexivity. Qed.
Lemma wc_sjis : width_check (LCs CSjis) = true. Proof. vm_cast_no_check (eq_refl true). Qed.
Lemma wc_euckr : width_check (LCs CEuckr) = true. Proof. vm_cast_no_check (eq_refl true). Qed.
Lemma wc_ucs2 : width_check (LCs CUcs2) = true. Proof. vm_compute. reflexivity. Qed.

Theorem width_check_detectable l : detectable l -> width_check l = true.
Proof.
  intros [Hin| ->]; [|exact wc_ucs2]. cbn [priority In] in Hin.
  destruct Hin as [<-|[<-|[<-|[<-|[<-|[<-|[<-|[]]]]]]]].
  - exact wc_gsm7.
  - exact wc_ascii.
  - exact wc_latin1.
  - exact wc_cyrillic.
  - exact wc_hebrew.
  - exact wc_sjis.
  - exact wc_euckr.
Qed.

(* no width table charges more than 32 bits: Split terminates *)
Definition width_max_check (l : label) : bool := forallb (fun q : N * N * N => snd q <=? 32) (width_runs l).
Lemma width_le_32 l r : width l r <= 32.
Proof.
  assert (K : width_max_check l = true) by (destruct l as [|c]; [|destruct c]; vm_compute; reflexivity).
  unfold width. destruct (lookup3 r (width_runs l)) as [w|] eqn:E; [|lia].
  destruct (lookup3_Some_in _ _ _ E) as (lo & hi & Hin & _).
  unfold width_max_check in K. rewrite forallb_forall in K. specialize (K _ Hin). cbn [snd] in K. lia.
Qed.
Lemma w_label_le l r : (w_label l r <= 8 * 133)%nat.
Proof. unfold w_label. pose proof (width_le_32 l r). lia. Qed.

(* ------------------------------------------------------------ bits charged for a text, in N and as the splitter sums them *)
Definition wsum (l : label) (s : list N) : N := fold_right (fun r a => width l r + a) 0 s.
Lemma wsum_total l s : (N.to_nat (wsum l s) <= total (w_label l) s)%nat.
Proof.
  induction s as [|r s IH]; [cbn; lia|]. cbn [wsum total fold_right]. fold (wsum l s). fold (total (w_label l) s).
  unfold w_label at 1. lia.
Qed.

(* table encoders: 8 * octets <= bits *)
Lemma encode_t_len t (W : N -> N) : (forall r n x, lookup r t = Some (n, x) -> 8 * n <= W r) ->
  forall s p, encode_t t s = Ok p -> 8 * N.of_nat (length p) <= fold_right (fun r a => W r + a) 0 s.
Proof.
  intros HW. induction s as [|r s IH]; intros p H; cbn [encode_t] in H.
  - injection H as <-. cbn. lia.
  - unfold enc_rune_t in H. destruct (lookup r t) as [[n x]|] eqn:El; [|discriminate].
    destruct (encode_t t s) as [bs| |]; try discriminate. injection H as <-.
    specialize (IH bs eq_refl). pose proof (HW _ _ _ El) as Hr.
    rewrite app_length, be_bytes_length. cbn [fold_right]. lia.
Qed.

(* GSM 7-bit: 7 * septets <= bits *)
Lemma g7_septets_len : forall s ss, g7_septets s = Ok ss -> 7 * N.of_nat (length ss) <= wsum LGsm7 s.
Proof.
  pose proof (width_check_sound LGsm7 wc_gsm7) as HW. cbn [acc_runs need_of] in HW.
  induction s as [|r s IH]; intros ss H; cbn [g7_septets] in H.
  - injection H as <-. cbn. lia.
  - unfold g7_rune in H. destruct (lookup r gsm7_enc_runs) as [[n x]|] eqn:El; [|discriminate].
    pose proof (HW _ _ _ El) as Hr.
    destruct (g7_septets s) as [ss'| |]; try (destruct (n =? 1); discriminate).
    specialize (IH ss' eq_refl). cbn [wsum fold_right]. fold (wsum LGsm7 s).
    destruct (n =? 1); injection H as <-; cbn [app length]; lia.
Qed.

Lemma chunks_count k : (0 < k)%nat -> forall fuel l, (length l < fuel)%nat ->
  length (chunks fuel k l) = (length l / k)%nat.
Proof.
  intros Hk. induction fuel as [|fuel IH]; intros l Hl; [lia|].
  cbn [chunks]. destruct (Nat.leb_spec k (length l)) as [L|L].
  - cbn [length]. rewrite IH by (rewrite skipn_length; lia). rewrite skipn_length.
    replace (length l) with ((length l - k) + 1 * k)%nat at 2 by lia.
    rewrite Nat.div_add by lia. lia.
  - cbn [length]. symmetry. apply Nat.div_small. exact L.
Qed.

Lemma pack_bits_length bs : length (pack_bits bs) = ((length bs + padlen (length bs)) / 8)%nat.
Proof.
  unfold pack_bits. cbv zeta. rewrite map_length, chunks_count by lia.
  rewrite app_length, repeat_length. reflexivity.
Qed.

Lemma g7_pack_length ss : (length (g7_pack ss) <= (7 * length ss + 7) / 8)%nat.
Proof.
  unfold g7_pack. rewrite pack_bits_length, septet_bits_length. unfold g7_fill, padlen.
  destruct (Nat.eqb_spec (length ss mod 8) 7) as [E|E].
  - rewrite app_length. cbn [length]. lia.
  - lia.
Qed.

(* ------------------------------------------------------------ Splitter.Len bounds the encoder, for every detectable coding *)
Lemma encode_l_bits l : detectable l -> forall s p, encode_l l s = Ok p ->
  (length p <= (N.to_nat (wsum l s) + 7) / 8)%nat.
Proof.
  intros Hd s p H. pose proof (width_check_sound l (width_check_detectable l Hd)) as HW.
  destruct l as [|c].
  - cbn [encode_l] in H. unfold g7_encode in H. destruct (g7_septets s) as [ss| |] eqn:E; try discriminate.
    injection H as <-. pose proof (g7_septets_len s ss E). pose proof (g7_pack_length ss). lia.
  - assert (He : encode c = encode_t (enc_runs c)).
    { destruct Hd as [Hin|Hu]; [|injection Hu as ->; reflexivity]. cbn [priority In] in Hin.
      destruct Hin as [Hx|[Hx|[Hx|[Hx|[Hx|[Hx|[Hx|[]]]]]]]]; try discriminate Hx; injection Hx as <-; reflexivity. }
    cbn [encode_l] in H. rewrite He in H. cbn [acc_runs need_of] in HW.
    pose proof (encode_t_len (enc_runs c) (width (LCs c)) HW s p H) as B. fold (wsum (LCs c) s) in B. lia.
Qed.

Theorem encode_l_len_sound l : detectable l -> forall s p, encode_l l s = Ok p ->
  (length p <= (total (w_label l) s + 7) / 8)%nat.
Proof.
  intros Hd s p H. pose proof (encode_l_bits l Hd s p H). pose proof (wsum_total l s).
  assert ((N.to_nat (wsum l s) + 7) / 8 <= (total (w_label l) s + 7) / 8)%nat by (apply Nat.div_le_mono; lia). lia.
Qed.

Lemma encode_l_not e l s : e <> EText -> encode_l l s <> Err e.
Proof. intros He H. apply encode_l_err in H. congruence. Qed.

(* never refused for size, never diverging - any detectable coding, any text, any reference *)
Theorem compose_label_no_esize l ref rs : detectable l -> compose_label l ref rs <> Err ESize.
Proof.
  intros Hd. unfold compose_label. apply compose_no_esize.
  - apply w_label_pos.
  - exact (encode_l_len_sound l Hd).
  - intros s. apply encode_l_not. discriminate.
Qed.

Theorem compose_label_no_efuel l ref rs : compose_label l ref rs <> Err EFuel.
Proof.
  unfold compose_label. apply compose_no_fuel.
  - apply w_label_pos.
  - apply w_label_le.
  - intros s. apply encode_l_not. discriminate.
Qed.

(* a refusal for the number of parts comes from the split alone: more than 254 segments *)
Lemma compose_count_only (P : Type) (plen : P -> nat) (w : N -> nat) (enc : list N -> outcome P) ref t :
  (forall s, enc s <> Err ECount) -> Compose.compose P plen w enc ref t = Err ECount ->
  (max_sm_len < text_len w t)%nat /\
  exists segs, split w (max_sm_len - 1 - hdr_len ref) t = Ok segs /\ (254 < length segs)%nat.
Proof.
  intros Hn. unfold Compose.compose. destruct (Nat.leb_spec (text_len w t) max_sm_len) as [L|L].
  - pose proof (Hn t) as Ht. destruct (enc t) as [p|e|]; cbn [obind]; [|congruence|discriminate].
    destruct (Nat.ltb max_sm_len (plen p)); discriminate.
  - intros H. split; [exact L|].
    destruct (split w (max_sm_len - 1 - hdr_len ref) t) as [segs|e|] eqn:ES; cbn [obind] in H; [| |discriminate].
    + exists segs. split; [reflexivity|]. destruct (Nat.ltb_spec 254 (length segs)) as [L2|L2]; [exact L2|].
      exfalso. revert H. apply compose_parts_err_local; [discriminate|]. intros s _. apply Hn.
    + destruct (split_outcome w (max_sm_len - 1 - hdr_len ref) t) as [[x Ex]|Ex]; rewrite Ex in ES; [discriminate|].
      injection ES as <-. discriminate H.
Qed.

Section Full.
  Variable l : label.
  Variable rs : list N.
  Hypothesis Hd : detectable l.
  Hypothesis Hs : Forall scalar rs.
  Hypothesis Hv : validates l rs = true.
  Hypothesis Hk : forall r, In r rs -> mem r (known_bad_of l) = false.

  (* the only refusal: more than 254 parts *)
  Theorem compose_label_refusal ref e : compose_label l ref rs = Err e ->
    e = ECount /\ (max_sm_len < text_len (w_label l) rs)%nat /\
    exists segs, split (w_label l) (max_sm_len - 1 - hdr_len ref) rs = Ok segs /\ (254 < length segs)%nat.
  Proof.
    intros H.
    assert (E : e = ECount).
    { destruct e; try reflexivity; exfalso;
        try (revert H; apply compose_err_local;
             [apply w_label_pos|discriminate|discriminate|discriminate|intros s _; apply encode_l_not; discriminate]).
      - exact (compose_label_no_esize l ref rs Hd H).
      - exact (compose_label_no_etext l rs Hd Hs Hv Hk ref H).
      - exact (compose_label_no_efuel l ref rs H). }
    subst e. split; [reflexivity|].
    apply (compose_count_only bytes (@length N) (w_label l) (encode_l l) ref rs); [|exact H].
    intros s. apply encode_l_not. discriminate.
  Qed.

  (* what a successful run returns: 1..254 parts of at most 140 octets (header + payload), the encodings of consecutive
     pieces of the text that join to it and decode back to them *)
  Theorem compose_label_success ref parts : compose_label l ref rs = Ok parts ->
    (1 <= length parts <= 254)%nat /\
    Forall (fun pt => (udh_len (pt_udh pt) + length (pt_payload pt) <= 140)%nat) parts /\
    exists segs, concat segs = rs /\
      Forall2 (fun pt s => encode_l l s = Ok (pt_payload pt) /\
                           ((l = LGsm7 -> g7_clear s) -> decode_l l (pt_payload pt) = Ok s)) parts segs.
  Proof.
    intros H. split; [|split].
    - exact (compose_at_most_254 bytes (@length N) (w_label l) (encode_l l) (w_label_pos l) ref rs parts H).
    - exact (compose_fits bytes (@length N) (w_label l) (encode_l l) (w_label_pos l) ref rs parts H).
    - exact (compose_label_segments l rs Hd Hs Hv Hk ref parts H).
  Qed.
End Full.

(* ------------------------------------------------------------ the detector never returns ISO-2022-JP or EUC-JP *)
Lemma detectable_table l : detectable l -> l <> LCs CIso2022jp /\ l <> LCs CEucjp.
Proof.
  intros [Hin| ->]; [|split; discriminate]. cbn [priority In] in Hin.
  destruct Hin as [<-|[<-|[<-|[<-|[<-|[<-|[<-|[]]]]]]]]; split; discriminate.
Qed.
Theorem detector_never_stateful rs :
  best rs <> LCs CIso2022jp /\ best rs <> LCs CEucjp /\ best_safe rs <> LCs CIso2022jp /\ best_safe rs <> LCs CEucjp.
Proof.
  destruct (detectable_table _ (proj1 (best_spec rs))). destruct (detectable_table _ (proj1 (best_safe_spec rs))). auto.
Qed.

(* ------------------------------------------------------------ assembled *)
Definition pipeline_statement (l : label) (out : outcome (list (part bytes))) (ref : N) (rs : list N) : Prop :=
  out <> Panic /\
  (forall e, out = Err e ->
     e = ECount /\ (140 < text_len (w_label l) rs)%nat /\
     exists segs, split (w_label l) (140 - 1 - hdr_len ref) rs = Ok segs /\ (254 < length segs)%nat) /\
  (forall parts, out = Ok parts ->
     (1 <= length parts <= 254)%nat /\
     Forall (fun pt => (udh_len (pt_udh pt) + length (pt_payload pt) <= 140)%nat) parts /\
     exists segs, concat segs = rs /\
       Forall2 (fun pt s => encode_l l s = Ok (pt_payload pt) /\
                            ((l = LGsm7 -> g7_clear s) -> decode_l l (pt_payload pt) = Ok s)) parts segs).

Theorem pipeline_full ref rs : Forall scalar rs ->
  (forall r, In r rs -> mem r (known_bad_of (best rs)) = false) ->
  pipeline_statement (best rs) (pipeline ref rs) ref rs.
Proof.
  intros Hs Hk. destruct (best_spec rs) as [Hd Hv]. unfold pipeline, pipeline_statement. split; [|split].
  - exact (compose_label_no_panic (best rs) rs ref).
  - exact (compose_label_refusal (best rs) rs Hd Hs Hv Hk ref).
  - exact (compose_label_success (best rs) rs Hd Hs Hv Hk ref).
Qed.

Theorem pipeline_safe_full ref rs : Forall scalar rs ->
  pipeline_statement (best_safe rs) (pipeline_safe ref rs) ref rs.
Proof.
  intros Hs. destruct (best_safe_spec rs) as [Hd Hv]. unfold pipeline_safe, pipeline_statement.
  assert (Hk : forall r, In r rs -> mem r (known_bad_of (best_safe rs)) = false).
  { intros r _. unfold best_safe. destruct (validates LGsm7 rs); reflexivity. }
  split; [|split].
  - exact (compose_label_no_panic (best_safe rs) rs ref).
  - exact (compose_label_refusal (best_safe rs) rs Hd Hs Hv Hk ref).
  - exact (compose_label_success (best_safe rs) rs Hd Hs Hv Hk ref).
Qed.

(* ------------------------------------------------------------ one short message: what Compose stores fits 140 octets *)
Lemma splitter_len_wsum l rs : splitter_len l rs = (wsum l rs + 7) / 8.
Proof. reflexivity. Qed.

Theorem compose_stores_at_most_140 rs dc bs : Detect.compose rs = Ok (dc, bs) -> (length bs <= 140)%nat.
Proof.
  unfold Detect.compose. cbv zeta. destruct (N.ltb_spec 140 (splitter_len (best rs) rs)) as [L|L]; [discriminate|].
  destruct (encode_l (best rs) rs) as [p|e|] eqn:E; try discriminate. intros [= _ <-].
  pose proof (encode_l_bits _ (proj1 (best_spec rs)) rs p E). rewrite splitter_len_wsum in L. lia.
Qed.

(* ------------------------------------------------------------ non-vacuity: 300 x U+65E5 (Shift-JIS, 2 octets each) is composed
   into 5 parts; 40000 x 'a' (GSM 7-bit) is refused for the number of parts, and for nothing else *)
Definition parts_count (o : outcome (list (part bytes))) : option nat :=
  match o with Ok ps => Some (length ps) | _ => None end.
Lemma pipeline_examples :
  parts_count (pipeline 7 (rept 300 [26085])) = Some 5%nat /\
  pipeline 7 (rept 40000 [97]) = Err ECount /\
  pipeline_safe 300 (rept 40000 [1046]) = Err ECount.
Proof. vm_compute. repeat split; reflexivity. Qed.
