(* Theorems about the accessor tables regenerated from the running code
   (Gen/AccessorTables.v): the tables ARE the functions the code computes on
   these finite domains, so these statements speak about the code. *)
From V Require Import Model.Accessors Model.AccessorsRun Gen.AccessorTables Proofs.CombinerProofs Proofs.AccessorsProofs.
From V Require Proofs.Gsm7Proofs.
Open Scope N_scope.

(* C11 is about returning, not about the text returned: a row is fine when
   neither the code nor the model panicked (the text is kept in the table for
   the reader; renaming a state is no C11 matter) *)
Definition msgstate_row_ok (row : N * N * bytes) : bool :=
  let '(b, cls, s) := row in (cls =? 0) && (ocls (message_state_string b) =? 0).

(* one row per octet, in order; no row is a panic; every row is what the model computes *)
Lemma message_state_rows_complete : map (fun r => fst (fst r)) message_state_rows = all256.
Proof. vm_compute. reflexivity. Qed.
Lemma message_state_rows_ok : forallb msgstate_row_ok message_state_rows = true.
Proof. vm_compute. reflexivity. Qed.

Lemma message_state_code b cls s : In (b, cls, s) message_state_rows ->
  cls = 0 /\ exists s', message_state_string b = Ok s'.
Proof.
  intros Hin. pose proof message_state_rows_ok as H. rewrite forallb_forall in H. specialize (H _ Hin).
  unfold msgstate_row_ok in H. apply andb_true_iff in H as [H1 H2]. apply N.eqb_eq in H1. split; [exact H1|].
  destruct (message_state_string b) as [x| |]; cbn [ocls] in H2; try discriminate. eexists; reflexivity.
Qed.
Lemma message_state_code_total b : b < 256 -> exists s, In (b, 0, s) message_state_rows.
Proof.
  intros Hb. pose proof (all256_spec b Hb) as Hin. rewrite <- message_state_rows_complete in Hin.
  apply in_map_iff in Hin as ([[b' cls] s] & E & Hin). cbn [fst] in E. subst b'.
  destruct (message_state_code _ _ _ Hin) as [-> _]. exists s. exact Hin.
Qed.

(* Address.String on the grid of TON/NPI values around 1 and numbers around "+": never a panic, in the code and in the model *)
Definition address_row_ok (row : N * N * N * bytes * N * bytes) : bool :=
  let '(_, ton, npi, no, cls, s) := row in
  (cls =? 0) && (ocls (address_string {| a_ton := ton; a_npi := npi; a_no := no |}) =? 0).
Lemma address_rows_ok : forallb address_row_ok address_rows = true.
Proof. vm_compute. reflexivity. Qed.
(* the grid is complete: every TON in 0..7, every NPI in 0..15, every listed number *)
Definition address_grid : list (N * N * bytes) :=
  flat_map (fun ton => flat_map (fun npi => map (fun no => (ton, npi, no)) address_numbers) (map N.of_nat (seq 0 16))) (map N.of_nat (seq 0 8)).
Definition beq_grid (a b : N * N * bytes) : bool :=
  (fst (fst a) =? fst (fst b)) && (snd (fst a) =? snd (fst b)) && beq_bytes (snd a) (snd b).
Lemma address_rows_complete :
  beq_list beq_grid (map (fun r : N * N * N * bytes * N * bytes => let '(_, ton, npi, no, _, _) := r in (ton, npi, no)) address_rows) address_grid = true.
Proof. vm_compute. reflexivity. Qed.
Lemma address_numbers_loaded :
  existsb (beq_bytes [48; 48]) address_numbers = true /\ existsb (beq_bytes []) address_numbers = true /\ existsb (beq_bytes [43]) address_numbers = true.
Proof. repeat split; vm_compute; reflexivity. Qed.
Lemma address_code n ton npi no cls s : In (n, ton, npi, no, cls, s) address_rows ->
  cls = 0 /\ exists s', address_string {| a_ton := ton; a_npi := npi; a_no := no |} = Ok s'.
Proof.
  intros Hin. pose proof address_rows_ok as H. rewrite forallb_forall in H. specialize (H _ Hin).
  unfold address_row_ok in H. apply andb_true_iff in H as [H1 H2]. apply N.eqb_eq in H1. split; [exact H1|].
  destruct (address_string _) as [x| |]; cbn [ocls] in H2; try discriminate. eexists; reflexivity.
Qed.

Lemma data_coding_rows_complete : map fst data_coding_rows = all256.
Proof. vm_compute. reflexivity. Qed.

(* CommandStatus.String / .Error over 0..0x4FF and the corners of the 32-bit
   range: no row is a panic, in the code and in the model (the text — names,
   hex case — is not compared) *)
Definition status_row_ok (row : N * N * N * bytes) : bool :=
  let '(s, c1, c2, t) := row in
  (c1 =? 0) && (c2 =? 0) && (ocls (command_status_string command_status_named s) =? 0).
Lemma command_status_rows_ok : forallb status_row_ok command_status_rows = true.
Proof. vm_compute. reflexivity. Qed.
Lemma command_status_rows_complete :
  firstn 1280 (map (fun r => fst (fst (fst r))) command_status_rows) = map N.of_nat (seq 0 1280) /\
  existsb (N.eqb 4294967295) (map (fun r => fst (fst (fst r))) command_status_rows) = true.
Proof. split; vm_compute; reflexivity. Qed.
Lemma command_status_code s c1 c2 t : In (s, c1, c2, t) command_status_rows ->
  c1 = 0 /\ c2 = 0 /\ exists t', command_status_string command_status_named s = Ok t'.
Proof.
  intros Hin. pose proof command_status_rows_ok as H. rewrite forallb_forall in H. specialize (H _ Hin).
  unfold status_row_ok in H. apply andb_true_iff in H as [H H3]. apply andb_true_iff in H as [H1 H2].
  apply N.eqb_eq in H1, H2. repeat split; auto.
  destruct (command_status_string command_status_named s) as [x| |]; cbn [ocls] in H3; try discriminate.
  eexists; reflexivity.
Qed.

(* the text methods of the octet-valued field types (ESMClass, RegisteredDelivery,
   InterfaceVersion, DataCoding incl. Validate, MessageState; String(), fmt
   verbs, JSON text) on EVERY octet, dumped from the running code: one row per
   kind and octet, none is a panic *)
Definition enum_kinds : list N := [1; 2; 3; 4; 5; 6].
Lemma enum_string_rows_complete :
  map (fun r => (fst (fst r), snd (fst r))) enum_string_rows = flat_map (fun k => map (fun b => (k, b)) all256) enum_kinds.
Proof. vm_compute. reflexivity. Qed.
Lemma enum_string_rows_ok : forallb (fun r : N * N * N => snd r =? 0) enum_string_rows = true.
Proof. vm_compute. reflexivity. Qed.
Lemma enum_string_code k b cls : In (k, b, cls) enum_string_rows -> cls = 0.
Proof.
  intros Hin. pose proof enum_string_rows_ok as H. rewrite forallb_forall in H. specialize (H _ Hin).
  cbn [snd] in H. apply N.eqb_eq in H. exact H.
Qed.
Lemma enum_string_code_total k b : In k enum_kinds -> b < 256 -> In (k, b, 0) enum_string_rows.
Proof.
  intros Hk Hb.
  assert (Hin : In (k, b) (map (fun r : N * N * N => (fst (fst r), snd (fst r))) enum_string_rows)).
  { rewrite enum_string_rows_complete. apply in_flat_map. exists k. split; [exact Hk|].
    apply in_map. apply all256_spec. exact Hb. }
  apply in_map_iff in Hin as ([[k' b'] cls] & E & Hin). cbn [fst snd] in E. inversion E; subst k' b'.
  rewrite (enum_string_code _ _ _ Hin) in Hin. exact Hin.
Qed.

(* getHeader's reflect loop on every registered PDU type, as ReadPDU returns it
   (a non-nil pointer to the struct): the field kinds are dumped from the
   running code by reflect; on each the loop finds the Header and returns *)
Definition shape_row_ok (row : N * list N) : bool :=
  match get_header_reflect (ShPtrStruct (map kind_of (snd row))) with
  | Ok true => true | _ => false end.
Lemma pdu_shapes_ok : forallb shape_row_ok pdu_shapes = true.
Proof. vm_compute. reflexivity. Qed.
Lemma pdu_shapes_nonempty : pdu_shapes <> [].
Proof. discriminate. Qed.

(* ReadSequence / ReadCommandStatus on what ReadPDU returns: for every registered type the reflect loop finds the
   Header, so they return the header's fields *)
Lemma read_sequence_on_pdus id kinds vs : In (id, kinds) pdu_shapes ->
  get_header_reflect (ShPtrStruct (map kind_of kinds)) = Ok true /\
  (exists z, read_sequence_go (ShPtrStruct (map kind_of kinds)) vs = Ok z) /\
  (exists st, read_status_go (ShPtrStruct (map kind_of kinds)) vs = Ok st).
Proof.
  intros Hin. pose proof pdu_shapes_ok as H. rewrite forallb_forall in H. specialize (H _ Hin).
  unfold shape_row_ok in H. cbn [snd] in H.
  destruct (get_header_reflect (ShPtrStruct (map kind_of kinds))) as [[|]| |] eqn:E; try discriminate.
  split; [reflexivity|]. unfold read_sequence_go, read_status_go. rewrite E. cbn [obind].
  split; [apply read_sequence_ok|apply read_status_ok].
Qed.

(* Parse with the GSM 7-bit decoder of Model/Gsm7.v plugged in (its totality theorem is C08's
   [decode_total]; nothing is assumed about the decoder here): for every data_coding — those the running
   code routes to gsm7bit.Packed decode, the model of the others takes the hex branch — and every message octets *)
Lemma parse_gsm7_total utf8 (encoding : N -> option decoder) m :
  encoding (sm_dc m) = Some (gsm7_decoder utf8) -> parse encoding m <> Panic.
Proof.
  intros H. unfold parse. rewrite H. unfold gsm7_decoder.
  destruct (Gsm7Proofs.decode_total (sm_msg m)) as [Hp _].
  destruct (Gsm7.decode (sm_msg m)); [discriminate|discriminate|congruence].
Qed.
Lemma parse_encoding_gsm7_total m : parse encoding_gsm7 m <> Panic.
Proof.
  destruct (encoding_gsm7 (sm_dc m)) as [d|] eqn:E.
  - unfold encoding_gsm7 in E. destruct (is_gsm7_dc (sm_dc m)) eqn:G; [|discriminate].
    apply (parse_gsm7_total (fun rs => rs)). unfold encoding_gsm7. rewrite G. reflexivity.
  - rewrite (parse_no_decoder _ _ E). discriminate.
Qed.
Lemma data_coding_gsm7_nonempty : existsb (N.eqb 0) data_coding_gsm7 = true /\ existsb (N.eqb 240) data_coding_gsm7 = true.
Proof. split; vm_compute; reflexivity. Qed.
