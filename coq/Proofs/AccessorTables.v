(* Theorems about the accessor tables regenerated from the running code
   (Gen/AccessorTables.v): the tables ARE the functions the code computes on
   these finite domains, so these statements speak about the code. *)
From V Require Import Model.Accessors Gen.AccessorTables Proofs.CombinerProofs Proofs.AccessorsProofs.
Open Scope N_scope.

Definition msgstate_row_ok (row : N * N * bytes) : bool :=
  let '(b, cls, s) := row in (cls =? 0) && beq_obytes (message_state_string b) (Ok s).

(* one row per octet, in order; no row is a panic; every row is what the model computes *)
Lemma message_state_rows_complete : map (fun r => fst (fst r)) message_state_rows = all256.
Proof. vm_compute. reflexivity. Qed.
Lemma message_state_rows_ok : forallb msgstate_row_ok message_state_rows = true.
Proof. vm_compute. reflexivity. Qed.

Lemma message_state_code b cls s : In (b, cls, s) message_state_rows ->
  cls = 0 /\ message_state_string b = Ok s.
Proof.
  intros Hin. pose proof message_state_rows_ok as H. rewrite forallb_forall in H. specialize (H _ Hin).
  unfold msgstate_row_ok in H. apply andb_true_iff in H as [H1 H2]. apply N.eqb_eq in H1. split; [exact H1|].
  destruct (message_state_string b) as [x| |]; cbn [beq_obytes] in H2; try discriminate.
  apply beq_bytes_eq in H2. congruence.
Qed.
Lemma message_state_code_total b : b < 256 -> exists s, In (b, 0, s) message_state_rows.
Proof.
  intros Hb. pose proof (all256_spec b Hb) as Hin. rewrite <- message_state_rows_complete in Hin.
  apply in_map_iff in Hin as ([[b' cls] s] & E & Hin). cbn [fst] in E. subst b'.
  destruct (message_state_code _ _ _ Hin) as [-> _]. exists s. exact Hin.
Qed.

(* Address.String on the grid of TON/NPI values around 1 and numbers around "+": never a panic, and the model's text *)
Definition address_row_ok (row : N * N * N * bytes * N * bytes) : bool :=
  let '(_, ton, npi, no, cls, s) := row in
  (cls =? 0) && beq_obytes (address_string {| a_ton := ton; a_npi := npi; a_no := no |}) (Ok s).
Lemma address_rows_ok : forallb address_row_ok address_rows = true.
Proof. vm_compute. reflexivity. Qed.

Lemma data_coding_rows_complete : map fst data_coding_rows = all256.
Proof. vm_compute. reflexivity. Qed.

(* CommandStatus.String / .Error over 0..0x4FF and the corners of the 32-bit
   range: no row is a panic, every text is the model's (the name if the code
   has one, else the eight hex digits) *)
Definition status_row_ok (row : N * N * N * bytes) : bool :=
  let '(s, c1, c2, t) := row in
  (c1 =? 0) && (c2 =? 0) && beq_obytes (command_status_string command_status_named s) (Ok t).
Lemma command_status_rows_ok : forallb status_row_ok command_status_rows = true.
Proof. vm_compute. reflexivity. Qed.
Lemma command_status_rows_complete :
  firstn 1280 (map (fun r => fst (fst (fst r))) command_status_rows) = map N.of_nat (seq 0 1280) /\
  existsb (N.eqb 4294967295) (map (fun r => fst (fst (fst r))) command_status_rows) = true.
Proof. split; vm_compute; reflexivity. Qed.
Lemma command_status_code s c1 c2 t : In (s, c1, c2, t) command_status_rows ->
  c1 = 0 /\ c2 = 0 /\ command_status_string command_status_named s = Ok t.
Proof.
  intros Hin. pose proof command_status_rows_ok as H. rewrite forallb_forall in H. specialize (H _ Hin).
  unfold status_row_ok in H. apply andb_true_iff in H as [H H3]. apply andb_true_iff in H as [H1 H2].
  apply N.eqb_eq in H1, H2. repeat split; auto.
  destruct (command_status_string command_status_named s) as [x| |]; cbn [beq_obytes] in H3; try discriminate.
  apply beq_bytes_eq in H3. congruence.
Qed.
