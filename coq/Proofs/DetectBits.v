(* Bit-level facts about the GSM 7-bit packing model of Model/Detect.v:
   unpacking the packed septets returns them when fewer than seven bits are
   spare. *)
From V Require Import Model.Base Model.IntervalMap Model.Detect.
From Coq Require Import Arith.
Open Scope N_scope.

Lemma bits_of_length w n : List.length (bits_of w n) = w.
Proof. revert n; induction w as [|w IH]; intros n; cbn [bits_of List.length]; [reflexivity|]. rewrite IH. reflexivity. Qed.

Lemma of_bits_bits_of w n : n < 2 ^ N.of_nat w -> of_bits (bits_of w n) = n.
Proof.
  revert n. induction w as [|w IH]; intros n Hn.
  - cbn in *. lia.
  - cbn [bits_of of_bits]. rewrite IH.
    + pose proof (N.div2_odd n) as H. unfold N.b2n in H. destruct (N.odd n); lia.
    + rewrite Nat2N.inj_succ, N.pow_succ_r' in Hn. rewrite N.div2_div.
      apply N.div_lt_upper_bound; lia.
Qed.

Lemma bits_of_of_bits l : bits_of (List.length l) (of_bits l) = l.
Proof.
  induction l as [|b l IH]; [reflexivity|]. cbn [List.length bits_of of_bits].
  assert (E1 : N.odd ((if b then 1 else 0) + 2 * of_bits l) = b).
  { rewrite N.odd_add_mul_2. destruct b; reflexivity. }
  assert (E2 : N.div2 ((if b then 1 else 0) + 2 * of_bits l) = of_bits l).
  { rewrite N.div2_div. destruct b.
    - replace (1 + 2 * of_bits l) with (1 + of_bits l * 2) by lia.
      rewrite N.div_add by lia. reflexivity.
    - rewrite N.add_0_l, N.mul_comm, N.div_mul by lia. reflexivity. }
  rewrite E1, E2, IH. reflexivity.
Qed.

Lemma chunks_flat_map {A} (f : A -> list bool) k (xs : list A) pad fuel :
  (0 < k)%nat -> (forall x, List.length (f x) = k) -> (List.length pad < k)%nat -> (List.length xs <= fuel)%nat ->
  chunks (S fuel) k (flat_map f xs ++ pad) = map f xs.
Proof.
  intros Hk Hf Hp. revert fuel. induction xs as [|x xs IH]; intros fuel Hfu.
  - cbn [flat_map map app chunks]. destruct (Nat.leb_spec k (List.length pad)); [lia|reflexivity].
  - destruct fuel as [|fuel]; [cbn in Hfu; lia|].
    cbn [flat_map map]. rewrite <- app_assoc.
    change (chunks (S (S fuel)) k (f x ++ flat_map f xs ++ pad))
      with (if Nat.leb k (List.length (f x ++ flat_map f xs ++ pad))
            then firstn k (f x ++ flat_map f xs ++ pad) :: chunks (S fuel) k (skipn k (f x ++ flat_map f xs ++ pad))
            else []).
    rewrite app_length, Hf.
    destruct (Nat.leb_spec k (k + List.length (flat_map f xs ++ pad))); [|lia].
    rewrite <- (Hf x) at 1 3.
    rewrite firstn_app, Nat.sub_diag, firstn_all, firstn_O, app_nil_r.
    rewrite skipn_app, Nat.sub_diag, skipn_all, skipn_O. cbn [app].
    f_equal. apply IH. cbn in Hfu; lia.
Qed.

Lemma chunks_exact k l fuel : (0 < k)%nat -> (List.length l < fuel)%nat ->
  (exists m, List.length l = (m * k)%nat) -> List.concat (chunks fuel k l) = l.
Proof.
  intros Hk. revert l. induction fuel as [|fuel IH]; intros l Hl [m Hm]; [lia|].
  cbn [chunks]. destruct (Nat.leb_spec k (List.length l)).
  - cbn [List.concat]. rewrite IH.
    + apply firstn_skipn.
    + rewrite skipn_length. lia.
    + rewrite skipn_length. destruct m; [cbn in Hm; lia|]. exists m. cbn in Hm. lia.
  - destruct m; [cbn in Hm; destruct l; [reflexivity|cbn in Hm; lia]|]. cbn in Hm. lia.
Qed.

Lemma chunks_lengths k l fuel : Forall (fun c => List.length c = k) (chunks fuel k l).
Proof.
  revert l; induction fuel as [|fuel IH]; intros l; cbn [chunks]; [constructor|].
  destruct (Nat.leb_spec k (List.length l)); constructor; auto. rewrite firstn_length. lia.
Qed.

Lemma flat_map_bits_of_bits (cs : list (list bool)) :
  Forall (fun c => List.length c = 8%nat) cs -> flat_map (bits_of 8) (map of_bits cs) = List.concat cs.
Proof.
  induction 1 as [|c cs Hc _ IH]; [reflexivity|]. cbn [map flat_map List.concat]. rewrite IH. f_equal.
  rewrite <- Hc. apply bits_of_of_bits.
Qed.

Lemma septet_bits_length ss : List.length (septet_bits ss) = (7 * List.length ss)%nat.
Proof.
  unfold septet_bits. induction ss as [|s ss IH]; [reflexivity|].
  cbn [flat_map]. rewrite app_length, bits_of_length, IH. cbn [List.length]. lia.
Qed.

(* Core round trip: septets < 128, fewer than 7 spare bits *)
Theorem unpack_pack ss :
  Forall (fun s => s < 128) ss ->
  (padlen (7 * List.length ss) < 7)%nat ->
  unpack_octets (pack_bits (septet_bits ss)) = ss.
Proof.
  intros Hs Hpad. unfold unpack_octets, pack_bits. cbv zeta.
  set (bs := septet_bits ss).
  assert (Lbs : List.length bs = (7 * List.length ss)%nat) by apply septet_bits_length.
  set (padded := bs ++ repeat false (padlen (List.length bs))).
  assert (Lp : exists m, List.length padded = (m * 8)%nat).
  { unfold padded. rewrite app_length, repeat_length. unfold padlen.
    exists ((List.length bs + (8 - List.length bs mod 8) mod 8) / 8)%nat.
    pose proof (Nat.div_mod (List.length bs) 8). pose proof (Nat.mod_upper_bound (List.length bs) 8).
    assert ((List.length bs + (8 - List.length bs mod 8) mod 8) mod 8 = 0)%nat.
    { destruct (Nat.eq_dec (List.length bs mod 8) 0) as [E|E].
      - rewrite E. cbn. rewrite Nat.add_0_r. exact E.
      - rewrite (Nat.mod_small (8 - List.length bs mod 8)) by lia.
        rewrite (Nat.div_mod (List.length bs) 8) at 1 by lia.
        replace (8 * (List.length bs / 8) + List.length bs mod 8 + (8 - List.length bs mod 8))%nat
          with ((List.length bs / 8 + 1) * 8)%nat by lia.
        apply Nat.mod_mul; lia. }
    pose proof (Nat.div_mod (List.length bs + (8 - List.length bs mod 8) mod 8) 8). lia. }
  rewrite flat_map_bits_of_bits by apply chunks_lengths.
  rewrite chunks_exact; [|lia|lia|exact Lp].
  unfold padded, bs, septet_bits.
  rewrite chunks_flat_map.
  - rewrite map_map. rewrite <- (map_id ss) at 2. apply map_ext_in. intros s Hin.
    apply (of_bits_bits_of 7). rewrite Forall_forall in Hs. apply Hs in Hin. cbn. lia.
  - lia.
  - intros; apply bits_of_length.
  - rewrite repeat_length. fold (septet_bits ss). fold bs. rewrite Lbs. exact Hpad.
  - rewrite app_length. fold (septet_bits ss). fold bs. rewrite Lbs. lia.
Qed.
