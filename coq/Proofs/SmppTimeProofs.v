(* Proofs about the model of pdu/time.go (Model/SmppTime.v) against the
   reading of SMPP v5 4.7.23.4/5 in Spec/SmppTimeSpec.v.

   Method: the calendar part is the kernel sweep of Proofs/CivilProofs.v (all
   36,525 days / all real dates of 2000..2099); two-digit fields are settled by
   sweeps over 0..99 / 0..9; the rest is linear arithmetic with div/mod
   ([lia] with [Z.div_mod_to_equations]). *)
From V Require Import Model.SmppTime Spec.SmppTimeSpec Proofs.CivilProofs.
From Coq Require Import ZifyN ZifyNat ZifyBool.
Local Open Scope Z_scope.

Ltac zdm := Z.div_mod_to_equations; lia.

(* ------------------------------------------------------------------ digits *)
Definition digit (n : Z) : N := (48 + Z.to_N n)%N.
Definition two (n : Z) : list N := [digit (n / 10); digit (n mod 10)].

(* the sixteen positions, from field values *)
Definition abs_string (yy mo dd hh mi ss t nn : Z) (p : N) : list N :=
  two yy ++ two mo ++ two dd ++ two hh ++ two mi ++ two ss ++ [digit t] ++ two nn ++ [p].

Lemma beq_bytes_true a b : beq_bytes a b = true -> a = b.
Proof.
  revert b; induction a as [|x a IH]; intros [|y b] H; cbn [beq_bytes] in H; try discriminate; auto.
  apply andb_true_iff in H. destruct H as [H1 H2]. apply N.eqb_eq in H1. subst. f_equal. auto.
Qed.

Definition ok_two (n : Z) : bool :=
  beq_bytes (fmt_02d n) (two n) && (parse_int (two n) =? n) &&
  match dig2 (digit (n / 10)) (digit (n mod 10)) with Some v => v =? n | None => false end.
Lemma sweep_two : forallb ok_two (zrange 100 0) = true.
Proof. vm_cast_no_check (eq_refl true). Qed.

Lemma two_facts n : 0 <= n < 100 ->
  fmt_02d n = two n /\ parse_int [digit (n / 10); digit (n mod 10)] = n /\
  dig2 (digit (n / 10)) (digit (n mod 10)) = Some n.
Proof.
  intros Hn. pose proof sweep_two as S. rewrite forallb_forall in S.
  assert (Hi : In n (zrange 100 0)) by (apply zrange_in; lia).
  specialize (S n Hi). unfold ok_two in S. rewrite !andb_true_iff in S. destruct S as [[S1 S2] S3].
  apply beq_bytes_true in S1. apply Z.eqb_eq in S2.
  destruct (dig2 (digit (n / 10)) (digit (n mod 10))) as [v|]; [|discriminate S3].
  apply Z.eqb_eq in S3. subst v. auto.
Qed.

Definition ok_one (n : Z) : bool :=
  beq_bytes (fmt_d n) [digit n] && (parse_int [digit n] =? n) &&
  match dig (digit n) with Some v => v =? n | None => false end.
Lemma sweep_one : forallb ok_one (zrange 10 0) = true.
Proof. vm_cast_no_check (eq_refl true). Qed.

Lemma one_facts n : 0 <= n < 10 ->
  fmt_d n = [digit n] /\ parse_int [digit n] = n /\ dig (digit n) = Some n.
Proof.
  intros Hn. pose proof sweep_one as S. rewrite forallb_forall in S.
  assert (Hi : In n (zrange 10 0)) by (apply zrange_in; lia).
  specialize (S n Hi). unfold ok_one in S. rewrite !andb_true_iff in S. destruct S as [[S1 S2] S3].
  apply beq_bytes_true in S1. apply Z.eqb_eq in S2.
  destruct (dig (digit n)) as [v|]; [|discriminate S3].
  apply Z.eqb_eq in S3. subst v. auto.
Qed.

(* a character the standard's reader accepts is the digit of its value *)
Lemma dig_inv c v : dig c = Some v -> 0 <= v < 10 /\ c = digit v.
Proof.
  unfold dig, digit. destruct ((48 <=? c) && (c <=? 57))%N eqn:E; [|discriminate].
  intros H. assert (Hv : v = Z.of_N c - 48) by congruence. subst v. clear H. apply andb_true_iff in E. destruct E as [E1 E2].
  apply N.leb_le in E1. apply N.leb_le in E2. split; lia.
Qed.
Lemma dig2_inv a b v : dig2 a b = Some v -> 0 <= v < 100 /\ a = digit (v / 10) /\ b = digit (v mod 10).
Proof.
  unfold dig2. destruct (dig a) as [x|] eqn:Ea; [|discriminate]. destruct (dig b) as [y|] eqn:Eb; [|discriminate].
  intros H. assert (Hv : v = 10 * x + y) by congruence. subst v. clear H.
  apply dig_inv in Ea. apply dig_inv in Eb. destruct Ea as [Hx ->], Eb as [Hy ->].
  split; [lia|]. split; f_equal; zdm.
Qed.

(* ------------------------------------------------------------------ fromTimeString on sixteen octets *)
Lemma from_time_string_16 a1 a2 a3 a4 a5 a6 a7 a8 a9 a10 a11 a12 a13 a14 a15 p :
  from_time_string [a1; a2; a3; a4; a5; a6; a7; a8; a9; a10; a11; a12; a13; a14; a15; p] =
  Ok ({| p_yy := parse_int [a1; a2]; p_mo := parse_int [a3; a4]; p_dd := parse_int [a5; a6];
         p_hh := parse_int [a7; a8]; p_mi := parse_int [a9; a10]; p_ss := parse_int [a11; a12];
         p_t := parse_int [a13];
         p_q := if (p =? ch_minus)%N then - parse_int [a14; a15] else parse_int [a14; a15] |}, p).
Proof. reflexivity. Qed.

Lemma from_time_string_not16 s : List.length s <> 16%nat -> from_time_string s = Ok (zero_parts, 0%N).
Proof.
  intros H. unfold from_time_string. destruct (List.length s =? 16)%nat eqn:E; [|reflexivity].
  apply Nat.eqb_eq in E. contradiction.
Qed.

Lemma length16 (s : list N) : List.length s = 16%nat ->
  exists a1 a2 a3 a4 a5 a6 a7 a8 a9 a10 a11 a12 a13 a14 a15 p,
    s = [a1; a2; a3; a4; a5; a6; a7; a8; a9; a10; a11; a12; a13; a14; a15; p].
Proof.
  intros H.
  do 16 (destruct s as [|? s]; [discriminate H|]).
  destruct s; [|discriminate H]. repeat eexists.
Qed.

(* the length test of fromTimeString keeps its slice / index expressions in range *)
Theorem from_time_string_no_panic s : from_time_string s <> Panic.
Proof.
  destruct (Nat.eq_dec (List.length s) 16) as [E|E].
  - destruct (length16 s E) as (a1&a2&a3&a4&a5&a6&a7&a8&a9&a10&a11&a12&a13&a14&a15&p&->).
    rewrite from_time_string_16. discriminate.
  - rewrite (from_time_string_not16 s E). discriminate.
Qed.

(* ------------------------------------------------------------------ strings built from field values *)
Definition in_fields (yy mo dd hh mi ss t nn : Z) : Prop :=
  0 <= yy < 100 /\ 0 <= mo < 100 /\ 0 <= dd < 100 /\ 0 <= hh < 100 /\ 0 <= mi < 100 /\
  0 <= ss < 100 /\ 0 <= t < 10 /\ 0 <= nn < 100.

(* fromTimeString reads back the field values *)
Lemma from_time_string_abs yy mo dd hh mi ss t nn p : in_fields yy mo dd hh mi ss t nn ->
  from_time_string (abs_string yy mo dd hh mi ss t nn p) =
  Ok ({| p_yy := yy; p_mo := mo; p_dd := dd; p_hh := hh; p_mi := mi; p_ss := ss; p_t := t;
         p_q := if (p =? ch_minus)%N then - nn else nn |}, p).
Proof.
  intros (Hyy & Hmo & Hdd & Hhh & Hmi & Hss & Ht & Hnn).
  unfold abs_string, two. cbn [app]. rewrite from_time_string_16.
  destruct (two_facts yy Hyy) as (_ & -> & _). destruct (two_facts mo Hmo) as (_ & -> & _).
  destruct (two_facts dd Hdd) as (_ & -> & _). destruct (two_facts hh Hhh) as (_ & -> & _).
  destruct (two_facts mi Hmi) as (_ & -> & _). destruct (two_facts ss Hss) as (_ & -> & _).
  destruct (two_facts nn Hnn) as (_ & -> & _). destruct (one_facts t Ht) as (_ & -> & _).
  reflexivity.
Qed.

(* so does the standard's reader *)
Lemma abs_fields_abs yy mo dd hh mi ss t nn p : in_fields yy mo dd hh mi ss t nn ->
  abs_fields (abs_string yy mo dd hh mi ss t nn p) =
  Some {| f_yy := yy; f_mo := mo; f_dd := dd; f_hh := hh; f_mi := mi; f_ss := ss; f_t := t; f_nn := nn; f_p := p |}.
Proof.
  intros (Hyy & Hmo & Hdd & Hhh & Hmi & Hss & Ht & Hnn).
  unfold abs_string, two. cbn [app]. unfold abs_fields.
  destruct (two_facts yy Hyy) as (_ & _ & ->). destruct (two_facts mo Hmo) as (_ & _ & ->).
  destruct (two_facts dd Hdd) as (_ & _ & ->). destruct (two_facts hh Hhh) as (_ & _ & ->).
  destruct (two_facts mi Hmi) as (_ & _ & ->). destruct (two_facts ss Hss) as (_ & _ & ->).
  destruct (two_facts nn Hnn) as (_ & _ & ->). destruct (one_facts t Ht) as (_ & _ & ->).
  reflexivity.
Qed.

(* every string the standard's reader accepts is built from its field values *)
Lemma abs_fields_inv s f : abs_fields s = Some f ->
  s = abs_string (f_yy f) (f_mo f) (f_dd f) (f_hh f) (f_mi f) (f_ss f) (f_t f) (f_nn f) (f_p f) /\
  in_fields (f_yy f) (f_mo f) (f_dd f) (f_hh f) (f_mi f) (f_ss f) (f_t f) (f_nn f).
Proof.
  intros H.
  do 16 (destruct s as [|? s]; [discriminate H|]).
  destruct s; [|discriminate H].
  unfold abs_fields in H.
  destruct (dig2 n n0) as [yy|] eqn:E1; [|discriminate H].
  destruct (dig2 n1 n2) as [mo|] eqn:E2; [|discriminate H].
  destruct (dig2 n3 n4) as [dd|] eqn:E3; [|discriminate H].
  destruct (dig2 n5 n6) as [hh|] eqn:E4; [|discriminate H].
  destruct (dig2 n7 n8) as [mi|] eqn:E5; [|discriminate H].
  destruct (dig2 n9 n10) as [ss|] eqn:E6; [|discriminate H].
  destruct (dig n11) as [t|] eqn:E7; [|discriminate H].
  destruct (dig2 n12 n13) as [nn|] eqn:E8; [|discriminate H].
  assert (Hf : f = {| f_yy := yy; f_mo := mo; f_dd := dd; f_hh := hh; f_mi := mi; f_ss := ss;
                      f_t := t; f_nn := nn; f_p := n14 |}) by congruence.
  subst f. clear H. cbn [f_yy f_mo f_dd f_hh f_mi f_ss f_t f_nn f_p].
  apply dig2_inv in E1, E2, E3, E4, E5, E6, E8. apply dig_inv in E7.
  destruct E1 as (? & -> & ->), E2 as (? & -> & ->), E3 as (? & -> & ->), E4 as (? & -> & ->),
           E5 as (? & -> & ->), E6 as (? & -> & ->), E8 as (? & -> & ->), E7 as (? & ->).
  split; [reflexivity|]. unfold in_fields. auto 10.
Qed.

(* Sprintf of field values in range prints the sixteen positions *)
Lemma time_string_of_parts_abs p :
  in_fields (p_yy p) (p_mo p) (p_dd p) (p_hh p) (p_mi p) (p_ss p) (p_t p) (Z.abs (p_q p)) ->
  time_string_of_parts p =
  abs_string (p_yy p) (p_mo p) (p_dd p) (p_hh p) (p_mi p) (p_ss p) (p_t p) (Z.abs (p_q p))
             (if p_q p <? 0 then ch_minus else ch_plus).
Proof.
  intros (Hyy & Hmo & Hdd & Hhh & Hmi & Hss & Ht & Hnn).
  unfold time_string_of_parts, abs_string.
  destruct (two_facts _ Hyy) as (-> & _ & _). destruct (two_facts _ Hmo) as (-> & _ & _).
  destruct (two_facts _ Hdd) as (-> & _ & _). destruct (two_facts _ Hhh) as (-> & _ & _).
  destruct (two_facts _ Hmi) as (-> & _ & _). destruct (two_facts _ Hss) as (-> & _ & _).
  destruct (two_facts _ Hnn) as (-> & _ & _). destruct (one_facts _ Ht) as (-> & _ & _).
  reflexivity.
Qed.

(* ------------------------------------------------------------------ time of day, local day *)
Lemma tod_split r : 0 <= r < 864000 ->
  0 <= r / 10 / 3600 < 24 /\ 0 <= (r / 10) mod 3600 / 60 < 60 /\ 0 <= (r / 10) mod 60 < 60 /\ 0 <= r mod 10 < 10 /\
  r / 10 / 3600 * 36000 + (r / 10) mod 3600 / 60 * 600 + (r / 10) mod 60 * 10 + r mod 10 = r.
Proof. intros H. zdm. Qed.

Lemma tod_join hh mi ss t : 0 <= hh < 24 -> 0 <= mi < 60 -> 0 <= ss < 60 -> 0 <= t < 10 ->
  let r := hh * 36000 + mi * 600 + ss * 10 + t in
  0 <= r < 864000 /\ r / 10 / 3600 = hh /\ (r / 10) mod 3600 / 60 = mi /\ (r / 10) mod 60 = ss /\ r mod 10 = t.
Proof. intros Hh Hm Hs Ht r. subst r. zdm. Qed.

Lemma local_split n r : 0 <= r < 864000 ->
  (n * 864000 + r) / 864000 = n /\ (n * 864000 + r) mod 864000 = r.
Proof. intros H. zdm. Qed.

Lemma zero_instant_val : zero_instant = -630822816000.
Proof. reflexivity. Qed.

(* Time.String of an instant whose local time is day n of the 2000 count plus r tenths *)
Lemma time_format_local t q n r y m d :
  t + q * 9000 = n * 864000 + r -> 0 <= r < 864000 -> civil2000 n = (y, m, d) -> t <> zero_instant ->
  time_format (t, q) =
  Ok (time_string_of_parts {| p_yy := y - 2000; p_mo := m; p_dd := d;
                              p_hh := r / 10 / 3600; p_mi := (r / 10) mod 3600 / 60; p_ss := (r / 10) mod 60;
                              p_t := r mod 10; p_q := q |}).
Proof.
  intros Hl Hr Hc Hz. unfold time_format.
  destruct (t =? zero_instant) eqn:E; [apply Z.eqb_eq in E; contradiction|].
  f_equal. f_equal. unfold parts_of_instant, tenths_per_quarter, tenths_per_day. cbv zeta.
  rewrite Hl. destruct (local_split n r Hr) as [-> ->]. rewrite Hc. reflexivity.
Qed.

(* ------------------------------------------------------------------ Time.From on sixteen positions *)
Lemma time_parse_abs yy mo dd hh mi ss t nn p : in_fields yy mo dd hh mi ss t nn ->
  ((p =? ch_plus) || (p =? ch_minus))%N = true ->
  time_parse (abs_string yy mo dd hh mi ss t nn p) =
  Ok (instant_of_parts {| p_yy := yy; p_mo := mo; p_dd := dd; p_hh := hh; p_mi := mi; p_ss := ss; p_t := t;
                          p_q := if (p =? ch_minus)%N then - nn else nn |}).
Proof.
  intros Hf Hp. pose proof (from_time_string_abs yy mo dd hh mi ss t nn p Hf) as E.
  unfold time_parse. remember (abs_string yy mo dd hh mi ss t nn p) as s eqn:Hs.
  destruct s as [|c s]; [discriminate Hs|]. rewrite E. cbn [obind]. rewrite Hp. reflexivity.
Qed.

(* the sign characters *)
Lemma sign_cases p : ((p =? sym_plus) || (p =? sym_minus))%N = true -> p = ch_plus \/ p = ch_minus.
Proof.
  intros H. apply orb_true_iff in H. destruct H as [H|H]; apply N.eqb_eq in H; [left|right]; exact H.
Qed.

(* ------------------------------------------------------------------ C20: format then parse *)
Theorem time_fmt_parse t q : time_domain t q ->
  exists s, time_format (t, q) = Ok s /\ List.length s = 16%nat /\ valid_abs_time s = true /\
            abs_denotes s = Some (t, q) /\ time_parse s = Ok (t, q).
Proof.
  intros [Hq Hl]. unfold days_2000_2099 in Hl.
  set (l := t + q * 9000) in *.
  assert (Hn : 0 <= l / 864000 < days_2000_2099) by (unfold days_2000_2099; zdm).
  assert (Hr : 0 <= l mod 864000 < 864000) by zdm.
  assert (Hlr : t + q * 9000 = l / 864000 * 864000 + l mod 864000) by (fold l; zdm).
  set (n := l / 864000) in *. set (r := l mod 864000) in *.
  destruct (civil_of_day n Hn) as (y & m & d & Hc & Hg & Hd & Hy & Hv).
  destruct (valid_date_bounds _ _ _ Hv) as [Hm Hdd].
  destruct (tod_split r Hr) as (Hhh & Hmi & Hss & Ht & Hsum).
  assert (Hz : t <> zero_instant) by (rewrite zero_instant_val; subst l; lia).
  pose proof (time_format_local t q n r y m d Hlr Hr Hc Hz) as Hfmt.
  set (hh := r / 10 / 3600) in *. set (mi := (r / 10) mod 3600 / 60) in *.
  set (ss := (r / 10) mod 60) in *. set (tt := r mod 10) in *.
  assert (Hf : in_fields (y - 2000) m d hh mi ss tt (Z.abs q)) by (unfold in_fields; lia).
  rewrite time_string_of_parts_abs in Hfmt by exact Hf.
  cbn [p_yy p_mo p_dd p_hh p_mi p_ss p_t p_q] in Hfmt.
  set (p := if q <? 0 then ch_minus else ch_plus) in *.
  assert (Hp : ((p =? ch_plus) || (p =? ch_minus))%N = true) by (subst p; destruct (q <? 0); reflexivity).
  assert (Hpq : (if (p =? ch_minus)%N then - Z.abs q else Z.abs q) = q).
  { subst p. destruct (q <? 0) eqn:E; cbn; [apply Z.ltb_lt in E|apply Z.ltb_ge in E]; lia. }
  exists (abs_string (y - 2000) m d hh mi ss tt (Z.abs q) p).
  split; [exact Hfmt|]. split; [reflexivity|].
  assert (Hy' : 2000 + (y - 2000) = y) by lia.
  split; [|split].
  - unfold valid_abs_time. rewrite abs_fields_abs by exact Hf.
    unfold valid_abs_fields. cbn [f_yy f_mo f_dd f_hh f_mi f_ss f_t f_nn f_p]. rewrite Hy', Hv.
    replace (hh <=? 23) with true by (symmetry; apply Z.leb_le; lia).
    replace (mi <=? 59) with true by (symmetry; apply Z.leb_le; lia).
    replace (ss <=? 59) with true by (symmetry; apply Z.leb_le; lia).
    replace (Z.abs q <=? 48) with true by (symmetry; apply Z.leb_le; lia).
    exact Hp.
  - unfold abs_denotes. rewrite abs_fields_abs by exact Hf.
    assert (Hvf : valid_abs_fields {| f_yy := y - 2000; f_mo := m; f_dd := d; f_hh := hh; f_mi := mi; f_ss := ss;
                                      f_t := tt; f_nn := Z.abs q; f_p := p |} = true).
    { unfold valid_abs_fields. cbn [f_yy f_mo f_dd f_hh f_mi f_ss f_t f_nn f_p]. rewrite Hy', Hv.
      replace (hh <=? 23) with true by (symmetry; apply Z.leb_le; lia).
      replace (mi <=? 59) with true by (symmetry; apply Z.leb_le; lia).
      replace (ss <=? 59) with true by (symmetry; apply Z.leb_le; lia).
      replace (Z.abs q <=? 48) with true by (symmetry; apply Z.leb_le; lia).
      exact Hp. }
    rewrite Hvf. unfold fields_denote, f_offset. cbn [f_yy f_mo f_dd f_hh f_mi f_ss f_t f_nn f_p].
    change sym_minus with ch_minus. rewrite Hpq, Hy', Hd. f_equal. f_equal. lia.
  - rewrite time_parse_abs by assumption. unfold instant_of_parts.
    cbn [p_yy p_mo p_dd p_hh p_mi p_ss p_t p_q]. rewrite Hpq, Hy', Hg.
    unfold tenths_per_day, tenths_per_quarter. f_equal. f_equal. lia.
Qed.

(* ------------------------------------------------------------------ C20: parse then format *)
(* what Time.From / Time.String do with a valid absolute time string; the sign
   written back is the sign of the offset VALUE *)
Lemma time_parse_fmt_gen s f : abs_fields s = Some f -> valid_abs_fields f = true ->
  exists v, time_parse s = Ok v /\ v = fields_denote f /\ time_domain (fst v) (snd v) /\
    time_format v = Ok (abs_string (f_yy f) (f_mo f) (f_dd f) (f_hh f) (f_mi f) (f_ss f) (f_t f) (f_nn f)
                                   (if f_offset f <? 0 then ch_minus else ch_plus)).
Proof.
  intros Hs Hv. destruct (abs_fields_inv s f Hs) as [-> Hf].
  destruct f as [yy mo dd hh mi ss t nn p]. cbn [f_yy f_mo f_dd f_hh f_mi f_ss f_t f_nn f_p] in *.
  unfold valid_abs_fields in Hv. cbn [f_yy f_mo f_dd f_hh f_mi f_ss f_t f_nn f_p] in Hv.
  rewrite !andb_true_iff in Hv. destruct Hv as [[[[[Hd Hhh] Hmi] Hss] Hnn] Hp].
  apply Z.leb_le in Hhh, Hmi, Hss, Hnn.
  destruct Hf as (Hyy & Hmo & Hdd & Hhh' & Hmi' & Hss' & Ht & Hnn').
  assert (Hp' : ((p =? ch_plus) || (p =? ch_minus))%N = true) by exact Hp.
  rewrite time_parse_abs by (unfold in_fields; auto 10).
  eexists. split; [reflexivity|].
  unfold fields_denote, f_offset, instant_of_parts, tenths_per_day, tenths_per_quarter.
  cbn [f_yy f_mo f_dd f_hh f_mi f_ss f_t f_nn f_p p_yy p_mo p_dd p_hh p_mi p_ss p_t p_q fst snd].
  change sym_minus with ch_minus.
  set (q := if (p =? ch_minus)%N then - nn else nn).
  assert (Hq : -48 <= q <= 48) by (subst q; destruct (p =? ch_minus)%N; lia).
  destruct (day_of_civil (2000 + yy) mo dd ltac:(lia) Hd) as (Hc & Hg & Hn).
  rewrite Hg. set (n := days2000 (2000 + yy) mo dd) in *.
  destruct (tod_join hh mi ss t ltac:(lia) ltac:(lia) ltac:(lia) Ht) as (Hr & Eh & Em & Es & Et).
  set (r := hh * 36000 + mi * 600 + ss * 10 + t) in *.
  split; [f_equal; lia|].
  unfold days_2000_2099 in Hn.
  split; [unfold time_domain, days_2000_2099; split; [exact Hq|lia]|].
  assert (Hl : n * 864000 + hh * 36000 + mi * 600 + ss * 10 + t - q * 9000 + q * 9000 = n * 864000 + r)
    by (subst r; lia).
  assert (Hz : n * 864000 + hh * 36000 + mi * 600 + ss * 10 + t - q * 9000 <> zero_instant)
    by (rewrite zero_instant_val; lia).
  rewrite (time_format_local _ q n r _ _ _ Hl Hr Hc Hz).
  rewrite Eh, Em, Es, Et. f_equal.
  rewrite time_string_of_parts_abs;
    cbn [p_yy p_mo p_dd p_hh p_mi p_ss p_t p_q];
    replace (2000 + yy - 2000) with yy by lia.
  - f_equal. subst q. destruct (p =? ch_minus)%N; lia.
  - unfold in_fields. repeat split; try lia.
Qed.

Theorem time_parse_fmt s : valid_abs_time s = true -> neg_zero_offset s = false ->
  exists v, time_parse s = Ok v /\ abs_denotes s = Some v /\ time_domain (fst v) (snd v) /\ time_format v = Ok s.
Proof.
  unfold valid_abs_time, neg_zero_offset, abs_denotes. intros Hv Hnz.
  destruct (abs_fields s) as [f|] eqn:Hs; [|discriminate Hv].
  destruct (time_parse_fmt_gen s f Hs Hv) as (v & Hp & Hden & Hdom & Hfmt).
  exists v. rewrite Hv. split; [exact Hp|]. split; [f_equal; symmetry; exact Hden|]. split; [exact Hdom|].
  rewrite Hfmt. f_equal.
  destruct (abs_fields_inv s f Hs) as [-> Hf]. f_equal.
  (* the sign: "-" is written back iff the offset value is negative *)
  unfold valid_abs_fields in Hv. rewrite !andb_true_iff in Hv. destruct Hv as [_ Hsign].
  destruct Hf as (_ & _ & _ & _ & _ & _ & _ & Hnn).
  unfold f_offset. destruct (sign_cases _ Hsign) as [E|E]; rewrite E in *.
  - change (ch_plus =? sym_minus)%N with false. cbv iota.
    destruct (f_nn f <? 0) eqn:E0; [apply Z.ltb_lt in E0; lia|reflexivity].
  - change (ch_minus =? sym_minus)%N with true in *. cbv iota. rewrite andb_true_r in Hnz.
    apply Z.eqb_neq in Hnz.
    destruct (- f_nn f <? 0) eqn:E0; [reflexivity|apply Z.ltb_ge in E0; lia].
Qed.

(* D29: exactly the strings with nn = 00 and sign "-" come back with "+" *)
Theorem time_neg_zero_class s : valid_abs_time s = true -> neg_zero_offset s = true ->
  exists v s', time_parse s = Ok v /\ time_format v = Ok s' /\
               s' = firstn 15 s ++ [sym_plus] /\ s' <> s.
Proof.
  unfold valid_abs_time, neg_zero_offset. intros Hv Hnz.
  destruct (abs_fields s) as [f|] eqn:Hs; [|discriminate Hv].
  destruct (time_parse_fmt_gen s f Hs Hv) as (v & Hp & _ & _ & Hfmt).
  apply andb_true_iff in Hnz. destruct Hnz as [Hz Hm]. apply Z.eqb_eq in Hz. apply N.eqb_eq in Hm.
  exists v. eexists. split; [exact Hp|]. split; [exact Hfmt|].
  destruct (abs_fields_inv s f Hs) as [-> _].
  unfold f_offset. rewrite Hm, Hz. change (sym_minus =? sym_minus)%N with true. cbv iota.
  change (- 0 <? 0) with false. cbv iota.
  split; [reflexivity|]. unfold abs_string, two. cbn [app]. intros H.
  do 15 (apply (f_equal (@tl N)) in H; cbn [tl] in H). discriminate H.
Qed.

Theorem time_neg_zero_refuted :
  exists s, valid_abs_time s = true /\
            exists v s', time_parse s = Ok v /\ time_format v = Ok s' /\ s' <> s.
Proof.
  (* "020610233429000-" : 2002-06-10T23:34:29.0 at offset -00 *)
  exists [48; 50; 48; 54; 49; 48; 50; 51; 51; 52; 50; 57; 48; 48; 48; 45]%N.
  split; [reflexivity|]. eexists. eexists. split; [reflexivity|]. split; [vm_compute; reflexivity|]. discriminate.
Qed.

(* ------------------------------------------------------------------ C20: relative periods *)
Lemma dur_split d : 10 <= d < 100 * 8760 * 36000 ->
  let y := d / t_year in let r1 := d mod t_year in
  let mo := r1 / t_month in let r2 := r1 mod t_month in
  let dy := r2 / t_day in let r3 := r2 mod t_day in
  let h := r3 / t_hour in let r4 := r3 mod t_hour in
  let mi := r4 / t_min in let r5 := r4 mod t_min in
  let s := r5 / t_sec in let r6 := r5 mod t_sec in
  0 <= y < 100 /\ 0 <= mo <= 12 /\ 0 <= dy <= 29 /\ 0 <= h <= 23 /\ 0 <= mi <= 59 /\ 0 <= s <= 59 /\ 0 <= r6 < 10 /\
  y * t_year + mo * t_month + dy * t_day + h * t_hour + mi * t_min + s * t_sec + r6 = d.
Proof.
  intros H. unfold t_year, t_month, t_day, t_hour, t_min, t_sec. cbv zeta.
  change (8760 * 36000) with 315360000. change (720 * 36000) with 25920000. change (24 * 36000) with 864000.
  zdm.
Qed.

Lemma dur_parse_abs yy mo dd hh mi ss t nn : in_fields yy mo dd hh mi ss t nn ->
  dur_parse (abs_string yy mo dd hh mi ss t nn ch_R) =
  Ok (yy * t_year + mo * t_month + dd * t_day + hh * t_hour + mi * t_min + ss * t_sec + t + 0 * nn).
Proof.
  intros Hf. pose proof (from_time_string_abs yy mo dd hh mi ss t nn ch_R Hf) as E.
  unfold dur_parse. remember (abs_string yy mo dd hh mi ss t nn ch_R) as s eqn:Hs.
  destruct s as [|c s]; [discriminate Hs|]. rewrite E. cbn [obind]. reflexivity.
Qed.

Theorem dur_fmt_parse d : dur_domain d ->
  exists s, dur_format d = Ok s /\ List.length s = 16%nat /\ valid_rel_time s = true /\
            rel_denotes s = Some d /\ dur_parse s = Ok d.
Proof.
  unfold dur_domain. intros Hd. pose proof (dur_split d Hd) as H. cbv zeta in H.
  unfold dur_format. destruct (d <? t_sec) eqn:E; [apply Z.ltb_lt in E; unfold t_sec in E; lia|]. clear E.
  cbv zeta.
  set (y := d / t_year) in *. set (r1 := d mod t_year) in *.
  set (mo := r1 / t_month) in *. set (r2 := r1 mod t_month) in *.
  set (dy := r2 / t_day) in *. set (r3 := r2 mod t_day) in *.
  set (h := r3 / t_hour) in *. set (r4 := r3 mod t_hour) in *.
  set (mi := r4 / t_min) in *. set (r5 := r4 mod t_min) in *.
  set (s := r5 / t_sec) in *. set (r6 := r5 mod t_sec) in *.
  destruct H as (Hy & Hmo & Hdy & Hh & Hmi & Hs & Hr & Hsum).
  clearbody y r1 mo r2 dy r3 h r4 mi r5 s r6.
  unfold t_year, t_month, t_day, t_hour, t_min, t_sec in Hsum.
  assert (Hf : in_fields y mo dy h mi s r6 0) by (unfold in_fields; lia).
  exists (abs_string y mo dy h mi s r6 0 ch_R).
  split.
  { f_equal. unfold abs_string.
    destruct (two_facts y ltac:(lia)) as (-> & _ & _). destruct (two_facts mo ltac:(lia)) as (-> & _ & _).
    destruct (two_facts dy ltac:(lia)) as (-> & _ & _). destruct (two_facts h ltac:(lia)) as (-> & _ & _).
    destruct (two_facts mi ltac:(lia)) as (-> & _ & _). destruct (two_facts s ltac:(lia)) as (-> & _ & _).
    destruct (one_facts r6 Hr) as (-> & _ & _). reflexivity. }
  split; [reflexivity|].
  assert (Hvf : valid_rel_fields {| f_yy := y; f_mo := mo; f_dd := dy; f_hh := h; f_mi := mi; f_ss := s;
                                    f_t := r6; f_nn := 0; f_p := ch_R |} = true).
  { unfold valid_rel_fields. cbn [f_yy f_mo f_dd f_hh f_mi f_ss f_t f_nn f_p].
    replace (mo <=? 12) with true by (symmetry; apply Z.leb_le; lia).
    replace (dy <=? 31) with true by (symmetry; apply Z.leb_le; lia).
    replace (h <=? 23) with true by (symmetry; apply Z.leb_le; lia).
    replace (mi <=? 59) with true by (symmetry; apply Z.leb_le; lia).
    replace (s <=? 59) with true by (symmetry; apply Z.leb_le; lia).
    reflexivity. }
  split; [|split].
  - unfold valid_rel_time. rewrite abs_fields_abs by exact Hf. exact Hvf.
  - unfold rel_denotes. rewrite abs_fields_abs by exact Hf. rewrite Hvf.
    cbn [f_yy f_mo f_dd f_hh f_mi f_ss f_t f_nn f_p]. f_equal. lia.
  - rewrite dur_parse_abs by exact Hf. f_equal.
    unfold t_year, t_month, t_day, t_hour, t_min, t_sec. lia.
Qed.

(* ------------------------------------------------------------------ rejected strings, no panic *)
Theorem time_parse_no_panic s : time_parse s <> Panic.
Proof.
  unfold time_parse. destruct s as [|c s]; [discriminate|].
  pose proof (from_time_string_no_panic (c :: s)) as H.
  destruct (from_time_string (c :: s)) as [[p sym]|e|]; cbn [obind]; [|discriminate|contradiction].
  destruct ((sym =? ch_plus) || (sym =? ch_minus))%N; discriminate.
Qed.

Theorem dur_parse_no_panic s : dur_parse s <> Panic.
Proof.
  unfold dur_parse. destruct s as [|c s]; [discriminate|].
  pose proof (from_time_string_no_panic (c :: s)) as H.
  destruct (from_time_string (c :: s)) as [[p sym]|e|]; cbn [obind]; [|discriminate|contradiction].
  destruct (sym =? ch_R)%N; discriminate.
Qed.

(* which strings Time.From / Duration.From accept: the empty one, and sixteen
   octets ending in the right symbol (the fifteen others are not checked) *)
Definition accepted_shape (syms : list N) (s : list N) : bool :=
  match s with
  | [] => true
  | _ => (List.length s =? 16)%nat &&
         match nth_error s 15 with Some p => existsb (N.eqb p) syms | None => false end
  end.

Theorem time_parse_accepts s : is_ok (time_parse s) = accepted_shape [ch_plus; ch_minus] s.
Proof.
  destruct s as [|c s]; [reflexivity|].
  destruct (Nat.eq_dec (List.length (c :: s)) 16) as [E|E].
  - destruct (length16 _ E) as (a1&a2&a3&a4&a5&a6&a7&a8&a9&a10&a11&a12&a13&a14&a15&p&Hs).
    rewrite Hs. unfold time_parse. rewrite from_time_string_16. cbn [obind].
    unfold accepted_shape. cbn [List.length Nat.eqb nth_error existsb andb].
    rewrite orb_false_r. destruct ((p =? ch_plus) || (p =? ch_minus))%N; reflexivity.
  - unfold time_parse. rewrite (from_time_string_not16 _ E). cbn [obind].
    unfold accepted_shape. apply Nat.eqb_neq in E. rewrite E. reflexivity.
Qed.

Theorem dur_parse_accepts s : is_ok (dur_parse s) = accepted_shape [ch_R] s.
Proof.
  destruct s as [|c s]; [reflexivity|].
  destruct (Nat.eq_dec (List.length (c :: s)) 16) as [E|E].
  - destruct (length16 _ E) as (a1&a2&a3&a4&a5&a6&a7&a8&a9&a10&a11&a12&a13&a14&a15&p&Hs).
    rewrite Hs. unfold dur_parse. rewrite from_time_string_16. cbn [obind].
    unfold accepted_shape. cbn [List.length Nat.eqb nth_error existsb andb].
    rewrite orb_false_r. destruct (p =? ch_R)%N; reflexivity.
  - unfold dur_parse. rewrite (from_time_string_not16 _ E). cbn [obind].
    unfold accepted_shape. apply Nat.eqb_neq in E. rewrite E. reflexivity.
Qed.

(* every rejection is ErrUnparseableTime *)
Theorem time_parse_err s e : time_parse s = Err e -> e = EDecode.
Proof.
  unfold time_parse. destruct s as [|c s]; [discriminate|].
  pose proof (from_time_string_no_panic (c :: s)) as H.
  destruct (Nat.eq_dec (List.length (c :: s)) 16) as [E|E].
  - destruct (length16 _ E) as (a1&a2&a3&a4&a5&a6&a7&a8&a9&a10&a11&a12&a13&a14&a15&p&Hs).
    rewrite Hs, from_time_string_16. cbn [obind].
    destruct ((p =? ch_plus) || (p =? ch_minus))%N; [discriminate|congruence].
  - rewrite (from_time_string_not16 _ E). cbn [obind]. cbn. congruence.
Qed.

(* ------------------------------------------------------------------ the edge of the representable range *)
(* A domain fact, not a finding: the two-digit year is the LOCAL year, so an
   instant whose local civil time falls in the day before 2000-01-01 or the
   day after 2099-12-31 (which happens for instants of 2000..2099 within 12 h
   of either end, in a suitable zone) has no valid 16-character form;
   Time.String then prints "-1..." resp. seventeen characters. *)
Lemma abs_fields_bad_first c rest : dig c = None -> abs_fields (c :: rest) = None.
Proof.
  intros H.
  do 15 (destruct rest as [|? rest]; [reflexivity|]).
  destruct rest; [|reflexivity]. unfold abs_fields, dig2. rewrite H. reflexivity.
Qed.

Theorem time_domain_edge t q : -48 <= q <= 48 ->
  (-864000 <= t + q * 9000 < 0 \/ 36525 * 864000 <= t + q * 9000 < 36526 * 864000) ->
  exists s, time_format (t, q) = Ok s /\ valid_abs_time s = false.
Proof.
  intros Hq [Hl|Hl].
  - set (r := t + q * 9000 + 864000).
    assert (Hr : 0 <= r < 864000) by (subst r; lia).
    assert (Hlr : t + q * 9000 = (-1) * 864000 + r) by (subst r; lia).
    assert (Hz : t <> zero_instant) by (rewrite zero_instant_val; lia).
    assert (Hc : civil2000 (-1) = (1999, 12, 31)) by reflexivity.
    rewrite (time_format_local t q (-1) r _ _ _ Hlr Hr Hc Hz).
    eexists. split; [reflexivity|].
    unfold time_string_of_parts. cbn [p_yy p_mo p_dd p_hh p_mi p_ss p_t p_q].
    change (fmt_02d (1999 - 2000)) with [45; 49]%N. cbn [app].
    unfold valid_abs_time. rewrite abs_fields_bad_first by reflexivity. reflexivity.
  - set (r := t + q * 9000 - 36525 * 864000).
    assert (Hr : 0 <= r < 864000) by (subst r; lia).
    assert (Hlr : t + q * 9000 = 36525 * 864000 + r) by (subst r; lia).
    assert (Hz : t <> zero_instant) by (rewrite zero_instant_val; lia).
    assert (Hc : civil2000 36525 = (2100, 1, 1)) by reflexivity.
    rewrite (time_format_local t q 36525 r _ _ _ Hlr Hr Hc Hz).
    eexists. split; [reflexivity|].
    destruct (tod_split r Hr) as (Hhh & Hmi & Hss & Ht & _).
    unfold time_string_of_parts. cbn [p_yy p_mo p_dd p_hh p_mi p_ss p_t p_q].
    change (fmt_02d (2100 - 2000)) with [49; 48; 48]%N.
    change (fmt_02d 1) with [48; 49]%N.
    destruct (two_facts (r / 10 / 3600) ltac:(lia)) as (-> & _ & _).
    destruct (two_facts ((r / 10) mod 3600 / 60) ltac:(lia)) as (-> & _ & _).
    destruct (two_facts ((r / 10) mod 60) ltac:(lia)) as (-> & _ & _).
    destruct (two_facts (Z.abs q) ltac:(lia)) as (-> & _ & _).
    destruct (one_facts (r mod 10) Ht) as (-> & _ & _).
    reflexivity.
Qed.

(* ---------------------------------------------------------------------------
   Receiver independence of Time.From / Duration.From. *)
Lemma time_from_spec v0 s :
  time_from v0 s = match time_parse s with
                   | Ok v => (v, Ok tt)
                   | Err e => ((zero_instant, 0), Err e)
                   | Panic => ((zero_instant, 0), Panic)
                   end.
Proof.
  unfold time_from, time_from_gen, time_parse. destruct s as [|c r]; [reflexivity|].
  destruct (from_time_string (c :: r)) as [[p sym]|e|]; cbn [obind]; try reflexivity.
  destruct ((sym =? ch_plus) || (sym =? ch_minus))%N; reflexivity.
Qed.
Lemma dur_from_spec d0 s :
  dur_from d0 s = match dur_parse s with
                  | Ok d => (d, Ok tt)
                  | Err e => (0, Err e)
                  | Panic => (0, Panic)
                  end.
Proof.
  unfold dur_from, dur_from_gen, dur_parse. destruct s as [|c r]; [reflexivity|].
  destruct (from_time_string (c :: r)) as [[p sym]|e|]; cbn [obind]; try reflexivity.
  destruct (sym =? ch_R)%N; reflexivity.
Qed.
(* histories on one receiver: after any sequence of calls, the last one decides *)
Lemma time_from_history v0 ss s : fst (fold_left (fun v x => fst (time_from v x)) (ss ++ [s]) v0) = fst (fst (time_from v0 s)).
Proof. rewrite fold_left_app. cbn [fold_left]. rewrite !time_from_spec. reflexivity. Qed.
Lemma dur_from_history d0 ss s : fold_left (fun d x => fst (dur_from d x)) (ss ++ [s]) d0 = fst (dur_from d0 s).
Proof. rewrite fold_left_app. cbn [fold_left]. rewrite !dur_from_spec. reflexivity. Qed.
(* the resets are what makes this true: without them a reused Duration accumulates, and a reused Time keeps
   its old value over From("") *)
Lemma from_noreset_refuted :
  (exists d0 s, valid_rel_time s = true /\ fst (dur_from_gen false d0 s) <> fst (dur_from d0 s)) /\
  (exists v0, fst (time_from_gen false v0 []) <> fst (time_from v0 [])).
Proof.
  split.
  - exists 600, [48; 48; 48; 48; 48; 48; 48; 48; 48; 49; 48; 48; 48; 48; 48; 82]%N. split; vm_compute; [reflexivity|congruence].
  - exists (0, 0). vm_compute. congruence.
Qed.
