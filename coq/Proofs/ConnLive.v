(* Composed liveness as run-existence, for the executable LTS of Model/ConnLTS.v,
   variant [fixed]:
     C05  a Submit in progress, whose response the peer has sent or is about to
          send, runs to the return of that response (audit5/conn.md A1);
     C15  the keep-alive loop reaches its return from every state it can be in
          once Done() is closed, and from every state after a failed
          enquire_link (B6); Watch blocked in its send on PDU() with nobody
          receiving stays there (B5).
   Only [step] / [run] of the model are used; nothing here changes the model. *)
From Coq Require Import List ZArith Lia Bool Arith.
From V Require Import Model.Base Model.Pdu Gen.PduLayouts Model.ConnLTS Proofs.ConnBase Proofs.ConnC14 Proofs.ConnC16
  Proofs.ConnC05 Proofs.ConnC15.
Import ListNotations.
Open Scope N_scope.

(* ------------------------------------------------------------------ generalities *)
Lemma run_cat v s t1 s1 t2 s2 : run v s t1 = Some s1 -> run v s1 t2 = Some s2 -> run v s (t1 ++ t2) = Some s2.
Proof. intros H1 H2. now rewrite run_app, H1. Qed.

Lemma run_live v t : forall s s' c, run v s t = Some s' -> live s c -> live s' c.
Proof.
  induction t as [|e t IH]; intros s s' c H L; cbn [run] in H; [now injection H as <-|].
  destruct (step v s e) eqn:E; [|discriminate]. eapply IH; eauto using step_live.
Qed.

Lemma run_attrs v t : forall s s' c, run v s t = Some s' -> live s c ->
  c_kind (callers s' c) = c_kind (callers s c) /\ c_seq (callers s' c) = c_seq (callers s c).
Proof.
  induction t as [|e t IH]; intros s s' c H L; cbn [run] in H; [injection H as <-; auto|].
  destruct (step v s e) eqn:E; [|discriminate].
  destruct (step_attrs _ _ _ _ c E L) as (K & _ & Q & _).
  destruct (IH _ _ c H (step_live _ _ _ _ _ E L)) as (K' & Q'). split; congruence.
Qed.

(* events on which the hypotheses of C05 put no condition *)
Definition quiet (e : event) : Prop :=
  match e with Start _ _ _ _ _ | PeerFrame _ => False | _ => True end.
Lemma quiet_env_ok s e : quiet e -> env_ok s e.
Proof. destruct e; cbn; try tauto. Qed.

(* ================================================================== C05: composed liveness *)
(* the steps of a Submit call that lead to the return of its response *)
Definition sub_event (c : nat) (e : event) : Prop :=
  match e with
  | Register d | WireWrite d | WriteReturn d | WakeResp d | Unregister d | CloseFinish d => d = c
  | _ => False
  end.
(* ... together with those of Watch and of a receiving application *)
Definition live_event (c : nat) (e : event) : Prop := sub_event c e \/ watch_event e.

Lemma sub_event_quiet c e : sub_event c e -> quiet e.
Proof. destruct e; cbn; tauto. Qed.
Lemma watch_event_quiet e : watch_event e -> quiet e.
Proof. destruct e; cbn; tauto. Qed.

(* what a step leaves as it was, as far as the hypotheses of the liveness theorem go *)
Definition keeps (c : nat) (s s1 : state) : Prop :=
  done s1 = done s /\ transport_closed s1 = transport_closed s /\ in_end s1 = in_end s /\ injected s1 = injected s /\
  (forall i, In i (inbound s1) -> In i (inbound s)) /\
  c_ctx (callers s1 c) = c_ctx (callers s c) /\ c_frame (callers s1 c) = c_frame (callers s c).

Lemma keeps_sub s e s1 c :
  step fixed s e = Some s1 -> sub_event c e -> (forall d, e <> CloseFinish d) -> keeps c s s1 /\ wpc s1 = wpc s.
Proof.
  intros H Oe NC. unfold keeps.
  destruct e; cbn in Oe; try contradiction; subst;
    try (step_inv H; sproj; rewrite ?upd_same; sproj; repeat split; auto; fail).
  exfalso. eapply NC. reflexivity.
Qed.

Lemma keeps_watch s e s1 c :
  step fixed s e = Some s1 -> watch_event e -> wpc s1 <> WExited -> keeps c s s1.
Proof.
  intros H We NE. unfold keeps.
  destruct e; cbn in We; try contradiction;
    step_inv H; sproj; try (exfalso; apply NE; reflexivity);
    upd_cases; sproj; repeat split; auto;
    try (intros ? ?; now right).
Qed.

Lemma watch_step_pc s e s1 d : step fixed s e = Some s1 -> watch_event e -> c_pc (callers s1 d) = c_pc (callers s d).
Proof.
  intros H We. destruct e; cbn in We; try contradiction; step_inv H; sproj; upd_cases; sproj; auto.
Qed.

(* the hypotheses of the liveness theorem, as one predicate on states *)
Definition ready (s : state) (c : nat) (q : Z) : Prop :=
  ereach s /\ sub s c /\ c_seq (callers s c) = q /\ done s = false /\ c_ctx (callers s c) = false /\
  is_ok (c_frame (callers s c)) = true /\ transport_closed s = false /\ ~ In IFatal (inbound s).

Lemma ready_step s e s1 c q :
  ready s c q -> step fixed s e = Some s1 -> quiet e -> keeps c s s1 -> ready s1 c q.
Proof.
  intros (ER & So & Q & D & X & F & T & NF) H Qe (K1 & K2 & K3 & K4 & K5 & K6 & K7).
  destruct So as [L K]. destruct (step_attrs _ _ _ _ c H L) as (Ek & _ & Es & _).
  repeat split; try congruence.
  - eapply er_step; eauto using quiet_env_ok.
  - eapply step_live; eauto.
  - intros Hin. apply NF. now apply K5.
Qed.

(* ---------------------------------------------------------- positive sequence numbers *)
Lemma sub_pos s : ereach s -> forall c, sub s c -> (0 < c_seq (callers s c))%Z.
Proof.
  induction 1 as [|s e s' ER IH Env H]; intros c [L K].
  - unfold live in L. cbn in L. congruence.
  - destruct (step_new _ _ _ _ H L) as [Lo | (k & g & q & f & -> & Hn & Hc & Ho)].
    + destruct (step_attrs _ _ _ _ c H Lo) as (Ek & _ & Es & _). rewrite Es. apply IH. split; congruence.
    + rewrite Hc in K |- *. cbn in K |- *. now destruct (Env K).
Qed.

(* a Submit fails only through its own context, Done(), or a Send that cannot reach the transport *)
Lemma fail_cause s : reachable fixed s ->
  forall c, failed (c_pc (callers s c)) ->
    c_ctx (callers s c) = true \/ done s = true \/ can_write s (callers s c) = None.
Proof.
  revert s. reach_ind.
  - cbn. intros _ [].
  - intros s e s' R IH H c0. unfold can_write in *.
    destruct e; step_inv H; sproj; upd_cases; sproj; intros F;
      try (cbn in F; contradiction);
      try (now (right; left)); try (now left);
      try (right; right; repeat match goal with E : _ = _ |- _ => rewrite E end; reflexivity);
      try (apply IH; repeat match goal with E : c_pc _ = _ |- _ => rewrite E end; exact F).
  all: try (destruct (IH _ F) as [X|[X|X]];
            [now left | first [discriminate X | right; left; congruence]
            | right; right; repeat match goal with E : transport_closed _ = _ |- _ => rewrite E end; exact X]).
Qed.

(* ---------------------------------------------------------- stage 1: the request reaches the transport *)
Lemma to_waiting s c q :
  ready s c q ->
  c_pc (callers s c) = PStarted \/ c_pc (callers s c) = PRegistered \/ c_pc (callers s c) = PWriting ->
  exists t s1, run fixed s t = Some s1 /\ Forall (sub_event c) t /\ ready s1 c q /\ c_pc (callers s1 c) = PWaiting /\
               injected s1 = injected s /\ in_end s1 = in_end s.
Proof.
  intros Rd Hpc.
  assert (St3 : forall s, ready s c q -> c_pc (callers s c) = PWriting ->
            exists t s1, run fixed s t = Some s1 /\ Forall (sub_event c) t /\ ready s1 c q /\ c_pc (callers s1 c) = PWaiting /\
               injected s1 = injected s /\ in_end s1 = in_end s).
  { clear s Rd Hpc. intros s Rd P. pose proof Rd as (_ & (_ & K) & _).
    destruct (step fixed s (WriteReturn c)) as [s1|] eqn:S; [|unfold step in S; rewrite P in S; discriminate].
    destruct (keeps_sub _ _ _ c S eq_refl) as (Kp & _); [intros d; discriminate|].
    exists [WriteReturn c], s1. cbn [run]. rewrite S. split; [reflexivity|]. split; [repeat constructor|].
    split; [eapply ready_step; eauto; exact I|]. destruct Kp as (_ & _ & Ke & Ki & _).
    split; [|split; assumption]. unfold step in S. rewrite P, K in S. injection S as <-. sproj. now rewrite upd_same. }
  assert (St2 : forall s, ready s c q -> c_pc (callers s c) = PRegistered ->
            exists t s1, run fixed s t = Some s1 /\ Forall (sub_event c) t /\ ready s1 c q /\ c_pc (callers s1 c) = PWaiting /\
               injected s1 = injected s /\ in_end s1 = in_end s).
  { clear s Rd Hpc. intros s Rd P. pose proof Rd as (ER & So & Q & _ & _ & F & T & _). pose proof So as (_ & K).
    pose proof (sub_pos s ER c So) as Pos. apply Z.ltb_lt in Pos.
    destruct (c_frame (callers s c)) as [f| |] eqn:Fr; try discriminate F.
    destruct (step fixed s (WireWrite c)) as [s1|] eqn:S.
    2:{ unfold step, at_send, can_write in S. rewrite P, K, Pos, T, Fr in S. discriminate S. }
    destruct (keeps_sub _ _ _ c S eq_refl) as (Kp & _); [intros d; discriminate|].
    assert (Rd1 : ready s1 c q) by (eapply ready_step; eauto; exact I).
    assert (P1 : c_pc (callers s1 c) = PWriting).
    { unfold step, at_send, can_write in S. rewrite P, K, Pos, T, Fr in S. cbn in S. injection S as <-. sproj. now rewrite upd_same. }
    destruct (St3 s1 Rd1 P1) as (t & s2 & Ht & Hf & Rd2 & P2 & I2 & E2).
    exists (WireWrite c :: t), s2. cbn [run]. rewrite S. split; [exact Ht|]. split; [constructor; [reflexivity | exact Hf]|].
    destruct Kp as (_ & _ & Ke & Ki & _). split; [exact Rd2|]. split; [exact P2|]. split; congruence. }
  destruct Hpc as [P|[P|P]]; [|now apply St2 | now apply St3].
  pose proof Rd as (_ & (_ & K) & _).
  destruct (step fixed s (Register c)) as [s1|] eqn:S; [|unfold step in S; rewrite K, P in S; discriminate].
  destruct (keeps_sub _ _ _ c S eq_refl) as (Kp & _); [intros d; discriminate|].
  assert (Rd1 : ready s1 c q) by (eapply ready_step; eauto; exact I).
  assert (P1 : c_pc (callers s1 c) = PRegistered).
  { unfold step in S. rewrite K, P in S. cbn in S. injection S as <-. sproj. now rewrite upd_same. }
  destruct (St2 s1 Rd1 P1) as (t & s2 & Ht & Hf & Rd2 & P2 & I2 & E2).
  exists (Register c :: t), s2. cbn [run]. rewrite S. split; [exact Ht|]. split; [constructor; [reflexivity | exact Hf]|].
  destruct Kp as (_ & _ & Ke & Ki & _). split; [exact Rd2|]. split; [exact P2|]. split; congruence.
Qed.

(* ---------------------------------------------------------- stage 2: Watch reaches the response *)
Lemma watch_progress_open s i rest :
  reachable fixed s -> done s = false -> transport_closed s = false -> inbound s = i :: rest -> i <> IFatal ->
  exists e s1, watch_event e /\ step fixed s e = Some s1 /\ wpc s1 <> WExited /\ (wmeasure s1 < wmeasure s)%nat.
Proof.
  intros R D T Ei NF. destruct (watch_sane s R) as (NS & NP). unfold wmeasure.
  destruct (wpc s) eqn:W; try congruence.
  - exists WatchLoop. unfold step. rewrite W, D. eexists. split; [exact I|]. split; [reflexivity|]. sproj.
    split; [discriminate | lia].
  - pose proof (queue_inv s R) as Q. destruct (waiter_inv s R) as (Wi & _).
    exists WatchStep. unfold step. rewrite W, T, Ei. cbn [v_oneshot fixed].
    destruct i as [p|q|]; [| |congruence].
    + destruct (pending s (snd p)) as [c|] eqn:P.
      * destruct (Wi _ _ P) as (_ & M & _). rewrite M. eexists. split; [exact I|]. split; [reflexivity|].
        sproj. split; [discriminate|]. cbn. lia.
      * destruct (queue_closed s) eqn:Qc; [specialize (Q eq_refl); congruence|].
        eexists. split; [exact I|]. split; [reflexivity|]. sproj. split; [discriminate|]. cbn. lia.
    + eexists. split; [exact I|]. split; [reflexivity|]. destruct (0 <? q)%Z; sproj; (split; [discriminate|]); cbn; lia.
  - exists AppRecv. unfold step. rewrite W. eexists. split; [exact I|]. split; [reflexivity|]. sproj.
    split; [discriminate | lia].
  - exfalso. destruct (exited_inv s R W). congruence.
Qed.

Lemma watch_delivers_n c q n : forall s,
  (wmeasure s <= n)%nat -> ready s c q -> answered s q -> c_pc (callers s c) = PWaiting ->
  exists t s1 m, run fixed s t = Some s1 /\ Forall watch_event t /\ ready s1 c q /\
                 c_pc (callers s1 c) = PWaiting /\ c_mail (callers s1 c) = Some m.
Proof.
  induction n as [|n IH]; intros s Hm Rd A P.
  all: destruct (got s c) eqn:G.
  1,3: unfold got in G; rewrite P in G; cbn in G; destruct (c_mail (callers s c)) as [m|] eqn:M; [|discriminate];
       exists [], s, m; (split; [reflexivity|]); (split; [constructor|]); (split; [exact Rd|]); split; assumption.
  all: pose proof Rd as (ER & So & Q & D & X & F & T & NF); pose proof (ereach_reachable s ER) as R;
       rewrite <- Q in A; destruct (not_lost s ER c So A) as [Qi|[G'|G']];
       [ | congruence | unfold gave_up in G'; rewrite P in G'; contradiction].
  all: destruct (inbound s) as [|i rest] eqn:Ei; [cbn in Qi; lia|].
  all: assert (NFi : i <> IFatal) by (intros ->; apply NF; now left).
  all: destruct (watch_progress_open s i rest R D T Ei NFi) as (e & s1 & We & S1 & NE & Lt).
  - exfalso. lia.
  - assert (Rd1 : ready s1 c q).
    { eapply ready_step; eauto using watch_event_quiet, keeps_watch. }
    destruct (IH s1) as (t & s2 & m & Ht & Hf & Rd2 & P2 & M2); [lia | exact Rd1 | | |].
    + rewrite Q in A. eapply answered_grows; eauto.
    + rewrite (watch_step_pc _ _ _ c S1 We). exact P.
    + exists (e :: t), s2, m. cbn [run]. rewrite S1. split; [exact Ht|]. split; [constructor; assumption|].
      split; [exact Rd2|]. split; assumption.
Qed.

(* ---------------------------------------------------------- stage 3: the caller takes its response and returns *)
Lemma finish_closing s c m : c_pc (callers s c) = PClosing (ROk m) ->
  exists t s', run fixed s t = Some s' /\ Forall (sub_event c) t /\ c_pc (callers s' c) = PReturned (ROk m).
Proof.
  intros P. exists [CloseFinish c]. cbn [run]. unfold step. rewrite P. cbn [v_watch_closes fixed]. eexists.
  split; [reflexivity|]. split; [repeat constructor|]. sproj. now rewrite upd_same.
Qed.

Lemma finish_leaving s c m : c_pc (callers s c) = PLeaving (ROk m) ->
  exists t s', run fixed s t = Some s' /\ Forall (sub_event c) t /\ c_pc (callers s' c) = PReturned (ROk m).
Proof.
  intros P. destruct (step fixed s (Unregister c)) as [s1|] eqn:S; [|unfold step in S; rewrite P in S; discriminate].
  assert (P1 : c_pc (callers s1 c) = after_call (callers s c) (ROk m)).
  { unfold step in S. rewrite P in S. injection S as <-. sproj. now rewrite upd_same. }
  unfold after_call in P1. destruct (close_like (c_kind (callers s c))).
  - destruct (finish_closing s1 c m P1) as (t & s2 & Ht & Hf & P2).
    exists (Unregister c :: t), s2. cbn [run]. rewrite S. repeat split; auto. constructor; [reflexivity | exact Hf].
  - exists [Unregister c], s1. cbn [run]. rewrite S. repeat split; auto. repeat constructor.
Qed.

Lemma finish_waiting s c m : c_pc (callers s c) = PWaiting -> c_mail (callers s c) = Some m ->
  exists t s', run fixed s t = Some s' /\ Forall (sub_event c) t /\ c_pc (callers s' c) = PReturned (ROk m).
Proof.
  intros P M. destruct (step fixed s (WakeResp c)) as [s1|] eqn:S; [|unfold step in S; rewrite P, M in S; discriminate].
  assert (P1 : c_pc (callers s1 c) = PLeaving (ROk m)).
  { unfold step in S. rewrite P, M in S. injection S as <-. sproj. now rewrite upd_same. }
  destruct (finish_leaving s1 c m P1) as (t & s2 & Ht & Hf & P2).
  exists (WakeResp c :: t), s2. cbn [run]. rewrite S. repeat split; auto. constructor; [reflexivity | exact Hf].
Qed.

Lemma Forall_sub_live c t : Forall (sub_event c) t -> Forall (live_event c) t.
Proof. apply Forall_impl. intros e H. now left. Qed.
Lemma Forall_watch_live c t : Forall watch_event t -> Forall (live_event c) t.
Proof. apply Forall_impl. intros e H. now right. Qed.

(* from the select of Submit *)
Lemma live_from_waiting s c q :
  ready s c q -> answered s q -> c_pc (callers s c) = PWaiting ->
  exists t s' m, run fixed s t = Some s' /\ Forall (live_event c) t /\ c_pc (callers s' c) = PReturned (ROk m).
Proof.
  intros Rd A P.
  destruct (watch_delivers_n c q _ s (le_n _) Rd A P) as (t1 & s1 & m & H1 & F1 & Rd1 & P1 & M1).
  destruct (finish_waiting s1 c m P1 M1) as (t2 & s2 & H2 & F2 & P2).
  exists (t1 ++ t2), s2, m. split; [eapply run_cat; eauto|]. split; [|exact P2].
  apply Forall_app. split; [now apply Forall_watch_live | now apply Forall_sub_live].
Qed.

(* C05, the clause "every Submit call returns, without error, the PDU whose
   sequence number equals that of its own request", as existence of a run:
   from ANY state reachable under the hypotheses of the property, for ANY call
   c of Submit in progress — wherever it is: about to register, about to hand
   its frame to the transport, inside the transport Write, in its select, on its
   way out —, with Done() open, its own context not done, a frame that Marshal
   produced, the transport not closed, the response sent by the peer (now
   readable or already taken by Watch), and no frame before which Watch gives up
   (IFatal) among the readable ones: the steps of c itself, of Watch and of a
   receiving application lead c to return a PDU with its own sequence number. *)
Lemma submit_live s c :
  ereach s -> sub s c -> done s = false -> c_ctx (callers s c) = false ->
  is_ok (c_frame (callers s c)) = true -> transport_closed s = false ->
  answered s (c_seq (callers s c)) -> ~ In IFatal (inbound s) ->
  exists t s' m, run fixed s t = Some s' /\ Forall (live_event c) t /\
                 c_pc (callers s' c) = PReturned (ROk m) /\ snd m = c_seq (callers s c).
Proof.
  intros ER So D X F T A NF. pose proof (ereach_reachable s ER) as R.
  assert (Rd : ready s c (c_seq (callers s c))) by (repeat split; auto; apply So).
  assert (Main : exists t s' m, run fixed s t = Some s' /\ Forall (live_event c) t /\ c_pc (callers s' c) = PReturned (ROk m)).
  { destruct (pc_shapes s R c) as (NW & NS). destruct (NS (proj2 So)) as (N1 & N2 & N3).
    assert (NoFail : ~ failed (c_pc (callers s c))).
    { intros Fl. destruct (fail_cause s R c Fl) as [E|[E|E]]; try congruence.
      unfold can_write in E. pose proof (sub_pos s ER c So) as Pos. apply Z.ltb_lt in Pos. rewrite Pos, T in E.
      destruct (c_frame (callers s c)); discriminate. }
    destruct (c_pc (callers s c)) as [| | | | | |r|r|r] eqn:P.
    - exfalso. now apply (proj1 So).
    - destruct (to_waiting s c _ Rd) as (t1 & s1 & H1 & F1 & Rd1 & P1 & I1 & _); [auto|].
      destruct (live_from_waiting s1 c _ Rd1) as (t2 & s2 & m & H2 & F2 & P2); [unfold answered in *; congruence | exact P1 |].
      exists (t1 ++ t2), s2, m. split; [eapply run_cat; eauto|]. split; [|exact P2].
      apply Forall_app. split; [now apply Forall_sub_live | exact F2].
    - destruct (to_waiting s c _ Rd) as (t1 & s1 & H1 & F1 & Rd1 & P1 & I1 & _); [auto|].
      destruct (live_from_waiting s1 c _ Rd1) as (t2 & s2 & m & H2 & F2 & P2); [unfold answered in *; congruence | exact P1 |].
      exists (t1 ++ t2), s2, m. split; [eapply run_cat; eauto|]. split; [|exact P2].
      apply Forall_app. split; [now apply Forall_sub_live | exact F2].
    - destruct (to_waiting s c _ Rd) as (t1 & s1 & H1 & F1 & Rd1 & P1 & I1 & _); [auto|].
      destruct (live_from_waiting s1 c _ Rd1) as (t2 & s2 & m & H2 & F2 & P2); [unfold answered in *; congruence | exact P1 |].
      exists (t1 ++ t2), s2, m. split; [eapply run_cat; eauto|]. split; [|exact P2].
      apply Forall_app. split; [now apply Forall_sub_live | exact F2].
    - congruence.
    - apply (live_from_waiting s c _ Rd A P).
    - destruct r as [m| |]; [|congruence | exfalso; apply NoFail; exact I].
      destruct (finish_leaving s c m P) as (t & s' & Ht & Hf & P'). exists t, s', m. repeat split; auto. now apply Forall_sub_live.
    - destruct r as [m| |]; [|congruence | exfalso; apply NoFail; exact I].
      destruct (finish_closing s c m P) as (t & s' & Ht & Hf & P'). exists t, s', m. repeat split; auto. now apply Forall_sub_live.
    - destruct r as [m| |]; [|congruence | exfalso; apply NoFail; exact I].
      exists [], s, m. repeat split; auto. }
  destruct Main as (t & s' & m & Ht & Hf & P'). exists t, s', m. repeat split; auto.
  destruct (run_attrs _ _ _ _ c Ht (proj1 So)) as (_ & <-).
  apply (own_response s' (reachable_run _ _ _ _ R Ht) c m). right. rewrite P'. reflexivity.
Qed.

(* The same when the peer has not answered yet: c's own steps bring its request to
   the transport, the peer then sends the response (the ONE event of the peer in the
   run; any PDU p carrying c's sequence number; the stream has not ended), and the
   steps of c, Watch and the application lead c to return. *)
Lemma submit_live_unanswered s c p :
  ereach s -> sub s c -> done s = false -> c_ctx (callers s c) = false ->
  is_ok (c_frame (callers s c)) = true -> transport_closed s = false ->
  ~ answered s (c_seq (callers s c)) -> in_end s = false -> ~ In IFatal (inbound s) ->
  snd p = c_seq (callers s c) ->
  exists t1 t2 s' m, run fixed s (t1 ++ PeerFrame (IPdu p) :: t2) = Some s' /\
                 Forall (sub_event c) t1 /\ Forall (live_event c) t2 /\
                 c_pc (callers s' c) = PReturned (ROk m) /\ snd m = c_seq (callers s c).
Proof.
  intros ER So D X F T NA IE NF Ep. pose proof (ereach_reachable s ER) as R.
  set (q := c_seq (callers s c)) in *.
  assert (Rd : ready s c q) by (split; [|split; [|split; [|split; [|split; [|split; [|split]]]]]]; auto).
  (* c is before its select or in it, with nothing received *)
  assert (St : exists t1 s1, run fixed s t1 = Some s1 /\ Forall (sub_event c) t1 /\ ready s1 c q /\
                 c_pc (callers s1 c) = PWaiting /\ injected s1 = injected s /\ in_end s1 = in_end s).
  { assert (G : got s c = false).
    { destruct (got s c) eqn:G; [|reflexivity]. exfalso. apply NA. now apply got_answered. }
    destruct (pc_shapes s R c) as (NW & NS). destruct (NS (proj2 So)) as (N1 & N2 & N3).
    assert (NoFail : ~ failed (c_pc (callers s c))).
    { intros Fl. destruct (fail_cause s R c Fl) as [E|[E|E]]; try congruence.
      unfold can_write in E. pose proof (sub_pos s ER c So) as Pos. apply Z.ltb_lt in Pos. rewrite Pos, T in E.
      destruct (c_frame (callers s c)); discriminate. }
    unfold got, resp_of in G.
    destruct (c_pc (callers s c)) as [| | | | | |r|r|r] eqn:P;
      try (apply (to_waiting s c q Rd); auto; fail);
      try congruence;
      try (destruct r as [m| |]; [destruct (c_mail (callers s c)); discriminate G | congruence | exfalso; apply NoFail; exact I]).
    - exfalso. now apply (proj1 So).
    - exists [], s. split; [reflexivity|]. split; [constructor|]. split; [exact Rd|]. auto. }
  destruct St as (t1 & s1 & H1 & F1 & Rd1 & P1 & I1 & E1).
  pose proof Rd1 as (ER1 & So1 & Q1 & D1 & X1 & Fr1 & T1 & NF1). pose proof (ereach_reachable s1 ER1) as R1.
  (* the peer answers *)
  destruct (step fixed s1 (PeerFrame (IPdu p))) as [s2|] eqn:S2.
  2:{ unfold step in S2. rewrite E1, IE in S2. discriminate. }
  assert (Env : env_ok s1 (PeerFrame (IPdu p))).
  { cbn. intros _. split; [unfold answered in *; rewrite I1, Ep; exact NA|].
    intros c' So' Eq'. assert (c' = c) by (apply (distinct_inv s1 ER1); auto; congruence). subst c'.
    destruct (c_wrote (callers s1 c)) eqn:W; [reflexivity|].
    apply (proj1 (wrote_pc fixed s1 R1 c)) in W. rewrite P1 in W. contradiction. }
  assert (Sh : inbound s2 = inbound s1 ++ [IPdu p] /\ injected s2 = injected s1 ++ [IPdu p] /\ callers s2 = callers s1 /\
               done s2 = done s1 /\ transport_closed s2 = transport_closed s1).
  { unfold step in S2. rewrite E1, IE in S2. injection S2 as <-. sproj. repeat split; reflexivity. }
  destruct Sh as (Si & Sj & Sc & Sd & St).
  assert (Rd2 : ready s2 c q).
  { split; [eapply er_step; eauto|]. split; [eapply step_sub; eauto|]. rewrite Sc, Sd, St, Si.
    do 5 (split; [assumption|]). rewrite in_app_iff. intros [Hin|[Hin|[]]]; [now apply NF1 | discriminate]. }
  assert (A2 : answered s2 q).
  { unfold answered. rewrite Sj, peer_seqs_app, in_app_iff. right. cbn. left. exact Ep. }
  assert (P2 : c_pc (callers s2 c) = PWaiting) by (rewrite Sc; exact P1).
  destruct (live_from_waiting s2 c q Rd2 A2 P2) as (t2 & s3 & m & H3 & F3 & P3).
  exists t1, t2, s3, m.
  assert (Hrun : run fixed s (t1 ++ PeerFrame (IPdu p) :: t2) = Some s3).
  { eapply run_cat; [exact H1|]. cbn [run]. rewrite S2. exact H3. }
  split; [exact Hrun|]. split; [exact F1|]. split; [exact F3|]. split; [exact P3|].
  destruct (run_attrs _ _ _ _ c Hrun (proj1 So)) as (_ & Es). unfold q. rewrite <- Es.
  apply (own_response s3 (reachable_run _ _ _ _ R Hrun) c m). right. rewrite P3. reflexivity.
Qed.

(* non-vacuity: call 1 is inside the transport Write; its response is readable
   behind an unsolicited PDU and an undecodable frame; call 0 has not sent anything *)
Definition live_trace : list event :=
  [WatchLoop; Start 0 KSubmit 1 7%Z (Ok [7]); Start 1 KSubmit 2 8%Z (Ok [8]); Register 1; WireWrite 1;
   PeerFrame (IPdu (5, 99%Z)); PeerFrame (IBad 3%Z); PeerFrame (IPdu (2147483652, 8%Z)); Register 0].

Lemma submit_live_example :
  exists s, ereach s /\ sub s 1%nat /\ done s = false /\ c_ctx (callers s 1%nat) = false /\
            is_ok (c_frame (callers s 1%nat)) = true /\ transport_closed s = false /\
            answered s (c_seq (callers s 1%nat)) /\ ~ In IFatal (inbound s) /\
            c_pc (callers s 1%nat) = PWriting /\ wpc s = WReading /\
            inbound s = [IPdu (5, 99%Z); IBad 3%Z; IPdu (2147483652, 8%Z)] /\
            (* ... and call 0, not answered yet *)
            sub s 0%nat /\ ~ answered s (c_seq (callers s 0%nat)) /\ in_end s = false /\
            c_pc (callers s 0%nat) = PRegistered.
Proof.
  destruct (erunb fixed init live_trace) as [s|] eqn:E; [|vm_compute in E; discriminate].
  exists s. split; [eapply erunb_sound; [apply er_init | exact E]|].
  vm_compute in E. injection E as <-. unfold sub, live, answered. vm_compute.
  repeat split; auto; try discriminate; try (intros H; repeat (destruct H as [H|H]; try discriminate H); auto).
Qed.
