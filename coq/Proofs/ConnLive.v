(* Composed liveness as run-existence, for the executable LTS of Model/ConnLTS.v,
   variant [fixed]:
     C05  a Submit in progress, whose response the peer has sent or is about to
          send, runs to the return of that response (audit5/conn.md A1);
     C15  the keep-alive loop reaches its return from every state it can be in
          once Done() is closed, and from every state after a failed
          enquire_link (B6); Watch blocked in its send on PDU() with nobody
          receiving stays there (B5).
   Only [step] / [run] of the model are used; nothing here changes the model. *)
From Coq Require Import List ZArith Lia Bool Arith.
From V Require Import Model.Base Model.Pdu Gen.PduLayouts Model.ConnLTS Proofs.ConnBase Proofs.ConnC14 Proofs.ConnC16
  Proofs.ConnC05 Proofs.ConnC15.
Import ListNotations.
Open Scope N_scope.

(* ------------------------------------------------------------------ generalities *)
Lemma run_cat v s t1 s1 t2 s2 : run v s t1 = Some s1 -> run v s1 t2 = Some s2 -> run v s (t1 ++ t2) = Some s2.
Proof. intros H1 H2. now rewrite run_app, H1. Qed.

Lemma run_live v t : forall s s' c, run v s t = Some s' -> live s c -> live s' c.
Proof.
  induction t as [|e t IH]; intros s s' c H L; cbn [run] in H; [now injection H as <-|].
  destruct (step v s e) eqn:E; [|discriminate]. eapply IH; eauto using step_live.
Qed.

Lemma run_attrs v t : forall s s' c, run v s t = Some s' -> live s c ->
  c_kind (callers s' c) = c_kind (callers s c) /\ c_seq (callers s' c) = c_seq (callers s c).
Proof.
  induction t as [|e t IH]; intros s s' c H L; cbn [run] in H; [injection H as <-; auto|].
  destruct (step v s e) eqn:E; [|discriminate].
  destruct (step_attrs _ _ _ _ c E L) as (K & _ & Q & _).
  destruct (IH _ _ c H (step_live _ _ _ _ _ E L)) as (K' & Q'). split; congruence.
Qed.

(* events on which the hypotheses of C05 put no condition *)
Definition quiet (e : event) : Prop :=
  match e with Start _ _ _ _ _ | PeerFrame _ => False | _ => True end.
Lemma quiet_env_ok s e : quiet e -> env_ok s e.
Proof. destruct e; cbn; try tauto. Qed.

(* ================================================================== C05: composed liveness *)
(* the steps of a Submit call that lead to the return of its response *)
Definition sub_event (c : nat) (e : event) : Prop :=
  match e with
  | Register d | WireWrite d | WriteReturn d | WakeResp d | Unregister d | CloseFinish d => d = c
  | _ => False
  end.
(* ... together with those of Watch and of a receiving application *)
Definition live_event (c : nat) (e : event) : Prop := sub_event c e \/ watch_event e.

Lemma sub_event_quiet c e : sub_event c e -> quiet e.
Proof. destruct e; cbn; tauto. Qed.
Lemma watch_event_quiet e : watch_event e -> quiet e.
Proof. destruct e; cbn; tauto. Qed.

(* what a step leaves as it was, as far as the hypotheses of the liveness theorem go *)
Definition keeps (c : nat) (s s1 : state) : Prop :=
  done s1 = done s /\ transport_closed s1 = transport_closed s /\ in_end s1 = in_end s /\ injected s1 = injected s /\
  c_ctx (callers s1 c) = c_ctx (callers s c) /\ c_frame (callers s1 c) = c_frame (callers s c).

Lemma keeps_sub s e s1 c :
  step fixed s e = Some s1 -> sub_event c e -> (forall d, e <> CloseFinish d) ->
  keeps c s s1 /\ wpc s1 = wpc s /\ inbound s1 = inbound s.
Proof.
  intros H Oe NC. unfold keeps.
  destruct e; cbn in Oe; try contradiction; subst;
    try (step_inv H; sproj; rewrite ?upd_same; sproj; repeat split; auto; fail).
  exfalso. eapply NC. reflexivity.
Qed.

Lemma keeps_watch s e s1 c :
  step fixed s e = Some s1 -> watch_event e -> wpc s1 <> WExited -> keeps c s s1.
Proof.
  intros H We NE. unfold keeps.
  destruct e; cbn in We; try contradiction;
    step_inv H; sproj; try (exfalso; apply NE; reflexivity);
    upd_cases; sproj; repeat split; auto.
Qed.

Lemma watch_step_pc s e s1 d : step fixed s e = Some s1 -> watch_event e -> c_pc (callers s1 d) = c_pc (callers s d).
Proof.
  intros H We. destruct e; cbn in We; try contradiction; step_inv H; sproj; upd_cases; sproj; auto.
Qed.

(* the hypotheses of the liveness theorem on the call and the connection, as one predicate on states *)
Definition ready (s : state) (c : nat) (q : Z) : Prop :=
  ereach s /\ sub s c /\ c_seq (callers s c) = q /\ done s = false /\ c_ctx (callers s c) = false /\
  is_ok (c_frame (callers s c)) = true /\ transport_closed s = false.

Lemma ready_step s e s1 c q :
  ready s c q -> step fixed s e = Some s1 -> quiet e -> keeps c s s1 -> ready s1 c q.
Proof.
  intros (ER & So & Q & D & X & F & T) H Qe (K1 & K2 & K3 & K4 & K6 & K7).
  destruct So as [L K]. destruct (step_attrs _ _ _ _ c H L) as (Ek & _ & Es & _).
  repeat split; try congruence.
  - eapply er_step; eauto using quiet_env_ok.
  - eapply step_live; eauto.
Qed.

(* ... and on the inbound stream: among the frames readable now, none of those
   BEFORE the response to q makes Watch give up ([IFatal]: bad length, unknown
   command id, truncated frame).  What follows the response does not matter. *)
Fixpoint clear_to (q : Z) (l : list item) : Prop :=
  match l with
  | [] => True
  | i :: r => is_q q i = true \/ (i <> IFatal /\ clear_to q r)
  end.
(* the response is in c's hands already, or Watch can get to it *)
Definition path_clear (s : state) (c : nat) (q : Z) : Prop := got s c = true \/ clear_to q (inbound s).

Lemma no_fatal_clear q l : ~ In IFatal l -> clear_to q l.
Proof.
  induction l as [|i r IH]; cbn; [tauto|]. intros H. right. split; [intros ->; apply H; now left|].
  apply IH. intros Hin. apply H. now right.
Qed.
Lemma clear_to_snoc q l i : ~ In IFatal l -> is_q q i = true -> clear_to q (l ++ [i]).
Proof.
  induction l as [|j r IH]; cbn; [tauto|]. intros H Qi. right. split; [intros ->; apply H; now left|].
  apply IH; [|exact Qi]. intros Hin. apply H. now right.
Qed.

(* ---------------------------------------------------------- positive sequence numbers *)
Lemma sub_pos s : ereach s -> forall c, sub s c -> (0 < c_seq (callers s c))%Z.
Proof.
  induction 1 as [|s e s' ER IH Env H]; intros c [L K].
  - unfold live in L. cbn in L. congruence.
  - destruct (step_new _ _ _ _ H L) as [Lo | (k & g & q & f & -> & Hn & Hc & Ho)].
    + destruct (step_attrs _ _ _ _ c H Lo) as (Ek & _ & Es & _). rewrite Es. apply IH. split; congruence.
    + rewrite Hc in K |- *. cbn in K |- *. now destruct (Env K).
Qed.

(* a Submit fails only through its own context, Done(), or a Send that cannot reach the transport *)
Lemma fail_cause s : reachable fixed s ->
  forall c, failed (c_pc (callers s c)) ->
    c_ctx (callers s c) = true \/ done s = true \/ can_write s (callers s c) = None.
Proof.
  revert s. reach_ind.
  - cbn. intros _ [].
  - intros s e s' R IH H c0. unfold can_write in *.
    destruct e; step_inv H; sproj; upd_cases; sproj; intros F;
      try (cbn in F; contradiction);
      try (now (right; left)); try (now left);
      try (right; right; repeat match goal with E : _ = _ |- _ => rewrite E end; reflexivity);
      try (apply IH; repeat match goal with E : c_pc _ = _ |- _ => rewrite E end; exact F).
  all: try (destruct (IH _ F) as [X|[X|X]];
            [now left | first [discriminate X | right; left; congruence]
            | right; right; repeat match goal with E : transport_closed _ = _ |- _ => rewrite E end; exact X]).
Qed.

(* ---------------------------------------------------------- stage 1: the request reaches the transport *)
Definition stage1 (s : state) (c : nat) (q : Z) : Prop :=
  exists t s1, run fixed s t = Some s1 /\ Forall (sub_event c) t /\ ready s1 c q /\ c_pc (callers s1 c) = PWaiting /\
               injected s1 = injected s /\ in_end s1 = in_end s /\ inbound s1 = inbound s /\ got s1 c = got s c.

Lemma sub_step_got s e s1 c : step fixed s e = Some s1 -> live s c -> sub_event c e -> got s1 c = got s c.
Proof.
  intros H L Oe. destruct (step_got _ _ _ c H L) as [G | (-> & _)]; [exact G | cbn in Oe; contradiction].
Qed.

Lemma stage1_pre s e s1 c q :
  ready s c q -> step fixed s e = Some s1 -> sub_event c e -> (forall d, e <> CloseFinish d) ->
  (ready s1 c q -> stage1 s1 c q) -> stage1 s c q.
Proof.
  intros Rd S Oe NC Next. destruct (keeps_sub _ _ _ c S Oe NC) as (Kp & _ & Ei).
  assert (Rd1 : ready s1 c q) by (eapply ready_step; eauto using sub_event_quiet).
  destruct (Next Rd1) as (t & s2 & Ht & Hf & Rd2 & P2 & I2 & E2 & B2 & G2).
  exists (e :: t), s2. cbn [run]. rewrite S. split; [exact Ht|]. split; [constructor; assumption|].
  split; [exact Rd2|]. split; [exact P2|]. destruct Kp as (_ & _ & Ke & Ki & _).
  pose proof (sub_step_got _ _ _ c S (proj1 (proj1 (proj2 Rd))) Oe) as G1.
  repeat split; congruence.
Qed.

Lemma to_waiting s c q :
  ready s c q ->
  c_pc (callers s c) = PStarted \/ c_pc (callers s c) = PRegistered \/ c_pc (callers s c) = PWriting ->
  stage1 s c q.
Proof.
  intros Rd Hpc.
  assert (St3 : forall s, ready s c q -> c_pc (callers s c) = PWriting -> stage1 s c q).
  { clear s Rd Hpc. intros s Rd P. pose proof Rd as (_ & (_ & K) & _).
    destruct (step fixed s (WriteReturn c)) as [s1|] eqn:S; [|unfold step in S; rewrite P in S; discriminate].
    apply (stage1_pre s (WriteReturn c) s1 c q Rd S eq_refl); [intros d; discriminate|]. intros Rd1.
    exists [], s1. split; [reflexivity|]. split; [constructor|]. split; [exact Rd1|].
    split; [|repeat split; reflexivity].
    unfold step in S. rewrite P, K in S. injection S as <-. sproj. now rewrite upd_same. }
  assert (St2 : forall s, ready s c q -> c_pc (callers s c) = PRegistered -> stage1 s c q).
  { clear s Rd Hpc. intros s Rd P. pose proof Rd as (ER & So & Q & _ & _ & F & T). pose proof So as (_ & K).
    pose proof (sub_pos s ER c So) as Pos. apply Z.ltb_lt in Pos.
    destruct (c_frame (callers s c)) as [f| |] eqn:Fr; try discriminate F.
    destruct (step fixed s (WireWrite c)) as [s1|] eqn:S.
    2:{ unfold step, at_send, can_write in S. rewrite P, K, Pos, T, Fr in S. discriminate S. }
    apply (stage1_pre s (WireWrite c) s1 c q Rd S eq_refl); [intros d; discriminate|]. intros Rd1.
    apply St3; [exact Rd1|].
    unfold step, at_send, can_write in S. rewrite P, K, Pos, T, Fr in S. cbn in S. injection S as <-. sproj. now rewrite upd_same. }
  destruct Hpc as [P|[P|P]]; [|now apply St2 | now apply St3].
  pose proof Rd as (_ & (_ & K) & _).
  destruct (step fixed s (Register c)) as [s1|] eqn:S; [|unfold step in S; rewrite K, P in S; discriminate].
  apply (stage1_pre s (Register c) s1 c q Rd S eq_refl); [intros d; discriminate|]. intros Rd1.
  apply St2; [exact Rd1|].
  unfold step in S. rewrite K, P in S. cbn in S. injection S as <-. sproj. now rewrite upd_same.
Qed.

(* ---------------------------------------------------------- stage 2: Watch reaches the response *)
Lemma watch_progress_open s i rest :
  reachable fixed s -> done s = false -> transport_closed s = false -> inbound s = i :: rest -> i <> IFatal ->
  exists e s1, watch_event e /\ step fixed s e = Some s1 /\ wpc s1 <> WExited /\ (wmeasure s1 < wmeasure s)%nat.
Proof.
  intros R D T Ei NF. destruct (watch_sane s R) as (NS & NP). unfold wmeasure.
  destruct (wpc s) eqn:W; try congruence.
  - exists WatchLoop. unfold step. rewrite W, D. eexists. split; [exact I|]. split; [reflexivity|]. sproj.
    split; [discriminate | lia].
  - pose proof (queue_inv s R) as Q. destruct (waiter_inv s R) as (Wi & _).
    exists WatchStep. unfold step. rewrite W, T, Ei. cbn [v_oneshot fixed].
    destruct i as [p|q|]; [| |congruence].
    + destruct (pending s (snd p)) as [c|] eqn:P.
      * destruct (Wi _ _ P) as (_ & M & _). rewrite M. eexists. split; [exact I|]. split; [reflexivity|].
        sproj. split; [discriminate|]. cbn. lia.
      * destruct (queue_closed s) eqn:Qc; [specialize (Q eq_refl); congruence|].
        eexists. split; [exact I|]. split; [reflexivity|]. sproj. split; [discriminate|]. cbn. lia.
    + eexists. split; [exact I|]. split; [reflexivity|]. destruct (0 <? q)%Z; sproj; (split; [discriminate|]); cbn; lia.
  - exists AppRecv. unfold step. rewrite W. eexists. split; [exact I|]. split; [reflexivity|]. sproj.
    split; [discriminate | lia].
  - exfalso. destruct (exited_inv s R W). congruence.
Qed.

Lemma watch_delivers_n c q n : forall s,
  (wmeasure s <= n)%nat -> ready s c q -> answered s q -> path_clear s c q -> c_pc (callers s c) = PWaiting ->
  exists t s1 m, run fixed s t = Some s1 /\ Forall watch_event t /\ ready s1 c q /\
                 c_pc (callers s1 c) = PWaiting /\ c_mail (callers s1 c) = Some m.
Proof.
  induction n as [|n IH]; intros s Hm Rd A PC P.
  all: destruct (got s c) eqn:G.
  1,3: unfold got in G; rewrite P in G; cbn in G; destruct (c_mail (callers s c)) as [m|] eqn:M; [|discriminate];
       exists [], s, m; (split; [reflexivity|]); (split; [constructor|]); (split; [exact Rd|]); split; assumption.
  all: pose proof Rd as (ER & So & Q & D & X & F & T); pose proof (ereach_reachable s ER) as R;
       rewrite <- Q in A; destruct (not_lost s ER c So A) as [Qi|[G'|G']];
       [ | congruence | unfold gave_up in G'; rewrite P in G'; contradiction].
  all: destruct PC as [PC|PC]; [congruence|].
  all: destruct (inbound s) as [|i rest] eqn:Ei; [cbn in Qi; lia|].
  all: assert (NFi : i <> IFatal) by (cbn in PC; destruct PC as [PC|[PC _]]; [intros ->; discriminate PC | exact PC]).
  all: destruct (watch_progress_open s i rest R D T Ei NFi) as (e & s1 & We & S1 & NE & Lt).
  - exfalso. lia.
  - assert (Rd1 : ready s1 c q).
    { eapply ready_step; eauto using watch_event_quiet, keeps_watch. }
    assert (A1 : answered s1 q) by (rewrite Q in A; eapply answered_grows; eauto).
    assert (P1 : c_pc (callers s1 c) = PWaiting) by (rewrite (watch_step_pc _ _ _ c S1 We); exact P).
    assert (PC1 : path_clear s1 c q).
    { unfold path_clear. destruct (step_inbound _ _ _ S1) as [-> | [(i0 & -> & _) | (i0 & -> & Ei0)]].
      - right. rewrite Ei. exact PC.
      - cbn in We. contradiction.
      - rewrite Ei in Ei0. injection Ei0 as <- Er. cbn in PC. rewrite <- Er. destruct PC as [Qh|[_ PC]]; [left | now right].
        (* Watch has just consumed the response to c: it is in c's channel *)
        pose proof Rd1 as (ER1 & So1 & Q1 & _).
        pose proof (once_inv s ER c So) as On. rewrite Ei, G, Q in On.
        unfold qitems in On. cbn [filter] in On. rewrite Qh in On. cbn [List.length] in On.
        rewrite <- Q1 in A1. destruct (not_lost s1 ER1 c So1 A1) as [Q'|[G1|G1]]; [| exact G1 |].
        + rewrite Q1, <- Er in Q'. unfold qitems in Q'. lia.
        + unfold gave_up in G1. rewrite P1 in G1. contradiction. }
    destruct (IH s1) as (t & s2 & m & Ht & Hf & Rd2 & P2 & M2); [lia | exact Rd1 | exact A1 | exact PC1 | exact P1 |].
    exists (e :: t), s2, m. cbn [run]. rewrite S1. split; [exact Ht|]. split; [constructor; assumption|].
    split; [exact Rd2|]. split; assumption.
Qed.

(* ---------------------------------------------------------- stage 3: the caller takes its response and returns *)
Lemma finish_closing s c m : c_pc (callers s c) = PClosing (ROk m) ->
  exists t s', run fixed s t = Some s' /\ Forall (sub_event c) t /\ c_pc (callers s' c) = PReturned (ROk m).
Proof.
  intros P. exists [CloseFinish c]. cbn [run]. unfold step. rewrite P. cbn [v_watch_closes fixed]. eexists.
  split; [reflexivity|]. split; [repeat constructor|]. sproj. now rewrite upd_same.
Qed.

Lemma finish_leaving s c m : c_pc (callers s c) = PLeaving (ROk m) ->
  exists t s', run fixed s t = Some s' /\ Forall (sub_event c) t /\ c_pc (callers s' c) = PReturned (ROk m).
Proof.
  intros P. destruct (step fixed s (Unregister c)) as [s1|] eqn:S; [|unfold step in S; rewrite P in S; discriminate].
  assert (P1 : c_pc (callers s1 c) = after_call (callers s c) (ROk m)).
  { unfold step in S. rewrite P in S. injection S as <-. sproj. now rewrite upd_same. }
  unfold after_call in P1. destruct (close_like (c_kind (callers s c))).
  - destruct (finish_closing s1 c m P1) as (t & s2 & Ht & Hf & P2).
    exists (Unregister c :: t), s2. cbn [run]. rewrite S. repeat split; auto. constructor; [reflexivity | exact Hf].
  - exists [Unregister c], s1. cbn [run]. rewrite S. repeat split; auto. repeat constructor.
Qed.

Lemma finish_waiting s c m : c_pc (callers s c) = PWaiting -> c_mail (callers s c) = Some m ->
  exists t s', run fixed s t = Some s' /\ Forall (sub_event c) t /\ c_pc (callers s' c) = PReturned (ROk m).
Proof.
  intros P M. destruct (step fixed s (WakeResp c)) as [s1|] eqn:S; [|unfold step in S; rewrite P, M in S; discriminate].
  assert (P1 : c_pc (callers s1 c) = PLeaving (ROk m)).
  { unfold step in S. rewrite P, M in S. injection S as <-. sproj. now rewrite upd_same. }
  destruct (finish_leaving s1 c m P1) as (t & s2 & Ht & Hf & P2).
  exists (WakeResp c :: t), s2. cbn [run]. rewrite S. repeat split; auto. constructor; [reflexivity | exact Hf].
Qed.

Lemma Forall_sub_live c t : Forall (sub_event c) t -> Forall (live_event c) t.
Proof. apply Forall_impl. intros e H. now left. Qed.
Lemma Forall_watch_live c t : Forall watch_event t -> Forall (live_event c) t.
Proof. apply Forall_impl. intros e H. now right. Qed.

(* from the select of Submit *)
Lemma live_from_waiting s c q :
  ready s c q -> answered s q -> path_clear s c q -> c_pc (callers s c) = PWaiting ->
  exists t s' m, run fixed s t = Some s' /\ Forall (live_event c) t /\ c_pc (callers s' c) = PReturned (ROk m).
Proof.
  intros Rd A PC P.
  destruct (watch_delivers_n c q _ s (le_n _) Rd A PC P) as (t1 & s1 & m & H1 & F1 & Rd1 & P1 & M1).
  destruct (finish_waiting s1 c m P1 M1) as (t2 & s2 & H2 & F2 & P2).
  exists (t1 ++ t2), s2, m. split; [eapply run_cat; eauto|]. split; [|exact P2].
  apply Forall_app. split; [now apply Forall_watch_live | now apply Forall_sub_live].
Qed.

Lemma no_fail s c : ereach s -> sub s c -> done s = false -> c_ctx (callers s c) = false ->
  is_ok (c_frame (callers s c)) = true -> transport_closed s = false -> ~ failed (c_pc (callers s c)).
Proof.
  intros ER So D X F T Fl. pose proof (ereach_reachable s ER) as R.
  destruct (fail_cause s R c Fl) as [E|[E|E]]; try congruence.
  unfold can_write in E. pose proof (sub_pos s ER c So) as Pos. apply Z.ltb_lt in Pos. rewrite Pos, T in E.
  destruct (c_frame (callers s c)); discriminate.
Qed.

(* C05, the clause "every Submit call returns, without error, the PDU whose
   sequence number equals that of its own request", as existence of a run:
   from ANY state reachable under the hypotheses of the property, for ANY call
   c of Submit in progress — wherever it is: about to register, about to hand
   its frame to the transport, inside the transport Write, in its select, on its
   way out —, with Done() open, its own context not done, a frame that Marshal
   produced, the transport not closed, the response sent by the peer, and that
   response already with c or readable with no frame BEFORE it at which Watch
   gives up: the steps of c itself, of Watch and of a receiving application
   lead c to return a PDU with its own sequence number. *)
Lemma submit_live s c :
  ereach s -> sub s c -> done s = false -> c_ctx (callers s c) = false ->
  is_ok (c_frame (callers s c)) = true -> transport_closed s = false ->
  answered s (c_seq (callers s c)) ->
  (got s c = true \/ clear_to (c_seq (callers s c)) (inbound s)) ->
  exists t s' m, run fixed s t = Some s' /\ Forall (live_event c) t /\
                 c_pc (callers s' c) = PReturned (ROk m) /\ snd m = c_seq (callers s c).
Proof.
  intros ER So D X F T A PC. pose proof (ereach_reachable s ER) as R.
  assert (Rd : ready s c (c_seq (callers s c))) by (repeat split; auto; apply So).
  assert (Main : exists t s' m, run fixed s t = Some s' /\ Forall (live_event c) t /\ c_pc (callers s' c) = PReturned (ROk m)).
  { destruct (pc_shapes s R c) as (NW & NS). destruct (NS (proj2 So)) as (N1 & N2 & N3).
    pose proof (no_fail s c ER So D X F T) as NoFail.
    assert (Early : stage1 s c (c_seq (callers s c)) ->
              exists t s' m, run fixed s t = Some s' /\ Forall (live_event c) t /\ c_pc (callers s' c) = PReturned (ROk m)).
    { intros (t1 & s1 & H1 & F1 & Rd1 & P1 & I1 & _ & B1 & G1).
      destruct (live_from_waiting s1 c _ Rd1) as (t2 & s2 & m & H2 & F2 & P2);
        [unfold answered in *; congruence | unfold path_clear; rewrite G1, B1; exact PC | exact P1 |].
      exists (t1 ++ t2), s2, m. split; [eapply run_cat; eauto|]. split; [|exact P2].
      apply Forall_app. split; [now apply Forall_sub_live | exact F2]. }
    destruct (c_pc (callers s c)) as [| | | | | |r|r|r] eqn:P.
    - exfalso. now apply (proj1 So).
    - apply Early. apply (to_waiting s c _ Rd). auto.
    - apply Early. apply (to_waiting s c _ Rd). auto.
    - apply Early. apply (to_waiting s c _ Rd). auto.
    - congruence.
    - apply (live_from_waiting s c _ Rd A PC P).
    - destruct r as [m| |]; [|congruence | exfalso; apply NoFail; exact I].
      destruct (finish_leaving s c m P) as (t & s' & Ht & Hf & P'). exists t, s', m. repeat split; auto. now apply Forall_sub_live.
    - destruct r as [m| |]; [|congruence | exfalso; apply NoFail; exact I].
      destruct (finish_closing s c m P) as (t & s' & Ht & Hf & P'). exists t, s', m. repeat split; auto. now apply Forall_sub_live.
    - destruct r as [m| |]; [|congruence | exfalso; apply NoFail; exact I].
      exists [], s, m. repeat split; auto. }
  destruct Main as (t & s' & m & Ht & Hf & P'). exists t, s', m. repeat split; auto.
  destruct (run_attrs _ _ _ _ c Ht (proj1 So)) as (_ & <-).
  apply (own_response s' (reachable_run _ _ _ _ R Ht) c m). right. rewrite P'. reflexivity.
Qed.

(* The same when the peer has not answered yet: c's own steps bring its request to
   the transport, the peer then sends the response (the ONE event of the peer in the
   run; any PDU p carrying c's sequence number; the stream has not ended), and the
   steps of c, Watch and the application lead c to return. *)
Lemma submit_live_unanswered s c p :
  ereach s -> sub s c -> done s = false -> c_ctx (callers s c) = false ->
  is_ok (c_frame (callers s c)) = true -> transport_closed s = false ->
  ~ answered s (c_seq (callers s c)) -> in_end s = false -> ~ In IFatal (inbound s) ->
  snd p = c_seq (callers s c) ->
  exists t1 t2 s' m, run fixed s (t1 ++ PeerFrame (IPdu p) :: t2) = Some s' /\
                 Forall (sub_event c) t1 /\ Forall (live_event c) t2 /\
                 c_pc (callers s' c) = PReturned (ROk m) /\ snd m = c_seq (callers s c).
Proof.
  intros ER So D X F T NA IE NF Ep. pose proof (ereach_reachable s ER) as R.
  set (q := c_seq (callers s c)) in *.
  assert (Rd : ready s c q) by (split; [|split; [|split; [|split; [|split; [|split]]]]]; auto).
  (* c is before its select or in it, with nothing received *)
  assert (St : stage1 s c q).
  { assert (G : got s c = false).
    { destruct (got s c) eqn:G; [|reflexivity]. exfalso. apply NA. now apply got_answered. }
    destruct (pc_shapes s R c) as (NW & NS). destruct (NS (proj2 So)) as (N1 & N2 & N3).
    pose proof (no_fail s c ER So D X F T) as NoFail.
    unfold got, resp_of in G.
    destruct (c_pc (callers s c)) as [| | | | | |r|r|r] eqn:P;
      try (apply (to_waiting s c q Rd); auto; fail);
      try congruence;
      try (destruct r as [m| |]; [destruct (c_mail (callers s c)); discriminate G | congruence | exfalso; apply NoFail; exact I]).
    - exfalso. now apply (proj1 So).
    - exists [], s. split; [reflexivity|]. split; [constructor|]. split; [exact Rd|]. auto. }
  destruct St as (t1 & s1 & H1 & F1 & Rd1 & P1 & I1 & E1 & B1 & _).
  pose proof Rd1 as (ER1 & So1 & Q1 & D1 & X1 & Fr1 & T1). pose proof (ereach_reachable s1 ER1) as R1.
  (* the peer answers *)
  destruct (step fixed s1 (PeerFrame (IPdu p))) as [s2|] eqn:S2.
  2:{ unfold step in S2. rewrite E1, IE in S2. discriminate. }
  assert (Env : env_ok s1 (PeerFrame (IPdu p))).
  { cbn. intros _. split; [unfold answered in *; rewrite I1, Ep; exact NA|].
    intros c' So' Eq'. assert (c' = c) by (apply (distinct_inv s1 ER1); auto; congruence). subst c'.
    destruct (c_wrote (callers s1 c)) eqn:W; [reflexivity|].
    apply (proj1 (wrote_pc fixed s1 R1 c)) in W. rewrite P1 in W. contradiction. }
  assert (Sh : inbound s2 = inbound s1 ++ [IPdu p] /\ injected s2 = injected s1 ++ [IPdu p] /\ callers s2 = callers s1 /\
               done s2 = done s1 /\ transport_closed s2 = transport_closed s1).
  { unfold step in S2. rewrite E1, IE in S2. injection S2 as <-. sproj. repeat split; reflexivity. }
  destruct Sh as (Si & Sj & Sc & Sd & St).
  assert (Rd2 : ready s2 c q).
  { split; [eapply er_step; eauto|]. split; [eapply step_sub; eauto|]. rewrite Sc, Sd, St. auto. }
  assert (A2 : answered s2 q).
  { unfold answered. rewrite Sj, peer_seqs_app, in_app_iff. right. cbn. left. exact Ep. }
  assert (P2 : c_pc (callers s2 c) = PWaiting) by (rewrite Sc; exact P1).
  assert (PC2 : path_clear s2 c q).
  { right. rewrite Si, B1. apply clear_to_snoc; [exact NF|]. cbn. apply Z.eqb_eq. exact Ep. }
  destruct (live_from_waiting s2 c q Rd2 A2 PC2 P2) as (t2 & s3 & m & H3 & F3 & P3).
  exists t1, t2, s3, m.
  assert (Hrun : run fixed s (t1 ++ PeerFrame (IPdu p) :: t2) = Some s3).
  { eapply run_cat; [exact H1|]. cbn [run]. rewrite S2. exact H3. }
  split; [exact Hrun|]. split; [exact F1|]. split; [exact F3|]. split; [exact P3|].
  destruct (run_attrs _ _ _ _ c Hrun (proj1 So)) as (_ & Es). unfold q. rewrite <- Es.
  apply (own_response s3 (reachable_run _ _ _ _ R Hrun) c m). right. rewrite P3. reflexivity.
Qed.

(* non-vacuity: call 1 is inside the transport Write; its response is readable
   behind an unsolicited PDU and an undecodable frame, and a frame at which Watch
   will give up FOLLOWS it; call 0 has registered and not sent anything *)
Definition live_trace : list event :=
  [WatchLoop; Start 0 KSubmit 1 7%Z (Ok [7]); Start 1 KSubmit 2 8%Z (Ok [8]); Register 1; WireWrite 1;
   PeerFrame (IPdu (5, 99%Z)); PeerFrame (IBad 3%Z); PeerFrame (IPdu (2147483652, 8%Z)); Register 0].

Lemma submit_live_example :
  exists s, ereach s /\ sub s 1%nat /\ done s = false /\ c_ctx (callers s 1%nat) = false /\
            is_ok (c_frame (callers s 1%nat)) = true /\ transport_closed s = false /\
            answered s (c_seq (callers s 1%nat)) /\
            (got s 1%nat = true \/ clear_to (c_seq (callers s 1%nat)) (inbound s)) /\
            c_pc (callers s 1%nat) = PWriting /\ wpc s = WReading /\
            inbound s = [IPdu (5, 99%Z); IBad 3%Z; IPdu (2147483652, 8%Z); IFatal].
Proof.
  destruct (erunb fixed init (live_trace ++ [PeerFrame IFatal])) as [s|] eqn:E; [|vm_compute in E; discriminate].
  exists s. split; [eapply erunb_sound; [apply er_init | exact E]|].
  vm_compute in E. injection E as <-. unfold sub, live, answered. vm_compute.
  repeat split; auto; try discriminate.
  right. right. split; [discriminate|]. right. split; [discriminate|]. now left.
Qed.

Lemma submit_live_unanswered_example :
  exists s, ereach s /\ sub s 0%nat /\ done s = false /\ c_ctx (callers s 0%nat) = false /\
            is_ok (c_frame (callers s 0%nat)) = true /\ transport_closed s = false /\
            ~ answered s (c_seq (callers s 0%nat)) /\ in_end s = false /\ ~ In IFatal (inbound s) /\
            c_pc (callers s 0%nat) = PRegistered /\
            inbound s = [IPdu (5, 99%Z); IBad 3%Z; IPdu (2147483652, 8%Z)].
Proof.
  destruct (erunb fixed init live_trace) as [s|] eqn:E; [|vm_compute in E; discriminate].
  exists s. split; [eapply erunb_sound; [apply er_init | exact E]|].
  vm_compute in E. injection E as <-. unfold sub, live, answered. vm_compute.
  repeat split; auto; try discriminate; try (intros H; repeat (destruct H as [H|H]; try discriminate H); auto).
Qed.

(* ================================================================== C15: the keep-alive loop returns *)
(* a caller slot that was never used has the attributes of [no_caller] *)
Lemma none_kind s : reachable fixed s -> forall d, c_pc (callers s d) = PNone -> c_kind (callers s d) = KSend.
Proof.
  revert s. reach_ind.
  - reflexivity.
  - intros s e s' _ IH H d. destruct e; step_inv H; sproj; upd_cases; sproj; intros P;
      try discriminate P; try (apply IH; congruence); auto.
Qed.

(* the call the loop is inside is one it issued itself *)
Lemma ka_call_inv s : reachable fixed s ->
  (forall c, ka s = KInPing c -> c_kind (callers s c) = KPing /\ live s c) /\
  (forall c, ka s = KInClose c -> c_kind (callers s c) = KKaClose /\ live s c).
Proof.
  revert s. reach_ind.
  - cbn. split; discriminate.
  - intros s e s' R [I1 I2] H. unfold live in *.
    split; intros c0; destruct e; step_inv H; sproj; upd_cases; sproj; unfold ka_after;
      try (intros P; try discriminate P; try (injection P as <-);
           try (destruct (I1 _ P)); try (destruct (I2 _ P)); split; auto; congruence; fail).
    all: destruct k; intros P; try discriminate P; try (split; [reflexivity | discriminate]);
         try (injection P as ->; congruence);
         try (destruct (I1 _ P) as (? & X); congruence); try (destruct (I2 _ P) as (? & X); congruence);
         try (apply (I1 _ P)); try (apply (I2 _ P)).
Qed.

Lemma own_step_ka s e s' c : step fixed s e = Some s' -> own_event c e -> ka s' = ka s.
Proof. intros H Oe. destruct e; cbn in Oe; try contradiction; step_inv H; sproj; reflexivity. Qed.

Lemma own_run_ka c t : forall s s', run fixed s t = Some s' -> Forall (own_event c) t -> ka s' = ka s.
Proof.
  induction t as [|e t IH]; intros s s' H F; cbn [run] in H; [now injection H as <-|].
  destruct (step fixed s e) as [s1|] eqn:E; [|discriminate]. inversion F; subst.
  rewrite (IH _ _ H); [eapply own_step_ka; eauto | assumption].
Qed.

(* caller and goroutine identifiers not in use: the loop's next call can be issued *)
Lemma in_le_max l x : In x l -> (x <= list_max l)%nat.
Proof.
  intros H. pose proof (proj1 (list_max_le l (list_max l)) (le_n _)) as F.
  rewrite Forall_forall in F. now apply F.
Qed.

Lemma fresh_caller s : reachable fixed s -> exists c, c_pc (callers s c) = PNone.
Proof.
  intros R. exists (S (list_max (started s))).
  destruct (c_pc (callers s (S (list_max (started s))))) eqn:P; [reflexivity|..];
    (assert (L : live s (S (list_max (started s)))) by (unfold live; congruence);
     apply (proj2 (started_live fixed s R)) in L; apply in_le_max in L; lia).
Qed.

Lemma fresh_gor s : exists g, gor_free s g = true.
Proof.
  exists (S (list_max (map (fun c => c_gor (callers s c)) (started s)))). unfold gor_free.
  apply forallb_forall. intros c Hc. apply orb_true_iff. left. apply negb_true_iff. apply Nat.eqb_neq.
  assert (In (c_gor (callers s c)) (map (fun c => c_gor (callers s c)) (started s))) by (apply in_map_iff; eauto).
  apply in_le_max in H. lia.
Qed.

(* The loop issues a call: in the model a [Start] event (the loop's goroutine
   calling Submit / Close is an event like every other call being issued). *)
Lemma ka_start s k q f : reachable fixed s -> ka_allows s k = true -> (k = KPing \/ k = KKaClose) ->
  exists c g s1, step fixed s (Start c k g q f) = Some s1 /\ ka s1 = ka_after k c (ka s) /\ done s1 = done s.
Proof.
  intros R A Hk. destruct (fresh_caller s R) as (c & P). destruct (fresh_gor s) as (g & G).
  exists c, g. unfold step. rewrite P, G, A. eexists. split; [reflexivity|]. sproj. split; reflexivity.
Qed.

(* the steps of the keep-alive loop: its own ([KaNext]: it looks at what its call
   returned; [KaSeeDone]: its select takes the Done() case), the issue of its
   own calls, and the steps of those calls — among them [WriteReturn]: the
   transport lets the call's Write return, the only thing needed from outside.
   The calls are identified by their kind in the final state (attributes of an
   issued call never change). *)
Definition ka_event (s' : state) (e : event) : Prop :=
  match e with
  | KaNext | KaSeeDone => True
  | Start _ k _ _ _ => k = KPing \/ k = KKaClose
  | Register d | WireWrite d | SendFail d | WriteReturn d | WakeDone d | Unregister d | CloseFinish d =>
    visible s' d = false
  | _ => False
  end.
(* ... and the expiry of the context of such a call (Close: one second; enquire_link: its timeout) *)
Definition ka_event_t (s' : state) (e : event) : Prop :=
  ka_event s' e \/ match e with CancelCtx d | WakeCtx d => visible s' d = false | _ => False end.

Lemma visible_mono s1 t s2 d : reachable fixed s1 -> run fixed s1 t = Some s2 -> visible s1 d = false -> visible s2 d = false.
Proof.
  intros R H V. unfold visible in *.
  destruct (c_pc (callers s1 d)) eqn:P.
  1:{ rewrite (none_kind s1 R d P) in V. discriminate. }
  all: (assert (L : live s1 d) by (unfold live; congruence); destruct (run_attrs _ _ _ _ d H L) as (-> & _); exact V).
Qed.

Lemma ka_event_mono s1 t s2 e : reachable fixed s1 -> run fixed s1 t = Some s2 -> ka_event s1 e -> ka_event s2 e.
Proof. intros R H. destruct e; cbn; auto; eapply visible_mono; eauto. Qed.
Lemma ka_event_t_mono s1 t s2 e : reachable fixed s1 -> run fixed s1 t = Some s2 -> ka_event_t s1 e -> ka_event_t s2 e.
Proof.
  intros R H [K|K]; [left; eapply ka_event_mono; eauto|]. right. destruct e; auto; eapply visible_mono; eauto.
Qed.

Lemma own_ka_event s c e : visible s c = false -> own_event c e -> ka_event s e.
Proof. intros V Oe. destruct e; cbn in *; try contradiction; subst; auto. Qed.

Lemma ka_chain s t1 s1 t2 s2 :
  reachable fixed s -> run fixed s t1 = Some s1 -> Forall (ka_event s1) t1 ->
  run fixed s1 t2 = Some s2 -> Forall (ka_event s2) t2 ->
  run fixed s (t1 ++ t2) = Some s2 /\ Forall (ka_event s2) (t1 ++ t2).
Proof.
  intros R H1 F1 H2 F2. split; [eapply run_cat; eauto|]. apply Forall_app. split; [|exact F2].
  eapply Forall_impl; [|exact F1]. intros e. eapply ka_event_mono; eauto using reachable_run.
Qed.
Lemma ka_chain_t s t1 s1 t2 s2 :
  reachable fixed s -> run fixed s t1 = Some s1 -> Forall (ka_event_t s1) t1 ->
  run fixed s1 t2 = Some s2 -> Forall (ka_event_t s2) t2 ->
  run fixed s (t1 ++ t2) = Some s2 /\ Forall (ka_event_t s2) (t1 ++ t2).
Proof.
  intros R H1 F1 H2 F2. split; [eapply run_cat; eauto|]. apply Forall_app. split; [|exact F2].
  eapply Forall_impl; [|exact F1]. intros e. eapply ka_event_t_mono; eauto using reachable_run.
Qed.

Definition ka_exits (s : state) : Prop :=
  exists t s', run fixed s t = Some s' /\ ka s' = KExited /\ Forall (ka_event s') t.

Lemma ka_exits_pre s t1 s1 : reachable fixed s -> run fixed s t1 = Some s1 -> Forall (ka_event s1) t1 -> ka_exits s1 -> ka_exits s.
Proof.
  intros R H1 F1 (t2 & s2 & H2 & K2 & F2). destruct (ka_chain s t1 s1 t2 s2 R H1 F1 H2 F2) as (H & F).
  exists (t1 ++ t2), s2. auto.
Qed.

(* waiting for the tick with Done() closed *)
Lemma ka_exit_wait s : ka s = KWaitTick -> done s = true -> ka_exits s.
Proof.
  intros K D. destruct (ka_exit_enabled s K D) as (s' & S & K').
  exists [KaSeeDone], s'. cbn [run]. rewrite S. repeat split; auto. repeat constructor.
Qed.

Lemma returned_pc p : is_returned p = true -> exists r, p = PReturned r.
Proof. destruct p; try discriminate. eauto. Qed.

(* inside the Close it called after a failed enquire_link *)
Lemma ka_exit_inclose s c : reachable fixed s -> done s = true -> ka s = KInClose c -> ka_exits s.
Proof.
  intros R D K. destruct (ka_call_inv s R) as (_ & I2). destruct (I2 c K) as (Kd & L).
  destruct (caller_finishes s c R D L) as (t1 & s1 & H1 & Ret & F1).
  pose proof (own_run_ka c t1 s s1 H1 F1) as K1. rewrite K in K1.
  destruct (returned_pc _ Ret) as (r & P1).
  assert (V1 : visible s1 c = false).
  { unfold visible. destruct (run_attrs _ _ _ _ c H1 L) as (-> & _). now rewrite Kd. }
  assert (S2 : step fixed s1 KaNext = Some (set_ka s1 KWaitTick)) by (unfold step; now rewrite K1, P1).
  apply (ka_exits_pre s (t1 ++ [KaNext]) (set_ka s1 KWaitTick) R).
  - eapply run_snoc; eauto.
  - apply Forall_app. split; [|repeat constructor].
    eapply Forall_impl; [|exact F1]. intros e Oe. eapply own_ka_event; [|exact Oe]. exact V1.
  - apply ka_exit_wait; [reflexivity|]. sproj. eapply done_run; eauto.
Qed.

(* about to call Close *)
Lemma ka_exit_needclose s (q : Z) (f : outcome bytes) : reachable fixed s -> done s = true -> ka s = KNeedClose -> ka_exits s.
Proof.
  intros R D K. destruct (ka_start s KKaClose q f R) as (c & g & s1 & S1 & K1 & D1); [unfold ka_allows; now rewrite K | auto |].
  apply (ka_exits_pre s [Start c KKaClose g q f] s1 R).
  - cbn [run]. now rewrite S1.
  - constructor; [cbn; tauto | constructor].
  - apply (ka_exit_inclose s1 c); [eapply reachable_step; eauto | congruence | exact K1].
Qed.

(* inside its enquire_link *)
Lemma ka_exit_inping s c (q : Z) (f : outcome bytes) : reachable fixed s -> done s = true -> ka s = KInPing c -> ka_exits s.
Proof.
  intros R D K. destruct (ka_call_inv s R) as (I1 & _). destruct (I1 c K) as (Kd & L).
  destruct (caller_finishes s c R D L) as (t1 & s1 & H1 & Ret & F1).
  pose proof (own_run_ka c t1 s s1 H1 F1) as K1. rewrite K in K1.
  destruct (returned_pc _ Ret) as (r & P1).
  assert (V1 : visible s1 c = false).
  { unfold visible. destruct (run_attrs _ _ _ _ c H1 L) as (-> & _). now rewrite Kd. }
  assert (D1 : done s1 = true) by (eapply done_run; eauto).
  assert (R1 : reachable fixed s1) by (eapply reachable_run; eauto).
  destruct (step fixed s1 KaNext) as [s2|] eqn:S2; [|unfold step in S2; rewrite K1, P1 in S2; destruct r; discriminate].
  assert (Fa : Forall (ka_event s2) (t1 ++ [KaNext])).
  { apply Forall_app. split; [|repeat constructor].
    eapply Forall_impl; [|exact F1]. intros e Oe. eapply own_ka_event; [|exact Oe].
    eapply (visible_mono s1 [KaNext]); eauto. cbn [run]. now rewrite S2. }
  apply (ka_exits_pre s (t1 ++ [KaNext]) s2 R); [eapply run_snoc; eauto | exact Fa |].
  assert (R2 : reachable fixed s2) by (eapply reachable_step; eauto).
  assert (D2 : done s2 = true) by (eapply done_stable; eauto).
  unfold step in S2. rewrite K1, P1 in S2.
  destruct r; injection S2 as <-.
  - apply ka_exit_wait; auto.
  - apply (ka_exit_needclose _ q f); auto.
  - apply (ka_exit_needclose _ q f); auto.
Qed.

(* about to send its enquire_link *)
Lemma ka_exit_ready s (qp : Z) (fp : outcome bytes) (qc : Z) (fc : outcome bytes) : reachable fixed s -> done s = true -> ka s = KReady -> ka_exits s.
Proof.
  intros R D K. destruct (ka_start s KPing qp fp R) as (c & g & s1 & S1 & K1 & D1); [unfold ka_allows; now rewrite K | auto |].
  apply (ka_exits_pre s [Start c KPing g qp fp] s1 R).
  - cbn [run]. now rewrite S1.
  - constructor; [cbn; tauto | constructor].
  - apply (ka_exit_inping s1 c qc fc); [eapply reachable_step; eauto | congruence | exact K1].
Qed.

(* C15, the keep-alive loop: once Done() is closed the loop reaches its return
   from EVERY state it can be in — about to send an enquire_link, inside that
   Submit (wherever the call is), about to call Close after a failure, inside
   that Close, waiting for the tick —, through its own steps, the calls it
   issues (whatever sequence numbers [qp], [qc] and frames [fp], [fc] its
   enquire_link and its unbind get) and the steps of those calls; the only thing
   needed from outside is that the transport lets a Write of these calls
   return.  No timer is needed: with Done() closed every select of these calls
   has a ready case. *)
Lemma ka_exit_any s (qp : Z) (fp : outcome bytes) (qc : Z) (fc : outcome bytes) : reachable fixed s -> done s = true -> ka s <> KOff ->
  exists t s', run fixed s t = Some s' /\ ka s' = KExited /\ Forall (ka_event s') t.
Proof.
  intros R D NK. fold (ka_exits s). destruct (ka s) eqn:K.
  - congruence.
  - now apply (ka_exit_ready s qp fp qc fc).
  - now apply (ka_exit_inping s c qc fc).
  - now apply (ka_exit_needclose s qc fc).
  - now apply (ka_exit_inclose s c).
  - now apply ka_exit_wait.
  - exists [], s. repeat split; auto.
Qed.

(* ------------------------------------------------------------------ after a failed enquire_link, Done() still open *)
(* a call runs to its return, whatever the state of the connection, once its own
   context expires: its own steps, the transport letting its Write return, the
   expiry ([CancelCtx]) and its select taking that case ([WakeCtx]) *)
Definition timed_event (c : nat) (e : event) : Prop :=
  match e with
  | Register d | WireWrite d | SendFail d | WriteReturn d | CancelCtx d | WakeCtx d | Unregister d | CloseFinish d => d = c
  | _ => False
  end.
Definition tmeasure (s : state) (c : nat) : nat :=
  2 * rank (c_pc (callers s c)) + (if c_ctx (callers s c) then 0 else 1).

Ltac prog_t :=
  eexists; (split; [reflexivity|]); (split; [reflexivity|]); unfold live; sproj; rewrite ?upd_same; sproj;
  unfold after_call; repeat match goal with |- context [close_like ?k] => destruct (close_like k) end;
  repeat match goal with |- context [submit_like ?k] => destruct (submit_like k) end;
  repeat match goal with |- context [c_ctx ?k] => destruct (c_ctx k) end;
  cbn; repeat split; auto; try discriminate; try lia.

Lemma caller_progress_t s c :
  reachable fixed s -> live s c -> is_returned (c_pc (callers s c)) = false ->
  exists e s', timed_event c e /\ step fixed s e = Some s' /\ live s' c /\ (tmeasure s' c < tmeasure s c)%nat.
Proof.
  intros R L NR. unfold live, tmeasure in *. destruct (pc_shapes s R c) as (NW & _).
  destruct (c_pc (callers s c)) eqn:P; try congruence; try discriminate.
  - (* PStarted *)
    destruct (submit_like (c_kind (callers s c))) eqn:K.
    + exists (Register c). unfold step. rewrite K, P. cbn [v_reg_first fixed]. prog_t.
    + destruct (can_write s (callers s c)) eqn:CW.
      * exists (WireWrite c). unfold step, at_send. rewrite P, K, CW. cbn [negb andb v_reg_first fixed]. prog_t.
      * exists (SendFail c). unfold step, at_send. rewrite P, K, CW. cbn [negb andb v_reg_first fixed]. prog_t.
  - (* PRegistered *)
    assert (K : submit_like (c_kind (callers s c)) = true) by (apply (leaving_sub s R); now left).
    destruct (can_write s (callers s c)) eqn:CW.
    + exists (WireWrite c). unfold step, at_send. rewrite P, K, CW. cbn [negb andb v_reg_first fixed]. prog_t.
    + exists (SendFail c). unfold step, at_send. rewrite P, K, CW. cbn [negb andb v_reg_first fixed]. prog_t.
  - exists (WriteReturn c). unfold step. rewrite P. prog_t.
  - (* PWaiting: the context expires, the select takes that case *)
    destruct (c_ctx (callers s c)) eqn:X.
    + exists (WakeCtx c). unfold step. rewrite P, X. prog_t.
    + exists (CancelCtx c). unfold step. rewrite P. eexists. split; [reflexivity|]. split; [reflexivity|].
      unfold live. sproj. rewrite upd_same. sproj. rewrite P. cbn. split; [discriminate | lia].
  - exists (Unregister c). unfold step. rewrite P. prog_t.
  - exists (CloseFinish c). unfold step. rewrite P. cbn [v_watch_closes fixed]. destruct r; prog_t.
Qed.

Lemma caller_finishes_t_n n : forall s c,
  (tmeasure s c <= n)%nat -> reachable fixed s -> live s c ->
  exists t s', run fixed s t = Some s' /\ is_returned (c_pc (callers s' c)) = true /\ Forall (timed_event c) t.
Proof.
  induction n as [|n IH]; intros s c Hr R L; destruct (is_returned (c_pc (callers s c))) eqn:Ret.
  1,3: exists [], s; repeat split; auto.
  all: destruct (caller_progress_t s c R L Ret) as (e & s1 & Oe & S1 & L1 & Lt).
  - exfalso. lia.
  - destruct (IH s1 c) as (t & s' & Ht & Hret & Hf); [lia | eauto using reachable_step | exact L1 |].
    exists (e :: t), s'. cbn [run]. rewrite S1. repeat split; auto.
Qed.

Lemma timed_step_ka s e s' c : step fixed s e = Some s' -> timed_event c e -> ka s' = ka s.
Proof. intros H Oe. destruct e; cbn in Oe; try contradiction; step_inv H; sproj; reflexivity. Qed.

Lemma timed_run_ka c t : forall s s', run fixed s t = Some s' -> Forall (timed_event c) t -> ka s' = ka s.
Proof.
  induction t as [|e t IH]; intros s s' H F; cbn [run] in H; [now injection H as <-|].
  destruct (step fixed s e) as [s1|] eqn:E; [|discriminate]. inversion F; subst.
  rewrite (IH _ _ H); [eapply timed_step_ka; eauto | assumption].
Qed.

Lemma timed_ka_event s c e : visible s c = false -> timed_event c e -> ka_event_t s e.
Proof.
  intros V Oe. destruct e; cbn in Oe; try contradiction; subst; try (left; exact V); right; exact V.
Qed.

Definition ka_exits_t (s : state) : Prop :=
  exists t s', run fixed s t = Some s' /\ ka s' = KExited /\ done s' = true /\ Forall (ka_event_t s') t.

Lemma ka_exit_inclose_t s c : reachable fixed s -> ka s = KInClose c -> ka_exits_t s.
Proof.
  intros R K. destruct (ka_call_inv s R) as (_ & I2). destruct (I2 c K) as (Kd & L).
  destruct (caller_finishes_t_n _ s c (le_n _) R L) as (t1 & s1 & H1 & Ret & F1).
  pose proof (timed_run_ka c t1 s s1 H1 F1) as K1. rewrite K in K1.
  destruct (returned_pc _ Ret) as (r & P1).
  assert (R1 : reachable fixed s1) by (eapply reachable_run; eauto).
  destruct (run_attrs _ _ _ _ c H1 L) as (Kd1 & _). rewrite Kd in Kd1.
  assert (D1 : done s1 = true).
  { apply (proj1 (close_returned_done s1 R1) c r); [now rewrite Kd1 | exact P1]. }
  exists (t1 ++ [KaNext; KaSeeDone]), (set_ka (set_ka s1 KWaitTick) KExited).
  split.
  { eapply run_cat; [exact H1|]. cbn [run]. unfold step at 1. rewrite K1, P1.
    unfold step. sproj. now rewrite D1. }
  sproj. split; [reflexivity|]. split; [exact D1|].
  apply Forall_app. split; [|repeat constructor; left; exact I].
  eapply Forall_impl; [|exact F1]. intros e Oe. eapply timed_ka_event; [|exact Oe].
  unfold visible. sproj. now rewrite Kd1.
Qed.

(* C15, the keep-alive loop after a failed enquire_link (it has stopped its
   ticker): whether or not Done() is closed already, from the point where it is
   about to call Close, or inside that Close wherever the call is, the loop
   reaches its return and Done() is closed: its own steps, the issue of Close
   (unbind with any sequence number and frame), the steps of that call, and from
   outside: the transport letting the call's Write return and the one-second
   context of Close expiring ([CancelCtx] of that call; its select then takes
   that case, [WakeCtx]).  No answer of the peer is needed. *)
Lemma ka_exit_failed s (qc : Z) (fc : outcome bytes) : reachable fixed s ->
  (ka s = KNeedClose \/ exists c, ka s = KInClose c) ->
  exists t s', run fixed s t = Some s' /\ ka s' = KExited /\ done s' = true /\ Forall (ka_event_t s') t.
Proof.
  intros R [K|(c & K)]; [|now apply (ka_exit_inclose_t s c)].
  destruct (ka_start s KKaClose qc fc R) as (c & g & s1 & S1 & K1 & D1); [unfold ka_allows; now rewrite K | auto |].
  assert (R1 : reachable fixed s1) by (eapply reachable_step; eauto).
  destruct (ka_exit_inclose_t s1 c R1 K1) as (t2 & s2 & H2 & K2 & D2 & F2).
  destruct (ka_chain_t s [Start c KKaClose g qc fc] s1 t2 s2 R) as (H & F); auto.
  - cbn [run]. now rewrite S1.
  - constructor; [left; cbn; tauto | constructor].
  - exists ([Start c KKaClose g qc fc] ++ t2), s2. auto.
Qed.

(* non-vacuity: Done() closed by the parent while the loop is inside its
   enquire_link, which is inside the transport Write *)
Definition ka_trace : list event :=
  [WatchLoop; KaStart; Start 0 KPing 9 5%Z (Ok [5]); Register 0; WireWrite 0; CancelParent].
Lemma ka_example :
  exists s, reachable fixed s /\ done s = true /\ ka s = KInPing 0 /\ c_pc (callers s 0%nat) = PWriting /\
            ticker_stopped s = false.
Proof.
  destruct (run fixed init ka_trace) as [s|] eqn:E; [|vm_compute in E; discriminate].
  exists s. split; [exists ka_trace; exact E|]. vm_compute in E. injection E as <-. repeat split; reflexivity.
Qed.
(* the enquire_link timed out, the loop stopped its ticker and is about to call Close; Done() is open *)
Definition ka_failed_trace : list event :=
  [WatchLoop; KaStart; Start 0 KPing 9 5%Z (Ok [5]); Register 0; WireWrite 0; WriteReturn 0;
   CancelCtx 0; WakeCtx 0; Unregister 0; KaNext].
Lemma ka_failed_example :
  exists s, reachable fixed s /\ done s = false /\ ka s = KNeedClose /\ ticker_stopped s = true /\
            c_pc (callers s 0%nat) = PReturned RErr.
Proof.
  destruct (run fixed init ka_failed_trace) as [s|] eqn:E; [|vm_compute in E; discriminate].
  exists s. split; [exists ka_failed_trace; exact E|]. vm_compute in E. injection E as <-. repeat split; reflexivity.
Qed.

(* ================================================================== C15: Watch and the consumer of PDU() *)
(* [C15_watch_exit] lets the application receive ([AppRecv] is one of its
   [watch_event]s).  That hypothesis is needed: the send on the unbuffered
   queue is left only by a receive or — Done() closed — by giving it up. *)
Lemma sending_step s e s' p : wpc s = WSending p -> step fixed s e = Some s' ->
  wpc s' = WSending p \/ e = AppRecv \/ (e = WatchSeeDone /\ done s = true).
Proof.
  intros W H. destruct e; step_inv H; sproj; auto; try congruence.
  right; right. bools. auto.
Qed.

Definition no_teardown (e : event) : Prop :=
  match e with CancelParent | CloseFinish _ => False | _ => True end.

Lemma sending_stuck_step s e s' p :
  wpc s = WSending p -> done s = false -> step fixed s e = Some s' -> e <> AppRecv -> no_teardown e ->
  wpc s' = WSending p /\ done s' = false.
Proof.
  intros W D H NA NT. destruct e; cbn in NT; try contradiction; step_inv H; sproj; auto; try congruence.
  bools. congruence.
Qed.

(* With nobody receiving from PDU(), Watch blocked in its send stays there and
   Done() stays open whatever else happens — EOF, errors and timeouts of the
   transport included — until the parent is cancelled or a Close finishes. *)
Lemma watch_needs_consumer t : forall s s' p,
  wpc s = WSending p -> done s = false -> run fixed s t = Some s' ->
  Forall (fun e => e <> AppRecv /\ no_teardown e) t -> wpc s' = WSending p /\ done s' = false.
Proof.
  induction t as [|e t IH]; intros s s' p W D H F; cbn [run] in H; [injection H as <-; auto|].
  destruct (step fixed s e) as [s1|] eqn:E; [|discriminate]. inversion F as [|? ? (NA & NT) F']; subst.
  destruct (sending_stuck_step _ _ _ _ W D E NA NT) as (W1 & D1). eapply IH; eauto.
Qed.

(* once Done() is closed it gives the send up, closes the queue and returns *)
Lemma sending_gives_up s p : wpc s = WSending p -> done s = true ->
  exists s', step fixed s WatchSeeDone = Some s' /\ wpc s' = WExited /\ queue_closed s' = true /\ done s' = true.
Proof. intros W D. unfold step. rewrite W, D. eexists. split; [reflexivity|]. sproj. auto. Qed.

(* Without a consumer, after the transport reported its end, Watch by its own
   steps either returns (Done() closed) or ends up blocked in the send of an
   unsolicited PDU that was still readable. *)
Definition watch_own (e : event) : Prop := e = WatchLoop \/ e = WatchStep.

Lemma watch_alone_n n : forall s,
  (wmeasure s <= n)%nat -> reachable fixed s -> ended s ->
  exists t s', run fixed s t = Some s' /\ Forall watch_own t /\
               ((wpc s' = WExited /\ done s' = true) \/ exists p, wpc s' = WSending p).
Proof.
  assert (Dec : forall s, (wpc s = WExited \/ exists p, wpc s = WSending p) \/ (wpc s <> WExited /\ forall p, wpc s <> WSending p)).
  { intros s; destruct (wpc s); eauto; right; split; intros; discriminate. }
  induction n as [|n IH]; intros s Hm R E; destruct (Dec s) as [[W|W]|(W & NS)].
  1,4: exists [], s; (split; [reflexivity|]); (split; [constructor|]); left; (split; [exact W | apply (proj1 (exited_inv s R W))]).
  1,3: exists [], s; (split; [reflexivity|]); (split; [constructor|]); right; exact W.
  all: destruct (watch_progress s R E W) as (e & s1 & We & S1 & E1 & Pr).
  all: assert (Oe : watch_own e) by
        (destruct e; cbn in We; try contradiction; unfold watch_own; auto;
         exfalso; unfold step in S1; destruct (wpc s) eqn:X; try discriminate S1; eapply NS; reflexivity).
  all: destruct Pr as [(X & D)|Lt].
  1,3: exists [e], s1; cbn [run]; rewrite S1; (split; [reflexivity|]); (split; [constructor; [exact Oe | constructor]|]); left; auto.
  - exfalso. lia.
  - destruct (IH s1) as (t & s' & Ht & Hf & Hw); [lia | eauto using reachable_step | exact E1 |].
    exists (e :: t), s'. cbn [run]. rewrite S1. repeat split; auto.
Qed.

Lemma watch_alone s : reachable fixed s -> ended s ->
  exists t s', run fixed s t = Some s' /\ Forall watch_own t /\
               ((wpc s' = WExited /\ done s' = true) \/ exists p, wpc s' = WSending p).
Proof. intros R E. exact (watch_alone_n _ s (le_n _) R E). Qed.

(* non-vacuity: the state of [c15_example]: EOF reported, an unsolicited PDU in Watch's hand, Done() open *)
Lemma sending_example :
  exists s, reachable fixed s /\ ended s /\ wpc s = WSending (5, 100%Z) /\ done s = false.
Proof. destruct c15_example as (s & R & E & W & D & _). exists s. auto. Qed.
