(* C14 — concurrent senders never interleave or tear frames on the wire. *)
From Coq Require Import List ZArith Lia Bool Arith.
From V Require Import Model.Base Model.ConnLTS Proofs.ConnBase.
Import ListNotations.
Open Scope N_scope.

Definition wire_callers (s : state) : list nat := map fst (wire_calls (wire s)).

Definition live (s : state) (c : nat) : Prop := c_pc (callers s c) <> PNone.

(* the attributes a call is issued with never change *)
Lemma step_attrs v s e s' c :
  step v s e = Some s' -> live s c ->
  c_kind (callers s' c) = c_kind (callers s c) /\ c_gor (callers s' c) = c_gor (callers s c) /\
  c_seq (callers s' c) = c_seq (callers s c) /\ c_frame (callers s' c) = c_frame (callers s c).
Proof.
  intros H L. unfold live in L. destruct e; step_inv H; sproj; upd_cases; sproj; auto; try congruence.
Qed.

(* ------------------------------------------------------------------ issued calls *)
Lemma started_live v s : reachable v s -> NoDup (started s) /\ forall c, In c (started s) <-> live s c.
Proof.
  revert s. reach_ind.
  - split; [constructor|]. intros c; unfold live; cbn. split; [tauto | congruence].
  - intros s e s' _ [ND IH] H. unfold live in *.
    destruct e; step_inv H; sproj; (split; [try exact ND|]);
      try (intros c0; rewrite IH; upd_cases; sproj; split; intros; try congruence; auto; fail).
    + apply NoDup_snoc; [exact ND|]. rewrite IH. congruence.
    + intros c0. rewrite in_app_iff, IH. upd_cases; sproj; split.
      * intros _. discriminate.
      * intros _. right. now left.
      * intros [?|[?|[]]]; congruence.
      * intros ?. now left.
Qed.

(* ------------------------------------------------------------------ who reached the transport *)
(* pcs a call can be at while it has not handed a frame to the transport *)
Definition unwritten_pc (p : cpc) : Prop :=
  match p with
  | PNone | PStarted | PRegistered | PLeaving RErr | PClosing RErr | PReturned RErr => True
  | _ => False
  end.
Definition before_send (p : cpc) : Prop :=
  match p with PNone | PStarted | PRegistered => True | _ => False end.

Lemma wrote_pc v s : reachable v s ->
  forall c, (c_wrote (callers s c) = false -> unwritten_pc (c_pc (callers s c))) /\
            (c_wrote (callers s c) = true -> ~ before_send (c_pc (callers s c))).
Proof.
  revert s. reach_ind.
  - intros c; cbn; split; [tauto | discriminate].
  - intros s e s' _ IH H c0. specialize (IH c0) as IH0.
    destruct e; step_inv H; sproj; upd_cases; sproj;
      try exact IH0;
      try (destruct IH0 as [IHa IHb]; split; intros Hw; cbn;
           try tauto; try discriminate;
           try (specialize (IHa Hw)); try (specialize (IHb Hw));
           repeat match goal with E : c_pc _ = _ |- _ => rewrite E in * end; cbn in *; try tauto; fail).
Qed.

(* ------------------------------------------------------------------ the wire *)
Lemma step_live v s e s' c : step v s e = Some s' -> live s c -> live s' c.
Proof.
  intros H L. unfold live in *. destruct e; step_inv H; sproj; upd_cases; sproj; auto; congruence.
Qed.

(* only a WireWrite event adds a caller's frame to the wire *)
Lemma step_wire_calls v s e s' :
  step v s e = Some s' ->
  (exists c f, e = WireWrite c /\ c_frame (callers s c) = Ok f /\ (0 < c_seq (callers s c))%Z /\
               before_send (c_pc (callers s c)) /\ live s c /\
               wire s' = wire s ++ [WCall c f] /\ c_wrote (callers s' c) = true /\
               (forall d, d <> c -> c_wrote (callers s' d) = c_wrote (callers s d)))
  \/ ((forall c, e <> WireWrite c) /\ wire_calls (wire s') = wire_calls (wire s) /\
      (forall d, live s d -> c_wrote (callers s' d) = c_wrote (callers s d))).
Proof.
  intros H. destruct e;
    try (right; split; [intros ?; discriminate|];
         step_inv H; sproj; try rewrite wire_calls_app; cbn [wire_calls flat_map app];
         try rewrite app_nil_r; (split; [reflexivity|]); intros d L; unfold live in L;
         upd_cases; sproj; auto; congruence).
  left. unfold live. step_inv H; sproj; bools; exists c; eexists; (split; [reflexivity|]);
    (split; [eassumption|]); rewrite ?upd_same; sproj;
    repeat match goal with E : c_pc _ = _ |- _ => rewrite E end; cbn;
    (repeat split; auto; try discriminate; try (intros d Hd; rewrite upd_other by exact Hd; reflexivity)).
Qed.

Lemma wire_facts v s : reachable v s ->
  NoDup (wire_callers s) /\
  (forall c f, In (c, f) (wire_calls (wire s)) ->
     live s c /\ c_frame (callers s c) = Ok f /\ (0 < c_seq (callers s c))%Z /\ c_wrote (callers s c) = true) /\
  (forall c, c_wrote (callers s c) = true -> In c (wire_callers s)).
Proof.
  revert s. reach_ind.
  - cbn. repeat split; try constructor; try contradiction; discriminate.
  - intros s e s' R (ND & F & W) H. unfold wire_callers in *.
    assert (Keep : forall c f, In (c, f) (wire_calls (wire s)) ->
              live s' c /\ c_frame (callers s' c) = Ok f /\ (0 < c_seq (callers s' c))%Z).
    { intros c f Hin. apply F in Hin. destruct Hin as (L & Hf & Hq & _).
      destruct (step_attrs _ _ _ _ c H L) as (_ & _ & Es & Ef).
      rewrite Es, Ef. repeat split; eauto using step_live. }
    destruct (step_wire_calls _ _ _ _ H) as [(c & f & -> & Hf & Hq & Hb & Lc & Hw & Hc & Ho) | (Hne & Hw & Ho)].
    + rewrite Hw, wire_calls_app, map_app. cbn [wire_calls flat_map app map fst].
      assert (Hnew : ~ In c (map fst (wire_calls (wire s)))).
      { intros Hin. apply in_map_iff in Hin. destruct Hin as ([c1 f1] & <- & Hin). cbn in *.
        apply F in Hin. destruct Hin as (_ & _ & _ & Hwr).
        apply (proj2 (wrote_pc v s R c1)) in Hwr. contradiction. }
      destruct (step_attrs _ _ _ _ c H Lc) as (_ & _ & Es & Ef).
      split; [apply NoDup_snoc; assumption|]. split.
      * intros c1 f1 Hin. rewrite in_app_iff in Hin. destruct Hin as [Hin|[[= <- <-]|[]]].
        -- destruct (Keep _ _ Hin) as (L1 & F1 & Q1). repeat split; auto.
           destruct (Nat.eq_dec c1 c) as [->|Hne]; [exact Hc|].
           rewrite Ho by exact Hne. now apply F in Hin.
        -- rewrite Es, Ef. repeat split; eauto using step_live.
      * intros c1 Hw1. rewrite in_app_iff. destruct (Nat.eq_dec c1 c) as [->|Hne]; [right; now left|].
        left. apply W. now rewrite <- Ho.
    + rewrite Hw. split; [exact ND|]. split.
      * intros c f Hin. destruct (Keep _ _ Hin) as (L1 & F1 & Q1). repeat split; auto.
        apply F in Hin. destruct Hin as (L & _ & _ & Hwr). now rewrite Ho.
      * intros c Hwr. apply W.
        destruct (c_pc (callers s c)) eqn:E.
        2-9: rewrite <- Ho; [exact Hwr | unfold live; congruence].
        (* a call that is issued by this very step has not written *)
        exfalso. destruct e; step_inv H; sproj; upd_cases; sproj; try congruence;
          try (match goal with
               | Hx : c_wrote (callers s ?x) = true, Ex : c_pc (callers s ?x) = PNone |- _ =>
                 destruct (wrote_pc v s R x) as [_ X]; apply X in Hx; rewrite Ex in Hx; cbn in Hx; tauto
               end).
Qed.

(* ------------------------------------------------------------------ per-goroutine order *)
Definition in_gor (s : state) (g : nat) (c : nat) : bool := Nat.eqb (c_gor (callers s c)) g.
Definition gor_seq (s : state) (g : nat) : list nat := filter (in_gor s g) (started s).
Definition ret (s : state) (c : nat) : Prop := is_returned (c_pc (callers s c)) = true.

Lemma step_in_gor v s e s' g c : step v s e = Some s' -> live s c -> in_gor s' g c = in_gor s g c.
Proof. intros H L. unfold in_gor. now destruct (step_attrs _ _ _ _ c H L) as (_ & -> & _). Qed.

Lemma step_ret v s e s' c : step v s e = Some s' -> ret s c -> ret s' c.
Proof.
  unfold ret. intros H L. destruct e; step_inv H; sproj; upd_cases; sproj; auto;
    repeat match goal with E : c_pc _ = _ |- _ => rewrite E in * end; cbn in *; congruence.
Qed.

Lemma last_unfinished {A} (P : A -> Prop) (l : list A) c :
  Forall P (removelast l) -> In c l -> ~ P c -> exists l0, l = l0 ++ [c].
Proof.
  intros F Hin Hn. destruct l as [|a l]; [contradiction|].
  destruct (@exists_last _ (a :: l)) as (l0 & z & E); [discriminate|]. rewrite E in *.
  rewrite removelast_last in F. apply in_app_or in Hin. destruct Hin as [Hin|[->|[]]].
  - exfalso. apply Hn. rewrite Forall_forall in F. auto.
  - now exists l0.
Qed.

Lemma In_removelast {A} (l : list A) x : In x (removelast l) -> In x l.
Proof.
  induction l as [|a l IH]; cbn; [tauto|]. destruct l as [|b l]; [contradiction|].
  intros [->|H]; [now left | right; now apply IH].
Qed.

Lemma gor_seq_step_same v s e s' g :
  reachable v s -> step v s e = Some s' -> started s' = started s -> gor_seq s' g = gor_seq s g.
Proof.
  intros R H E. unfold gor_seq. rewrite E. apply filter_ext_in. intros c Hc.
  eapply step_in_gor; eauto. now apply (started_live v s R).
Qed.

Lemma step_started v s e s' :
  step v s e = Some s' ->
  started s' = started s \/
  exists c k g q f, e = Start c k g q f /\ started s' = started s ++ [c] /\ ~ live s c /\
     gor_free s g = true /\ c_gor (callers s' c) = g /\ c_wrote (callers s' c) = false /\
     (forall d, d <> c -> callers s' d = callers s d).
Proof.
  intros H. destruct e; try (left; step_inv H; sproj; reflexivity).
  right. unfold live. step_inv H; sproj; bools. exists c, k, g, q, f. rewrite upd_same. sproj.
  repeat split; auto. intros d Hd. now rewrite upd_other.
Qed.

Lemma gor_inv v s : reachable v s -> forall g, Forall (ret s) (removelast (gor_seq s g)).
Proof.
  revert s. reach_ind.
  - intros g. cbn. constructor.
  - intros s e s' R IH H g. destruct (started_live v s R) as (ND & SL).
    destruct (step_started _ _ _ _ H) as [E | (c & k & g0 & q & f & -> & E & Hn & Hfree & Hg & _ & Hoth)].
    + rewrite (gor_seq_step_same _ _ _ _ g R H E). eapply Forall_impl; [|apply IH].
      intros c. apply step_ret with (1 := H).
    + assert (Eold : filter (in_gor s' g) (started s) = gor_seq s g).
      { apply filter_ext_in. intros d Hd. unfold in_gor. rewrite Hoth; [reflexivity|].
        intros ->. apply Hn. now apply SL. }
      assert (Rold : forall d, In d (started s) -> ret s d -> ret s' d).
      { intros d Hd. unfold ret. rewrite Hoth; [auto|]. intros ->. apply Hn. now apply SL. }
      unfold gor_seq at 1. rewrite E, filter_app, Eold. cbn [filter]. unfold in_gor at 1. rewrite Hg.
      destruct (Nat.eqb_spec g0 g) as [->|Hne].
      * rewrite removelast_last. apply Forall_forall. intros d Hd. unfold gor_seq in Hd.
        apply filter_In in Hd. destruct Hd as (Hd & Hg0). apply Rold; [exact Hd|].
        unfold gor_free in Hfree. rewrite forallb_forall in Hfree. specialize (Hfree d Hd).
        unfold in_gor in Hg0. rewrite Hg0 in Hfree. exact Hfree.
      * rewrite app_nil_r. apply Forall_forall. intros d Hd. specialize (IH g).
        rewrite Forall_forall in IH. apply Rold; [|auto].
        apply In_removelast in Hd. unfold gor_seq in Hd. now apply filter_In in Hd.
Qed.

Definition wrote (s : state) (c : nat) : bool := c_wrote (callers s c).

Lemma order_inv v s : reachable v s ->
  forall g, filter (in_gor s g) (wire_callers s) = filter (wrote s) (gor_seq s g).
Proof.
  revert s. reach_ind.
  - intros g. reflexivity.
  - intros s e s' R IH H g.
    destruct (started_live v s R) as (ND & SL).
    destruct (wire_facts v s R) as (_ & WF & _).
    assert (WL : forall c, In c (wire_callers s) -> live s c).
    { intros c Hc. unfold wire_callers in Hc. apply in_map_iff in Hc. destruct Hc as ([c1 f1] & <- & Hin).
      now apply WF in Hin. }
    assert (Ewire : filter (in_gor s' g) (wire_callers s) = filter (in_gor s g) (wire_callers s)).
    { apply filter_ext_in. intros c Hc. eapply step_in_gor; eauto. }
    destruct (step_wire_calls _ _ _ _ H) as [(c & f & -> & Hf & Hq & Hb & Lc & Hw & Hc & Ho) | (Hne & Hw & Ho)].
    + (* WireWrite c *)
      assert (Est : started s' = started s) by (step_inv H; reflexivity).
      rewrite (gor_seq_step_same _ _ _ _ g R H Est).
      unfold wire_callers at 1. rewrite Hw, wire_calls_app, map_app. cbn [wire_calls flat_map app map fst].
      rewrite filter_app. fold (wire_callers s). rewrite Ewire, IH. change (map fst ([(c, f)] ++ [])) with [c].
      change (filter (in_gor s' g) [c]) with (if in_gor s' g c then [c] else []).
      rewrite (step_in_gor _ _ _ _ g c H Lc).
      assert (Hwc : wrote s c = false).
      { unfold wrote. destruct (c_wrote (callers s c)) eqn:E; [|reflexivity].
        apply (proj2 (wrote_pc v s R c)) in E. contradiction. }
      assert (Hoth : forall l, ~ In c l -> filter (wrote s') l = filter (wrote s) l).
      { intros l Hl. apply filter_ext_in. intros d Hd. unfold wrote. apply Ho. intros ->. contradiction. }
      destruct (in_gor s g c) eqn:Eg.
      * (* c is the last call of its goroutine: all earlier ones have returned *)
        assert (Hin : In c (gor_seq s g)).
        { unfold gor_seq. apply filter_In. split; [now apply SL | exact Eg]. }
        destruct (last_unfinished (ret s) (gor_seq s g) c (gor_inv v s R g) Hin) as (l0 & El).
        { unfold ret. destruct (c_pc (callers s c)); cbn in Hb |- *; try contradiction; discriminate. }
        assert (NDg : NoDup (gor_seq s g)) by (unfold gor_seq; apply NoDup_filter; exact ND).
        rewrite El in *. rewrite !filter_app. cbn [filter]. unfold wrote at 2 4. rewrite Hc.
        fold (wrote s c). rewrite Hwc, app_nil_r. f_equal. symmetry. apply Hoth.
        apply NoDup_remove_2 in NDg. rewrite app_nil_r in NDg. exact NDg.
      * rewrite app_nil_r. symmetry. apply Hoth. unfold gor_seq. rewrite filter_In. intros [_ X]. congruence.
    + (* any other event *)
      unfold wire_callers at 1. rewrite Hw. fold (wire_callers s). rewrite Ewire, IH.
      destruct (step_started _ _ _ _ H) as [E | (c & k & g0 & q & f & -> & E & Hn & Hfree & Hg & Hwn & Hoth)].
      * rewrite (gor_seq_step_same _ _ _ _ g R H E). apply filter_ext_in. intros d Hd. unfold wrote.
        symmetry. apply Ho. apply SL. unfold gor_seq in Hd. now apply filter_In in Hd.
      * assert (Eold : filter (in_gor s' g) (started s) = gor_seq s g).
        { apply filter_ext_in. intros d Hd. unfold in_gor. rewrite Hoth; [reflexivity|].
          intros ->. apply Hn. now apply SL. }
        unfold gor_seq at 2. rewrite E, filter_app, Eold, filter_app.
        assert (Enew : filter (wrote s') (filter (in_gor s' g) [c]) = []).
        { cbn [filter]. destruct (in_gor s' g c); [|reflexivity]. cbn [filter]. unfold wrote. now rewrite Hwn. }
        rewrite Enew, app_nil_r. apply filter_ext_in. intros d Hd. unfold wrote. rewrite Hoth; [reflexivity|].
        intros ->. apply Hn. apply SL. unfold gor_seq in Hd. now apply filter_In in Hd.
Qed.

(* ------------------------------------------------------------------ the statements of C14 *)
(* octets the peer receives from Send / Submit callers *)
Definition call_stream (s : state) : bytes := List.concat (map snd (wire_calls (wire s))).

Lemma c14_single_write v s c s' :
  step v s (WireWrite c) = Some s' ->
  exists f, c_frame (callers s c) = Ok f /\ wire s' = wire s ++ [WCall c f] /\
            call_stream s' = call_stream s ++ f.
Proof.
  intros H. destruct (step_wire_calls _ _ _ _ H) as [(c0 & f & [= <-] & Hf & _ & _ & _ & Hw & _) | (Hne & _)].
  - exists f. repeat split; auto. unfold call_stream. rewrite Hw, wire_calls_app, map_app, concat_app. cbn.
    now rewrite app_nil_r.
  - exfalso. now apply (Hne c).
Qed.

Lemma c14_others_do_not_write v s e s' :
  step v s e = Some s' -> (forall c, e <> WireWrite c) -> call_stream s' = call_stream s.
Proof.
  intros H Hne. destruct (step_wire_calls _ _ _ _ H) as [(c0 & f & -> & _) | (_ & Hw & _)].
  - exfalso. now apply (Hne c0).
  - unfold call_stream. now rewrite Hw.
Qed.

Lemma c14_stream v s : reachable v s ->
  NoDup (wire_callers s) /\
  (forall c f, In (c, f) (wire_calls (wire s)) ->
     In c (started s) /\ c_frame (callers s c) = Ok f /\ (0 < c_seq (callers s c))%Z) /\
  (forall c, ~ unwritten_pc (c_pc (callers s c)) -> In c (wire_callers s)).
Proof.
  intros R. destruct (wire_facts v s R) as (ND & F & W). split; [exact ND|]. split.
  - intros c f Hin. destruct (F c f Hin) as (L & Hf & Hq & _). repeat split; auto.
    now apply (started_live v s R).
  - intros c Hn. apply W. destruct (c_wrote (callers s c)) eqn:E; [reflexivity|].
    exfalso. apply Hn. now apply (wrote_pc v s R c).
Qed.

Lemma c14_refused v s c : reachable v s ->
  (c_seq (callers s c) <= 0)%Z \/ is_ok (c_frame (callers s c)) = false ->
  ~ In c (wire_callers s) /\ unwritten_pc (c_pc (callers s c)).
Proof.
  intros R Hbad. destruct (wire_facts v s R) as (_ & F & _).
  assert (Hn : ~ In c (wire_callers s)).
  { unfold wire_callers. intros Hin. apply in_map_iff in Hin. destruct Hin as ([c1 f1] & <- & Hin).
    cbn in *. destruct (F _ _ Hin) as (_ & Hf & Hq & _). destruct Hbad as [Hb|Hb]; [lia|].
    rewrite Hf in Hb. discriminate. }
  split; [exact Hn|]. destruct (c_wrote (callers s c)) eqn:E.
  - exfalso. apply Hn. now apply (wire_facts v s R).
  - now apply (wrote_pc v s R c).
Qed.

(* a call that did not reach the transport and has returned, returned an error *)
Lemma unwritten_returned p r : unwritten_pc p -> p = PReturned r -> r = RErr.
Proof. intros H ->. destruct r; cbn in H; tauto. Qed.

(* ------------------------------------------------------------------ codec side *)
From V Require Import Model.Pdu.

Lemma marshal_refuses_nonpositive lay h vs :
  (h_seq h <= 0)%Z -> is_ok (marshal lay (VHeader h :: vs)) = false.
Proof.
  intros Hq. unfold marshal. destruct (l_fields lay) as [|[] ks]; try reflexivity.
  destruct (Z.leb_spec (h_seq h) 0); [reflexivity | lia].
Qed.

Lemma marshal_one_write lay vs :
  (List.length (marshal_writes lay vs) <= 1)%nat /\
  forall f, marshal lay vs = Ok f -> marshal_writes lay vs = [f].
Proof.
  unfold marshal_writes. split.
  - destruct (marshal lay vs); cbn; lia.
  - intros f ->. reflexivity.
Qed.

(* ------------------------------------------------------------------ non-vacuity *)
Definition c14_trace : list event :=
  [Start 0 KSend 7 11%Z (Ok [1; 2]); Start 2 KSubmit 8 13%Z (Ok [5; 6]);
   WireWrite 0; Register 2; WireWrite 2; WriteReturn 0;
   Start 3 KSend 7 0%Z (Ok [9]); SendFail 3;
   Start 1 KSend 7 12%Z (Ok [3; 4]); WireWrite 1; WriteReturn 1; WriteReturn 2].

Lemma c14_example :
  exists s, reachable fixed s /\ wire_callers s = [0; 2; 1]%nat /\
            call_stream s = [1; 2; 5; 6; 3; 4] /\ unwritten_pc (c_pc (callers s 3%nat)) /\
            filter (in_gor s 7) (wire_callers s) = [0; 1]%nat.
Proof.
  destruct (run fixed init c14_trace) as [s|] eqn:E; [|vm_compute in E; discriminate].
  exists s. split; [exists c14_trace; exact E|].
  vm_compute in E. injection E as <-. vm_compute. repeat split; auto.
Qed.
