(* C18: the model of sms.Unmarshal is total (never Panic) on every octet list,
   for EVERY environment of layouts (induction over the field list and the
   input, no size bound), returns one of the eight structs shaped like its
   layout, and the model of sms.Marshal returns Ok on every value it returned. *)
From V Require Import Model.TpduRun.
From Coq Require Import ZifyN ZifyNat ZifyBool.
Ltac Zify.zify_post_hook ::= Z.div_mod_to_equations.
Open Scope N_scope.

(* ------------------------------------------------------------------ outcome plumbing *)
Definition np {A} (x : outcome A) : Prop := x <> Panic.

Lemma np_bind {A B} (x : outcome A) (f : A -> outcome B) :
  np x -> (forall a, x = Ok a -> np (f a)) -> np (obind x f).
Proof.
  unfold np. destruct x as [a|e|]; cbn; intros Hx Hf; [apply Hf; reflexivity|discriminate|contradiction].
Qed.
Lemma bind_ok {A B} (x : outcome A) (f : A -> outcome B) b :
  obind x f = Ok b -> exists a, x = Ok a /\ f a = Ok b.
Proof. destruct x as [a|e|]; cbn; intros H; [eauto|discriminate|discriminate]. Qed.

Lemma np_ok {A} (a : A) : np (Ok a). Proof. discriminate. Qed.
Lemma np_err {A} e : np (@Err A e). Proof. discriminate. Qed.
#[local] Hint Resolve np_ok np_err : core.

(* ------------------------------------------------------------------ reader *)
Lemma idx_in_range {A} (l : list A) i : i < N.of_nat (List.length l) -> exists x, idx l i = Ok x.
Proof.
  unfold idx. intros H.
  destruct (nth_error l (N.to_nat i)) eqn:E; [eauto|].
  apply nth_error_None in E. lia.
Qed.
Lemma idx_ok_in {A} (l : list A) i x : idx l i = Ok x -> In x l.
Proof.
  unfold idx. destruct (nth_error l (N.to_nat i)) eqn:E; [|discriminate].
  intros H; inversion H; subst. eapply nth_error_In; eauto.
Qed.

Lemma read_byte_np bs : np (read_byte bs).
Proof. destruct bs; cbn; auto. Qed.
Lemma read_n_np n bs : np (read_n n bs).
Proof. unfold read_n. destruct (n =? 0); auto. destruct bs; auto. Qed.
Lemma read_n_length n bs d r : read_n n bs = Ok (d, r) -> List.length d = N.to_nat n.
Proof.
  unfold read_n. destruct (N.eqb_spec n 0) as [->|Hn].
  - intros H; inversion H; reflexivity.
  - destruct bs as [|b bs']; [discriminate|]. intros H; inversion H; subst.
    rewrite app_length, repeat_length.
    pose proof (firstn_le_length (N.to_nat n) (b :: bs')). lia.
Qed.
Lemma discard_np n bs : np (discard n bs).
Proof. unfold discard. destruct (blen bs <? n); auto. Qed.

(* ------------------------------------------------------------------ getType *)
Lemma get_type_np bs : np (get_type bs).
Proof.
  unfold get_type. destruct bs as [|l r]; auto.
  destruct (N.ltb_spec (blen (l :: r)) (l + 3)) as [|Hlen]; auto.
  assert (Hp : N.of_nat (List.length (firstn (N.to_nat (l + 3)) (l :: r))) = l + 3).
  { unfold blen in Hlen. rewrite firstn_length. lia. }
  destruct (idx_in_range (firstn (N.to_nat (l + 3)) (l :: r)) (l + 1)) as [f Hf]; [lia|].
  destruct (idx_in_range (firstn (N.to_nat (l + 3)) (l :: r)) (l + 2)) as [g Hg]; [lia|].
  rewrite Hf, Hg. cbn. auto.
Qed.

Lemma struct_of_names k f n : struct_of k f = Some n -> In n struct_names.
Proof.
  unfold struct_of. intros H.
  repeat match type of H with context [match ?x with _ => _ end] => destruct x end;
    try discriminate; inversion H; subst; cbn; tauto.
Qed.

(* ------------------------------------------------------------------ semi-octets *)
Lemma lo4_bound b : lo4 b <= 15.
Proof. unfold lo4. pose proof (N.mod_lt b 16). lia. Qed.
Lemma hi4_bound b : hi4 b <= 15.
Proof. unfold hi4. pose proof (N.mod_lt (b / 16) 16). lia. Qed.

Lemma decode_semi_bound l : Forall (fun x => x <= 165) (decode_semi l).
Proof.
  induction l as [|b r IH]; cbn [decode_semi]; [constructor|].
  pose proof (lo4_bound b). pose proof (hi4_bound b).
  destruct (hi4 b =? 15); repeat constructor; auto; lia.
Qed.

(* ------------------------------------------------------------------ GSM 7-bit *)
Lemma of_bits_bound l : of_bits l < 2 ^ N.of_nat (List.length l).
Proof.
  induction l as [|b r IH]; [cbn; lia|].
  cbn [of_bits List.length]. rewrite Nat2N.inj_succ, N.pow_succ_r'. destruct b; lia.
Qed.
Lemma chunk7_bound l : Forall (fun s => s < 128) (chunk7 l).
Proof.
  (* strong induction through the 7-step pattern *)
  assert (H : forall n l, (List.length l <= n)%nat -> Forall (fun s => s < 128) (chunk7 l)).
  { induction n as [|n IH]; intros l0 Hl.
    - destruct l0; [constructor|cbn in Hl; lia].
    - destruct l0 as [|a [|b [|c [|d [|e [|f [|g r]]]]]]]; try (cbn; constructor).
      + change (of_bits [a; b; c; d; e; f; g] < 128).
        pose proof (of_bits_bound [a; b; c; d; e; f; g]) as Hb. cbn [List.length] in Hb.
        change (2 ^ N.of_nat 7) with 128 in Hb. exact Hb.
      + apply IH. cbn in Hl. lia. }
  apply (H (List.length l)). lia.
Qed.

Definition g7_ok (t : g7tab) : Prop := List.length (g7_rev t) = 128%nat.

Lemma ta_runes_np t ss : g7_ok t -> Forall (fun s => s < 128) ss -> np (ta_runes t ss).
Proof.
  intros Ht.
  assert (H : forall n ss, (List.length ss <= n)%nat -> Forall (fun s => s < 128) ss -> np (ta_runes t ss)).
  { induction n as [|n IH]; intros ss0 Hl Hs.
    - destruct ss0; [cbn; auto|cbn in Hl; lia].
    - destruct ss0 as [|s r]; [cbn; auto|]. cbn [ta_runes].
      inversion Hs as [|? ? Hs1 Hs2]; subst.
      destruct ((s <=? 127) && negb (s =? ESC)).
      + apply np_bind.
        * destruct (idx_in_range (g7_rev t) s) as [c Hc]; [rewrite Ht; lia|]. rewrite Hc; auto.
        * intros c _. apply np_bind; [apply IH; [cbn in Hl; lia|exact Hs2]|]. intros; auto.
      + destruct r as [|x r']; auto.
        destruct (assoc x (g7_esc t)); auto.
        inversion Hs2; subst.
        apply np_bind; [apply IH; [cbn in Hl; lia|assumption]|]. intros; auto. }
  intros Hs. apply (H (List.length ss)); [lia|exact Hs].
Qed.

Lemma ta_decode_np t data : g7_ok t -> np (ta_decode t data).
Proof.
  intros Ht. unfold ta_decode. destruct data as [|b r]; auto.
  apply np_bind; [apply ta_runes_np; [exact Ht|apply chunk7_bound]|].
  intros rs _. match goal with |- np (if ?c then _ else _) => destruct c end; auto.
Qed.

Lemma addr_text_np t ton data : g7_ok t -> np (addr_text t ton data).
Proof. intros Ht. unfold addr_text. destruct (ton =? 5); [apply ta_decode_np; exact Ht|auto]. Qed.

Lemma addr_read_np t bs : g7_ok t -> np (addr_read t bs).
Proof.
  intros Ht. unfold addr_read.
  apply np_bind; [apply read_byte_np|]. intros [length bs1] _.
  destruct (length =? 0); auto.
  apply np_bind; [apply read_byte_np|]. intros [kind bs2] _.
  apply np_bind; [apply read_n_np|]. intros [data bs3] _.
  apply np_bind; [apply addr_text_np; exact Ht|]. intros; auto.
Qed.
Lemma sc_read_np t bs : g7_ok t -> np (sc_read t bs).
Proof.
  intros Ht. unfold sc_read.
  apply np_bind; [apply read_byte_np|]. intros [length bs1] _.
  destruct (length =? 0); auto.
  apply np_bind; [apply read_byte_np|]. intros [kind bs2] _.
  apply np_bind; [apply read_n_np|]. intros [data bs3] _.
  apply np_bind; [apply addr_text_np; exact Ht|]. intros; auto.
Qed.

(* ------------------------------------------------------------------ time and validity period (after the fix) *)
Lemma time_of_blocks_np data blocks : List.length data = 7%nat -> np (time_of_blocks false data blocks).
Proof.
  intros Hd. unfold time_of_blocks. cbn [negb andb].
  destruct (N.ltb_spec (N.of_nat (List.length blocks)) 7) as [|Hl]; auto.
  repeat (match goal with
          | |- np (obind (idx ?l ?i) _) =>
            let x := fresh "x" in let Hx := fresh "Hx" in
            destruct (idx_in_range l i) as [x Hx]; [lia|]; rewrite Hx; cbn [obind]
          end).
  destruct (zone_of false x0 x). auto.
Qed.
Lemma time_read_np bs : np (time_read_gen false bs).
Proof.
  unfold time_read_gen. apply np_bind; [apply read_n_np|]. intros [data bs1] Hr.
  apply read_n_length in Hr.
  apply np_bind; [apply time_of_blocks_np; exact Hr|]. intros; auto.
Qed.
Lemma rel_read_np bs : np (rel_read bs).
Proof.
  unfold rel_read. apply np_bind; [apply read_n_np|]. intros [data bs1] Hr.
  apply read_n_length in Hr.
  destruct (idx_in_range data 0) as [b Hb]; [lia|]. rewrite Hb. cbn. auto.
Qed.

Lemma enh_read_np bs : np (enh_read_gen false bs).
Proof.
  unfold enh_read_gen. apply np_bind; [apply read_byte_np|]. intros [ind bs1] _.
  destruct (N.land ind 7 =? 1).
  { apply np_bind; [apply rel_read_np|]. intros [d bs2] _.
    apply np_bind; [apply discard_np|]. intros; auto. }
  destruct (N.land ind 7 =? 2).
  { apply np_bind; [apply read_byte_np|]. intros [sec bs2] _.
    apply np_bind; [apply discard_np|]. intros; auto. }
  destruct (N.land ind 7 =? 3).
  { cbn [negb andb].
    set (semi := decode_semi _).
    destruct (N.ltb_spec (N.of_nat (List.length semi)) 3) as [|Hl]; auto.
    destruct (idx_in_range semi 0) as [h Hh]; [lia|].
    destruct (idx_in_range semi 1) as [m Hm]; [lia|].
    destruct (idx_in_range semi 2) as [s Hs]; [lia|].
    rewrite Hh, Hm, Hs. cbn [obind].
    apply np_bind; [apply read_n_np|]. intros [x bs2] _.
    apply np_bind; [apply discard_np|]. intros; auto. }
  apply np_bind; [apply discard_np|]. intros; auto.
Qed.

(* ------------------------------------------------------------------ the field walk *)
Lemma field_read_np t st f bs : g7_ok t -> np (field_read false t st f bs).
Proof.
  intros Ht. unfold field_read. destruct (f_dkind f).
  - apply np_bind; [apply read_byte_np|]. intros [b r] _; auto.
  - apply np_bind; [apply read_byte_np|]. intros [c r] _; auto.
  - apply np_bind; [apply read_byte_np|]. intros [n r] _.
    apply np_bind; [apply read_n_np|]. intros [d r2] _; auto.
  - apply np_bind; [apply sc_read_np; exact Ht|]. intros [a r] _; auto.
  - apply np_bind; [apply addr_read_np; exact Ht|]. intros [a r] _; auto.
  - apply np_bind; [apply time_read_np|]. intros [x r] _; auto.
  - destruct (String.eqb (f_tp f) "VP"); auto.
    destruct (u_vpf st =? 1).
    { apply np_bind; [apply enh_read_np|]. intros [v r] _; auto. }
    destruct (u_vpf st =? 2).
    { apply np_bind; [apply rel_read_np|]. intros [d r] _; auto. }
    destruct (u_vpf st =? 3).
    { apply np_bind; [apply time_read_np|]. intros [x r] _; auto. }
    auto.
  - auto.
Qed.

Lemma fields_read_np t fs : g7_ok t -> forall st bs, np (fields_read false t st fs bs).
Proof.
  intros Ht. induction fs as [|f rest IH]; intros st bs; cbn [fields_read]; auto.
  match goal with |- np (if ?c then _ else _) => destruct c end.
  - apply np_bind; [apply IH|]. intros; auto.
  - apply np_bind; [apply field_read_np; exact Ht|]. intros [v r] _.
    apply np_bind; [apply IH|]. intros; auto.
Qed.

Definition env_ok (E : env) : Prop := g7_ok (e_g7 E).

(* THEOREM 1a: no panic, any environment, any octet list *)
Theorem unmarshal_never_panics E : env_ok E -> forall bs, unmarshal E bs <> Panic.
Proof.
  intros HE bs. unfold unmarshal, unmarshal_gen. fold (np (A := tpdu)).
  apply np_bind; [apply get_type_np|]. intros [kind failure] _.
  destruct (struct_of kind failure); auto.
  destruct (find_layout (e_layouts E) s); auto.
  apply np_bind; [apply fields_read_np; exact HE|]. intros; auto.
Qed.

(* ------------------------------------------------------------------ shape of decoded values *)
(* an hh:mm:ss enhanced validity period decoded from three semi-octet pairs is
   below 1000 hours; that bound is what keeps EnhancedDuration.WriteTo within
   its seven octets *)
Definition vp_ok (v : vp) : Prop :=
  match v with
  | VPEnh d ind => N.land ind 7 = 3 -> d < 3600000
  | _ => True
  end.
Definition val_fits (k : tkind) (v : tval) : Prop :=
  match k, v with
  | KByte, TVByte _ => True
  | KFlags _, TVFlags _ => True
  | KBytes, TVBytes _ => True
  | KSCAddr, TVAddr _ | KAddr, TVAddr _ => True
  | KTime, TVTime _ => True
  | KIface, TVVP v => vp_ok v
  | KSkip, TVSkip => True
  | _, _ => False
  end.

Lemma zero_val_fits k : val_fits k (zero_val k).
Proof. destruct k; cbn; auto. Qed.

Lemma enh_read_fits bs v r : enh_read_gen false bs = Ok (v, r) -> vp_ok v.
Proof.
  unfold enh_read_gen. intros H.
  apply bind_ok in H. destruct H as [[ind bs1] [_ H]].
  destruct (N.eqb_spec (N.land ind 7) 1) as [E1|E1].
  { apply bind_ok in H. destruct H as [[d bs2] [_ H]]. apply bind_ok in H. destruct H as [bs3 [_ H]].
    inversion H; subst. cbn. intros; lia. }
  destruct (N.eqb_spec (N.land ind 7) 2) as [E2|E2].
  { apply bind_ok in H. destruct H as [[d bs2] [_ H]]. apply bind_ok in H. destruct H as [bs3 [_ H]].
    inversion H; subst. cbn. intros; lia. }
  destruct (N.eqb_spec (N.land ind 7) 3) as [E3|E3].
  { cbn [negb andb] in H. set (semi := decode_semi _) in H.
    destruct (N.of_nat (List.length semi) <? 3); [discriminate|].
    apply bind_ok in H. destruct H as [h [Hh H]].
    apply bind_ok in H. destruct H as [m [Hm H]].
    apply bind_ok in H. destruct H as [s [Hs H]].
    apply bind_ok in H. destruct H as [[x bs2] [_ H]].
    apply bind_ok in H. destruct H as [bs3 [_ H]].
    inversion H; subst. cbn. intros _.
    pose proof (decode_semi_bound (match read_n 3 bs1 with Ok (data, _) => data | _ => [0; 0; 0] end)) as Hb.
    fold semi in Hb. rewrite Forall_forall in Hb.
    pose proof (Hb _ (idx_ok_in _ _ _ Hh)). pose proof (Hb _ (idx_ok_in _ _ _ Hm)). pose proof (Hb _ (idx_ok_in _ _ _ Hs)).
    lia. }
  apply bind_ok in H. destruct H as [bs2 [_ H]]. inversion H; subst. cbn. intros; lia.
Qed.

Lemma field_read_fits t st f bs v r : field_read false t st f bs = Ok (v, r) -> val_fits (f_dkind f) v.
Proof.
  unfold field_read. destruct (f_dkind f); intros H.
  - apply bind_ok in H. destruct H as [[b r'] [_ H]]. inversion H; subst; cbn; auto.
  - apply bind_ok in H. destruct H as [[b r'] [_ H]]. inversion H; subst; cbn; auto.
  - apply bind_ok in H. destruct H as [[n r'] [_ H]]. apply bind_ok in H. destruct H as [[d r2] [_ H]].
    inversion H; subst; cbn; auto.
  - apply bind_ok in H. destruct H as [[a r'] [_ H]]. inversion H; subst; cbn; auto.
  - apply bind_ok in H. destruct H as [[a r'] [_ H]]. inversion H; subst; cbn; auto.
  - apply bind_ok in H. destruct H as [[a r'] [_ H]]. inversion H; subst; cbn; auto.
  - destruct (String.eqb (f_tp f) "VP"); [|inversion H; subst; cbn; auto].
    destruct (u_vpf st =? 1).
    { apply bind_ok in H. destruct H as [[v' r'] [Hv H]]. inversion H; subst. cbn. eapply enh_read_fits; eauto. }
    destruct (u_vpf st =? 2).
    { apply bind_ok in H. destruct H as [[v' r'] [Hv H]]. inversion H; subst. cbn. auto. }
    destruct (u_vpf st =? 3).
    { apply bind_ok in H. destruct H as [[v' r'] [Hv H]]. inversion H; subst. cbn. auto. }
    inversion H; subst; cbn; auto.
  - inversion H; subst; cbn; auto.
Qed.

Lemma fields_read_fits t fs : forall st bs vs,
  fields_read false t st fs bs = Ok vs -> Forall2 (fun f v => val_fits (f_dkind f) v) fs vs.
Proof.
  induction fs as [|f rest IH]; intros st bs vs H; cbn [fields_read] in H.
  - inversion H; constructor.
  - match type of H with (if ?c then _ else _) = _ => destruct c end.
    + apply bind_ok in H. destruct H as [vs' [Hr H]]. inversion H; subst.
      constructor; [apply zero_val_fits|eapply IH; eauto].
    + apply bind_ok in H. destruct H as [[v r] [Hv H]].
      apply bind_ok in H. destruct H as [vs' [Hr H]]. inversion H; subst.
      constructor; [eapply field_read_fits; eauto|eapply IH; eauto].
Qed.

(* THEOREM 1b: what Ok means *)
Theorem unmarshal_ok_shape E bs name vs :
  unmarshal E bs = Ok (name, vs) ->
  In name struct_names /\
  exists l, find_layout (e_layouts E) name = Some l /\
            Forall2 (fun f v => val_fits (f_dkind f) v) (tl_fields l) vs.
Proof.
  unfold unmarshal, unmarshal_gen. intros H.
  apply bind_ok in H. destruct H as [[kind failure] [_ H]].
  destruct (struct_of kind failure) as [n|] eqn:Es; [|discriminate].
  destruct (find_layout (e_layouts E) n) as [l|] eqn:El; [|discriminate].
  apply bind_ok in H. destruct H as [vs' [Hr H]]. inversion H; subst.
  split; [eapply struct_of_names; eauto|].
  exists l. split; [exact El|]. eapply fields_read_fits; eauto.
Qed.

(* ------------------------------------------------------------------ Marshal on decoded values *)
Lemma pack_digits_length d : (List.length (pack_digits d) <= (List.length d + 1) / 2)%nat.
Proof.
  assert (H : forall n d, (List.length d <= n)%nat -> (List.length (pack_digits d) <= (List.length d + 1) / 2)%nat).
  { induction n as [|n IH]; intros d0 Hl.
    - destruct d0; [cbn; lia|cbn in Hl; lia].
    - destruct d0 as [|a [|b r]]; [cbn; lia|cbn; lia|].
      cbn [pack_digits List.length]. specialize (IH r). cbn in Hl.
      assert (Hr : (List.length (pack_digits r) <= (List.length r + 1) / 2)%nat) by (apply IH; lia).
      replace (S (S (List.length r)) + 1)%nat with ((List.length r + 1) + 1 * 2)%nat by lia.
      rewrite Nat.div_add by lia. lia. }
  apply (H (List.length d)). lia.
Qed.

Definition small_chunks : list Z := map Z.of_nat (seq 0 1000).
Lemma chunk_digits_small_sweep :
  forallb (fun c => Nat.leb (List.length (chunk_digits c)) 3) small_chunks = true.
Proof. vm_compute. reflexivity. Qed.
Lemma chunk_digits_small c : (0 <= c < 1000)%Z -> (List.length (chunk_digits c) <= 3)%nat.
Proof.
  intros Hc. pose proof chunk_digits_small_sweep as H. rewrite forallb_forall in H.
  apply Nat.leb_le. apply H. unfold small_chunks. apply in_map_iff.
  exists (Z.to_nat c). split; [lia|]. apply in_seq. lia.
Qed.

Lemma enh_write_ok d ind : vp_ok (VPEnh d ind) -> exists out, enh_write d ind = Ok out.
Proof.
  cbn [vp_ok]. intros Hv. unfold enh_write.
  set (body := if N.land ind 7 =? 1 then _ else _).
  assert (Hb : blen body <= 5).
  { subst body. unfold blen.
    destruct (N.eqb_spec (N.land ind 7) 1); [cbn; lia|].
    destruct (N.eqb_spec (N.land ind 7) 2); [cbn; lia|].
    destruct (N.eqb_spec (N.land ind 7) 3) as [E3|]; [|cbn; lia].
    specialize (Hv E3). unfold encode_semi, to_digits. cbn [flat_map]. rewrite app_nil_r.
    set (hh := Z.of_N (d / 3600)). set (mm := (Z.of_N (d / 60) - hh * 60)%Z).
    set (ss := (Z.of_N d - Z.of_N (d / 60) * 60)%Z).
    pose proof (chunk_digits_small hh ltac:(subst hh; lia)).
    pose proof (chunk_digits_small mm ltac:(subst mm; lia)).
    pose proof (chunk_digits_small ss ltac:(subst ss; lia)).
    pose proof (pack_digits_length (chunk_digits hh ++ chunk_digits mm ++ chunk_digits ss)) as Hp.
    rewrite !app_length in Hp.
    assert (((List.length (chunk_digits hh) + (List.length (chunk_digits mm) + List.length (chunk_digits ss)) + 1) / 2 <= 5)%nat).
    { apply Nat.div_le_upper_bound; lia. }
    lia. }
  destruct (N.ltb_spec 7 (1 + blen body)); [lia|]. eauto.
Qed.

Lemma field_write_ok t vpf dcs f v : val_fits (f_ekind f) v -> exists out, field_write t vpf dcs f v = Ok out.
Proof.
  unfold field_write. destruct (f_ekind f), v; cbn [val_fits]; try contradiction; eauto.
  - (* the slice of the user data stays inside the field: (7n+7)/8 <= n, also for n = 0 *)
    intros _. destruct (String.eqb (f_tp f) "UD" && counts_septets dcs); [|eauto].
    destruct (N.ltb_spec (blen l) ((blen l * 7 + 7) / 8)); [lia|eauto].
  - destruct v; intros Hv; eauto. apply enh_write_ok. exact Hv.
Qed.

Lemma fields_write_ok t vpf fs vs :
  Forall2 (fun f v => val_fits (f_ekind f) v) fs vs -> forall dcs, exists out, fields_write t vpf dcs fs vs = Ok out.
Proof.
  induction 1 as [|f v fr vr Hfv _ IH]; intros dcs; cbn [fields_write]; [eauto|].
  destruct (field_write_ok t vpf dcs f v Hfv) as [a Ha]. destruct (IH (dcs_after dcs f v)) as [b Hb].
  rewrite Ha, Hb. cbn. eauto.
Qed.

(* both walks dispatch every field the same way (checked on the generated table) *)
Definition tkind_tag (k : tkind) : N :=
  match k with KByte => 0 | KFlags _ => 1 | KBytes => 2 | KSCAddr => 3 | KAddr => 4 | KTime => 5 | KIface => 6 | KSkip => 7 end.
Definition env_coherent (E : env) : Prop :=
  forall l f, In l (e_layouts E) -> In f (tl_fields l) -> tkind_tag (f_dkind f) = tkind_tag (f_ekind f).
Definition env_coherentb (E : env) : bool :=
  forallb (fun l => forallb (fun f => tkind_tag (f_dkind f) =? tkind_tag (f_ekind f)) (tl_fields l)) (e_layouts E).
Lemma env_coherentb_sound E : env_coherentb E = true -> env_coherent E.
Proof.
  unfold env_coherentb, env_coherent. intros H l f Hl Hf.
  rewrite forallb_forall in H. specialize (H l Hl). rewrite forallb_forall in H. specialize (H f Hf).
  apply N.eqb_eq. exact H.
Qed.

Lemma val_fits_tag k k' v : tkind_tag k = tkind_tag k' -> val_fits k v -> val_fits k' v.
Proof. destruct k, k'; cbn; try discriminate; auto. Qed.

Lemma find_layout_in ls name l : find_layout ls name = Some l -> In l ls /\ tl_name l = name.
Proof.
  unfold find_layout. intros H. apply find_some in H. destruct H as [Hin He].
  apply String.eqb_eq in He. auto.
Qed.

(* THEOREM 2: every value the decoder returns is re-encoded with Ok (no panic, no error) *)
Theorem remarshal_ok E bs p :
  env_coherent E -> unmarshal E bs = Ok p -> exists out, marshal E p = Ok out.
Proof.
  intros HE H. destruct p as [name vs].
  apply unmarshal_ok_shape in H. destruct H as [_ [l [Hl Hf]]].
  unfold marshal. rewrite Hl. apply fields_write_ok.
  apply find_layout_in in Hl. destruct Hl as [Hin _].
  assert (Hall : forall f, In f (tl_fields l) -> tkind_tag (f_dkind f) = tkind_tag (f_ekind f))
    by (intros f Hf'; eapply HE; eauto).
  clear Hin. induction Hf as [|f v fr vr Hfv Hrest IH]; constructor.
  - eapply val_fits_tag; [apply Hall; left; reflexivity|exact Hfv].
  - apply IH. intros f' Hf'. apply Hall. right. exact Hf'.
Qed.

(* ------------------------------------------------------------------ the generated environment *)
Lemma sms_env_ok : env_ok sms_env.
Proof. reflexivity. Qed.
Lemma sms_env_coherent : env_coherent sms_env.
Proof. apply env_coherentb_sound. vm_compute. reflexivity. Qed.

(* every struct the switch of Unmarshal can name has a generated layout *)
Lemma tpdu_layouts_complete :
  forallb (fun n => match find_layout tpdu_layouts n with Some _ => true | None => false end) struct_names = true.
Proof. vm_compute. reflexivity. Qed.

(* the switch of Unmarshal as modelled ([struct_of] after [mt_set]) is the dispatch the
   running code exhibited on all 32 combinations of SC presence, type bits and next octet 00/7F/80/FF *)
Definition dispatch_row_ok (row : bool * N * N * option string) : bool :=
  let '(sc, mti, next, name) := row in
  match struct_of (mt_set mti (if sc then 0 else 1)) (127 <? next), name with
  | Some a, Some b => String.eqb a b
  | None, None => true
  | _, _ => false
  end.
Lemma tpdu_dispatch_ok : forallb dispatch_row_ok tpdu_dispatch = true /\ List.length tpdu_dispatch = 32%nat.
Proof. split; vm_compute; reflexivity. Qed.

Theorem sms_unmarshal_total bs :
  sms_unmarshal bs <> Panic /\
  ((exists e, sms_unmarshal bs = Err e) \/
   (exists name l vs, sms_unmarshal bs = Ok (name, vs) /\ In name struct_names /\
      find_layout tpdu_layouts name = Some l /\
      Forall2 (fun f v => val_fits (f_dkind f) v) (tl_fields l) vs)).
Proof.
  split; [apply unmarshal_never_panics; exact sms_env_ok|].
  pose proof (unmarshal_never_panics sms_env sms_env_ok bs) as Hnp.
  unfold sms_unmarshal. destruct (unmarshal sms_env bs) as [[name vs]|e|] eqn:E.
  - right. destruct (unmarshal_ok_shape _ _ _ _ E) as [Hn [l [Hl Hf]]]. exists name, l, vs. auto.
  - left. eauto.
  - contradiction.
Qed.

Theorem sms_remarshal_total bs p : sms_unmarshal bs = Ok p -> exists out, sms_marshal p = Ok out.
Proof. apply remarshal_ok. exact sms_env_coherent. Qed.

(* ------------------------------------------------------------------ D18: the code before the fix *)
(* SMS-DELIVER whose time stamp starts with the octet FF (filler nibble): DecodeSemi
   returns one block, blocks[1] is out of range *)
Definition d18_witness_scts : bytes :=
  hx "07911326040000F0040B911346610089F60000FF8062917314080CC8F71D14969741F977FD07".
(* SMS-SUBMIT with an enhanced validity period hh:mm:ss = F0 FF FF *)
Definition d18_witness_vp : bytes :=
  hx "0009000B916407281553F8000003F0FFFF000000000AE8329BFD4697D9EC37".
Lemma unmarshal_legacy_refuted :
  sms_unmarshal_legacy d18_witness_scts = Panic /\ sms_unmarshal d18_witness_scts = Err EDecode /\
  sms_unmarshal_legacy d18_witness_vp = Panic /\ sms_unmarshal d18_witness_vp = Err EDecode.
Proof. repeat split; vm_compute; reflexivity. Qed.

(* non-vacuity: a TPDU of the repository's test-suite decodes to a value and is re-encoded octet for octet *)
Definition sample_deliver : bytes :=
  hx "07911326040000F0040B911346610089F60000208062917314080CC8F71D14969741F977FD07".
Lemma sample_deliver_roundtrip :
  (exists vs, sms_unmarshal sample_deliver = Ok ("Deliver"%string, vs) /\ List.length vs = 7%nat) /\
  sms_remarshal sample_deliver = Ok sample_deliver /\
  (exists e, sms_unmarshal (firstn 20 sample_deliver) = Err e).
Proof.
  split; [|split].
  - eexists. split; [vm_compute; reflexivity|reflexivity].
  - vm_compute. reflexivity.
  - eexists. vm_compute. reflexivity.
Qed.

(* ------------------------------------------------------------------ histories
   The model of sms.Unmarshal / sms.Marshal is a FUNCTION of the octets: it has no state, so decoding a
   history of TPDUs in one process is [map] and the result for a TPDU cannot depend on what was decoded before.
   This lemma is therefore true by construction; its content is the tie: the harness decodes ordered histories in
   fresh processes and demands of the implementation what the lemma says of the model. *)
Definition run_history (h : list bytes) : list (outcome tpdu * outcome bytes) :=
  map (fun x => (sms_unmarshal x, sms_remarshal x)) h.
Lemma history_independent (before after : list bytes) (x : bytes) :
  nth_error (run_history (before ++ x :: after)) (List.length before) = Some (sms_unmarshal x, sms_remarshal x).
Proof.
  unfold run_history. rewrite map_app. cbn [map].
  rewrite nth_error_app2 by (rewrite map_length; lia). rewrite map_length, Nat.sub_diag. reflexivity.
Qed.
