(* C07: the two independent dumps of the encoders agree - Gen/Widths.v (wd_<c>: maximal runs of accepted scalar values with
   the octet count of the one-character text and the bits the splitter charges) and Gen/Charsets.v (enc_runs_<c>: maximal
   AFFINE runs with the octets themselves) - for all eight stateless table codings, Shift-JIS, EUC-JP and EUC-KR included.

   Run-wise: both tables are ascending lists of runs; one linear merge walks the two lists in step, comparing run
   boundaries and per-run octet counts (a run of one table that straddles a boundary of the other is cut there and its
   remainder pushed back), so the kernel does |wd| + |enc| steps instead of one linear look-up per scalar value
   (5 min 46 s before).  Lifted to every point by [walk_sound]. *)
From V Require Import Model.Base Model.IntervalMap Model.Splitter Model.Compose Gen.Widths Gen.Charsets
  Model.Charset Model.ComposeText.
From Coq Require Import Lia ZifyN ZifyNat ZifyBool.
Open Scope N_scope.
Local Notation length := List.length.

(* [b]: everything below b has been dealt with (both tables are silent there); the heads start at the same point,
   carry the same octet count, and the shorter of the two is consumed *)
Fixpoint walk (fuel : nat) (b : N) (wd : list wrow) (es : runs) : bool :=
  match fuel with
  | O => false
  | S f =>
      match wd, es with
      | [], [] => true
      | (lo, hi, n, w) :: wd', (l, h, n', v) :: es' =>
          (b <=? lo) && (lo =? l) && (n =? n') && (lo <=? hi) && (l <=? h) &&
          (if hi =? h then walk f (hi + 1) wd' es'
           else if hi <? h then walk f (hi + 1) wd' ((hi + 1, h, n', v + (hi + 1 - l)) :: es')
           else walk f (h + 1) ((h + 1, hi, n, w) :: wd') es')
      | _, _ => false
      end
  end.

Definition runs_agree (wd : list wrow) (es : runs) : bool := walk (S (length wd + length es)) 0 wd es.

(* octet count of r by either table *)
Definition fn (r : N) (wd : list wrow) : option N := option_map fst (wd_find r wd).
Definition gn (r : N) (es : runs) : option N := option_map fst (lookup r es).

Lemma fn_cons r lo hi n w wd :
  fn r ((lo, hi, n, w) :: wd) = if r <? lo then None else if r <=? hi then Some n else fn r wd.
Proof. unfold fn. cbn [wd_find]. destruct (r <? lo); [reflexivity|]. destruct (r <=? hi); reflexivity. Qed.
Lemma gn_cons r l h n v es :
  gn r ((l, h, n, v) :: es) = if (l <=? r) && (r <=? h) then Some n else gn r es.
Proof. unfold gn. cbn [lookup]. destruct ((l <=? r) && (r <=? h)); reflexivity. Qed.

Ltac brk :=
  repeat match goal with
         | |- context [N.ltb ?a ?b] => destruct (N.ltb_spec a b)
         | |- context [N.leb ?a ?b] => destruct (N.leb_spec a b)
         | H : context [N.ltb ?a ?b] |- _ => destruct (N.ltb_spec a b)
         | H : context [N.leb ?a ?b] |- _ => destruct (N.leb_spec a b)
         end.

Lemma walk_sound : forall fuel b wd es, walk fuel b wd es = true ->
  forall r, fn r wd = gn r es /\ (r < b -> fn r wd = None).
Proof.
  induction fuel as [|f IH]; intros b wd es H r; [discriminate|].
  cbn [walk] in H. destruct wd as [|[[[lo hi] n] w] wd']; destruct es as [|[[[l h] n'] v] es']; try discriminate.
  - split; reflexivity.
  - rewrite !andb_true_iff, !N.leb_le, !N.eqb_eq in H. destruct H as [[[[[Hb Hl] Hn] Hlh] Hlh'] H]. subst l n'.
    rewrite fn_cons, gn_cons.
    destruct (N.eqb_spec hi h) as [E|E]; [|destruct (N.ltb_spec hi h) as [E2|E2]].
    + subst h. destruct (IH _ _ _ H r) as [A B]. brk; cbn [andb]; try (exfalso; lia);
        try (pose proof (B ltac:(lia)) as B'); split; try congruence; try (intros; lia); try reflexivity.
    + destruct (IH _ _ _ H r) as [A B]. rewrite gn_cons in A. brk; cbn [andb] in *; try (exfalso; lia);
        try (pose proof (B ltac:(lia)) as B'); split; try congruence; try (intros; lia); try reflexivity.
    + destruct (IH _ _ _ H r) as [A B]. rewrite fn_cons in A, B. brk; cbn [andb] in *; try (exfalso; lia);
        split; try congruence; try (intros; lia); try reflexivity.
Qed.

(* point-wise statement: same accepted set, and the octet count of Gen/Widths.v is the length of the octets of Gen/Charsets.v *)
Definition agree_at (tbl : list wrow) (es : runs) (r : N) : Prop :=
  match wd_find r tbl, enc_rune_t es r with
  | Some (n, _), Some b => N.of_nat (length b) = n
  | None, None => True
  | _, _ => False
  end.

Theorem runs_agree_sound tbl es : runs_agree tbl es = true -> forall r, agree_at tbl es r.
Proof.
  intros H r. destruct (walk_sound _ _ _ _ H r) as [A _]. unfold fn, gn in A. unfold agree_at, enc_rune_t.
  destruct (wd_find r tbl) as [[n w]|]; destruct (lookup r es) as [[n' x]|]; cbn [option_map fst] in A; try discriminate.
  - injection A as <-. rewrite be_bytes_length. lia.
  - exact I.
Qed.

Lemma ra_ascii : runs_agree wd_ascii enc_runs_ascii = true. Proof. vm_compute. reflexivity. Qed.
Lemma ra_latin1 : runs_agree wd_latin1 enc_runs_latin1 = true. Proof. vm_compute. reflexivity. Qed.
Lemma ra_cyrillic : runs_agree wd_cyrillic enc_runs_cyrillic = true. Proof. vm_compute. reflexivity. Qed.
Lemma ra_hebrew : runs_agree wd_hebrew enc_runs_hebrew = true. Proof. vm_compute. reflexivity. Qed.
Lemma ra_ucs2 : runs_agree wd_ucs2 enc_runs_ucs2 = true. Proof. vm_compute. reflexivity. Qed.
Lemma ra_sjis : runs_agree wd_shiftjis enc_runs_sjis = true. Proof. vm_cast_no_check (eq_refl true). Qed.
Lemma ra_eucjp : runs_agree wd_eucjp enc_runs_eucjp = true. Proof. vm_cast_no_check (eq_refl true). Qed.
Lemma ra_euckr : runs_agree wd_euckr enc_runs_euckr = true. Proof. vm_cast_no_check (eq_refl true). Qed.

(* the eight stateless table codings (ISO-2022-JP is stateful: its encoder is not a per-character table; wd_iso2022jp
   holds the length of the one-character TEXT, escapes included) *)
Definition table_coding (c : coding) : Prop := c <> CIso2022jp.

Theorem tables_agree_table c : table_coding c -> forall r, agree_at (wd_of c) (enc_runs c) r.
Proof.
  intros Hc. destruct c; cbn [wd_of enc_runs]; apply runs_agree_sound.
  - exact ra_ascii.
  - exact ra_latin1.
  - exact ra_sjis.
  - exact ra_cyrillic.
  - exact ra_hebrew.
  - exact ra_ucs2.
  - exfalso. apply Hc. reflexivity.
  - exact ra_eucjp.
  - exact ra_euckr.
Qed.

(* hence the length-only encoder of compose_len is the length of the octets compose_cs encodes, for every text *)
Theorem enc_len_is_length_table c : table_coding c -> forall t,
  match enc_len_stateless (wd_of c) t, encode c t with
  | Ok n, Ok bs => n = length bs
  | Err _, Err _ => True
  | _, _ => False
  end.
Proof.
  intros Hc. assert (E : encode c = encode_t (enc_runs c)) by (destruct c; try reflexivity; exfalso; apply Hc; reflexivity).
  rewrite E. induction t as [|r t IH]; cbn [enc_len_stateless encode_t]; [reflexivity|].
  pose proof (tables_agree_table c Hc r) as A. unfold agree_at in A.
  destruct (wd_find r (wd_of c)) as [[n wd]|]; destruct (enc_rune_t (enc_runs c) r) as [b|]; try contradiction; [|exact I].
  destruct (enc_len_stateless (wd_of c) t) as [l|e|]; destruct (encode_t (enc_runs c) t) as [bs|e'|]; try contradiction; cbn [obind].
  - rewrite app_length. lia.
  - exact I.
Qed.

(* non-vacuity: U+65E5 is in both Shift-JIS tables with two octets; U+20AC in neither; 3 octets in EUC-JP for U+4E02 *)
Lemma tables_agree_examples :
  wd_find 26085 wd_shiftjis = Some (2, 16) /\ enc_rune_t enc_runs_sjis 26085 = Some [147; 250] /\
  wd_find 8364 wd_shiftjis = None /\ enc_rune_t enc_runs_sjis 8364 = None /\
  option_map fst (wd_find 19970 wd_eucjp) = Some 3 /\ option_map (@length N) (enc_rune_t enc_runs_eucjp 19970) = Some 3%nat /\
  enc_len_stateless wd_euckr [44032; 97] = Ok 3%nat.
Proof. vm_compute. repeat split; reflexivity. Qed.
