(* The Go-hazards layer of the decoder (Model/PduReadHazards.v) computes Model.Pdu.read_pdu:
   every make / slice / reflect.New is in range, for all octets and schedules.  Consequently
   every theorem about [read_pdu] (C01 C03 C04 C11 C13) holds of [read_pdu_io], in particular
   it never yields RpPanic.  The legacy variants do panic (witnesses by vm_compute). *)
From V Require Import Model.Pdu Model.PduReadHazards Proofs.PduMarshalProofs Proofs.PduStreamProofs.
From Coq Require Import ZifyN ZifyNat ZifyBool.
Ltac Zify.zify_post_hook ::= Z.div_mod_to_equations.
Open Scope N_scope.

(* ------------------------------------------------------------ primitive operations in range *)
Lemma go_make_N n : go_make (Z.of_N n) = Ok n.
Proof. unfold go_make. destruct (Z.ltb_spec (Z.of_N n) 0); [lia|]. rewrite N2Z.id. reflexivity. Qed.

Lemma go_slice_drop_last (w : bytes) (x : N) : go_slice (w ++ [x]) 0 (Z.of_N (len (w ++ [x])) - 1) = Ok w.
Proof.
  unfold go_slice. rewrite len_app, len_cons, len_nil.
  destruct (Z.ltb_spec 0 0); [lia|].
  destruct (Z.ltb_spec (Z.of_N (len w + (1 + 0)) - 1) 0); [lia|].
  destruct (Z.ltb_spec (Z.of_N (len w + (1 + 0))) (Z.of_N (len w + (1 + 0)) - 1)); [lia|].
  cbn [orb Z.to_nat skipn].
  replace (Z.to_nat (Z.of_N (len w + (1 + 0)) - 1 - 0)) with (List.length w) by (unfold len; lia).
  rewrite firstn_app, Nat.sub_diag, firstn_all. cbn [firstn]. rewrite app_nil_r. reflexivity.
Qed.

(* ------------------------------------------------------------ C-octet strings *)
Lemma read_string0_spec s :
  read_string0 s = match dec_cstr s with Ok (w, r) => Ok (w ++ [0], r) | Err e => Err e | Panic => Panic end.
Proof.
  induction s as [|c r IH]; [reflexivity|]. cbn [read_string0 dec_cstr].
  destruct (N.eqb_spec c 0) as [->|]; [reflexivity|].
  rewrite IH. destruct (dec_cstr r) as [[w r']| |]; reflexivity.
Qed.

Lemma dec_cstr_h_eq s : dec_cstr_h s = dec_cstr s.
Proof.
  unfold dec_cstr_h. rewrite read_string0_spec.
  destruct (dec_cstr s) as [[w r]| |]; cbn [obind]; try reflexivity.
  rewrite go_slice_drop_last. reflexivity.
Qed.

Lemma dec_addr_h_eq s : dec_addr_h s = dec_addr s.
Proof.
  unfold dec_addr_h, dec_addr. destruct (dec_u8 s) as [[t s1]| |]; cbn [obind]; try reflexivity.
  destruct (dec_u8 s1) as [[n s2]| |]; cbn [obind]; try reflexivity. rewrite dec_cstr_h_eq. reflexivity.
Qed.

Lemma dec_dests_loop_h_eq n : forall s sme dl, dec_dests_loop_h n s sme dl = dec_dests_loop n s sme dl.
Proof.
  induction n as [|n IH]; intros s sme dl; [reflexivity|]. cbn [dec_dests_loop_h dec_dests_loop].
  destruct s as [|c r]; [reflexivity|].
  destruct c as [|[p|p|]]; try reflexivity.
  - destruct p as [p|p|]; try reflexivity. rewrite dec_cstr_h_eq.
    destruct (dec_cstr r) as [[d r']| |]; cbn [obind]; try reflexivity. apply IH.
  - rewrite dec_addr_h_eq. destruct (dec_addr r) as [[a r']| |]; cbn [obind]; try reflexivity. apply IH.
Qed.
Lemma dec_dests_h_eq s : dec_dests_h s = dec_dests s.
Proof. unfold dec_dests_h, dec_dests. destruct (dec_u8 s) as [[c r]| |]; cbn [obind]; try reflexivity. apply dec_dests_loop_h_eq. Qed.

Lemma dec_unsucc_loop_h_eq n : forall s acc, dec_unsucc_loop_h n s acc = dec_unsucc_loop n s acc.
Proof.
  induction n as [|n IH]; intros s acc; [reflexivity|]. cbn [dec_unsucc_loop_h dec_unsucc_loop].
  rewrite dec_addr_h_eq. destruct (dec_addr s) as [[a r]| |]; cbn [obind]; try reflexivity.
  destruct (dec_be32 r) as [[code r']| |]; cbn [obind]; try reflexivity. apply IH.
Qed.
Lemma dec_unsucc_h_eq s : dec_unsucc_h s = dec_unsucc s.
Proof. unfold dec_unsucc_h, dec_unsucc. destruct (dec_u8 s) as [[c r]| |]; cbn [obind]; try reflexivity. apply dec_unsucc_loop_h_eq. Qed.

(* ------------------------------------------------------------ user data header: int index vs remaining count *)
Lemma dec_udh_loop_h_eq fuel : forall i L s m, (0 <= i)%Z ->
  dec_udh_loop_h fuel i L s m = dec_udh_loop fuel (Z.to_N (L - i)) s m.
Proof.
  induction fuel as [|fuel IH]; intros i L s m Hi.
  - cbn [dec_udh_loop_h dec_udh_loop].
    destruct (Z.leb_spec L i); destruct (N.eqb_spec (Z.to_N (L - i)) 0); try reflexivity; lia.
  - cbn [dec_udh_loop_h dec_udh_loop].
    destruct (Z.leb_spec L i); destruct (N.eqb_spec (Z.to_N (L - i)) 0); try reflexivity; try lia.
    destruct (dec_u8 s) as [[id s1]| |]; cbn [obind]; try reflexivity.
    destruct (dec_u8 s1) as [[size s2]| |]; cbn [obind]; try reflexivity.
    rewrite go_make_N. cbn [obind].
    destruct (take size s2) as [[d s3]| |]; cbn [obind]; try reflexivity.
    rewrite IH by lia. f_equal. lia.
Qed.
Lemma dec_udh_h_eq s : dec_udh_h s = dec_udh s.
Proof.
  unfold dec_udh_h, dec_udh. destruct (dec_u8 s) as [[l r]| |]; cbn [obind]; try reflexivity.
  rewrite dec_udh_loop_h_eq by lia. f_equal. lia.
Qed.

(* ------------------------------------------------------------ short message: the byte subtraction never leaves 0..255 *)
Lemma msg_len_byte_range l u : (0 <= msg_len_byte l u < 256)%Z.
Proof. unfold msg_len_byte. lia. Qed.
Lemma msg_len_byte_eq l u : Z.to_N (msg_len_byte l u) = (l + 256 - u mod 256) mod 256.
Proof. unfold msg_len_byte. lia. Qed.

Lemma dec_short_h_eq rep act s : dec_short_h rep act s = dec_short rep act s.
Proof.
  unfold dec_short_h, dec_short_gen, dec_short.
  destruct (if rep then Ok (NoCoding, s) else match s with [] => Err EEOF | c :: r => Ok (c, r) end) as [[dc s0]| |]; cbn [obind]; try reflexivity.
  destruct (dec_u8 s0) as [[dflt s1]| |]; cbn [obind]; try reflexivity.
  destruct (dec_u8 s1) as [[l s2]| |]; cbn [obind]; try reflexivity.
  assert (Hu : (if act then do (m, r) <- dec_udh_h s2; Ok (Some m, r) else Ok (None, s2))
             = (if act then do (m, r) <- dec_udh s2; Ok (Some m, r) else Ok (None, s2))).
  { destruct act; [rewrite dec_udh_h_eq|]; reflexivity. }
  rewrite Hu. destruct (if act then do (m, r) <- dec_udh s2; Ok (Some m, r) else Ok (None, s2)) as [[u s3]| |]; cbn [obind]; try reflexivity.
  pose proof (msg_len_byte_range l (match u with None => 0 | Some m => udh_len m end)) as Hr.
  unfold go_make. destruct (Z.ltb_spec (msg_len_byte l (match u with None => 0 | Some m => udh_len m end)) 0); [lia|].
  cbn [obind]. rewrite msg_len_byte_eq. reflexivity.
Qed.

(* ------------------------------------------------------------ TLVs *)
Lemma dec_tags_loop_h_eq fuel : forall s m, dec_tags_loop_h fuel s m = dec_tags_loop fuel s m.
Proof.
  induction fuel as [|fuel IH]; intros s m.
  - destruct s as [|a [|b [|c [|d r]]]]; reflexivity.
  - destruct s as [|a [|b [|c [|d r]]]]; try reflexivity.
    cbn [dec_tags_loop_h dec_tags_loop]. rewrite go_make_N. cbn [obind].
    destruct (de16 c d =? 0); [apply IH|].
    destruct r as [|x xs]; [reflexivity|]. destruct (de16 c d <=? len (x :: xs)); [apply IH | reflexivity].
Qed.
Lemma dec_tags_h_eq s : dec_tags_h s = dec_tags s.
Proof. apply dec_tags_loop_h_eq. Qed.

(* ------------------------------------------------------------ fields, unmarshal *)
Lemma dec_field_h_eq lay u k s : dec_field_h lay u k s = dec_field lay u k s.
Proof.
  destruct k; cbn [dec_field_h dec_field]; try reflexivity;
    rewrite ?dec_cstr_h_eq, ?dec_addr_h_eq, ?dec_dests_h_eq, ?dec_unsucc_h_eq, ?dec_short_h_eq, ?dec_tags_h_eq; reflexivity.
Qed.
Lemma dec_fields_h_eq lay ks : forall s u, dec_fields_h lay ks s u = dec_fields lay ks s u.
Proof.
  induction ks as [|k ks IH]; intros s u; [reflexivity|]. cbn [dec_fields_h dec_fields].
  rewrite dec_field_h_eq. destruct (dec_field lay u k s) as [[v r]| |]; cbn [obind]; try reflexivity.
  rewrite IH. reflexivity.
Qed.
Lemma unmarshal_h_eq lay f : unmarshal_h lay f = unmarshal lay f.
Proof.
  unfold unmarshal_h, unmarshal. destruct (l_fields lay) as [|k ks]; [reflexivity|]. destruct k; try reflexivity.
  destruct (dec_header f) as [[h r]| |]; cbn [obind]; try reflexivity.
  destruct (negb (h_status h =? 0)); [reflexivity|]. rewrite dec_fields_h_eq. reflexivity.
Qed.

(* ------------------------------------------------------------ ReadPDU *)
Lemma dec_header_len_range s h r : dec_header s = Ok (h, r) -> 16 <= h_len h <= 65536.
Proof.
  unfold dec_header.
  destruct s as [|l0 [|l1 [|l2 [|l3 [|i0 [|i1 [|i2 [|i3 [|s0 [|s1 [|s2 [|s3 [|q0 [|q1 [|q2 [|q3 r']]]]]]]]]]]]]]]]; try discriminate.
  destruct (N.ltb_spec (de32 l0 l1 l2 l3) 16); [discriminate|].
  destruct (N.ltb_spec 65536 (de32 l0 l1 l2 l3)); [discriminate|].
  cbn [orb]. intros [= <- _]. cbn [h_len]. lia.
Qed.

(* the layer computes read_pdu: the body buffer size is in range after the header check, reflect.New is only
   reached for a registered type, and the field decoders agree *)
Theorem read_pdu_io_eq layouts st : read_pdu_io layouts st = read_pdu layouts st.
Proof.
  unfold read_pdu_io, read_pdu_gen, read_pdu.
  destruct (read_full 16 st) as [hd rest|got rest|]; try reflexivity.
  destruct (dec_header hd) as [[h r]| |] eqn:Eh; try reflexivity.
  pose proof (dec_header_len_range hd h r Eh) as Hl.
  unfold go_make_body.
  replace ((Z.of_N (h_len h) - 16) mod 4294967296)%Z with (Z.of_N (h_len h - 16)) by lia.
  destruct (Z.ltb_spec (Z.of_N (h_len h - 16)) 0); [lia|].
  destruct (Z.ltb_spec 2147483647 (Z.of_N (h_len h - 16))); [lia|]. cbn [orb]. rewrite N2Z.id.
  destruct (read_full (N.to_nat (h_len h - 16)) rest) as [body rest'|got rest'|]; try reflexivity.
  destruct (find_layout layouts (h_id h)) as [lay|]; [|reflexivity].
  cbn [go_reflect_new]. rewrite unmarshal_h_eq. reflexivity.
Qed.

(* ... hence everything proven about read_pdu holds of it; in particular totality *)
Theorem read_pdu_io_total layouts s sched :
  let '(r, c, st') := read_pdu_io layouts {| st_data := s; st_sched := sched |} in
  r <> RpPanic /\ r <> RpFuel /\ c <= 65536 /\ c <= len s /\
  st_data st' = skipn (N.to_nat c) s /\
  (rp_is_error r = true \/
   exists lay vs, r = RpOk lay vs /\ In lay layouts /\ unmarshal lay (firstn (N.to_nat c) s) = Ok vs).
Proof. rewrite read_pdu_io_eq. apply read_pdu_total. Qed.

Theorem unmarshal_h_not_panic lay f : unmarshal_h lay f <> Panic.
Proof.
  rewrite unmarshal_h_eq. intros H.
  pose proof (read_pdu_total [lay] (f) []) as T. (* not needed: direct argument below *)
  clear T. revert H. apply unmarshal_not_panic.
Qed.

(* ------------------------------------------------------------ the layer CAN panic: historical defects *)
(* seeded C04-m1 (int arithmetic for the message size): sm_length 1 in front of a 5-octet user data header *)
Lemma dec_short_m1_refuted : dec_short_m1 false true [0; 0; 1; 4; 0; 2; 7; 7] = Panic.
Proof. vm_compute. reflexivity. Qed.
Lemma dec_short_same_input_ok : dec_short_h false true [0; 0; 1; 4; 0; 2; 7; 7] = Err EUnexpectedEOF.
Proof. vm_compute. reflexivity. Qed.
(* seeded C04-x1 (end := 4 + length in uint16): a TLV announcing 65533 octets *)
Lemma dec_tags_x1_refuted : dec_tags_x1 [0; 5; 255; 253; 1; 2; 3; 4] = Panic.
Proof. vm_compute. reflexivity. Qed.
Lemma dec_tags_same_input_ok : dec_tags_h [0; 5; 255; 253; 1; 2; 3; 4] = Err EUnexpectedEOF.
Proof. vm_compute. reflexivity. Qed.
(* seeded C04-h1 / x2 (reflect.New before the registry lookup's ok is looked at): an unregistered command_id *)
Lemma read_pdu_unchecked_refuted :
  fst (fst (read_pdu_unchecked [] {| st_data := [0;0;0;16; 0;0;11;173; 0;0;0;0; 0;0;0;1]; st_sched := [] |})) = RpPanic.
Proof. vm_compute. reflexivity. Qed.
