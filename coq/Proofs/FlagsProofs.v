From V Require Import Model.Flags.
From Coq Require Import ZifyN ZifyNat ZifyBool.
Ltac Zify.zify_post_hook ::= Z.div_mod_to_equations.
Open Scope N_scope.

(* Finite sweeps inside the kernel, lifted to the universally quantified
   statement with [forallb_forall]; the bound (b < 256) is in the statement. *)
Lemma sweep256 (P : N -> bool) :
  forallb P all256 = true -> forall b, b < 256 -> P b = true.
Proof. intros H b Hb. eapply forallb_forall in H; [exact H|]. apply all256_spec; exact Hb. Qed.

Lemma esm_model_is_spec b : b < 256 -> esm_of_byte b = spec_esm b.
Proof.
  intros Hb. apply beq_esm_eq. revert b Hb.
  apply (sweep256 (fun b => beq_esm (esm_of_byte b) (spec_esm b))). vm_compute. reflexivity.
Qed.
Lemma esm_roundtrip b : b < 256 -> esm_to_byte (esm_of_byte b) = b.
Proof.
  intros Hb. apply N.eqb_eq. revert b Hb.
  apply (sweep256 (fun b => esm_to_byte (esm_of_byte b) =? b)). vm_compute. reflexivity.
Qed.
Lemma esm_spec_byte b : b < 256 -> spec_esm_byte (spec_esm b) = b.
Proof.
  intros Hb. unfold spec_esm_byte, spec_esm, nb; cbn [e_mode e_type e_udhi e_reply].
  assert (H1: (b / 64) mod 2 < 2) by (apply N.mod_lt; lia).
  assert (H2: (b / 128) mod 2 < 2) by (apply N.mod_lt; lia).
  destruct (N.eqb_spec ((b / 64) mod 2) 1), (N.eqb_spec ((b / 128) mod 2) 1); lia.
Qed.
Lemma esm_to_byte_spec_on_decoded b : b < 256 ->
  esm_to_byte (spec_esm b) = spec_esm_byte (spec_esm b).
Proof.
  intros Hb. apply N.eqb_eq. revert b Hb.
  apply (sweep256 (fun b => esm_to_byte (spec_esm b) =? spec_esm_byte (spec_esm b))).
  vm_compute. reflexivity.
Qed.

Lemma regdel_model_is_spec b : b < 256 -> regdel_of_byte b = spec_regdel b.
Proof.
  intros Hb. apply beq_regdel_eq. revert b Hb.
  apply (sweep256 (fun b => beq_regdel (regdel_of_byte b) (spec_regdel b))). vm_compute. reflexivity.
Qed.
Lemma regdel_roundtrip b : b < 256 -> regdel_to_byte (regdel_of_byte b) = b.
Proof.
  intros Hb. apply N.eqb_eq. revert b Hb.
  apply (sweep256 (fun b => regdel_to_byte (regdel_of_byte b) =? b)). vm_compute. reflexivity.
Qed.
Lemma regdel_spec_byte b : b < 256 -> spec_regdel_byte (spec_regdel b) = b.
Proof.
  intros Hb. unfold spec_regdel_byte, spec_regdel, nb; cbn [r_mc r_sme r_inter r_rsv].
  assert (H1: (b / 16) mod 2 < 2) by (apply N.mod_lt; lia).
  destruct (N.eqb_spec ((b / 16) mod 2) 1); lia.
Qed.

Lemma ifver_roundtrip b : b < 256 -> ifver_of_json (ifver_to_json b) = Some b.
Proof.
  intros Hb.
  assert (H: beq_opt N.eqb (ifver_of_json (ifver_to_json b)) (Some b) = true).
  { revert b Hb.
    apply (sweep256 (fun b => beq_opt N.eqb (ifver_of_json (ifver_to_json b)) (Some b))).
    vm_compute. reflexivity. }
  destruct (ifver_of_json (ifver_to_json b)) as [x|]; cbn in H; [|discriminate].
  apply N.eqb_eq in H. congruence.
Qed.

(* ---------------------------------------------------------------------------
   The other inverse: encode, then decode, over every field value (finite). *)
Lemma in_small (n : nat) (x : N) : x < N.of_nat n -> In x (map N.of_nat (seq 0 n)).
Proof. intros H. apply in_map_iff. exists (N.to_nat x). split; [lia|]. apply in_seq. lia. Qed.
Lemma in_bools (b : bool) : In b bools. Proof. destruct b; cbn; auto. Qed.

Lemma all_esm_spec e : e_mode e < 4 -> e_type e < 16 -> In e all_esm.
Proof.
  intros Hm Ht. destruct e as [m t u r]. cbn in Hm, Ht. unfold all_esm.
  apply in_flat_map. exists r. split; [apply in_bools|].
  apply in_flat_map. exists u. split; [apply in_bools|].
  apply in_flat_map. exists t. split; [apply (in_small 16); exact Ht|].
  apply in_map_iff. exists m. split; [reflexivity|apply (in_small 4); exact Hm].
Qed.
Lemma all_regdel_spec r : r_mc r < 4 -> r_sme r < 4 -> r_rsv r < 8 -> In r all_regdel.
Proof.
  intros Hm Hs Hr. destruct r as [m s i v]. cbn in Hm, Hs, Hr. unfold all_regdel.
  apply in_flat_map. exists v. split; [apply (in_small 8); exact Hr|].
  apply in_flat_map. exists i. split; [apply in_bools|].
  apply in_flat_map. exists s. split; [apply (in_small 4); exact Hs|].
  apply in_map_iff. exists m. split; [reflexivity|apply (in_small 4); exact Hm].
Qed.

Lemma esm_encode_decode e : e_mode e < 4 -> e_type e < 16 ->
  esm_of_byte (esm_to_byte e) = e /\ esm_to_byte e < 256 /\ esm_to_byte e = spec_esm_byte e.
Proof.
  intros Hm Ht. pose proof (all_esm_spec e Hm Ht) as Hin.
  assert (H : forallb (fun e => beq_esm (esm_of_byte (esm_to_byte e)) e && (esm_to_byte e <? 256)
                                && (esm_to_byte e =? spec_esm_byte e)) all_esm = true) by (vm_compute; reflexivity).
  rewrite forallb_forall in H. specialize (H e Hin). rewrite !andb_true_iff in H. destruct H as [[H1 H2] H3].
  apply beq_esm_eq in H1. apply N.ltb_lt in H2. apply N.eqb_eq in H3. auto.
Qed.
Lemma regdel_encode_decode r : r_mc r < 4 -> r_sme r < 4 -> r_rsv r < 8 ->
  regdel_of_byte (regdel_to_byte r) = r /\ regdel_to_byte r < 256 /\ regdel_to_byte r = spec_regdel_byte r.
Proof.
  intros Hm Hs Hr. pose proof (all_regdel_spec r Hm Hs Hr) as Hin.
  assert (H : forallb (fun r => beq_regdel (regdel_of_byte (regdel_to_byte r)) r && (regdel_to_byte r <? 256)
                                && (regdel_to_byte r =? spec_regdel_byte r)) all_regdel = true) by (vm_compute; reflexivity).
  rewrite forallb_forall in H. specialize (H r Hin). rewrite !andb_true_iff in H. destruct H as [[H1 H2] H3].
  apply beq_regdel_eq in H1. apply N.ltb_lt in H2. apply N.eqb_eq in H3. auto.
Qed.
(* the octet domain and the field domain are in bijection: 256 values each, no repetition *)
Lemma all_esm_is_decoded_octets : map esm_to_byte all_esm = all256 /\ map esm_of_byte all256 = all_esm.
Proof. split; vm_compute; reflexivity. Qed.
Lemma all_regdel_is_decoded_octets : map regdel_to_byte all_regdel = all256 /\ map regdel_of_byte all256 = all_regdel.
Proof. split; vm_compute; reflexivity. Qed.

(* ---------------------------------------------------------------------------
   Receiver independence: decoding INTO a value that is already there. *)
Lemma esm_write_any_receiver e0 c : esm_write e0 c = esm_of_byte c.
Proof. reflexivity. Qed.
Lemma regdel_write_any_receiver r0 c : regdel_write r0 c = regdel_of_byte c.
Proof. reflexivity. Qed.
Lemma esm_write_history e0 bs b : b < 256 -> esm_to_byte (fold_left esm_write (bs ++ [b]) e0) = b.
Proof. intros Hb. rewrite fold_left_app. cbn [fold_left]. rewrite esm_write_any_receiver. apply esm_roundtrip, Hb. Qed.
Lemma regdel_write_history r0 bs b : b < 256 -> regdel_to_byte (fold_left regdel_write (bs ++ [b]) r0) = b.
Proof. intros Hb. rewrite fold_left_app. cbn [fold_left]. rewrite regdel_write_any_receiver. apply regdel_roundtrip, Hb. Qed.
(* a WriteByte that ORs into its receiver is NOT receiver independent: 0xFF then 0x00 reads back 0xFF *)
Lemma esm_write_or_refuted :
  exists e0 c, c < 256 /\ esm_to_byte (esm_write_or e0 c) <> c /\ esm_write_or (esm_of_byte 0) c = esm_of_byte c.
Proof. exists (esm_of_byte 255), 0. vm_compute. repeat split; congruence. Qed.
Lemma ifver_unmarshal_any_receiver v0 b : b < 256 -> ifver_unmarshal v0 (ifver_to_json b) = (b, true).
Proof. intros Hb. unfold ifver_unmarshal. rewrite ifver_roundtrip by exact Hb. reflexivity. Qed.
