From V Require Import Model.Flags.
From Coq Require Import ZifyN ZifyNat ZifyBool.
Ltac Zify.zify_post_hook ::= Z.div_mod_to_equations.
Open Scope N_scope.

(* Finite sweeps inside the kernel, lifted to the universally quantified
   statement with [forallb_forall]; the bound (b < 256) is in the statement. *)
Lemma sweep256 (P : N -> bool) :
  forallb P all256 = true -> forall b, b < 256 -> P b = true.
Proof. intros H b Hb. eapply forallb_forall in H; [exact H|]. apply all256_spec; exact Hb. Qed.

Lemma esm_model_is_spec b : b < 256 -> esm_of_byte b = spec_esm b.
Proof.
  intros Hb. apply beq_esm_eq. revert b Hb.
  apply (sweep256 (fun b => beq_esm (esm_of_byte b) (spec_esm b))). vm_compute. reflexivity.
Qed.
Lemma esm_roundtrip b : b < 256 -> esm_to_byte (esm_of_byte b) = b.
Proof.
  intros Hb. apply N.eqb_eq. revert b Hb.
  apply (sweep256 (fun b => esm_to_byte (esm_of_byte b) =? b)). vm_compute. reflexivity.
Qed.
Lemma esm_spec_byte b : b < 256 -> spec_esm_byte (spec_esm b) = b.
Proof.
  intros Hb. unfold spec_esm_byte, spec_esm, nb; cbn [e_mode e_type e_udhi e_reply].
  assert (H1: (b / 64) mod 2 < 2) by (apply N.mod_lt; lia).
  assert (H2: (b / 128) mod 2 < 2) by (apply N.mod_lt; lia).
  destruct (N.eqb_spec ((b / 64) mod 2) 1), (N.eqb_spec ((b / 128) mod 2) 1); lia.
Qed.
Lemma esm_to_byte_spec_on_decoded b : b < 256 ->
  esm_to_byte (spec_esm b) = spec_esm_byte (spec_esm b).
Proof.
  intros Hb. apply N.eqb_eq. revert b Hb.
  apply (sweep256 (fun b => esm_to_byte (spec_esm b) =? spec_esm_byte (spec_esm b))).
  vm_compute. reflexivity.
Qed.

Lemma regdel_model_is_spec b : b < 256 -> regdel_of_byte b = spec_regdel b.
Proof.
  intros Hb. apply beq_regdel_eq. revert b Hb.
  apply (sweep256 (fun b => beq_regdel (regdel_of_byte b) (spec_regdel b))). vm_compute. reflexivity.
Qed.
Lemma regdel_roundtrip b : b < 256 -> regdel_to_byte (regdel_of_byte b) = b.
Proof.
  intros Hb. apply N.eqb_eq. revert b Hb.
  apply (sweep256 (fun b => regdel_to_byte (regdel_of_byte b) =? b)). vm_compute. reflexivity.
Qed.
Lemma regdel_spec_byte b : b < 256 -> spec_regdel_byte (spec_regdel b) = b.
Proof.
  intros Hb. unfold spec_regdel_byte, spec_regdel, nb; cbn [r_mc r_sme r_inter r_rsv].
  assert (H1: (b / 16) mod 2 < 2) by (apply N.mod_lt; lia).
  destruct (N.eqb_spec ((b / 16) mod 2) 1); lia.
Qed.

Lemma ifver_roundtrip b : b < 256 -> ifver_of_json (ifver_to_json b) = Some b.
Proof.
  intros Hb.
  assert (H: beq_opt N.eqb (ifver_of_json (ifver_to_json b)) (Some b) = true).
  { revert b Hb.
    apply (sweep256 (fun b => beq_opt N.eqb (ifver_of_json (ifver_to_json b)) (Some b))).
    vm_compute. reflexivity. }
  destruct (ifver_of_json (ifver_to_json b)) as [x|]; cbn in H; [|discriminate].
  apply N.eqb_eq in H. congruence.
Qed.
