(* C19, alphanumeric TP addresses: the model's bit-level unpack / pack (unpackSeptets,
   packSeptets of coding/gsm7bit) against the arithmetic packing of the spec
   (Spec.Gsm0340.pack7: the septets as one little-endian number), for septet lists of
   ANY length (induction), and the 7-bit table of the running code against itself. *)
From V Require Import Model.TpduRun Spec.Gsm0340.
From Coq Require Import ZifyN ZifyNat ZifyBool.
Ltac Zify.zify_post_hook ::= Z.div_mod_to_equations.
Open Scope N_scope.

(* ------------------------------------------------------------------ bits of a number *)
Lemma bits_of_length w n : List.length (bits_of w n) = w.
Proof. revert n; induction w; cbn; auto. Qed.

Lemma of_bits_bits_of w n : n < 2 ^ N.of_nat w -> of_bits (bits_of w n) = n.
Proof.
  revert n. induction w as [|w IH]; intros n Hn.
  - cbn in *. lia.
  - cbn [bits_of of_bits]. rewrite IH.
    + pose proof (N.div2_odd n) as H. unfold N.b2n in H. destruct (N.odd n); lia.
    + rewrite Nat2N.inj_succ, N.pow_succ_r' in Hn. rewrite N.div2_div. apply N.div_lt_upper_bound; lia.
Qed.

Lemma bits_of_app a b v : bits_of (a + b) v = bits_of a v ++ bits_of b (v / 2 ^ N.of_nat a).
Proof.
  revert v. induction a as [|a IH]; intros v.
  - cbn [Nat.add bits_of app N.of_nat]. rewrite N.pow_0_r, N.div_1_r. reflexivity.
  - cbn [Nat.add bits_of app]. rewrite IH. f_equal. f_equal.
    rewrite Nat2N.inj_succ, N.pow_succ_r', N.div2_div, N.div_div by (try apply N.pow_nonzero; lia). reflexivity.
Qed.

Lemma bits_of_mod w v : bits_of w (v mod 2 ^ N.of_nat w) = bits_of w v.
Proof.
  revert v. induction w as [|w IH]; intros v; [reflexivity|].
  cbn [bits_of]. rewrite Nat2N.inj_succ, N.pow_succ_r'.
  set (p := 2 ^ N.of_nat w). assert (Hp : p <> 0) by (apply N.pow_nonzero; lia).
  assert (E : v mod (2 * p) = v mod 2 + 2 * ((v / 2) mod p)) by (apply N.mod_mul_r; lia).
  f_equal.
  - rewrite E. rewrite N.odd_add_mul_2.
    assert (E2 : v = v mod 2 + 2 * (v / 2)) by (pose proof (N.div_mod' v 2); lia).
    rewrite E2 at 2. rewrite N.odd_add_mul_2. reflexivity.
  - rewrite <- (IH (N.div2 v)). f_equal. rewrite !N.div2_div. rewrite E. fold p.
    assert (v mod 2 < 2) by (apply N.mod_lt; lia). lia.
Qed.

Lemma bits_of_zero w : bits_of w 0 = repeat false w.
Proof. induction w as [|w IH]; [reflexivity|]. cbn [bits_of repeat]. rewrite <- IH. reflexivity. Qed.

(* ------------------------------------------------------------------ the spec's number, as bits *)
Lemma septets_value_bound ss : Forall (fun s => s < 128) ss -> septets_value ss < 2 ^ N.of_nat (7 * List.length ss).
Proof.
  induction 1 as [|s r Hs _ IH]; [cbn; lia|].
  cbn [septets_value List.length]. replace (7 * S (List.length r))%nat with (7 + 7 * List.length r)%nat by lia.
  rewrite Nat2N.inj_add, N.pow_add_r. change (2 ^ N.of_nat 7) with 128. lia.
Qed.

Lemma septet_bits ss : Forall (fun s => s < 128) ss ->
  flat_map (bits_of 7) ss = bits_of (7 * List.length ss) (septets_value ss).
Proof.
  induction 1 as [|s r Hs _ IH]; [reflexivity|].
  cbn [flat_map septets_value List.length]. replace (7 * S (List.length r))%nat with (7 + 7 * List.length r)%nat by lia.
  rewrite bits_of_app. change (2 ^ N.of_nat 7) with 128.
  rewrite <- (bits_of_mod 7 (s + 128 * septets_value r)). change (2 ^ N.of_nat 7) with 128.
  replace ((s + 128 * septets_value r) mod 128) with s by lia.
  replace ((s + 128 * septets_value r) / 128) with (septets_value r) by lia.
  rewrite IH. reflexivity.
Qed.

Lemma le_octets_bits k v : flat_map (bits_of 8) (le_octets k v) = bits_of (8 * k) v.
Proof.
  revert v. induction k as [|k IH]; intros v; [reflexivity|].
  cbn [le_octets flat_map]. replace (8 * S k)%nat with (8 + 8 * k)%nat by lia.
  rewrite bits_of_app. change (2 ^ N.of_nat 8) with 256.
  rewrite IH. f_equal. apply (bits_of_mod 8).
Qed.

Lemma packed_len_bits n : (7 * n <= 8 * packed_len n < 7 * n + 8)%nat.
Proof. unfold packed_len. lia. Qed.

(* the packed octets, read bit by bit, are the septets' bits followed by the zero fill bits *)
Lemma pack7_bits ss : Forall (fun s => s < 128) ss ->
  flat_map (bits_of 8) (pack7 ss) =
  flat_map (bits_of 7) ss ++ repeat false (8 * packed_len (List.length ss) - 7 * List.length ss).
Proof.
  intros Hs. unfold pack7. rewrite le_octets_bits.
  pose proof (packed_len_bits (List.length ss)) as Hl.
  replace (8 * packed_len (List.length ss))%nat
    with (7 * List.length ss + (8 * packed_len (List.length ss) - 7 * List.length ss))%nat by lia.
  rewrite bits_of_app. rewrite N.div_small by (apply septets_value_bound; exact Hs).
  rewrite bits_of_zero. rewrite <- septet_bits by exact Hs.
  replace (7 * List.length ss + (8 * packed_len (List.length ss) - 7 * List.length ss) - 7 * List.length ss)%nat
    with (8 * packed_len (List.length ss) - 7 * List.length ss)%nat by lia.
  reflexivity.
Qed.

(* ------------------------------------------------------------------ unpackSeptets *)
Lemma chunk7_septets ss pad : Forall (fun s => s < 128) ss -> (List.length pad < 7)%nat ->
  chunk7 (flat_map (bits_of 7) ss ++ pad) = ss.
Proof.
  intros Hs Hp. induction Hs as [|s r Hs _ IH].
  - cbn [flat_map app]. destruct pad as [|a [|b [|c [|d [|e [|f [|g x]]]]]]]; try reflexivity. cbn in Hp. lia.
  - cbn [flat_map]. rewrite <- app_assoc.
    change (bits_of 7 s) with [N.odd s; N.odd (N.div2 s); N.odd (N.div2 (N.div2 s)); N.odd (N.div2 (N.div2 (N.div2 s)));
      N.odd (N.div2 (N.div2 (N.div2 (N.div2 s)))); N.odd (N.div2 (N.div2 (N.div2 (N.div2 (N.div2 s)))));
      N.odd (N.div2 (N.div2 (N.div2 (N.div2 (N.div2 (N.div2 s))))))].
    cbn [app chunk7]. rewrite IH. f_equal. apply (of_bits_bits_of 7). exact Hs.
Qed.

Theorem unpack_pack7 ss : Forall (fun s => s < 128) ss -> (List.length ss mod 8 <> 7)%nat ->
  ta_unpack (pack7 ss) = ss.
Proof.
  intros Hs Hn. unfold ta_unpack. rewrite pack7_bits by exact Hs.
  apply chunk7_septets; [exact Hs|]. rewrite repeat_length. unfold packed_len. lia.
Qed.

(* ------------------------------------------------------------------ packSeptets *)
Lemma chunk8_small w v : (0 < w < 8)%nat -> v < 2 ^ N.of_nat w -> chunk8 (bits_of w v) = [v].
Proof.
  intros Hw Hv. rewrite <- (of_bits_bits_of w v Hv) at 2.
  destruct w as [|[|[|[|[|[|[|[|w]]]]]]]]; try lia; reflexivity.
Qed.

Lemma chunk8_bits m : forall v, v < 2 ^ N.of_nat m -> chunk8 (bits_of m v) = le_octets ((m + 7) / 8) v.
Proof.
  induction m as [m IH] using lt_wf_ind. intros v Hv.
  destruct (Nat.lt_ge_cases m 8) as [Hm|Hm].
  - (* fewer than eight bits: one octet, or none *)
    destruct (Nat.eq_dec m 0) as [->|Hm0]; [reflexivity|].
    rewrite chunk8_small by (try lia; exact Hv).
    replace ((m + 7) / 8)%nat with 1%nat.
    2: { lia. }
    cbn [le_octets]. f_equal. symmetry. apply N.mod_small.
    eapply N.lt_le_trans; [exact Hv|]. change 256 with (2 ^ 8). apply N.pow_le_mono_r; lia.
  - replace m with (8 + (m - 8))%nat at 1 by lia. rewrite bits_of_app. change (2 ^ N.of_nat 8) with 256.
    replace ((m + 7) / 8)%nat with (S ((m - 8 + 7) / 8))%nat.
    2: { replace (m + 7)%nat with ((m - 8 + 7) + 1 * 8)%nat by lia. rewrite Nat.div_add by lia. lia. }
    cbn [le_octets].
    change (bits_of 8 v) with [N.odd v; N.odd (N.div2 v); N.odd (N.div2 (N.div2 v)); N.odd (N.div2 (N.div2 (N.div2 v)));
      N.odd (N.div2 (N.div2 (N.div2 (N.div2 v)))); N.odd (N.div2 (N.div2 (N.div2 (N.div2 (N.div2 v)))));
      N.odd (N.div2 (N.div2 (N.div2 (N.div2 (N.div2 (N.div2 v))))));
      N.odd (N.div2 (N.div2 (N.div2 (N.div2 (N.div2 (N.div2 (N.div2 v)))))))].
    cbn [app chunk8]. f_equal.
    + change (of_bits (bits_of 8 v) = v mod 256). rewrite <- (bits_of_mod 8 v). change (2 ^ N.of_nat 8) with 256.
      apply (of_bits_bits_of 8). change (2 ^ N.of_nat 8) with 256. apply N.mod_lt. lia.
    + apply IH; [lia|].
      replace m with (8 + (m - 8))%nat in Hv by lia. rewrite Nat2N.inj_add, N.pow_add_r in Hv.
      change (2 ^ N.of_nat 8) with 256 in Hv. apply N.div_lt_upper_bound; lia.
Qed.

Theorem pack_is_pack7 ss : Forall (fun s => s < 128) ss -> (List.length ss mod 8 <> 7)%nat ->
  ta_pack ss = pack7 ss.
Proof.
  intros Hs Hn. unfold ta_pack.
  destruct (Nat.eqb_spec ((7 * List.length ss) mod 8) 1) as [E|_]; [lia|].
  rewrite septet_bits by exact Hs. rewrite chunk8_bits by (apply septets_value_bound; exact Hs).
  unfold pack7, packed_len. reflexivity.
Qed.

(* ------------------------------------------------------------------ the alphabet table of the running code *)
Definition g7_rune (s : N) : N := nth (N.to_nat s) (g7_rev g7_table) 0.
Definition septets128 : list N := map N.of_nat (seq 0 128).
Lemma septets128_spec s : s < 128 -> In s septets128.
Proof. intros H. unfold septets128. apply in_map_iff. exists (N.to_nat s). split; [lia|]. apply in_seq. lia. Qed.

(* every septet other than ESC decodes to a rune that encodes back to the same septet *)
Lemma g7_table_sweep :
  forallb (fun s => (s =? ESC) ||
     (match idx (g7_rev g7_table) s with Ok c => c =? g7_rune s | _ => false end &&
      match rev_find (g7_rev g7_table) 0 (g7_rune s) None with Some x => x =? s | None => false end)) septets128 = true.
Proof. vm_compute. reflexivity. Qed.
Lemma g7_table_inv s : s < 128 -> s <> ESC ->
  idx (g7_rev g7_table) s = Ok (g7_rune s) /\ rev_find (g7_rev g7_table) 0 (g7_rune s) None = Some s.
Proof.
  intros Hs He. pose proof g7_table_sweep as H. rewrite forallb_forall in H. specialize (H s (septets128_spec s Hs)).
  destruct (N.eqb_spec s ESC); [contradiction|]. cbn [orb] in H. apply andb_true_iff in H. destruct H as [H1 H2].
  destruct (idx (g7_rev g7_table) s) as [c| |]; try discriminate. apply N.eqb_eq in H1. subst c.
  destruct (rev_find (g7_rev g7_table) 0 (g7_rune s) None) as [x|]; try discriminate. apply N.eqb_eq in H2. subst x. auto.
Qed.

(* ------------------------------------------------------------------ texts: escape sequences *)
Lemma text_ind (P : list N -> Prop) :
  P [] -> (forall s r, s <> ESC -> P r -> P (s :: r)) -> P [ESC] -> (forall x r, P r -> P (ESC :: x :: r)) ->
  forall l, P l.
Proof.
  intros H0 H1 H2 H3.
  assert (H : forall n l, (List.length l <= n)%nat -> P l).
  { induction n as [|n IH]; intros l Hl.
    - destruct l; [exact H0|cbn in Hl; lia].
    - destruct l as [|s r]; [exact H0|].
      destruct (N.eq_dec s ESC) as [->|Hs].
      + destruct r as [|x r']; [exact H2|]. apply H3. apply IH. cbn in Hl. lia.
      + apply H1; [exact Hs|]. apply IH. cbn in Hl. lia. }
  intros l. apply (H (List.length l)). lia.
Qed.

(* the extension table of the running code IS the standard's (GSM 03.38 6.2.1.1), euro sign included *)
Lemma g7_esc_is_spec : g7_esc g7_table = gsm_extension.
Proof. reflexivity. Qed.
Lemma assoc_ext x l : assoc x l = ext_lookup x l.
Proof. induction l as [|[c r] t IH]; [reflexivity|]. cbn. rewrite IH. reflexivity. Qed.

(* the characters of a text as the running code's tables give them *)
Fixpoint code_text (ss : list N) : list N :=
  match ss with
  | [] => []
  | s :: r =>
    if s =? ESC then
      match r with
      | [] => []
      | x :: r' => match ext_lookup x gsm_extension with Some c => c :: code_text r' | None => code_text r' end
      end
    else g7_rune s :: code_text r
  end.

(* every extension rune is absent from the basic table and found back in the extension table *)
Lemma ext_sweep :
  forallb (fun e => let '(x, c) := e in
     (x <? 128) &&
     match rev_find (g7_rev g7_table) 0 c None with None => true | Some _ => false end &&
     match esc_find (g7_esc g7_table) c with Some y => y =? x | None => false end) gsm_extension = true.
Proof. vm_compute. reflexivity. Qed.
Lemma ext_lookup_in x c : ext_lookup x gsm_extension = Some c -> In (x, c) gsm_extension.
Proof.
  generalize gsm_extension. induction l as [|[a r] t IH]; cbn; [discriminate|].
  destruct (N.eqb_spec a x) as [->|_]; [intros E; inversion E; auto|auto].
Qed.
Lemma ext_facts x c : ext_lookup x gsm_extension = Some c ->
  x < 128 /\ rev_find (g7_rev g7_table) 0 c None = None /\ esc_find (g7_esc g7_table) c = Some x.
Proof.
  intros E. apply ext_lookup_in in E. pose proof ext_sweep as H. rewrite forallb_forall in H. specialize (H _ E).
  cbn beta iota in H. apply andb_true_iff in H. destruct H as [H H3]. apply andb_true_iff in H. destruct H as [H1 H2].
  destruct (rev_find (g7_rev g7_table) 0 c None); [discriminate|].
  destruct (esc_find (g7_esc g7_table) c) as [y|]; [|discriminate]. apply N.eqb_eq in H3. subst y.
  apply N.ltb_lt in H1. auto.
Qed.

Lemma valid_text_septets ss : valid_text ss = true -> Forall (fun s => s < 128) ss.
Proof.
  induction ss as [|s r Hs IH| |x r IH] using text_ind; intros H.
  - constructor.
  - cbn [valid_text] in H. change ESCAPE with ESC in H. destruct (N.eqb_spec s ESC); [contradiction|].
    apply andb_true_iff in H. destruct H as [H1 H2]. apply N.ltb_lt in H1. constructor; auto.
  - discriminate H.
  - cbn [valid_text] in H. change (ESC =? ESCAPE) with true in H. cbn iota in H.
    destruct (ext_lookup x gsm_extension) as [c|] eqn:E; [|discriminate].
    destruct (ext_facts x c E) as [Hx _]. constructor; [unfold ESC; lia|]. constructor; auto.
Qed.

Lemma ta_runes_text ss : valid_text ss = true -> ta_runes g7_table ss = Ok (code_text ss).
Proof.
  induction ss as [|s r Hs IH| |x r IH] using text_ind; intros H.
  - reflexivity.
  - cbn [valid_text] in H. change ESCAPE with ESC in H. cbn [ta_runes code_text].
    destruct (N.eqb_spec s ESC); [contradiction|].
    apply andb_true_iff in H. destruct H as [H1 H2]. apply N.ltb_lt in H1.
    destruct (N.leb_spec s 127); [|lia]. cbn [andb negb].
    destruct (g7_table_inv s H1 Hs) as [-> _]. cbn [obind]. rewrite IH by exact H2. reflexivity.
  - discriminate H.
  - cbn [valid_text] in H. change (ESC =? ESCAPE) with true in H. cbn iota in H.
    destruct (ext_lookup x gsm_extension) as [c|] eqn:E; [|discriminate].
    cbn [ta_runes code_text]. change (ESC <=? 127) with true. change (ESC =? ESC) with true. cbn [andb negb].
    rewrite assoc_ext, g7_esc_is_spec, E. rewrite IH by exact H. reflexivity.
Qed.

Lemma ta_septets_text ss : valid_text ss = true -> ta_septets g7_table (code_text ss) = Some ss.
Proof.
  induction ss as [|s r Hs IH| |x r IH] using text_ind; intros H.
  - reflexivity.
  - cbn [valid_text] in H. change ESCAPE with ESC in H. cbn [code_text].
    destruct (N.eqb_spec s ESC); [contradiction|].
    apply andb_true_iff in H. destruct H as [H1 H2]. apply N.ltb_lt in H1.
    cbn [ta_septets]. rewrite IH by exact H2. destruct (g7_table_inv s H1 Hs) as [_ ->]. reflexivity.
  - discriminate H.
  - cbn [valid_text] in H. change (ESC =? ESCAPE) with true in H. cbn iota in H.
    destruct (ext_lookup x gsm_extension) as [c|] eqn:E; [|discriminate].
    cbn [code_text]. change (ESC =? ESC) with true. cbn iota. rewrite E.
    cbn [ta_septets]. rewrite IH by exact H. destruct (ext_facts x c E) as [_ [-> ->]]. reflexivity.
Qed.

Lemma code_text_nonempty ss : valid_text ss = true -> ss <> [] -> code_text ss <> [].
Proof.
  intros H Hne. destruct ss as [|s r]; [contradiction|]. cbn [code_text valid_text] in *. change ESCAPE with ESC in H.
  destruct (N.eqb_spec s ESC).
  - destruct r as [|x r']; [discriminate|]. destruct (ext_lookup x gsm_extension); [discriminate|discriminate H].
  - discriminate.
Qed.

(* against the standard's tables: the characters are those of GSM 03.38 unless code 0x09 occurs (D16) *)
Lemma alphabet_sweep :
  forallb (fun s => (s =? 9) || (s =? ESC) || (g7_rune s =? gsm_char s)) septets128 = true.
Proof. vm_compute. reflexivity. Qed.
Lemma alphabet_table s : s < 128 -> s <> 9 -> s <> ESC -> g7_rune s = gsm_char s.
Proof.
  intros Hs H9 He. pose proof alphabet_sweep as H. rewrite forallb_forall in H. specialize (H s (septets128_spec s Hs)).
  destruct (N.eqb_spec s 9); [contradiction|]. destruct (N.eqb_spec s ESC); [contradiction|].
  cbn [orb] in H. apply N.eqb_eq in H. exact H.
Qed.
Lemma code_text_spec ss : valid_text ss = true -> ~ In 9 ss -> code_text ss = gsm_text ss.
Proof.
  induction ss as [|s r Hs IH| |x r IH] using text_ind; intros H H9.
  - reflexivity.
  - cbn [valid_text] in H. change ESCAPE with ESC in H. cbn [code_text gsm_text]. change ESCAPE with ESC.
    destruct (N.eqb_spec s ESC); [contradiction|].
    apply andb_true_iff in H. destruct H as [H1 H2]. apply N.ltb_lt in H1.
    rewrite alphabet_table; [|exact H1|intros ->; apply H9; left; reflexivity|exact Hs].
    rewrite IH; [reflexivity|exact H2|intros Hin; apply H9; right; exact Hin].
  - reflexivity.
  - cbn [valid_text] in H. change (ESC =? ESCAPE) with true in H. cbn iota in H.
    destruct (ext_lookup x gsm_extension) as [c|] eqn:E; [|discriminate].
    cbn [code_text gsm_text]. change (ESC =? ESC) with true. change (ESC =? ESCAPE) with true. cbn iota. rewrite E.
    rewrite IH; [reflexivity|exact H|intros Hin; apply H9; right; right; exact Hin].
Qed.

(* the decoder drops a final CR of 8k septets as the filler *)
Definition ends_in_filler_cr (ss : list N) : Prop :=
  ss <> [] /\ (List.length ss mod 8 = 0)%nat /\ last ss 0 = CR.

Lemma le_octets_length n v : List.length (le_octets n v) = n.
Proof. revert v; induction n as [|n IH]; intros v; cbn [le_octets List.length]; [reflexivity|rewrite IH; reflexivity]. Qed.
Lemma pack7_length ss : List.length (pack7 ss) = packed_len (List.length ss).
Proof. unfold pack7. apply le_octets_length. Qed.

(* Packed.NewDecoder().Bytes on the spec packing of a text gives its characters; the encoder gives the packing back *)
Theorem ta_decode_pack7 ss : valid_text ss = true -> (List.length ss mod 8 <> 7)%nat -> ~ ends_in_filler_cr ss ->
  ta_decode g7_table (pack7 ss) = Ok (code_text ss).
Proof.
  intros Hp Hn Hcr. destruct ss as [|s r]; [reflexivity|].
  unfold ta_decode. destruct (pack7 (s :: r)) as [|b x] eqn:E.
  { apply (f_equal (@List.length N)) in E. rewrite pack7_length in E. unfold packed_len in E. cbn [List.length] in E. lia. }
  rewrite <- E. rewrite unpack_pack7 by (try apply valid_text_septets; assumption).
  rewrite ta_runes_text by exact Hp. cbn [obind].
  match goal with |- (if ?c then _ else _) = _ => destruct c eqn:Ec end; [|reflexivity].
  exfalso. apply Hcr. apply andb_true_iff in Ec. destruct Ec as [Ec E3]. apply andb_true_iff in Ec. destruct Ec as [E1 E2].
  split; [discriminate|]. split; [apply Nat.eqb_eq; exact E2|apply N.eqb_eq; exact E3].
Qed.

Theorem ta_encode_text ss : valid_text ss = true -> ss <> [] -> (List.length ss mod 8 <> 7)%nat ->
  ta_encode g7_table (code_text ss) = pack7 ss.
Proof.
  intros Hp Hne Hn. unfold ta_encode. pose proof (code_text_nonempty ss Hp Hne) as Hc.
  destruct (code_text ss) as [|c x] eqn:E; [contradiction|]. rewrite <- E.
  rewrite ta_septets_text by exact Hp. apply pack_is_pack7; [apply valid_text_septets; exact Hp|exact Hn].
Qed.
