(* C19, alphanumeric TP addresses: the model's bit-level unpack / pack (unpackSeptets,
   packSeptets of coding/gsm7bit) against the arithmetic packing of the spec
   (Spec.Gsm0340.pack7: the septets as one little-endian number), for septet lists of
   ANY length (induction), and the 7-bit table of the running code against itself. *)
From V Require Import Model.TpduRun Spec.Gsm0340.
From Coq Require Import ZifyN ZifyNat ZifyBool.
Ltac Zify.zify_post_hook ::= Z.div_mod_to_equations.
Open Scope N_scope.

(* ------------------------------------------------------------------ bits of a number *)
Lemma bits_of_length w n : List.length (bits_of w n) = w.
Proof. revert n; induction w; cbn; auto. Qed.

Lemma of_bits_bits_of w n : n < 2 ^ N.of_nat w -> of_bits (bits_of w n) = n.
Proof.
  revert n. induction w as [|w IH]; intros n Hn.
  - cbn in *. lia.
  - cbn [bits_of of_bits]. rewrite IH.
    + pose proof (N.div2_odd n) as H. unfold N.b2n in H. destruct (N.odd n); lia.
    + rewrite Nat2N.inj_succ, N.pow_succ_r' in Hn. rewrite N.div2_div. apply N.div_lt_upper_bound; lia.
Qed.

Lemma bits_of_app a b v : bits_of (a + b) v = bits_of a v ++ bits_of b (v / 2 ^ N.of_nat a).
Proof.
  revert v. induction a as [|a IH]; intros v.
  - cbn [Nat.add bits_of app N.of_nat]. rewrite N.pow_0_r, N.div_1_r. reflexivity.
  - cbn [Nat.add bits_of app]. rewrite IH. f_equal. f_equal.
    rewrite Nat2N.inj_succ, N.pow_succ_r', N.div2_div, N.div_div by (try apply N.pow_nonzero; lia). reflexivity.
Qed.

Lemma bits_of_mod w v : bits_of w (v mod 2 ^ N.of_nat w) = bits_of w v.
Proof.
  revert v. induction w as [|w IH]; intros v; [reflexivity|].
  cbn [bits_of]. rewrite Nat2N.inj_succ, N.pow_succ_r'.
  set (p := 2 ^ N.of_nat w). assert (Hp : p <> 0) by (apply N.pow_nonzero; lia).
  assert (E : v mod (2 * p) = v mod 2 + 2 * ((v / 2) mod p)) by (apply N.mod_mul_r; lia).
  f_equal.
  - rewrite E. rewrite N.odd_add_mul_2.
    assert (E2 : v = v mod 2 + 2 * (v / 2)) by (pose proof (N.div_mod' v 2); lia).
    rewrite E2 at 2. rewrite N.odd_add_mul_2. reflexivity.
  - rewrite <- (IH (N.div2 v)). f_equal. rewrite !N.div2_div. rewrite E. fold p.
    assert (v mod 2 < 2) by (apply N.mod_lt; lia). lia.
Qed.

Lemma bits_of_zero w : bits_of w 0 = repeat false w.
Proof. induction w as [|w IH]; [reflexivity|]. cbn [bits_of repeat]. rewrite <- IH. reflexivity. Qed.

(* ------------------------------------------------------------------ the spec's number, as bits *)
Lemma septets_value_bound ss : Forall (fun s => s < 128) ss -> septets_value ss < 2 ^ N.of_nat (7 * List.length ss).
Proof.
  induction 1 as [|s r Hs _ IH]; [cbn; lia|].
  cbn [septets_value List.length]. replace (7 * S (List.length r))%nat with (7 + 7 * List.length r)%nat by lia.
  rewrite Nat2N.inj_add, N.pow_add_r. change (2 ^ N.of_nat 7) with 128. lia.
Qed.

Lemma septet_bits ss : Forall (fun s => s < 128) ss ->
  flat_map (bits_of 7) ss = bits_of (7 * List.length ss) (septets_value ss).
Proof.
  induction 1 as [|s r Hs _ IH]; [reflexivity|].
  cbn [flat_map septets_value List.length]. replace (7 * S (List.length r))%nat with (7 + 7 * List.length r)%nat by lia.
  rewrite bits_of_app. change (2 ^ N.of_nat 7) with 128.
  rewrite <- (bits_of_mod 7 (s + 128 * septets_value r)). change (2 ^ N.of_nat 7) with 128.
  replace ((s + 128 * septets_value r) mod 128) with s by lia.
  replace ((s + 128 * septets_value r) / 128) with (septets_value r) by lia.
  rewrite IH. reflexivity.
Qed.

Lemma le_octets_bits k v : flat_map (bits_of 8) (le_octets k v) = bits_of (8 * k) v.
Proof.
  revert v. induction k as [|k IH]; intros v; [reflexivity|].
  cbn [le_octets flat_map]. replace (8 * S k)%nat with (8 + 8 * k)%nat by lia.
  rewrite bits_of_app. change (2 ^ N.of_nat 8) with 256.
  rewrite IH. f_equal. apply (bits_of_mod 8).
Qed.

Lemma packed_len_bits n : (7 * n <= 8 * packed_len n < 7 * n + 8)%nat.
Proof. unfold packed_len. lia. Qed.

(* the packed octets, read bit by bit, are the septets' bits followed by the zero fill bits *)
Lemma pack7_bits ss : Forall (fun s => s < 128) ss ->
  flat_map (bits_of 8) (pack7 ss) =
  flat_map (bits_of 7) ss ++ repeat false (8 * packed_len (List.length ss) - 7 * List.length ss).
Proof.
  intros Hs. unfold pack7. rewrite le_octets_bits.
  pose proof (packed_len_bits (List.length ss)) as Hl.
  replace (8 * packed_len (List.length ss))%nat
    with (7 * List.length ss + (8 * packed_len (List.length ss) - 7 * List.length ss))%nat by lia.
  rewrite bits_of_app. rewrite N.div_small by (apply septets_value_bound; exact Hs).
  rewrite bits_of_zero. rewrite <- septet_bits by exact Hs.
  replace (7 * List.length ss + (8 * packed_len (List.length ss) - 7 * List.length ss) - 7 * List.length ss)%nat
    with (8 * packed_len (List.length ss) - 7 * List.length ss)%nat by lia.
  reflexivity.
Qed.

(* ------------------------------------------------------------------ unpackSeptets *)
Lemma chunk7_septets ss pad : Forall (fun s => s < 128) ss -> (List.length pad < 7)%nat ->
  chunk7 (flat_map (bits_of 7) ss ++ pad) = ss.
Proof.
  intros Hs Hp. induction Hs as [|s r Hs _ IH].
  - cbn [flat_map app]. destruct pad as [|a [|b [|c [|d [|e [|f [|g x]]]]]]]; try reflexivity. cbn in Hp. lia.
  - cbn [flat_map]. rewrite <- app_assoc.
    change (bits_of 7 s) with [N.odd s; N.odd (N.div2 s); N.odd (N.div2 (N.div2 s)); N.odd (N.div2 (N.div2 (N.div2 s)));
      N.odd (N.div2 (N.div2 (N.div2 (N.div2 s)))); N.odd (N.div2 (N.div2 (N.div2 (N.div2 (N.div2 s)))));
      N.odd (N.div2 (N.div2 (N.div2 (N.div2 (N.div2 (N.div2 s))))))].
    cbn [app chunk7]. rewrite IH. f_equal. apply (of_bits_bits_of 7). exact Hs.
Qed.

Theorem unpack_pack7 ss : Forall (fun s => s < 128) ss -> (List.length ss mod 8 <> 7)%nat ->
  ta_unpack (pack7 ss) = ss.
Proof.
  intros Hs Hn. unfold ta_unpack. rewrite pack7_bits by exact Hs.
  apply chunk7_septets; [exact Hs|]. rewrite repeat_length. unfold packed_len. lia.
Qed.

(* ------------------------------------------------------------------ packSeptets *)
Lemma chunk8_small w v : (0 < w < 8)%nat -> v < 2 ^ N.of_nat w -> chunk8 (bits_of w v) = [v].
Proof.
  intros Hw Hv. rewrite <- (of_bits_bits_of w v Hv) at 2.
  destruct w as [|[|[|[|[|[|[|[|w]]]]]]]]; try lia; reflexivity.
Qed.

Lemma chunk8_bits m : forall v, v < 2 ^ N.of_nat m -> chunk8 (bits_of m v) = le_octets ((m + 7) / 8) v.
Proof.
  induction m as [m IH] using lt_wf_ind. intros v Hv.
  destruct (Nat.lt_ge_cases m 8) as [Hm|Hm].
  - (* fewer than eight bits: one octet, or none *)
    destruct (Nat.eq_dec m 0) as [->|Hm0]; [reflexivity|].
    rewrite chunk8_small by (try lia; exact Hv).
    replace ((m + 7) / 8)%nat with 1%nat.
    2: { lia. }
    cbn [le_octets]. f_equal. symmetry. apply N.mod_small.
    eapply N.lt_le_trans; [exact Hv|]. change 256 with (2 ^ 8). apply N.pow_le_mono_r; lia.
  - replace m with (8 + (m - 8))%nat at 1 by lia. rewrite bits_of_app. change (2 ^ N.of_nat 8) with 256.
    replace ((m + 7) / 8)%nat with (S ((m - 8 + 7) / 8))%nat.
    2: { replace (m + 7)%nat with ((m - 8 + 7) + 1 * 8)%nat by lia. rewrite Nat.div_add by lia. lia. }
    cbn [le_octets].
    change (bits_of 8 v) with [N.odd v; N.odd (N.div2 v); N.odd (N.div2 (N.div2 v)); N.odd (N.div2 (N.div2 (N.div2 v)));
      N.odd (N.div2 (N.div2 (N.div2 (N.div2 v)))); N.odd (N.div2 (N.div2 (N.div2 (N.div2 (N.div2 v)))));
      N.odd (N.div2 (N.div2 (N.div2 (N.div2 (N.div2 (N.div2 v))))));
      N.odd (N.div2 (N.div2 (N.div2 (N.div2 (N.div2 (N.div2 (N.div2 v)))))))].
    cbn [app chunk8]. f_equal.
    + change (of_bits (bits_of 8 v) = v mod 256). rewrite <- (bits_of_mod 8 v). change (2 ^ N.of_nat 8) with 256.
      apply (of_bits_bits_of 8). change (2 ^ N.of_nat 8) with 256. apply N.mod_lt. lia.
    + apply IH; [lia|].
      replace m with (8 + (m - 8))%nat in Hv by lia. rewrite Nat2N.inj_add, N.pow_add_r in Hv.
      change (2 ^ N.of_nat 8) with 256 in Hv. apply N.div_lt_upper_bound; lia.
Qed.

Theorem pack_is_pack7 ss : Forall (fun s => s < 128) ss -> (List.length ss mod 8 <> 7)%nat ->
  ta_pack ss = pack7 ss.
Proof.
  intros Hs Hn. unfold ta_pack.
  destruct (Nat.eqb_spec ((7 * List.length ss) mod 8) 1) as [E|_]; [lia|].
  rewrite septet_bits by exact Hs. rewrite chunk8_bits by (apply septets_value_bound; exact Hs).
  unfold pack7, packed_len. reflexivity.
Qed.

(* ------------------------------------------------------------------ the alphabet table of the running code *)
Definition g7_rune (s : N) : N := nth (N.to_nat s) (g7_rev g7_table) 0.
Definition septets128 : list N := map N.of_nat (seq 0 128).
Lemma septets128_spec s : s < 128 -> In s septets128.
Proof. intros H. unfold septets128. apply in_map_iff. exists (N.to_nat s). split; [lia|]. apply in_seq. lia. Qed.

(* every septet other than ESC decodes to a rune that encodes back to the same septet *)
Lemma g7_table_sweep :
  forallb (fun s => (s =? ESC) ||
     (match idx (g7_rev g7_table) s with Ok c => c =? g7_rune s | _ => false end &&
      match rev_find (g7_rev g7_table) 0 (g7_rune s) None with Some x => x =? s | None => false end)) septets128 = true.
Proof. vm_compute. reflexivity. Qed.
Lemma g7_table_inv s : s < 128 -> s <> ESC ->
  idx (g7_rev g7_table) s = Ok (g7_rune s) /\ rev_find (g7_rev g7_table) 0 (g7_rune s) None = Some s.
Proof.
  intros Hs He. pose proof g7_table_sweep as H. rewrite forallb_forall in H. specialize (H s (septets128_spec s Hs)).
  destruct (N.eqb_spec s ESC); [contradiction|]. cbn [orb] in H. apply andb_true_iff in H. destruct H as [H1 H2].
  destruct (idx (g7_rev g7_table) s) as [c| |]; try discriminate. apply N.eqb_eq in H1. subst c.
  destruct (rev_find (g7_rev g7_table) 0 (g7_rune s) None) as [x|]; try discriminate. apply N.eqb_eq in H2. subst x. auto.
Qed.

Definition plain (ss : list N) : Prop := Forall (fun s => s < 128 /\ s <> ESC /\ s <> CR) ss.
Lemma plain_septets ss : plain ss -> Forall (fun s => s < 128) ss.
Proof. apply Forall_impl. tauto. Qed.

Lemma ta_runes_plain ss : plain ss -> ta_runes g7_table ss = Ok (map g7_rune ss).
Proof.
  induction 1 as [|s r [Hs [He Hc]] _ IH]; [reflexivity|]. cbn [ta_runes map].
  destruct (N.leb_spec s 127); [|lia]. destruct (N.eqb_spec s ESC); [contradiction|]. cbn [andb negb].
  destruct (g7_table_inv s Hs He) as [-> _]. cbn [obind]. rewrite IH. reflexivity.
Qed.

Lemma ta_septets_plain ss : plain ss -> ta_septets g7_table (map g7_rune ss) = Some ss.
Proof.
  induction 1 as [|s r [Hs [He Hc]] _ IH]; [reflexivity|]. cbn [map ta_septets]. rewrite IH.
  destruct (g7_table_inv s Hs He) as [_ ->]. reflexivity.
Qed.

Lemma plain_last ss : plain ss -> (last ss 0 =? CR) = false.
Proof.
  induction 1 as [|s r [Hs [He Hc]] Hr IH]; [reflexivity|].
  destruct r as [|s' r']; [cbn; destruct (N.eqb_spec s CR); [contradiction|reflexivity]|exact IH].
Qed.

Lemma le_octets_length n v : List.length (le_octets n v) = n.
Proof. revert v; induction n as [|n IH]; intros v; cbn [le_octets List.length]; [reflexivity|rewrite IH; reflexivity]. Qed.
Lemma pack7_length ss : List.length (pack7 ss) = packed_len (List.length ss).
Proof. unfold pack7. apply le_octets_length. Qed.

(* Packed.NewDecoder().Bytes on the spec packing of a plain text gives its runes; the encoder gives the packing back *)
Theorem ta_decode_pack7 ss : plain ss -> (List.length ss mod 8 <> 7)%nat -> ta_decode g7_table (pack7 ss) = Ok (map g7_rune ss).
Proof.
  intros Hp Hn. destruct ss as [|s r]; [reflexivity|].
  unfold ta_decode. destruct (pack7 (s :: r)) as [|b x] eqn:E.
  { apply (f_equal (@List.length N)) in E. rewrite pack7_length in E. unfold packed_len in E. cbn [List.length] in E. lia. }
  rewrite <- E. rewrite unpack_pack7 by (try apply plain_septets; assumption).
  rewrite ta_runes_plain by exact Hp. cbn [obind]. rewrite (plain_last _ Hp). rewrite !andb_false_r. reflexivity.
Qed.

Theorem ta_encode_runes ss : plain ss -> ss <> [] -> (List.length ss mod 8 <> 7)%nat ->
  ta_encode g7_table (map g7_rune ss) = pack7 ss.
Proof.
  intros Hp Hne Hn. unfold ta_encode. destruct ss as [|s r]; [contradiction|].
  cbn [map]. change (g7_rune s :: map g7_rune r) with (map g7_rune (s :: r)).
  rewrite ta_septets_plain by exact Hp. apply pack_is_pack7; [apply plain_septets; exact Hp|exact Hn].
Qed.
