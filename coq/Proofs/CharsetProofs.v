(* Lemmas for C17: the encoder tables dumped from the running code against the
   standards (Spec/Iso8859.v, Spec/Utf16.v), lifting to texts, round trips of
   the multi-octet codings, data_coding availability. *)
From V Require Import Model.Base Model.IntervalMap Spec.Iso8859 Spec.Utf16 Gen.Charsets Model.Charset.
From Coq Require Import ZifyN ZifyNat ZifyBool.
Ltac Zify.zify_post_hook ::= Z.div_mod_to_equations.
Open Scope N_scope.

(* ------------------------------------------------------------ small facts *)
Lemma be_bytes_1 x : x < 256 -> be_bytes 1 x = [x].
Proof.
  intros H. cbn [be_bytes N.of_nat]. rewrite N.pow_0_r, N.div_1_r, N.mod_small by exact H. reflexivity.
Qed.

Lemma be_bytes_2 x : x < 65536 -> be_bytes 2 x = [x / 256; x mod 256].
Proof.
  intros H. cbn [be_bytes]. change (256 ^ N.of_nat 1) with 256. change (256 ^ N.of_nat 0) with 1.
  rewrite N.div_1_r. f_equal. apply N.mod_small. lia.
Qed.

Lemma be_bytes_3 x : x < 16777216 -> be_bytes 3 x = [x / 65536; (x / 256) mod 256; x mod 256].
Proof.
  intros H. cbn [be_bytes]. change (256 ^ N.of_nat 2) with 65536. change (256 ^ N.of_nat 1) with 256.
  change (256 ^ N.of_nat 0) with 1. rewrite N.div_1_r. f_equal. apply N.mod_small. lia.
Qed.

Lemma octets256_spec b : b < 256 -> In b octets256.
Proof.
  intros H. unfold octets256. apply in_map_iff. exists (N.to_nat b). split; [lia|]. apply in_seq. lia.
Qed.
Lemma octets256_bound b : In b octets256 -> b < 256.
Proof.
  unfold octets256. intros H. apply in_map_iff in H. destruct H as [k [<- Hk]]. apply in_seq in Hk. lia.
Qed.

Lemma opt_is_spec o r : opt_is o r = true <-> o = Some r.
Proof.
  destruct o as [x|]; cbn [opt_is]; [rewrite N.eqb_eq|]; split; intros H; try congruence; try discriminate.
Qed.

(* ------------------------------- ISO 8859-n: table = standard, every rune *)
Section SingleOctet.
  Variable p : part.
  Variable t : runs.

  (* every character of the standard is accepted at its octet *)
  Definition checkA : bool :=
    forallb (fun b => match spec_dec p b with
                      | Some u => match lookup u t with
                                  | Some (n, x) => (n =? 1) && (x =? b)
                                  | None => false
                                  end
                      | None => true
                      end) octets256.

  (* every accepted rune is a character of the standard at that octet, or a C1
     control at the identical octet *)
  Definition runB (q : run) : bool :=
    let '(lo, hi, n, v) := q in
    (n =? 1) && (lo <=? hi) && (v + (hi - lo) <? 256) &&
    forall_in lo hi (fun r => opt_is (spec_dec p (v + (r - lo))) r || (is_c1 r && (v + (r - lo) =? r))).
  Definition checkB : bool := forallb runB t.

  Hypothesis HA : checkA = true.
  Hypothesis HB : checkB = true.

  Lemma sb_A b u : b < 256 -> spec_dec p b = Some u -> lookup u t = Some (1, b).
  Proof.
    intros Hb Hd. unfold checkA in HA. rewrite forallb_forall in HA.
    specialize (HA b (octets256_spec b Hb)). rewrite Hd in HA.
    destruct (lookup u t) as [[n x]|]; [|discriminate].
    apply andb_true_iff in HA. destruct HA as [H1 H2]. apply N.eqb_eq in H1, H2. subst. reflexivity.
  Qed.

  Lemma sb_B r n x : lookup r t = Some (n, x) ->
    n = 1 /\ x < 256 /\ (spec_dec p x = Some r \/ (is_c1 r = true /\ x = r)).
  Proof.
    intros Hl. destruct (lookup_forall runB t HB r n x Hl) as (lo & hi & v & HP & Hr & Hx).
    unfold runB in HP. rewrite !andb_true_iff in HP. destruct HP as [[[H1 H2] H3] H4].
    apply N.eqb_eq in H1. apply N.leb_le in H2. apply N.ltb_lt in H3.
    pose proof (forall_in_sound _ _ _ H4 r Hr) as H5. cbv beta in H5.
    split; [exact H1|]. split; [lia|]. rewrite <- Hx in H5.
    apply orb_true_iff in H5. destruct H5 as [H5|H5].
    - left. apply opt_is_spec. exact H5.
    - right. apply andb_true_iff in H5. destruct H5 as [H5 H6]. apply N.eqb_eq in H6. split; assumption.
  Qed.

  Lemma spec_enc_Some r b : spec_enc p r = Some b -> b < 256 /\ spec_dec p b = Some r.
  Proof.
    unfold spec_enc. intros H. apply find_some in H. destruct H as [Hin H].
    split; [apply octets256_bound; exact Hin|]. apply opt_is_spec. exact H.
  Qed.

  Lemma spec_enc_None r b : spec_enc p r = None -> b < 256 -> spec_dec p b <> Some r.
  Proof.
    unfold spec_enc. intros H Hb Hd.
    pose proof (find_none _ _ H b (octets256_spec b Hb)) as Hn. cbv beta in Hn.
    apply opt_is_spec in Hd. congruence.
  Qed.

  Theorem sb_exact r : conforms (spec_class p r) (enc_rune_t t r).
  Proof.
    unfold spec_class, enc_rune_t.
    destruct (spec_enc p r) as [b|] eqn:He.
    - (* in the code: accepted at exactly that octet *)
      destruct (spec_enc_Some r b He) as [Hb Hd]. rewrite (sb_A b r Hb Hd).
      cbn [conforms N.to_nat Pos.to_nat Pos.iter_op]. rewrite be_bytes_1 by exact Hb. reflexivity.
    - destruct (lookup r t) as [[n x]|] eqn:Hl.
      + destruct (sb_B r n x Hl) as (-> & Hx & [Hd|[Hc ->]]).
        * exfalso. exact (spec_enc_None r x He Hx Hd).
        * rewrite Hc. cbn [conforms N.to_nat Pos.to_nat Pos.iter_op]. right.
          rewrite be_bytes_1 by exact Hx. reflexivity.
      + destruct (is_c1 r); cbn [conforms]; [left|]; reflexivity.
  Qed.

  (* lifting to texts *)
  Lemma sb_text_octets : forall rs bs, encode_t t rs = Ok bs ->
    Forall2 (fun r b => spec_code p r = Some b) rs bs.
  Proof.
    induction rs as [|r rest IH]; intros bs H; cbn [encode_t] in H.
    - injection H as <-. constructor.
    - pose proof (sb_exact r) as Hc. destruct (enc_rune_t t r) as [b|] eqn:He; [|discriminate].
      destruct (encode_t t rest) as [bs'| |] eqn:Hr; try discriminate. injection H as <-.
      assert (Hb : exists b0, b = [b0] /\ spec_code p r = Some b0).
      { unfold spec_code. destruct (spec_class p r) as [b0|b0|]; cbn [conforms] in Hc.
        - injection Hc as ->. exists b0. split; reflexivity.
        - destruct Hc as [Hc|Hc]; [discriminate|]. injection Hc as ->. exists b0. split; reflexivity.
        - discriminate. }
      destruct Hb as (b0 & -> & Hb). cbn [app]. constructor; [exact Hb|apply IH; reflexivity].
  Qed.

  Lemma sb_text_accepts : forall rs bs, spec_encode p rs = Some bs -> encode_t t rs = Ok bs.
  Proof.
    induction rs as [|r rest IH]; intros bs H; cbn [spec_encode] in H.
    - injection H as <-. reflexivity.
    - destruct (spec_enc p r) as [b|] eqn:He; [|discriminate].
      destruct (spec_encode p rest) as [bs'|] eqn:Hr; [|discriminate]. injection H as <-.
      cbn [encode_t]. pose proof (sb_exact r) as Hc. unfold spec_class in Hc. rewrite He in Hc.
      cbn [conforms] in Hc. rewrite Hc, (IH bs' eq_refl). reflexivity.
  Qed.

  Lemma sb_text_rejects : forall rs, Exists (fun r => spec_class p r = Reject) rs ->
    exists e, encode_t t rs = Err e.
  Proof.
    induction rs as [|r rest IH]; intros H; [inversion H|].
    cbn [encode_t]. destruct (enc_rune_t t r) as [b|] eqn:He; [|exists EText; reflexivity].
    destruct (encode_t t rest) as [bs| e |] eqn:Hr.
    - exfalso. inversion H as [? ? H0|? ? H0]; subst.
      + pose proof (sb_exact r) as Hc. rewrite H0 in Hc. cbn [conforms] in Hc. congruence.
      + destruct (IH H0) as [e He']. discriminate.
    - exists e. reflexivity.
    - exfalso. clear -Hr. revert Hr. induction rest as [|r' rest' IH']; cbn [encode_t]; [discriminate|].
      destruct (enc_rune_t t r'); [|discriminate]. destruct (encode_t t rest'); try discriminate. intros _. apply IH'. reflexivity.
  Qed.
End SingleOctet.

Lemma latin1_A : checkA P1 enc_runs_latin1 = true. Proof. vm_compute. reflexivity. Qed.
Lemma latin1_B : checkB P1 enc_runs_latin1 = true. Proof. vm_compute. reflexivity. Qed.
Lemma cyrillic_A : checkA P5 enc_runs_cyrillic = true. Proof. vm_compute. reflexivity. Qed.
Lemma cyrillic_B : checkB P5 enc_runs_cyrillic = true. Proof. vm_compute. reflexivity. Qed.
Lemma hebrew_A : checkA P8 enc_runs_hebrew = true. Proof. vm_compute. reflexivity. Qed.
Lemma hebrew_B : checkB P8 enc_runs_hebrew = true. Proof. vm_compute. reflexivity. Qed.

(* --------------------------------------------------------------- ASCII / IA5 *)
Lemma ascii_check : forall_in 0 127 (fun r => match lookup r enc_runs_ascii with
                                               | Some (n, x) => (n =? 1) && (x =? r) | None => false end) = true.
Proof. vm_compute. reflexivity. Qed.

Theorem ascii_exact r : r <= 127 -> enc_rune_t enc_runs_ascii r = Some [r].
Proof.
  intros Hr. pose proof (forall_in_sound _ _ _ ascii_check r) as H. cbv beta in H.
  unfold enc_rune_t. destruct (lookup r enc_runs_ascii) as [[n x]|]; [|discriminate H; lia].
  assert (H' : (n =? 1) && (x =? r) = true) by (apply H; lia).
  apply andb_true_iff in H'. destruct H' as [H1 H2]. apply N.eqb_eq in H1, H2. subst.
  cbn [N.to_nat Pos.to_nat Pos.iter_op]. rewrite be_bytes_1 by lia. reflexivity.
Qed.

Theorem ascii_text : forall rs, Forall (fun r => r <= 127) rs -> encode_t enc_runs_ascii rs = Ok rs.
Proof.
  induction rs as [|r rest IH]; intros H; [reflexivity|].
  inversion H as [|? ? H1 H2]; subst. cbn [encode_t]. rewrite (ascii_exact r H1), (IH H2). reflexivity.
Qed.

(* ------------------------------------------------- UCS-2 = UTF-16BE, no BOM *)
Definition ucs2_run_ok (q : run) : bool :=
  let '(lo, hi, n, v) := q in
  (lo <=? hi) &&
  (((n =? 2) && (hi <? 65536) && (v =? lo)) ||
   ((n =? 4) && (65536 <=? lo) && (hi <? 1114112) && ((lo - 65536) / 1024 =? (hi - 65536) / 1024) &&
    (v =? (55296 + (lo - 65536) / 1024) * 65536 + (56320 + (lo - 65536) mod 1024)))).

Lemma ucs2_runs_ok : forallb ucs2_run_ok enc_runs_ucs2 = true.
Proof. vm_compute. reflexivity. Qed.
Lemma ucs2_covers : covers 0 55295 (ranges_of enc_runs_ucs2) && covers 57344 1114111 (ranges_of enc_runs_ucs2) = true.
Proof. vm_compute. reflexivity. Qed.

Lemma be_bytes_4 h l : h < 65536 -> l < 65536 -> be_bytes 4 (h * 65536 + l) = be16 h ++ be16 l.
Proof.
  intros Hh Hl. unfold be16. cbn [be_bytes app]. change (256 ^ N.of_nat 3) with 16777216.
  change (256 ^ N.of_nat 2) with 65536. change (256 ^ N.of_nat 1) with 256. change (256 ^ N.of_nat 0) with 1.
  rewrite N.div_1_r. repeat (f_equal; try lia).
Qed.

Theorem ucs2_exact r : scalar r -> enc_rune_t enc_runs_ucs2 r = Some (utf16be r).
Proof.
  intros Hs. pose proof ucs2_covers as Hc. apply andb_true_iff in Hc. destruct Hc as [Hc1 Hc2].
  assert (Hm : mem r (ranges_of enc_runs_ucs2) = true).
  { destruct Hs as [Hs|Hs]; [apply (covers_sound _ _ _ Hc1)|apply (covers_sound _ _ _ Hc2)]; lia. }
  destruct (lookup_mem _ _ Hm) as [[n x] Hl]. unfold enc_rune_t. rewrite Hl. clear Hm Hc1 Hc2.
  destruct (lookup_forall _ _ ucs2_runs_ok r n x Hl) as (lo & hi & v & HP & Hr & Hx). clear Hl.
  unfold ucs2_run_ok in HP. apply andb_true_iff in HP. destruct HP as [H0 HP]. apply N.leb_le in H0.
  apply orb_true_iff in HP. destruct HP as [HP|HP].
  - rewrite !andb_true_iff in HP. destruct HP as [[H1 H2] H3].
    apply N.eqb_eq in H1, H3. apply N.ltb_lt in H2. subst n v.
    replace x with r by lia. cbn [N.to_nat Pos.to_nat Pos.iter_op]. rewrite be_bytes_2 by lia.
    unfold utf16be, utf16_units. replace (r <? 65536) with true by (symmetry; apply N.ltb_lt; lia).
    cbn [flat_map be16 app]. f_equal. f_equal. symmetry. apply N.mod_small. lia.
  - rewrite !andb_true_iff in HP. destruct HP as [[[[H1 H2] H3] H4] H5].
    apply N.eqb_eq in H1, H4, H5. apply N.leb_le in H2. apply N.ltb_lt in H3. subst n.
    unfold utf16be, utf16_units. replace (r <? 65536) with false by (symmetry; apply N.ltb_ge; lia).
    cbv zeta. cbn [flat_map app]. rewrite app_nil_r.
    replace x with ((55296 + (r - 65536) / 1024) * 65536 + (56320 + (r - 65536) mod 1024)) by lia.
    change (N.to_nat 4) with 4%nat. apply f_equal. apply be_bytes_4; lia.
Qed.

Theorem ucs2_text : forall rs, Forall scalar rs -> encode_t enc_runs_ucs2 rs = Ok (utf16be_text rs).
Proof.
  induction rs as [|r rest IH]; intros H; [reflexivity|].
  inversion H as [|? ? H1 H2]; subst. cbn [encode_t]. rewrite (ucs2_exact r H1), (IH H2). reflexivity.
Qed.

(* ------------- multi-octet codings: decode (encode text) = text by induction *)
Section MultiOctet.
  Variable ll : list (list N).     (* lead octet -> code lengths seen by the decoder sweep *)
  Variable dr : runs.              (* decoder table: code -> rune *)
  Variable t : runs.               (* encoder table: rune -> code *)

  (* run-wise: the code has 1..3 octets, all codes of the run share one lead
     octet, that lead octet determines exactly this length, and the decoder
     table maps the codes of the run back to its runes *)
  Definition runM (bk : list runs) (q : run) : bool :=
    let '(lo, hi, n, v) := q in
    let ve := v + (hi - lo) in
    (1 <=? n) && (n <=? 3) && (lo <=? hi) && (ve <? 256 ^ n) &&
    (if n =? 1
     then forall_in v ve (fun b => match lead_len ll b with Some n' => n' =? 1 | None => false end)
     else (v / 256 ^ (n - 1) =? ve / 256 ^ (n - 1)) &&
          (match lead_len ll (v / 256 ^ (n - 1)) with Some n' => n' =? n | None => false end)) &&
    run_maps_b bk n v ve lo.
  Definition checkM : bool := (let bk := buckets dr in forallb (runM bk) t) && sorted_above 0 dr.

  Hypothesis HM : checkM = true.

  Lemma mb_rune r n x : lookup r t = Some (n, x) ->
    (n = 1 \/ n = 2 \/ n = 3) /\ x < 256 ^ n /\
    lead_len ll (x / 256 ^ (n - 1)) = Some n /\ lookup x dr = Some (n, r).
  Proof.
    intros Hl. unfold checkM in HM. apply andb_true_iff in HM. destruct HM as [HF HS]. cbv zeta in HF.
    destruct (lookup_forall (runM (buckets dr)) t HF r n x Hl) as (lo & hi & v & HP & Hr & Hx). clear Hl HF.
    unfold runM in HP. cbv zeta in HP. rewrite !andb_true_iff in HP.
    destruct HP as [[[[[H1 H2] H3] H4] H5] H7].
    apply N.leb_le in H1, H2, H3. apply N.ltb_lt in H4. apply run_maps_b_sound in H7.
    assert (Hn : n = 1 \/ n = 2 \/ n = 3) by (clear - H1 H2; lia).
    assert (Hxv : v <= x <= v + (hi - lo)) by (clear - Hx Hr; lia).
    split; [exact Hn|]. split; [apply N.le_lt_trans with (v + (hi - lo)); [exact (proj2 Hxv)|exact H4]|].
    split.
    - destruct (n =? 1) eqn:En.
      + apply N.eqb_eq in En. subst n. change (256 ^ (1 - 1)) with 1. rewrite N.div_1_r.
        pose proof (forall_in_sound _ _ _ H5 x Hxv) as H6. cbv beta in H6.
        destruct (lead_len ll x) as [n'|]; [|discriminate]. apply N.eqb_eq in H6. subst. reflexivity.
      + apply andb_true_iff in H5. destruct H5 as [H5 H6]. apply N.eqb_eq in H5.
        assert (Hlead : x / 256 ^ (n - 1) = v / 256 ^ (n - 1)).
        { assert (Hk : 256 ^ (n - 1) <> 0) by (apply N.pow_nonzero; discriminate).
          pose proof (N.div_le_mono v x _ Hk (proj1 Hxv)) as Ha.
          pose proof (N.div_le_mono x (v + (hi - lo)) _ Hk (proj2 Hxv)) as Hb.
          rewrite <- H5 in Hb. apply N.le_antisymm; assumption. }
        rewrite Hlead. destruct (lead_len ll (v / 256 ^ (n - 1))) as [n'|]; [|discriminate].
        apply N.eqb_eq in H6. subst. reflexivity.
    - rewrite (run_maps_sound dr n v _ lo HS H7 x Hxv). f_equal. f_equal. clear - Hx Hr. lia.
  Qed.

  Definition onext (r : N) (o : outcome (list N)) : outcome (list N) :=
    match o with Ok rs => Ok (r :: rs) | e => e end.

  Lemma decode_mb_code n x r rest :
    (n = 1 \/ n = 2 \/ n = 3) -> x < 256 ^ n ->
    lead_len ll (x / 256 ^ (n - 1)) = Some n -> lookup x dr = Some (n, r) ->
    decode_mb ll dr None (be_bytes (N.to_nat n) x ++ rest) = onext r (decode_mb ll dr None rest).
  Proof.
    intros Hn Hx Hlead Hdec. destruct Hn as [ -> | [ -> | -> ] ].
    - change (256 ^ 1) with 256 in Hx. change (256 ^ (1 - 1)) with 1 in Hlead. rewrite N.div_1_r in Hlead.
      change (N.to_nat 1) with 1%nat. rewrite be_bytes_1 by exact Hx.
      cbn [app decode_mb]. rewrite Hlead. cbn [N.eqb Pos.eqb]. rewrite Hdec. cbn [N.eqb Pos.eqb]. unfold onext. destruct (decode_mb ll dr None rest); reflexivity.
    - change (256 ^ 2) with 65536 in Hx. change (256 ^ (2 - 1)) with 256 in Hlead.
      change (N.to_nat 2) with 2%nat. rewrite be_bytes_2 by exact Hx.
      cbn [app decode_mb]. rewrite Hlead. cbn [N.eqb Pos.eqb N.sub Pos.sub_mask Pos.pred_double Pos.double_pred_mask Pos.double_mask].
      replace (x / 256 * 256 + x mod 256) with x by lia. rewrite Hdec. cbn [N.eqb Pos.eqb]. unfold onext. destruct (decode_mb ll dr None rest); reflexivity.
    - change (256 ^ 3) with 16777216 in Hx. change (256 ^ (3 - 1)) with 65536 in Hlead.
      change (N.to_nat 3) with 3%nat. rewrite be_bytes_3 by exact Hx.
      cbn [app decode_mb]. rewrite Hlead. cbn [N.eqb Pos.eqb N.sub Pos.sub_mask Pos.pred_double Pos.double_pred_mask Pos.double_mask Pos.succ_double_mask].
      replace ((x / 65536 * 256 + (x / 256) mod 256) * 256 + x mod 256) with x by lia.
      rewrite Hdec. cbn [N.eqb Pos.eqb]. unfold onext. destruct (decode_mb ll dr None rest); reflexivity.
  Qed.

  Theorem mb_roundtrip : forall rs bs, encode_t t rs = Ok bs -> decode_mb ll dr None bs = Ok rs.
  Proof.
    induction rs as [|r rest IH]; intros bs H; cbn [encode_t] in H.
    - injection H as <-. reflexivity.
    - unfold enc_rune_t in H. destruct (lookup r t) as [[n x]|] eqn:Hl; [|discriminate].
      destruct (encode_t t rest) as [bs'| |] eqn:Hr; try discriminate. injection H as <-.
      destruct (mb_rune r n x Hl) as (Hn & Hx & Hlead & Hdec).
      rewrite (decode_mb_code n x r bs' Hn Hx Hlead Hdec), (IH bs' eq_refl). reflexivity.
  Qed.
End MultiOctet.

Lemma sjis_M : checkM lead_lens_sjis dec_runs_sjis enc_runs_sjis = true. Proof. vm_cast_no_check (eq_refl true). Qed.
Lemma eucjp_M : checkM lead_lens_eucjp dec_runs_eucjp enc_runs_eucjp = true. Proof. vm_cast_no_check (eq_refl true). Qed.
Lemma euckr_M : checkM lead_lens_euckr dec_runs_euckr enc_runs_euckr = true. Proof. vm_cast_no_check (eq_refl true). Qed.

(* ----------------------------------------------- ISO-2022-JP (RFC 1468) *)
Lemma lookup5_forall (P : N * N * N * N * N -> bool) l :
  forallb P l = true ->
  forall r m n x, lookup5 r l = Some (m, n, x) ->
  exists lo hi v, P (lo, hi, m, n, v) = true /\ lo <= r <= hi /\ x = v + (r - lo).
Proof.
  intros H r m n x. induction l as [|[[[[lo hi] m'] n'] v] t IH]; cbn [lookup5]; [discriminate|].
  cbn [forallb] in H. apply andb_true_iff in H. destruct H as [H0 H1].
  destruct ((lo <=? r) && (r <=? hi)) eqn:Hc.
  - intros E. injection E as <- <- <-. apply andb_true_iff in Hc. rewrite !N.leb_le in Hc.
    exists lo, hi, v. split; [exact H0|]. split; [lia|reflexivity].
  - intros E. exact (IH H1 E).
Qed.

Definition dec_is (d : runs) (x r : N) : bool :=
  match lookup x d with Some (_, r') => r' =? r | None => false end.

(* run-wise facts about the encoder table that the round trip needs:
   ASCII mode: one octet below 0x80 that decodes back (ESC itself excepted);
   katakana mode: one octet that decodes back in katakana state;
   JIS X 0208 mode: two octets, the first in 0x21..0x7E (so neither ESC nor the
   line feed that resets the decoder), decoding back in JIS state. *)
Definition jp_run_ok (bk : list runs) (q : N * N * N * N * N) : bool :=
  let '(lo, hi, m, n, v) := q in
  let ve := v + (hi - lo) in
  (lo <=? hi) &&
  (if m =? 0 then
     (n =? 1) && (ve <? 128) &&
     forall_in lo hi (fun r => (r =? 27) || (negb (v + (r - lo) =? 27) && dec_is dec_runs_iso2022jp_ascii (v + (r - lo)) r))
   else if m =? 1 then
     (n =? 1) && (ve <? 256) &&
     forall_in lo hi (fun r => negb (v + (r - lo) =? 27) && dec_is dec_runs_iso2022jp_kana (v + (r - lo)) r)
   else
     (m =? 2) && (n =? 2) && (8448 <=? v) && (ve <? 32512) && run_maps_b bk 2 v ve lo).

Definition check_jp (bk : list runs) : bool :=
  forallb (jp_run_ok bk) enc_runs_iso2022jp && sorted_above 0 dec_runs_iso2022jp_jis.

Lemma jp_check : check_jp (buckets dec_runs_iso2022jp_jis) = true.
Proof. vm_cast_no_check (eq_refl true). Qed.

Section JpRune.
Variable bk : list runs.
Hypothesis HCbk : check_jp bk = true.
Hypothesis Hbk : forall n v ve x0, run_maps_b bk n v ve x0 = true -> run_maps dec_runs_iso2022jp_jis n v ve x0 = true.
Lemma jp_rune_gen r m n x : lookup5 r enc_runs_iso2022jp = Some (m, n, x) -> r <> 27 ->
  (m = 0 /\ n = 1 /\ x < 128 /\ x <> 27 /\ dec_is dec_runs_iso2022jp_ascii x r = true) \/
  (m = 1 /\ n = 1 /\ x < 256 /\ x <> 27 /\ dec_is dec_runs_iso2022jp_kana x r = true) \/
  (m = 2 /\ n = 2 /\ 8448 <= x < 32512 /\ lookup x dec_runs_iso2022jp_jis = Some (2, r)).
Proof.
  intros Hl Hr27. pose proof HCbk as HC. unfold check_jp in HC. apply andb_true_iff in HC.
  destruct HC as [HF HS].
  destruct (lookup5_forall _ _ HF r m n x Hl) as (lo & hi & v & HP & Hr & Hx). clear HF Hl.
  unfold jp_run_ok in HP. cbv zeta in HP. apply andb_true_iff in HP. destruct HP as [H0 HP].
  apply N.leb_le in H0.
  destruct (m =? 0) eqn:E0; [|destruct (m =? 1) eqn:E1].
  - left. apply N.eqb_eq in E0. rewrite !andb_true_iff in HP. destruct HP as [[H1 H2] H3].
    apply N.eqb_eq in H1. apply N.ltb_lt in H2.
    pose proof (forall_in_sound _ _ _ H3 r Hr) as H4. cbv beta in H4. rewrite <- Hx in H4.
    apply orb_true_iff in H4. destruct H4 as [H4|H4]; [apply N.eqb_eq in H4; contradiction|].
    apply andb_true_iff in H4. destruct H4 as [H4 H5]. apply negb_true_iff, N.eqb_neq in H4.
    repeat split; try assumption. clear - Hx Hr H2. lia.
  - right. left. apply N.eqb_eq in E1. rewrite !andb_true_iff in HP. destruct HP as [[H1 H2] H3].
    apply N.eqb_eq in H1. apply N.ltb_lt in H2.
    pose proof (forall_in_sound _ _ _ H3 r Hr) as H4. cbv beta in H4. rewrite <- Hx in H4.
    apply andb_true_iff in H4. destruct H4 as [H4 H5]. apply negb_true_iff, N.eqb_neq in H4.
    repeat split; try assumption. clear - Hx Hr H2. lia.
  - right. right. rewrite !andb_true_iff in HP. destruct HP as [[[[H1 H2] H3] H4] H5].
    apply N.eqb_eq in H1, H2. apply N.leb_le in H3. apply N.ltb_lt in H4. apply Hbk in H5.
    assert (Hxv : v <= x <= v + (hi - lo)) by (clear - Hx Hr; lia).
    split; [exact H1|]. split; [exact H2|]. split; [clear - Hxv H3 H4; lia|].
    rewrite (run_maps_sound _ 2 v _ lo HS H5 x Hxv). f_equal. f_equal. clear - Hx Hr. lia.
Qed.
End JpRune.

Definition jp_rune := jp_rune_gen (buckets dec_runs_iso2022jp_jis) jp_check
                        (run_maps_b_sound dec_runs_iso2022jp_jis).

Lemma decode_jp_esc st m bs : m = 0 \/ m = 1 \/ m = 2 -> decode_jp st (jp_esc m ++ bs) = decode_jp m bs.
Proof. intros [ -> | [ -> | -> ] ]; reflexivity. Qed.

Lemma decode_jp_code r m n x bs :
  lookup5 r enc_runs_iso2022jp = Some (m, n, x) -> r <> 27 ->
  (m = 0 \/ m = 1 \/ m = 2) /\
  decode_jp m (be_bytes (N.to_nat n) x ++ bs) = ocons r (decode_jp m bs).
Proof.
  intros Hl Hr. destruct (jp_rune r m n x Hl Hr) as [H|[H|H]].
  - destruct H as (-> & -> & Hx & Hx27 & Hd). split; [auto|].
    change (N.to_nat 1) with 1%nat. rewrite be_bytes_1 by lia. cbn [app decode_jp].
    apply N.eqb_neq in Hx27. rewrite Hx27. cbn [N.eqb]. unfold jp_dec_runs. cbn [N.eqb].
    unfold dec_is in Hd. destruct (lookup x dec_runs_iso2022jp_ascii) as [[n' r']|]; [|discriminate].
    apply N.eqb_eq in Hd. subst. reflexivity.
  - destruct H as (-> & -> & Hx & Hx27 & Hd). split; [auto|].
    change (N.to_nat 1) with 1%nat. rewrite be_bytes_1 by lia. cbn [app decode_jp].
    apply N.eqb_neq in Hx27. rewrite Hx27. cbn [N.eqb Pos.eqb]. unfold jp_dec_runs. cbn [N.eqb Pos.eqb].
    unfold dec_is in Hd. destruct (lookup x dec_runs_iso2022jp_kana) as [[n' r']|]; [|discriminate].
    apply N.eqb_eq in Hd. subst. reflexivity.
  - destruct H as (-> & -> & Hx & Hd). split; [auto|].
    change (N.to_nat 2) with 2%nat. rewrite be_bytes_2 by lia. cbn [app decode_jp].
    replace (x / 256 =? 27) with false by (symmetry; apply N.eqb_neq; lia).
    cbn [N.eqb Pos.eqb]. replace (x / 256 =? 10) with false by (symmetry; apply N.eqb_neq; lia).
    replace (x / 256 * 256 + x mod 256) with x by lia. rewrite Hd. reflexivity.
Qed.

Theorem jp_roundtrip : forall rs st bs, st = 0 \/ st = 1 \/ st = 2 -> ~ In 27 rs ->
  encode_jp st rs = Ok bs -> decode_jp st bs = Ok rs.
Proof.
  induction rs as [|r rest IH]; intros st bs Hst Hno H; cbn [encode_jp] in H.
  - injection H as <-. destruct Hst as [ -> | [ -> | -> ] ]; reflexivity.
  - destruct (lookup5 r enc_runs_iso2022jp) as [[[m n] x]|] eqn:Hl; [|discriminate].
    destruct (encode_jp m rest) as [bs'| |] eqn:Hr; try discriminate. injection H as <-.
    assert (Hr27 : r <> 27) by (intros ->; apply Hno; left; reflexivity).
    assert (Hno' : ~ In 27 rest) by (intros Hin; apply Hno; right; exact Hin).
    destruct (decode_jp_code r m n x bs' Hl Hr27) as [Hm Hc].
    pose proof (IH m bs' Hm Hno' Hr) as IH'.
    destruct (m =? st) eqn:E.
    + apply N.eqb_eq in E. subst st. cbn [app]. rewrite Hc, IH'. reflexivity.
    + rewrite (decode_jp_esc st m _ Hm), Hc, IH'. reflexivity.
Qed.

(* ------------------------------------- data_coding availability, all 256 *)
Lemma dc_table_rows :
  forallb (fun dc => match dc_row dc with Some (c, _, _, _, _) => c =? dc | None => false end) octets256 = true.
Proof. vm_compute. reflexivity. Qed.

Lemma availability_check :
  forallb (fun dc => implb (has_encoder dc) (has_decoder dc && has_splitter dc)) octets256 = true.
Proof. vm_compute. reflexivity. Qed.

Theorem availability dc : dc < 256 -> has_encoder dc = true -> has_decoder dc = true /\ has_splitter dc = true.
Proof.
  intros Hdc He. pose proof availability_check as H. rewrite forallb_forall in H.
  specialize (H dc (octets256_spec dc Hdc)). rewrite He in H. cbn [implb] in H.
  apply andb_true_iff in H. exact H.
Qed.

(* closure, all 256 values: a value with an encoder has the decoder and the splitter OF THE SAME coding.
   Encoder, decoder and splitter were classified separately, each by its behaviour on every scalar value
   (dc_closure); the value's three classes must be those of one table constant b: its encoder behaves like
   b's, its decoder like b's decoder, its splitter like b's splitter. *)
Definition closed_dc (dc : N) : bool :=
  let e := enc_class dc in
  Bool.eqb (has_encoder dc) (negb (e =? 255)) &&
  ((e =? 255) ||
   (existsb (N.eqb e) table_constants && (enc_class e =? e) &&
    (dec_class dc =? dec_class e) && (spl_class dc =? spl_class e) &&
    negb (dec_class dc =? 255) && negb (spl_class dc =? 255))).

Lemma dc_closure_rows :
  forallb (fun dc => match closure_row dc with Some (c, _, _, _) => c =? dc | None => false end) octets256 = true.
Proof. vm_compute. reflexivity. Qed.

Lemma closed_check : forallb closed_dc octets256 = true.
Proof. vm_compute. reflexivity. Qed.

Theorem dc_closed dc : dc < 256 -> has_encoder dc = true ->
  dec_class dc <> 255 /\ spl_class dc <> 255 /\
  exists b, In b table_constants /\ enc_class dc = b /\ enc_class b = b /\
            dec_class dc = dec_class b /\ spl_class dc = spl_class b.
Proof.
  intros Hdc He. pose proof closed_check as H. rewrite forallb_forall in H.
  specialize (H dc (octets256_spec dc Hdc)). unfold closed_dc in H. cbv zeta in H.
  rewrite He in H. apply andb_true_iff in H. destruct H as [H0 H].
  destruct (enc_class dc =? 255) eqn:E255; [discriminate H0|]. cbn [orb] in H.
  rewrite !andb_true_iff, !negb_true_iff, !N.eqb_neq, !N.eqb_eq in H.
  destruct H as [[[[[H1 H2] H3] H4] H5] H6].
  split; [exact H5|]. split; [exact H6|]. exists (enc_class dc).
  apply existsb_exists in H1. destruct H1 as [b [Hin Hb]]. apply N.eqb_eq in Hb. subst b.
  repeat split; assumption.
Qed.

(* the ten table entries themselves are available, and resolve to themselves *)
Lemma base_codings_resolve :
  forallb (fun c => has_encoder (dc_of_coding c) &&
                    match resolve (dc_of_coding c) with
                    | Some c' => (dc_of_coding c' =? dc_of_coding c) || ((dc_of_coding c =? 3) && (dc_of_coding c' =? 1))
                    | None => false end) all_codings = true.
Proof. vm_compute. reflexivity. Qed.

(* the model encoders have no panic outcome *)
Lemma encode_t_no_panic t : forall rs, encode_t t rs <> Panic.
Proof.
  induction rs as [|r rest IH]; cbn [encode_t]; [discriminate|].
  destruct (enc_rune_t t r); [|discriminate]. destruct (encode_t t rest); try discriminate. exact IH.
Qed.
Lemma encode_jp_no_panic : forall rs st, encode_jp st rs <> Panic.
Proof.
  induction rs as [|r rest IH]; intros st; cbn [encode_jp]; [discriminate|].
  destruct (lookup5 r enc_runs_iso2022jp) as [[[m n] x]|]; [|discriminate].
  specialize (IH m). destruct (encode_jp m rest); try discriminate. exact IH.
Qed.
Theorem encode_no_panic c rs : encode c rs <> Panic.
Proof. destruct c; cbn [encode]; try apply encode_t_no_panic. apply encode_jp_no_panic. Qed.

(* ISO-2022-JP: the only character that may fail to come back is ESC itself (RFC 1468 reserves it; the property
   excludes it) - whether the running codec passes it through, escapes it or rejects it is not pinned *)
Lemma rt_observed :
  rt_bad_ascii = [] /\ rt_bad_latin1 = [] /\ rt_bad_cyrillic = [] /\ rt_bad_hebrew = [] /\ rt_bad_ucs2 = [] /\
  rt_bad_sjis = [] /\ rt_bad_eucjp = [] /\ rt_bad_euckr = [] /\ (forall r, In r rt_bad_iso2022jp -> r = 27) /\ unparsed_iso2022jp = [].
Proof.
  repeat split; try reflexivity.
  assert (H : forallb (N.eqb 27) rt_bad_iso2022jp = true) by (vm_compute; reflexivity).
  rewrite forallb_forall in H. intros r Hin. symmetry. apply N.eqb_eq. exact (H r Hin).
Qed.
