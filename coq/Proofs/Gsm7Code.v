(* Theorems about the tables regenerated from the running code
   (Gen/Gsm7Tables.v: every Unicode scalar value through the encoder and the
   detector, every septet and ESC+septet through the decoder):
   the code and the model agree on the whole domain, and both agree with
   GSM 03.38 (Spec/Gsm0338.v) except at septet 0x09 (D16, known finding). *)
From V Require Import Model.Base Model.Gsm7 Spec.Gsm0338 Gen.Gsm7Tables Proofs.Gsm7Bits Proofs.Gsm7Proofs.
From Coq Require Import ZifyN ZifyNat ZifyBool.
Ltac Zify.zify_post_hook ::= Z.div_mod_to_equations.
Open Scope N_scope.
Local Notation length := List.length.

Lemma beq_bytes_eq : forall a b, beq_bytes a b = true -> a = b.
Proof.
  induction a as [|x a IH]; intros [|y b] H; cbn in H; try discriminate; [reflexivity|].
  apply andb_true_iff in H. destruct H as [H1 H2]. apply N.eqb_eq in H1. f_equal; auto.
Qed.
Lemma beq_bytes_refl : forall a, beq_bytes a a = true.
Proof. induction a; cbn; [reflexivity|]. now rewrite N.eqb_refl. Qed.

(* ---------------------------------------------------------------- rows and lookup *)
Definition beh := (N * list N * bytes * bool)%type.     (* class, septets, octets, Validate *)
Definition row := (N * N * (N * list N * bytes) * bool)%type.
Definition row_lo (x : row) : N := let '(lo, _, _, _) := x in lo.
Definition row_hi (x : row) : N := let '(_, hi, _, _) := x in hi.
Definition row_beh (x : row) : beh := let '(_, _, (c, s, o), v) := x in (c, s, o, v).
Definition row_cls (x : row) : N := let '(_, _, (c, _, _), _) := x in c.
Definition row_septets (x : row) : list N := let '(_, _, (_, s, _), _) := x in s.
Definition row_validate (x : row) : bool := let '(_, _, _, v) := x in v.

(* the behaviour the running code showed for rune r: the row whose interval holds r *)
Fixpoint g7_find (r : N) (l : list row) : option row :=
  match l with
  | [] => None
  | x :: rest => if (row_lo x <=? r) && (r <=? row_hi x) then Some x else g7_find r rest
  end.

Lemma g7_find_some r : forall l x, g7_find r l = Some x -> In x l /\ row_lo x <= r <= row_hi x.
Proof.
  induction l as [|y l IH]; intros x H; cbn [g7_find] in H; [discriminate|].
  destruct ((row_lo y <=? r) && (r <=? row_hi y)) eqn:E.
  - injection H as <-. split; [now left|]. apply andb_true_iff in E. destruct E as [E1 E2].
    apply N.leb_le in E1, E2. lia.
  - destruct (IH _ H). split; [now right|assumption].
Qed.

(* the rows tile the scalar values: [0, 0xD7FF] and [0xE000, 0x10FFFF], in order, no gap *)
Fixpoint tiles (next : N) (l : list row) : bool :=
  match l with
  | [] => next =? 0x110000
  | x :: rest =>
      ((row_lo x =? next) || ((next =? 0xD800) && (row_lo x =? 0xE000)))
      && (row_lo x <=? row_hi x) && tiles (row_hi x + 1) rest
  end.

Lemma tiles_find : forall l next r, tiles next l = true -> next <= r -> scalar r -> g7_find r l <> None.
Proof.
  induction l as [|x l IH]; intros next r H Hr Hs; cbn [tiles] in H.
  - apply N.eqb_eq in H. unfold scalar in Hs. lia.
  - apply andb_true_iff in H. destruct H as [H H3]. apply andb_true_iff in H. destruct H as [H1 H2].
    apply N.leb_le in H2. cbn [g7_find].
    destruct ((row_lo x <=? r) && (r <=? row_hi x)) eqn:E; [discriminate|].
    apply (IH (row_hi x + 1)); [exact H3| |exact Hs].
    apply andb_false_iff in E. unfold scalar in Hs.
    apply orb_true_iff in H1. destruct H1 as [H1|H1].
    + apply N.eqb_eq in H1. destruct E as [E|E]; [apply N.leb_gt in E|apply N.leb_gt in E]; lia.
    + apply andb_true_iff in H1. destruct H1 as [H1a H1b]. apply N.eqb_eq in H1a, H1b.
      destruct E as [E|E]; [apply N.leb_gt in E|apply N.leb_gt in E]; lia.
Qed.

(* ---------------------------------------------------------------- what the model does with a one-character text *)
Definition model_beh (r : N) : beh :=
  (oclass (encode [r]),
   match rune_septets r with Some s => s | None => [] end,
   match encode [r] with Ok o => o | _ => [] end,
   validate [r]).

Definition beh_eqb (a b : beh) : bool :=
  let '(c1, s1, o1, v1) := a in let '(c2, s2, o2, v2) := b in
  (c1 =? c2) && beq_bytes s1 s2 && beq_bytes o1 o2 && Bool.eqb v1 v2.
Lemma beh_eqb_eq a b : beh_eqb a b = true -> a = b.
Proof.
  destruct a as [[[c1 s1] o1] v1], b as [[[c2 s2] o2] v2]. cbn. intros H.
  repeat (apply andb_true_iff in H; destruct H as [H ?]).
  apply N.eqb_eq in H. apply beq_bytes_eq in H2, H1. apply eqb_prop in H0. congruence.
Qed.

Lemma model_beh_reject r : rune_septets r = None -> model_beh r = (1, [], [], false).
Proof.
  intros H. unfold model_beh. rewrite H.
  assert (E : encode [r] = Err EText).
  { unfold encode. apply enc_transform_err. cbn [to_septets]. now rewrite H. }
  rewrite E. cbn [oclass validate forallb]. rewrite validate_rune_iff, H. reflexivity.
Qed.


(* a singleton row is compared with the model directly; a longer row must be a
   rejecting one and no rune the model's tables mention may lie inside it *)
Definition row_ok (x : row) : bool :=
  let '(lo, hi, (cls, sep, oct), v) := x in
  if lo =? hi then beh_eqb (cls, sep, oct, v) (model_beh lo)
  else (cls =? 1) && is_nil sep && is_nil oct && negb v
       && forallb (fun a => (a <? lo) || (hi <? a) || negb (is_some (rune_septets a))) repertoire_all.

Lemma g7_runs_ok : forallb row_ok g7_runs = true.
Proof. vm_compute. reflexivity. Qed.
Lemma g7_runs_tile : tiles 0 g7_runs = true.
Proof. vm_compute. reflexivity. Qed.

Lemma row_ok_sound x r : row_ok x = true -> row_lo x <= r <= row_hi x -> row_beh x = model_beh r.
Proof.
  destruct x as [[[lo hi] [[cls sep] oct]] v]. cbn [row_ok row_lo row_hi row_beh]. intros H Hr.
  destruct (N.eqb_spec lo hi) as [E|E].
  - assert (r = lo) by lia. subst r. now apply beh_eqb_eq.
  - repeat (apply andb_true_iff in H; destruct H as [H ?]).
    apply N.eqb_eq in H. destruct sep; [|discriminate]. destruct oct; [|discriminate]. destruct v; [discriminate|].
    subst cls. symmetry. apply model_beh_reject.
    destruct (in_dec N.eq_dec r repertoire_all) as [I|I]; [|now apply rune_septets_notin].
    rewrite forallb_forall in H0. apply H0 in I. apply orb_true_iff in I. destruct I as [I|I].
    + apply orb_true_iff in I. destruct I as [I|I]; apply N.ltb_lt in I; lia.
    + destruct (rune_septets r); [discriminate|reflexivity].
Qed.

(* THE TIE: on every Unicode scalar value the running code (encoder class, the
   septets and octets it produced, the detector's verdict) is what the model computes *)
Theorem g7_code_is_model r : scalar r ->
  exists x, g7_find r g7_runs = Some x /\ row_lo x <= r <= row_hi x /\ row_beh x = model_beh r.
Proof.
  intros Hs. destruct (g7_find r g7_runs) as [x|] eqn:F.
  - exists x. destruct (g7_find_some _ _ _ F) as [I B]. repeat split; try lia.
    pose proof g7_runs_ok as K. rewrite forallb_forall in K. apply row_ok_sound; [now apply K|exact B].
  - exfalso. revert F. apply (tiles_find g7_runs 0); [exact g7_runs_tile|lia|exact Hs].
Qed.

(* the detector's verdict is "the encoder accepts", row by row, on the code's own table *)
Lemma g7_detector_rows : forallb (fun x => Bool.eqb (row_validate x) (row_cls x =? 0)) g7_runs = true.
Proof. vm_compute. reflexivity. Qed.

Theorem g7_code_detector r : scalar r ->
  exists x, g7_find r g7_runs = Some x /\ row_lo x <= r <= row_hi x /\ (row_validate x = true <-> row_cls x = 0).
Proof.
  intros Hs. destruct (g7_code_is_model r Hs) as (x & F & B & _). exists x.
  destruct (g7_find_some _ _ _ F) as [I _]. pose proof g7_detector_rows as K. rewrite forallb_forall in K.
  apply K in I. apply eqb_prop in I. split; [exact F|]. split; [exact B|]. rewrite I. apply N.eqb_eq.
Qed.

(* ---------------------------------------------------------------- model vs GSM 03.38 *)
Lemma find_code_notin r : forall l, ~ In r (map snd l) -> find_code r l = None.
Proof.
  induction l as [|[c u] l IH]; intros H; cbn [find_code]; [reflexivity|]. cbn [map snd In] in H.
  replace (u =? r) with false; [apply IH; tauto|]. symmetry. apply N.eqb_neq. intros ->. apply H. now left.
Qed.

Lemma spec_septets_notin r : ~ In r spec_repertoire -> spec_septets r = None.
Proof.
  unfold spec_repertoire. rewrite in_app_iff. intros H. unfold spec_septets.
  rewrite !find_code_notin by tauto. reflexivity.
Qed.

Definition opt_septets_eqb (a b : option (list N)) : bool := beq_opt beq_bytes a b.
Lemma opt_septets_eqb_eq a b : opt_septets_eqb a b = true -> a = b.
Proof.
  destruct a, b; cbn; try discriminate; [|reflexivity]. intros H. f_equal. now apply beq_bytes_eq.
Qed.

Definition d16 (r : N) : bool := (r =? 0xC7) || (r =? 0xE7).

Lemma alphabet_check :
  forallb (fun r => d16 r || opt_septets_eqb (rune_septets r) (spec_septets r)) (repertoire_all ++ spec_repertoire) = true.
Proof. vm_compute. reflexivity. Qed.

(* every rune except the two c-cedillas: the model's septets are those of GSM 03.38 section 6.2.1 *)
Theorem model_alphabet_is_spec r : r <> 0xC7 -> r <> 0xE7 -> rune_septets r = spec_septets r.
Proof.
  intros H1 H2. destruct (in_dec N.eq_dec r (repertoire_all ++ spec_repertoire)) as [I|I].
  - pose proof alphabet_check as K. rewrite forallb_forall in K. apply K in I.
    apply orb_true_iff in I. destruct I as [I|I]; [|now apply opt_septets_eqb_eq].
    unfold d16 in I. apply orb_true_iff in I. destruct I as [I|I]; apply N.eqb_eq in I; congruence.
  - rewrite in_app_iff in I. rewrite rune_septets_notin, spec_septets_notin by tauto. reflexivity.
Qed.

(* D16: at septet 0x09 the code has U+00E7 where GSM 03.38 has U+00C7 *)
Lemma model_alphabet_d16 :
  rune_septets 0xC7 = None /\ spec_septets 0xC7 = Some [9] /\
  rune_septets 0xE7 = Some [9] /\ spec_septets 0xE7 = None.
Proof. vm_compute. repeat split. Qed.

Theorem alphabet_full_refuted : exists r, scalar r /\ rune_septets r <> spec_septets r.
Proof. exists 0xC7. split; [left; reflexivity|]. vm_compute. discriminate. Qed.

Lemma encode_single_class r : oclass (encode [r]) = match rune_septets r with Some _ => 0 | None => 1 end.
Proof.
  destruct (rune_septets r) as [s|] eqn:H.
  - pose proof (encode_ok_iff [r]) as K. assert (E : to_septets [r] = Ok (s ++ [])) by (cbn [to_septets]; now rewrite H).
    rewrite E in K. destruct (encode [r]); [reflexivity|discriminate|discriminate].
  - assert (E : encode [r] = Err EText) by (unfold encode; apply enc_transform_err; cbn [to_septets]; now rewrite H).
    now rewrite E.
Qed.

(* the running code against the standard, all scalar values but the two of D16 *)
Theorem g7_code_alphabet r : scalar r -> r <> 0xC7 -> r <> 0xE7 ->
  exists x, g7_find r g7_runs = Some x /\ row_lo x <= r <= row_hi x /\
    row_cls x = (match spec_septets r with Some _ => 0 | None => 1 end) /\
    row_septets x = (match spec_septets r with Some s => s | None => [] end).
Proof.
  intros Hs H1 H2. destruct (g7_code_is_model r Hs) as (x & F & B & M). exists x.
  split; [exact F|]. split; [exact B|]. split.
  - destruct x as [[[lo hi] [[cls sep] oct]] v]. cbn [row_beh row_cls] in *. unfold model_beh in M.
    injection M as -> _ _ _. rewrite <- (model_alphabet_is_spec r H1 H2).
    apply encode_single_class.
  - destruct x as [[[lo hi] [[cls sep] oct]] v]. cbn [row_beh row_septets] in *. unfold model_beh in M.
    injection M as _ -> _ _. now rewrite (model_alphabet_is_spec r H1 H2).
Qed.

(* ---------------------------------------------------------------- decoder tables *)
Definition nat_seq_N (n : nat) : list N := map N.of_nat (seq 0 n).

(* does GSM 03.38 put a character at septet s (prefix [] : default table, s <> ESC; prefix [ESC] : extension table)? *)
Definition has_char (prefix : list N) (s : N) : bool :=
  match prefix with
  | [] => negb (s =? gsm_esc) && match find_char s gsm_default with Some _ => true | None => false end
  | _ => match find_char s gsm_extension with Some _ => true | None => false end
  end.
Definition dec_row_ok (prefix : list N) (x : N * bytes * N * list N) : bool :=
  let '(s, src, cls, rs) := x in
  (* the octets are the packed septets, and the model decodes them as the code did: exactly where the
     standard has a character; where it has none (a lone ESC, ESC + a code without an extension character)
     C08 only asks for "a value or an error", so a more lenient decoder is not a mismatch *)
  out_is beq_bytes (pack_septets (repeat 0 (blocks (7 * length (prefix ++ [s])))) (prefix ++ [s])) 0 src
  && (if has_char prefix s then out_is beq_runes (decode src) cls rs else dec_obs_ok src cls rs).

Lemma has_char_counts :
  length (filter (has_char []) (nat_seq_N 128)) = 127%nat /\ length (filter (has_char [gsm_esc]) (nat_seq_N 128)) = 10%nat.
Proof. vm_compute. split; reflexivity. Qed.

Lemma g7_dec_single_keys : map (fun x => fst (fst (fst x))) g7_dec_single = nat_seq_N 128.
Proof. vm_compute. reflexivity. Qed.
Lemma g7_dec_escape_keys : map (fun x => fst (fst (fst x))) g7_dec_escape = nat_seq_N 128.
Proof. vm_compute. reflexivity. Qed.
Lemma g7_dec_single_model : forallb (dec_row_ok []) g7_dec_single = true.
Proof. vm_compute. reflexivity. Qed.
Lemma g7_dec_escape_model : forallb (dec_row_ok [esc]) g7_dec_escape = true.
Proof. vm_compute. reflexivity. Qed.

(* against the standard: septet s alone decodes to the character GSM 03.38 puts at s
   (s = 0x1B alone is an error; s = 0x09 is D16); ESC s decodes to the extension
   table entry or is refused *)
Definition spec_single (s : N) : N * list N :=
  if s =? gsm_esc then (1, []) else match find_char s gsm_default with Some u => (0, [u]) | None => (1, []) end.
Definition spec_escape (s : N) : N * list N :=
  match find_char s gsm_extension with Some u => (0, [u]) | None => (1, []) end.

Definition pair_eqb (a b : N * list N) : bool := (fst a =? fst b) && beq_bytes (snd a) (snd b).
Lemma pair_eqb_eq a b : pair_eqb a b = true -> a = b.
Proof.
  destruct a, b. unfold pair_eqb. cbn. intros H. apply andb_true_iff in H. destruct H as [H1 H2].
  apply N.eqb_eq in H1. apply beq_bytes_eq in H2. congruence.
Qed.

(* where the standard has no character the property asks for a value or an error, nothing more *)
Definition value_or_error (cls : N) : bool := (cls =? 0) || (cls =? 1).
Lemma g7_dec_single_spec_rows :
  forallb (fun x => let '(s, _, cls, rs) := x in
             (s =? 9) || (if has_char [] s then pair_eqb (cls, rs) (spec_single s) else value_or_error cls)) g7_dec_single = true.
Proof. vm_compute. reflexivity. Qed.
Lemma g7_dec_escape_spec_rows :
  forallb (fun x => let '(s, _, cls, rs) := x in
             if has_char [gsm_esc] s then pair_eqb (cls, rs) (spec_escape s) else value_or_error cls) g7_dec_escape = true.
Proof. vm_compute. reflexivity. Qed.

Lemma value_or_error_prop cls : value_or_error cls = true -> cls = 0 \/ cls = 1.
Proof. unfold value_or_error. intros H. apply orb_true_iff in H. destruct H as [H|H]; apply N.eqb_eq in H; auto. Qed.

Theorem g7_dec_single_spec s src cls rs : In (s, src, cls, rs) g7_dec_single -> s <> 9 ->
  (has_char [] s = true -> (cls, rs) = spec_single s) /\ (has_char [] s = false -> cls = 0 \/ cls = 1).
Proof.
  intros I H. pose proof g7_dec_single_spec_rows as K. rewrite forallb_forall in K. apply K in I.
  apply orb_true_iff in I. destruct I as [I|I]; [apply N.eqb_eq in I; congruence|].
  destruct (has_char [] s); split; intros X; try discriminate; [now apply pair_eqb_eq|now apply value_or_error_prop].
Qed.
Theorem g7_dec_escape_spec s src cls rs : In (s, src, cls, rs) g7_dec_escape ->
  (has_char [gsm_esc] s = true -> (cls, rs) = spec_escape s) /\ (has_char [gsm_esc] s = false -> cls = 0 \/ cls = 1).
Proof.
  intros I. pose proof g7_dec_escape_spec_rows as K. rewrite forallb_forall in K. apply K in I.
  destruct (has_char [gsm_esc] s); split; intros X; try discriminate; [now apply pair_eqb_eq|now apply value_or_error_prop].
Qed.
Lemma g7_dec_single_d16 : exists src, In (9, src, 0, [0xE7]) g7_dec_single /\ spec_single 9 = (0, [0xC7]).
Proof. exists [9]. split; [vm_compute; tauto|reflexivity]. Qed.

(* ---------------------------------------------------------------- the septet count is the property's n *)
Lemma width_check :
  forallb (fun r => match rune_septets r with
                    | Some s => Nat.eqb (length s) (if spec_is_extension r then 2 else 1) && Nat.eqb (length s) (rune_width r)
                    | None => true end) repertoire_all = true.
Proof. vm_compute. reflexivity. Qed.

Theorem septet_count_is_spec : forall t S, to_septets t = Ok S -> septet_count t = spec_septet_count t.
Proof.
  induction t as [|r t IH]; intros S H; [reflexivity|].
  apply to_septets_cons in H. destruct H as (s & S' & Hs & Ht & ->).
  cbn [septet_count spec_septet_count fold_right]. fold (septet_count t). fold (spec_septet_count t).
  rewrite (IH _ Ht). f_equal.
  destruct (in_dec N.eq_dec r repertoire_all) as [I|I]; [|rewrite rune_septets_notin in Hs by exact I; discriminate].
  pose proof width_check as K. rewrite forallb_forall in K. apply K in I. rewrite Hs in I.
  apply andb_true_iff in I. destruct I as [I1 I2]. apply Nat.eqb_eq in I1, I2. congruence.
Qed.

(* ---------------------------------------------------------------- statements assembled for Properties/C08.v *)
Theorem encode_length_spec t S out : to_septets t = Ok S -> encode t = Ok out ->
  length out = ((7 * spec_septet_count t + 7) / 8)%nat.
Proof. intros HS E. rewrite <- (septet_count_is_spec _ _ HS). eapply encode_length; eauto. Qed.

Lemma to_septets_ok_iff t : is_ok (to_septets t) = forallb (fun r => is_some (rune_septets r)) t.
Proof.
  induction t as [|r t IH]; [reflexivity|]. cbn [to_septets forallb]. rewrite <- IH.
  destruct (rune_septets r); cbn [is_some andb]; [|reflexivity]. destruct (to_septets t); reflexivity.
Qed.

(* a text with a character outside the repertoire is refused with an error: no substitution *)
Theorem encode_rejects t r : In r t -> rune_septets r = None -> exists e, encode t = Err e.
Proof.
  intros I H. pose proof (encode_ok_iff t) as K. rewrite to_septets_ok_iff in K.
  assert (F : forallb (fun r => is_some (rune_septets r)) t = false).
  { apply not_true_is_false. intros X. rewrite forallb_forall in X. apply X in I. now rewrite H in I. }
  rewrite F in K. pose proof (encode_total t). destruct (encode t) as [o|e|]; [discriminate|now exists e|congruence].
Qed.

Theorem encode_accepts t : Forall (fun r => rune_septets r <> None) t -> exists out, encode t = Ok out.
Proof.
  intros F. pose proof (encode_ok_iff t) as K. rewrite to_septets_ok_iff in K.
  assert (E : forallb (fun r => is_some (rune_septets r)) t = true).
  { apply forallb_forall. intros r I. rewrite Forall_forall in F. apply F in I. now destruct (rune_septets r). }
  rewrite E in K. destruct (encode t) as [o| |]; [now exists o|discriminate|discriminate].
Qed.

(* D16 on the running code: the two rows where it departs from GSM 03.38 *)
Lemma g7_code_d16 :
  (exists x, g7_find 0xC7 g7_runs = Some x /\ row_cls x = 1 /\ spec_septets 0xC7 = Some [9]) /\
  (exists x, g7_find 0xE7 g7_runs = Some x /\ row_cls x = 0 /\ row_septets x = [9] /\ spec_septets 0xE7 = None).
Proof. split; eexists; vm_compute; repeat split. Qed.

Theorem g7_code_alphabet_refuted : exists r x, scalar r /\ g7_find r g7_runs = Some x /\
  row_cls x <> (match spec_septets r with Some _ => 0 | None => 1 end).
Proof. exists 0xC7. eexists. split; [left; reflexivity|]. split; [vm_compute; reflexivity|]. vm_compute. discriminate. Qed.

Theorem g7_dec_single_model_row s src cls rs : In (s, src, cls, rs) g7_dec_single ->
  if has_char [] s then out_is beq_runes (decode src) cls rs = true else dec_obs_ok src cls rs = true.
Proof.
  intros I. pose proof g7_dec_single_model as K. rewrite forallb_forall in K. apply K in I.
  unfold dec_row_ok in I. apply andb_true_iff in I. destruct I as [_ I]. now destruct (has_char [] s).
Qed.
Theorem g7_dec_escape_model_row s src cls rs : In (s, src, cls, rs) g7_dec_escape ->
  if has_char [gsm_esc] s then out_is beq_runes (decode src) cls rs = true else dec_obs_ok src cls rs = true.
Proof.
  intros I. pose proof g7_dec_escape_model as K. rewrite forallb_forall in K. apply K in I.
  unfold dec_row_ok in I. apply andb_true_iff in I. destruct I as [_ I]. change (has_char [esc] s) with (has_char [gsm_esc] s) in I.
  now destruct (has_char [gsm_esc] s).
Qed.
