(* The two hand-written models of the GSM 7-bit ENCODER are the same function: Model/Gsm7.v (the code of
   coding/gsm7bit transcribed statement by statement; C07 and C08 speak about it) and Model/Detect.v (per-rune septet
   table regenerated from the running code + bit-list packing; C09 speaks about it).
     rune level : rune_septets r = g7_rune r for EVERY r (kernel sweep over the repertoire of the one and the accepted
                  runs of the other);
     text level : to_septets t = g7_septets t;
     octets     : g7_pack satisfies the bit layout that characterises Gsm7.encode (Gsm7Proofs.layout, layout_unique),
                  hence  Gsm7.encode t = g7_encode t  for every text. *)
From V Require Import Model.Base Model.IntervalMap Model.Gsm7 Gen.Charsets Model.Charset Gen.Detect Model.Detect
  Proofs.Gsm7Bits Proofs.Gsm7Proofs Proofs.DetectBits.
From Coq Require Import Lia Arith ZifyN ZifyNat ZifyBool.
Ltac Zify.zify_post_hook ::= Z.div_mod_to_equations.
Local Notation length := List.length.

(* ---------------------------------------------------------------- runes *)
Definition beq_optl (a b : option (list N)) : bool :=
  match a, b with Some x, Some y => beq_bytes x y | None, None => true | _, _ => false end.
Lemma beq_bytes_eq : forall a b : list N, beq_bytes a b = true -> a = b.
Proof.
  induction a as [|x a IH]; destruct b as [|y b]; cbn [beq_bytes]; try discriminate; [reflexivity|].
  intros H. apply andb_true_iff in H. destruct H as [H1 H2]. apply N.eqb_eq in H1. subst y. f_equal. exact (IH _ H2).
Qed.
Lemma beq_optl_eq a b : beq_optl a b = true -> a = b.
Proof. destruct a, b; cbn; try discriminate; [|reflexivity]. intros H. f_equal. now apply beq_bytes_eq. Qed.

Lemma repertoire_agrees : forallb (fun r => beq_optl (rune_septets r) (g7_rune r)) repertoire_all = true.
Proof. vm_compute. reflexivity. Qed.
Lemma accepted_in_repertoire :
  forallb (fun q : run => let '(lo, hi, _, _) := q in forall_in lo hi (fun r => existsb (N.eqb r) repertoire_all)) gsm7_enc_runs = true.
Proof. vm_compute. reflexivity. Qed.

Theorem rune_agree r : rune_septets r = g7_rune r.
Proof.
  destruct (existsb (N.eqb r) repertoire_all) eqn:E.
  - apply existsb_exists in E. destruct E as [x [Hin Hx]]. apply N.eqb_eq in Hx. subst x.
    pose proof repertoire_agrees as H. rewrite forallb_forall in H. exact (beq_optl_eq _ _ (H r Hin)).
  - assert (Hn : ~ In r repertoire_all).
    { intros Hin. assert (X : existsb (N.eqb r) repertoire_all = true) by (apply existsb_exists; exists r; split; [exact Hin|apply N.eqb_refl]). congruence. }
    rewrite (rune_septets_notin r Hn). unfold g7_rune.
    destruct (lookup r gsm7_enc_runs) as [[n v]|] eqn:L; [|reflexivity]. exfalso.
    destruct (lookup_Some_in _ _ _ _ L) as (lo & hi & v0 & Hin & B & _).
    pose proof accepted_in_repertoire as H. rewrite forallb_forall in H. specialize (H _ Hin). cbv beta iota in H.
    pose proof (forall_in_sound _ _ _ H r B) as X. cbv beta in X. congruence.
Qed.

Theorem septets_agree : forall t, to_septets t = g7_septets t.
Proof.
  induction t as [|r t IH]; [reflexivity|]. cbn [to_septets g7_septets]. rewrite <- rune_agree, <- IH.
  destruct (rune_septets r); [|reflexivity]. destruct (to_septets t); reflexivity.
Qed.

(* ---------------------------------------------------------------- bits *)
Lemma bits_of_same : forall w n, Gsm7.bits_of w n = Detect.bits_of w n.
Proof. induction w as [|w IH]; intros n; cbn [Gsm7.bits_of Detect.bits_of]; [reflexivity|]. now rewrite IH. Qed.
Lemma septet_bits_same ss : Gsm7Bits.septet_bits ss = Detect.septet_bits ss.
Proof. unfold Gsm7Bits.septet_bits, Detect.septet_bits. apply flat_map_ext. intros a. apply bits_of_same. Qed.
Lemma filler_same ss : with_filler ss = g7_fill ss.
Proof. reflexivity. Qed.

Lemma padded_multiple n : exists m, (n + padlen n = m * 8)%nat.
Proof. unfold padlen. exists ((n + (8 - n mod 8) mod 8) / 8)%nat. lia. Qed.

Lemma octet_bits_pack bs : octet_bits (pack_bits bs) = bs ++ repeat false (padlen (length bs)).
Proof.
  unfold pack_bits, octet_bits. cbv zeta. set (padded := bs ++ repeat false (padlen (length bs))).
  rewrite (flat_map_ext _ _ (bits_of_same 8)).
  rewrite flat_map_bits_of_bits by apply chunks_lengths.
  apply chunks_exact; [lia|lia|].
  unfold padded. rewrite app_length, repeat_length. apply padded_multiple.
Qed.

Lemma pack_bits_length bs : length (pack_bits bs) = ((length bs + padlen (length bs)) / 8)%nat.
Proof.
  pose proof (octet_bits_length (pack_bits bs)) as H. rewrite octet_bits_pack, app_length, repeat_length in H.
  destruct (padded_multiple (length bs)) as [m Hm]. lia.
Qed.

Lemma pack_bits_octets bs : octets (pack_bits bs).
Proof.
  unfold pack_bits. cbv zeta. unfold octets. apply Forall_forall. intros x Hx. apply in_map_iff in Hx.
  destruct Hx as [c [<- Hc]].
  pose proof (chunks_lengths 8 (bs ++ repeat false (padlen (length bs))) (S (length (bs ++ repeat false (padlen (length bs)))))) as F.
  rewrite Forall_forall in F. specialize (F _ Hc). unfold octet.
  assert (E : forall l, Gsm7.of_bits l = Detect.of_bits l) by (induction l as [|b l IH]; cbn; [reflexivity|now rewrite IH]).
  pose proof (of_bits_lt c) as L. rewrite E, F in L. exact L.
Qed.

Lemma nth_app_false (bs : list bool) k q : nth q (bs ++ repeat false k) false = nth q bs false.
Proof.
  destruct (Nat.lt_ge_cases q (length bs)) as [H|H].
  - now rewrite app_nth1.
  - rewrite app_nth2 by exact H. rewrite (nth_overflow bs) by exact H.
    destruct (Nat.lt_ge_cases (q - length bs) k) as [H2|H2].
    + apply nth_repeat.
    + apply nth_overflow. rewrite repeat_length. exact H2.
Qed.

Theorem g7_pack_layout S : layout S (g7_pack S).
Proof.
  unfold layout, g7_pack. split; [|split].
  - rewrite pack_bits_length, DetectBits.septet_bits_length. rewrite blocks_spec.
    unfold g7_fill, padlen. destruct (Nat.eqb_spec (length S mod 8) 7) as [E|E].
    + rewrite app_length. cbn [length]. lia.
    + lia.
  - apply pack_bits_octets.
  - intros q. rewrite <- (nth_octet_bits (pack_bits (Detect.septet_bits (g7_fill S))) q).
    rewrite octet_bits_pack, nth_app_false. rewrite <- septet_bits_same. reflexivity.
Qed.

(* ---------------------------------------------------------------- the encoders *)
Theorem gsm7_encoders_agree t : Gsm7.encode t = g7_encode t.
Proof.
  unfold g7_encode. rewrite <- septets_agree.
  destruct (to_septets t) as [S|e|] eqn:HS.
  - destruct t as [|r t].
    + cbn in HS. injection HS as <-. reflexivity.
    + destruct (encode_layout (r :: t) S) as (out & E & L); [discriminate|exact HS|].
      rewrite E. f_equal. exact (layout_unique S out (g7_pack S) L (g7_pack_layout S)).
  - unfold Gsm7.encode. exact (enc_transform_err _ _ _ HS).
  - exfalso. exact (to_septets_no_panic t HS).
Qed.
