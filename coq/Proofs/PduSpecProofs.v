(* Agreement of the codec model with the SMPP v5 layout written from the
   specification (Spec/Smpp5.v): the layouts regenerated from the code erase to
   the specification's parameter lists, and for values of the representable
   domain Marshal's frame is the specification's layout of those values. *)
From V Require Import Model.Pdu Spec.Smpp5 Proofs.PduMarshalProofs Proofs.PduStreamProofs Proofs.PduRoundtripProofs Proofs.PduStableProofs Proofs.FlagsProofs.
From Coq Require Import ZifyN ZifyNat ZifyBool Permutation.
Ltac Zify.zify_post_hook ::= Z.div_mod_to_equations.
Open Scope N_scope.

(* ----------------------------------------------- code layout -> spec parameters *)
Definition erase_kind (rep : bool) (k : fkind) : list sparam :=
  match k with
  | FHeader | FSkipped => []
  | FCStr => [PCStr 0]
  | FU8 | FBool | FEsm | FRegDel => [PInt1]
  | FAddr => [PInt1; PInt1; PCStr 0]
  | FDests => [PDests]
  | FUnsucc => [PUnsucc]
  | FShortMsg => (if rep then [] else [PInt1]) ++ [PInt1; PShort]     (* data_coding, sm_default_msg_id, sm_length+short_message *)
  | FTags => [PTlvs]
  end.
Definition erase (lay : layout) : list sparam := flat_map (erase_kind (l_replace lay)) (l_fields lay).

Definition same_kind (a b : sparam) : bool :=
  match a, b with
  | PCStr _, PCStr _ | PInt1, PInt1 | PDests, PDests | PUnsucc, PUnsucc | PShort, PShort | PTlvs, PTlvs => true
  | _, _ => false
  end.
Fixpoint same_kinds (a b : list sparam) : bool :=
  match a, b with
  | [], [] => true
  | x :: a', y :: b' => same_kind x y && same_kinds a' b'
  | _, _ => false
  end.

Inductive verdict := Conforms | ExtraTlvs | MissingParams (spec_has : list sparam) | Unknown | Differs.
Definition conformance (lay : layout) : verdict :=
  match find_op smpp5_ops (l_id lay) with
  | None => Unknown
  | Some o =>
    let spec := map snd (snd o) in
    let code := erase lay in
    if same_kinds code spec then Conforms
    else if same_kinds code (spec ++ [PTlvs]) then ExtraTlvs      (* the code additionally tolerates TLVs: identical octets when there are none *)
    else if same_kinds (code ++ skipn (List.length code) spec) spec && Nat.ltb (List.length code) (List.length spec)
         then MissingParams (skipn (List.length code) spec)
    else Differs
  end.

(* ----------------------------------------------------- value -> spec values *)
Definition to_saddr (a : addr) : saddr := {| s_ton := a_ton a; s_npi := a_npi a; s_addr := a_no a |}.
(* GSM 03.40 9.2.3.24: UDHL, then information elements (identifier, length, data) *)
Definition spec_udh (u : kvs) : bytes :=
  let body := List.concat (map (fun e => fst e :: slen (snd e) :: snd e) u) in slen body :: body.

Definition to_spec_val (rep : bool) (v : fval) : list sval :=
  match v with
  | VHeader _ | VSkipped _ => []
  | VStr s => [SStr s]
  | VU8 b => [SInt b]
  | VBool b => [SInt (if b then 1 else 0)]
  | VEsm e => [SInt (spec_esm_byte e)]          (* SMPP v5 4.7.12 bit positions *)
  | VRegDel r => [SInt (spec_regdel_byte r)]    (* SMPP v5 4.7.21 *)
  | VAddr a => [SInt (a_ton a); SInt (a_npi a); SStr (a_no a)]
  | VDests sme dl => [SDests (map (fun a => DSme (to_saddr a)) sme ++ map DList dl)]
  | VUnsucc l => [SUnsucc (map (fun e => (to_saddr (fst e), snd e)) l)]
  | VShort m =>
    (if rep then [] else [SInt (sm_dc m)]) ++
    [SInt (sm_dflt m); SShort ((match sm_udh m with None => [] | Some u => spec_udh u end) ++ sm_msg m)]
  | VTags t => [STlvs (filter nonempty t)]      (* a TLV with an empty value is not sent *)
  end.
Definition to_spec (lay : layout) (vs : list fval) : list sval := flat_map (to_spec_val (l_replace lay)) vs.

(* ------------------------------------------------------------- helper facts *)
Lemma slen_len s : slen s = len s. Proof. reflexivity. Qed.

Lemma be2_be16 n : be 2 n = be16 n.
Proof. reflexivity. Qed.
Lemma be4_be32 n : be 4 n = be32 n.
Proof.
  unfold be, be32. cbn [app].
  replace (n / 256 / 256 / 256) with (n / 16777216) by lia.
  replace (n / 256 / 256) with (n / 65536) by lia. reflexivity.
Qed.

Lemma nul_free_nulfree s : nul_free s = nulfree s.
Proof.
  unfold nul_free, nulfree. induction s as [|c s IH]; [reflexivity|]. cbn [forallb]. rewrite IH. f_equal.
  destruct (N.eqb_spec c 0), (N.ltb_spec 0 c); try lia; reflexivity.
Qed.

Lemma lay_cstr_enc s : nulfree s = true -> lay_cstr s = Some (enc_cstr s).
Proof. intros H. unfold lay_cstr. now rewrite nul_free_nulfree, H. Qed.

Lemma lay_saddr_enc a : wf_addr a = true -> lay_saddr (to_saddr a) = Some (enc_addr a).
Proof.
  unfold wf_addr, lay_saddr, to_saddr, enc_addr. cbn [s_ton s_npi s_addr]. intros H.
  apply andb_true_iff in H. destruct H as [H Hn]. rewrite H, (lay_cstr_enc _ Hn). reflexivity.
Qed.

Lemma lay_params_app ps1 : forall vs1 ps2 vs2 b1 b2,
  lay_params ps1 vs1 = Some b1 -> lay_params ps2 vs2 = Some b2 ->
  lay_params (ps1 ++ ps2) (vs1 ++ vs2) = Some (b1 ++ b2).
Proof.
  induction ps1 as [|p ps1 IH]; intros [|v vs1] ps2 vs2 b1 b2 H1 H2; cbn [lay_params app] in *; try discriminate.
  - injection H1 as <-. exact H2.
  - destruct (lay_param p v) as [a|]; [|discriminate]. destruct (lay_params ps1 vs1) as [b|] eqn:E; [|discriminate].
    injection H1 as <-. rewrite (IH vs1 ps2 vs2 b b2 E H2). now rewrite app_assoc.
Qed.

(* destinations: SME addresses (dest_flag 1) then distribution lists (dest_flag 2) *)
Lemma lay_all_smes sme : forallb wf_addr sme = true ->
  forall rest b, lay_all lay_dest rest = Some b ->
  lay_all lay_dest (map (fun a => DSme (to_saddr a)) sme ++ rest) = Some (enc_smes sme ++ b).
Proof.
  induction sme as [|a sme IH]; intros H rest b Hr; cbn [map app lay_all enc_smes flat_map]; [exact Hr|].
  cbn [forallb] in H. apply andb_true_iff in H. destruct H as [Ha Hs].
  cbn [lay_dest]. rewrite (lay_saddr_enc a Ha). fold (enc_smes sme). rewrite (IH Hs rest b Hr).
  rewrite <- app_assoc. reflexivity.
Qed.
Lemma lay_all_dls dl : forallb nulfree dl = true -> lay_all lay_dest (map DList dl) = Some (enc_dls dl).
Proof.
  induction dl as [|d dl IH]; intros H; cbn [map lay_all enc_dls flat_map]; [reflexivity|].
  cbn [forallb] in H. apply andb_true_iff in H. destruct H as [Hd Hs].
  cbn [lay_dest]. rewrite (lay_cstr_enc d Hd). fold (enc_dls dl). rewrite (IH Hs). reflexivity.
Qed.

Lemma lay_all_recs l : forallb wf_rec l = true ->
  lay_all lay_unsucc (map (fun e => (to_saddr (fst e), snd e)) l) = Some (enc_recs l).
Proof.
  induction l as [|[a c] l IH]; intros H; cbn [map lay_all enc_recs flat_map]; [reflexivity|].
  cbn [forallb] in H. apply andb_true_iff in H. destruct H as [He Hs]. unfold wf_rec in He. cbn [fst snd] in *.
  apply andb_true_iff in He. destruct He as [Ha Hc].
  unfold lay_unsucc at 1. cbn [fst snd]. rewrite Hc, (lay_saddr_enc a Ha), be4_be32. fold (enc_recs l). rewrite (IH Hs). reflexivity.
Qed.

Lemma spec_udh_enc u b : wf_udh u = true -> enc_udh u = Ok b -> len b <= 255 -> b = spec_udh u.
Proof.
  unfold wf_udh. intros H. apply andb_true_iff in H. destruct H as [Hs Hw].
  unfold enc_udh. rewrite (kv_sort_sorted u Hs), (wf_udh_no_oversize u Hw).
  set (body := enc_udh_body u). intros Hb Hl. apply Ok_inj in Hb. subst b. rewrite len_cons in Hl.
  assert (Hhd : ((1 + len body) mod 256 + 255) mod 256 = len body) by lia. rewrite Hhd.
  unfold spec_udh.
  assert (Hbody : List.concat (map (fun e => fst e :: slen (snd e) :: snd e) u) = body).
  { unfold body, enc_udh_body. clear -Hw. induction u as [|[k d] u IH]; [reflexivity|].
    cbn [forallb] in Hw. apply andb_true_iff in Hw. destruct Hw as [He Hr]. unfold wf_ie in He. cbn [fst snd] in He.
    apply andb_true_iff in He. destruct He as [He _]. apply andb_true_iff in He. destruct He as [_ Hl].
    cbn [map List.concat flat_map fst snd]. rewrite (IH Hr). rewrite slen_len, (N.mod_small (len d) 256) by lia. reflexivity. }
  rewrite Hbody. reflexivity.
Qed.

Lemma lay_all_tlvs t b : forallb wf_tlv t = true -> enc_tags_sorted t = Ok b ->
  lay_all lay_tlv (filter nonempty t) = Some b.
Proof.
  revert b. induction t as [|[k v] r IH]; intros b Hw He; cbn [enc_tags_sorted filter] in *.
  - apply Ok_inj in He. subst b. reflexivity.
  - cbn [forallb] in Hw. apply andb_true_iff in Hw. destruct Hw as [Hkv Hr]. unfold wf_tlv in Hkv. cbn [fst snd] in Hkv.
    apply andb_true_iff in Hkv. destruct Hkv as [Hk _].
    unfold nonempty at 1. cbn [snd]. destruct (N.eqb_spec (len v) 0); cbn [negb]; [now apply IH|].
    destruct (N.ltb_spec (len v) 65535); [|discriminate].
    destruct (enc_tags_sorted r) as [rb| |]; cbn [obind] in He; try discriminate. apply Ok_inj in He. subst b.
    cbn [lay_all]. unfold lay_tlv at 1. cbn [fst snd]. rewrite slen_len, Hk.
    destruct (N.ltb_spec (len v) 65536); [|lia]. cbn [andb]. rewrite (IH rb Hr eq_refl), !be2_be16.
    rewrite <- !app_assoc. reflexivity.
Qed.

(* --------------------------------------------------- one field, then the walk *)
Lemma esm_to_byte_spec e : wf_esm e = true -> esm_to_byte e = spec_esm_byte e.
Proof.
  intros H. pose proof (wf_esm_roundtrip e H) as Hr.
  assert (Hb : esm_to_byte e < 256).
  { destruct e as [m t u r]. unfold wf_esm in H. cbn [e_mode e_type] in H. apply andb_true_iff in H. destruct H as [Hm Ht].
    assert (Hm' : m = 0 \/ m = 1 \/ m = 2 \/ m = 3) by lia.
    assert (Ht' : t = 0 \/ t = 1 \/ t = 2 \/ t = 3 \/ t = 4 \/ t = 5 \/ t = 6 \/ t = 7 \/ t = 8 \/ t = 9 \/
                  t = 10 \/ t = 11 \/ t = 12 \/ t = 13 \/ t = 14 \/ t = 15) by lia.
    clear Hm Ht Hr.
    repeat (destruct Hm' as [->|Hm']); try subst m;
    repeat (destruct Ht' as [->|Ht']); try subst t; destruct u, r; vm_compute; reflexivity. }
  rewrite <- Hr at 2. rewrite (esm_model_is_spec _ Hb). symmetry. apply esm_spec_byte. exact Hb.
Qed.
Lemma regdel_to_byte_spec r : wf_regdel r = true -> regdel_to_byte r = spec_regdel_byte r.
Proof.
  intros H. pose proof (wf_regdel_roundtrip r H) as Hr.
  assert (Hb : regdel_to_byte r < 256).
  { destruct r as [m s i v]. unfold wf_regdel in H. cbn [r_mc r_sme r_rsv] in H.
    apply andb_true_iff in H. destruct H as [H Hv]. apply andb_true_iff in H. destruct H as [Hm Hs].
    assert (Hm' : m = 0 \/ m = 1 \/ m = 2 \/ m = 3) by lia.
    assert (Hs' : s = 0 \/ s = 1 \/ s = 2 \/ s = 3) by lia.
    assert (Hv' : v = 0 \/ v = 1 \/ v = 2 \/ v = 3 \/ v = 4 \/ v = 5 \/ v = 6 \/ v = 7) by lia.
    clear Hm Hs Hv Hr.
    repeat (destruct Hm' as [->|Hm']); try subst m;
    repeat (destruct Hs' as [->|Hs']); try subst s;
    repeat (destruct Hv' as [->|Hv']); try subst v; destruct i; vm_compute; reflexivity. }
  rewrite <- Hr at 2. rewrite (regdel_model_is_spec _ Hb). symmetry. apply regdel_spec_byte. exact Hb.
Qed.

Lemma field_is_spec lay u k v b :
  wf_field lay u k v = true -> enc_field lay u k v = Ok b ->
  lay_params (erase_kind (l_replace lay) k) (to_spec_val (l_replace lay) v) = Some b.
Proof.
  destruct k, v; cbn [wf_field enc_field erase_kind to_spec_val]; try discriminate; intros Hw He.
  - (* FCStr *) rewrite (nulfree_no_nul _ Hw) in He. apply Ok_inj in He. subst b. cbn [lay_params lay_param]. rewrite (lay_cstr_enc _ Hw). now rewrite app_nil_r.
  - (* FU8 *) apply Ok_inj in He. subst b. cbn [lay_params lay_param]. now rewrite Hw.
  - (* FBool *) apply Ok_inj in He. subst b. unfold enc_bool. cbn [lay_params lay_param]. destruct b0; reflexivity.
  - (* FEsm *) change (esm_fits e) with (wf_esm e) in He; rewrite Hw in He. apply Ok_inj in He. subst b. cbn [lay_params lay_param]. rewrite <- (esm_to_byte_spec e Hw).
    assert (esm_to_byte e < 256) as Hb.
    { rewrite (esm_to_byte_spec e Hw). destruct e as [m t u0 r]. unfold wf_esm in Hw. cbn [e_mode e_type] in Hw.
      apply andb_true_iff in Hw. unfold spec_esm_byte, nb. cbn [e_mode e_type e_udhi e_reply]. destruct u0, r; lia. }
    destruct (N.ltb_spec (esm_to_byte e) 256); [reflexivity | lia].
  - (* FRegDel *) change (regdel_fits r) with (wf_regdel r) in He; rewrite Hw in He. apply Ok_inj in He. subst b. cbn [lay_params lay_param]. rewrite <- (regdel_to_byte_spec r Hw).
    assert (regdel_to_byte r < 256) as Hb.
    { rewrite (regdel_to_byte_spec r Hw). destruct r as [m s i v]. unfold wf_regdel in Hw. cbn [r_mc r_sme r_rsv] in Hw.
      apply andb_true_iff in Hw. destruct Hw as [Hw Hv]. apply andb_true_iff in Hw.
      unfold spec_regdel_byte, nb. cbn [r_mc r_sme r_inter r_rsv]. destruct i; lia. }
    destruct (N.ltb_spec (regdel_to_byte r) 256); [reflexivity | lia].
  - (* FAddr *) rewrite (wf_addr_no_nul _ Hw) in He. apply Ok_inj in He. subst b. unfold wf_addr in Hw.
    apply andb_true_iff in Hw. destruct Hw as [Hw Hn]. apply andb_true_iff in Hw. destruct Hw as [Ht Hp].
    cbn [lay_params lay_param]. rewrite Ht, Hp, (lay_cstr_enc _ Hn). unfold enc_addr. now rewrite app_nil_r.
  - (* FDests *) apply andb_true_iff in Hw. destruct Hw as [Hs Hd]. unfold enc_dests in He.
    destruct (N.ltb_spec 255 (N.of_nat (List.length sme + List.length dl))); [discriminate|].
    rewrite (existsb_false_forallb wf_addr (fun a => has_nul (a_no a)) sme wf_addr_no_nul Hs) in He.
    rewrite (existsb_false_forallb nulfree has_nul dl nulfree_no_nul Hd) in He. cbn [orb] in He.
    apply Ok_inj in He. subst b.
    cbn [lay_params lay_param]. rewrite app_length, !map_length.
    destruct (N.leb_spec (N.of_nat (List.length sme + List.length dl)) 255); [|lia].
    rewrite (lay_all_smes sme Hs _ _ (lay_all_dls dl Hd)). fold (enc_smes sme) (enc_dls dl). now rewrite app_nil_r.
  - (* FUnsucc *) unfold enc_unsucc in He.
    destruct (N.ltb_spec 255 (N.of_nat (List.length l))); [discriminate|].
    change (forallb (fun e => wf_addr (fst e) && (snd e <? 4294967296)) l) with (forallb wf_rec l) in Hw.
    rewrite (existsb_false_forallb wf_rec (fun e => has_nul (a_no (fst e))) l
               (fun e He => wf_addr_no_nul (fst e) (proj1 (proj1 (andb_true_iff _ _) He))) Hw) in He.
    apply Ok_inj in He. subst b.
    cbn [lay_params lay_param]. rewrite map_length.
    destruct (N.leb_spec (N.of_nat (List.length l)) 255); [|lia].
    rewrite (lay_all_recs l Hw). fold (enc_recs l). now rewrite app_nil_r.
  - (* FShortMsg *) unfold wf_short in Hw. apply andb_true_iff in Hw. destruct Hw as [Hw Hrest].
    apply andb_true_iff in Hw. destruct Hw as [Hdf _].
    destruct m as [dflt dc udh msg]. cbn [sm_dflt sm_dc sm_udh sm_msg] in *.
    unfold prepare in He. cbn [sm_dflt sm_dc sm_udh sm_msg] in He.
    destruct (l_replace lay) eqn:Erep.
    + apply andb_true_iff in Hrest. destruct Hrest as [Hdc Hu]. apply N.eqb_eq in Hdc. subst dc. destruct udh; [discriminate|].
      unfold enc_short in He. cbn [sm_dflt sm_dc sm_udh sm_msg obind] in He.
      destruct (MaxShortMessageLength <? len msg); [discriminate|]. rewrite len_nil in He.
      destruct (N.ltb_spec 255 (0 + len msg)); [discriminate|]. rewrite nocoding_eqb_refl in He. apply Ok_inj in He. subst b.
      cbn [app lay_params lay_param]. rewrite Hdf, slen_len. destruct (N.leb_spec (len msg) 255); [|lia]. cbn [app]. rewrite ?app_nil_r. reflexivity.
    + apply andb_true_iff in Hrest. destruct Hrest as [Hdc Hu]. apply andb_true_iff in Hdc. destruct Hdc as [Hdc Hnc].
      apply negb_true_iff in Hnc.
      destruct udh as [uh|].
      * apply andb_true_iff in Hu. destruct Hu as [_ Hwu].
        unfold enc_short in He. cbn [sm_dflt sm_dc sm_udh sm_msg] in He.
        destruct (MaxShortMessageLength <? len msg); [discriminate|].
        destruct (enc_udh uh) as [ub| |] eqn:Eu; cbn [obind] in He; try discriminate.
        destruct (N.ltb_spec 255 (len ub + len msg)); [discriminate|]. rewrite Hnc in He. apply Ok_inj in He. subst b.
        rewrite <- (spec_udh_enc uh ub Hwu Eu) by lia.
        cbn [app lay_params lay_param]. rewrite Hdc, Hdf, slen_len, len_app.
        destruct (N.leb_spec (len ub + len msg) 255); [|lia]. cbn [app]. rewrite ?app_nil_r. reflexivity.
      * apply negb_true_iff in Hu. rewrite Hu in He.
        unfold enc_short in He. cbn [sm_dflt sm_dc sm_udh sm_msg obind] in He.
        destruct (MaxShortMessageLength <? len msg); [discriminate|]. rewrite len_nil in He.
        destruct (N.ltb_spec 255 (0 + len msg)); [discriminate|]. rewrite Hnc in He. apply Ok_inj in He. subst b.
        cbn [app lay_params lay_param]. rewrite Hdc, Hdf, slen_len. destruct (N.leb_spec (len msg) 255); [|lia]. cbn [app]. rewrite ?app_nil_r. reflexivity.
  - (* FTags *) unfold wf_tags in Hw. apply andb_true_iff in Hw. destruct Hw as [Hs Hw]. unfold enc_tags in He.
    rewrite (kv_sort_sorted t Hs) in He. cbn [lay_params lay_param].
    change (forallb (fun e => (fst e <? 65536) && octetsb (snd e)) t) with (forallb wf_tlv t) in Hw.
    rewrite (lay_all_tlvs t b Hw He). now rewrite app_nil_r.
  - (* FSkipped *) apply Ok_inj in He. subst b. reflexivity.
Qed.

Lemma fields_are_spec lay u ks : forall vs b,
  wf_fields lay u ks vs = true -> enc_fields lay u ks vs = Ok b ->
  lay_params (flat_map (erase_kind (l_replace lay)) ks) (flat_map (to_spec_val (l_replace lay)) vs) = Some b.
Proof.
  induction ks as [|k ks IH]; intros [|v vs] b Hw He; try discriminate.
  - apply Ok_inj in He. subst b. reflexivity.
  - cbn [wf_fields] in Hw. apply andb_true_iff in Hw. destruct Hw as [Hv Hvs].
    cbn [enc_fields] in He.
    destruct (enc_field lay u k v) as [b1| |] eqn:E1; cbn [obind] in He; try discriminate.
    destruct (enc_fields lay u ks vs) as [b2| |] eqn:E2; cbn [obind] in He; try discriminate.
    apply Ok_inj in He. subst b. cbn [flat_map].
    apply lay_params_app; [apply (field_is_spec lay u k v b1 Hv E1) | apply (IH vs b2 Hvs E2)].
Qed.

(* C02, encoder side: Marshal's frame is the specification's layout of the value *)
Theorem marshal_is_spec lay vs f :
  wf_vals lay vs -> marshal lay vs = Ok f -> len f <= 65536 ->
  exists h body, hd_error vs = Some (VHeader h) /\
    lay_params (erase lay) (to_spec lay vs) = Some body /\
    f = spec_frame (l_id lay) 0 (u32_of_i32 (h_seq h)) body.
Proof.
  unfold wf_vals, marshal. intros Hwf Hm Hlen.
  destruct (l_fields lay) as [|k ks] eqn:El; [discriminate|]. destruct k; try discriminate.
  destruct vs as [|v vs']; [contradiction|]. destruct v as [h| | | | | | | | | | |]; try contradiction.
  destruct Hwf as (Hseq & Hst & Hw).
  destruct (Z.leb_spec (h_seq h) 0); [lia|]. rewrite Hst in *. cbn [N.eqb negb] in *.
  destruct (enc_fields lay (udhi_of vs') ks vs') as [body| |] eqn:Eb; cbn [obind] in Hm; try discriminate.
  apply Ok_inj in Hm. subst f.
  exists h, body. split; [reflexivity|]. split.
  - unfold erase, to_spec. rewrite El. cbn [flat_map erase_kind to_spec_val app].
    apply (fields_are_spec lay _ ks vs' body Hw Eb).
  - pose proof (hdr_body_len (h_len h) (l_id lay) 0 (h_seq h) body) as H16.
    rewrite patch_len_len in Hlen by lia.
    rewrite patch_len_shape. unfold spec_frame. rewrite !be4_be32.
    rewrite (N.mod_small (len (enc_header (h_len h) (l_id lay) 0 (h_seq h) ++ body)) 4294967296) by lia.
    rewrite len_app, enc_header_len. reflexivity.
Qed.

(* C02, decoder side, canonical order: a frame laid out from the specification decodes to the values laid out *)
Theorem spec_frame_decodes lay vs f :
  lay_ok lay = true -> wf_vals lay vs -> marshal lay vs = Ok f -> len f <= 65536 ->
  exists h body, hd_error vs = Some (VHeader h) /\
    lay_params (erase lay) (to_spec lay vs) = Some body /\
    unmarshal lay (spec_frame (l_id lay) 0 (u32_of_i32 (h_seq h)) body) = Ok (received lay vs).
Proof.
  intros Hlay Hwf Hm Hlen. destruct (marshal_is_spec lay vs f Hwf Hm Hlen) as (h & body & Hh & Hb & Hf).
  exists h, body. split; [exact Hh|]. split; [exact Hb|]. rewrite <- Hf. apply roundtrip; assumption.
Qed.

Lemma Some_inj {A} (a b : A) : Some a = Some b -> a = b.
Proof. congruence. Qed.

(* ---- TLVs "in some order": the decoder accepts them in ANY order *)
Definition tlv_ok (e : N * bytes) : bool := (fst e <? 65536) && (1 <=? len (snd e)) && (len (snd e) <? 65536) && octetsb (snd e).

Lemma dec_tags_loop_any l : forall fuel m b,
  forallb tlv_ok l = true -> lay_all lay_tlv l = Some b -> (List.length l <= fuel)%nat ->
  dec_tags_loop fuel b m = Ok (ins_all l m).
Proof.
  unfold ins_all. induction l as [|[k v] r IH]; intros fuel m b Hw Hl Hf; cbn [lay_all fold_left] in *.
  - injection Hl as <-. destruct fuel; reflexivity.
  - cbn [forallb] in Hw. apply andb_true_iff in Hw. destruct Hw as [Hkv Hr]. unfold tlv_ok in Hkv. cbn [fst snd] in *.
    apply andb_true_iff in Hkv. destruct Hkv as [Hkv Ho]. apply andb_true_iff in Hkv. destruct Hkv as [Hkv Hlt].
    apply andb_true_iff in Hkv. destruct Hkv as [Hk Hne].
    unfold lay_tlv at 1 in Hl. cbn [fst snd] in Hl. rewrite slen_len, Hk, Hlt in Hl. cbn [andb] in Hl.
    destruct (lay_all lay_tlv r) as [rb|] eqn:Er; [|discriminate]. apply Some_inj in Hl. subst b.
    destruct fuel as [|fuel]; [cbn in Hf; lia|].
    change (slen v) with (len v). rewrite (be2_be16 k), (be2_be16 (len v)).
    unfold be16. rewrite <- !app_assoc. cbn [app dec_tags_loop].
    rewrite (de16_be16 k) by lia. rewrite (de16_be16 (len v)) by lia.
    destruct (N.eqb_spec (len v) 0); [lia|].
    destruct (v ++ rb) as [|x xs] eqn:Evr.
    { destruct v; [cbn in Hne; discriminate | discriminate]. }
    rewrite <- Evr. rewrite len_app. destruct (N.leb_spec (len v) (len v + len rb)); [|lia].
    rewrite len_nat. rewrite firstn_app_l, firstn_all by lia. rewrite skipn_app_l, skipn_all by lia. cbn [app].
    apply IH; [exact Hr | reflexivity | cbn [List.length] in Hf; lia].
Qed.

Lemma lay_all_tlv_len l b : lay_all lay_tlv l = Some b -> (List.length l <= List.length b)%nat.
Proof.
  revert b. induction l as [|e r IH]; intros b; cbn [lay_all]; [intros; cbn; lia|].
  destruct (lay_tlv e) as [a|] eqn:Ea; [|discriminate]. destruct (lay_all lay_tlv r) as [rb|]; [|discriminate].
  intros [= <-]. specialize (IH rb eq_refl). unfold lay_tlv in Ea. destruct (_ && _); [|discriminate]. injection Ea as <-.
  cbn [List.length]. rewrite !app_length. cbn [be List.length app]. lia.
Qed.

(* any transmission order of a TLV set decodes to the same (canonical) map *)
Theorem dec_tags_any_order l b :
  forallb tlv_ok l = true -> lay_all lay_tlv l = Some b -> dec_tags b = Ok (kv_sort l).
Proof.
  intros Hw Hl. unfold dec_tags, kv_sort. fold (ins_all l []).
  apply dec_tags_loop_any; [exact Hw | exact Hl | apply lay_all_tlv_len; exact Hl].
Qed.

Theorem dec_tags_order_irrelevant l l' b b' :
  NoDup (map fst l) -> Permutation l l' -> forallb tlv_ok l = true -> forallb tlv_ok l' = true ->
  lay_all lay_tlv l = Some b -> lay_all lay_tlv l' = Some b' -> dec_tags b = dec_tags b'.
Proof.
  intros Hnd Hp Hw Hw' Hl Hl'. rewrite (dec_tags_any_order l b Hw Hl), (dec_tags_any_order l' b' Hw' Hl').
  now rewrite (kv_sort_perm l l' Hnd Hp).
Qed.

(* ---- dest_address entries in ANY order: SME addresses and distribution lists are collected separately *)
Fixpoint smes_of (l : list sdest) : list addr :=
  match l with [] => [] | DSme a :: r => {| a_ton := s_ton a; a_npi := s_npi a; a_no := s_addr a |} :: smes_of r | DList _ :: r => smes_of r end.
Fixpoint dls_of (l : list sdest) : list bytes :=
  match l with [] => [] | DSme _ :: r => dls_of r | DList n :: r => n :: dls_of r end.
Definition dest_ok (d : sdest) : bool :=
  match d with DSme a => (s_ton a <? 256) && (s_npi a <? 256) && nulfree (s_addr a) | DList n => nulfree n end.

Lemma dec_dests_loop_any l : forall accs accd b rest,
  forallb dest_ok l = true -> lay_all lay_dest l = Some b ->
  dec_dests_loop (List.length l) (b ++ rest) accs accd = Ok (accs ++ smes_of l, accd ++ dls_of l, rest).
Proof.
  induction l as [|d l IH]; intros accs accd b rest Hw Hl; cbn [lay_all List.length dec_dests_loop smes_of dls_of] in *.
  - injection Hl as <-. now rewrite !app_nil_r.
  - cbn [forallb] in Hw. apply andb_true_iff in Hw. destruct Hw as [Hd Hr].
    destruct (lay_dest d) as [db|] eqn:Ed; [|discriminate]. destruct (lay_all lay_dest l) as [lb|] eqn:El; [|discriminate].
    injection Hl as <-. destruct d as [a|n]; cbn [lay_dest dest_ok] in *.
    + destruct (lay_saddr a) as [ab|] eqn:Ea; [|discriminate]. injection Ed as <-.
      apply andb_true_iff in Hd. destruct Hd as [Hd Hn]. unfold lay_saddr in Ea. rewrite Hd in Ea.
      rewrite (lay_cstr_enc _ Hn) in Ea. injection Ea as <-.
      rewrite <- !app_assoc. cbn [app]. unfold dec_addr. cbn [dec_u8 obind].
      unfold enc_cstr at 1. rewrite <- app_assoc.
      rewrite (app_assoc (s_addr a) [0] (lb ++ rest)). change (s_addr a ++ [0]) with (enc_cstr (s_addr a)).
      rewrite (dec_cstr_enc (s_addr a) (lb ++ rest) Hn). cbn [obind].
      rewrite (IH _ _ lb rest Hr eq_refl). rewrite <- !app_assoc. reflexivity.
    + destruct (lay_cstr n) as [nb|] eqn:En; [|discriminate]. injection Ed as <-.
      rewrite (lay_cstr_enc _ Hd) in En. injection En as <-.
      rewrite <- !app_assoc. cbn [app]. rewrite (dec_cstr_enc n (lb ++ rest) Hd). cbn [obind].
      rewrite (IH _ _ lb rest Hr eq_refl). rewrite <- !app_assoc. reflexivity.
Qed.

Theorem dec_dests_any_order l b rest :
  forallb dest_ok l = true -> lay_param PDests (SDests l) = Some b ->
  dec_dests (b ++ rest) = Ok (smes_of l, dls_of l, rest).
Proof.
  intros Hw. cbn [lay_param]. destruct (N.leb_spec (N.of_nat (List.length l)) 255); [|discriminate].
  destruct (lay_all lay_dest l) as [lb|] eqn:El; [|discriminate]. intros [= <-].
  unfold dec_dests. rewrite <- app_comm_cons. cbn [dec_u8 obind]. rewrite Nat2N.id.
  apply (dec_dests_loop_any l [] [] lb rest Hw El).
Qed.

(* ------------------------------- what Marshal accepts is expressible (no misstatement) *)
(* [pre_field]: what holds of ANY Go value by typing (octets are octets, maps have unique keys —
   printed key-sorted), plus the domain conventions the property names: flag structs within
   their bit widths, UDH present exactly when the indicator is set, data_coding <> 0xBF, a
   field neither walk handles is zero.  Everything else — NUL-free strings, counts, lengths —
   is enforced by Marshal itself: if it succeeds, the value is in [wf_fields], hence (by
   [marshal_is_spec]) the frame states exactly that value. *)
Definition pre_addr (a : addr) : bool := (a_ton a <? 256) && (a_npi a <? 256) && octetsb (a_no a).
Definition pre_ie (e : N * bytes) : bool := (fst e <? 256) && octetsb (snd e).
Definition pre_short (lay : layout) (udhi : bool) (m : shortmsg) : bool :=
  (sm_dflt m <? 256) && octetsb (sm_msg m) &&
  if l_replace lay then (sm_dc m =? NoCoding) && match sm_udh m with None => true | Some _ => false end
  else (sm_dc m <? 256) && negb (sm_dc m =? NoCoding) &&
       match sm_udh m with
       | None => negb (l_has_esm lay && udhi)
       | Some u => l_has_esm lay && udhi && (sorted_keys u && forallb pre_ie u)
       end.
Definition pre_field (lay : layout) (udhi : bool) (k : fkind) (v : fval) : bool :=
  match k, v with
  | FCStr, VStr s => octetsb s
  | FU8, VU8 b => b <? 256
  | FBool, VBool _ => true
  | FEsm, VEsm e => true            (* ANY sub-field values: Marshal refuses the ones wider than their bit fields *)
  | FRegDel, VRegDel r => true
  | FAddr, VAddr a => pre_addr a
  | FDests, VDests sme dl => forallb pre_addr sme && forallb octetsb dl
  | FUnsucc, VUnsucc l => forallb (fun e => pre_addr (fst e) && (snd e <? 4294967296)) l
  | FShortMsg, VShort m => pre_short lay udhi m
  | FTags, VTags t => wf_tags t
  | FSkipped, VSkipped v => v =? 0
  | _, _ => false
  end.
Fixpoint pre_fields (lay : layout) (udhi : bool) (ks : list fkind) (vs : list fval) : bool :=
  match ks, vs with
  | [], [] => true
  | k :: ks', v :: vs' => pre_field lay udhi k v && pre_fields lay udhi ks' vs'
  | _, _ => false
  end.

Lemma octets_no_nul s : octetsb s = true -> has_nul s = false -> nulfree s = true.
Proof.
  unfold octetsb, has_nul, nulfree. induction s as [|c s IH]; [reflexivity|]. cbn [forallb existsb]. intros Ho Hn.
  apply andb_true_iff in Ho. destruct Ho as [Hc Hs]. apply orb_false_iff in Hn. destruct Hn as [Hz Hn].
  rewrite (IH Hs Hn), Hc. destruct (N.eqb_spec c 0); [discriminate|]. destruct (N.ltb_spec 0 c); [reflexivity | lia].
Qed.
Lemma pre_addr_wf a : pre_addr a = true -> has_nul (a_no a) = false -> wf_addr a = true.
Proof.
  unfold pre_addr, wf_addr. intros H Hn. apply andb_true_iff in H. destruct H as [H Ho]. now rewrite H, (octets_no_nul _ Ho Hn).
Qed.
Lemma forallb_strengthen {A} (P Q R : A -> bool) l :
  (forall x, P x = true -> Q x = false -> R x = true) -> forallb P l = true -> existsb Q l = false -> forallb R l = true.
Proof.
  intros H. induction l as [|x l IH]; [reflexivity|]. cbn [forallb existsb]. intros Hp Hq.
  apply andb_true_iff in Hp. destruct Hp as [Hx Hl]. apply orb_false_iff in Hq. destruct Hq as [Hqx Hql].
  now rewrite (H x Hx Hqx), (IH Hl Hql).
Qed.

Lemma pre_field_wf lay u k v b : pre_field lay u k v = true -> enc_field lay u k v = Ok b -> wf_field lay u k v = true.
Proof.
  destruct k, v; cbn [pre_field enc_field wf_field]; try discriminate; intros Hp He; try exact Hp.
  - destruct (has_nul s) eqn:En; [discriminate|]. now apply octets_no_nul.
  - change (wf_esm e) with (esm_fits e). destruct (esm_fits e); [reflexivity | discriminate].
  - change (wf_regdel r) with (regdel_fits r). destruct (regdel_fits r); [reflexivity | discriminate].
  - destruct (has_nul (a_no a)) eqn:En; [discriminate|]. now apply pre_addr_wf.
  - apply andb_true_iff in Hp. destruct Hp as [Hs Hd]. unfold enc_dests in He.
    destruct (255 <? _); [discriminate|].
    destruct (existsb (fun a => has_nul (a_no a)) sme || existsb has_nul dl) eqn:En; [discriminate|].
    apply orb_false_iff in En. destruct En as [En1 En2].
    rewrite (forallb_strengthen pre_addr (fun a => has_nul (a_no a)) wf_addr sme pre_addr_wf Hs En1).
    rewrite (forallb_strengthen octetsb has_nul nulfree dl octets_no_nul Hd En2). reflexivity.
  - unfold enc_unsucc in He. destruct (255 <? _); [discriminate|].
    destruct (existsb (fun e => has_nul (a_no (fst e))) l) eqn:En; [discriminate|].
    apply (forallb_strengthen (fun e => pre_addr (fst e) && (snd e <? 4294967296)) (fun e => has_nul (a_no (fst e))) _ l); [|exact Hp | exact En].
    intros e H1 H2. apply andb_true_iff in H1. destruct H1 as [H1 H3]. now rewrite (pre_addr_wf (fst e) H1 H2), H3.
  - (* short message: the only gap is the UDH element length, which enc_udh checks *)
    unfold pre_short in Hp. unfold wf_short. apply andb_true_iff in Hp. destruct Hp as [Hp Hrest]. rewrite Hp. cbn [andb].
    destruct (l_replace lay) eqn:Erep; [exact Hrest|].
    apply andb_true_iff in Hrest. destruct Hrest as [Hdc Hu]. rewrite Hdc. cbn [andb].
    destruct (sm_udh m) as [uh|] eqn:Eudh; [|exact Hu].
    apply andb_true_iff in Hu. destruct Hu as [Hact Hpu]. rewrite Hact. cbn [andb].
    apply andb_true_iff in Hpu. destruct Hpu as [Hs Hie].
    unfold prepare in He. rewrite Erep, Eudh in He. unfold enc_short in He.
    destruct (MaxShortMessageLength <? len (sm_msg m)); [discriminate|]. rewrite Eudh in He.
    destruct (enc_udh uh) as [ub| |] eqn:Eu; cbn [obind] in He; try discriminate.
    unfold enc_udh in Eu. rewrite (kv_sort_sorted uh Hs) in Eu.
    destruct (existsb (fun e => 255 <? len (snd e)) uh) eqn:Eov; [discriminate|].
    unfold wf_udh. rewrite Hs. cbn [andb].
    apply (forallb_strengthen pre_ie (fun e => 255 <? len (snd e)) _ uh); [|exact Hie | exact Eov].
    intros e H1 H2. unfold pre_ie in H1. apply andb_true_iff in H1. destruct H1 as [H1 H3]. rewrite H1, H3.
    destruct (N.leb_spec (len (snd e)) 255); [reflexivity|]. destruct (N.ltb_spec 255 (len (snd e))); [discriminate | lia].
Qed.

Lemma pre_fields_wf lay u ks : forall vs b, pre_fields lay u ks vs = true -> enc_fields lay u ks vs = Ok b -> wf_fields lay u ks vs = true.
Proof.
  induction ks as [|k ks IH]; intros [|v vs] b Hp He; try discriminate; [reflexivity|].
  cbn [pre_fields] in Hp. apply andb_true_iff in Hp. destruct Hp as [Hv Hvs]. cbn [enc_fields] in He.
  destruct (enc_field lay u k v) as [b1| |] eqn:E1; cbn [obind] in He; try discriminate.
  destruct (enc_fields lay u ks vs) as [b2| |] eqn:E2; cbn [obind] in He; try discriminate.
  cbn [wf_fields]. now rewrite (pre_field_wf lay u k v b1 Hv E1), (IH vs b2 Hvs E2).
Qed.

(* a flag sub-field wider than its bit field (esm_class mode > 3, type > 15; registered_delivery receipt / ack > 3,
   reserved > 7) cannot be expressed: the field encoder reports an error, whatever the rest of the PDU is *)
Lemma flag_width_refused lay u :
  (forall e, esm_fits e = false -> enc_field lay u FEsm (VEsm e) = Err ESize) /\
  (forall r, regdel_fits r = false -> enc_field lay u FRegDel (VRegDel r) = Err ESize).
Proof. split; intros x H; cbn [enc_field]; rewrite H; reflexivity. Qed.

(* C02, last sentence: whatever Marshal accepts it states faithfully *)
Theorem marshal_ok_expressible lay h vs f :
  match l_fields lay with FHeader :: ks => pre_fields lay (udhi_of vs) ks vs = true | _ => False end ->
  h_status h = 0 -> (h_seq h < 2147483648)%Z ->
  marshal lay (VHeader h :: vs) = Ok f -> wf_vals lay (VHeader h :: vs).
Proof.
  unfold marshal, wf_vals. destruct (l_fields lay) as [|k ks]; [contradiction|]. destruct k; try contradiction.
  intros Hp Hst Hsq. destruct (Z.leb_spec (h_seq h) 0); [discriminate|]. rewrite Hst. cbn [N.eqb negb].
  destruct (enc_fields lay (udhi_of vs) ks vs) as [body| |] eqn:Eb; cbn [obind]; try discriminate.
  intros _. split; [lia|]. split; [reflexivity|]. eapply pre_fields_wf; eassumption.
Qed.

(* --------------------------------------- the generated table against the specification *)
From V Require Import Gen.PduLayouts.

Definition is_conform (v : verdict) : bool := match v with Conforms | ExtraTlvs => true | _ => false end.

(* every registered layout conforms to its SMPP v5 table, except query_sm_resp, whose
   error_code octet (table 4-33) is missing (finding D5); the operations with "ExtraTlvs"
   (enquire_link, generic_nack: header-only in the specification) additionally tolerate TLVs *)
Lemma layouts_conform :
  forall l, In l layouts ->
    if l_id l =? 2147483651 then conformance l = MissingParams [PInt1] else is_conform (conformance l) = true.
Proof.
  assert (H : forallb (fun l => if l_id l =? 2147483651
                                then match conformance l with MissingParams [PInt1] => true | _ => false end
                                else is_conform (conformance l)) layouts = true) by (vm_compute; reflexivity).
  rewrite forallb_forall in H. intros l Hl. specialize (H l Hl).
  destruct (l_id l =? 2147483651); [|exact H].
  destruct (conformance l) as [| |sp| |]; try discriminate. destruct sp as [|p sp]; try discriminate.
  destruct p; try discriminate. destruct sp; [reflexivity | discriminate].
Qed.

(* names: the Go field names, translated to the specification's parameter names by the
   dictionary in harness/gen_names.go ("?" = a Go name the dictionary does not know: wildcard) *)
Definition name_ok (code spec : string) : bool := String.eqb code "?" || String.eqb code spec.
Fixpoint names_ok (code spec : list string) : bool :=
  match code, spec with
  | [], _ => true                      (* missing trailing parameters are judged by [conformance] *)
  | c :: code', s :: spec' => name_ok c s && names_ok code' spec'
  | _ :: _, [] => forallb (fun c => String.eqb c "tlvs" || String.eqb c "?") code
  end.
Definition names_conform (row : N * list string) : bool :=
  match find_op smpp5_ops (fst row) with
  | Some o => names_ok (snd row) (map fst (snd o))
  | None => false
  end.
Lemma names_all_conform : forallb names_conform field_names = true /\ map fst field_names = map l_id layouts.
Proof. split; vm_compute; reflexivity. Qed.

(* ------------------------------------------------- whole PDUs with the TLVs in any order *)
Definition is_tags (k : fkind) : bool := match k with FTags => true | _ => false end.

(* the walk over a TLV-free prefix of the field list, with arbitrary octets behind it *)
Lemma fields_roundtrip_tail lay ks2 tail : forall ks vs seen u_enc u_dec b,
  existsb is_tags ks = false ->
  ctx_ok (l_has_esm lay) (l_replace lay) seen ks = true ->
  (seen = true -> u_dec = u_enc) ->
  (seen = false -> u_enc = udhi_of vs) ->
  wf_fields lay u_enc ks vs = true ->
  enc_fields lay u_enc ks vs = Ok b ->
  exists u', dec_fields lay (ks ++ ks2) (b ++ tail) u_dec
             = obind (dec_fields lay ks2 tail u') (fun vs2 => Ok (map norm_val vs ++ vs2)).
Proof.
  induction ks as [|k ks IH]; intros [|v vs] seen u_enc u_dec b Ht Hctx Hseen Hnot Hw He; try discriminate.
  - apply Ok_inj in He. subst b. exists u_dec. cbn [app map]. destruct (dec_fields lay ks2 tail u_dec); reflexivity.
  - cbn [existsb] in Ht. apply orb_false_iff in Ht. destruct Ht as [Htk Ht].
    cbn [wf_fields] in Hw. apply andb_true_iff in Hw. destruct Hw as [Hv Hvs].
    cbn [enc_fields] in He.
    destruct (enc_field lay u_enc k v) as [b1| |] eqn:E1; cbn [obind] in He; try discriminate.
    destruct (enc_fields lay u_enc ks vs) as [b2| |] eqn:E2; cbn [obind] in He; try discriminate.
    apply Ok_inj in He. subst b. rewrite <- app_assoc. cbn [app dec_fields map].
    assert (Hcont : forall seen' ud, ctx_ok (l_has_esm lay) (l_replace lay) seen' ks = true ->
                    (seen' = true -> ud = u_enc) -> (seen' = false -> u_enc = udhi_of vs) ->
                    exists u', dec_fields lay (ks ++ ks2) (b2 ++ tail) ud
                               = obind (dec_fields lay ks2 tail u') (fun vs2 => Ok (map norm_val vs ++ vs2))).
    { intros seen' ud C1 C2 C3. eapply IH; eassumption. }
    assert (Hfin : forall ud v', (exists u', dec_fields lay (ks ++ ks2) (b2 ++ tail) ud
                               = obind (dec_fields lay ks2 tail u') (fun vs2 => Ok (map norm_val vs ++ vs2))) ->
              exists u', obind (dec_fields lay (ks ++ ks2) (b2 ++ tail) ud) (fun vs0 => Ok (v' :: vs0))
                         = obind (dec_fields lay ks2 tail u') (fun vs2 => Ok (v' :: map norm_val vs ++ vs2))).
    { intros ud v' [u' E]. exists u'. rewrite E. destruct (dec_fields lay ks2 tail u'); reflexivity. }
    assert (Hsame : seen = false -> u_enc = udhi_of vs -> True) by trivial.
    destruct k, v; cbn [wf_field] in Hv; try discriminate; cbn [enc_field] in E1; cbn [ctx_ok] in Hctx; try discriminate;
      cbn [is_tags] in Htk; try discriminate.
    + rewrite (nulfree_no_nul _ Hv) in E1. apply Ok_inj in E1. subst b1. cbn [dec_field]. rewrite (dec_cstr_enc _ _ Hv). cbn [obind norm_val].
      apply Hfin. apply (Hcont seen u_dec Hctx Hseen). intros Hs. rewrite (Hnot Hs). reflexivity.
    + apply Ok_inj in E1. subst b1. cbn [dec_field app dec_u8 obind norm_val].
      apply Hfin. apply (Hcont seen u_dec Hctx Hseen). intros Hs. rewrite (Hnot Hs). reflexivity.
    + apply Ok_inj in E1. subst b1. unfold enc_bool. cbn [dec_field app dec_u8 obind norm_val]. rewrite nb_eqb1.
      apply Hfin. apply (Hcont seen u_dec Hctx Hseen). intros Hs. rewrite (Hnot Hs). reflexivity.
    + change (esm_fits e) with (wf_esm e) in E1; rewrite Hv in E1. apply Ok_inj in E1. subst b1. cbn [dec_field app dec_u8 obind norm_val]. rewrite (wf_esm_roundtrip e Hv).
      apply andb_true_iff in Hctx. destruct Hctx as [Hns Hctx]. apply negb_true_iff in Hns.
      pose proof (Hnot Hns) as Hu. rewrite udhi_of_cons in Hu.
      rewrite (esm_free_udhi lay u_enc ks vs (ctx_ok_seen_esm_free _ _ _ Hctx) Hvs), orb_false_r in Hu.
      apply Hfin. apply (Hcont true (e_udhi e) Hctx); [intros _; congruence | discriminate].
    + change (regdel_fits r) with (wf_regdel r) in E1; rewrite Hv in E1. apply Ok_inj in E1. subst b1. cbn [dec_field app dec_u8 obind norm_val]. rewrite (wf_regdel_roundtrip r Hv).
      apply Hfin. apply (Hcont seen u_dec Hctx Hseen). intros Hs. rewrite (Hnot Hs). reflexivity.
    + rewrite (wf_addr_no_nul _ Hv) in E1. apply Ok_inj in E1. subst b1. cbn [dec_field]. rewrite (dec_addr_enc _ _ Hv). cbn [obind norm_val].
      apply Hfin. apply (Hcont seen u_dec Hctx Hseen). intros Hs. rewrite (Hnot Hs). reflexivity.
    + apply andb_true_iff in Hv. destruct Hv as [Hs1 Hd1]. cbn [dec_field].
      rewrite (dec_dests_enc sme dl b1 (b2 ++ tail) Hs1 Hd1 E1). cbn [obind norm_val].
      apply Hfin. apply (Hcont seen u_dec Hctx Hseen). intros Hs. rewrite (Hnot Hs). reflexivity.
    + cbn [dec_field]. rewrite (dec_unsucc_enc l b1 (b2 ++ tail) Hv E1). cbn [obind norm_val].
      apply Hfin. apply (Hcont seen u_dec Hctx Hseen). intros Hs. rewrite (Hnot Hs). reflexivity.
    + apply andb_true_iff in Hctx. destruct Hctx as [Hsm Hctx]. cbn [dec_field].
      assert (Hb : negb (l_replace lay) && l_has_esm lay && u_dec = negb (l_replace lay) && l_has_esm lay && u_enc).
      { destruct seen; [rewrite (Hseen eq_refl); reflexivity|]. cbn [orb] in Hsm.
        apply orb_true_iff in Hsm. destruct Hsm as [Hh|Hr].
        - apply negb_true_iff in Hh. rewrite Hh. now rewrite !andb_false_r.
        - rewrite Hr. reflexivity. }
      rewrite Hb. rewrite (dec_short_enc lay u_enc m b1 (b2 ++ tail) Hv E1). cbn [obind norm_val].
      apply Hfin. apply (Hcont seen u_dec Hctx Hseen). intros Hs. rewrite (Hnot Hs). reflexivity.
    + apply Ok_inj in E1. subst b1. apply N.eqb_eq in Hv. subst v. cbn [dec_field app obind norm_val].
      apply Hfin. apply (Hcont seen u_dec Hctx Hseen). intros Hs. rewrite (Hnot Hs). reflexivity.
Qed.

Lemma enc_fields_len lay u ks : forall vs b, enc_fields lay u ks vs = Ok b -> List.length ks = List.length vs.
Proof.
  induction ks as [|k ks IH]; intros [|v vs] b; cbn [enc_fields]; try discriminate; [reflexivity|].
  destruct (enc_field lay u k v); cbn [obind]; try discriminate.
  destruct (enc_fields lay u ks vs) as [b2| |] eqn:E; cbn [obind]; try discriminate.
  intros _. cbn [List.length]. f_equal. eapply IH; exact E.
Qed.

Lemma wf_fields_app_tags lay u ks : forall vs0 t,
  wf_fields lay u (ks ++ [FTags]) (vs0 ++ [VTags t]) = true -> List.length ks = List.length vs0 ->
  wf_fields lay u ks vs0 = true /\ wf_tags t = true.
Proof.
  induction ks as [|k ks IH]; intros [|v vs0] t Hw Hlen; cbn [List.length] in Hlen; try discriminate.
  - cbn [app wf_fields wf_field] in Hw. apply andb_true_iff in Hw. split; [reflexivity | apply Hw].
  - cbn [app wf_fields] in Hw. apply andb_true_iff in Hw. destruct Hw as [Hv Hvs].
    destruct (IH vs0 t Hvs ltac:(lia)) as [H1 H2]. cbn [wf_fields]. rewrite Hv, H1. auto.
Qed.

(* C02, decoder side, full form: a frame laid out from the specification with its TLVs in ANY order
   decodes to exactly the values laid out.  [l] is the transmitted TLV list: any permutation of the
   value's TLVs. *)
Theorem spec_frame_any_tlv_order lay ks h vs0 t l body0 tlvs :
  l_fields lay = FHeader :: ks ++ [FTags] -> existsb is_tags ks = false ->
  lay_ok lay = true -> wf_vals lay (VHeader h :: vs0 ++ [VTags t]) ->
  enc_fields lay (udhi_of (vs0 ++ [VTags t])) ks vs0 = Ok body0 ->
  Permutation (filter nonempty t) l -> forallb tlv_ok l = true -> lay_all lay_tlv l = Some tlvs ->
  16 + len body0 + len tlvs <= 65536 ->
  unmarshal lay (spec_frame (l_id lay) 0 (u32_of_i32 (h_seq h)) (body0 ++ tlvs))
  = Ok (VHeader {| h_len := 16 + len body0 + len tlvs; h_id := l_id lay; h_status := 0; h_seq := h_seq h |}
        :: map norm_val vs0 ++ [VTags (filter nonempty t)]).
Proof.
  intros Hl Htf Hlay Hwf Hb0 Hperm Hok Htl Hlen.
  unfold wf_vals in Hwf. rewrite Hl in Hwf. destruct Hwf as (Hseq & Hst & Hw).
  unfold lay_ok in Hlay. rewrite Hl in Hlay. apply andb_true_iff in Hlay. destruct Hlay as [Hctx Hid].
  unfold unmarshal. rewrite Hl. unfold spec_frame. rewrite !be4_be32.
  rewrite dec_header_enc; [| rewrite len_app; lia | lia | lia | apply u32_of_i32_lt].
  cbn [obind h_status N.eqb negb]. rewrite i32_u32 by exact Hseq.
  (* split the well-formedness and the context over ks ++ [FTags] *)
  destruct (wf_fields_app_tags lay _ ks vs0 t Hw (enc_fields_len lay _ ks vs0 body0 Hb0)) as (Hw0 & Hwt).
  assert (Hctx0 : ctx_ok (l_has_esm lay) (l_replace lay) false ks = true).
  { clear -Hctx Htf. revert Hctx. generalize false. induction ks as [|k ks IH]; intros seen Hc; [reflexivity|].
    cbn [existsb] in Htf. apply orb_false_iff in Htf. destruct Htf as [Hk Hks].
    destruct k; cbn [app ctx_ok] in *; try discriminate; try (apply IH; assumption).
    - apply andb_true_iff in Hc. destruct Hc as [H1 H2]. rewrite H1. cbn [andb]. apply IH; assumption.
    - apply andb_true_iff in Hc. destruct Hc as [H1 H2]. rewrite H1. cbn [andb]. apply IH; assumption. }
  assert (Hud : udhi_of (vs0 ++ [VTags t]) = udhi_of vs0).
  { unfold udhi_of. rewrite existsb_app. cbn [existsb]. now rewrite !orb_false_r. }
  rewrite Hud in *.
  destruct (fields_roundtrip_tail lay [FTags] tlvs ks vs0 false (udhi_of vs0) false body0 Htf Hctx0) as [u' E];
    try assumption; try reflexivity; try discriminate.
  rewrite E. cbn [dec_fields dec_field].
  rewrite (dec_tags_any_order l tlvs Hok Htl). cbn [obind].
  (* the canonical form of the transmitted list is the value's (sorted) TLV list *)
  unfold wf_tags in Hwt. apply andb_true_iff in Hwt. destruct Hwt as [Hst' _].
  assert (Hk : kv_sort l = filter nonempty t).
  { rewrite <- (kv_sort_perm (filter nonempty t) l).
    - apply kv_sort_sorted. apply sorted_filter. exact Hst'.
    - (* keys of a sorted list are distinct *)
      clear -Hst'. assert (Hs : sorted_keys (filter nonempty t) = true) by (apply sorted_filter; exact Hst').
      revert Hs. generalize (filter nonempty t). intros m. induction m as [|[k v] m IH]; intros Hs; [constructor|].
      cbn [map fst]. constructor.
      + intros Hin. apply in_map_iff in Hin. destruct Hin as (e & He & Hin). cbn [sorted_keys] in Hs.
        pose proof (keys_above_in k m e Hs Hin). lia.
      + apply IH. apply (sorted_keys_tail k v m Hs).
    - exact Hperm. }
  rewrite Hk. change (slen (body0 ++ tlvs)) with (len (body0 ++ tlvs)). rewrite len_app.
  replace (16 + (len body0 + len tlvs)) with (16 + len body0 + len tlvs) by lia. reflexivity.
Qed.

(* ------------------------------------------------------------ registry completeness *)
(* The command_id registry of the running code (Gen/PduLayouts.v, dumped from pdu.types) is EXACTLY the set of
   operations of SMPP v5: both transcriptions of the specification agree, every operation is registered, nothing
   else is; ids are distinct, so the lookup by id is a bijection between the 33 layouts and the 33 operations. *)
Lemma spec_lists_agree : map (fun o : op => fst (fst o)) smpp5_ops = spec_command_ids.
Proof. vm_compute. reflexivity. Qed.
Lemma registry_is_spec : map l_id layouts = spec_command_ids.
Proof. vm_compute. reflexivity. Qed.
Lemma spec_ids_nodup : NoDup spec_command_ids.
Proof.
  assert (H : forall l : list N, (fix nd (l : list N) : bool := match l with [] => true | x :: r => negb (existsb (N.eqb x) r) && nd r end) l = true -> NoDup l).
  { induction l as [|x r IH]; intros Hl; [constructor|].
    apply andb_true_iff in Hl. destruct Hl as [Hx Hr]. constructor; [|apply IH; exact Hr].
    intros Hin. apply negb_true_iff in Hx.
    assert (existsb (N.eqb x) r = true) as E by (apply existsb_exists; exists x; split; [exact Hin | apply N.eqb_refl]).
    congruence. }
  apply H. vm_compute. reflexivity.
Qed.
Theorem registry_complete :
  map l_id layouts = spec_command_ids /\
  List.length layouts = 33%nat /\
  (forall id, In id spec_command_ids -> exists l, In l layouts /\ l_id l = id /\ find_layout layouts id = Some l) /\
  (forall l, In l layouts -> In (l_id l) spec_command_ids /\ exists o, find_op smpp5_ops (l_id l) = Some o) /\
  (forall id, ~ In id spec_command_ids -> find_layout layouts id = None).
Proof.
  split; [exact registry_is_spec|]. split; [vm_compute; reflexivity|]. split; [|split].
  - intros id Hin. rewrite <- registry_is_spec in Hin. apply in_map_iff in Hin. destruct Hin as [l [Hid Hl]].
    exists l. split; [exact Hl|]. split; [exact Hid|]. rewrite <- Hid. apply layouts_find. exact Hl.
  - intros l Hl. split; [rewrite <- registry_is_spec; apply in_map; exact Hl|].
    assert (H : forallb (fun l => match find_op smpp5_ops (l_id l) with Some _ => true | None => false end) layouts = true)
      by (vm_compute; reflexivity).
    rewrite forallb_forall in H. specialize (H l Hl). destruct (find_op smpp5_ops (l_id l)) as [o|]; [exists o; reflexivity | discriminate].
  - intros id Hn. rewrite <- registry_is_spec in Hn.
    induction layouts as [|l ls IH]; [reflexivity|]. cbn [find_layout].
    destruct (N.eqb_spec (l_id l) id) as [E|E]; [exfalso; apply Hn; left; exact E|].
    apply IH. intros Hin. apply Hn. right. exact Hin.
Qed.

(* ------------------------------------------------------------ the decoder on specification layouts, WITHOUT a Marshal hypothesis *)
(* Frames a conforming peer may send that Marshal itself never produces: a TLV with a zero-length value
   (section 4.8.1 allows length 0), and sm_length 141..255 (4.7.28: 0..255).  The theorems above reach the decoder
   only through [marshal _ _ = Ok _]; these do not. *)
Lemma spec_udh_body u : forallb wf_ie u = true ->
  List.concat (map (fun e => fst e :: slen (snd e) :: snd e) u) = enc_udh_body u.
Proof.
  intros Hw. unfold enc_udh_body. induction u as [|[k d] u IH]; [reflexivity|].
  cbn [forallb] in Hw. apply andb_true_iff in Hw. destruct Hw as [He Hr]. unfold wf_ie in He. cbn [fst snd] in He.
  apply andb_true_iff in He. destruct He as [He _]. apply andb_true_iff in He. destruct He as [_ Hl].
  cbn [map List.concat flat_map fst snd]. rewrite (IH Hr). rewrite slen_len, (N.mod_small (len d) 256) by lia. reflexivity.
Qed.

Definition tlv_ok0 (e : N * bytes) : bool := (fst e <? 65536) && (len (snd e) <? 65536) && octetsb (snd e).

Lemma dec_tags_loop_any0 l : forall fuel m b,
  forallb tlv_ok0 l = true -> lay_all lay_tlv l = Some b -> (List.length l <= fuel)%nat ->
  dec_tags_loop fuel b m = Ok (ins_all l m).
Proof.
  unfold ins_all. induction l as [|[k v] r IH]; intros fuel m b Hw Hl Hf; cbn [lay_all fold_left] in *.
  - injection Hl as <-. destruct fuel; reflexivity.
  - cbn [forallb] in Hw. apply andb_true_iff in Hw. destruct Hw as [Hkv Hr]. unfold tlv_ok0 in Hkv. cbn [fst snd] in *.
    apply andb_true_iff in Hkv. destruct Hkv as [Hkv Ho]. apply andb_true_iff in Hkv. destruct Hkv as [Hk Hlt].
    unfold lay_tlv at 1 in Hl. cbn [fst snd] in Hl. rewrite slen_len, Hk, Hlt in Hl. cbn [andb] in Hl.
    destruct (lay_all lay_tlv r) as [rb|] eqn:Er; [|discriminate]. apply Some_inj in Hl. subst b.
    destruct fuel as [|fuel]; [cbn in Hf; lia|].
    change (slen v) with (len v). rewrite (be2_be16 k), (be2_be16 (len v)).
    unfold be16. rewrite <- !app_assoc. cbn [app dec_tags_loop].
    rewrite (de16_be16 k) by lia. rewrite (de16_be16 (len v)) by lia.
    destruct (N.eqb_spec (len v) 0) as [E0|E0].
    + destruct v as [|x v]; [|rewrite len_cons in E0; lia]. cbn [app].
      apply IH; [exact Hr | reflexivity | cbn [List.length] in Hf; lia].
    + destruct (v ++ rb) as [|x xs] eqn:Evr.
      { destruct v; [cbn in E0; lia | discriminate]. }
      rewrite <- Evr. rewrite len_app. destruct (N.leb_spec (len v) (len v + len rb)); [|lia].
      rewrite len_nat. rewrite firstn_app_l, firstn_all by lia. rewrite skipn_app_l, skipn_all by lia. cbn [app].
      apply IH; [exact Hr | reflexivity | cbn [List.length] in Hf; lia].
Qed.

(* a TLV section laid out from the specification — any tags, any order, duplicates, values of 0..65535 octets —
   decodes to the map holding, per tag, the LAST value sent (an empty value included) *)
Theorem dec_tags_spec l b :
  forallb tlv_ok0 l = true -> lay_all lay_tlv l = Some b -> dec_tags b = Ok (kv_sort l).
Proof.
  intros Hw Hl. unfold dec_tags, kv_sort. fold (ins_all l []).
  apply dec_tags_loop_any0; [exact Hw | exact Hl | apply lay_all_tlv_len; exact Hl].
Qed.

(* the short-message region laid out from the specification: [data_coding] sm_default_msg_id sm_length short_message,
   short_message = user data header (when the indicator is set) followed by the message; ANY sm_length 0..255 *)
Theorem spec_short_decodes (rep : bool) (dc dflt : N) (u : option kvs) (msg rest : bytes) :
  (rep = true -> u = None) ->
  match u with Some u' => wf_udh u' = true | None => True end ->
  let o := (match u with Some u' => spec_udh u' | None => [] end) ++ msg in
  len o <= 255 ->
  dec_short rep (match u with Some _ => true | None => false end)
            ((if rep then [] else [dc]) ++ [dflt; len o] ++ o ++ rest)
  = Ok ({| sm_dflt := dflt; sm_dc := (if rep then NoCoding else dc); sm_udh := u; sm_msg := msg |}, rest).
Proof.
  intros Hrep Hwf o Hlen. subst o.
  destruct u as [u|].
  - destruct rep; [specialize (Hrep eq_refl); discriminate|].
    assert (Henc : exists b, enc_udh u = Ok b).
    { unfold enc_udh. unfold wf_udh in Hwf. apply andb_true_iff in Hwf. destruct Hwf as [Hs Hw].
      rewrite (kv_sort_sorted u Hs), (wf_udh_no_oversize u Hw). eexists. reflexivity. }
    destruct Henc as [b Hb].
    assert (Hbl : len b = len (spec_udh u)).
    { clear Hlen Hrep. unfold enc_udh in Hb. unfold wf_udh in Hwf. apply andb_true_iff in Hwf. destruct Hwf as [Hs Hw].
      rewrite (kv_sort_sorted u Hs), (wf_udh_no_oversize u Hw) in Hb. apply Ok_inj in Hb. subst b.
      unfold spec_udh. rewrite (spec_udh_body u Hw). rewrite !len_cons. reflexivity. }
    rewrite len_app in Hlen.
    assert (Hb255 : len b <= 255) by lia.
    pose proof (spec_udh_enc u b Hwf Hb Hb255) as Hsp. subst b.
    destruct (dec_udh_enc u (spec_udh u) (msg ++ rest) Hwf Hb Hb255) as [Hd Hl].
    unfold dec_short. cbn [app dec_u8 obind].
    rewrite <- app_assoc. rewrite Hd. cbn [obind]. rewrite <- Hl. rewrite len_app.
    replace ((len (spec_udh u) + len msg + 256 - len (spec_udh u) mod 256) mod 256) with (len msg) by lia.
    rewrite take_app. reflexivity.
  - cbn [app] in *. destruct rep.
    + unfold dec_short. cbn [app dec_u8 obind].
      replace ((len msg + 256 - 0 mod 256) mod 256) with (len msg) by lia.
      rewrite take_app. reflexivity.
    + unfold dec_short. cbn [app dec_u8 obind].
      replace ((len msg + 256 - 0 mod 256) mod 256) with (len msg) by lia.
      rewrite take_app. reflexivity.
Qed.

(* ------------------------------------------------------------ where the UDH indicator applies: pinned by the specification *)
(* The flags l_has_esm / l_replace of the regenerated table are OBSERVED from the running code (what ShortMessage.Prepare does for
   each type).  The specification says what they must be: for every registered type that carries a short message, Prepare follows
   an esm_class exactly when the operation has both esm_class and short_message, and drops data_coding exactly for the operation
   that has short_message without data_coding. *)
Definition is_short (k : fkind) : bool := match k with FShortMsg => true | _ => false end.
Definition udhi_flags_ok (l : layout) : bool :=
  Bool.eqb (existsb is_short (l_fields l) && l_has_esm l) (spec_has_udhi (l_id l)) &&
  Bool.eqb (l_replace l) (spec_is_replace (l_id l)) &&
  Bool.eqb (existsb is_short (l_fields l)) (match find_op0 smpp5_ops (l_id l) with Some o => op_has_short o | None => false end).
Lemma udhi_applies l : In l layouts ->
  (existsb is_short (l_fields l) && l_has_esm l) = spec_has_udhi (l_id l) /\
  l_replace l = spec_is_replace (l_id l) /\
  existsb is_short (l_fields l) = (match find_op0 smpp5_ops (l_id l) with Some o => op_has_short o | None => false end).
Proof.
  intros Hin. assert (H : forallb udhi_flags_ok layouts = true) by (vm_compute; reflexivity).
  rewrite forallb_forall in H. specialize (H l Hin). unfold udhi_flags_ok in H.
  apply andb_true_iff in H. destruct H as [H H3]. apply andb_true_iff in H. destruct H as [H1 H2].
  apply Bool.eqb_prop in H1. apply Bool.eqb_prop in H2. apply Bool.eqb_prop in H3. auto.
Qed.
Lemma spec_udhi_ops : filter spec_has_udhi spec_command_ids = [4; 5; 33] /\ filter spec_is_replace spec_command_ids = [7].
Proof. split; vm_compute; reflexivity. Qed.
