(* Theorems about the tables regenerated from the running code (Gen/Octets.v). *)
From V Require Import Model.Flags Proofs.FlagsProofs Gen.Octets.
Open Scope N_scope.

Definition esm_row_ok (row : N * (N * N * bool * bool) * N) : bool :=
  let '(b, (m, t, u, r), c) := row in
  beq_esm {| e_mode := m; e_type := t; e_udhi := u; e_reply := r |} (esm_of_byte b) && (c =? b).
Definition regdel_row_ok (row : N * (N * N * bool * N) * N) : bool :=
  let '(b, (m, s, i, r), c) := row in
  beq_regdel {| r_mc := m; r_sme := s; r_inter := i; r_rsv := r |} (regdel_of_byte b) && (c =? b).
Definition ifver_row_ok (row : N * bytes * option N) : bool :=
  let '(b, js, back) := row in
  beq_bytes js (ifver_to_json b) && beq_opt N.eqb back (Some b).

(* The table has exactly one row for each octet, in order, and each row is what
   the model computes: the running code and the model agree on all 256 values. *)
Lemma esm_table_complete : map (fun r => fst (fst r)) esm_table = all256.
Proof. vm_compute. reflexivity. Qed.
Lemma esm_table_ok : forallb esm_row_ok esm_table = true.
Proof. vm_compute. reflexivity. Qed.
Lemma regdel_table_complete : map (fun r => fst (fst r)) regdel_table = all256.
Proof. vm_compute. reflexivity. Qed.
Lemma regdel_table_ok : forallb regdel_row_ok regdel_table = true.
Proof. vm_compute. reflexivity. Qed.
Lemma ifver_table_complete : map (fun r => fst (fst r)) ifver_table = all256.
Proof. vm_compute. reflexivity. Qed.
Lemma ifver_table_ok : forallb ifver_row_ok ifver_table = true.
Proof. vm_compute. reflexivity. Qed.

Lemma esm_code_roundtrip :
  forall b f c, In (b, f, c) esm_table ->
    c = b /\ f = (e_mode (spec_esm b), e_type (spec_esm b), e_udhi (spec_esm b), e_reply (spec_esm b)).
Proof.
  intros b [[[m t] u] r] c Hin.
  assert (Hb : b < 256).
  { assert (In b all256) as H.
    { rewrite <- esm_table_complete. apply in_map_iff. exists (b, (m, t, u, r), c). auto. }
    unfold all256 in H. apply in_map_iff in H. destruct H as [k [<- Hk]]. apply in_seq in Hk. lia. }
  pose proof esm_table_ok as H. rewrite forallb_forall in H. specialize (H _ Hin).
  unfold esm_row_ok in H. apply andb_true_iff in H. destruct H as [H1 H2].
  apply N.eqb_eq in H2. apply beq_esm_eq in H1. rewrite esm_model_is_spec in H1 by exact Hb.
  split; [exact H2|]. rewrite <- H1. reflexivity.
Qed.

Lemma regdel_code_roundtrip :
  forall b f c, In (b, f, c) regdel_table ->
    c = b /\ f = (r_mc (spec_regdel b), r_sme (spec_regdel b), r_inter (spec_regdel b), r_rsv (spec_regdel b)).
Proof.
  intros b [[[m t] u] r] c Hin.
  assert (Hb : b < 256).
  { assert (In b all256) as H.
    { rewrite <- regdel_table_complete. apply in_map_iff. exists (b, (m, t, u, r), c). auto. }
    unfold all256 in H. apply in_map_iff in H. destruct H as [k [<- Hk]]. apply in_seq in Hk. lia. }
  pose proof regdel_table_ok as H. rewrite forallb_forall in H. specialize (H _ Hin).
  unfold regdel_row_ok in H. apply andb_true_iff in H. destruct H as [H1 H2].
  apply N.eqb_eq in H2. apply beq_regdel_eq in H1. rewrite regdel_model_is_spec in H1 by exact Hb.
  split; [exact H2|]. rewrite <- H1. reflexivity.
Qed.

Lemma ifver_code_roundtrip :
  forall b js back, In (b, js, back) ifver_table -> back = Some b.
Proof.
  intros b js back Hin.
  pose proof ifver_table_ok as H. rewrite forallb_forall in H. specialize (H _ Hin).
  unfold ifver_row_ok in H. apply andb_true_iff in H. destruct H as [_ H2].
  destruct back as [x|]; cbn in H2; [|discriminate]. apply N.eqb_eq in H2. congruence.
Qed.
