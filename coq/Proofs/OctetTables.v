(* Theorems about the tables regenerated from the running code (Gen/Octets.v). *)
From V Require Import Model.Flags Proofs.FlagsProofs Gen.Octets.
Open Scope N_scope.

Definition esm_row_ok (row : N * (N * N * bool * bool) * N) : bool :=
  let '(b, (m, t, u, r), c) := row in
  beq_esm {| e_mode := m; e_type := t; e_udhi := u; e_reply := r |} (esm_of_byte b) && (c =? b).
Definition regdel_row_ok (row : N * (N * N * bool * N) * N) : bool :=
  let '(b, (m, s, i, r), c) := row in
  beq_regdel {| r_mc := m; r_sme := s; r_inter := i; r_rsv := r |} (regdel_of_byte b) && (c =? b).
(* the property fixes the round trip through the JSON text, not the text itself: the row check looks at the value
   read back only (the text form "major.minor" is stated in Properties/Ext_Scalar.v, outside the property) *)
Definition ifver_row_ok (row : N * bytes * option N) : bool :=
  let '(b, js, back) := row in beq_opt N.eqb back (Some b).

(* The table has exactly one row for each octet, in order, and each row is what
   the model computes: the running code and the model agree on all 256 values. *)
Lemma esm_table_complete : map (fun r => fst (fst r)) esm_table = all256.
Proof. vm_compute. reflexivity. Qed.
Lemma esm_table_ok : forallb esm_row_ok esm_table = true.
Proof. vm_compute. reflexivity. Qed.
Lemma regdel_table_complete : map (fun r => fst (fst r)) regdel_table = all256.
Proof. vm_compute. reflexivity. Qed.
Lemma regdel_table_ok : forallb regdel_row_ok regdel_table = true.
Proof. vm_compute. reflexivity. Qed.
Lemma ifver_table_complete : map (fun r => fst (fst r)) ifver_table = all256.
Proof. vm_compute. reflexivity. Qed.
Lemma ifver_table_ok : forallb ifver_row_ok ifver_table = true.
Proof. vm_compute. reflexivity. Qed.

Lemma esm_code_roundtrip :
  forall b f c, In (b, f, c) esm_table ->
    c = b /\ f = (e_mode (spec_esm b), e_type (spec_esm b), e_udhi (spec_esm b), e_reply (spec_esm b)).
Proof.
  intros b [[[m t] u] r] c Hin.
  assert (Hb : b < 256).
  { assert (In b all256) as H.
    { rewrite <- esm_table_complete. apply in_map_iff. exists (b, (m, t, u, r), c). auto. }
    unfold all256 in H. apply in_map_iff in H. destruct H as [k [<- Hk]]. apply in_seq in Hk. lia. }
  pose proof esm_table_ok as H. rewrite forallb_forall in H. specialize (H _ Hin).
  unfold esm_row_ok in H. apply andb_true_iff in H. destruct H as [H1 H2].
  apply N.eqb_eq in H2. apply beq_esm_eq in H1. rewrite esm_model_is_spec in H1 by exact Hb.
  split; [exact H2|]. rewrite <- H1. reflexivity.
Qed.

Lemma regdel_code_roundtrip :
  forall b f c, In (b, f, c) regdel_table ->
    c = b /\ f = (r_mc (spec_regdel b), r_sme (spec_regdel b), r_inter (spec_regdel b), r_rsv (spec_regdel b)).
Proof.
  intros b [[[m t] u] r] c Hin.
  assert (Hb : b < 256).
  { assert (In b all256) as H.
    { rewrite <- regdel_table_complete. apply in_map_iff. exists (b, (m, t, u, r), c). auto. }
    unfold all256 in H. apply in_map_iff in H. destruct H as [k [<- Hk]]. apply in_seq in Hk. lia. }
  pose proof regdel_table_ok as H. rewrite forallb_forall in H. specialize (H _ Hin).
  unfold regdel_row_ok in H. apply andb_true_iff in H. destruct H as [H1 H2].
  apply N.eqb_eq in H2. apply beq_regdel_eq in H1. rewrite regdel_model_is_spec in H1 by exact Hb.
  split; [exact H2|]. rewrite <- H1. reflexivity.
Qed.

Lemma ifver_code_roundtrip :
  forall b js back, In (b, js, back) ifver_table -> back = Some b.
Proof.
  intros b js back Hin.
  pose proof ifver_table_ok as H. rewrite forallb_forall in H. specialize (H _ Hin).
  unfold ifver_row_ok in H. rename H into H2.
  destruct back as [x|]; cbn in H2; [|discriminate]. apply N.eqb_eq in H2. congruence.
Qed.

(* ---------------------------------------------------------------------------
   Receivers that already hold a value, and encode-then-decode, on the running code. *)
Definition esm_of4 (f : N * N * bool * bool) : esm := let '(m, t, u, r) := f in {| e_mode := m; e_type := t; e_udhi := u; e_reply := r |}.
Definition regdel_of4 (f : N * N * bool * N) : regdel := let '(m, s, i, r) := f in {| r_mc := m; r_sme := s; r_inter := i; r_rsv := r |}.

Definition esm_reuse_row_ok (row : (N * N * bool * bool) * N * (N * N * bool * bool)) : bool :=
  let '(prior, b, after) := row in beq_esm (esm_of4 after) (esm_write (esm_of4 prior) b) && beq_esm (esm_of4 after) (spec_esm b).
Definition regdel_reuse_row_ok (row : (N * N * bool * N) * N * (N * N * bool * N)) : bool :=
  let '(prior, b, after) := row in beq_regdel (regdel_of4 after) (regdel_write (regdel_of4 prior) b) && beq_regdel (regdel_of4 after) (spec_regdel b).
Lemma esm_reuse_table_ok : forallb esm_reuse_row_ok esm_reuse_table = true.
Proof. vm_compute. reflexivity. Qed.
Lemma regdel_reuse_table_ok : forallb regdel_reuse_row_ok regdel_reuse_table = true.
Proof. vm_compute. reflexivity. Qed.
(* the table has, for every octet, a row whose receiver held all-ones fields, one whose receiver was zero and
   one whose receiver held the complement octet *)
Definition reuse_priors (b : N) : list (N * N * bool * bool) :=
  [(255, 255, true, true); (0, 0, false, false);
   (e_mode (esm_of_byte (255 - b)), e_type (esm_of_byte (255 - b)), e_udhi (esm_of_byte (255 - b)), e_reply (esm_of_byte (255 - b)))].
Lemma esm_reuse_table_complete :
  map (fun r => (fst (fst r), snd (fst r))) esm_reuse_table = flat_map (fun b => map (fun p => (p, b)) (reuse_priors b)) all256.
Proof. vm_compute. reflexivity. Qed.
Lemma esm_reuse_code prior b after : In (prior, b, after) esm_reuse_table -> esm_of4 after = spec_esm b.
Proof.
  intros Hin. pose proof esm_reuse_table_ok as H. rewrite forallb_forall in H. specialize (H _ Hin).
  unfold esm_reuse_row_ok in H. apply andb_true_iff in H. destruct H as [_ H]. apply beq_esm_eq in H. exact H.
Qed.
Lemma regdel_reuse_code prior b after : In (prior, b, after) regdel_reuse_table -> regdel_of4 after = spec_regdel b.
Proof.
  intros Hin. pose proof regdel_reuse_table_ok as H. rewrite forallb_forall in H. specialize (H _ Hin).
  unfold regdel_reuse_row_ok in H. apply andb_true_iff in H. destruct H as [_ H]. apply beq_regdel_eq in H. exact H.
Qed.
Lemma regdel_reuse_table_octets : map (fun r => snd (fst r)) regdel_reuse_table = flat_map (fun b => [b; b; b]) all256.
Proof. vm_compute. reflexivity. Qed.

Definition esm_enc_row_ok (row : (N * N * bool * bool) * N * (N * N * bool * bool)) : bool :=
  let '(f, c, back) := row in (c =? esm_to_byte (esm_of4 f)) && (c =? spec_esm_byte (esm_of4 f)) && beq_esm (esm_of4 back) (esm_of4 f).
Definition regdel_enc_row_ok (row : (N * N * bool * N) * N * (N * N * bool * N)) : bool :=
  let '(f, c, back) := row in (c =? regdel_to_byte (regdel_of4 f)) && (c =? spec_regdel_byte (regdel_of4 f)) && beq_regdel (regdel_of4 back) (regdel_of4 f).
Lemma esm_enc_table_complete : map (fun r => esm_of4 (fst (fst r))) esm_enc_table = all_esm.
Proof. vm_compute. reflexivity. Qed.
Lemma esm_enc_table_ok : forallb esm_enc_row_ok esm_enc_table = true.
Proof. vm_compute. reflexivity. Qed.
Lemma regdel_enc_table_complete : map (fun r => regdel_of4 (fst (fst r))) regdel_enc_table = all_regdel.
Proof. vm_compute. reflexivity. Qed.
Lemma regdel_enc_table_ok : forallb regdel_enc_row_ok regdel_enc_table = true.
Proof. vm_compute. reflexivity. Qed.
Lemma esm_enc_code f c back : In (f, c, back) esm_enc_table -> c = spec_esm_byte (esm_of4 f) /\ esm_of4 back = esm_of4 f.
Proof.
  intros Hin. pose proof esm_enc_table_ok as H. rewrite forallb_forall in H. specialize (H _ Hin).
  unfold esm_enc_row_ok in H. rewrite !andb_true_iff in H. destruct H as [[_ H2] H3].
  apply N.eqb_eq in H2. apply beq_esm_eq in H3. auto.
Qed.
Lemma regdel_enc_code f c back : In (f, c, back) regdel_enc_table -> c = spec_regdel_byte (regdel_of4 f) /\ regdel_of4 back = regdel_of4 f.
Proof.
  intros Hin. pose proof regdel_enc_table_ok as H. rewrite forallb_forall in H. specialize (H _ Hin).
  unfold regdel_enc_row_ok in H. rewrite !andb_true_iff in H. destruct H as [[_ H2] H3].
  apply N.eqb_eq in H2. apply beq_regdel_eq in H3. auto.
Qed.

Definition ifver_reuse_row_ok (row : N * N * option N) : bool :=
  let '(v0, b, back) := row in beq_opt N.eqb back (Some b) && (fst (ifver_unmarshal v0 (ifver_to_json b)) =? b).
Lemma ifver_reuse_table_ok : forallb ifver_reuse_row_ok ifver_reuse_table = true.
Proof. vm_compute. reflexivity. Qed.
Lemma ifver_reuse_table_complete :
  map (fun r => (fst (fst r), snd (fst r))) ifver_reuse_table = flat_map (fun b => [(255, b); (255 - b, b); (15, b)]) all256.
Proof. vm_compute. reflexivity. Qed.
Lemma ifver_reuse_code v0 b back : In (v0, b, back) ifver_reuse_table -> back = Some b.
Proof.
  intros Hin. pose proof ifver_reuse_table_ok as H. rewrite forallb_forall in H. specialize (H _ Hin).
  unfold ifver_reuse_row_ok in H. apply andb_true_iff in H. destruct H as [H _].
  destruct back as [x|]; cbn in H; [|discriminate]. apply N.eqb_eq in H. congruence.
Qed.
