(* Lemmas about Model/Combiner.v (C10, and the combiner part of C11). *)
From V Require Import Model.Combiner Spec.CombinerSpec.
From Coq Require Import ZifyN ZifyNat ZifyBool.
Ltac Zify.zify_post_hook ::= Z.div_mod_to_equations.
Open Scope N_scope.

(* ------------------------------------------------ key equality is equality *)
Lemma beq_bytes_eq a b : beq_bytes a b = true <-> a = b.
Proof.
  revert b; induction a as [|x a IH]; intros [|y b]; cbn [beq_bytes]; split; intros H;
    try reflexivity; try discriminate.
  - apply andb_true_iff in H as [H1 H2]. apply N.eqb_eq in H1. apply IH in H2. congruence.
  - inversion H; subst. rewrite N.eqb_refl. cbn. apply IH. reflexivity.
Qed.

Lemma beq_addr_eq a b : beq_addr a b = true <-> a = b.
Proof.
  destruct a as [t1 n1 s1], b as [t2 n2 s2]. unfold beq_addr; cbn [a_ton a_npi a_no]. split; intros H.
  - apply andb_true_iff in H as [H H3]. apply andb_true_iff in H as [H1 H2].
    apply N.eqb_eq in H1, H2. apply beq_bytes_eq in H3. congruence.
  - inversion H; subst. rewrite !N.eqb_refl. cbn. apply beq_bytes_eq. reflexivity.
Qed.

Lemma beq_key_eq a b : beq_key a b = true <-> a = b.
Proof.
  destruct a as [s1 d1 r1], b as [s2 d2 r2]. unfold beq_key; cbn [k_src k_dst k_ref]. split; intros H.
  - apply andb_true_iff in H as [H H3]. apply andb_true_iff in H as [H1 H2].
    apply beq_addr_eq in H1, H2. apply N.eqb_eq in H3. congruence.
  - inversion H; subst. rewrite N.eqb_refl.
    assert (E1 : beq_addr s2 s2 = true) by (apply beq_addr_eq; reflexivity).
    assert (E2 : beq_addr d2 d2 = true) by (apply beq_addr_eq; reflexivity).
    rewrite E1, E2. reflexivity.
Qed.

Lemma beq_key_spec a b : reflect (a = b) (beq_key a b).
Proof. apply iff_reflect. symmetry. apply beq_key_eq. Qed.

(* the key separates exactly source, destination and reference *)
Lemma key_injective p c q c' :
  beq_key (key_of p c) (key_of q c') = true <->
  d_src p = d_src q /\ d_dst p = d_dst q /\ c_ref c = c_ref c'.
Proof.
  rewrite beq_key_eq. unfold key_of. split.
  - intros H. inversion H. auto.
  - intros (H1 & H2 & H3). congruence.
Qed.

(* ------------------------------------------------------ registry as a map *)
Notation lk := (lookup beq_key).
Notation rm := (remove beq_key).
Notation st := (store beq_key).

Lemma lookup_remove_same k r : lk k (rm k r) = None.
Proof.
  induction r as [|[k' l] t IH]; cbn [remove lookup]; [reflexivity|].
  destruct (beq_key_spec k k') as [E|E]; [exact IH|].
  cbn [lookup]. destruct (beq_key_spec k k'); [contradiction|exact IH].
Qed.
Lemma lookup_remove_other k k' r : k <> k' -> lk k (rm k' r) = lk k r.
Proof.
  intros H. induction r as [|[k2 l] t IH]; cbn [remove lookup]; [reflexivity|].
  destruct (beq_key_spec k' k2) as [E|E].
  - subst k2. destruct (beq_key_spec k k'); [contradiction|exact IH].
  - cbn [lookup]. destruct (beq_key_spec k k2); [reflexivity|exact IH].
Qed.
Lemma lookup_store_same k l r : lk k (st k l r) = Some l.
Proof. unfold store; cbn [lookup]. destruct (beq_key_spec k k); [reflexivity|contradiction]. Qed.
Lemma lookup_store_other k k' l r : k <> k' -> lk k (st k' l r) = lk k r.
Proof.
  intros H. unfold store; cbn [lookup]. destruct (beq_key_spec k k'); [contradiction|].
  apply lookup_remove_other; exact H.
Qed.

(* --------------------------------------------- ConcatenatedHeader is total *)
Lemma concat_of_ie0_ok d : 3 <= len d -> exists c, concat_of_ie0 d = Ok c.
Proof.
  intros H. destruct d as [|a [|b [|c d]]]; unfold len in H; cbn [List.length] in H; try lia.
  eexists. reflexivity.
Qed.
Lemma concat_of_ie8_ok d : 4 <= len d -> exists c, concat_of_ie8 d = Ok c.
Proof.
  intros H. destruct d as [|a [|b [|c [|e d]]]]; unfold len in H; cbn [List.length] in H; try lia.
  unfold concat_of_ie8.
  assert (E : (len (a :: b :: c :: e :: d) <? 2) = false).
  { unfold len; cbn [List.length]. lia. }
  rewrite E. eexists. reflexivity.
Qed.
Lemma concat_ie8_branch_ok m : exists o, concat_ie8_branch m = Ok o.
Proof.
  unfold concat_ie8_branch. destruct (kv_lookup 8 m) as [d|]; [|eexists; reflexivity].
  destruct (4 <=? len d) eqn:E; [|eexists; reflexivity].
  destruct (concat_of_ie8_ok d) as [c Hc]; [lia|]. rewrite Hc. eexists. reflexivity.
Qed.
Lemma concatenated_header_ok u : exists o, concatenated_header u = Ok o.
Proof.
  unfold concatenated_header. destruct (kv_lookup 0 (udh_map u)) as [d|]; [|apply concat_ie8_branch_ok].
  destruct (3 <=? len d) eqn:E; [|apply concat_ie8_branch_ok].
  destruct (concat_of_ie0_ok d) as [c Hc]; [lia|]. rewrite Hc. eexists. reflexivity.
Qed.
Lemma concatenated_header_hdr p : concatenated_header (d_udh p) = Ok (hdr p).
Proof. unfold hdr. destruct (concatenated_header_ok (d_udh p)) as [o Ho]. rewrite Ho. reflexivity. Qed.

(* ------------------------------------------------------------- slot arrays *)
Lemma put_pure_length i x l : List.length (put_pure i x l) = List.length l.
Proof. revert i; induction l as [|y l IH]; intros [|i]; cbn [put_pure List.length]; auto. Qed.
Lemma put_ok i x l : (i < List.length l)%nat -> put i x l = Ok (put_pure i x l).
Proof.
  revert i; induction l as [|y l IH]; intros [|i] H; cbn [List.length] in H; try lia; cbn [put put_pure]; [reflexivity|].
  rewrite IH by lia. reflexivity.
Qed.
Lemma nth_error_put_same i x l : (i < List.length l)%nat -> nth_error (put_pure i x l) i = Some (Some x).
Proof.
  revert i; induction l as [|y l IH]; intros [|i] H; cbn [List.length] in H; try lia; cbn [put_pure nth_error]; [reflexivity|].
  apply IH. lia.
Qed.
Lemma nth_error_put_other i j x l : i <> j -> nth_error (put_pure i x l) j = nth_error l j.
Proof.
  revert i j; induction l as [|y l IH]; intros [|i] [|j] H; cbn [put_pure nth_error]; try reflexivity; try contradiction.
  apply IH. congruence.
Qed.
Lemma nth_error_fresh c j o : nth_error (fresh c) j = Some o -> o = None.
Proof. unfold fresh. intros H. apply nth_error_In in H. apply repeat_spec in H. exact H. Qed.
Lemma slen_fresh c : slen (fresh c) = c_total c.
Proof. unfold slen, fresh. rewrite repeat_length. lia. Qed.

Lemma full_nth l : full l = true <-> forall j o, nth_error l j = Some o -> filled o = true.
Proof.
  unfold full. rewrite forallb_forall. split.
  - intros H j o Hj. apply H. eapply nth_error_In; eauto.
  - intros H o Hin. apply In_nth_error in Hin as [j Hj]. eauto.
Qed.
(* after [parts[i] = p] the array is full iff every other slot was filled already *)
Lemma full_put_iff i x l : (i < List.length l)%nat ->
  (full (put_pure i x l) = true <-> forall j o, nth_error l j = Some o -> j <> i -> filled o = true).
Proof.
  intros Hi. rewrite full_nth. split.
  - intros H j o Hj Hne. apply (H j). rewrite nth_error_put_other by congruence. exact Hj.
  - intros H j o Hj. destruct (Nat.eq_dec j i) as [->|Hne].
    + rewrite nth_error_put_same in Hj by exact Hi. inversion Hj. reflexivity.
    + rewrite nth_error_put_other in Hj by congruence. eauto.
Qed.

Lemma accept_spec c cur : accept c cur = true <->
  c_seq c <> 0 /\ c_seq c <= c_total c /\ c_total c = slen cur.
Proof. unfold accept. lia. Qed.
Lemma accept_ix c cur : accept c cur = true -> (slot_ix c < List.length cur)%nat.
Proof. rewrite accept_spec. unfold slot_ix, slen. lia. Qed.
Lemma slot_ix_octet c cur : accept c cur = true -> c_seq c < 256 -> c_seq c = N.of_nat (S (slot_ix c)).
Proof. rewrite accept_spec. unfold slot_ix. lia. Qed.


Lemma sstep_unfold s p c : hdr p = Some c ->
  sstep s p =
  if accept c (cur_of s c) then
    if full (put_pure (slot_ix c) p (cur_of s c)) then (None, [put_pure (slot_ix c) p (cur_of s c)])
    else (Some (put_pure (slot_ix c) p (cur_of s c)), [])
  else (s, []).
Proof. intros H. unfold sstep, cur_of. rewrite H. reflexivity. Qed.

Lemma seg_key_hdr p k : seg_key p = Some k -> exists c, hdr p = Some c /\ k = key_of p c.
Proof. unfold seg_key. destruct (hdr p) as [c|]; [|discriminate]. intros H; inversion H. eauto. Qed.
Lemma seg_key_none p : seg_key p = None <-> hdr p = None.
Proof. unfold seg_key. destruct (hdr p); split; congruence. Qed.

(* The combiner step never panics, whatever the registry holds and whatever
   the PDU carries; and it is, for the key of the arriving segment, the step
   of the single-message reference, leaving every other key untouched. *)
Lemma cstep_spec r p : exists r1 out, cstep r p = Ok (r1, out) /\
  match seg_key p with
  | None => r1 = r /\ out = [[Some p]]
  | Some k => out = snd (sstep (lk k r) p) /\
              lk k r1 = fst (sstep (lk k r) p) /\
              (forall k', k' <> k -> lk k' r1 = lk k' r)
  end.
Proof.
  unfold cstep. rewrite concatenated_header_hdr. unfold seg_key.
  destruct (hdr p) as [c|] eqn:Hh; cbn [obind]; [|eexists _, _; split; [reflexivity|split; reflexivity]].
  rewrite (sstep_unfold _ _ _ Hh). unfold cur_of.
  set (k := key_of p c). set (cur := match lk k r with Some l => l | None => fresh c end).
  destruct (accept c cur) eqn:A.
  - rewrite put_ok by (apply accept_ix; exact A). cbn [obind].
    destruct (full (put_pure (slot_ix c) p cur)) eqn:F; eexists _, _; (split; [reflexivity|]); cbn [fst snd].
    + split; [reflexivity|]. split; [apply lookup_remove_same|]. intros k' Hk. apply lookup_remove_other; exact Hk.
    + split; [reflexivity|]. split; [apply lookup_store_same|]. intros k' Hk. apply lookup_store_other; exact Hk.
  - eexists _, _; split; [reflexivity|]. cbn [fst snd]. auto.
Qed.

Lemma cstep_total r p : cstep r p <> Panic.
Proof. destruct (cstep_spec r p) as (r1 & out & H & _). rewrite H. discriminate. Qed.

Lemma cstep_plain r p : hdr p = None -> cstep r p = Ok (r, [[Some p]]).
Proof.
  intros H. destruct (cstep_spec r p) as (r1 & out & E & S).
  apply seg_key_none in H. rewrite H in S. destruct S as [-> ->]. exact E.
Qed.

Lemma crun_ok r h : exists r' outs, crun r h = Ok (r', outs) /\ List.length outs = List.length h.
Proof.
  revert r; induction h as [|p t IH]; intros r; cbn [crun]; [eexists _, _; split; reflexivity|].
  destruct (cstep_spec r p) as (r1 & o1 & E & _). rewrite E. cbn [obind].
  destruct (IH r1) as (r2 & o2 & E2 & L). rewrite E2. cbn [obind].
  eexists _, _; split; [reflexivity|]. cbn [List.length]. congruence.
Qed.
Lemma crun_total r h : crun r h <> Panic.
Proof. destruct (crun_ok r h) as (r' & outs & H & _). rewrite H. discriminate. Qed.

Lemma crun_cons r p t r' outs : crun r (p :: t) = Ok (r', outs) ->
  exists r1 o1 o2, cstep r p = Ok (r1, o1) /\ crun r1 t = Ok (r', o2) /\ outs = o1 :: o2.
Proof.
  cbn [crun]. destruct (cstep_spec r p) as (r1 & o1 & E & _). rewrite E. cbn [obind].
  destruct (crun_ok r1 t) as (r2 & o2 & E2 & _). rewrite E2. cbn [obind].
  intros H; inversion H; subst. eauto 8.
Qed.

Lemma crun_app r h1 h2 r' outs : crun r (h1 ++ h2) = Ok (r', outs) ->
  exists r1 o1 o2, crun r h1 = Ok (r1, o1) /\ crun r1 h2 = Ok (r', o2) /\ outs = o1 ++ o2.
Proof.
  revert r outs; induction h1 as [|p t IH]; intros r outs H.
  - cbn [app] in H. exists r, [], outs. cbn [crun app]. auto.
  - cbn [app] in H. apply crun_cons in H as (r1 & o1 & o2 & E1 & E2 & ->).
    apply IH in E2 as (r2 & o3 & o4 & E3 & E4 & ->).
    exists r2, (o1 :: o3), o4. cbn [crun]. rewrite E1. cbn [obind]. rewrite E3. cbn [obind]. auto.
Qed.

(* ------------------------------------------------------------- projection *)
(* Unmixed, as a theorem about all interleavings: what the combiner does for
   key k on any history — the callbacks at each step whose input carries k,
   and the state stored for k — is exactly what the single-message reference
   does on the sub-history of k.  Traffic for other keys cannot add, remove,
   reorder or delay a delivery. *)
Theorem projection k : forall h r r' outs, crun r h = Ok (r', outs) ->
  outputs_at k h outs = snd (srun (lk k r) (hist_key k h)) /\
  lk k r' = fst (srun (lk k r) (hist_key k h)).
Proof.
  induction h as [|p t IH]; intros r r' outs H.
  - cbn [crun] in H. inversion H; subst. cbn. auto.
  - apply crun_cons in H as (r1 & o1 & o2 & E1 & E2 & ->).
    destruct (cstep_spec r p) as (r1' & o1' & E1' & S). rewrite E1 in E1'. inversion E1'; subst r1' o1'. clear E1'.
    specialize (IH _ _ _ E2). destruct IH as [IH1 IH2].
    unfold outputs_at, hist_key in *. cbn [combine filter fst].
    destruct (has_key k p) eqn:HK; unfold has_key in HK.
    + destruct (seg_key p) as [k'|] eqn:Hk; [|discriminate]. apply beq_key_eq in HK. subst k'.
      destruct S as (So & Ss & Sother). cbn [map snd srun].
      destruct (sstep (lk k r) p) as [st1 so1] eqn:Es. cbn [fst snd] in *. subst o1.
      rewrite Ss in IH1, IH2.
      destruct (srun st1 (filter (has_key k) t)) as [st2 so2]. cbn [fst snd] in *.
      split; [rewrite IH1; reflexivity|exact IH2].
    + destruct (seg_key p) as [k'|] eqn:Hk.
      * destruct S as (So & Ss & Sother).
        assert (Hne : k <> k').
        { intros ->. rewrite (proj2 (beq_key_eq _ _) eq_refl) in HK. discriminate. }
        rewrite Sother in IH1, IH2 by exact Hne. auto.
      * destruct S as [-> ->]. auto.
Qed.

(* at a step whose input does not carry k, nothing is emitted for k: every
   callback of a step is "for" the arriving PDU *)
Lemma cstep_out_own r p r1 out cb : cstep r p = Ok (r1, out) -> In cb out -> In (Some p) cb.
Proof.
  intros E Hin. destruct (cstep_spec r p) as (r1' & o1' & E' & S). rewrite E in E'. inversion E'; subst r1' o1'.
  destruct (seg_key p) as [k|] eqn:Hk.
  - destruct S as (-> & _ & _). apply seg_key_hdr in Hk as (c & Hh & _).
    rewrite (sstep_unfold _ _ _ Hh) in Hin.
    destruct (accept c (cur_of (lk k r) c)) eqn:A; [|destruct Hin].
    destruct (full _) in Hin; [|destruct Hin]. cbn [snd] in Hin. destruct Hin as [<-|[]].
    eapply nth_error_In. apply nth_error_put_same. apply accept_ix; exact A.
  - destruct S as [_ ->]. destruct Hin as [<-|[]]. left; reflexivity.
Qed.

(* ------------------------------------------------------------- invariants *)


Lemma slot_ok_mono seen seen' k n i o : incl seen seen' -> slot_ok seen k n i o -> slot_ok seen' k n i o.
Proof. intros Hi. destruct o as [q|]; cbn; [|auto]. intros [H1 H2]. split; [apply Hi; exact H1|exact H2]. Qed.
Lemma st_inv_mono seen seen' k s : incl seen seen' -> st_inv seen k s -> st_inv seen' k s.
Proof.
  intros Hi. destruct s as [l|]; cbn; [|auto]. intros [H1 H2]. split; [|exact H2].
  intros i o Hn. eapply slot_ok_mono; eauto.
Qed.

Lemma cur_of_ok seen k s c : st_inv seen k s -> slots_ok seen k (cur_of s c).
Proof.
  destruct s as [l|]; cbn [st_inv cur_of]; [tauto|]. intros _ i o H. apply nth_error_fresh in H. subst o. exact I.
Qed.

Lemma put_slots_ok seen k p c cur :
  slots_ok seen k cur -> hdr p = Some c -> key_of p c = k -> c_seq c < 256 -> accept c cur = true ->
  slots_ok (p :: seen) k (put_pure (slot_ix c) p cur).
Proof.
  intros Hc Hh Hk Ho A i o Hn. rewrite put_pure_length.
  destruct (Nat.eq_dec i (slot_ix c)) as [->|Hne].
  - rewrite nth_error_put_same in Hn by (apply accept_ix; exact A). inversion Hn; subst o.
    cbn [slot_ok]. split; [left; reflexivity|]. exists c. repeat split; auto.
    + apply slot_ix_octet with (cur := cur); assumption.
    + apply accept_spec in A. unfold slen in A. tauto.
  - rewrite nth_error_put_other in Hn by congruence.
    eapply slot_ok_mono; [|apply Hc; exact Hn]. intros x Hx; right; exact Hx.
Qed.

Lemma sstep_inv seen k s p : st_inv seen k s -> seg_key p = Some k -> seq_octet p ->
  st_inv (p :: seen) k (fst (sstep s p)).
Proof.
  intros Hs Hk Ho. apply seg_key_hdr in Hk as (c & Hh & ->).
  rewrite (sstep_unfold _ _ _ Hh).
  destruct (accept c (cur_of s c)) eqn:A.
  - destruct (full _) eqn:F; cbn [fst st_inv]; [exact I|]. split; [|exact F].
    apply put_slots_ok; auto. eapply cur_of_ok; eauto.
  - cbn [fst]. eapply st_inv_mono; [|exact Hs]. intros x Hx; right; exact Hx.
Qed.

Lemma cstep_inv seen r p r1 out : registry_inv seen r -> seq_octet p -> cstep r p = Ok (r1, out) ->
  registry_inv (p :: seen) r1.
Proof.
  intros Hr Ho E k. destruct (cstep_spec r p) as (r1' & o1' & E' & S). rewrite E in E'. inversion E'; subst r1' o1'.
  assert (M : forall k0, st_inv (p :: seen) k0 (lk k0 r)).
  { intros k0. eapply st_inv_mono; [|apply Hr]. intros x Hx; right; exact Hx. }
  destruct (seg_key p) as [k'|] eqn:Hk.
  - destruct S as (_ & Ss & Sother). destruct (beq_key_spec k k') as [->|Hne].
    + rewrite Ss. apply sstep_inv; auto.
    + rewrite Sother by exact Hne. apply M.
  - destruct S as [-> _]. apply M.
Qed.

(* the registry invariant holds after every history, from the empty registry *)
Theorem registry_invariant : forall h r outs, Forall seq_octet h -> crun [] h = Ok (r, outs) ->
  registry_inv (rev h) r.
Proof.
  intros h. induction h as [|p t IH] using rev_ind; intros r outs Ho E.
  - cbn [crun] in E. inversion E; subst. intros k. cbn. exact I.
  - apply crun_app in E as (r1 & o1 & o2 & E1 & E2 & ->).
    apply Forall_app in Ho as [Ho1 Ho2]. inversion Ho2; subst.
    apply crun_cons in E2 as (r2 & o3 & o4 & E3 & E4 & ->). cbn [crun] in E4. inversion E4; subst.
    rewrite rev_app_distr. cbn [rev app]. eapply cstep_inv; eauto.
Qed.

(* --------------------------------------------- what a delivery looks like *)


Lemma last_missing_full c p cur : accept c cur = true ->
  (full (put_pure (slot_ix c) p cur) = true <-> forall j, nth_error cur j = Some None -> j = slot_ix c).
Proof.
  intros A. rewrite full_put_iff by (apply accept_ix; exact A). split.
  - intros H j Hj. destruct (Nat.eq_dec j (slot_ix c)) as [E|E]; [exact E|].
    specialize (H j None Hj E). discriminate.
  - intros H j [q|] Hj Hne; [reflexivity|]. apply H in Hj. contradiction.
Qed.

(* the reference step under the invariant: complete characterisation *)
Lemma sstep_when seen k s p c : st_inv seen k s -> hdr p = Some c -> key_of p c = k -> c_seq c < 256 ->
  (last_missing c (cur_of s c) ->
     sstep s p = (None, [put_pure (slot_ix c) p (cur_of s c)]) /\
     delivery_ok (p :: seen) k p (put_pure (slot_ix c) p (cur_of s c))) /\
  (~ last_missing c (cur_of s c) -> snd (sstep s p) = []).
Proof.
  intros Hs Hh Hk Ho. rewrite (sstep_unfold _ _ _ Hh). split.
  - intros [A L]. rewrite A. pose proof (proj2 (last_missing_full c p _ A) L) as F. rewrite F.
    split; [reflexivity|].
    assert (SO : slots_ok (p :: seen) k (put_pure (slot_ix c) p (cur_of s c))).
    { apply put_slots_ok; auto. eapply cur_of_ok; eauto. }
    split.
    + intros i o Hn. pose proof (SO i o Hn) as S1.
      rewrite full_nth in F. specialize (F i o Hn). destruct o as [q|]; [|discriminate].
      cbn [slot_ok] in S1. destruct S1 as (Hin & c' & H1 & H2 & H3 & H4). exists q, c'. auto 10.
    + exists c. split; [exact Hh|]. split.
      * apply nth_error_put_same. apply accept_ix; exact A.
      * eapply slot_ix_octet; eauto.
  - intros NL. destruct (accept c (cur_of s c)) eqn:A; [|reflexivity].
    destruct (full _) eqn:F; [|reflexivity]. exfalso. apply NL. split; [exact A|].
    apply (last_missing_full c p _ A). exact F.
Qed.

(* when the invariant holds and the array is not complete, the slot the
   last-missing segment goes to was indeed empty *)
Lemma last_missing_was_empty seen k s c : st_inv seen k s -> last_missing c (cur_of s c) ->
  nth_error (cur_of s c) (slot_ix c) = Some None.
Proof.
  intros Hs [A L]. pose proof (accept_ix _ _ A) as Hi.
  destruct (nth_error (cur_of s c) (slot_ix c)) as [[q|]|] eqn:E; [|reflexivity|apply nth_error_None in E; lia].
  exfalso.
  assert (F : full (cur_of s c) = true).
  { apply full_nth. intros j [q'|] Hj; [reflexivity|]. pose proof (L _ Hj) as Hj'. subst j. rewrite E in Hj. discriminate. }
  destruct s as [l|]; cbn [cur_of st_inv] in *.
  - destruct Hs as [_ Hf]. congruence.
  - apply nth_error_fresh in E. discriminate.
Qed.

(* The keyed combiner, at any point of any history: complete characterisation
   of one more arrival. *)
Theorem cstep_when seen r p r1 out : registry_inv seen r -> seq_octet p -> cstep r p = Ok (r1, out) ->
  match hdr p with
  | None => out = [[Some p]] /\ r1 = r
  | Some c =>
    let k := key_of p c in
    let cur := cur_of (lk k r) c in
    (last_missing c cur ->
       out = [put_pure (slot_ix c) p cur] /\ lk k r1 = None /\
       delivery_ok (p :: seen) k p (put_pure (slot_ix c) p cur) /\
       nth_error cur (slot_ix c) = Some None) /\
    (~ last_missing c cur -> out = [])
  end.
Proof.
  intros Hr Ho E. destruct (cstep_spec r p) as (r1' & o1' & E' & S). rewrite E in E'. inversion E'; subst r1' o1'.
  unfold seg_key in S. destruct (hdr p) as [c|] eqn:Hh.
  - destruct S as (-> & Ss & _). cbv zeta.
    destruct (sstep_when seen (key_of p c) (lk (key_of p c) r) p c (Hr _) Hh eq_refl (Ho _ Hh)) as [W1 W2].
    split.
    + intros L. destruct (W1 L) as [W3 W4]. rewrite Ss, W3. cbn [fst snd]. repeat split; auto.
      * apply W4.
      * apply W4.
      * eapply last_missing_was_empty; eauto.
    + intros NL. apply W2; exact NL.
  - destruct S as [-> ->]. auto.
Qed.


Theorem deliveries_complete : forall h1 p h2 r outs, Forall seq_octet (h1 ++ p :: h2) ->
  crun [] (h1 ++ p :: h2) = Ok (r, outs) ->
  forall cb, In cb (nth (List.length h1) outs []) -> callback_ok (p :: rev h1) p cb.
Proof.
  intros h1 p h2 r outs Ho E cb Hin.
  apply crun_app in E as (r1 & o1 & o2 & E1 & E2 & ->).
  apply crun_cons in E2 as (r2 & o3 & o4 & E3 & E4 & ->).
  destruct (crun_ok [] h1) as (r1' & o1' & E1' & L). rewrite E1 in E1'. inversion E1'; subst r1' o1'.
  rewrite app_nth2 in Hin by lia. rewrite L, Nat.sub_diag in Hin. cbn [nth] in Hin.
  apply Forall_app in Ho as [Ho1 Ho2]. inversion Ho2; subst.
  pose proof (registry_invariant _ _ _ Ho1 E1) as Hr.
  pose proof (cstep_when _ _ _ _ _ Hr H1 E3) as W. unfold callback_ok.
  destruct (hdr p) as [c|] eqn:Hh.
  - right. exists c. split; [reflexivity|]. cbv zeta in W. destruct W as [W1 W2].
    set (cur := cur_of (lk (key_of p c) r1) c) in *.
    destruct (accept c cur) eqn:A.
    + destruct (full (put_pure (slot_ix c) p cur)) eqn:F.
      * assert (LM : last_missing c cur) by (split; [exact A|apply (last_missing_full c p _ A); exact F]).
        destruct (W1 LM) as (-> & _ & D & _). destruct Hin as [<-|[]]. exact D.
      * rewrite W2 in Hin; [destruct Hin|]. intros [_ LM]. apply (last_missing_full c p _ A) in LM. congruence.
    + rewrite W2 in Hin; [destruct Hin|]. intros [A' _]. congruence.
  - left. destruct W as [-> _]. destruct Hin as [<-|[]]. auto.
Qed.


Lemma kv_lookup_in k m d : kv_lookup k m = Some d -> exists k', In (k', d) m.
Proof.
  induction m as [|[k' v] m IH]; cbn [kv_lookup]; [discriminate|].
  destruct (k =? k').
  - intros H; inversion H; subst. exists k'. left; reflexivity.
  - intros H. destruct (IH H) as [k2 H2]. exists k2. right; exact H2.
Qed.
Lemma concat_of_ie0_seq d c : concat_of_ie0 d = Ok c -> In (c_seq c) d.
Proof.
  destruct d as [|a [|b [|e d]]]; cbn; try discriminate.
  intros H; inversion H; subst; cbn. auto.
Qed.
Lemma concat_of_ie8_seq d c : concat_of_ie8 d = Ok c -> In (c_seq c) d.
Proof.
  unfold concat_of_ie8. destruct (len d <? 2); [discriminate|].
  destruct d as [|a [|b [|e [|f d]]]]; cbn; try discriminate.
  intros H; inversion H; subst; cbn. auto.
Qed.
Lemma concat_ie8_branch_seq m c : concat_ie8_branch m = Ok (Some c) ->
  exists e, In e m /\ In (c_seq c) (snd e).
Proof.
  unfold concat_ie8_branch. destruct (kv_lookup 8 m) as [d|] eqn:L; [|discriminate].
  destruct (4 <=? len d); [|discriminate].
  destruct (concat_of_ie8 d) as [c'| |] eqn:E; cbn [obind]; try discriminate.
  intros H; inversion H; subst c'. apply kv_lookup_in in L as [k' L].
  exists (k', d). split; [exact L|]. apply concat_of_ie8_seq; exact E.
Qed.
Lemma seq_octet_of_udh p : udh_octets (d_udh p) -> seq_octet p.
Proof.
  intros Hu c Hh. pose proof (concatenated_header_hdr p) as H. rewrite Hh in H.
  assert (X : exists e, In e (udh_map (d_udh p)) /\ In (c_seq c) (snd e)).
  { unfold concatenated_header in H. destruct (kv_lookup 0 (udh_map (d_udh p))) as [d|] eqn:L.
    - destruct (3 <=? len d).
      + destruct (concat_of_ie0 d) as [c'| |] eqn:E; cbn [obind] in H; try discriminate.
        inversion H; subst c'. apply kv_lookup_in in L as [k' L].
        exists (k', d). split; [exact L|]. apply concat_of_ie0_seq; exact E.
      + apply concat_ie8_branch_seq; exact H.
    - apply concat_ie8_branch_seq; exact H. }
  destruct X as (e & He & Hs). unfold udh_octets in Hu. rewrite Forall_forall in Hu.
  specialize (Hu e He). rewrite Forall_forall in Hu. apply Hu; exact Hs.
Qed.

(* --------------------------- any arrival, at any point of any history *)
Lemma history_step h1 p h2 r outs : Forall seq_octet (h1 ++ p :: h2) ->
  crun [] (h1 ++ p :: h2) = Ok (r, outs) ->
  exists r0 o0 r1, crun [] h1 = Ok (r0, o0) /\ registry_inv (rev h1) r0 /\ seq_octet p /\
                   cstep r0 p = Ok (r1, nth (List.length h1) outs []).
Proof.
  intros Ho E.
  apply crun_app in E as (r1 & o1 & o2 & E1 & E2 & ->).
  apply crun_cons in E2 as (r2 & o3 & o4 & E3 & E4 & ->).
  destruct (crun_ok [] h1) as (r1' & o1' & E1' & L). rewrite E1 in E1'. inversion E1'; subst r1' o1'.
  rewrite app_nth2 by lia. rewrite L, Nat.sub_diag. cbn [nth].
  apply Forall_app in Ho as [Ho1 Ho2]. inversion Ho2; subst.
  exists r1, o1, r2. repeat split; auto. eapply registry_invariant; eauto.
Qed.

(* "exactly when its last missing segment arrives", for any interleaved
   history: the callbacks made at an arrival are decided by the slot array
   that the sub-history of the arriving segment's key alone has built. *)
Theorem when_on_history h1 p h2 r outs : Forall seq_octet (h1 ++ p :: h2) ->
  crun [] (h1 ++ p :: h2) = Ok (r, outs) ->
  let out := nth (List.length h1) outs [] in
  match hdr p with
  | None => out = [[Some p]]
  | Some c =>
    let k := key_of p c in
    let cur := cur_of (fst (srun None (hist_key k h1))) c in
    (last_missing c cur ->
       out = [put_pure (slot_ix c) p cur] /\
       delivery_ok (p :: rev h1) k p (put_pure (slot_ix c) p cur) /\
       nth_error cur (slot_ix c) = Some None) /\
    (~ last_missing c cur -> out = [])
  end.
Proof.
  intros Ho E. destruct (history_step _ _ _ _ _ Ho E) as (r0 & o0 & r1 & E0 & Hr & Hp & Es).
  cbv zeta. pose proof (cstep_when _ _ _ _ _ Hr Hp Es) as W.
  destruct (hdr p) as [c|] eqn:Hh; [|apply W].
  cbv zeta in W. destruct (projection (key_of p c) _ _ _ _ E0) as [_ P]. cbn [lookup] in P.
  rewrite <- P. destruct W as [W1 W2]. split; [|exact W2].
  intros L. destruct (W1 L) as (A & _ & B & C). auto.
Qed.

(* --------------------------------------------------- the code before repair *)
Definition a_ (ton npi : N) (no : bytes) : addr := {| a_ton := ton; a_npi := npi; a_no := no |}.
Definition seg8 (id : N) (src dst : addr) (ref total seq : N) : dsm :=
  {| d_id := id; d_src := src; d_dst := dst; d_udh := Some [(0, [ref; total; seq])] |}.

(* D9: destination "12" with reference 3 and destination "1" with reference 23 get one key *)
Lemma legacy_key_collision_refuted :
  exists src d1 d2 r1 r2, d1 <> d2 /\ legacy_key src d1 r1 = legacy_key src d2 r2.
Proof.
  exists (a_ 1 1 (hx "313030")), (a_ 1 1 (hx "3132")), (a_ 1 1 (hx "31")), 3, 23.
  split; [discriminate|]. vm_compute. reflexivity.
Qed.
(* ... and segments of the two messages are then delivered together *)
Definition d9_history : list dsm :=
  [ seg8 1 (a_ 1 1 (hx "313030")) (a_ 1 1 (hx "3132")) 3 2 1;
    seg8 2 (a_ 1 1 (hx "313030")) (a_ 1 1 (hx "31")) 23 2 2 ].
Lemma legacy_mixed_delivery_refuted :
  exists h outs r cb q1 q2, crun_legacy [] h = Ok (r, outs) /\ In cb (List.concat outs) /\
    In (Some q1) cb /\ In (Some q2) cb /\ d_dst q1 <> d_dst q2.
Proof.
  exists d9_history. eexists _, _, _, (nth 0 d9_history (seg8 0 (a_ 0 0 []) (a_ 0 0 []) 0 0 0)),
    (nth 1 d9_history (seg8 0 (a_ 0 0 []) (a_ 0 0 []) 0 0 0)).
  split; [vm_compute; reflexivity|]. cbn. split; [left; reflexivity|].
  split; [left; reflexivity|]. split; [right; left; reflexivity|]. discriminate.
Qed.
(* the repaired combiner keeps them apart: nothing is delivered on that history *)
Lemma d9_history_fixed : run_ids d9_history = Ok [[]; []].
Proof. vm_compute. reflexivity. Qed.

(* D8: sequence 0, sequence above the total, a later segment with a larger total *)
Lemma legacy_combiner_panics_refuted :
  exists h1 h2 h3, crun_legacy [] h1 = Panic /\ crun_legacy [] h2 = Panic /\ crun_legacy [] h3 = Panic.
Proof.
  exists [seg8 1 (a_ 0 0 []) (a_ 0 0 []) 7 2 0], [seg8 1 (a_ 0 0 []) (a_ 0 0 []) 7 2 3],
         [seg8 1 (a_ 0 0 []) (a_ 0 0 []) 7 2 1; seg8 2 (a_ 0 0 []) (a_ 0 0 []) 7 3 3].
  repeat split; vm_compute; reflexivity.
Qed.
(* D8: a later segment announcing a smaller total makes the completion count
   succeed early: an incomplete message (nil slots) is delivered *)
Lemma legacy_incomplete_delivery_refuted :
  exists h r outs cb, crun_legacy [] h = Ok (r, outs) /\ In cb (List.concat outs) /\ In None cb.
Proof.
  exists [seg8 1 (a_ 0 0 []) (a_ 0 0 []) 7 3 1; seg8 2 (a_ 0 0 []) (a_ 0 0 []) 7 1 1].
  eexists _, _, _. split; [vm_compute; reflexivity|]. cbn. split; [left; reflexivity|]. right; left; reflexivity.
Qed.
(* D7: ConcatenatedHeader on an element shorter than its format *)
Lemma concatenated_header_legacy_refuted :
  exists u1 u2, concatenated_header_legacy u1 = Panic /\ concatenated_header_legacy u2 = Panic.
Proof. exists (Some [(0, [1; 2])]), (Some [(8, [0; 1; 2])]). split; vm_compute; reflexivity. Qed.

(* --------------------------------------------------------- non-vacuity *)
(* three messages interleaved, with a duplicate, a malformed segment and a plain PDU *)
Definition ex_history : list dsm :=
  let s := a_ 1 1 (hx "313030") in
  [ seg8 1 s (a_ 1 1 (hx "3132")) 3 2 2;          (* A part 2 *)
    seg8 2 s (a_ 1 1 (hx "31")) 23 2 1;           (* B part 1 *)
    {| d_id := 3; d_src := s; d_dst := s; d_udh := None |};   (* plain *)
    seg8 4 s (a_ 1 1 (hx "3132")) 3 2 2;          (* A part 2 again: overwrites *)
    seg8 5 s (a_ 1 1 (hx "3132")) 3 2 0;          (* malformed: ignored *)
    seg8 6 s (a_ 1 1 (hx "3132")) 3 2 1;          (* A part 1: completes A *)
    seg8 7 s (a_ 1 1 (hx "31")) 23 2 2 ].         (* B part 2: completes B *)
Lemma ex_history_trace : run_ids ex_history = Ok [[]; []; [[3]]; []; []; [[6; 4]]; [[2; 7]]].
Proof. vm_compute. reflexivity. Qed.
Lemma ex_history_octets : Forall seq_octet ex_history.
Proof. repeat constructor; apply seq_octet_of_udh; vm_compute; repeat constructor. Qed.
