(* The transform.Transformer contract of the two gsm7bit transformers
   (Model/Gsm7.v: enc_xf, enc_xfb, dec_xf): for EVERY prior content of the
   destination, every destination size, atEOF true and false -
   no panic; on success nSrc = len(src), nDst = octets claimed, the octets are
   what Bytes returns and do not depend on the destination; on ErrShortDst /
   ErrShortSrc / an invalid input nothing is claimed and the destination is
   untouched.  Plus the UTF-8 layer of the encoder's source. *)
From V Require Import Model.Base Model.Gsm7 Proofs.Gsm7Bits Proofs.Gsm7Proofs.
From Coq Require Import ZifyN ZifyNat ZifyBool Arith.
Ltac Zify.zify_post_hook ::= Z.div_mod_to_equations.
Open Scope nat_scope.
Local Notation length := List.length.
Local Notation concat := List.concat.

Lemma Ok_inj {A} (a b : A) : Ok a = Ok b -> a = b.
Proof. now intros [= ->]. Qed.

(* ---------------------------------------------------------------- bits of a concatenation *)
Lemma get_bit_app a b q :
  get_bit (a ++ b) q = if q / 8 <? length a then get_bit a q else get_bit b (q - 8 * length a).
Proof.
  unfold get_bit. destruct (Nat.ltb_spec (q / 8) (length a)) as [L|G].
  - now rewrite app_nth1.
  - rewrite app_nth2 by exact G. f_equal; [f_equal; lia|f_equal; lia].
Qed.

Lemma octets_app a b : octets a -> octets b -> octets (a ++ b).
Proof. unfold octets. intros. apply Forall_app. now split. Qed.

Lemma octets_skipn n d : octets d -> octets (skipn n d).
Proof.
  unfold octets. intros H. apply Forall_forall. intros x Hx. rewrite Forall_forall in H. apply H.
  rewrite <- (firstn_skipn n d). apply in_or_app. now right.
Qed.

(* ---------------------------------------------------------------- packing into a cleared prefix of ANY destination *)
Lemma pack_septets_cleared n tail ss : blocks (7 * length ss) <= n -> octets tail ->
  exists d, pack_septets (repeat 0%N n ++ tail) ss = Ok d /\ length d = n + length tail /\ octets d /\
    forall q, get_bit d q =
      if q <? 8 * n then nth q (septet_bits (with_filler ss)) false else get_bit tail (q - 8 * n).
Proof.
  intros Hn Ht. rewrite pack_septets_bits. set (ss' := with_filler ss).
  assert (Hfit : 7 * length ss' <= 8 * n).
  { unfold ss'. pose proof (blocks_with_filler ss) as E. rewrite !blocks_spec in *. lia. }
  destruct (or_bits_ok (septet_bits ss') (mkp (repeat 0%N n ++ tail) 0 0)) as (st & E & W & P & L & O & B);
    [unfold wf; cbn; lia | unfold pos; cbn [p_dst p_index p_bit]; rewrite app_length, repeat_length, septet_bits_length; lia|].
  rewrite E. cbn [obind]. exists (p_dst st). cbn [p_dst] in *. rewrite app_length, repeat_length in L.
  split; [reflexivity|]. split; [exact L|]. split; [apply O, octets_app; [apply octets_zeros|exact Ht]|].
  intros q. rewrite B. unfold pos. cbn [p_index p_bit]. change (8 * 0 + 0) with 0. rewrite Nat.sub_0_r. cbn [Nat.leb Nat.add andb].
  rewrite !get_bit_app, repeat_length, septet_bits_length.
  destruct (Nat.ltb_spec q (8 * n)) as [Lq|Gq].
  - destruct (Nat.ltb_spec (q / 8) n); [|lia]. rewrite get_bit_zeros. cbn [orb].
    destruct (Nat.ltb_spec q (7 * length ss')); [reflexivity|].
    rewrite nth_overflow; [reflexivity|]. rewrite septet_bits_length. lia.
  - destruct (Nat.ltb_spec (q / 8) n); [lia|].
    destruct (Nat.ltb_spec q (7 * length ss')); [lia|]. reflexivity.
Qed.

(* ---------------------------------------------------------------- the encoder's Transform, completely *)
(* what one call returns, written with the octets Bytes returns (encode t) *)
Definition enc_xf_result (d0 : bytes) (t : list N) (srclen : nat) (ateof : bool) : xres :=
  match t with
  | [] => mkx d0 0 0 XNil
  | _ =>
      if negb ateof then mkx d0 0 0 XShortSrc else
      match encode t with
      | Ok out => if length d0 <? length out then mkx d0 0 0 XShortDst
                  else mkx (out ++ skipn (length out) d0) (length out) srclen XNil
      | _ => mkx d0 0 0 XInvalid
      end
  end.

Theorem enc_xf_contract d0 t srclen ateof : octets d0 ->
  enc_xf d0 t srclen ateof = Ok (enc_xf_result d0 t srclen ateof).
Proof.
  intros Hd. unfold enc_xf, enc_xf_result. destruct t as [|r t]; [reflexivity|].
  destruct ateof; cbn [negb]; [|reflexivity].
  set (t0 := r :: t). assert (Hne : t0 <> []) by discriminate.
  destruct (to_septets t0) as [S|e|] eqn:HS.
  - destruct (encode_layout t0 S Hne HS) as (out & E & Lout & Oout & Bout). rewrite E. rewrite <- Lout.
    destruct (Nat.ltb_spec (length d0) (length out)) as [Lt|Ge]; [reflexivity|].
    unfold clear_prefix. destruct (Nat.ltb_spec (length d0) (length out)); [lia|]. cbn [obind].
    destruct (pack_septets_cleared (length out) (skipn (length out) d0) S) as (d & Ed & Ld & Od & Bd);
      [lia|now apply octets_skipn|].
    rewrite Ed. cbn [obind]. do 2 f_equal. f_equal.
    apply bytes_ext; [rewrite Ld, app_length; reflexivity|exact Od|apply octets_app; [exact Oout|now apply octets_skipn]|].
    intros q. rewrite Bd, get_bit_app.
    destruct (Nat.ltb_spec q (8 * length out)), (Nat.ltb_spec (q / 8) (length out)); try lia; [now rewrite Bout|reflexivity].
  - unfold encode. now rewrite (enc_transform_err _ _ _ HS).
  - now apply to_septets_no_panic in HS.
Qed.

(* consequences, in the words of the x/text contract *)
Corollary enc_xf_total d0 t srclen ateof : octets d0 -> enc_xf d0 t srclen ateof <> Panic.
Proof. intros H. now rewrite (enc_xf_contract _ _ _ _ H). Qed.

(* success: everything consumed, nDst octets claimed, they are the octets of Bytes whatever the
   destination held, the rest of the destination is untouched *)
Corollary enc_xf_success d0 t srclen ateof r : octets d0 ->
  enc_xf d0 t srclen ateof = Ok r -> x_err r = XNil -> t <> [] ->
  ateof = true /\ x_nsrc r = srclen /\ x_ndst r <= length d0 /\ length (x_dst r) = length d0 /\
  encode t = Ok (firstn (x_ndst r) (x_dst r)) /\ skipn (x_ndst r) (x_dst r) = skipn (x_ndst r) d0.
Proof.
  intros Hd E Hn Hne. rewrite (enc_xf_contract _ _ _ _ Hd) in E. injection E as <-.
  unfold enc_xf_result in *. destruct t as [|c t]; [congruence|]. destruct ateof; cbn [negb] in *; [|discriminate].
  destruct (encode (c :: t)) as [out| |]; try discriminate.
  destruct (Nat.ltb_spec (length d0) (length out)); [discriminate|]. cbn [x_nsrc x_ndst x_dst].
  repeat split; auto.
  - rewrite app_length, skipn_length. lia.
  - now rewrite firstn_app, firstn_all, Nat.sub_diag, app_nil_r.
  - now rewrite skipn_app, skipn_all, Nat.sub_diag.
Qed.

(* every other answer claims nothing and leaves the destination as it was *)
Corollary enc_xf_no_partial_claim d0 t srclen ateof r : octets d0 ->
  enc_xf d0 t srclen ateof = Ok r -> x_err r <> XNil -> x_ndst r = 0 /\ x_nsrc r = 0 /\ x_dst r = d0.
Proof.
  intros Hd E Hn. rewrite (enc_xf_contract _ _ _ _ Hd) in E. injection E as <-.
  unfold enc_xf_result in *. destruct t as [|c t]; [now cbn in Hn|]. destruct ateof; cbn [negb] in *; [|now repeat split].
  destruct (encode (c :: t)) as [out| |]; try now repeat split.
  destruct (Nat.ltb_spec (length d0) (length out)); [now repeat split|now cbn in Hn].
Qed.

(* ErrShortDst exactly when the destination is smaller than the output; ErrShortSrc exactly when
   a non-empty source comes without atEOF *)
Corollary enc_xf_short d0 t srclen ateof r : octets d0 -> enc_xf d0 t srclen ateof = Ok r ->
  (x_err r = XShortDst <-> t <> [] /\ ateof = true /\ exists out, encode t = Ok out /\ length d0 < length out) /\
  (x_err r = XShortSrc <-> t <> [] /\ ateof = false).
Proof.
  intros Hd E. rewrite (enc_xf_contract _ _ _ _ Hd) in E. injection E as <-.
  unfold enc_xf_result.
  assert (Hfin : forall (P Q : Prop), P -> Q -> P /\ Q) by auto.
  destruct t as [|c t]; [|destruct ateof; cbn [negb];
    [destruct (encode (c :: t)) as [out|e|] eqn:En; [destruct (Nat.ltb_spec (length d0) (length out)) as [Lt|Ge]|..]|]];
  cbn [x_err]; (split; split; intros X);
  first [ discriminate X | reflexivity
        | (destruct X as (X1 & _); congruence)
        | (destruct X as (_ & X2); discriminate X2)
        | (destruct X as (_ & X2 & _); discriminate X2)
        | (destruct X as (_ & _ & o & Eo & L); first [discriminate Eo | injection Eo as <-; lia])
        | (split; [discriminate|split; [reflexivity|exists out; split; [reflexivity|exact Lt]]])
        | (split; [discriminate|reflexivity]) ].
Qed.

(* what transform.Bytes / String / Reader / Writer+Close deliver: they end in
   Transform(dst, whole source, true); with ANY destination content the answer is the one of
   [encode], or "too small" *)
Theorem enc_value_any_destination d0 t srclen : octets d0 ->
  xf_value (enc_xf d0 t srclen true) =
    match encode t with
    | Ok out => if length d0 <? length out then Err ESize else Ok out
    | Err _ => Err EText
    | Panic => Panic
    end.
Proof.
  intros Hd. rewrite (enc_xf_contract _ _ _ _ Hd). unfold enc_xf_result, xf_value. destruct t as [|c t].
  - cbn. now destruct d0.
  - cbn [negb]. destruct (encode (c :: t)) as [out|e|] eqn:En; cbn [x_err]; try reflexivity.
    + destruct (Nat.ltb_spec (length d0) (length out)); cbn [x_err x_ndst x_dst]; [reflexivity|].
      now rewrite firstn_app, firstn_all, Nat.sub_diag, app_nil_r.
    + exfalso. now apply (encode_total (c :: t)).
Qed.

(* the zeroed destination of the older statements is one instance *)
Corollary enc_transform_is_xf dstlen t : is_ok (to_septets t) = true ->
  enc_transform dstlen t = xf_value (enc_xf (repeat 0%N dstlen) t (utf8_total t) true).
Proof.
  intros H. rewrite (enc_value_any_destination _ _ _ (octets_zeros dstlen)), repeat_length, (enc_transform_any_dst _ _ H).
  destruct (to_septets t) as [S| |] eqn:HS; try discriminate.
  destruct t as [|c t]; [cbn; now destruct dstlen|].
  destruct (encode_layout (c :: t) S) as (out & E & L & _); [discriminate|exact HS|].
  rewrite E, (needed_ok _ _ HS), L. reflexivity.
Qed.

(* ---------------------------------------------------------------- the decoder's Transform *)
Lemma utf8_bytes_app a b : utf8_bytes (a ++ b) = utf8_bytes a ++ utf8_bytes b.
Proof. unfold utf8_bytes. apply flat_map_app. Qed.

Theorem dec_xf_total d0 src ateof : exists r, dec_xf d0 src ateof = Ok r.
Proof.
  unfold dec_xf. destruct src as [|b src]; [eauto|]. destruct ateof; cbn [negb]; [|eauto].
  set (ss := unpack_septets (b :: src)).
  destruct (dec_septets ss) as [rs|e|] eqn:H.
  - destruct (length d0 <? length (utf8_bytes rs)); [eauto|]. rewrite filler_present_spec. cbn [obind]. eauto.
  - eauto.
  - exfalso. revert H. apply dec_septets_no_panic, unpack_septets_lt128.
Qed.

(* success: the whole source consumed, dst[:nDst] is the UTF-8 form of what Bytes returns
   (decode src), independent of what the destination held *)
Theorem dec_xf_success d0 src ateof r : dec_xf d0 src ateof = Ok r -> x_err r = XNil -> src <> [] ->
  ateof = true /\ x_nsrc r = length src /\ x_ndst r <= length d0 /\ length (x_dst r) = length d0 /\
  exists t, decode src = Ok t /\ firstn (x_ndst r) (x_dst r) = utf8_bytes t.
Proof.
  unfold dec_xf, decode. destruct src as [|b src]; [congruence|]. intros E Hn _.
  destruct ateof; cbn [negb] in E; [|apply Ok_inj in E; subst r; discriminate].
  set (ss := unpack_septets (b :: src)) in *.
  destruct (dec_septets ss) as [rs|e|] eqn:H; [|apply Ok_inj in E; subst r; discriminate|discriminate].
  destruct (Nat.ltb_spec (length d0) (length (utf8_bytes rs))) as [L|G]; [apply Ok_inj in E; subst r; discriminate|].
  cbn [obind]. rewrite (dec_finish_good _ _ H). rewrite filler_present_spec in E. cbn [obind] in E.
  apply Ok_inj in E. subst r. cbn [x_nsrc x_ndst x_dst]. clear Hn.
  set (f := (0 <? length ss) && Nat.eqb (length ss mod 8) 0 && (last ss 0%N =? cr)%N) in *.
  assert (Hlen : length (utf8_bytes rs ++ skipn (length (utf8_bytes rs)) d0) = length d0)
    by (rewrite app_length, skipn_length; lia).
  destruct f eqn:Ef; cbv iota.
  - (* the filler CR: the last octet of the buffer, dropped from the claim *)
    unfold f in Ef. apply andb_true_iff in Ef. destruct Ef as [Ef Ecr]. apply andb_true_iff in Ef. destruct Ef as [Epos _].
    apply N.eqb_eq in Ecr. apply Nat.ltb_lt in Epos.
    destruct (dec_septets_last_cr_n (length ss) ss rs) as (rs' & ->); auto; [intros X; rewrite X in Epos; cbn in Epos; lia|].
    assert (Eb : utf8_bytes (rs' ++ [13%N]) = utf8_bytes rs' ++ [13%N]) by (rewrite utf8_bytes_app; reflexivity).
    rewrite removelast_last. rewrite Eb in *. clear Eb. set (u := utf8_bytes rs') in *.
    assert (Lu : length (u ++ [13%N]) = length u + 1) by (rewrite app_length; reflexivity).
    rewrite Lu in *.
    split; [reflexivity|]. split; [reflexivity|]. split; [lia|]. split; [exact Hlen|].
    exists rs'. split; [reflexivity|].
    replace (length u + 1 - 1) with (length u) by lia.
    rewrite <- app_assoc. rewrite firstn_app, firstn_all, Nat.sub_diag. cbn [firstn]. apply app_nil_r.
  - split; [reflexivity|]. split; [reflexivity|]. split; [lia|]. split; [exact Hlen|].
    exists rs. split; [reflexivity|].
    rewrite firstn_app, firstn_all, Nat.sub_diag. cbn [firstn]. apply app_nil_r.
Qed.

Theorem dec_xf_no_partial_claim d0 src ateof r :
  dec_xf d0 src ateof = Ok r -> x_err r <> XNil -> x_ndst r = 0 /\ x_nsrc r = 0 /\ x_dst r = d0.
Proof.
  unfold dec_xf. destruct src as [|b src]; [intros [= <-] H; now cbn in H|].
  destruct ateof; cbn [negb]; [|intros [= <-] _; now repeat split].
  destruct (dec_septets (unpack_septets (b :: src))) as [rs|e|]; [|intros [= <-] _; now repeat split|discriminate].
  destruct (length d0 <? length (utf8_bytes rs)); [intros [= <-] _; now repeat split|].
  rewrite filler_present_spec. cbn [obind]. intros [= <-] H. now cbn in H.
Qed.

(* ErrShortDst only when the destination is smaller than the decoded buffer (text plus, when
   present, the filler CR), i.e. at most one octet more than the text needs *)
Theorem dec_xf_short d0 src ateof r : dec_xf d0 src ateof = Ok r -> x_err r = XShortDst ->
  exists t, decode src = Ok t /\ length d0 < length (utf8_bytes t) + 1.
Proof.
  unfold dec_xf, decode. destruct src as [|b src]; [intros [= <-]; discriminate|].
  destruct ateof; cbn [negb]; [|intros [= <-]; discriminate].
  set (ss := unpack_septets (b :: src)).
  destruct (dec_septets ss) as [rs|e|] eqn:H; [|intros [= <-]; discriminate|discriminate].
  destruct (Nat.ltb_spec (length d0) (length (utf8_bytes rs))) as [L|G].
  - intros _ _. cbn [obind]. rewrite (dec_finish_good _ _ H). eexists. split; [reflexivity|].
    destruct ((0 <? length ss) && Nat.eqb (length ss mod 8) 0 && (last ss 0%N =? cr)%N) eqn:Ef; [|lia].
    apply andb_true_iff in Ef. destruct Ef as [Ef Ecr]. apply andb_true_iff in Ef. destruct Ef as [Epos _].
    apply N.eqb_eq in Ecr. apply Nat.ltb_lt in Epos.
    destruct (dec_septets_last_cr_n (length ss) ss rs) as (rs' & ->); auto; [intros X; rewrite X in Epos; cbn in Epos; lia|].
    rewrite removelast_last. rewrite utf8_bytes_app, app_length in L. cbn in L. lia.
  - rewrite filler_present_spec. cbn [obind]. intros [= <-]; discriminate.
Qed.

(* ---------------------------------------------------------------- the UTF-8 layer of the encoder's source *)
(* A source the encoder does not refuse IS the UTF-8 form of the text it encodes: every octet that
   does not start a well-formed sequence becomes U+FFFD, which is not a GSM 03.38 character. *)
Lemma fffd_refused : rune_septets 0xFFFD%N = None.
Proof. reflexivity. Qed.

Lemma to_septets_rejects : forall t c, In c t -> rune_septets c = None -> is_ok (to_septets t) = false.
Proof.
  induction t as [|r t IH]; intros c Hin Hc; [destruct Hin|]. cbn [to_septets].
  destruct Hin as [->|Hin]; [now rewrite Hc|].
  destruct (rune_septets r); [|reflexivity]. specialize (IH c Hin Hc). destruct (to_septets t); cbn in *; congruence.
Qed.

Ltac boolprops :=
  repeat match goal with
  | H : (_ && _)%bool = true |- _ => apply andb_true_iff in H; destruct H
  | H : (_ <=? _)%N = true |- _ => apply N.leb_le in H
  end.

Lemma utf8_dec_faithful_n : forall n src, length src <= n -> ~ In 0xFFFD%N (utf8_dec src) ->
  utf8_bytes (utf8_dec src) = src.
Proof.
  induction n as [|n IH]; intros src Hl Hf.
  - destruct src; [reflexivity|cbn in Hl; lia].
  - destruct src as [|b0 r0]; [reflexivity|]. cbn [length] in Hl.
    cbn [utf8_dec] in *.
    destruct (N.ltb_spec b0 128) as [L0|G0].
    + cbn [utf8_bytes flat_map] in *. fold (utf8_bytes (utf8_dec r0)). rewrite IH; [|lia|intros X; apply Hf; now right].
      unfold utf8_enc. destruct (N.ltb_spec b0 128); [reflexivity|lia].
    + destruct ((0xC2 <=? b0)%N && (b0 <=? 0xDF)%N) eqn:E2.
      { destruct r0 as [|b1 r1]; [exfalso; apply Hf; now left|].
        unfold cont in *. destruct ((128 <=? b1)%N && (b1 <=? 191)%N) eqn:C1; [|exfalso; apply Hf; now left].
        cbn [utf8_bytes flat_map] in *. fold (utf8_bytes (utf8_dec r1)). cbn [length] in Hl.
        rewrite IH; [|lia|intros X; apply Hf; now right].
        boolprops. set (r := (b0 mod 32 * 64 + b1 mod 64)%N). unfold utf8_enc.
        assert (Hr : (128 <= r < 2048)%N) by (unfold r; lia).
        destruct (N.ltb_spec r 128); [lia|]. destruct (N.ltb_spec r 2048); [|lia].
        cbn [app]. f_equal; [unfold r; lia|]. f_equal. unfold r; lia. }
      destruct ((0xE0 <=? b0)%N && (b0 <=? 0xEF)%N) eqn:E3.
      { destruct r0 as [|b1 [|b2 r2]]; try (exfalso; apply Hf; now left).
        unfold cont in *.
        destruct (((if (b0 =? 224)%N then 160%N else 128%N) <=? b1)%N && (b1 <=? (if (b0 =? 237)%N then 159%N else 191%N))%N
                  && ((128 <=? b2)%N && (b2 <=? 191)%N)) eqn:C; [|exfalso; apply Hf; now left].
        cbn [utf8_bytes flat_map] in *. fold (utf8_bytes (utf8_dec r2)). cbn [length] in Hl.
        rewrite IH; [|lia|intros X; apply Hf; now right].
        assert (Hr : (128 <= b0 mod 16 * 64 * 64 + b1 mod 64 * 64 + b2 mod 64)%N /\
                     ((b0 mod 16 * 64 + b1 mod 64) * 64 + b2 mod 64 = (b0 - 224) * 4096 + (b1 - 128) * 64 + (b2 - 128))%N /\
                     (2048 <= (b0 - 224) * 4096 + (b1 - 128) * 64 + (b2 - 128) < 65536)%N /\ (224 <= b0 <= 239 /\ 128 <= b1 <= 191 /\ 128 <= b2 <= 191)%N).
        { destruct (N.eqb_spec b0 224), (N.eqb_spec b0 237); boolprops; lia. }
        destruct Hr as (_ & Er & Hr & Hb). clear C E3 E2. rewrite Er. set (r := ((b0 - 224) * 4096 + (b1 - 128) * 64 + (b2 - 128))%N) in *.
        unfold utf8_enc.
        destruct (N.ltb_spec r 128); [lia|]. destruct (N.ltb_spec r 2048); [lia|]. destruct (N.ltb_spec r 65536); [|lia].
        cbn [app]. f_equal; [unfold r; lia|]. f_equal; [unfold r; lia|]. f_equal. unfold r; lia. }
      destruct ((0xF0 <=? b0)%N && (b0 <=? 0xF4)%N) eqn:E4.
      { destruct r0 as [|b1 [|b2 [|b3 r3]]]; try (exfalso; apply Hf; now left).
        unfold cont in *.
        destruct (((if (b0 =? 240)%N then 144%N else 128%N) <=? b1)%N && (b1 <=? (if (b0 =? 244)%N then 143%N else 191%N))%N
                  && ((128 <=? b2)%N && (b2 <=? 191)%N) && ((128 <=? b3)%N && (b3 <=? 191)%N)) eqn:C; [|exfalso; apply Hf; now left].
        cbn [utf8_bytes flat_map] in *. fold (utf8_bytes (utf8_dec r3)). cbn [length] in Hl.
        rewrite IH; [|lia|intros X; apply Hf; now right].
        assert (Hr : ((((b0 mod 8 * 64 + b1 mod 64) * 64 + b2 mod 64) * 64 + b3 mod 64 =
                       (b0 - 240) * 262144 + (b1 - 128) * 4096 + (b2 - 128) * 64 + (b3 - 128))%N /\
                     (65536 <= (b0 - 240) * 262144 + (b1 - 128) * 4096 + (b2 - 128) * 64 + (b3 - 128) < 1114112)%N /\
                     (240 <= b0 <= 244 /\ 128 <= b1 <= 191 /\ 128 <= b2 <= 191 /\ 128 <= b3 <= 191)%N)).
        { destruct (N.eqb_spec b0 240), (N.eqb_spec b0 244); boolprops; lia. }
        destruct Hr as (Er & Hr & Hb). clear C E4 E3 E2. rewrite Er.
        set (r := ((b0 - 240) * 262144 + (b1 - 128) * 4096 + (b2 - 128) * 64 + (b3 - 128))%N) in *.
        unfold utf8_enc.
        destruct (N.ltb_spec r 128); [lia|]. destruct (N.ltb_spec r 2048); [lia|]. destruct (N.ltb_spec r 65536); [lia|].
        cbn [app]. f_equal; [unfold r; lia|]. f_equal; [unfold r; lia|]. f_equal; [unfold r; lia|]. f_equal. unfold r; lia. }
      exfalso. apply Hf. now left.
Qed.

Lemma utf8_dec_nonempty src : src <> [] -> utf8_dec src <> [].
Proof.
  destruct src as [|b0 r0]; [congruence|]. intros _. cbn [utf8_dec].
  destruct (b0 <? 128)%N; [discriminate|].
  destruct ((194 <=? b0)%N && (b0 <=? 223)%N); [destruct r0 as [|b1 r1]; [discriminate|destruct (cont b1); discriminate]|].
  destruct ((224 <=? b0)%N && (b0 <=? 239)%N); [destruct r0 as [|b1 [|b2 r2]]; try discriminate; match goal with |- (if ?c then _ else _) <> _ => destruct c end; discriminate|].
  destruct ((240 <=? b0)%N && (b0 <=? 244)%N); [destruct r0 as [|b1 [|b2 [|b3 r3]]]; try discriminate; match goal with |- (if ?c then _ else _) <> _ => destruct c end; discriminate|].
  discriminate.
Qed.

Theorem utf8_dec_faithful src : ~ In 0xFFFD%N (utf8_dec src) -> utf8_bytes (utf8_dec src) = src.
Proof. apply (utf8_dec_faithful_n (length src)). lia. Qed.

(* whatever the source octets: no panic; and if the encoder returns octets at all, the source was
   the UTF-8 form of a text of accepted characters and the octets are [encode] of that text *)
Theorem enc_xfb_sound d0 src r : octets d0 -> enc_xfb d0 src true = Ok r -> x_err r = XNil -> src <> [] ->
  let t := utf8_dec src in
  utf8_bytes t = src /\ Forall (fun c => rune_septets c <> None) t /\
  encode t = Ok (firstn (x_ndst r) (x_dst r)) /\ x_nsrc r = length src.
Proof.
  intros Hd E Hn Hne t. unfold enc_xfb in E. fold t in E.
  assert (Ht : t <> []) by (now apply utf8_dec_nonempty).
  destruct (enc_xf_success _ _ _ _ _ Hd E Hn Ht) as (_ & Hs & _ & _ & He & _).
  assert (Hacc : Forall (fun c => rune_septets c <> None) t).
  { apply Forall_forall. intros c Hc Hnone. pose proof (to_septets_rejects t c Hc Hnone) as K.
    rewrite <- encode_ok_iff, He in K. discriminate. }
  repeat split; auto.
  apply utf8_dec_faithful. intros Hin. rewrite Forall_forall in Hacc. apply (Hacc _ Hin). exact fffd_refused.
Qed.

Theorem enc_xfb_total d0 src ateof : octets d0 -> enc_xfb d0 src ateof <> Panic.
Proof. intros H. unfold enc_xfb. now apply enc_xf_total. Qed.

(* ---------------------------------------------------------------- any chunking of the source *)
(* A caller that follows the x/text contract (transform.Writer, Reader, String): hand over what it
   has with atEOF=false; keep everything the transformer did not consume, append the next chunk;
   at the end call with atEOF=true: [feed] in Model/Gsm7.v. *)
Lemma enc_feed_pending d0 : octets d0 -> forall chunks pending,
  feed enc_xfb d0 pending chunks = xf_value (enc_xfb d0 (pending ++ concat chunks) true).
Proof.
  intros Hd. induction chunks as [|c rest IH]; intros pending; cbn [feed concat]; [now rewrite app_nil_r|].
  unfold enc_xfb at 1. rewrite (enc_xf_contract _ _ _ _ Hd). unfold enc_xf_result. cbn [negb].
  rewrite app_assoc. destruct (utf8_dec (pending ++ c)); cbn [x_err x_ndst x_nsrc Nat.eqb andb]; apply IH.
Qed.

(* Transform called with atEOF=false on every prefix and atEOF=true at the end, over ANY chunking
   of the source, delivers what one call on the whole source delivers *)
Theorem enc_feed_any_chunking d0 chunks : octets d0 ->
  feed enc_xfb d0 [] chunks = xf_value (enc_xfb d0 (concat chunks) true).
Proof. intros Hd. apply (enc_feed_pending d0 Hd chunks []). Qed.

Lemma dec_feed_pending d0 : forall chunks pending,
  feed dec_xf d0 pending chunks = xf_value (dec_xf d0 (pending ++ concat chunks) true).
Proof.
  induction chunks as [|c rest IH]; intros pending; cbn [feed concat]; [now rewrite app_nil_r|].
  rewrite app_assoc. unfold dec_xf at 1. destruct (pending ++ c); cbn [negb x_err x_ndst x_nsrc Nat.eqb andb]; apply IH.
Qed.

Theorem dec_feed_any_chunking d0 chunks : feed dec_xf d0 [] chunks = xf_value (dec_xf d0 (concat chunks) true).
Proof. apply (dec_feed_pending d0 chunks []). Qed.

