(* Re-encoding a decoded PDU (C13): what the decoders return is well formed,
   so the round-trip theorem applies to it; Marshal ignores what ReadPDU fills
   in (length, id) and what it drops (empty TLVs); the canonical form of a map
   does not depend on the order its entries were inserted. *)
From V Require Import Model.Pdu Proofs.PduMarshalProofs Proofs.PduStreamProofs Proofs.PduRoundtripProofs Proofs.FlagsProofs.
From Coq Require Import ZifyN ZifyNat ZifyBool Permutation.
Ltac Zify.zify_post_hook ::= Z.div_mod_to_equations.
Open Scope N_scope.

(* ------------------------------------------------------- sorted maps, again *)
Lemma keys_above_weaken k k' m : k <= k' -> keys_above k' m = true -> keys_above k m = true.
Proof.
  destruct m as [|[k2 v2] r]; [reflexivity|]. cbn [keys_above]. intros Hk H.
  apply andb_true_iff in H. destruct H as [H1 H2]. apply andb_true_iff. split; [lia | exact H2].
Qed.

Lemma kv_insert_keys_above k0 k v m : k0 < k -> keys_above k0 m = true -> keys_above k0 (kv_insert k v m) = true.
Proof.
  revert k0. induction m as [|[k' v'] r IH]; intros k0 Hk Hm; cbn [kv_insert keys_above].
  - apply andb_true_iff. split; [lia | reflexivity].
  - cbn [keys_above] in Hm. apply andb_true_iff in Hm. destruct Hm as [H1 H2].
    destruct (N.ltb_spec k k').
    + cbn [keys_above]. apply andb_true_iff. split; [lia|]. apply andb_true_iff. split; [lia | exact H2].
    + destruct (N.eqb_spec k k') as [->|Hne].
      * cbn [keys_above]. apply andb_true_iff. split; [lia | exact H2].
      * cbn [keys_above]. apply andb_true_iff. split; [lia|]. apply IH; [lia | exact H2].
Qed.

Lemma kv_insert_sorted k v m : sorted_keys m = true -> sorted_keys (kv_insert k v m) = true.
Proof.
  destruct m as [|[k' v'] r]; [reflexivity|]. cbn [sorted_keys kv_insert]. intros H.
  destruct (N.ltb_spec k k').
  - cbn [sorted_keys keys_above]. apply andb_true_iff. split; [lia | exact H].
  - destruct (N.eqb_spec k k') as [->|Hne]; [exact H|].
    cbn [sorted_keys]. apply kv_insert_keys_above; [lia | exact H].
Qed.

Lemma kv_insert_forallb (P : N * bytes -> bool) k v m :
  P (k, v) = true -> forallb P m = true -> forallb P (kv_insert k v m) = true.
Proof.
  intros Hp. induction m as [|[k' v'] r IH]; cbn [kv_insert forallb]; intros H.
  - now rewrite Hp.
  - apply andb_true_iff in H. destruct H as [H1 H2].
    destruct (k <? k'); [cbn [forallb]; now rewrite Hp, H1, H2|].
    destruct (k =? k'); cbn [forallb]; [now rewrite Hp, H2|]. rewrite H1. now apply IH.
Qed.

(* ------------------------------------------------ what the decoders return *)
Definition octetsb' := octetsb.
Lemma octetsb_cons c s : octetsb (c :: s) = (c <? 256) && octetsb s. Proof. reflexivity. Qed.
Lemma octetsb_app a b : octetsb (a ++ b) = octetsb a && octetsb b.
Proof. unfold octetsb. apply forallb_app. Qed.
Lemma octetsb_firstn n s : octetsb s = true -> octetsb (firstn n s) = true.
Proof.
  revert n. induction s as [|c s IH]; intros [|n] H; try reflexivity. cbn [firstn]. rewrite octetsb_cons in *.
  apply andb_true_iff in H. destruct H as [H1 H2]. rewrite H1. now apply IH.
Qed.
Lemma octetsb_skipn n s : octetsb s = true -> octetsb (skipn n s) = true.
Proof.
  revert n. induction s as [|c s IH]; intros [|n] H; try reflexivity; try exact H. cbn [skipn]. rewrite octetsb_cons in H.
  apply andb_true_iff in H. now apply IH.
Qed.

Lemma dec_cstr_wf s v r : octetsb s = true -> dec_cstr s = Ok (v, r) -> nulfree v = true /\ octetsb r = true.
Proof.
  revert v. induction s as [|c s IH]; intros v Ho; cbn [dec_cstr]; [discriminate|].
  rewrite octetsb_cons in Ho. apply andb_true_iff in Ho. destruct Ho as [Hc Hs].
  destruct (N.eqb_spec c 0).
  - intros [= <- <-]. split; [reflexivity | exact Hs].
  - destruct (dec_cstr s) as [[v' r']| |]; try discriminate. intros [= <- <-].
    destruct (IH v' Hs eq_refl) as [H1 H2]. split; [|exact H2].
    cbn [nulfree forallb]. apply andb_true_iff. split; [|exact H1]. apply andb_true_iff. split; [lia | exact Hc].
Qed.

Lemma dec_u8_wf s c r : octetsb s = true -> dec_u8 s = Ok (c, r) -> c < 256 /\ octetsb r = true.
Proof.
  destruct s as [|x s]; [discriminate|]. rewrite octetsb_cons. intros H [= <- <-].
  apply andb_true_iff in H. destruct H. split; [lia | assumption].
Qed.

Lemma take_wf n s d r : octetsb s = true -> take n s = Ok (d, r) -> octetsb d = true /\ octetsb r = true /\ len d = n.
Proof.
  unfold take. intros Ho. destruct (N.leb_spec n (len s)); [|discriminate]. intros [= <- <-].
  split; [now apply octetsb_firstn|]. split; [now apply octetsb_skipn|].
  unfold len in *. rewrite firstn_length. lia.
Qed.

Lemma dec_addr_wf s a r : octetsb s = true -> dec_addr s = Ok (a, r) -> wf_addr a = true /\ octetsb r = true.
Proof.
  unfold dec_addr. intros Ho.
  destruct (dec_u8 s) as [[t s1]| |] eqn:E1; cbn [obind]; try discriminate. destruct (dec_u8_wf _ _ _ Ho E1) as [Ht Ho1].
  destruct (dec_u8 s1) as [[n s2]| |] eqn:E2; cbn [obind]; try discriminate. destruct (dec_u8_wf _ _ _ Ho1 E2) as [Hn Ho2].
  destruct (dec_cstr s2) as [[no s3]| |] eqn:E3; cbn [obind]; try discriminate. destruct (dec_cstr_wf _ _ _ Ho2 E3) as [Hno Ho3].
  intros [= <- <-]. split; [|exact Ho3]. unfold wf_addr. cbn [a_ton a_npi a_no].
  rewrite Hno. destruct (N.ltb_spec t 256); [|lia]. destruct (N.ltb_spec n 256); [|lia]. reflexivity.
Qed.

Lemma dec_dests_loop_wf n : forall s sme dl sme' dl' r,
  octetsb s = true -> forallb wf_addr sme = true -> forallb nulfree dl = true ->
  dec_dests_loop n s sme dl = Ok (sme', dl', r) ->
  forallb wf_addr sme' = true /\ forallb nulfree dl' = true /\ octetsb r = true.
Proof.
  induction n as [|n IH]; intros s sme dl sme' dl' r Ho Hs Hd; cbn [dec_dests_loop].
  - intros [= <- <- <-]. auto.
  - destruct s as [|c s0]; [discriminate|]. rewrite octetsb_cons in Ho. apply andb_true_iff in Ho. destruct Ho as [_ Ho].
    destruct c as [|[p|[p|p|]|]]; try discriminate.
    + destruct (dec_cstr s0) as [[d r0]| |] eqn:E; cbn [obind]; try discriminate.
      destruct (dec_cstr_wf _ _ _ Ho E) as [Hd' Ho']. apply IH; try assumption.
      rewrite forallb_app. cbn [forallb]. now rewrite Hd, Hd'.
    + destruct (dec_addr s0) as [[a r0]| |] eqn:E; cbn [obind]; try discriminate.
      destruct (dec_addr_wf _ _ _ Ho E) as [Ha Ho']. apply IH; try assumption.
      rewrite forallb_app. cbn [forallb]. now rewrite Hs, Ha.
Qed.

Lemma dec_be32_wf s c r : octetsb s = true -> dec_be32 s = Ok (c, r) -> c < 4294967296 /\ octetsb r = true.
Proof.
  unfold dec_be32. do 4 (destruct s as [|? s]; [discriminate|]). rewrite !octetsb_cons.
  intros H [= <- <-]. repeat (apply andb_true_iff in H; destruct H as [? H]). split; [unfold de32; lia | exact H].
Qed.

Lemma dec_unsucc_loop_wf n : forall s acc l r,
  octetsb s = true -> forallb wf_rec acc = true -> dec_unsucc_loop n s acc = Ok (l, r) ->
  forallb wf_rec l = true /\ octetsb r = true.
Proof.
  induction n as [|n IH]; intros s acc l r Ho Ha; cbn [dec_unsucc_loop].
  - intros [= <- <-]. auto.
  - destruct (dec_addr s) as [[a s1]| |] eqn:E1; cbn [obind]; try discriminate. destruct (dec_addr_wf _ _ _ Ho E1) as [Hwa Ho1].
    destruct (dec_be32 s1) as [[c s2]| |] eqn:E2; cbn [obind]; try discriminate. destruct (dec_be32_wf _ _ _ Ho1 E2) as [Hc Ho2].
    apply IH; [exact Ho2|]. rewrite forallb_app. cbn [forallb]. unfold wf_rec at 2. cbn [fst snd].
    rewrite Ha, Hwa. destruct (N.ltb_spec c 4294967296); [reflexivity | lia].
Qed.

Lemma dec_udh_loop_wf fuel : forall rem s m m' r,
  octetsb s = true -> sorted_keys m = true -> forallb wf_ie m = true ->
  dec_udh_loop fuel rem s m = Ok (m', r) ->
  sorted_keys m' = true /\ forallb wf_ie m' = true /\ octetsb r = true.
Proof.
  induction fuel as [|fuel IH]; intros rem s m m' r Ho Hs Hw; cbn [dec_udh_loop]; destruct (rem =? 0); try discriminate;
    try (intros [= <- <-]; auto; fail).
  destruct (dec_u8 s) as [[id s1]| |] eqn:E1; cbn [obind]; try discriminate. destruct (dec_u8_wf _ _ _ Ho E1) as [Hid Ho1].
  destruct (dec_u8 s1) as [[size s2]| |] eqn:E2; cbn [obind]; try discriminate. destruct (dec_u8_wf _ _ _ Ho1 E2) as [Hsz Ho2].
  destruct (take size s2) as [[d s3]| |] eqn:E3; cbn [obind]; try discriminate. destruct (take_wf _ _ _ _ Ho2 E3) as (Hd & Ho3 & Hl).
  apply IH; [exact Ho3 | now apply kv_insert_sorted |].
  apply kv_insert_forallb; [|exact Hw]. unfold wf_ie. cbn [fst snd]. rewrite Hd, Hl.
  destruct (N.ltb_spec id 256); [|lia]. destruct (N.leb_spec size 255); [reflexivity | lia].
Qed.

Lemma dec_tags_loop_wf fuel : forall s m m',
  octetsb s = true -> sorted_keys m = true -> forallb wf_tlv m = true ->
  dec_tags_loop fuel s m = Ok m' -> sorted_keys m' = true /\ forallb wf_tlv m' = true.
Proof.
  induction fuel as [|fuel IH]; intros s m m' Ho Hs Hw; cbn [dec_tags_loop].
  - do 4 (destruct s as [|? s]; [try discriminate; intros [= <-]; auto|]). discriminate.
  - destruct s as [|t0 s]; [intros [= <-]; auto|]. do 3 (destruct s as [|? s]; [discriminate|]).
    rewrite !octetsb_cons in Ho. repeat (apply andb_true_iff in Ho; destruct Ho as [? Ho]).
    assert (Hk : de16 t0 n < 65536) by (unfold de16; lia).
    assert (Hins : forall v, octetsb v = true -> forallb wf_tlv (kv_insert (de16 t0 n) v m) = true).
    { intros v Hv. apply kv_insert_forallb; [|exact Hw]. unfold wf_tlv. cbn [fst snd]. rewrite Hv.
      destruct (N.ltb_spec (de16 t0 n) 65536); [reflexivity | lia]. }
    destruct (_ =? 0).
    + apply IH; [exact Ho | now apply kv_insert_sorted | now apply Hins].
    + destruct s as [|x s']; [intros [= <-]; auto|].
      destruct (_ <=? _); [|discriminate].
      apply IH; [now apply octetsb_skipn | now apply kv_insert_sorted | apply Hins; now apply octetsb_firstn].
Qed.

Lemma esm_of_byte_wf c : c < 256 -> wf_esm (esm_of_byte c) = true.
Proof.
  intros H. rewrite (esm_model_is_spec c H). unfold wf_esm, spec_esm. cbn [e_mode e_type].
  destruct (N.ltb_spec (c mod 4) 4); [|lia]. destruct (N.ltb_spec ((c / 4) mod 16) 16); [reflexivity | lia].
Qed.
Lemma regdel_of_byte_wf c : c < 256 -> wf_regdel (regdel_of_byte c) = true.
Proof.
  intros H. rewrite (regdel_model_is_spec c H). unfold wf_regdel, spec_regdel. cbn [r_mc r_sme r_rsv].
  destruct (N.ltb_spec (c mod 4) 4); [|lia]. destruct (N.ltb_spec ((c / 4) mod 4) 4); [|lia].
  destruct (N.ltb_spec ((c / 32) mod 8) 8); [reflexivity | lia].
Qed.

Lemma dec_udh_wf s u r : octetsb s = true -> dec_udh s = Ok (u, r) -> wf_udh u = true /\ octetsb r = true.
Proof.
  unfold dec_udh. intros Ho.
  destruct (dec_u8 s) as [[l s1]| |] eqn:E1; cbn [obind]; try discriminate. destruct (dec_u8_wf _ _ _ Ho E1) as [_ Ho1].
  intros H. destruct (dec_udh_loop_wf _ _ _ [] _ _ Ho1 eq_refl eq_refl H) as (H1 & H2 & H3).
  split; [|exact H3]. unfold wf_udh. rewrite H1. exact H2.
Qed.

Lemma dec_short_wf lay u s m r :
  octetsb s = true ->
  dec_short (l_replace lay) (negb (l_replace lay) && l_has_esm lay && u) s = Ok (m, r) ->
  (l_replace lay = true \/ sm_dc m <> NoCoding) ->
  wf_short lay u m = true /\ octetsb r = true.
Proof.
  unfold dec_short. intros Ho.
  destruct (l_replace lay) eqn:Erep; cbn [negb andb obind].
  - destruct (dec_u8 s) as [[dflt s1]| |] eqn:E1; cbn [obind]; try discriminate. destruct (dec_u8_wf _ _ _ Ho E1) as [Hdf Ho1].
    destruct (dec_u8 s1) as [[l s2]| |] eqn:E2; cbn [obind]; try discriminate. destruct (dec_u8_wf _ _ _ Ho1 E2) as [_ Ho2].
    destruct (take _ s2) as [[msg s3]| |] eqn:E3; cbn [obind]; try discriminate. destruct (take_wf _ _ _ _ Ho2 E3) as (Hm & Ho3 & _).
    intros [= <- <-] _. split; [|exact Ho3]. unfold wf_short. cbn [sm_dflt sm_dc sm_udh sm_msg]. rewrite Erep, Hm.
    destruct (N.ltb_spec dflt 256); [reflexivity | lia].
  - destruct s as [|dc s0]; [discriminate|]. cbn [obind]. rewrite octetsb_cons in Ho. apply andb_true_iff in Ho. destruct Ho as [Hdc Ho].
    destruct (dec_u8 s0) as [[dflt s1]| |] eqn:E1; cbn [obind]; try discriminate. destruct (dec_u8_wf _ _ _ Ho E1) as [Hdf Ho1].
    destruct (dec_u8 s1) as [[l s2]| |] eqn:E2; cbn [obind]; try discriminate. destruct (dec_u8_wf _ _ _ Ho1 E2) as [_ Ho2].
    destruct (l_has_esm lay && u) eqn:Eact.
    + destruct (dec_udh s2) as [[uh s3]| |] eqn:E3; cbn [obind]; try discriminate. destruct (dec_udh_wf _ _ _ Ho2 E3) as [Hu Ho3].
      destruct (take _ s3) as [[msg s4]| |] eqn:E4; cbn [obind]; try discriminate. destruct (take_wf _ _ _ _ Ho3 E4) as (Hm & Ho4 & _).
      intros [= <- <-] Hnc. split; [|exact Ho4]. unfold wf_short. cbn [sm_dflt sm_dc sm_udh sm_msg] in *. rewrite Erep, Hm, Hu.
      destruct Hnc as [|Hnc]; [discriminate|].
      destruct (N.ltb_spec dflt 256); [|lia]. destruct (N.ltb_spec dc 256); [|lia].
      destruct (N.eqb_spec dc NoCoding); [contradiction|]. rewrite ?Eact. reflexivity.
    + cbn [obind].
      destruct (take _ s2) as [[msg s4]| |] eqn:E4; cbn [obind]; try discriminate. destruct (take_wf _ _ _ _ Ho2 E4) as (Hm & Ho4 & _).
      intros [= <- <-] Hnc. split; [|exact Ho4]. unfold wf_short. cbn [sm_dflt sm_dc sm_udh sm_msg] in *. rewrite Erep, Hm.
      destruct Hnc as [|Hnc]; [discriminate|].
      destruct (N.ltb_spec dflt 256); [|lia]. destruct (N.ltb_spec dc 256); [|lia].
      destruct (N.eqb_spec dc NoCoding); [contradiction|]. rewrite ?Eact. reflexivity.
Qed.

(* no decoded short message uses the reserved data_coding 0xBF (except replace_sm, which has no data_coding) *)
Definition no_nocoding (lay : layout) (vs : list fval) : Prop :=
  l_replace lay = true \/ forall m, In (VShort m) vs -> sm_dc m <> NoCoding.

Lemma dec_fields_esm_free lay ks : forall s u vs,
  existsb is_esm ks = false -> dec_fields lay ks s u = Ok vs -> udhi_of vs = false.
Proof.
  induction ks as [|k ks IH]; intros s u vs He; cbn [dec_fields].
  - intros [= <-]. reflexivity.
  - cbn [existsb] in He. apply orb_false_iff in He. destruct He as [Hk Hks].
    destruct (dec_field lay u k s) as [[v r]| |] eqn:E; cbn [obind]; try discriminate.
    destruct (dec_fields lay ks r _) as [vs'| |] eqn:E'; cbn [obind]; try discriminate.
    intros [= <-]. rewrite udhi_of_cons, (IH _ _ _ Hks E'), orb_false_r.
    destruct k; cbn [dec_field] in E; try discriminate; try (injection E as <- _; reflexivity).
    all: match type of E with obind ?x _ = _ => destruct x as [p| |] end; cbn [obind] in E; try discriminate.
    all: repeat match goal with q : (_ * _)%type |- _ => destruct q end.
    all: injection E as <- _; reflexivity.
Qed.

Lemma dec_fields_wf lay : forall ks s seen u_enc u_dec vs,
  ctx_ok (l_has_esm lay) (l_replace lay) seen ks = true ->
  (seen = true -> u_dec = u_enc) ->
  (seen = false -> u_enc = udhi_of vs) ->
  octetsb s = true ->
  dec_fields lay ks s u_dec = Ok vs ->
  no_nocoding lay vs ->
  wf_fields lay u_enc ks vs = true.
Proof.
  induction ks as [|k ks IH]; intros s seen u_enc u_dec vs Hctx Hseen Hnot Ho; cbn [dec_fields].
  - intros [= <-] _. reflexivity.
  - destruct (dec_field lay u_dec k s) as [[v r]| |] eqn:E; cbn [obind]; try discriminate.
    destruct (dec_fields lay ks r _) as [vs'| |] eqn:E'; cbn [obind]; try discriminate.
    intros [= <-] Hnc. cbn [wf_fields].
    assert (Hnc' : no_nocoding lay vs') by (destruct Hnc as [Hr|Hn]; [left; exact Hr | right; intros m Hm; apply Hn; right; exact Hm]).
    (* continuation for kinds that do not touch the indicator *)
    assert (Hcont : forall r', octetsb r' = true -> (match v with VEsm e => e_udhi e | _ => u_dec end) = u_dec ->
                    (match v with VEsm _ => False | _ => True end) ->
                    dec_fields lay ks r' u_dec = Ok vs' -> ctx_ok (l_has_esm lay) (l_replace lay) seen ks = true ->
                    wf_fields lay u_enc ks vs' = true).
    { intros r' Hr' _ Hne Ed Hc. eapply (IH r' seen u_enc u_dec vs' Hc Hseen); try eassumption.
      intros Hs. rewrite (Hnot Hs), udhi_of_cons. destruct v; try contradiction; reflexivity. }
    destruct k; cbn [dec_field] in E; cbn [ctx_ok] in Hctx; try discriminate.
    + (* FCStr *) destruct (dec_cstr s) as [[x r0]| |] eqn:Ed; cbn [obind] in E; try discriminate. injection E as <- <-.
      destruct (dec_cstr_wf _ _ _ Ho Ed) as [H1 H2]. cbn [wf_field]. rewrite H1. cbn [andb]. now apply (Hcont r0).
    + (* FU8 *) destruct (dec_u8 s) as [[x r0]| |] eqn:Ed; cbn [obind] in E; try discriminate. injection E as <- <-.
      destruct (dec_u8_wf _ _ _ Ho Ed) as [H1 H2]. cbn [wf_field]. destruct (N.ltb_spec x 256); [|lia]. cbn [andb]. now apply (Hcont r0).
    + (* FBool *) destruct (dec_u8 s) as [[x r0]| |] eqn:Ed; cbn [obind] in E; try discriminate. injection E as <- <-.
      destruct (dec_u8_wf _ _ _ Ho Ed) as [H1 H2]. cbn [wf_field andb]. now apply (Hcont r0).
    + (* FEsm *) destruct (dec_u8 s) as [[x r0]| |] eqn:Ed; cbn [obind] in E; try discriminate. injection E as <- <-.
      destruct (dec_u8_wf _ _ _ Ho Ed) as [H1 H2]. cbn [wf_field]. rewrite (esm_of_byte_wf x H1). cbn [andb].
      apply andb_true_iff in Hctx. destruct Hctx as [Hns Hctx]. apply negb_true_iff in Hns.
      pose proof (Hnot Hns) as Hu. rewrite udhi_of_cons in Hu.
      rewrite (dec_fields_esm_free lay ks r0 _ vs' (ctx_ok_seen_esm_free _ _ _ Hctx) E'), orb_false_r in Hu.
      eapply (IH r0 true u_enc (e_udhi (esm_of_byte x)) vs' Hctx); try eassumption; [intros _; congruence | discriminate].
    + (* FRegDel *) destruct (dec_u8 s) as [[x r0]| |] eqn:Ed; cbn [obind] in E; try discriminate. injection E as <- <-.
      destruct (dec_u8_wf _ _ _ Ho Ed) as [H1 H2]. cbn [wf_field]. rewrite (regdel_of_byte_wf x H1). cbn [andb]. now apply (Hcont r0).
    + (* FAddr *) destruct (dec_addr s) as [[x r0]| |] eqn:Ed; cbn [obind] in E; try discriminate. injection E as <- <-.
      destruct (dec_addr_wf _ _ _ Ho Ed) as [H1 H2]. cbn [wf_field]. rewrite H1. cbn [andb]. now apply (Hcont r0).
    + (* FDests *) destruct (dec_dests s) as [[[sme dl] r0]| |] eqn:Ed; cbn [obind] in E; try discriminate. injection E as <- <-.
      unfold dec_dests in Ed. destruct (dec_u8 s) as [[c s1]| |] eqn:Ec; cbn [obind] in Ed; try discriminate.
      destruct (dec_u8_wf _ _ _ Ho Ec) as [_ Ho1].
      destruct (dec_dests_loop_wf _ _ [] [] _ _ _ Ho1 eq_refl eq_refl Ed) as (H1 & H2 & H3).
      cbn [wf_field]. rewrite H1, H2. cbn [andb]. now apply (Hcont r0).
    + (* FUnsucc *) destruct (dec_unsucc s) as [[l r0]| |] eqn:Ed; cbn [obind] in E; try discriminate. injection E as <- <-.
      unfold dec_unsucc in Ed. destruct (dec_u8 s) as [[c s1]| |] eqn:Ec; cbn [obind] in Ed; try discriminate.
      destruct (dec_u8_wf _ _ _ Ho Ec) as [_ Ho1].
      destruct (dec_unsucc_loop_wf _ _ [] _ _ Ho1 eq_refl Ed) as (H1 & H2).
      cbn [wf_field]. fold wf_rec. change (forallb (fun e => wf_addr (fst e) && (snd e <? 4294967296)) l) with (forallb wf_rec l).
      rewrite H1. cbn [andb]. now apply (Hcont r0).
    + (* FShortMsg *) apply andb_true_iff in Hctx. destruct Hctx as [Hsm Hctx].
      destruct (dec_short _ _ s) as [[m r0]| |] eqn:Ed; cbn [obind] in E; try discriminate. injection E as <- <-.
      assert (Hb : negb (l_replace lay) && l_has_esm lay && u_dec = negb (l_replace lay) && l_has_esm lay && u_enc).
      { destruct seen; [rewrite (Hseen eq_refl); reflexivity|]. cbn [orb] in Hsm.
        apply orb_true_iff in Hsm. destruct Hsm as [Hh|Hr].
        - apply negb_true_iff in Hh. rewrite Hh. now rewrite !andb_false_r.
        - rewrite Hr. reflexivity. }
      rewrite Hb in Ed.
      destruct (dec_short_wf lay u_enc s m r0 Ho Ed) as [H1 H2].
      { destruct Hnc as [Hr|Hn]; [left; exact Hr | right; apply Hn; left; reflexivity]. }
      cbn [wf_field]. rewrite H1. cbn [andb]. now apply (Hcont r0).
    + (* FTags *) destruct ks; [|discriminate].
      destruct (dec_tags s) as [t| |] eqn:Ed; cbn [obind] in E; try discriminate. injection E as <- <-.
      cbn [dec_fields] in E'. injection E' as <-.
      destruct (dec_tags_loop_wf _ _ [] _ Ho eq_refl eq_refl Ed) as [H1 H2].
      cbn [wf_field wf_fields]. unfold wf_tags. fold wf_tlv.
      change (forallb (fun e => (fst e <? 65536) && octetsb (snd e)) t) with (forallb wf_tlv t). now rewrite H1, H2.
    + (* FSkipped *) injection E as <- <-. cbn [wf_field N.eqb andb]. now apply (Hcont s).
Qed.

(* ------------------------------------------------------- decoded PDUs are wf *)
Lemma octetsb_all s : octetsb s = true -> forall x, In x s -> x < 256.
Proof. unfold octetsb. rewrite forallb_forall. intros H x Hx. specialize (H x Hx). lia. Qed.

Lemma dec_header_wf s h r : octetsb s = true -> dec_header s = Ok (h, r) ->
  h_status h < 4294967296 /\ h_id h < 4294967296 /\ (h_seq h < 2147483648)%Z /\ octetsb r = true.
Proof.
  unfold dec_header. do 16 (destruct s as [|? s]; [discriminate|]). rewrite !octetsb_cons.
  intros H. repeat (apply andb_true_iff in H; destruct H as [? H]).
  destruct (_ || _); [discriminate|]. intros [= <- <-]. cbn [h_status h_id h_seq].
  split; [unfold de32; lia|]. split; [unfold de32; lia|]. split; [|exact H].
  unfold i32_of_u32. destruct (N.ltb_spec (de32 n11 n12 n13 n14) 2147483648); [lia|]. unfold de32. lia.
Qed.

Theorem unmarshal_wf lay b vs :
  lay_ok lay = true -> octetsb b = true -> unmarshal lay b = Ok vs ->
  match vs with
  | VHeader h :: vs' => h_status h = 0 -> (0 < h_seq h)%Z -> no_nocoding lay vs' -> wf_vals lay vs
  | _ => False
  end.
Proof.
  unfold lay_ok, unmarshal, wf_vals. intros Hlay Ho.
  destruct (l_fields lay) as [|k ks]; [discriminate|]. destruct k; try discriminate.
  apply andb_true_iff in Hlay. destruct Hlay as [Hctx _].
  destruct (dec_header b) as [[h r]| |] eqn:Eh; cbn [obind]; try discriminate.
  destruct (dec_header_wf _ _ _ Ho Eh) as (Hst & _ & Hsq & Hor).
  destruct (N.eqb_spec (h_status h) 0) as [Hz|Hz]; cbn [negb].
  - destruct (dec_fields lay ks r false) as [vs'| |] eqn:Ef; cbn [obind]; try discriminate.
    intros [= <-] _ Hpos Hnc. split; [lia|]. split; [exact Hz|].
    eapply (dec_fields_wf lay ks r false (udhi_of vs') false vs' Hctx); try eassumption; [discriminate | reflexivity].
  - intros [= <-] Hz'. contradiction.
Qed.

(* --------------------------------- Marshal ignores what ReadPDU filled in / dropped *)
Lemma keys_above_filter P k r : keys_above k r = true -> keys_above k (filter P r) = true.
Proof.
  revert k. induction r as [|[k' v'] r IH]; intros k H; [reflexivity|]. cbn [keys_above] in H.
  apply andb_true_iff in H. destruct H as [H1 H2]. cbn [filter]. destruct (P (k', v')).
  - cbn [keys_above]. rewrite (IH k' H2). destruct (N.ltb_spec k k'); [reflexivity | lia].
  - apply IH. apply (keys_above_weaken k k'); [lia | exact H2].
Qed.

Lemma sorted_filter P t : sorted_keys t = true -> sorted_keys (filter P t) = true.
Proof.
  induction t as [|[k v] r IH]; [reflexivity|]. intros H. cbn [filter]. destruct (P (k, v)).
  - cbn [sorted_keys] in *. now apply keys_above_filter.
  - apply IH. eapply sorted_keys_tail; exact H.
Qed.

Lemma enc_tags_sorted_filter t : enc_tags_sorted (filter nonempty t) = enc_tags_sorted t.
Proof.
  induction t as [|[k v] r IH]; [reflexivity|]. cbn [filter enc_tags_sorted]. unfold nonempty at 1. cbn [snd].
  destruct (N.eqb_spec (len v) 0) as [Hz|Hz]; cbn [negb]; [exact IH|].
  cbn [enc_tags_sorted]. destruct (N.eqb_spec (len v) 0); [contradiction|]. now rewrite IH.
Qed.

Lemma enc_field_norm lay u k v : wf_field lay u k v = true -> enc_field lay u k (norm_val v) = enc_field lay u k v.
Proof.
  destruct k, v; try reflexivity. cbn [wf_field norm_val enc_field]. unfold wf_tags, enc_tags. intros H.
  apply andb_true_iff in H. destruct H as [Hs _].
  change (filter (fun e => negb (len (snd e) =? 0)) t) with (filter nonempty t).
  rewrite (kv_sort_sorted t Hs), (kv_sort_sorted _ (sorted_filter nonempty t Hs)). apply enc_tags_sorted_filter.
Qed.

Lemma enc_fields_norm lay u ks : forall vs, wf_fields lay u ks vs = true ->
  enc_fields lay u ks (map norm_val vs) = enc_fields lay u ks vs.
Proof.
  induction ks as [|k ks IH]; intros [|v vs] H; try reflexivity; try discriminate.
  cbn [wf_fields] in H. apply andb_true_iff in H. destruct H as [Hv Hvs].
  cbn [map enc_fields]. rewrite (enc_field_norm lay u k v Hv), (IH vs Hvs). reflexivity.
Qed.

Lemma udhi_of_norm vs : udhi_of (map norm_val vs) = udhi_of vs.
Proof.
  unfold udhi_of. induction vs as [|v vs IH]; [reflexivity|]. cbn [map existsb]. rewrite IH. destruct v; reflexivity.
Qed.

Lemma marshal_received lay vs f : wf_vals lay vs -> marshal lay vs = Ok f -> marshal lay (received lay vs) = Ok f.
Proof.
  unfold wf_vals, received. intros Hwf Hm. rewrite Hm. unfold marshal in *.
  destruct (l_fields lay) as [|k ks]; [discriminate|]. destruct k; try discriminate.
  destruct vs as [|v vs']; [contradiction|]. destruct v as [h| | | | | | | | | | |]; try contradiction.
  destruct Hwf as (Hseq & Hst & Hw). cbn [h_seq h_status h_len].
  destruct (h_seq h <=? 0)%Z; [discriminate|]. rewrite Hst in *. cbn [N.eqb negb] in *.
  rewrite udhi_of_norm, (enc_fields_norm lay _ ks vs' Hw). exact Hm.
Qed.

(* C13, stability: decode, re-encode, decode again, encode again *)
Theorem reencode_stable lay b vs b' :
  lay_ok lay = true -> octetsb b = true -> unmarshal lay b = Ok vs ->
  (match vs with VHeader h :: vs' => h_status h = 0 /\ no_nocoding lay vs' | _ => False end) ->
  marshal lay vs = Ok b' -> len b' <= 65536 ->
  unmarshal lay b' = Ok (received lay vs) /\ marshal lay (received lay vs) = Ok b'.
Proof.
  intros Hlay Ho Hu Hc Hm Hlen.
  pose proof (unmarshal_wf lay b vs Hlay Ho Hu) as Hwf.
  destruct vs as [|v vs']; [contradiction|]. destruct v as [h| | | | | | | | | | |]; try contradiction.
  destruct Hc as [Hst Hnc].
  assert (Hpos : (0 < h_seq h)%Z).
  { unfold marshal in Hm. destruct (l_fields lay) as [|k ks]; [discriminate|]. destruct k; try discriminate.
    destruct (Z.leb_spec (h_seq h) 0); [discriminate | lia]. }
  specialize (Hwf Hst Hpos Hnc).
  split; [apply roundtrip; assumption | apply marshal_received; assumption].
Qed.

(* ... and for a decoded header-only PDU (non-zero status) *)
Theorem reencode_stable_status lay b h vs b' :
  lay_ok lay = true -> octetsb b = true -> unmarshal lay b = Ok (VHeader h :: vs) -> h_status h <> 0 ->
  marshal lay (VHeader h :: vs) = Ok b' ->
  exists ks, l_fields lay = FHeader :: ks /\
  unmarshal lay b' = Ok (VHeader {| h_len := 16; h_id := l_id lay; h_status := h_status h; h_seq := h_seq h |} :: map zero_val ks) /\
  vs = map zero_val ks /\
  marshal lay (VHeader {| h_len := 16; h_id := l_id lay; h_status := h_status h; h_seq := h_seq h |} :: map zero_val ks) = Ok b'.
Proof.
  intros Hlay Ho Hu Hst Hm. unfold lay_ok in Hlay.
  destruct (l_fields lay) as [|k ks] eqn:El; [discriminate|]. destruct k; try discriminate.
  apply andb_true_iff in Hlay. destruct Hlay as [_ Hid].
  exists ks. split; [reflexivity|].
  assert (Hd : h_status h < 4294967296 /\ (h_seq h < 2147483648)%Z /\ vs = map zero_val ks).
  { unfold unmarshal in Hu. rewrite El in Hu. destruct (dec_header b) as [[h0 r0]| |] eqn:Eh; cbn [obind] in Hu; try discriminate.
    destruct (dec_header_wf _ _ _ Ho Eh) as (H1 & _ & H2 & _).
    destruct (N.eqb_spec (h_status h0) 0); cbn [negb] in Hu.
    - destruct (dec_fields lay ks r0 false); cbn [obind] in Hu; try discriminate. injection Hu as <- _. contradiction.
    - injection Hu as <- <-. auto. }
  destruct Hd as (Hs1 & Hs2 & ->).
  assert (Hpos : (0 < h_seq h)%Z).
  { unfold marshal in Hm. rewrite El in Hm. destruct (Z.leb_spec (h_seq h) 0); [discriminate | lia]. }
  destruct (roundtrip_status lay h ks (map zero_val ks) El ltac:(lia) ltac:(lia) ltac:(lia)) as (f & Hmf & _ & Huf).
  assert (f = b') by congruence. subst f.
  split; [exact Huf|]. split; [reflexivity|].
  rewrite <- Hm. unfold marshal. rewrite El. cbn [h_seq h_status h_len].
  destruct (h_seq h <=? 0)%Z; [reflexivity|]. destruct (N.eqb_spec (h_status h) 0); [contradiction|]. reflexivity.
Qed.

(* --------------------------- determinism: the canonical form ignores insertion order *)
Lemma kv_insert_in k v m e : sorted_keys m = true ->
  (In e (kv_insert k v m) <-> e = (k, v) \/ (In e m /\ fst e <> k)).
Proof.
  induction m as [|[k' v'] r IH]; cbn [kv_insert]; intros Hs.
  - cbn. intuition.
  - assert (Hr : sorted_keys r = true) by (apply (sorted_keys_tail k' v' r Hs)).
    cbn [sorted_keys] in Hs.
    assert (Hab : forall e0, keys_above k' r = true -> In e0 r -> k' < fst e0) by (intros e0 H1 H2; exact (keys_above_in k' r e0 H1 H2)).
    destruct (N.ltb_spec k k').
    + cbn [In]. split.
      * intros [<-|[<-|Hin]]; [left; reflexivity | right; split; [left; reflexivity | cbn; lia] |].
        right. split; [right; exact Hin|]. specialize (Hab e Hs Hin). lia.
      * intros [->|[[<-|Hin] _]]; auto.
    + destruct (N.eqb_spec k k') as [->|Hne].
      * cbn [In]. split.
        -- intros [<-|Hin]; [left; reflexivity|]. right. split; [right; exact Hin|]. specialize (Hab e Hs Hin). lia.
        -- intros [->|[[<-|Hin] Hk]]; auto. cbn in Hk. contradiction.
      * cbn [In]. rewrite (IH Hr). split.
        -- intros [<-|[->|[Hin Hk]]]; [right; split; [left; reflexivity | cbn; lia] | left; reflexivity | right; split; [right; exact Hin | exact Hk]].
        -- intros [->|[[<-|Hin] Hk]]; [right; left; reflexivity | left; reflexivity | right; right; split; assumption].
Qed.

Lemma ins_all_sorted_acc t : forall m, sorted_keys m = true -> sorted_keys (ins_all t m) = true.
Proof.
  unfold ins_all. induction t as [|[k v] r IH]; intros m Hm; cbn [fold_left]; [exact Hm|].
  apply IH. now apply kv_insert_sorted.
Qed.

Lemma ins_all_in t : forall m e, sorted_keys m = true -> NoDup (map fst t) ->
  (In e (ins_all t m) <-> In e t \/ (In e m /\ ~ In (fst e) (map fst t))).
Proof.
  unfold ins_all. induction t as [|[k v] r IH]; intros m e Hm Hnd; cbn [fold_left map In].
  - intuition.
  - inversion Hnd as [|? ? Hk Hnd']; subst. cbn [fst snd].
    rewrite (IH (kv_insert k v m) e (kv_insert_sorted k v m Hm) Hnd').
    rewrite (kv_insert_in k v m e Hm). split.
    + intros [Hin|[[->|[Hin Hne]] Hnot]]; [left; right; exact Hin | left; left; reflexivity |].
      right. split; [exact Hin|]. intros [Heq|Hin']; [congruence | contradiction].
    + intros [[<-|Hin]|[Hin Hnot]]; [right; split; [left; reflexivity | exact Hk] | left; exact Hin |].
      right. split; [right; split; [exact Hin | intros Heq; apply Hnot; left; congruence] | intros Hin'; apply Hnot; right; exact Hin'].
Qed.

Lemma sorted_ext (a : kvs) : forall b, sorted_keys a = true -> sorted_keys b = true ->
  (forall e, In e a <-> In e b) -> a = b.
Proof.
  induction a as [|[k v] ra IH]; intros b Ha Hb Hext.
  - destruct b as [|e b]; [reflexivity|]. destruct (proj2 (Hext e) (or_introl eq_refl)).
  - destruct b as [|[k2 v2] rb]; [destruct (proj1 (Hext (k, v)) (or_introl eq_refl))|].
    pose proof (sorted_keys_tail k v ra Ha) as Hta. pose proof (sorted_keys_tail k2 v2 rb Hb) as Htb.
    cbn [sorted_keys] in Ha, Hb.
    pose proof (keys_above_in k ra) as Ka. pose proof (keys_above_in k2 rb) as Kb.
    assert (Heq : (k, v) = (k2, v2)).
    { destruct (proj1 (Hext (k, v)) (or_introl eq_refl)) as [E|Hin]; [congruence|].
      destruct (proj2 (Hext (k2, v2)) (or_introl eq_refl)) as [E|Hin2]; [exact E|].
      specialize (Kb _ Hb Hin). specialize (Ka _ Ha Hin2). cbn in *. lia. }
    injection Heq as <- <-. f_equal. apply IH.
    + exact Hta.
    + exact Htb.
    + intros e. split; intros Hin.
      * destruct (proj1 (Hext e) (or_intror Hin)) as [<-|H']; [|exact H']. specialize (Ka _ Ha Hin). cbn in Ka. lia.
      * destruct (proj2 (Hext e) (or_intror Hin)) as [<-|H']; [|exact H']. specialize (Kb _ Hb Hin). cbn in Kb. lia.
Qed.

(* the same entries inserted in any order give the same canonical list, hence the same octets *)
Theorem kv_sort_perm t t' : NoDup (map fst t) -> Permutation t t' -> kv_sort t = kv_sort t'.
Proof.
  intros Hnd Hp.
  assert (Hnd' : NoDup (map fst t')) by (eapply Permutation_NoDup; [apply Permutation_map; exact Hp | exact Hnd]).
  apply sorted_ext; try (apply (ins_all_sorted_acc _ []); reflexivity).
  intros e. unfold kv_sort. fold (ins_all t []). fold (ins_all t' []).
  rewrite (ins_all_in t [] e eq_refl Hnd), (ins_all_in t' [] e eq_refl Hnd'). cbn [In].
  split; (intros [Hin|[[] _]]; left); [eapply Permutation_in; eauto | eapply Permutation_in; [apply Permutation_sym|]; eauto].
Qed.

Theorem enc_tags_perm t t' : NoDup (map fst t) -> Permutation t t' -> enc_tags t = enc_tags t'.
Proof. intros H1 H2. unfold enc_tags. now rewrite (kv_sort_perm t t' H1 H2). Qed.
Theorem enc_udh_perm u u' : NoDup (map fst u) -> Permutation u u' -> enc_udh u = enc_udh u'.
Proof. intros H1 H2. unfold enc_udh. now rewrite (kv_sort_perm u u' H1 H2). Qed.

(* the canonical form itself is what a Go map holds: unique keys, and kv_sort keeps exactly the entries *)
Theorem kv_sort_canonical t : NoDup (map fst t) ->
  sorted_keys (kv_sort t) = true /\ forall e, In e (kv_sort t) <-> In e t.
Proof.
  intros Hnd. split; [apply (ins_all_sorted_acc t []); reflexivity|].
  intros e. unfold kv_sort. fold (ins_all t []). rewrite (ins_all_in t [] e eq_refl Hnd). cbn [In]. intuition.
Qed.

From V Require Import Gen.PduLayouts.
(* deliver_sm_resp, message_id "A", TLVs 0x0204 (2 octets), 0x0005 (1), 0x0204 again (1), 0x0007 (empty) *)
Definition C13_ex_frame : bytes :=
  [0;0;0;37; 128;0;0;5; 0;0;0;0; 0;0;0;9; 65;0; 2;4;0;2;1;2; 0;5;0;1;9; 2;4;0;1;7; 0;7;0;0].
Lemma C13_example :
  exists vs b', unmarshal (lay_of 2147483653) C13_ex_frame = Ok vs /\ marshal (lay_of 2147483653) vs = Ok b' /\
                b' <> C13_ex_frame /\ unmarshal (lay_of 2147483653) b' = Ok (received (lay_of 2147483653) vs).
Proof.
  eexists. eexists. split; [vm_compute; reflexivity|]. split; [vm_compute; reflexivity|].
  split; [intros H; discriminate H | vm_compute; reflexivity].
Qed.
