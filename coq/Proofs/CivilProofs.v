(* Day number <-> civil date are inverse on 2000-01-01 .. 2099-12-31, and on
   that range the day count of Go's time.Date ([go_date_days]) is the plain
   calendar one.  Both directions are finite sweeps evaluated by the kernel
   ([vm_compute]) over ALL 36,525 days / ALL 37,200 (year, month, day)
   triples -- no sampling -- and lifted to universally quantified statements
   with [forallb_forall]; the bounds are in the statements.  The sweeps are
   nested (366 x 100 days, 100 x 12 x 31 dates) so that no large [nat]
   numeral occurs. *)
From V Require Import Model.Civil.
Local Open Scope Z_scope.

Lemma zrange_in n from z : from <= z < from + Z.of_nat n -> In z (zrange n from).
Proof.
  revert from; induction n as [|n IH]; intros from H; cbn [zrange].
  - lia.
  - destruct (Z.eq_dec from z) as [->|Hne]; [left; reflexivity|right; apply IH; lia].
Qed.

(* ---- direction 1: every day of the century has a real date that maps back -- *)
Definition ok_day (n : Z) : bool :=
  (days_2000_2099 <=? n) ||
  (let '(y, m, d) := civil2000 n in
   (go_date_days y m d =? n) && (days2000 y m d =? n) && (2000 <=? y) && (y <? 2100) && valid_date y m d).

(* (stated on the unfolded term: a named constant here would make the kernel
   compare [constant] with [forallb ...] at a later Qed by lazily evaluating
   the whole sweep) *)
Lemma sweep_days :
  forallb (fun b => forallb (fun i => ok_day (100 * b + i)) (zrange 100 0)) (zrange 366 0) = true.
Proof. vm_cast_no_check (eq_refl true). Qed.   (* evaluated once, by the kernel's VM at Qed *)

Lemma ok_day_all n : 0 <= n < days_2000_2099 -> ok_day n = true.
Proof.
  intros Hn. unfold days_2000_2099 in Hn.
  pose proof (Z.div_mod n 100 ltac:(lia)) as Hdm.
  pose proof (Z.mod_pos_bound n 100 ltac:(lia)) as Hmb.
  pose proof sweep_days as S. rewrite forallb_forall in S.
  assert (Hb : In (n / 100) (zrange 366 0)) by (apply zrange_in; cbn; lia).
  specialize (S _ Hb). cbv beta in S. rewrite forallb_forall in S.
  assert (Hi : In (n mod 100) (zrange 100 0)) by (apply zrange_in; cbn; lia).
  specialize (S _ Hi). cbv beta in S. rewrite <- Hdm in S. exact S.
Qed.

Lemma civil_of_day n : 0 <= n < days_2000_2099 ->
  exists y m d, civil2000 n = (y, m, d) /\ go_date_days y m d = n /\ days2000 y m d = n /\
                2000 <= y < 2100 /\ valid_date y m d = true.
Proof.
  intros Hn. pose proof (ok_day_all n Hn) as S. unfold ok_day in S.
  apply orb_true_iff in S. destruct S as [S|S]; [apply Z.leb_le in S; lia|].
  destruct (civil2000 n) as [[y m] d]. exists y, m, d.
  rewrite !andb_true_iff in S. destruct S as [[[[S0 S1] S2] S3] S4].
  apply Z.eqb_eq in S0. apply Z.eqb_eq in S1. apply Z.leb_le in S2. apply Z.ltb_lt in S3.
  repeat split; auto.
Qed.

(* ---- direction 2: every real date of the century has a day that maps back -- *)
Definition ok_date (y m d : Z) : bool :=
  negb (valid_date y m d) ||
  (beq_date (civil2000 (days2000 y m d)) (y, m, d) && (go_date_days y m d =? days2000 y m d) &&
   (0 <=? days2000 y m d) && (days2000 y m d <? days_2000_2099)).

Lemma sweep_dates :
  forallb (fun y => forallb (fun m => forallb (fun d => ok_date y m d) (zrange 31 1)) (zrange 12 1)) (zrange 100 2000) = true.
Proof. vm_cast_no_check (eq_refl true). Qed.   (* evaluated once, by the kernel's VM at Qed *)

Lemma days_in_month_le y m : days_in_month y m <= 31.
Proof.
  unfold days_in_month.
  destruct (m =? 2); [destruct (is_leap y); lia|].
  destruct ((m =? 4) || (m =? 6) || (m =? 9) || (m =? 11))%bool; lia.
Qed.

Lemma valid_date_bounds y m d : valid_date y m d = true -> 1 <= m <= 12 /\ 1 <= d <= 31.
Proof.
  unfold valid_date. rewrite !andb_true_iff. intros [[[H1 H2] H3] H4].
  apply Z.leb_le in H1, H2, H3, H4.
  pose proof (days_in_month_le y m). lia.
Qed.

Lemma beq_date_eq a b : beq_date a b = true -> a = b.
Proof.
  destruct a as [[y m] d], b as [[y' m'] d']. unfold beq_date.
  rewrite !andb_true_iff, !Z.eqb_eq. intros [[-> ->] ->]. reflexivity.
Qed.

Lemma ok_date_all y m d : 2000 <= y < 2100 -> 1 <= m <= 12 -> 1 <= d <= 31 -> ok_date y m d = true.
Proof.
  intros Hy Hm Hd.
  pose proof sweep_dates as S. rewrite forallb_forall in S.
  assert (Hiy : In y (zrange 100 2000)) by (apply zrange_in; cbn; lia).
  specialize (S y Hiy). cbv beta in S. rewrite forallb_forall in S.
  assert (Him : In m (zrange 12 1)) by (apply zrange_in; cbn; lia).
  specialize (S m Him). cbv beta in S. rewrite forallb_forall in S.
  assert (Hid : In d (zrange 31 1)) by (apply zrange_in; cbn; lia).
  exact (S d Hid).
Qed.

Lemma day_of_civil y m d : 2000 <= y < 2100 -> valid_date y m d = true ->
  civil2000 (days2000 y m d) = (y, m, d) /\ go_date_days y m d = days2000 y m d /\
  0 <= days2000 y m d < days_2000_2099.
Proof.
  intros Hy Hv. pose proof (valid_date_bounds _ _ _ Hv) as [Hm Hd].
  pose proof (ok_date_all y m d Hy Hm Hd) as S. unfold ok_date in S.
  apply orb_true_iff in S. destruct S as [S|S]; [rewrite Hv in S; discriminate S|].
  rewrite !andb_true_iff in S. destruct S as [[[S1 S2] S3] S4].
  apply beq_date_eq in S1. apply Z.eqb_eq in S2. apply Z.leb_le in S3. apply Z.ltb_lt in S4. auto.
Qed.
