(* C19: the model of sms.Unmarshal / sms.Marshal evaluated symbolically on the
   GSM 03.40 layout (Spec/Gsm0340.v) of an ARBITRARY well-formed SMS-DELIVER /
   SMS-SUBMIT value: decoded values are the standard's, re-encoding reproduces
   the octets, outside the listed known classes; witnesses for each class. *)
From V Require Import Model.TpduRun Spec.Gsm0340 Proofs.SmsOctetTables Proofs.TpduAlnum.
From Coq Require Import ZifyN ZifyNat ZifyBool.
Ltac Zify.zify_post_hook ::= Z.div_mod_to_equations.
Open Scope N_scope.

(* ------------------------------------------------------------------ small sweeps *)
Definition nibbles : list N := map N.of_nat (seq 0 16).
Lemma nibbles_spec a : a < 16 -> In a nibbles.
Proof. intros H. unfold nibbles. apply in_map_iff. exists (N.to_nat a). split; [lia|]. apply in_seq. lia. Qed.
Definition hundred : list N := map N.of_nat (seq 0 100).
Lemma hundred_spec a : a < 100 -> In a hundred.
Proof. intros H. unfold hundred. apply in_map_iff. exists (N.to_nat a). split; [lia|]. apply in_seq. lia. Qed.

Lemma lor_nibbles_sweep :
  forallb (fun a => forallb (fun b => N.lor ((b * 16) mod 256) a =? a + 16 * b) nibbles) nibbles = true.
Proof. vm_compute. reflexivity. Qed.
Lemma lor_nibbles a b : a < 16 -> b < 16 -> N.lor ((b * 16) mod 256) a = a + 16 * b.
Proof.
  intros Ha Hb. pose proof lor_nibbles_sweep as H. rewrite forallb_forall in H.
  specialize (H a (nibbles_spec a Ha)). rewrite forallb_forall in H.
  apply N.eqb_eq. apply H. apply nibbles_spec. exact Hb.
Qed.
Lemma lor_filler_sweep : forallb (fun a => N.lor 240 a =? a + 16 * 15) nibbles = true.
Proof. vm_compute. reflexivity. Qed.
Lemma lor_filler a : a < 16 -> N.lor 240 a = a + 16 * 15.
Proof.
  intros Ha. pose proof lor_filler_sweep as H. rewrite forallb_forall in H.
  apply N.eqb_eq. apply H. apply nibbles_spec. exact Ha.
Qed.

(* ------------------------------------------------------------------ semi-octets: model = 9.1.2.3 *)
Lemma two_step_ind {A} (P : list A -> Prop) :
  P [] -> (forall a, P [a]) -> (forall a b r, P r -> P (a :: b :: r)) -> forall l, P l.
Proof.
  intros H0 H1 H2. assert (H : forall l, P l /\ forall a, P (a :: l)).
  { induction l as [|x l [IH1 IH2]]; split; auto. }
  intros l. apply H.
Qed.

Lemma pack_digits_spec ds : Forall (fun d => d < 10) ds -> pack_digits ds = semi_octets ds.
Proof.
  induction ds as [|a|a b r IH] using two_step_ind; intros Hd; [reflexivity| |].
  - inversion Hd; subst. cbn [pack_digits semi_octets]. rewrite lor_filler by lia. reflexivity.
  - inversion Hd as [|? ? Ha Hd']; subst. inversion Hd' as [|? ? Hb Hr]; subst.
    cbn [pack_digits semi_octets]. rewrite lor_nibbles by lia. rewrite IH by exact Hr. reflexivity.
Qed.

Lemma lo4_pair a b : a < 16 -> lo4 (a + 16 * b) = a.
Proof. unfold lo4. intros. lia. Qed.
Lemma hi4_pair a b : a < 16 -> b < 16 -> hi4 (a + 16 * b) = b.
Proof. unfold hi4. intros. lia. Qed.

Definition ascii_digits (ds : list N) : list N := map (fun d => 48 + d) ds.

Lemma decode_semi_address_spec ds :
  Forall (fun d => d < 10) ds -> decode_semi_address (semi_octets ds) = ascii_digits ds.
Proof.
  induction ds as [|a|a b r IH] using two_step_ind; intros Hd; [reflexivity| |].
  - inversion Hd; subst. cbn [semi_octets decode_semi_address ascii_digits map].
    rewrite lo4_pair, hi4_pair by lia. cbn. reflexivity.
  - inversion Hd as [|? ? Ha Hd']; subst. inversion Hd' as [|? ? Hb Hr]; subst.
    cbn [semi_octets decode_semi_address ascii_digits map].
    rewrite lo4_pair, hi4_pair by lia.
    destruct (N.eqb_spec b 15) as [->|_]; [lia|].
    cbn [app]. fold (ascii_digits r). rewrite IH by exact Hr. reflexivity.
Qed.

Lemma ascii_digits_are_digits ds : Forall (fun d => d < 10) ds -> forallb is_digit (ascii_digits ds) = true.
Proof.
  induction 1 as [|d r Hd _ IH]; [reflexivity|]. cbn [ascii_digits map forallb]. fold (ascii_digits r).
  rewrite IH. unfold is_digit. destruct (N.leb_spec 48 (48 + d)); [|lia]. destruct (N.leb_spec (48 + d) 57); [reflexivity|lia].
Qed.
Lemma unascii ds : map (fun c => c - 48) (ascii_digits ds) = ds.
Proof. unfold ascii_digits. rewrite map_map. rewrite <- (map_id ds) at 2. apply map_ext. intros; lia. Qed.

Lemma encode_semi_address_spec ds :
  Forall (fun d => d < 10) ds -> ds <> [] -> encode_semi_address (ascii_digits ds) = Some (semi_octets ds).
Proof.
  intros Hd Hne. destruct ds as [|d r]; [contradiction|].
  remember (ascii_digits (d :: r)) as s eqn:E. unfold encode_semi_address.
  destruct s as [|c s']; [discriminate E|]. rewrite E.
  rewrite ascii_digits_are_digits by exact Hd. rewrite unascii. rewrite pack_digits_spec by exact Hd. reflexivity.
Qed.

Lemma semi_octets_length ds : List.length (semi_octets ds) = ((List.length ds + 1) / 2)%nat.
Proof.
  induction ds as [|a|a b r IH] using two_step_ind; [reflexivity|reflexivity|].
  cbn [semi_octets List.length]. rewrite IH.
  replace (S (S (List.length r)) + 1)%nat with ((List.length r + 1) + 1 * 2)%nat by lia.
  rewrite Nat.div_add by lia. lia.
Qed.

(* two-digit values: semi2 *)
Lemma semi2_nibbles v : v < 100 -> lo4 (semi2 v) = v / 10 /\ hi4 (semi2 v) = v mod 10.
Proof. intros Hv. unfold semi2. split; [apply lo4_pair|apply hi4_pair]; lia. Qed.

Lemma decode_semi_semi2 vs : Forall (fun v => v < 100) vs -> decode_semi (map semi2 vs) = vs.
Proof.
  induction 1 as [|v r Hv _ IH]; [reflexivity|]. cbn [map decode_semi].
  destruct (semi2_nibbles v Hv) as [Hl Hh]. rewrite Hl, Hh.
  destruct (N.eqb_spec (v mod 10) 15) as [E|_]; [lia|]. rewrite IH. f_equal. lia.
Qed.

Lemma chunk_digits_sweep :
  forallb (fun v => beq_list N.eqb (chunk_digits (Z.of_N v)) [v / 10; v mod 10]) hundred = true.
Proof. vm_compute. reflexivity. Qed.
Lemma chunk_digits_two v : v < 100 -> chunk_digits (Z.of_N v) = [v / 10; v mod 10].
Proof.
  intros Hv. pose proof chunk_digits_sweep as H. rewrite forallb_forall in H.
  apply beq_nlist_eq. apply H. apply hundred_spec. exact Hv.
Qed.

Lemma encode_semi_semi2 vs : Forall (fun v => v < 100) vs -> encode_semi (map Z.of_N vs) = map semi2 vs.
Proof.
  unfold encode_semi, to_digits. induction 1 as [|v r Hv _ IH]; [reflexivity|].
  cbn [map flat_map]. rewrite chunk_digits_two by exact Hv. cbn [app pack_digits].
  rewrite IH. rewrite lor_nibbles by lia. reflexivity.
Qed.

(* ------------------------------------------------------------------ reader on exact / short input *)
Lemma read_n_exact (l rest : bytes) k :
  List.length l = N.to_nat k -> k <> 0 -> read_n k (l ++ rest) = Ok (l, rest).
Proof.
  intros Hl Hk. unfold read_n. destruct (N.eqb_spec k 0); [contradiction|].
  destruct l as [|x l']; [cbn in Hl; lia|]. cbn [app].
  change (x :: l' ++ rest) with ((x :: l') ++ rest).
  rewrite <- Hl. rewrite firstn_app, Nat.sub_diag, firstn_all, firstn_O, app_nil_r.
  rewrite skipn_app, Nat.sub_diag, skipn_all, skipn_O. cbn [app].
  cbn [repeat]. rewrite app_nil_r. reflexivity.
Qed.

(* the whole remaining input is shorter than (or as long as) the request: short read, zero fill *)
Lemma read_n_short (l : bytes) k :
  l <> [] -> (List.length l <= N.to_nat k)%nat ->
  read_n k l = Ok (l ++ repeat 0 (N.to_nat k - List.length l), []).
Proof.
  intros Hne Hl. unfold read_n. destruct (N.eqb_spec k 0) as [->|_].
  - destruct l; [contradiction|cbn in Hl; lia].
  - destruct l as [|x l']; [contradiction|].
    rewrite firstn_all2 by exact Hl. rewrite skipn_all2 by exact Hl. reflexivity.
Qed.

(* ------------------------------------------------------------------ bytes.TrimRight(.., "\x00") *)
Lemma trim_right0_zeros j : trim_right0 (repeat 0 j) = [].
Proof. induction j as [|j IH]; [reflexivity|]. cbn [repeat trim_right0]. rewrite IH. reflexivity. Qed.
Lemma trim_right0_app_zeros l j : trim_right0 (l ++ repeat 0 j) = trim_right0 l.
Proof.
  induction l as [|b r IH]; [apply trim_right0_zeros|]. cbn [app trim_right0]. rewrite IH. reflexivity.
Qed.
Lemma trim_right0_id l : last l 1 <> 0 -> trim_right0 l = l.
Proof.
  induction l as [|b r IH]; [reflexivity|]. intros Hl. cbn [trim_right0].
  destruct r as [|c r'].
  - cbn in Hl. cbn. destruct (N.eqb_spec b 0); [contradiction|reflexivity].
  - rewrite IH by exact Hl. reflexivity.
Qed.

(* ------------------------------------------------------------------ type-of-address octet *)
Definition eights : list N := map N.of_nat (seq 0 8).
Lemma toa_sweep :
  forallb (fun ton => forallb (fun npi =>
     let k := 128 + 16 * ton + npi in
     (N.land k 15 =? npi) && (N.land (N.shiftr k 4) 7 =? ton) &&
     (N.lor (N.lor (N.land npi 15) (N.shiftl (N.land ton 7) 4)) 128 =? k)) nibbles) eights = true.
Proof. vm_compute. reflexivity. Qed.
Lemma toa_bits ton npi : ton < 8 -> npi < 16 ->
  let k := 128 + 16 * ton + npi in
  N.land k 15 = npi /\ N.land (N.shiftr k 4) 7 = ton /\
  N.lor (N.lor (N.land npi 15) (N.shiftl (N.land ton 7) 4)) 128 = k.
Proof.
  intros Ht Hn. pose proof toa_sweep as H. rewrite forallb_forall in H.
  assert (Hin : In ton eights).
  { unfold eights. apply in_map_iff. exists (N.to_nat ton). split; [lia|]. apply in_seq. lia. }
  specialize (H ton Hin). rewrite forallb_forall in H. specialize (H npi (nibbles_spec npi Hn)).
  cbn zeta in H. apply andb_true_iff in H. destruct H as [H H3]. apply andb_true_iff in H. destruct H as [H1 H2].
  apply N.eqb_eq in H1, H2, H3. cbn zeta. auto.
Qed.

(* ------------------------------------------------------------------ numeric addresses *)
Definition addr_num_val (a : s_addr) (ds : list N) : taddr :=
  {| a_npi := sa_npi a; a_ton := sa_ton a; a_no := ascii_digits ds |}.

Lemma nlen_blen (l : bytes) : nlen l = blen l. Proof. reflexivity. Qed.

Lemma semi_octets_nonempty ds : ds <> [] -> nlen (semi_octets ds) <> 0.
Proof.
  intros Hne. destruct ds as [|d [|d' r]]; [contradiction| |]; unfold nlen; cbn [semi_octets List.length]; lia.
Qed.
Lemma nlen_pos_nonempty {A} (l : list A) : 1 <= nlen l -> l <> [].
Proof. destruct l; [unfold nlen; cbn; lia|discriminate]. Qed.

Lemma addr_read_numeric g a ds rest :
  sa_val a = Digits ds -> addr_wf a ->
  addr_read g (tp_addr a ++ rest) = Ok (addr_num_val a ds, rest).
Proof.
  intros Hv [Hnpi [Hton Hwf]]. rewrite Hv in Hwf. destruct Hwf as [Hne5 [Hd Hlen]].
  unfold tp_addr. rewrite Hv. unfold addr_read. cbn [app read_byte obind].
  destruct (N.eqb_spec (nlen ds) 0) as [E|_]; [lia|]. cbn [read_byte obind].
  destruct (toa_bits (sa_ton a) (sa_npi a) Hton Hnpi) as [Hn [Ht _]]. unfold toa_octet. rewrite Hn, Ht.
  assert (Hk : ((nlen ds + 1) mod 256) / 2 = N.of_nat (List.length (semi_octets ds))).
  { rewrite semi_octets_length. unfold nlen in *. rewrite N.mod_small by lia.
    rewrite Nat2N.inj_div, Nat2N.inj_add. reflexivity. }
  rewrite Hk. rewrite read_n_exact; [|lia|apply (semi_octets_nonempty ds); apply nlen_pos_nonempty; lia].
  cbn [obind]. unfold addr_text. destruct (N.eqb_spec (sa_ton a) 5); [contradiction|].
  cbn [obind]. rewrite decode_semi_address_spec by exact Hd. reflexivity.
Qed.

Lemma sc_read_numeric g a ds rest :
  sa_val a = Digits ds -> addr_wf a ->
  sc_read g (sc_addr a ++ rest) = Ok (addr_num_val a ds, rest).
Proof.
  intros Hv [Hnpi [Hton Hwf]]. rewrite Hv in Hwf. destruct Hwf as [Hne5 [Hd Hlen]].
  unfold sc_addr. rewrite Hv. unfold sc_read. cbn [app read_byte obind].
  destruct (N.eqb_spec (1 + nlen (semi_octets ds)) 0) as [E|_]; [lia|]. cbn [read_byte obind].
  destruct (toa_bits (sa_ton a) (sa_npi a) Hton Hnpi) as [Hn [Ht _]]. unfold toa_octet. rewrite Hn, Ht.
  replace (1 + nlen (semi_octets ds) - 1) with (nlen (semi_octets ds)) by lia.
  assert (Hpos : nlen (semi_octets ds) <> 0) by (apply semi_octets_nonempty; apply nlen_pos_nonempty; lia).
  rewrite read_n_exact; [|unfold nlen; lia|exact Hpos].
  cbn [obind]. unfold addr_text. destruct (N.eqb_spec (sa_ton a) 5); [contradiction|].
  cbn [obind]. rewrite decode_semi_address_spec by exact Hd. reflexivity.
Qed.

Lemma ascii_digits_length ds : List.length (ascii_digits ds) = List.length ds.
Proof. apply map_length. Qed.

Lemma addr_body_numeric g a ds :
  sa_val a = Digits ds -> addr_wf a ->
  addr_body g (addr_num_val a ds) = toa_octet a :: semi_octets ds.
Proof.
  intros Hv [Hnpi [Hton Hwf]]. rewrite Hv in Hwf. destruct Hwf as [Hne5 [Hd Hlen]].
  unfold addr_body, addr_num_val. cbn [a_npi a_ton a_no].
  destruct (toa_bits (sa_ton a) (sa_npi a) Hton Hnpi) as [_ [_ Hk]]. rewrite Hk.
  destruct (N.eqb_spec (sa_ton a) 5); [contradiction|].
  rewrite encode_semi_address_spec; [reflexivity|exact Hd|]. destruct ds; [cbn in Hlen; lia|discriminate].
Qed.

Lemma addr_write_numeric g a ds :
  sa_val a = Digits ds -> addr_wf a -> addr_write g (addr_num_val a ds) = tp_addr a.
Proof.
  intros Hv Hwf. pose proof Hwf as [Hnpi [Hton Hwf']]. rewrite Hv in Hwf'. destruct Hwf' as [Hne5 [Hd Hlen]].
  unfold addr_write. rewrite addr_body_numeric by assumption.
  unfold addr_num_val at 1 2. cbn [a_no a_ton].
  destruct ds as [|d r]; [cbn in Hlen; lia|]. cbn [ascii_digits map].
  destruct (N.eqb_spec (sa_ton a) 5); [contradiction|].
  unfold tp_addr. rewrite Hv. f_equal.
  unfold addr_num_val. cbn [a_no]. unfold blen. rewrite ascii_digits_length.
  unfold nlen in *. rewrite N.mod_small by lia. reflexivity.
Qed.

Lemma sc_write_numeric g a ds :
  sa_val a = Digits ds -> addr_wf a -> sc_write g (addr_num_val a ds) = sc_addr a.
Proof.
  intros Hv Hwf. pose proof Hwf as [Hnpi [Hton Hwf']]. rewrite Hv in Hwf'. destruct Hwf' as [Hne5 [Hd Hlen]].
  unfold sc_write. rewrite addr_body_numeric by assumption.
  unfold addr_num_val. cbn [a_no].
  destruct ds as [|d r]; [cbn in Hlen; lia|]. cbn [ascii_digits map].
  unfold sc_addr. rewrite Hv. f_equal.
  unfold blen, nlen in *. cbn [List.length]. rewrite semi_octets_length in *. cbn [List.length] in *.
  assert ((S (List.length r) + 1) / 2 <= 10)%nat by lia.
  rewrite N.mod_small by lia. lia.
Qed.

(* ------------------------------------------------------------------ alphanumeric addresses *)
Definition addr_alnum_val (a : s_addr) (ss : list N) : taddr :=
  {| a_npi := sa_npi a; a_ton := sa_ton a; a_no := code_text ss |}.
(* what is left of D21: with 8k+7 septets the seven fill bits are decoded as one more character;
   and the decoder takes a final CR of 8k septets for the filler *)
Definition alnum_ok (ss : list N) : Prop := (List.length ss mod 8 <> 7)%nat /\ ~ ends_in_filler_cr ss.

Lemma alnum_octets n : (((7 * n + 3) / 4 + 1) / 2 = (7 * n + 7) / 8)%nat.
Proof. lia. Qed.

Lemma addr_read_alnum a ss rest :
  sa_val a = Alnum ss -> addr_wf a -> alnum_ok ss ->
  addr_read g7_table (tp_addr a ++ rest) = Ok (addr_alnum_val a ss, rest).
Proof.
  intros Hv [Hnpi [Hton Hwf]] [Hn Hcr]. rewrite Hv in Hwf. destruct Hwf as [H5 [Hs Hlen]].
  unfold tp_addr. rewrite Hv. unfold addr_read. cbn [app read_byte obind].
  destruct (N.eqb_spec ((7 * nlen ss + 3) / 4) 0) as [E|_]; [lia|]. cbn [read_byte obind].
  destruct (toa_bits (sa_ton a) (sa_npi a) Hton Hnpi) as [Hnp [Ht _]]. unfold toa_octet. rewrite Hnp, Ht.
  assert (Hk : (((7 * nlen ss + 3) / 4 + 1) mod 256) / 2 = N.of_nat (List.length (pack7 ss))).
  { rewrite pack7_length. unfold packed_len, nlen in *. rewrite N.mod_small by lia.
    pose proof (alnum_octets (List.length ss)). lia. }
  rewrite Hk. rewrite read_n_exact; [|lia|rewrite pack7_length; unfold packed_len, nlen in *; lia].
  cbn [obind]. unfold addr_text. destruct (N.eqb_spec (sa_ton a) 5); [|contradiction].
  rewrite ta_decode_pack7 by assumption. reflexivity.
Qed.

Lemma addr_write_alnum a ss :
  sa_val a = Alnum ss -> addr_wf a -> alnum_ok ss -> addr_write g7_table (addr_alnum_val a ss) = tp_addr a.
Proof.
  intros Hv [Hnpi [Hton Hwf]] [Hn7 Hcr]. rewrite Hv in Hwf. destruct Hwf as [H5 [Hs Hlen]].
  assert (Hne : ss <> []) by (apply nlen_pos_nonempty; lia).
  unfold addr_write, addr_body, addr_alnum_val. cbn [a_no a_ton a_npi].
  pose proof (code_text_nonempty ss Hs Hne) as Hc.
  destruct (code_text ss) as [|c x] eqn:E; [contradiction|]. rewrite <- E.
  destruct (N.eqb_spec (sa_ton a) 5); [|contradiction].
  destruct (toa_bits (sa_ton a) (sa_npi a) Hton Hnpi) as [_ [_ Hk]]. rewrite Hk.
  rewrite ta_encode_text by assumption.
  unfold tp_addr. rewrite Hv. unfold toa_octet. f_equal.
  unfold blen. cbn [List.length]. rewrite pack7_length. unfold packed_len, nlen in *.
  replace (N.of_nat (S ((7 * List.length ss + 7) / 8)) - 1) with (N.of_nat ((7 * List.length ss + 7) / 8)) by lia.
  rewrite (N.mod_small (N.of_nat _)) by lia. rewrite N.mod_small by lia. lia.
Qed.

Definition addr_val (a : s_addr) : taddr :=
  match sa_val a with Digits ds => addr_num_val a ds | Alnum ss => addr_alnum_val a ss end.
(* [True] for a numeric address *)
Definition addr_ok (a : s_addr) : Prop := match sa_val a with Digits _ => True | Alnum ss => alnum_ok ss end.

Lemma addr_read_spec a rest : addr_wf a -> addr_ok a ->
  addr_read g7_table (tp_addr a ++ rest) = Ok (addr_val a, rest).
Proof.
  unfold addr_ok, addr_val. intros Hw Hd. destruct (sa_val a) as [ds|ss] eqn:E.
  - apply addr_read_numeric; assumption.
  - apply addr_read_alnum; assumption.
Qed.
Lemma addr_write_spec a : addr_wf a -> addr_ok a -> addr_write g7_table (addr_val a) = tp_addr a.
Proof.
  unfold addr_ok, addr_val. intros Hw Hd. destruct (sa_val a) as [ds|ss] eqn:E.
  - apply addr_write_numeric; assumption.
  - apply addr_write_alnum; assumption.
Qed.

(* ------------------------------------------------------------------ calendar: time.Date is the identity on real dates *)
Definition all_dates : list (N * N * N) :=
  flat_map (fun yy => flat_map (fun mo => map (fun dd => (yy, mo, dd)) (map N.of_nat (seq 1 (N.to_nat (days_in_month yy mo)))))
                               (map N.of_nat (seq 1 12)))
           (map N.of_nat (seq 0 100)).
Definition date_ok (x : N * N * N) : bool :=
  let '(yy, mo, dd) := x in
  let '(y', m', d') := civil_from_days (days_from_civil (2000 + Z.of_N yy) (Z.of_N mo) 1 + (Z.of_N dd - 1)) in
  ((y' =? 2000 + Z.of_N yy) && (m' =? Z.of_N mo) && (d' =? Z.of_N dd))%Z.
Lemma calendar_sweep : forallb date_ok all_dates = true.
Proof. vm_compute. reflexivity. Qed.

Lemma all_dates_spec yy mo dd :
  yy < 100 -> 1 <= mo <= 12 -> 1 <= dd <= days_in_month yy mo -> In (yy, mo, dd) all_dates.
Proof.
  intros Hy Hm Hd. unfold all_dates. apply in_flat_map. exists yy. split.
  { apply in_map_iff. exists (N.to_nat yy). split; [lia|]. apply in_seq. lia. }
  apply in_flat_map. exists mo. split.
  { apply in_map_iff. exists (N.to_nat mo). split; [lia|]. apply in_seq. lia. }
  apply in_map_iff. exists dd. split; [reflexivity|].
  apply in_map_iff. exists (N.to_nat dd). split; [lia|]. apply in_seq. lia.
Qed.

Lemma go_date_valid yy mo dd hh mi ss :
  yy < 100 -> 1 <= mo <= 12 -> 1 <= dd <= days_in_month yy mo -> hh < 24 -> mi < 60 -> ss < 60 ->
  go_date (2000 + Z.of_N yy) (Z.of_N mo) (Z.of_N dd) (Z.of_N hh) (Z.of_N mi) (Z.of_N ss) =
  ((2000 + Z.of_N yy)%Z, Z.of_N mo, Z.of_N dd, Z.of_N hh, Z.of_N mi, Z.of_N ss).
Proof.
  intros Hy Hm Hd Hh Hmi Hs. unfold go_date.
  assert (E1 : ((Z.of_N mo - 1) / 12 = 0)%Z) by (apply Z.div_small; lia).
  assert (E2 : ((Z.of_N mo - 1) mod 12 + 1 = Z.of_N mo)%Z) by (rewrite Z.mod_small; lia).
  assert (E3 : (Z.of_N ss / 60 = 0)%Z) by (apply Z.div_small; lia).
  rewrite E1, E2, E3. rewrite !Z.add_0_r.
  assert (E4 : (Z.of_N mi / 60 = 0)%Z) by (apply Z.div_small; lia). rewrite E4, Z.add_0_r.
  assert (E5 : (Z.of_N hh / 24 = 0)%Z) by (apply Z.div_small; lia). rewrite E5, Z.add_0_r.
  pose proof calendar_sweep as H. rewrite forallb_forall in H.
  specialize (H _ (all_dates_spec yy mo dd Hy Hm Hd)). unfold date_ok in H.
  destruct (civil_from_days _) as [[y' m'] d'].
  apply andb_true_iff in H. destruct H as [H H3]. apply andb_true_iff in H. destruct H as [H1 H2].
  apply Z.eqb_eq in H1, H2, H3. subst.
  rewrite !Z.mod_small by lia. reflexivity.
Qed.

(* ------------------------------------------------------------------ time stamps, either sign of the zone *)
Definition time_vals (t : s_time) : list N := [t_yy t; t_mo t; t_dd t; t_hh t; t_mi t; t_ss t; t_zq t].
Definition time_val (t : s_time) : mtime :=
  TDate (t_yy t) (t_mo t) (t_dd t) (t_hh t) (t_mi t) (t_ss t) (t_zneg t) (t_zq t).

Lemma days_in_month_le yy mo : days_in_month yy mo <= 31.
Proof.
  unfold days_in_month. destruct (mo =? 2); [destruct (leap yy); lia|].
  destruct ((mo =? 4) || (mo =? 6) || (mo =? 9) || (mo =? 11)); lia.
Qed.

Lemma time_vals_small t : time_wf t -> Forall (fun v => v < 100) (time_vals t).
Proof.
  intros [Hy [Hm [Hd [Hh [Hmi [Hs Hz]]]]]]. pose proof (days_in_month_le (t_yy t) (t_mo t)).
  unfold time_vals. repeat constructor; lia.
Qed.

(* the zone octet: quarter hours below 80, sign in bit 3 *)
Definition eighty : list N := map N.of_nat (seq 0 80).
Definition zone_octet (neg : bool) (zq : N) : N := semi2 zq + (if neg then 8 else 0).
Lemma zone_sweep :
  forallb (fun zq => forallb (fun neg =>
     let o := zone_octet neg zq in
     negb (hi4 o =? 15) &&
     (let '(n, q) := zone_of false o (lo4 o * 10 + hi4 o) in Bool.eqb n neg && (q =? zq)) &&
     (N.lor (semi2 zq) 8 =? zone_octet true zq)) [false; true]) eighty = true.
Proof. vm_compute. reflexivity. Qed.
Lemma zone_facts neg zq : zq < 80 ->
  let o := zone_octet neg zq in
  hi4 o <> 15 /\ zone_of false o (lo4 o * 10 + hi4 o) = (neg, zq) /\ N.lor (semi2 zq) 8 = zone_octet true zq.
Proof.
  intros Hz. pose proof zone_sweep as H. rewrite forallb_forall in H.
  assert (Hin : In zq eighty) by (unfold eighty; apply in_map_iff; exists (N.to_nat zq); split; [lia|apply in_seq; lia]).
  specialize (H zq Hin). rewrite forallb_forall in H.
  assert (Hb : In neg [false; true]) by (destruct neg; cbn; auto). specialize (H neg Hb). cbn zeta in H.
  apply andb_true_iff in H. destruct H as [H H3]. apply andb_true_iff in H. destruct H as [H1 H2].
  cbn zeta. destruct (zone_of false (zone_octet neg zq) _) as [n q].
  apply andb_true_iff in H2. destruct H2 as [Hn Hq]. apply Bool.eqb_prop in Hn. apply N.eqb_eq in Hq, H3.
  split; [destruct (N.eqb_spec (hi4 (zone_octet neg zq)) 15); [discriminate|assumption]|].
  split; [rewrite Hn, Hq; reflexivity|exact H3].
Qed.

Lemma scts_shape t : scts t = map semi2 [t_yy t; t_mo t; t_dd t; t_hh t; t_mi t; t_ss t] ++ [zone_octet (t_zneg t) (t_zq t)].
Proof. reflexivity. Qed.

Lemma decode_semi_app vs l : Forall (fun v => v < 100) vs -> decode_semi (map semi2 vs ++ l) = vs ++ decode_semi l.
Proof.
  induction 1 as [|v r Hv _ IH]; [reflexivity|]. cbn [map app decode_semi].
  destruct (semi2_nibbles v Hv) as [Hl Hh]. rewrite Hl, Hh.
  destruct (N.eqb_spec (v mod 10) 15) as [E|_]; [lia|]. rewrite IH. f_equal. lia.
Qed.

Lemma idx7 {A} (a b c d e f g : A) :
  idx [a; b; c; d; e; f; g] 0 = Ok a /\ idx [a; b; c; d; e; f; g] 1 = Ok b /\ idx [a; b; c; d; e; f; g] 2 = Ok c /\
  idx [a; b; c; d; e; f; g] 3 = Ok d /\ idx [a; b; c; d; e; f; g] 4 = Ok e /\ idx [a; b; c; d; e; f; g] 5 = Ok f /\
  idx [a; b; c; d; e; f; g] 6 = Ok g.
Proof. repeat split; reflexivity. Qed.

Lemma time_read_spec t rest :
  time_wf t -> time_read_gen false (scts t ++ rest) = Ok (time_val t, rest).
Proof.
  intros Hwf. pose proof Hwf as [Hy [Hm [Hd [Hh [Hmi [Hs Hzq]]]]]]. pose proof (days_in_month_le (t_yy t) (t_mo t)).
  unfold time_read_gen. rewrite read_n_exact; [|reflexivity|lia].
  cbn [obind]. rewrite scts_shape at 2. rewrite decode_semi_app by (repeat constructor; lia).
  destruct (zone_facts (t_zneg t) (t_zq t) Hzq) as [Hhi [Hzone _]].
  cbn [decode_semi]. destruct (N.eqb_spec (hi4 (zone_octet (t_zneg t) (t_zq t))) 15); [contradiction|].
  unfold time_of_blocks. cbn [negb andb app List.length N.of_nat Pos.of_succ_nat Pos.succ N.ltb N.compare Pos.compare Pos.compare_cont].
  unfold scts at 1.
  repeat match goal with |- context [idx [?a; ?b; ?c; ?d; ?e; ?f; ?g] ?i] =>
    let H := fresh in pose proof (idx7 a b c d e f g) as H;
    destruct H as [H0 [H1 [H2 [H3 [H4 [H5 H6]]]]]]; rewrite ?H0, ?H1, ?H2, ?H3, ?H4, ?H5, ?H6; clear H0 H1 H2 H3 H4 H5 H6 end.
  cbn [obind].
  fold (zone_octet (t_zneg t) (t_zq t)). rewrite Hzone. reflexivity.
Qed.

Lemma or_last_snoc l b m : or_last (l ++ [b]) m = l ++ [N.lor b m].
Proof.
  induction l as [|x r IH]; [reflexivity|]. cbn [app].
  assert (exists y t, r ++ [b] = y :: t) as [y [t E]] by (destruct r; cbn; eauto).
  rewrite E. change (or_last (x :: y :: t) m) with (x :: or_last (y :: t) m). rewrite <- E. rewrite IH. reflexivity.
Qed.

Lemma time_write_spec t : time_wf t -> time_write (time_val t) = scts t.
Proof.
  intros Hwf. pose proof Hwf as [Hy [Hm [Hd [Hh [Hmi [Hs Hzq]]]]]].
  unfold time_write, time_val, time_civil, time_negative. rewrite go_date_valid by assumption.
  replace (2000 + Z.of_N (t_yy t) - 2000)%Z with (Z.of_N (t_yy t)) by lia.
  replace (Z.abs (if t_zneg t then - Z.of_N (t_zq t) else Z.of_N (t_zq t))) with (Z.of_N (t_zq t)) by (destruct (t_zneg t); lia).
  change [Z.of_N (t_yy t); Z.of_N (t_mo t); Z.of_N (t_dd t); Z.of_N (t_hh t); Z.of_N (t_mi t); Z.of_N (t_ss t); Z.of_N (t_zq t)]
    with (map Z.of_N (time_vals t)).
  rewrite encode_semi_semi2 by (apply time_vals_small; exact Hwf).
  rewrite scts_shape. unfold time_vals.
  change (map semi2 [t_yy t; t_mo t; t_dd t; t_hh t; t_mi t; t_ss t; t_zq t])
    with (map semi2 [t_yy t; t_mo t; t_dd t; t_hh t; t_mi t; t_ss t] ++ [semi2 (t_zq t)]).
  destruct (t_zneg t) eqn:Ez.
  - rewrite or_last_snoc. destruct (zone_facts true (t_zq t) Hzq) as [_ [_ ->]]. reflexivity.
  - unfold zone_octet. rewrite N.add_0_r. reflexivity.
Qed.

(* the decoded value: civil date/time 2000+yy … and the SIGNED offset in quarter hours (9.2.3.11) *)
Lemma time_value_spec t : time_wf t ->
  time_civil (time_val t) =
  ((2000 + Z.of_N (t_yy t))%Z, Z.of_N (t_mo t), Z.of_N (t_dd t), Z.of_N (t_hh t), Z.of_N (t_mi t), Z.of_N (t_ss t),
   time_offset_q t).
Proof.
  intros [Hy [Hm [Hd [Hh [Hmi [Hs Hzq]]]]]]. unfold time_val, time_civil, time_offset_q.
  rewrite go_date_valid by assumption. reflexivity.
Qed.

(* ------------------------------------------------------------------ user data *)

(* what the decoder stores: the octets, zero-filled up to TP-UDL (a septet count exceeds the octet count) *)
Definition ud_val (u : s_userdata) : bytes :=
  ud_octets u ++ repeat 0 (N.to_nat (udl u) - List.length (ud_octets u)).

Lemma ud_octets_le u : (List.length (ud_octets u) <= N.to_nat (udl u))%nat.
Proof.
  destruct u as [ss|os]; cbn [ud_octets udl]; unfold nlen.
  - rewrite pack7_length. unfold packed_len. rewrite Nat2N.id. lia.
  - rewrite Nat2N.id. lia.
Qed.
Lemma ud_octets_nil u : ud_octets u = [] -> udl u = 0.
Proof.
  destruct u as [ss|os]; cbn [ud_octets udl]; unfold nlen; intros H.
  - apply (f_equal (@List.length N)) in H. rewrite pack7_length in H. unfold packed_len in H. cbn [List.length] in H. lia.
  - subst. reflexivity.
Qed.

Lemma ud_read u : read_n (udl u) (ud_octets u) = Ok (ud_val u, []).
Proof.
  unfold ud_val. destruct (ud_octets u) as [|b r] eqn:E.
  - rewrite (ud_octets_nil u E). reflexivity.
  - rewrite <- E. apply read_n_short; [rewrite E; discriminate|apply ud_octets_le].
Qed.

Lemma ud_val_length u : List.length (ud_val u) = N.to_nat (udl u).
Proof. unfold ud_val. rewrite app_length, repeat_length. pose proof (ud_octets_le u). lia. Qed.

(* Marshal after the D22 fix: TP-UDL, then the octets the data coding scheme calls for *)
Lemma ud_write dcs u : dcs < 256 -> ud_wf dcs u ->
  (if counts_septets dcs
   then let k := (blen (ud_val u) * 7 + 7) / 8 in
        if blen (ud_val u) <? k then Panic else Ok ((blen (ud_val u) mod 256) :: firstn (N.to_nat k) (ud_val u))
   else Ok ((blen (ud_val u) mod 256) :: ud_val u)) = Ok (udl u :: ud_octets u).
Proof.
  intros Hd Hw. rewrite (dcs_model dcs Hd).
  assert (Hb : blen (ud_val u) = udl u) by (unfold blen; rewrite ud_val_length, N2Nat.id; reflexivity).
  rewrite Hb. destruct u as [ss|os]; cbn [ud_wf] in Hw; destruct Hw as [-> [_ Hl]]; cbn [udl ud_octets] in *.
  - cbn zeta. unfold nlen in *. destruct (N.ltb_spec (N.of_nat (List.length ss)) ((N.of_nat (List.length ss) * 7 + 7) / 8)); [lia|].
    rewrite N.mod_small by lia. f_equal. f_equal.
    unfold ud_val. cbn [ud_octets udl].
    replace (N.to_nat ((N.of_nat (List.length ss) * 7 + 7) / 8)) with (List.length (pack7 ss) + 0)%nat
      by (rewrite pack7_length; unfold packed_len; lia).
    rewrite firstn_app_2. cbn [firstn]. apply app_nil_r.
  - unfold nlen in *. rewrite N.mod_small by lia. f_equal. f_equal.
    unfold ud_val. cbn [ud_octets udl]. unfold nlen. rewrite Nat2N.id, Nat.sub_diag. apply app_nil_r.
Qed.

Lemma udl_small dcs u : ud_wf dcs u -> udl u < 256.
Proof. destruct u; cbn [ud_wf udl]; intros [_ [_ H]]; lia. Qed.

(* ------------------------------------------------------------------ validity periods *)
Definition vp_val (v : s_validity) : vp :=
  match v with
  | VpAbsent => VPNone
  | VpRelative x => VPRel (rel_seconds x)
  | VpEnhanced e => VPEnh (enh_seconds e) (enh_indicator e)
  | VpAbsolute t => VPAbs (time_val t)
  end.

Definition ind_cases : list (N * N * N) :=
  flat_map (fun s => flat_map (fun r => map (fun c => (s, r, c)) [0; 1; 2; 3]) eights) [0; 64].
Lemma ind_sweep : forallb (fun x => let '(s, r, c) := x in N.land (s + 8 * r + c) 7 =? c) ind_cases = true.
Proof. vm_compute. reflexivity. Qed.
Lemma enh_indicator_fmt e : en_reserved e < 8 -> N.land (enh_indicator e) 7 = enh_code (en_fmt e).
Proof.
  intros Hr. unfold enh_indicator. pose proof ind_sweep as H. rewrite forallb_forall in H.
  set (s := if en_single_shot e then 64 else 0).
  assert (Hin : In (s, en_reserved e, enh_code (en_fmt e)) ind_cases).
  { unfold ind_cases. apply in_flat_map. exists s. split; [subst s; destruct (en_single_shot e); cbn; auto|].
    apply in_flat_map. exists (en_reserved e). split.
    { unfold eights. apply in_map_iff. exists (N.to_nat (en_reserved e)). split; [lia|]. apply in_seq. lia. }
    apply in_map_iff. exists (enh_code (en_fmt e)). split; [reflexivity|].
    destruct (en_fmt e); cbn; auto. }
  specialize (H _ Hin). cbn in H. apply N.eqb_eq in H. exact H.
Qed.

Lemma discard_exact (l rest : bytes) n : List.length l = N.to_nat n -> discard n (l ++ rest) = Ok rest.
Proof.
  intros Hl. unfold discard, blen. rewrite app_length.
  destruct (N.ltb_spec (N.of_nat (List.length l + List.length rest)) n); [lia|].
  rewrite <- Hl, skipn_app, Nat.sub_diag, skipn_all, skipn_O. reflexivity.
Qed.

Lemma read_n_1 v rest : read_n 1 (v :: rest) = Ok ([v], rest).
Proof. exact (read_n_exact [v] rest 1 eq_refl ltac:(lia)). Qed.
Lemma read_n_3 a b c rest : read_n 3 (a :: b :: c :: rest) = Ok ([a; b; c], rest).
Proof. exact (read_n_exact [a; b; c] rest 3 eq_refl ltac:(lia)). Qed.
Lemma discard_3 a b c rest : discard 3 (a :: b :: c :: rest) = Ok rest.
Proof. exact (discard_exact [a; b; c] rest 3 eq_refl). Qed.
Lemma discard_5 a b c d e rest : discard 5 (a :: b :: c :: d :: e :: rest) = Ok rest.
Proof. exact (discard_exact [a; b; c; d; e] rest 5 eq_refl). Qed.
Lemma discard_6 a b c d e f rest : discard 6 (a :: b :: c :: d :: e :: f :: rest) = Ok rest.
Proof. exact (discard_exact [a; b; c; d; e; f] rest 6 eq_refl). Qed.
Lemma rel_read_cons v rest : rel_read (v :: rest) = Ok (rel_dur v, rest).
Proof. unfold rel_read. rewrite read_n_1. reflexivity. Qed.

Lemma enh_read_spec e rest : enh_wf e ->
  enh_read_gen false (enh_octets e ++ rest) = Ok (VPEnh (enh_seconds e) (enh_indicator e), rest).
Proof.
  intros [Hr Hf]. unfold enh_read_gen, enh_octets. cbn [app read_byte obind].
  rewrite (enh_indicator_fmt e Hr). unfold enh_seconds.
  destruct (en_fmt e) as [|v|n|hh mm ss]; cbn [enh_code app].
  - cbn [N.eqb Pos.eqb]. rewrite discard_6. reflexivity.
  - cbn [N.eqb Pos.eqb]. rewrite rel_read_cons. cbn [obind]. rewrite discard_5.
    destruct (rel_model v Hf) as [-> _]. reflexivity.
  - cbn [N.eqb Pos.eqb read_byte obind]. rewrite discard_5. reflexivity.
  - destruct Hf as [Hh [Hm Hs]]. cbn [N.eqb Pos.eqb negb andb].
    rewrite read_n_3.
    change [semi2 hh; semi2 mm; semi2 ss] with (map semi2 [hh; mm; ss]).
    rewrite decode_semi_semi2 by (repeat constructor; lia).
    cbn [List.length N.of_nat Pos.of_succ_nat Pos.succ N.ltb N.compare Pos.compare Pos.compare_cont obind idx nth_error N.to_nat Pos.to_nat Pos.iter_op Nat.add].
    rewrite discard_3. reflexivity.
Qed.

Lemma enh_write_spec e : enh_wf e -> enh_write (enh_seconds e) (enh_indicator e) = Ok (enh_octets e).
Proof.
  intros [Hr Hf]. unfold enh_write, enh_octets. rewrite (enh_indicator_fmt e Hr). unfold enh_seconds.
  destruct (en_fmt e) as [|v|n|hh mm ss]; cbn [enh_code].
  - cbn. reflexivity.
  - cbn [N.eqb Pos.eqb]. destruct (rel_model v Hf) as [<- ->]. cbn. reflexivity.
  - cbn [N.eqb Pos.eqb]. rewrite N.mod_small by exact Hf. cbn. reflexivity.
  - destruct Hf as [Hh [Hm Hs]]. cbn [N.eqb Pos.eqb].
    set (d := hh * 3600 + mm * 60 + ss).
    assert (E1 : d / 3600 = hh) by (subst d; lia).
    assert (E2 : d / 60 = hh * 60 + mm) by (subst d; lia).
    rewrite E1, E2.
    replace (Z.of_N (hh * 60 + mm) - Z.of_N hh * 60)%Z with (Z.of_N mm) by lia.
    replace (Z.of_N d - Z.of_N (hh * 60 + mm) * 60)%Z with (Z.of_N ss) by (subst d; lia).
    change [Z.of_N hh; Z.of_N mm; Z.of_N ss] with (map Z.of_N [hh; mm; ss]).
    rewrite encode_semi_semi2 by (repeat constructor; lia). cbn. reflexivity.
Qed.

Lemma vp_read_spec v rest : vp_wf v ->
  (if vpf_bits v =? 1 then do (x, r) <- enh_read_gen false (vp_octets v ++ rest); Ok (TVVP x, r)
   else if vpf_bits v =? 2 then do (d, r) <- rel_read (vp_octets v ++ rest); Ok (TVVP (VPRel d), r)
   else if vpf_bits v =? 3 then do (x, r) <- time_read_gen false (vp_octets v ++ rest); Ok (TVVP (VPAbs x), r)
   else Ok (TVVP VPNone, vp_octets v ++ rest)) = Ok (TVVP (vp_val v), rest).
Proof.
  intros Hwf. destruct v as [|x|e|t]; cbn [vpf_bits vp_octets vp_val vp_wf] in *.
  - reflexivity.
  - cbn [N.eqb Pos.eqb app]. rewrite rel_read_cons. cbn [obind]. destruct (rel_model x Hwf) as [-> _]. reflexivity.
  - cbn [N.eqb Pos.eqb]. rewrite enh_read_spec by exact Hwf. reflexivity.
  - cbn [N.eqb Pos.eqb]. rewrite time_read_spec by assumption. reflexivity.
Qed.

Lemma vp_write_spec g vpf dcs f v : vp_wf v -> f_ekind f = KIface ->
  field_write g vpf dcs f (TVVP (vp_val v)) = Ok (vp_octets v).
Proof.
  intros Hwf Hf. unfold field_write. rewrite Hf.
  destruct v as [|x|e|t]; cbn [vp_val vp_octets vp_wf] in *.
  - reflexivity.
  - destruct (rel_model x Hwf) as [<- E]. unfold rel_octet in E. fold rel_octet in E. rewrite E. reflexivity.
  - apply enh_write_spec. exact Hwf.
  - rewrite time_write_spec by assumption. reflexivity.
Qed.

(* ------------------------------------------------------------------ first octets *)
Definition DF := fs_fields fs_DeliverFlags.
Definition SF := fs_fields fs_SubmitFlags.
Definition VPFname : string := "ValidityPeriodFormat".

Lemma deliver_flags_sweep :
  forallb (fun b => marshal_flags DF (unmarshal_flags DF b 0) 0 =? b) oct256 = true.
Proof. vm_compute. reflexivity. Qed.
Lemma deliver_flags_rt b : b < 256 -> marshal_flags DF (unmarshal_flags DF b 0) 0 = b.
Proof.
  intros Hb. pose proof (sweep_oct _ deliver_flags_sweep b Hb) as H. cbn beta in H. apply N.eqb_eq in H. exact H.
Qed.

Definition submit_vals (b : N) : list N := set_direction SF (unmarshal_flags SF b 0) 1.
Lemma submit_flags_sweep :
  forallb (fun b => (flag_get SF (submit_vals b) VPFname =? (b / 8) mod 4) &&
                    (marshal_flags SF (flag_put SF (submit_vals b) VPFname ((b / 8) mod 4)) 0 =? b)) oct256 = true.
Proof. vm_compute. reflexivity. Qed.
Lemma submit_flags_rt b : b < 256 ->
  flag_get SF (submit_vals b) VPFname = (b / 8) mod 4 /\
  marshal_flags SF (flag_put SF (submit_vals b) VPFname ((b / 8) mod 4)) 0 = b.
Proof.
  intros Hb. pose proof (sweep_oct _ submit_flags_sweep b Hb) as H. cbn beta in H.
  apply andb_true_iff in H. destruct H as [H1 H2]. apply N.eqb_eq in H1, H2. auto.
Qed.

Lemma vpf_bits_small v : vpf_bits v < 4. Proof. destruct v; cbn; lia. Qed.
Lemma submit_first_octet_facts t :
  submit_first_octet t < 256 /\ (submit_first_octet t / 8) mod 4 = vpf_bits (s_vp t) /\
  N.land (submit_first_octet t) 3 = 1.
Proof.
  unfold submit_first_octet. pose proof (vpf_bits_small (s_vp t)) as Hv.
  destruct (s_rd t), (s_srr t), (s_udhi t), (s_rp t); cbn [b2n];
    (split; [lia|split; [lia|]]);
    destruct (s_vp t); cbn; reflexivity.
Qed.
Lemma deliver_first_octet_facts t :
  deliver_first_octet t < 256 /\ N.land (deliver_first_octet t) 3 = 0.
Proof.
  unfold deliver_first_octet.
  destruct (d_mms t), (d_bit3 t), (d_bit4 t), (d_sri t), (d_udhi t), (d_rp t); cbn; (split; [lia|reflexivity]).
Qed.

(* ------------------------------------------------------------------ getType on a laid-out TPDU *)
Lemma nth_error_firstn_lt {A} (l : list A) n i : (i < n)%nat -> nth_error (firstn n l) i = nth_error l i.
Proof.
  revert n i. induction l as [|x l IH]; intros n i Hi.
  - rewrite firstn_nil. reflexivity.
  - destruct n as [|n]; [lia|]. destruct i as [|i]; [reflexivity|]. cbn. apply IH. lia.
Qed.
Lemma nth_error_mid {A} (p q : list A) x : nth_error (p ++ x :: q) (List.length p) = Some x.
Proof. rewrite nth_error_app2 by lia. rewrite Nat.sub_diag. reflexivity. Qed.

(* the SC address element is [l :: p] with |p| = l; then the first octet and the octet after it *)
Lemma get_type_at l (p : bytes) fo g rest :
  N.of_nat (List.length p) = l ->
  get_type (l :: p ++ fo :: g :: rest) =
  Ok (N.land (N.lor (N.shiftl (N.land fo 3) 1) (if l =? 0 then 1 else 0)) 7, 127 <? g).
Proof.
  intros Hl. unfold get_type.
  assert (Hlen : blen (l :: p ++ fo :: g :: rest) = l + 3 + N.of_nat (List.length rest)).
  { unfold blen. cbn [List.length]. rewrite app_length. cbn [List.length]. lia. }
  destruct (N.ltb_spec (blen (l :: p ++ fo :: g :: rest)) (l + 3)); [lia|].
  unfold idx.
  rewrite !nth_error_firstn_lt by lia.
  replace (N.to_nat (l + 1)) with (List.length (l :: p)) by (cbn [List.length]; lia).
  change (l :: p ++ fo :: g :: rest) with ((l :: p) ++ fo :: g :: rest). rewrite nth_error_mid.
  replace (N.to_nat (l + 2)) with (List.length ((l :: p) ++ [fo])) by (rewrite app_length; cbn [List.length]; lia).
  replace ((l :: p) ++ fo :: g :: rest) with (((l :: p) ++ [fo]) ++ g :: rest) by (rewrite <- app_assoc; reflexivity).
  rewrite nth_error_mid. reflexivity.
Qed.

(* ------------------------------------------------------------------ single fields *)
Lemma fields_read_step t st f rest bs v r :
  u_pi st = None -> field_read false t st f bs = Ok (v, r) ->
  fields_read false t st (f :: rest) bs =
  (do vs <- fields_read false t (state_after st f v) rest r; Ok (v :: vs)).
Proof. intros Hpi Hf. cbn [fields_read]. rewrite Hpi, Hf. reflexivity. Qed.

Lemma fr_sc g st f a ds rest :
  f_dkind f = KSCAddr -> sa_val a = Digits ds -> addr_wf a ->
  field_read false g st f (sc_addr a ++ rest) = Ok (TVAddr (addr_num_val a ds), rest).
Proof. intros Hf Hv Hw. unfold field_read. rewrite Hf. rewrite (sc_read_numeric g a ds rest Hv Hw). reflexivity. Qed.
Lemma fr_sc_empty g st f rest :
  f_dkind f = KSCAddr -> field_read false g st f (0 :: rest) = Ok (TVAddr addr0, rest).
Proof. intros Hf. unfold field_read. rewrite Hf. reflexivity. Qed.
Lemma fr_addr st f a rest :
  f_dkind f = KAddr -> addr_wf a -> addr_ok a ->
  field_read false g7_table st f (tp_addr a ++ rest) = Ok (TVAddr (addr_val a), rest).
Proof. intros Hf Hw Hd. unfold field_read. rewrite Hf. rewrite (addr_read_spec a rest Hw Hd). reflexivity. Qed.
Lemma fr_byte g st f b rest : f_dkind f = KByte -> field_read false g st f (b :: rest) = Ok (TVByte b, rest).
Proof. intros Hf. unfold field_read. rewrite Hf. reflexivity. Qed.
Lemma fr_flags_nodir g st f fs b rest :
  f_dkind f = KFlags fs -> fs_dir fs = false ->
  field_read false g st f (b :: rest) = Ok (TVFlags (unmarshal_flags (fs_fields fs) b 0), rest).
Proof. intros Hf Hd. unfold field_read. rewrite Hf. cbn [read_byte obind]. rewrite Hd. reflexivity. Qed.
Lemma fr_flags_dir g st f fs b d rest :
  f_dkind f = KFlags fs -> fs_dir fs = true -> dir_of_tag (f_dirtag f) = Some d ->
  field_read false g st f (b :: rest) = Ok (TVFlags (set_direction (fs_fields fs) (unmarshal_flags (fs_fields fs) b 0) d), rest).
Proof. intros Hf Hd Ht. unfold field_read. rewrite Hf. cbn [read_byte obind]. rewrite Hd, Ht. reflexivity. Qed.
Lemma fr_time g st f t rest :
  f_dkind f = KTime -> time_wf t ->
  field_read false g st f (scts t ++ rest) = Ok (TVTime (time_val t), rest).
Proof. intros Hf Hw. unfold field_read. rewrite Hf. rewrite time_read_spec by assumption. reflexivity. Qed.
Lemma fr_ud g st f u :
  f_dkind f = KBytes -> field_read false g st f (udl u :: ud_octets u) = Ok (TVBytes (ud_val u), []).
Proof. intros Hf. unfold field_read. rewrite Hf. cbn [read_byte obind]. rewrite ud_read. reflexivity. Qed.
Lemma fr_vp g st f v rest :
  f_dkind f = KIface -> f_tp f = "VP"%string -> u_vpf st = vpf_bits v -> vp_wf v ->
  field_read false g st f (vp_octets v ++ rest) = Ok (TVVP (vp_val v), rest).
Proof.
  intros Hf Htp Hst Hw. unfold field_read. rewrite Hf, Htp, Hst. cbn [String.eqb Ascii.eqb Bool.eqb].
  apply vp_read_spec; assumption.
Qed.

Lemma fw_ud g vpf f u dcs : f_ekind f = KBytes -> f_tp f = "UD"%string -> dcs < 256 -> ud_wf dcs u ->
  field_write g vpf dcs f (TVBytes (ud_val u)) = Ok (udl u :: ud_octets u).
Proof.
  intros Hf Htp Hd Hw. unfold field_write. rewrite Hf, Htp. cbn [String.eqb Ascii.eqb Bool.eqb andb].
  apply ud_write; assumption.
Qed.

(* ------------------------------------------------------------------ SMS-DELIVER *)
Definition layout_of (name : string) : tlayout :=
  match find_layout tpdu_layouts name with Some l => l | None => {| tl_name := ""; tl_fields := [] |} end.
Definition deliver_fields : list tfield := Eval vm_compute in tl_fields (layout_of "Deliver").
Definition submit_fields : list tfield := Eval vm_compute in tl_fields (layout_of "Submit").
Lemma find_deliver : find_layout tpdu_layouts "Deliver" = Some {| tl_name := "Deliver"; tl_fields := deliver_fields |}.
Proof. vm_compute. reflexivity. Qed.
Lemma find_submit : find_layout tpdu_layouts "Submit" = Some {| tl_name := "Submit"; tl_fields := submit_fields |}.
Proof. vm_compute. reflexivity. Qed.

Definition digits_of (a : s_addr) : list N := match sa_val a with Digits ds => ds | Alnum _ => [] end.
Definition is_numeric (a : s_addr) : Prop := match sa_val a with Digits _ => True | Alnum _ => False end.
Lemma numeric_val a : is_numeric a -> sa_val a = Digits (digits_of a).
Proof. unfold is_numeric, digits_of. destruct (sa_val a); [reflexivity|contradiction]. Qed.

Definition deliver_vals (t : s_deliver) : list tval :=
  [TVAddr (addr_num_val (d_sc t) (digits_of (d_sc t)));
   TVFlags (unmarshal_flags DF (deliver_first_octet t) 0);
   TVAddr (addr_val (d_oa t));
   TVByte (d_pid t); TVByte (d_dcs t);
   TVTime (time_val (d_scts t));
   TVBytes (ud_val (d_ud t))].

Lemma sc_addr_shape a : sc_wf a -> exists l p, sc_addr a = l :: p /\ N.of_nat (List.length p) = l /\ l <> 0.
Proof.
  intros [[_ [_ Hw]] Hnum]. unfold sc_addr. destruct (sa_val a) as [ds|ss]; [|contradiction].
  exists (1 + nlen (semi_octets ds)), (toa_octet a :: semi_octets ds). split; [reflexivity|].
  unfold nlen. cbn [List.length]. split; lia.
Qed.
Lemma tp_addr_head a : exists g r, tp_addr a = g :: r.
Proof. unfold tp_addr. destruct (sa_val a); eauto. Qed.

Theorem deliver_decode t :
  deliver_wf t -> addr_ok (d_oa t) ->
  sms_unmarshal (layout_deliver t) = Ok ("Deliver"%string, deliver_vals t).
Proof.
  intros [Hsc [Hoa [Hpid [Hdcs [Hts Hud]]]]] Hnum.
  pose proof Hsc as [Hsc_wf Hsc_num].
  assert (Hscv : sa_val (d_sc t) = Digits (digits_of (d_sc t))).
  { apply numeric_val. unfold is_numeric. destruct (sa_val (d_sc t)); [exact I|contradiction]. }
  destruct (deliver_first_octet_facts t) as [Hfo Hmti].
  unfold sms_unmarshal, unmarshal, unmarshal_gen, layout_deliver.
  (* type detection *)
  destruct (sc_addr_shape _ Hsc) as [l [p [Esc [Hl Hl0]]]].
  destruct (tp_addr_head (d_oa t)) as [g [r Eoa]].
  assert (Egt : get_type (sc_addr (d_sc t) ++ deliver_first_octet t :: tp_addr (d_oa t) ++
                 d_pid t :: d_dcs t :: scts (d_scts t) ++ udl (d_ud t) :: ud_octets (d_ud t)) = Ok (0, 127 <? g)).
  { rewrite Esc, Eoa. cbn [app]. rewrite (get_type_at l p _ g _ Hl). rewrite Hmti.
    destruct (N.eqb_spec l 0); [contradiction|]. reflexivity. }
  rewrite Egt. cbn [obind struct_of]. change (e_layouts sms_env) with tpdu_layouts. rewrite find_deliver.
  cbn [tl_fields e_g7 sms_env]. unfold deliver_fields.
  (* the field walk *)
  erewrite fields_read_step; [|reflexivity|apply fr_sc; [reflexivity|exact Hscv|exact Hsc_wf]].
  cbn [state_after f_dkind].
  erewrite fields_read_step; [|reflexivity|apply (fr_flags_nodir _ _ _ fs_DeliverFlags); reflexivity].
  cbn [state_after f_dkind fs_name fs_DeliverFlags String.eqb Ascii.eqb Bool.eqb].
  erewrite fields_read_step; [|reflexivity|apply fr_addr; [reflexivity|exact Hoa|exact Hnum]].
  cbn [state_after f_dkind].
  erewrite fields_read_step; [|reflexivity|apply fr_byte; reflexivity].
  cbn [state_after f_dkind].
  erewrite fields_read_step; [|reflexivity|apply fr_byte; reflexivity].
  cbn [state_after f_dkind].
  erewrite fields_read_step; [|reflexivity|apply fr_time; [reflexivity|exact Hts]].
  cbn [state_after f_dkind].
  erewrite fields_read_step; [|reflexivity|apply fr_ud; reflexivity].
  cbn [fields_read obind]. reflexivity.
Qed.

(* ------------------------------------------------------------------ writing single fields *)
Lemma fields_write_step g vpf dcs f fr v vr a :
  field_write g vpf dcs f v = Ok a ->
  fields_write g vpf dcs (f :: fr) (v :: vr) = (do b <- fields_write g vpf (dcs_after dcs f v) fr vr; Ok (a ++ b)).
Proof. intros H. cbn [fields_write]. rewrite H. reflexivity. Qed.

Lemma fw_sc g vpf dcs f a ds : f_ekind f = KSCAddr -> sa_val a = Digits ds -> addr_wf a ->
  field_write g vpf dcs f (TVAddr (addr_num_val a ds)) = Ok (sc_addr a).
Proof. intros Hf Hv Hw. unfold field_write. rewrite Hf, sc_write_numeric by assumption. reflexivity. Qed.
Lemma fw_sc_empty g vpf dcs f : f_ekind f = KSCAddr -> field_write g vpf dcs f (TVAddr addr0) = Ok [0].
Proof. intros Hf. unfold field_write. rewrite Hf. reflexivity. Qed.
Lemma fw_addr vpf dcs f a : f_ekind f = KAddr -> addr_wf a -> addr_ok a ->
  field_write g7_table vpf dcs f (TVAddr (addr_val a)) = Ok (tp_addr a).
Proof. intros Hf Hw Hd. unfold field_write. rewrite Hf, addr_write_spec by assumption. reflexivity. Qed.
Lemma fw_byte g vpf dcs f b : f_ekind f = KByte -> field_write g vpf dcs f (TVByte b) = Ok [b].
Proof. intros Hf. unfold field_write. rewrite Hf. reflexivity. Qed.
Lemma fw_time g vpf dcs f t : f_ekind f = KTime -> time_wf t ->
  field_write g vpf dcs f (TVTime (time_val t)) = Ok (scts t).
Proof. intros Hf Hw. unfold field_write. rewrite Hf, time_write_spec by assumption. reflexivity. Qed.
Lemma fw_flags_plain g vpf dcs f fs vals : f_ekind f = KFlags fs -> String.eqb (fs_name fs) "SubmitFlags" = false ->
  field_write g vpf dcs f (TVFlags vals) = Ok [marshal_flags (fs_fields fs) vals 0].
Proof. intros Hf Hn. unfold field_write. rewrite Hf, Hn. reflexivity. Qed.
Lemma fw_flags_submit g vpf dcs f fs vals : f_ekind f = KFlags fs -> String.eqb (fs_name fs) "SubmitFlags" = true ->
  field_write g vpf dcs f (TVFlags vals) =
  Ok [marshal_flags (fs_fields fs) (flag_put (fs_fields fs) vals "ValidityPeriodFormat" vpf) 0].
Proof. intros Hf Hn. unfold field_write. rewrite Hf, Hn. reflexivity. Qed.

(* THE ROUND TRIP, SMS-DELIVER.  Only exclusion: the alphanumeric-address classes of [addr_ok]. *)
Theorem deliver_roundtrip t :
  deliver_wf t -> addr_ok (d_oa t) ->
  sms_remarshal (layout_deliver t) = Ok (layout_deliver t).
Proof.
  intros Hwf Hnum.
  unfold sms_remarshal, remarshal. fold sms_unmarshal. rewrite (deliver_decode t Hwf Hnum). cbn [obind].
  destruct Hwf as [Hsc [Hoa [Hpid [Hdcs [Hts Hud]]]]]. pose proof Hsc as [Hsc_wf Hsc_num].
  assert (Hscv : sa_val (d_sc t) = Digits (digits_of (d_sc t))).
  { apply numeric_val. unfold is_numeric. destruct (sa_val (d_sc t)); [exact I|contradiction]. }
  destruct (deliver_first_octet_facts t) as [Hfo _].
  unfold marshal. change (e_layouts sms_env) with tpdu_layouts. rewrite find_deliver.
  cbn [tl_fields e_g7 sms_env]. set (vpf := vpf_scan _ _ _). clearbody vpf.
  unfold deliver_fields, deliver_vals.
  erewrite fields_write_step; [|apply fw_sc; [reflexivity|exact Hscv|exact Hsc_wf]].
  cbn [dcs_after f_ekind].
  erewrite fields_write_step; [|apply (fw_flags_plain _ _ _ _ fs_DeliverFlags); reflexivity].
  cbn [dcs_after f_ekind].
  erewrite fields_write_step; [|apply fw_addr; [reflexivity|exact Hoa|exact Hnum]].
  cbn [dcs_after f_ekind].
  erewrite fields_write_step; [|apply fw_byte; reflexivity].
  cbn [dcs_after f_ekind f_tp String.eqb Ascii.eqb Bool.eqb].
  erewrite fields_write_step; [|apply fw_byte; reflexivity].
  cbn [dcs_after f_ekind f_tp String.eqb Ascii.eqb Bool.eqb].
  erewrite fields_write_step; [|apply fw_time; [reflexivity|exact Hts]].
  cbn [dcs_after f_ekind].
  erewrite fields_write_step; [|eapply fw_ud; [reflexivity|reflexivity|exact Hdcs|exact Hud]].
  cbn [fields_write obind]. fold DF. rewrite (deliver_flags_rt _ Hfo).
  unfold layout_deliver. rewrite app_nil_r. cbn [app]. reflexivity.
Qed.

(* ------------------------------------------------------------------ SMS-SUBMIT *)
Definition submit_vals_list (t : s_submit) : list tval :=
  [TVAddr addr0;
   TVFlags (submit_vals (submit_first_octet t));
   TVByte (s_mr t);
   TVAddr (addr_val (s_da t));
   TVByte (s_pid t); TVByte (s_dcs t);
   TVVP (vp_val (s_vp t));
   TVBytes (ud_val (s_ud t))].

Theorem submit_decode t :
  submit_wf t -> addr_ok (s_da t) ->
  sms_unmarshal (layout_submit t) = Ok ("Submit"%string, submit_vals_list t).
Proof.
  intros [Hmr [Hda [Hpid [Hdcs [Hvp Hud]]]]] Hnum.
  destruct (submit_first_octet_facts t) as [Hfo [Hvpf Hmti]].
  unfold sms_unmarshal, unmarshal, unmarshal_gen, layout_submit.
  assert (Egt : get_type (0 :: submit_first_octet t :: s_mr t :: tp_addr (s_da t) ++ s_pid t :: s_dcs t ::
                 vp_octets (s_vp t) ++ udl (s_ud t) :: ud_octets (s_ud t)) = Ok (3, 127 <? s_mr t)).
  { pose proof (get_type_at 0 [] (submit_first_octet t) (s_mr t)
                 (tp_addr (s_da t) ++ s_pid t :: s_dcs t :: vp_octets (s_vp t) ++ udl (s_ud t) :: ud_octets (s_ud t)) eq_refl) as E.
    cbn [app] in E. rewrite E, Hmti. reflexivity. }
  rewrite Egt. cbn [obind struct_of]. change (e_layouts sms_env) with tpdu_layouts. rewrite find_submit.
  cbn [tl_fields e_g7 sms_env]. unfold submit_fields.
  erewrite fields_read_step; [|reflexivity|apply fr_sc_empty; reflexivity].
  cbn [state_after f_dkind].
  erewrite fields_read_step; [|reflexivity|apply (fr_flags_dir _ _ _ fs_SubmitFlags _ 1); reflexivity].
  cbn [state_after f_dkind fs_name fs_SubmitFlags String.eqb Ascii.eqb Bool.eqb u_pi st0].
  erewrite fields_read_step; [|reflexivity|apply fr_byte; reflexivity].
  cbn [state_after f_dkind].
  erewrite fields_read_step; [|reflexivity|apply fr_addr; [reflexivity|exact Hda|exact Hnum]].
  cbn [state_after f_dkind].
  erewrite fields_read_step; [|reflexivity|apply fr_byte; reflexivity].
  cbn [state_after f_dkind].
  erewrite fields_read_step; [|reflexivity|apply fr_byte; reflexivity].
  cbn [state_after f_dkind].
  erewrite fields_read_step; [|reflexivity|apply fr_vp; [reflexivity|reflexivity| |exact Hvp]].
  2: { cbn [u_vpf]. change (flag_get SF (submit_vals (submit_first_octet t)) VPFname = vpf_bits (s_vp t)).
       destruct (submit_flags_rt _ Hfo) as [E _]. rewrite E. exact Hvpf. }
  cbn [state_after f_dkind].
  erewrite fields_read_step; [|reflexivity|apply fr_ud; reflexivity].
  cbn [fields_read obind]. reflexivity.
Qed.

Lemma vpf_of_vp_val v : vpf_of (vp_val v) = vpf_bits v.
Proof. destruct v; reflexivity. Qed.

Lemma submit_vpf_scan a b c d e f0 v h : vpf_scan submit_fields [a; b; c; d; e; f0; TVVP v; h] 0 = vpf_of v.
Proof. destruct v; reflexivity. Qed.

(* THE ROUND TRIP, SMS-SUBMIT *)
Theorem submit_roundtrip t :
  submit_wf t -> addr_ok (s_da t) ->
  sms_remarshal (layout_submit t) = Ok (layout_submit t).
Proof.
  intros Hwf Hnum.
  unfold sms_remarshal, remarshal. fold sms_unmarshal. rewrite (submit_decode t Hwf Hnum). cbn [obind].
  destruct Hwf as [Hmr [Hda [Hpid [Hdcs [Hvp Hud]]]]].
  destruct (submit_first_octet_facts t) as [Hfo [Hvpf Hmti]].
  unfold marshal. change (e_layouts sms_env) with tpdu_layouts. rewrite find_submit.
  cbn [tl_fields e_g7 sms_env].
  assert (Evpf : vpf_scan submit_fields (submit_vals_list t) 0 = vpf_bits (s_vp t)).
  { unfold submit_vals_list. rewrite submit_vpf_scan. apply vpf_of_vp_val. }
  rewrite Evpf. unfold submit_fields, submit_vals_list.
  erewrite fields_write_step; [|apply fw_sc_empty; reflexivity].
  cbn [dcs_after f_ekind].
  erewrite fields_write_step; [|apply (fw_flags_submit _ _ _ _ fs_SubmitFlags); reflexivity].
  cbn [dcs_after f_ekind].
  erewrite fields_write_step; [|apply fw_byte; reflexivity].
  cbn [dcs_after f_ekind f_tp String.eqb Ascii.eqb Bool.eqb].
  erewrite fields_write_step; [|apply fw_addr; [reflexivity|exact Hda|exact Hnum]].
  cbn [dcs_after f_ekind].
  erewrite fields_write_step; [|apply fw_byte; reflexivity].
  cbn [dcs_after f_ekind f_tp String.eqb Ascii.eqb Bool.eqb].
  erewrite fields_write_step; [|apply fw_byte; reflexivity].
  cbn [dcs_after f_ekind f_tp String.eqb Ascii.eqb Bool.eqb].
  erewrite fields_write_step; [|apply vp_write_spec; [exact Hvp|reflexivity]].
  cbn [dcs_after f_ekind].
  erewrite fields_write_step; [|eapply fw_ud; [reflexivity|reflexivity|exact Hdcs|exact Hud]].
  cbn [fields_write obind].
  destruct (submit_flags_rt _ Hfo) as [_ E]. rewrite Hvpf in E.
  change (marshal_flags _ (flag_put _ _ _ _) 0) with
    (marshal_flags SF (flag_put SF (submit_vals (submit_first_octet t)) VPFname (vpf_bits (s_vp t))) 0).
  rewrite E. unfold layout_submit. rewrite app_nil_r. cbn [app]. reflexivity.
Qed.

(* ------------------------------------------------------------------ the decoded values are the standard's *)
(* the address text: the digits in ASCII, or the characters of the septets in the tables of the running
   code ([code_text]; [code_text_spec] / [g7_esc_is_spec] compare those tables with GSM 03.38 6.2.1) *)
Definition addr_text_spec (a : s_addr) : list N :=
  match sa_val a with Digits ds => ascii_digits ds | Alnum ss => code_text ss end.
Lemma addr_val_text a : addr_val a = {| a_npi := sa_npi a; a_ton := sa_ton a; a_no := addr_text_spec a |}.
Proof. unfold addr_val, addr_text_spec. destruct (sa_val a); reflexivity. Qed.
(* … and against the standard: the same characters unless code 0x09 occurs (D16) *)
Lemma addr_text_standard a : addr_wf a -> 
  match sa_val a with
  | Digits ds => addr_text_spec a = ascii_digits ds
  | Alnum ss => ~ In 9 ss -> addr_text_spec a = gsm_text ss
  end.
Proof.
  intros [_ [_ Hw]]. unfold addr_text_spec. destruct (sa_val a) as [ds|ss]; [reflexivity|].
  destruct Hw as [_ [Hv _]]. intros H9. apply code_text_spec; assumption.
Qed.

Theorem deliver_values t :
  deliver_wf t -> addr_ok (d_oa t) ->
  exists fl sc oa ts ud,
    sms_unmarshal (layout_deliver t) =
      Ok ("Deliver"%string, [TVAddr sc; TVFlags fl; TVAddr oa; TVByte (d_pid t); TVByte (d_dcs t); TVTime ts; TVBytes ud]) /\
    sc = {| a_npi := sa_npi (d_sc t); a_ton := sa_ton (d_sc t); a_no := ascii_digits (digits_of (d_sc t)) |} /\
    oa = {| a_npi := sa_npi (d_oa t); a_ton := sa_ton (d_oa t); a_no := addr_text_spec (d_oa t) |} /\
    time_civil ts = ((2000 + Z.of_N (t_yy (d_scts t)))%Z, Z.of_N (t_mo (d_scts t)), Z.of_N (t_dd (d_scts t)),
                     Z.of_N (t_hh (d_scts t)), Z.of_N (t_mi (d_scts t)), Z.of_N (t_ss (d_scts t)), time_offset_q (d_scts t)) /\
    ud = ud_octets (d_ud t) ++ repeat 0 (N.to_nat (udl (d_ud t)) - List.length (ud_octets (d_ud t))).
Proof.
  intros Hwf Hnum. do 5 eexists. split; [apply deliver_decode; assumption|].
  split; [reflexivity|]. split; [apply addr_val_text|]. split; [|reflexivity].
  apply time_value_spec. apply Hwf.
Qed.

Definition vp_seconds (v : s_validity) : option N :=
  match v with VpRelative x => Some (rel_seconds x) | VpEnhanced e => Some (enh_seconds e) | _ => None end.
Definition vp_decoded_seconds (v : vp) : option N :=
  match v with VPRel d => Some d | VPEnh d _ => Some d | _ => None end.

Theorem submit_values t :
  submit_wf t -> addr_ok (s_da t) ->
  exists fl da v ud,
    sms_unmarshal (layout_submit t) =
      Ok ("Submit"%string, [TVAddr addr0; TVFlags fl; TVByte (s_mr t); TVAddr da; TVByte (s_pid t); TVByte (s_dcs t); TVVP v; TVBytes ud]) /\
    da = {| a_npi := sa_npi (s_da t); a_ton := sa_ton (s_da t); a_no := addr_text_spec (s_da t) |} /\
    vpf_of v = vpf_bits (s_vp t) /\ vp_decoded_seconds v = vp_seconds (s_vp t) /\
    (forall ts, s_vp t = VpAbsolute ts -> exists x, v = VPAbs x /\
        time_civil x = ((2000 + Z.of_N (t_yy ts))%Z, Z.of_N (t_mo ts), Z.of_N (t_dd ts), Z.of_N (t_hh ts), Z.of_N (t_mi ts), Z.of_N (t_ss ts), time_offset_q ts)) /\
    (forall e, s_vp t = VpEnhanced e -> v = VPEnh (enh_seconds e) (enh_indicator e)) /\
    ud = ud_octets (s_ud t) ++ repeat 0 (N.to_nat (udl (s_ud t)) - List.length (ud_octets (s_ud t))).
Proof.
  intros Hwf Hnum. do 4 eexists. split; [apply submit_decode; assumption|].
  split; [apply addr_val_text|]. split; [apply vpf_of_vp_val|].
  split; [destruct (s_vp t); reflexivity|].
  split; [|split; [|reflexivity]].
  - intros ts E. destruct Hwf as [_ [_ [_ [_ [Hvp _]]]]]. rewrite E in *. eexists. split; [reflexivity|].
    apply time_value_spec. exact Hvp.
  - intros e E. rewrite E. reflexivity.
Qed.

(* ------------------------------------------------------------------ witnesses *)
Ltac wf_tac := repeat (split || constructor || lia || reflexivity || (intro; discriminate) || exact I).

Definition w_sc : s_addr := {| sa_ton := 1; sa_npi := 1; sa_val := Digits [3; 1; 6; 2; 4; 0; 0; 0; 0; 0; 0] |}.
Definition w_oa : s_addr := {| sa_ton := 1; sa_npi := 1; sa_val := Digits [0; 0; 4; 9; 1; 7; 0; 0; 9; 8] |}.   (* even count, leading zeros *)
(* leap day, GMT-5 (minus 20 quarter hours) *)
Definition w_time : s_time := {| t_yy := 24; t_mo := 2; t_dd := 29; t_hh := 23; t_mi := 59; t_ss := 58; t_zneg := true; t_zq := 20 |}.
Definition w_time_minus_zero : s_time := {| t_yy := 2; t_mo := 8; t_dd := 26; t_hh := 19; t_mi := 37; t_ss := 41; t_zneg := true; t_zq := 0 |}.
(* non-vacuity, inside every class that was a known finding before the repairs: TP-UDHI and TP-RP set
   (D24), negative zone (D19), 7-bit user data whose last octet is 0x00 (D22) *)
Definition w_deliver : s_deliver :=
  {| d_sc := w_sc; d_mms := true; d_bit3 := false; d_bit4 := false; d_sri := true; d_udhi := true; d_rp := true;
     d_oa := w_oa; d_pid := 0; d_dcs := 0; d_scts := w_time; d_ud := UdSeptets [72; 101; 108; 108; 111; 32; 119; 0; 0] |}.
(* absolute validity period with zone "minus zero", 8-bit data ending in 0x00, 12 h 30 min would be VpRelative 144 *)
Definition w_submit : s_submit :=
  {| s_rd := true; s_srr := false; s_udhi := true; s_rp := true; s_mr := 7; s_da := w_oa; s_pid := 0; s_dcs := 4;
     s_vp := VpAbsolute w_time_minus_zero; s_ud := UdOctets [65; 0; 0] |}.
(* alphanumeric destination of six septets: "[" (ESC 0x3C), "A", CR, euro sign (ESC 0x65) *)
Definition w_alnum_ok : s_submit :=
  {| s_rd := false; s_srr := false; s_udhi := false; s_rp := false; s_mr := 7;
     s_da := {| sa_ton := 5; sa_npi := 0; sa_val := Alnum [27; 60; 65; 13; 27; 101] |};
     s_pid := 0; s_dcs := 4; s_vp := VpRelative 144; s_ud := UdOctets [1; 2; 3; 4] |}.

Lemma w_deliver_wf : deliver_wf w_deliver. Proof. unfold deliver_wf, sc_wf, addr_wf, time_wf, ud_wf; cbn. wf_tac. Qed.
Lemma w_submit_wf : submit_wf w_submit. Proof. unfold submit_wf, addr_wf, vp_wf, time_wf, ud_wf; cbn. wf_tac. Qed.
Lemma w_alnum_wf : submit_wf w_alnum_ok. Proof. unfold submit_wf, addr_wf, vp_wf, ud_wf; cbn. wf_tac. Qed.

Lemma w_deliver_example :
  sms_remarshal (layout_deliver w_deliver) = Ok (layout_deliver w_deliver) /\
  layout_deliver w_deliver = hx "07911326040000F0E40A91009471008900004220923295850A09C8329BFD06DD0100".
Proof. split; [apply deliver_roundtrip; [exact w_deliver_wf|exact I]|vm_compute; reflexivity]. Qed.
Lemma w_submit_example :
  sms_remarshal (layout_submit w_submit) = Ok (layout_submit w_submit) /\
  layout_submit w_submit = hx "00DD070A91009471008900042080629173140803410000".
Proof. split; [apply submit_roundtrip; [exact w_submit_wf|exact I]|vm_compute; reflexivity]. Qed.
Lemma w_alnum_example :
  sms_remarshal (layout_submit w_alnum_ok) = Ok (layout_submit w_alnum_ok) /\
  layout_submit w_alnum_ok = hx "0011070BD01B5EB0B129030004900401020304" /\
  exists vs, sms_unmarshal (layout_submit w_alnum_ok) = Ok ("Submit"%string, vs) /\
             nth_error vs 3 = Some (TVAddr {| a_npi := 0; a_ton := 5; a_no := [91; 65; 13; 8364] |}).
Proof.
  split; [|split; [vm_compute; reflexivity|eexists; split; [vm_compute; reflexivity|reflexivity]]].
  apply submit_roundtrip; [exact w_alnum_wf|].
  unfold addr_ok, alnum_ok, ends_in_filler_cr; cbn. split; [lia|]. intros [_ [H _]]. discriminate H.
Qed.

(* ---- the remaining known classes *)
(* D21 (what is left): seven septets "message" - the seven fill bits are decoded as an eighth character '@'
   and the length octet comes back as 14 instead of 13 *)
Definition w_d21 : s_submit :=
  {| s_rd := false; s_srr := false; s_udhi := false; s_rp := false; s_mr := 7;
     s_da := {| sa_ton := 5; sa_npi := 1; sa_val := Alnum [109; 101; 115; 115; 97; 103; 101] |};
     s_pid := 0; s_dcs := 4; s_vp := VpAbsent; s_ud := UdOctets [1; 2; 3] |}.
Lemma alnum_seven_septets_refuted :
  submit_wf w_d21 /\ nth 3 (layout_submit w_d21) 0 = 13 /\
  sms_remarshal (layout_submit w_d21) <> Ok (layout_submit w_d21) /\
  exists out vs, sms_remarshal (layout_submit w_d21) = Ok out /\ nth 3 out 0 = 14 /\
    sms_unmarshal (layout_submit w_d21) = Ok ("Submit"%string, vs) /\
    nth_error vs 3 = Some (TVAddr {| a_npi := 1; a_ton := 5; a_no := [109; 101; 115; 115; 97; 103; 101; 64] |}).
Proof.
  split; [unfold submit_wf, addr_wf, vp_wf, ud_wf; cbn; wf_tac|]. split; [reflexivity|].
  split; [vm_compute; discriminate|].
  do 2 eexists. split; [vm_compute; reflexivity|]. split; [reflexivity|]. split; [vm_compute; reflexivity|reflexivity].
Qed.
(* eight septets ending in CR: the decoder takes the CR for the filler; the octets still round-trip *)
Definition w_cr8 : s_submit :=
  {| s_rd := false; s_srr := false; s_udhi := false; s_rp := false; s_mr := 7;
     s_da := {| sa_ton := 5; sa_npi := 1; sa_val := Alnum [109; 101; 115; 115; 97; 103; 101; 13] |};
     s_pid := 0; s_dcs := 4; s_vp := VpAbsent; s_ud := UdOctets [1; 2; 3] |}.
Lemma alnum_eight_septets_cr_refuted :
  submit_wf w_cr8 /\ ends_in_filler_cr [109; 101; 115; 115; 97; 103; 101; 13] /\
  sms_remarshal (layout_submit w_cr8) = Ok (layout_submit w_cr8) /\
  exists vs, sms_unmarshal (layout_submit w_cr8) = Ok ("Submit"%string, vs) /\
    nth_error vs 3 = Some (TVAddr {| a_npi := 1; a_ton := 5; a_no := [109; 101; 115; 115; 97; 103; 101] |}) /\
    gsm_text [109; 101; 115; 115; 97; 103; 101; 13] = [109; 101; 115; 115; 97; 103; 101; 13].
Proof.
  split; [unfold submit_wf, addr_wf, vp_wf, ud_wf; cbn; wf_tac|].
  split; [unfold ends_in_filler_cr; cbn; wf_tac|]. split; [vm_compute; reflexivity|].
  eexists. split; [vm_compute; reflexivity|]. split; reflexivity.
Qed.
(* D16: code 0x09 is U+00E7 in the code's table, U+00C7 in the standard *)
Lemma alphabet_09_refuted : g7_rune 9 = 231 /\ gsm_char 9 = 199 /\ code_text [9] <> gsm_text [9].
Proof. split; [vm_compute; reflexivity|]. split; [vm_compute; reflexivity|]. vm_compute. discriminate. Qed.

(* ---- the repaired defects, on the pre-repair variants of the model *)
(* D19: zone octet 0x0A = minus 20 quarter hours; before the fix the sign bit was part of the tens digit: +100 *)
Lemma zone_sign_legacy_refuted :
  zone_of true 10 (lo4 10 * 10 + hi4 10) = (false, 100) /\ zone_of false 10 (lo4 10 * 10 + hi4 10) = (true, 20).
Proof. split; vm_compute; reflexivity. Qed.
(* D22: Marshal used to trim trailing zero octets: "A" 0x00 lost its last octet *)
Lemma trailing_zero_legacy_refuted : trim_right0 [65; 0] = [65] /\ ud_octets (UdOctets [65; 0]) = [65; 0].
Proof. split; reflexivity. Qed.
(* D21, length octet: four septets ("Info") occupy four octets; two per octet gave 8, the standard says 7 *)
Lemma alnum_length_legacy_refuted :
  addr_write_legacy_len {| a_npi := 0; a_ton := 5; a_no := [73; 110; 102; 111] |} 4 = 8 /\
  hd 0 (addr_write g7_table {| a_npi := 0; a_ton := 5; a_no := [73; 110; 102; 111] |}) = 7 /\
  hd 0 (tp_addr {| sa_ton := 5; sa_npi := 0; sa_val := Alnum [73; 110; 102; 111] |}) = 7.
Proof. repeat split; vm_compute; reflexivity. Qed.
(* D20: before the fix the length octet of a numeric address was 2*octets-1 *)
Lemma numeric_length_legacy_refuted :
  addr_write_legacy_len (addr_num_val w_oa (digits_of w_oa)) 5 = 9 /\
  hd 0 (addr_write g7_table (addr_num_val w_oa (digits_of w_oa))) = 10 /\ hd 0 (tp_addr w_oa) = 10.
Proof. repeat split; vm_compute; reflexivity. Qed.
