From V Require Import Model.SmppTime Spec.SmppTimeSpec Proofs.CivilProofs Proofs.SmppTimeProofs.
From Coq Require Import ZifyN ZifyNat ZifyBool.
Local Open Scope Z_scope.
Ltac zdm := Z.div_mod_to_equations; lia.
Local Opaque Z.div Z.modulo Z.abs digit.

(* ------------------------------------------------------------------ the century edge, exactly (audit C20-A2)
   What Time.String does with an instant whose LOCAL civil time (in its zone) leaves 2000..2099:
   - the day before 2000-01-01 (instants of 2000-01-01T00:00Z..11:59Z seen from a zone west of Greenwich are such):
     the year is printed as "-1", the string has sixteen characters, is not a valid absolute time;
   - the day after 2099-12-31 (instants of 2099-12-31T12:15Z..23:59Z seen from a zone east of Greenwich):
     the year is printed as "100", the string has SEVENTEEN characters and Time.From rejects it. *)
Theorem time_century_edge t q : -48 <= q <= 48 ->
  (-864000 <= t + q * 9000 < 0 ->
     exists s, time_format (t, q) = Ok s /\ List.length s = 16%nat /\ firstn 6 s = [45; 49; 49; 50; 51; 49]%N /\
               valid_abs_time s = false) /\
  (36525 * 864000 <= t + q * 9000 < 36526 * 864000 ->
     exists s, time_format (t, q) = Ok s /\ List.length s = 17%nat /\ firstn 7 s = [49; 48; 48; 48; 49; 48; 49]%N /\
               valid_abs_time s = false /\ time_parse s = Err EDecode).
Proof.
  intros Hq. split; intros Hl.
  - set (r := t + q * 9000 + 864000).
    assert (Hr : 0 <= r < 864000) by (subst r; lia).
    assert (Hlr : t + q * 9000 = (-1) * 864000 + r) by (subst r; lia).
    assert (Hz : t <> zero_instant) by (rewrite zero_instant_val; lia).
    assert (Hc : civil2000 (-1) = (1999, 12, 31)) by reflexivity.
    rewrite (time_format_local t q (-1) r _ _ _ Hlr Hr Hc Hz).
    eexists. split; [reflexivity|].
    destruct (tod_split r Hr) as (Hhh & Hmi & Hss & Ht & _).
    unfold time_string_of_parts. cbn [p_yy p_mo p_dd p_hh p_mi p_ss p_t p_q].
    change (fmt_02d (1999 - 2000)) with [45; 49]%N.
    change (fmt_02d 12) with [49; 50]%N. change (fmt_02d 31) with [51; 49]%N.
    destruct (two_facts (r / 10 / 3600) ltac:(lia)) as (-> & _ & _).
    destruct (two_facts ((r / 10) mod 3600 / 60) ltac:(lia)) as (-> & _ & _).
    destruct (two_facts ((r / 10) mod 60) ltac:(lia)) as (-> & _ & _).
    destruct (two_facts (Z.abs q) ltac:(lia)) as (-> & _ & _).
    destruct (one_facts (r mod 10) Ht) as (-> & _ & _).
    clearbody r. unfold two. cbn [app].
    split; [cbn [List.length]; reflexivity|]. split; [cbn [firstn]; reflexivity|].
    unfold valid_abs_time. rewrite abs_fields_bad_first by reflexivity. reflexivity.
  - set (r := t + q * 9000 - 36525 * 864000).
    assert (Hr : 0 <= r < 864000) by (subst r; lia).
    assert (Hlr : t + q * 9000 = 36525 * 864000 + r) by (subst r; lia).
    assert (Hz : t <> zero_instant) by (rewrite zero_instant_val; lia).
    assert (Hc : civil2000 36525 = (2100, 1, 1)) by reflexivity.
    rewrite (time_format_local t q 36525 r _ _ _ Hlr Hr Hc Hz).
    eexists. split; [reflexivity|].
    destruct (tod_split r Hr) as (Hhh & Hmi & Hss & Ht & _).
    unfold time_string_of_parts. cbn [p_yy p_mo p_dd p_hh p_mi p_ss p_t p_q].
    change (fmt_02d (2100 - 2000)) with [49; 48; 48]%N.
    change (fmt_02d 1) with [48; 49]%N.
    destruct (two_facts (r / 10 / 3600) ltac:(lia)) as (-> & _ & _).
    destruct (two_facts ((r / 10) mod 3600 / 60) ltac:(lia)) as (-> & _ & _).
    destruct (two_facts ((r / 10) mod 60) ltac:(lia)) as (-> & _ & _).
    destruct (two_facts (Z.abs q) ltac:(lia)) as (-> & _ & _).
    destruct (one_facts (r mod 10) Ht) as (-> & _ & _).
    clearbody r. unfold two. cbn [app].
    split; [cbn [List.length]; reflexivity|]. split; [cbn [firstn]; reflexivity|].
    split; [unfold valid_abs_time, abs_fields; reflexivity|].
    unfold time_parse. rewrite from_time_string_not16 by (cbn [List.length]; lia). reflexivity.
Qed.
(* at the low edge formatting then parsing still returns the value (ParseInt reads "-1" as -1): the witnesses
   2000-01-01T00:00:00.0Z seen from -00:15 and 2000-01-01T11:59:59.9Z seen from -12:00; at the high edge it does not *)
Lemma time_century_edge_witnesses :
  (exists s, time_format (0, -1) = Ok s /\ time_parse s = Ok (0, -1) /\ valid_abs_time s = false) /\
  (exists s, time_format (431999, -48) = Ok s /\ time_parse s = Ok (431999, -48) /\ valid_abs_time s = false) /\
  (exists s, time_format (36525 * 864000 - 9000, 1) = Ok s /\ time_parse s = Err EDecode).
Proof.
  split; [|split].
  - exists [45; 49; 49; 50; 51; 49; 50; 51; 52; 53; 48; 48; 48; 48; 49; 45]%N. vm_compute. repeat split; reflexivity.
  - exists [45; 49; 49; 50; 51; 49; 50; 51; 53; 57; 53; 57; 57; 52; 56; 45]%N. vm_compute. repeat split; reflexivity.
  - exists [49; 48; 48; 48; 49; 48; 49; 48; 48; 48; 48; 48; 48; 48; 48; 49; 43]%N. vm_compute. repeat split; reflexivity.
Qed.
