(* Lemmas about the Go-hazards layer of the Marshal model (Model/PduHazards.v):
   the bounds-checked patches are never out of bounds, the buffer-threading walk
   computes [Model.Pdu.marshal], an encoding error leaves the destination as it
   was, success appends exactly the frame whatever the destination held, a
   destination that fails receives a prefix of the frame, and a second Marshal of
   the same pointer produces the same frame.  Used by Properties/C12.v (C01, C13). *)
From V Require Import Model.Pdu Model.PduHazards Proofs.PduMarshalProofs.
From Coq Require Import ZifyN ZifyNat ZifyBool.
Ltac Zify.zify_post_hook ::= Z.div_mod_to_equations.
Open Scope N_scope.

(* ------------------------------------------------------------ go_set *)
Lemma go_set_head (x : N) (r : bytes) v : go_set (x :: r) 0 v = Ok (v :: r).
Proof. unfold go_set. rewrite len_cons. destruct (N.ltb_spec 0 (1 + len r)); [reflexivity | lia]. Qed.

Lemma firstn_skipn_mid (a : bytes) (x : N) (b : bytes) v :
  firstn (List.length a) (a ++ x :: b) ++ v :: skipn (S (List.length a)) (a ++ x :: b) = a ++ v :: b.
Proof.
  rewrite firstn_app, Nat.sub_diag, firstn_all. cbn [firstn]. rewrite app_nil_r.
  replace (S (List.length a)) with (List.length (a ++ [x])) by (rewrite app_length; cbn; lia).
  replace (a ++ x :: b) with ((a ++ [x]) ++ b) by (rewrite <- app_assoc; reflexivity).
  rewrite skipn_app, Nat.sub_diag, skipn_all. reflexivity.
Qed.

Lemma go_set_mid (a : bytes) (x : N) (b : bytes) v : go_set (a ++ x :: b) (len a) v = Ok (a ++ v :: b).
Proof.
  unfold go_set. rewrite len_app, len_cons.
  destruct (N.ltb_spec (len a) (len a + (1 + len b))); [|lia].
  unfold len at 1 2. rewrite Nat2N.id. rewrite firstn_skipn_mid. reflexivity.
Qed.

(* ------------------------------------------------------------ UDH *)
Lemma udh_elems_spec s : forall buf,
  udh_elems s buf = if existsb (fun e => 255 <? len (snd e)) s then Err ESize else Ok (buf ++ enc_udh_body s).
Proof.
  induction s as [|[id d] r IH]; intros buf; cbn [udh_elems existsb enc_udh_body flat_map fst snd].
  - rewrite app_nil_r. reflexivity.
  - destruct (255 <? len d); cbn [orb]; [reflexivity|].
    rewrite IH. destruct (existsb _ r); [reflexivity|].
    rewrite <- !app_assoc. reflexivity.
Qed.

Lemma enc_udh_h_eq u : enc_udh_h u = enc_udh u.
Proof.
  unfold enc_udh_h, enc_udh. rewrite udh_elems_spec.
  destruct (existsb _ (kv_sort u)); cbn [obind]; [reflexivity|].
  cbn [app]. rewrite go_set_head. rewrite len_cons. reflexivity.
Qed.

(* ------------------------------------------------------------ short message *)
Lemma enc_short_h_eq m : enc_short_h m = enc_short m.
Proof.
  unfold enc_short_h, enc_short.
  destruct (MaxShortMessageLength <? len (sm_msg m)); [reflexivity|].
  assert (Hu : match sm_udh m with None => Ok [] | Some u => enc_udh_h u end
             = match sm_udh m with None => Ok [] | Some u => enc_udh u end).
  { destruct (sm_udh m); [apply enc_udh_h_eq | reflexivity]. }
  rewrite Hu. destruct (match sm_udh m with None => Ok [] | Some u => enc_udh u end) as [u| |]; cbn [obind]; try reflexivity.
  set (buf1 := (if sm_dc m =? NoCoding then [] else [sm_dc m]) ++ [sm_dflt m]).
  assert (Hlen : (Z.of_N (len ((buf1 ++ [0%N]) ++ u ++ sm_msg m)) - 1 - Z.of_N (len buf1))%Z
                 = Z.of_N (len u + len (sm_msg m))).
  { rewrite !len_app, len_cons, len_nil. lia. }
  rewrite Hlen.
  destruct (N.ltb_spec 255 (len u + len (sm_msg m))) as [Hgt|Hle].
  - destruct (Z.ltb_spec 255 (Z.of_N (len u + len (sm_msg m)))); [reflexivity | lia].
  - destruct (Z.ltb_spec 255 (Z.of_N (len u + len (sm_msg m)))); [lia|].
    replace ((buf1 ++ [0]) ++ u ++ sm_msg m) with (buf1 ++ 0 :: (u ++ sm_msg m))
      by (rewrite <- app_assoc; reflexivity).
    rewrite go_set_mid.
    replace (Z.to_N (Z.of_N (len u + len (sm_msg m)) mod 256)) with (len u + len (sm_msg m)) by lia.
    unfold buf1. rewrite <- !app_assoc. reflexivity.
Qed.

Lemma enc_field_h_eq lay u k v : enc_field_h lay u k v = enc_field lay u k v.
Proof. destruct k, v; cbn [enc_field_h enc_field]; try reflexivity. apply enc_short_h_eq. Qed.

(* ------------------------------------------------------------ the walk *)
Lemma walk_h_spec lay u ks : forall vs buf,
  walk_h lay u ks vs buf = match enc_fields lay u ks vs with Ok body => Ok (buf ++ body) | Err e => Err e | Panic => Panic end.
Proof.
  induction ks as [|k ks IH]; intros [|v vs] buf; cbn [walk_h enc_fields]; try reflexivity.
  - rewrite app_nil_r. reflexivity.
  - rewrite enc_field_h_eq. destruct (enc_field lay u k v) as [b| |]; cbn [obind]; try reflexivity.
    rewrite IH. destruct (enc_fields lay u ks vs) as [r| |]; cbn [obind]; try reflexivity.
    rewrite app_assoc. reflexivity.
Qed.

Lemma go_put32_patch buf : 4 <= len buf -> go_put32_at0 buf (len buf) = Ok (patch_len buf).
Proof. intros H. unfold go_put32_at0, patch_len. destruct (N.leb_spec 4 (len buf)); [reflexivity | lia]. Qed.

(* ------------------------------------------------------------ refinement *)
(* the buffer-threading, bounds-checked Marshal computes [marshal] and hands the frame to the destination
   with one buffer_write_to; on an encoding error the destination state is returned as it came in *)
Theorem marshal_io_refines lay vs w :
  marshal_io lay vs w =
  match marshal lay vs with
  | Ok f => buffer_write_to f w
  | Err e => (MErr e, w)
  | Panic => (MPanic, w)
  end.
Proof.
  unfold marshal_io, marshal.
  destruct (l_fields lay) as [|k ks]; [reflexivity|].
  destruct k; try reflexivity. destruct vs as [|v vs]; [reflexivity|].
  destruct v; try reflexivity.
  destruct (h_seq h <=? 0)%Z; [reflexivity|].
  destruct (negb (h_status h =? 0)).
  - rewrite go_put32_patch by (rewrite enc_header_len; lia). reflexivity.
  - rewrite walk_h_spec.
    destruct (enc_fields lay (udhi_of vs) ks vs) as [body| |]; cbn [obind]; try reflexivity.
    rewrite go_put32_patch by (pose proof (hdr_body_len (h_len h) (l_id lay) (h_status h) (h_seq h) body); lia).
    reflexivity.
Qed.

Lemma buffer_write_to_not_panic f w : fst (buffer_write_to f w) <> MPanic.
Proof.
  unfold buffer_write_to. destruct (len f =? 0); [discriminate|].
  destruct (dest_write w f) as [[w' m] failed]. destruct (failed || negb (m =? len f)); discriminate.
Qed.

(* no Panic: the patches are in bounds for every layout, value and destination *)
Theorem marshal_io_not_panic lay vs w : fst (marshal_io lay vs w) <> MPanic.
Proof.
  rewrite marshal_io_refines. pose proof (marshal_not_panic lay vs) as Hn.
  destruct (marshal lay vs); [apply buffer_write_to_not_panic | discriminate | congruence].
Qed.

(* an encoding error: nothing reaches the destination — its content, its call list and its capacity are unchanged *)
Theorem marshal_io_error_untouched lay vs w r w' :
  marshal_io lay vs w = (r, w') -> (forall n, r <> MOk n) -> (forall n, r <> MWriteErr n) -> w' = w /\ exists e, r = MErr e /\ marshal lay vs = Err e.
Proof.
  rewrite marshal_io_refines. pose proof (marshal_not_panic lay vs) as Hn.
  destruct (marshal lay vs) as [f|e|]; [|intros [= <- <-] _ _; split; [reflexivity | exists e; split; reflexivity] | congruence].
  unfold buffer_write_to. destruct (len f =? 0).
  - intros [= <- <-] H _. exfalso. exact (H 0 eq_refl).
  - destruct (dest_write w f) as [[w1 m] failed]. destruct (failed || negb (m =? len f)); intros [= <- <-] H1 H2; exfalso.
    + exact (H2 m eq_refl).
    + exact (H1 m eq_refl).
Qed.

Theorem marshal_io_encode_error lay vs e w : marshal lay vs = Err e -> marshal_io lay vs w = (MErr e, w).
Proof. intros H. rewrite marshal_io_refines, H. reflexivity. Qed.

(* success on a destination that accepts everything: whatever it held, it now holds that followed by exactly
   the frame, handed over in one Write; the returned count is the frame's length, which its first four octets state *)
Theorem marshal_io_success lay vs f w :
  marshal lay vs = Ok f -> w_room w = None ->
  marshal_io lay vs w = (MOk (len f), {| w_got := w_got w ++ f; w_calls := w_calls w ++ [f]; w_room := None |})
  /\ length_prefixed f.
Proof.
  intros H Hr. split; [|eapply marshal_ok_prefixed; exact H].
  rewrite marshal_io_refines, H. unfold buffer_write_to.
  pose proof (marshal_ok_prefixed _ _ _ H) as [Hl _].
  destruct (N.eqb_spec (len f) 0); [lia|].
  unfold dest_write. rewrite Hr. cbn [orb]. rewrite N.eqb_refl. reflexivity.
Qed.

(* a destination that gives up after [k] octets: it has received a prefix of the frame (in one Write), Marshal reports the error, no panic *)
Theorem marshal_io_failing_writer lay vs f w k :
  marshal lay vs = Ok f -> w_room w = Some k -> k < len f ->
  marshal_io lay vs w = (MWriteErr k, {| w_got := w_got w ++ firstn (N.to_nat k) f; w_calls := w_calls w ++ [f]; w_room := Some 0 |}).
Proof.
  intros H Hr Hk. rewrite marshal_io_refines, H. unfold buffer_write_to.
  destruct (N.eqb_spec (len f) 0); [lia|].
  unfold dest_write. rewrite Hr.
  replace (N.min k (len f)) with k by lia. replace (k - k) with 0 by lia.
  destruct (N.ltb_spec k (len f)); [|lia]. reflexivity.
Qed.
(* ... and with room for the whole frame it succeeds like an unlimited one *)
Theorem marshal_io_roomy_writer lay vs f w k :
  marshal lay vs = Ok f -> w_room w = Some k -> len f <= k ->
  marshal_io lay vs w = (MOk (len f), {| w_got := w_got w ++ f; w_calls := w_calls w ++ [f]; w_room := Some (k - len f) |}).
Proof.
  intros H Hr Hk. rewrite marshal_io_refines, H. unfold buffer_write_to.
  pose proof (marshal_ok_prefixed _ _ _ H) as [Hl _].
  destruct (N.eqb_spec (len f) 0); [lia|].
  unfold dest_write. rewrite Hr.
  replace (N.min k (len f)) with (len f) by lia.
  destruct (N.ltb_spec (len f) (len f)); [lia|]. cbn [orb]. rewrite N.eqb_refl. cbn [negb].
  replace (N.to_nat (len f)) with (List.length f) by (unfold len; lia). rewrite firstn_all. reflexivity.
Qed.

(* never more than one Write call per Marshal, whatever the destination *)
Theorem marshal_io_calls lay vs w r w' :
  marshal_io lay vs w = (r, w') -> exists l, w_calls w' = w_calls w ++ l /\ (List.length l <= 1)%nat.
Proof.
  rewrite marshal_io_refines.
  destruct (marshal lay vs) as [f|e|]; [|intros [= <- <-]; exists []; rewrite app_nil_r; split; [reflexivity | cbn; lia] ..].
  unfold buffer_write_to. destruct (len f =? 0).
  - intros [= <- <-]. exists []. rewrite app_nil_r. split; [reflexivity | cbn; lia].
  - unfold dest_write. destruct (w_room w) as [k|].
    + destruct ((N.min k (len f) <? len f) || negb (N.min k (len f) =? len f)); intros [= <- <-]; exists [f]; split; (reflexivity || (cbn; lia)).
    + cbn [orb]. rewrite N.eqb_refl. cbn [negb]. intros [= <- <-]. exists [f]. split; [reflexivity | cbn; lia].
Qed.

(* ------------------------------------------------------------ the argument after the call *)
Lemma prepare_idem lay u m : prepare lay u (prepare lay u m) = prepare lay u m.
Proof.
  unfold prepare. destruct (l_replace lay); [reflexivity|].
  destruct (sm_udh m) eqn:E; cbn [sm_udh]; [rewrite E; reflexivity|].
  destruct (l_has_esm lay && u); cbn [sm_udh]; [reflexivity | rewrite E; reflexivity].
Qed.

Lemma udhi_of_touch lay u vs : udhi_of (map (touch lay u) vs) = udhi_of vs.
Proof.
  unfold udhi_of. induction vs as [|v vs IH]; [reflexivity|]. cbn [map existsb]. rewrite IH.
  destruct v; reflexivity.
Qed.

Lemma enc_field_touch lay u k v : enc_field lay u k (touch lay u v) = enc_field lay u k v.
Proof. destruct k, v; cbn [touch enc_field]; try reflexivity. rewrite prepare_idem. reflexivity. Qed.

Lemma enc_fields_touch lay u ks : forall vs, enc_fields lay u ks (map (touch lay u) vs) = enc_fields lay u ks vs.
Proof.
  induction ks as [|k ks IH]; intros [|v vs]; cbn [map enc_fields]; try reflexivity.
  rewrite enc_field_touch, IH. reflexivity.
Qed.

(* a second Marshal of the same pointer: what the first call left in the argument encodes to the same outcome *)
Theorem marshal_again lay vs : marshal lay (arg_after lay vs) = marshal lay vs.
Proof.
  unfold arg_after, marshal. destruct (l_fields lay) as [|k ks]; [reflexivity|].
  destruct k; try reflexivity. destruct vs as [|v vs]; [reflexivity|]. destruct v; try reflexivity.
  destruct (negb (h_status h =? 0)) eqn:Est; cbn [h_seq h_status h_len].
  - rewrite Est. reflexivity.
  - rewrite Est. rewrite udhi_of_touch, enc_fields_touch. reflexivity.
Qed.
(* ... and is a fixed point: a third call finds the argument as the second left it *)
Theorem arg_after_idem lay vs : arg_after lay (arg_after lay vs) = arg_after lay vs.
Proof.
  unfold arg_after. destruct (l_fields lay) as [|k ks] eqn:El; [reflexivity|].
  destruct k; try reflexivity. destruct vs as [|v vs]; [reflexivity|]. destruct v; try reflexivity.
  destruct (negb (h_status h =? 0)) eqn:Est; cbn [h_seq h_status h_len]; rewrite Est; [reflexivity|].
  rewrite udhi_of_touch. f_equal. rewrite map_map. apply map_ext. intros v.
  destruct v; cbn [touch]; try reflexivity. rewrite prepare_idem. reflexivity.
Qed.

(* replace_sm: the caller's data_coding never reaches the wire (table 4-34 has no such parameter) —
   Marshal's outcome does not depend on it, and [arg_after] shows it overwritten with the absent marker *)
Theorem replace_ignores_data_coding lay u m dc :
  l_replace lay = true ->
  enc_field lay u FShortMsg (VShort m)
  = enc_field lay u FShortMsg (VShort {| sm_dflt := sm_dflt m; sm_dc := dc; sm_udh := sm_udh m; sm_msg := sm_msg m |}).
Proof. intros H. cbn [enc_field]. unfold prepare. rewrite H. reflexivity. Qed.

(* ------------------------------------------------------------ histories *)
(* the result of a call does not depend on the calls made before or after it — whatever they were and however they ended *)
Theorem history_free pre c post : nth_error (run_calls (pre ++ c :: post)) (List.length pre) = Some (run_call c).
Proof.
  unfold run_calls. rewrite map_app. cbn [map].
  rewrite nth_error_app2 by (rewrite map_length; lia). rewrite map_length, Nat.sub_diag. reflexivity.
Qed.
(* in particular: the same value marshalled before and after any failing call gives the same octets *)
Theorem sandwich_same lay vs bad :
  exists r, run_calls [(lay, vs, None); bad; (lay, vs, None)] = [r; run_call bad; r].
Proof. eexists. reflexivity. Qed.
