(* Marshal -> unmarshal/ReadPDU round trip of the PDU codec model (Model/Pdu.v).
   One core theorem [roundtrip]: for a well-formed value list, decoding what
   Marshal produced returns the value (with the header's length and id filled
   in and empty-valued TLVs dropped).  C01 instantiates it on the representable
   domain, C13 on decoded values, C03 uses it for streams of valid PDUs. *)
From V Require Import Model.Pdu Proofs.PduMarshalProofs Proofs.PduStreamProofs.
From Coq Require Import ZifyN ZifyNat ZifyBool.
Ltac Zify.zify_post_hook ::= Z.div_mod_to_equations.
Open Scope N_scope.

(* ================================================================ domain *)
Definition nulfree (s : bytes) : bool := forallb (fun b => (0 <? b) && (b <? 256)) s.
Definition wf_addr (a : addr) : bool := (a_ton a <? 256) && (a_npi a <? 256) && nulfree (a_no a).

(* keys strictly increasing: the canonical form of a Go map *)
Fixpoint keys_above (k : N) (m : kvs) : bool :=
  match m with [] => true | (k', _) :: r => (k <? k') && keys_above k' r end.
Definition sorted_keys (m : kvs) : bool :=
  match m with [] => true | (k, _) :: r => keys_above k r end.

Definition wf_udh (u : kvs) : bool :=
  sorted_keys u && forallb (fun e => (fst e <? 256) && (len (snd e) <=? 255) && octetsb (snd e)) u.
(* TLV values may be empty here (the encoder skips them); C01 restricts to 1..65534 *)
Definition wf_tags (t : kvs) : bool :=
  sorted_keys t && forallb (fun e => (fst e <? 65536) && octetsb (snd e)) t.

Definition wf_esm (e : esm) : bool := (e_mode e <? 4) && (e_type e <? 16).
Definition wf_regdel (r : regdel) : bool := (r_mc r <? 4) && (r_sme r <? 4) && (r_rsv r <? 8).

Definition wf_short (lay : layout) (udhi : bool) (m : shortmsg) : bool :=
  (sm_dflt m <? 256) && octetsb (sm_msg m) &&
  if l_replace lay then (sm_dc m =? NoCoding) && match sm_udh m with None => true | Some _ => false end
  else (sm_dc m <? 256) && negb (sm_dc m =? NoCoding) &&
       match sm_udh m with
       | None => negb (l_has_esm lay && udhi)
       | Some u => l_has_esm lay && udhi && wf_udh u
       end.

Definition wf_field (lay : layout) (udhi : bool) (k : fkind) (v : fval) : bool :=
  match k, v with
  | FCStr, VStr s => nulfree s
  | FU8, VU8 b => b <? 256
  | FBool, VBool _ => true
  | FEsm, VEsm e => wf_esm e
  | FRegDel, VRegDel r => wf_regdel r
  | FAddr, VAddr a => wf_addr a
  | FDests, VDests sme dl => forallb wf_addr sme && forallb nulfree dl
  | FUnsucc, VUnsucc l => forallb (fun e => wf_addr (fst e) && (snd e <? 4294967296)) l
  | FShortMsg, VShort m => wf_short lay udhi m
  | FTags, VTags t => wf_tags t
  | FSkipped, VSkipped v => v =? 0          (* a skipped field is not on the wire: only its zero value survives (finding D5) *)
  | _, _ => false
  end.

Fixpoint wf_fields (lay : layout) (udhi : bool) (ks : list fkind) (vs : list fval) : bool :=
  match ks, vs with
  | [], [] => true
  | k :: ks', v :: vs' => wf_field lay udhi k v && wf_fields lay udhi ks' vs'
  | _, _ => false
  end.

(* what the receiver sees: empty-valued TLVs are absent *)
Definition norm_val (v : fval) : fval :=
  match v with
  | VTags t => VTags (filter (fun e => negb (len (snd e) =? 0)) t)
  | _ => v
  end.

(* ============================================================ small codecs *)
Lemma nulfree_no_nul s : nulfree s = true -> has_nul s = false.
Proof.
  unfold nulfree, has_nul. induction s as [|c s IH]; [reflexivity|]. cbn [forallb existsb]. intros H.
  apply andb_true_iff in H. destruct H as [Hc Hs]. rewrite (IH Hs). apply andb_true_iff in Hc.
  destruct (N.eqb_spec c 0); [lia | reflexivity].
Qed.
Lemma wf_addr_no_nul a : wf_addr a = true -> has_nul (a_no a) = false.
Proof. unfold wf_addr. intros H. apply andb_true_iff in H. apply nulfree_no_nul, H. Qed.
Lemma existsb_false_forallb {A} (P Q : A -> bool) l :
  (forall x, P x = true -> Q x = false) -> forallb P l = true -> existsb Q l = false.
Proof.
  intros HPQ. induction l as [|x l IH]; [reflexivity|]. cbn [forallb existsb]. intros H.
  apply andb_true_iff in H. destruct H as [Hx Hl]. now rewrite (HPQ x Hx), (IH Hl).
Qed.

Lemma dec_cstr_enc s rest : nulfree s = true -> dec_cstr (enc_cstr s ++ rest) = Ok (s, rest).
Proof.
  unfold enc_cstr. induction s as [|c s IH]; cbn [nulfree forallb app dec_cstr]; intros H.
  - reflexivity.
  - apply andb_true_iff in H. destruct H as [Hc Hs]. apply andb_true_iff in Hc. destruct Hc as [Hc _].
    destruct (N.eqb_spec c 0) as [->|_]; [discriminate|].
    change (dec_cstr ((s ++ [0]) ++ rest)) with (dec_cstr ((s ++ [0]) ++ rest)).
    rewrite (IH Hs). reflexivity.
Qed.

Lemma dec_addr_enc a rest : wf_addr a = true -> dec_addr (enc_addr a ++ rest) = Ok (a, rest).
Proof.
  unfold wf_addr, enc_addr, dec_addr. intros H.
  apply andb_true_iff in H. destruct H as [H Hn]. cbn [app dec_u8 obind].
  rewrite (dec_cstr_enc _ _ Hn). cbn [obind]. destruct a; reflexivity.
Qed.

Lemma de32_be32_list n rest : n < 4294967296 -> dec_be32 (be32 n ++ rest) = Ok (n, rest).
Proof. intros H. unfold be32, dec_be32. cbn [app]. rewrite de32_be32 by exact H. reflexivity. Qed.

Lemma de16_be16 n : n < 65536 -> de16 ((n / 256) mod 256) (n mod 256) = n.
Proof. intros H. unfold de16. lia. Qed.

Lemma i32_u32 z : (0 < z < 2147483648)%Z -> i32_of_u32 (u32_of_i32 z) = z.
Proof.
  intros H. unfold i32_of_u32, u32_of_i32.
  rewrite Z.mod_small by lia.
  destruct (N.ltb_spec (Z.to_N z) 2147483648); lia.
Qed.

Lemma wf_esm_roundtrip e : wf_esm e = true -> esm_of_byte (esm_to_byte e) = e.
Proof.
  destruct e as [m t u r]. unfold wf_esm. cbn [e_mode e_type]. intros H.
  apply andb_true_iff in H. destruct H as [Hm Ht].
  assert (Hm' : m = 0 \/ m = 1 \/ m = 2 \/ m = 3) by lia.
  assert (Ht' : t = 0 \/ t = 1 \/ t = 2 \/ t = 3 \/ t = 4 \/ t = 5 \/ t = 6 \/ t = 7 \/ t = 8 \/ t = 9 \/
                t = 10 \/ t = 11 \/ t = 12 \/ t = 13 \/ t = 14 \/ t = 15) by lia.
  clear Hm Ht.
  repeat (destruct Hm' as [->|Hm']); try subst m;
  repeat (destruct Ht' as [->|Ht']); try subst t; destruct u, r; vm_compute; reflexivity.
Qed.

Lemma wf_regdel_roundtrip r : wf_regdel r = true -> regdel_of_byte (regdel_to_byte r) = r.
Proof.
  destruct r as [m s i v]. unfold wf_regdel. cbn [r_mc r_sme r_rsv]. intros H.
  apply andb_true_iff in H. destruct H as [H Hv]. apply andb_true_iff in H. destruct H as [Hm Hs].
  assert (Hm' : m = 0 \/ m = 1 \/ m = 2 \/ m = 3) by lia.
  assert (Hs' : s = 0 \/ s = 1 \/ s = 2 \/ s = 3) by lia.
  assert (Hv' : v = 0 \/ v = 1 \/ v = 2 \/ v = 3 \/ v = 4 \/ v = 5 \/ v = 6 \/ v = 7) by lia.
  clear Hm Hs Hv.
  repeat (destruct Hm' as [->|Hm']); try subst m;
  repeat (destruct Hs' as [->|Hs']); try subst s;
  repeat (destruct Hv' as [->|Hv']); try subst v; destruct i; vm_compute; reflexivity.
Qed.

(* ================================================================= kv maps *)
Fixpoint all_keys_below (m : kvs) (k : N) : bool :=
  match m with [] => true | (k', _) :: r => (k' <? k) && all_keys_below r k end.

Lemma kv_insert_above m k v : all_keys_below m k = true -> kv_insert k v m = m ++ [(k, v)].
Proof.
  induction m as [|[k' v'] r IH]; cbn [all_keys_below kv_insert app]; intros H; [reflexivity|].
  apply andb_true_iff in H. destruct H as [H1 H2].
  destruct (N.ltb_spec k k'); [lia|]. destruct (N.eqb_spec k k'); [lia|].
  rewrite (IH H2). reflexivity.
Qed.

Lemma all_keys_below_app m k v k' :
  all_keys_below m k = true -> k < k' -> all_keys_below (m ++ [(k, v)]) k' = true.
Proof.
  induction m as [|[k0 v0] r IH]; cbn [all_keys_below app]; intros H Hk.
  - apply andb_true_iff. split; [lia | reflexivity].
  - apply andb_true_iff in H. destruct H as [H1 H2]. apply andb_true_iff. split; [lia|]. apply IH; assumption.
Qed.

Lemma keys_above_in k r e : keys_above k r = true -> In e r -> k < fst e.
Proof.
  revert k. induction r as [|[k' v'] r IH]; intros k H Hin; [contradiction|].
  cbn [keys_above] in H. apply andb_true_iff in H. destruct H as [H1 H2].
  destruct Hin as [<-|Hin]; [cbn; lia|]. specialize (IH k' H2 Hin). lia.
Qed.

Lemma sorted_keys_tail k v r : sorted_keys ((k, v) :: r) = true -> sorted_keys r = true.
Proof.
  cbn [sorted_keys]. destruct r as [|[k2 v2] r2]; [reflexivity|]. cbn [keys_above sorted_keys].
  intros H. apply andb_true_iff in H. apply H.
Qed.

Definition ins_all (t m : kvs) : kvs := fold_left (fun acc e => kv_insert (fst e) (snd e) acc) t m.

(* inserting a sorted run whose keys all lie above the accumulator appends it *)
Lemma ins_all_sorted t : forall m,
  (forall e, In e t -> all_keys_below m (fst e) = true) -> sorted_keys t = true -> ins_all t m = m ++ t.
Proof.
  unfold ins_all. induction t as [|[k v] r IH]; intros m Hm Hs; cbn [fold_left].
  - now rewrite app_nil_r.
  - cbn [fst snd]. rewrite kv_insert_above by (apply (Hm (k, v)); left; reflexivity).
    rewrite IH.
    + rewrite <- app_assoc. reflexivity.
    + intros e He. apply all_keys_below_app.
      * apply (Hm (k, v)). left. reflexivity.
      * cbn [sorted_keys] in Hs. apply (keys_above_in k r e Hs He).
    + eapply sorted_keys_tail. exact Hs.
Qed.

(* a sorted association list is its own canonical form *)
Lemma kv_sort_sorted t : sorted_keys t = true -> kv_sort t = t.
Proof. intros H. unfold kv_sort. apply (ins_all_sorted t []); [reflexivity | exact H]. Qed.

(* ============================================================== containers *)
Lemma take_app d rest : take (len d) (d ++ rest) = Ok (d, rest).
Proof.
  unfold take. rewrite len_app. destruct (N.leb_spec (len d) (len d + len rest)); [|lia].
  rewrite len_nat. rewrite firstn_app_l, firstn_all by lia.
  rewrite skipn_app_l, skipn_all by lia. reflexivity.
Qed.

Lemma cons_app3 {A} (n : A) X rest : ([n] ++ X) ++ rest = n :: (X ++ rest).
Proof. reflexivity. Qed.

(* --- destination lists *)
Definition enc_smes (sme : list addr) : bytes := flat_map (fun a => 1 :: enc_addr a) sme.
Definition enc_dls (dl : list bytes) : bytes := flat_map (fun d => 2 :: enc_cstr d) dl.

Lemma dec_dests_loop_dls dl : forall accs accd rest,
  forallb nulfree dl = true ->
  dec_dests_loop (List.length dl) (enc_dls dl ++ rest) accs accd = Ok (accs, accd ++ dl, rest).
Proof.
  induction dl as [|d dl IH]; intros accs accd rest H; cbn [List.length dec_dests_loop enc_dls flat_map app].
  - now rewrite app_nil_r.
  - cbn [forallb] in H. apply andb_true_iff in H. destruct H as [Hd Hr].
    rewrite <- app_assoc. rewrite (dec_cstr_enc d _ Hd). cbn [obind].
    fold (enc_dls dl). rewrite (IH _ _ _ Hr). rewrite <- app_assoc. reflexivity.
Qed.

Lemma dec_dests_loop_all sme : forall dl accs accd rest,
  forallb wf_addr sme = true -> forallb nulfree dl = true ->
  dec_dests_loop (List.length sme + List.length dl) (enc_smes sme ++ enc_dls dl ++ rest) accs accd
  = Ok (accs ++ sme, accd ++ dl, rest).
Proof.
  induction sme as [|a sme IH]; intros dl accs accd rest Hs Hd.
  - cbn [List.length Nat.add enc_smes flat_map app]. rewrite app_nil_r. apply dec_dests_loop_dls; exact Hd.
  - cbn [forallb] in Hs. apply andb_true_iff in Hs. destruct Hs as [Ha Hr].
    cbn [List.length Nat.add dec_dests_loop enc_smes flat_map app].
    rewrite <- app_assoc. rewrite (dec_addr_enc a _ Ha). cbn [obind].
    fold (enc_smes sme). rewrite (IH _ _ _ _ Hr Hd). rewrite <- app_assoc. reflexivity.
Qed.

Lemma dec_dests_enc sme dl b rest :
  forallb wf_addr sme = true -> forallb nulfree dl = true ->
  enc_dests sme dl = Ok b -> dec_dests (b ++ rest) = Ok (sme, dl, rest).
Proof.
  intros Hs Hd. unfold enc_dests.
  destruct (N.ltb_spec 255 (N.of_nat (List.length sme + List.length dl))) as [|Hn]; [discriminate|].
  rewrite (existsb_false_forallb wf_addr (fun a => has_nul (a_no a)) sme wf_addr_no_nul Hs).
  rewrite (existsb_false_forallb nulfree has_nul dl nulfree_no_nul Hd). cbn [orb].
  intros [= <-]. unfold dec_dests. cbn [app dec_u8 obind].
  rewrite Nat2N.id. fold (enc_smes sme) (enc_dls dl). rewrite <- app_assoc.
  rewrite (dec_dests_loop_all sme dl [] [] rest Hs Hd). reflexivity.
Qed.

(* --- unsuccessful-delivery records *)
Definition wf_rec (e : addr * N) : bool := wf_addr (fst e) && (snd e <? 4294967296).
Definition enc_recs (l : list (addr * N)) : bytes := flat_map (fun e => enc_addr (fst e) ++ be32 (snd e)) l.

Lemma dec_unsucc_loop_all l : forall acc rest,
  forallb wf_rec l = true ->
  dec_unsucc_loop (List.length l) (enc_recs l ++ rest) acc = Ok (acc ++ l, rest).
Proof.
  induction l as [|[a c] l IH]; intros acc rest H; cbn [List.length dec_unsucc_loop enc_recs flat_map app].
  - now rewrite app_nil_r.
  - cbn [forallb] in H. apply andb_true_iff in H. destruct H as [He Hr].
    unfold wf_rec in He. cbn [fst snd] in *. apply andb_true_iff in He. destruct He as [Ha Hc].
    rewrite <- !app_assoc. rewrite (dec_addr_enc a _ Ha). cbn [obind].
    rewrite de32_be32_list by lia. cbn [obind].
    fold (enc_recs l). rewrite (IH _ _ Hr). rewrite <- app_assoc. reflexivity.
Qed.

Lemma dec_unsucc_enc l b rest :
  forallb wf_rec l = true -> enc_unsucc l = Ok b -> dec_unsucc (b ++ rest) = Ok (l, rest).
Proof.
  intros H. unfold enc_unsucc.
  destruct (N.ltb_spec 255 (N.of_nat (List.length l))) as [|Hn]; [discriminate|].
  rewrite (existsb_false_forallb wf_rec (fun e => has_nul (a_no (fst e))) l
             (fun e He => wf_addr_no_nul (fst e) (proj1 (proj1 (andb_true_iff _ _) He))) H).
  intros [= <-]. unfold dec_unsucc. rewrite <- app_comm_cons. cbn [dec_u8 obind]. rewrite Nat2N.id.
  change (flat_map _ l) with (enc_recs l). rewrite (dec_unsucc_loop_all l [] rest H). reflexivity.
Qed.

(* --- user data header *)
Lemma len_2app a b (d : bytes) : len ([a; b] ++ d) = 2 + len d.
Proof. unfold len. cbn [app List.length]. lia. Qed.
Definition wf_ie (e : N * bytes) : bool := (fst e <? 256) && (len (snd e) <=? 255) && octetsb (snd e).

Lemma udh_len_body u : udh_len u = 1 + len (enc_udh_body u).
Proof.
  unfold udh_len, enc_udh_body. f_equal.
  induction u as [|[k d] u IH]; [reflexivity|].
  cbn [fold_right flat_map fst snd]. rewrite IH. rewrite len_app, len_2app. lia.
Qed.

Lemma enc_udh_body_len_ge u : N.of_nat (List.length u) <= len (enc_udh_body u).
Proof.
  induction u as [|[k d] u IH]; [cbn; lia|].
  unfold enc_udh_body in *. cbn [flat_map fst snd List.length]. rewrite len_app, len_2app. lia.
Qed.

Lemma dec_udh_loop_all u : forall fuel m rest,
  forallb wf_ie u = true -> sorted_keys u = true ->
  (forall e, In e u -> all_keys_below m (fst e) = true) ->
  (List.length u <= fuel)%nat ->
  dec_udh_loop fuel (len (enc_udh_body u)) (enc_udh_body u ++ rest) m = Ok (m ++ u, rest).
Proof.
  induction u as [|[k d] u IH]; intros fuel m rest Hw Hs Hm Hf.
  - destruct fuel; cbn; now rewrite app_nil_r.
  - cbn [forallb] in Hw. apply andb_true_iff in Hw. destruct Hw as [He Hr].
    unfold wf_ie in He. cbn [fst snd] in He.
    apply andb_true_iff in He. destruct He as [He Ho]. apply andb_true_iff in He. destruct He as [Hk Hl].
    destruct fuel as [|fuel]; [cbn in Hf; lia|].
    unfold enc_udh_body. cbn [flat_map fst snd]. fold (enc_udh_body u).
    cbn [dec_udh_loop].
    assert (Hne : (len (([k; len d mod 256] ++ d) ++ enc_udh_body u) =? 0) = false).
    { rewrite !len_app. cbn [app]. rewrite !len_cons. apply N.eqb_neq. lia. }
    rewrite Hne. rewrite <- !app_assoc. cbn [app dec_u8 obind].
    rewrite (N.mod_small (len d) 256) by lia.
    rewrite take_app. cbn [obind].
    replace (len (k :: len d :: d ++ enc_udh_body u) - (2 + len d)) with (len (enc_udh_body u))
      by (rewrite !len_cons, len_app; lia).
    rewrite kv_insert_above by (apply (Hm (k, d)); left; reflexivity).
    rewrite IH.
    + rewrite <- app_assoc. reflexivity.
    + exact Hr.
    + eapply sorted_keys_tail; exact Hs.
    + intros e He'. apply all_keys_below_app.
      * apply (Hm (k, d)). left. reflexivity.
      * cbn [sorted_keys] in Hs. apply (keys_above_in k u e Hs He').
    + cbn [List.length] in Hf. lia.
Qed.

Lemma wf_udh_no_oversize u : forallb wf_ie u = true -> existsb (fun e => 255 <? len (snd e)) u = false.
Proof.
  induction u as [|e u IH]; cbn [forallb existsb]; intros H; [reflexivity|].
  apply andb_true_iff in H. destruct H as [He Hr]. rewrite (IH Hr). unfold wf_ie in He.
  apply andb_true_iff in He. destruct He as [He _]. apply andb_true_iff in He. destruct He as [_ Hl].
  destruct (N.ltb_spec 255 (len (snd e))); [lia | reflexivity].
Qed.

Lemma dec_udh_enc u b rest :
  wf_udh u = true -> enc_udh u = Ok b -> len b <= 255 -> dec_udh (b ++ rest) = Ok (u, rest) /\ len b = udh_len u.
Proof.
  unfold wf_udh. intros H. apply andb_true_iff in H. destruct H as [Hs Hw].
  unfold enc_udh. rewrite (kv_sort_sorted u Hs). rewrite (wf_udh_no_oversize u Hw).
  set (body := enc_udh_body u). intros Hb Hlen.
  assert (Hb' : b = ((1 + len body) mod 256 + 255) mod 256 :: body) by congruence.
  subst b. clear Hb. rewrite len_cons in Hlen.
  assert (Hhd : ((1 + len body) mod 256 + 255) mod 256 = len body) by lia.
  rewrite Hhd. split.
  - unfold dec_udh. rewrite <- app_comm_cons. cbn [dec_u8 obind].
    unfold body. rewrite (dec_udh_loop_all u (N.to_nat (len (enc_udh_body u))) [] rest Hw Hs).
    + reflexivity.
    + reflexivity.
    + pose proof (enc_udh_body_len_ge u). lia.
  - rewrite len_cons, udh_len_body. reflexivity.
Qed.

Lemma Ok_inj {A} (a b : A) : Ok a = Ok b -> a = b.
Proof. congruence. Qed.

(* --- short message *)
Lemma nocoding_eqb_refl : (NoCoding =? NoCoding) = true. Proof. reflexivity. Qed.

Lemma dec_short_enc lay udhi m b rest :
  wf_short lay udhi m = true ->
  enc_short (prepare lay udhi m) = Ok b ->
  dec_short (l_replace lay) (negb (l_replace lay) && l_has_esm lay && udhi) (b ++ rest) = Ok (m, rest).
Proof.
  unfold wf_short. intros H. apply andb_true_iff in H. destruct H as [H Hrest].
  apply andb_true_iff in H. destruct H as [Hdf Hmsg].
  destruct m as [dflt dc udh msg]. cbn [sm_dflt sm_dc sm_udh sm_msg] in *.
  unfold prepare. cbn [sm_dflt sm_dc sm_udh sm_msg].
  destruct (l_replace lay) eqn:Erep.
  - (* replace_sm: no data_coding octet, no UDH *)
    apply andb_true_iff in Hrest. destruct Hrest as [Hdc Hu]. apply N.eqb_eq in Hdc. subst dc.
    destruct udh; [discriminate|].
    unfold enc_short. cbn [sm_dflt sm_dc sm_udh sm_msg obind].
    destruct (MaxShortMessageLength <? len msg); [discriminate|]. rewrite len_nil.
    destruct (N.ltb_spec 255 (0 + len msg)); [discriminate|].
    rewrite nocoding_eqb_refl. intros Hb. apply Ok_inj in Hb. subst b.
    unfold dec_short. cbn [andb negb app dec_u8 obind].
    replace ((0 + len msg + 256 - 0 mod 256) mod 256) with (len msg) by lia.
    rewrite take_app. reflexivity.
  - apply andb_true_iff in Hrest. destruct Hrest as [Hdc Hu].
    apply andb_true_iff in Hdc. destruct Hdc as [Hdc Hnc]. apply negb_true_iff in Hnc.
    cbn [negb andb].
    destruct udh as [u|].
    + (* UDH present, indicator set *)
      apply andb_true_iff in Hu. destruct Hu as [Hact Hwu]. rewrite Hact.
      unfold enc_short. cbn [sm_dflt sm_dc sm_udh sm_msg].
      destruct (MaxShortMessageLength <? len msg); [discriminate|].
      destruct (enc_udh u) as [ub| |] eqn:Eu; cbn [obind]; try discriminate.
      destruct (N.ltb_spec 255 (len ub + len msg)); [discriminate|].
      rewrite Hnc. intros Hb. apply Ok_inj in Hb. subst b.
      destruct (dec_udh_enc u ub (msg ++ rest) Hwu Eu) as [Hd Hl]; [lia|].
      unfold dec_short. cbn [andb negb app dec_u8 obind].
      rewrite <- app_assoc. rewrite Hd. cbn [obind]. rewrite <- Hl.
      replace ((len ub + len msg + 256 - len ub mod 256) mod 256) with (len msg) by lia.
      rewrite take_app. reflexivity.
    + (* no UDH, indicator clear *)
      apply negb_true_iff in Hu. rewrite Hu.
      unfold enc_short. cbn [sm_dflt sm_dc sm_udh sm_msg obind].
      destruct (MaxShortMessageLength <? len msg); [discriminate|]. rewrite len_nil.
      destruct (N.ltb_spec 255 (0 + len msg)); [discriminate|].
      rewrite Hnc. intros Hb. apply Ok_inj in Hb. subst b.
      unfold dec_short. cbn [andb negb app dec_u8 obind].
      replace ((0 + len msg + 256 - 0 mod 256) mod 256) with (len msg) by lia.
      rewrite take_app. reflexivity.
Qed.

(* --- TLVs *)
Definition wf_tlv (e : N * bytes) : bool := (fst e <? 65536) && octetsb (snd e).
Definition nonempty (e : N * bytes) : bool := negb (len (snd e) =? 0).

Lemma enc_tags_sorted_len_ge t b : enc_tags_sorted t = Ok b ->
  (List.length (filter nonempty t) <= List.length b)%nat.
Proof.
  revert b. induction t as [|[k v] r IH]; intros b; cbn [enc_tags_sorted filter]; [intros; cbn; lia|].
  unfold nonempty at 1. cbn [snd].
  destruct (len v =? 0); cbn [negb]; [apply IH|].
  destruct (len v <? 65535); [|discriminate].
  destruct (enc_tags_sorted r) as [rb| |]; cbn [obind]; try discriminate.
  intros Hb. assert (b = be16 k ++ be16 (len v) ++ v ++ rb) by congruence. subst b.
  specialize (IH rb eq_refl). cbn [List.length]. rewrite !app_length. cbn [be16 List.length]. lia.
Qed.

Lemma dec_tags_loop_all t : forall fuel m b,
  forallb wf_tlv t = true -> sorted_keys t = true ->
  (forall e, In e t -> all_keys_below m (fst e) = true) ->
  enc_tags_sorted t = Ok b -> (List.length (filter nonempty t) <= fuel)%nat ->
  dec_tags_loop fuel b m = Ok (m ++ filter nonempty t).
Proof.
  induction t as [|[k v] r IH]; intros fuel m b Hw Hs Hm He Hf.
  - cbn in He. assert (b = []) by congruence. subst b. destruct fuel; cbn; now rewrite app_nil_r.
  - cbn [forallb] in Hw. apply andb_true_iff in Hw. destruct Hw as [Hkv Hr].
    unfold wf_tlv in Hkv. cbn [fst snd] in Hkv. apply andb_true_iff in Hkv. destruct Hkv as [Hk Ho].
    assert (Hs' : sorted_keys r = true) by (eapply sorted_keys_tail; exact Hs).
    assert (Hm' : forall e, In e r -> all_keys_below m (fst e) = true) by (intros e He'; apply Hm; right; exact He').
    cbn [enc_tags_sorted] in He. cbn [filter]. unfold nonempty at 1 3. cbn [snd].
    destruct (N.eqb_spec (len v) 0) as [Hz|Hz]; cbn [negb].
    + unfold nonempty at 1 in Hf. cbn [filter snd] in Hf. rewrite Hz in Hf. cbn [N.eqb negb] in Hf.
      apply IH; assumption.
    + destruct (N.ltb_spec (len v) 65535) as [Hlt|]; [|discriminate].
      destruct (enc_tags_sorted r) as [rb| |] eqn:Er; cbn [obind] in He; try discriminate.
      assert (b = be16 k ++ be16 (len v) ++ v ++ rb) by congruence. subst b. clear He.
      cbn [filter] in Hf. unfold nonempty at 1 in Hf. cbn [snd] in Hf.
      destruct (N.eqb_spec (len v) 0); [contradiction|]. cbn [negb List.length] in Hf.
      destruct fuel as [|fuel]; [lia|].
      unfold be16. cbn [app dec_tags_loop].
      rewrite (de16_be16 k) by lia. rewrite (de16_be16 (len v)) by lia.
      destruct (N.eqb_spec (len v) 0); [contradiction|].
      destruct (v ++ rb) as [|x xs] eqn:Evr.
      { destruct v; [cbn in Hz; contradiction | discriminate]. }
      rewrite <- Evr. rewrite len_app.
      destruct (N.leb_spec (len v) (len v + len rb)); [|lia].
      rewrite len_nat. rewrite firstn_app_l, firstn_all by lia. rewrite skipn_app_l, skipn_all by lia. cbn [app].
      rewrite kv_insert_above by (apply (Hm (k, v)); left; reflexivity).
      rewrite (IH fuel (m ++ [(k, v)]) rb Hr Hs').
      * rewrite <- app_assoc. reflexivity.
      * intros e He'. apply all_keys_below_app.
        -- apply (Hm (k, v)). left. reflexivity.
        -- cbn [sorted_keys] in Hs. apply (keys_above_in k r e Hs He').
      * reflexivity.
      * lia.
Qed.

Lemma dec_tags_enc t b :
  wf_tags t = true -> enc_tags t = Ok b -> dec_tags b = Ok (filter nonempty t).
Proof.
  unfold wf_tags, enc_tags, dec_tags. intros H. apply andb_true_iff in H. destruct H as [Hs Hw].
  rewrite (kv_sort_sorted t Hs). intros He.
  apply (dec_tags_loop_all t (List.length b) [] b Hw Hs); [reflexivity | exact He |].
  apply enc_tags_sorted_len_ge; exact He.
Qed.

(* ================================================================ the walk *)
(* shape of a field list the round trip needs: no second header, TLVs last, at
   most one esm_class and — when the struct has one — before the short message
   (so that the UDH indicator the decoder has seen is the one the encoder used).
   Checked by computation on the table regenerated from the code. *)
Fixpoint ctx_ok (has_esm rep seen : bool) (ks : list fkind) : bool :=
  match ks with
  | [] => true
  | FHeader :: _ => false
  | FEsm :: r => negb seen && ctx_ok has_esm rep true r
  | FShortMsg :: r => (seen || negb has_esm || rep) && ctx_ok has_esm rep seen r
  | FTags :: r => match r with [] => true | _ => false end
  | _ :: r => ctx_ok has_esm rep seen r
  end.

Definition is_esm (k : fkind) : bool := match k with FEsm => true | _ => false end.

Lemma ctx_ok_seen_esm_free he rep ks : ctx_ok he rep true ks = true -> existsb is_esm ks = false.
Proof.
  induction ks as [|k ks IH]; [reflexivity|]. destruct k; cbn [ctx_ok existsb is_esm orb negb andb]; try exact IH; try discriminate.
  destruct ks; [reflexivity | discriminate].
Qed.

Lemma udhi_of_cons v vs : udhi_of (v :: vs) = (match v with VEsm e => e_udhi e | _ => false end) || udhi_of vs.
Proof. reflexivity. Qed.

Lemma esm_free_udhi lay u ks : forall vs,
  existsb is_esm ks = false -> wf_fields lay u ks vs = true -> udhi_of vs = false.
Proof.
  induction ks as [|k ks IH]; intros [|v vs] He Hw; try reflexivity; try discriminate.
  cbn [existsb] in He. apply orb_false_iff in He. destruct He as [Hk Hks].
  cbn [wf_fields] in Hw. apply andb_true_iff in Hw. destruct Hw as [Hv Hvs].
  rewrite udhi_of_cons, (IH vs Hks Hvs).
  destruct k, v; try discriminate; reflexivity.
Qed.

Lemma filter_nonempty_norm t : norm_val (VTags t) = VTags (filter nonempty t).
Proof. reflexivity. Qed.

Lemma nb_eqb1 b : (nb b =? 1) = b. Proof. destruct b; reflexivity. Qed.

Lemma fields_roundtrip lay : forall ks vs seen u_enc u_dec b,
  ctx_ok (l_has_esm lay) (l_replace lay) seen ks = true ->
  (seen = true -> u_dec = u_enc) ->
  (seen = false -> u_enc = udhi_of vs) ->
  wf_fields lay u_enc ks vs = true ->
  enc_fields lay u_enc ks vs = Ok b ->
  dec_fields lay ks b u_dec = Ok (map norm_val vs).
Proof.
  induction ks as [|k ks IH]; intros [|v vs] seen u_enc u_dec b Hctx Hseen Hnot Hw He; try discriminate.
  - reflexivity.
  - cbn [wf_fields] in Hw. apply andb_true_iff in Hw. destruct Hw as [Hv Hvs].
    cbn [enc_fields] in He.
    destruct (enc_field lay u_enc k v) as [b1| |] eqn:E1; cbn [obind] in He; try discriminate.
    destruct (enc_fields lay u_enc ks vs) as [b2| |] eqn:E2; cbn [obind] in He; try discriminate.
    apply Ok_inj in He. subst b. cbn [dec_fields map].
    (* the common continuation: same context for the rest *)
    assert (Hcont : forall seen', ctx_ok (l_has_esm lay) (l_replace lay) seen' ks = true ->
                    (seen' = true -> u_dec = u_enc) -> (seen' = false -> u_enc = udhi_of vs) ->
                    dec_fields lay ks b2 u_dec = Ok (map norm_val vs)).
    { intros seen' C1 C2 C3. eapply IH; eassumption. }
    destruct k, v; cbn [wf_field] in Hv; try discriminate; cbn [enc_field] in E1; cbn [ctx_ok] in Hctx; try discriminate.
    + (* FCStr *) rewrite (nulfree_no_nul _ Hv) in E1. apply Ok_inj in E1. subst b1. cbn [dec_field]. rewrite (dec_cstr_enc _ _ Hv). cbn [obind norm_val].
      rewrite (Hcont seen Hctx Hseen); [reflexivity|]. intros Hs. rewrite (Hnot Hs). reflexivity.
    + (* FU8 *) apply Ok_inj in E1. subst b1. cbn [dec_field app dec_u8 obind norm_val].
      rewrite (Hcont seen Hctx Hseen); [reflexivity|]. intros Hs. rewrite (Hnot Hs). reflexivity.
    + (* FBool *) apply Ok_inj in E1. subst b1. unfold enc_bool. cbn [dec_field app dec_u8 obind norm_val]. rewrite nb_eqb1.
      rewrite (Hcont seen Hctx Hseen); [reflexivity|]. intros Hs. rewrite (Hnot Hs). reflexivity.
    + (* FEsm *) change (esm_fits e) with (wf_esm e) in E1; rewrite Hv in E1. apply Ok_inj in E1. subst b1. cbn [dec_field app dec_u8 obind norm_val].
      rewrite (wf_esm_roundtrip e Hv).
      apply andb_true_iff in Hctx. destruct Hctx as [Hns Hctx]. apply negb_true_iff in Hns.
      pose proof (Hnot Hns) as Hu. rewrite udhi_of_cons in Hu.
      rewrite (esm_free_udhi lay u_enc ks vs (ctx_ok_seen_esm_free _ _ _ Hctx) Hvs), orb_false_r in Hu.
      rewrite (IH vs true u_enc (e_udhi e) b2 Hctx); [reflexivity | intros _; congruence | discriminate | exact Hvs | exact E2].
    + (* FRegDel *) change (regdel_fits r) with (wf_regdel r) in E1; rewrite Hv in E1. apply Ok_inj in E1. subst b1. cbn [dec_field app dec_u8 obind norm_val].
      rewrite (wf_regdel_roundtrip r Hv).
      rewrite (Hcont seen Hctx Hseen); [reflexivity|]. intros Hs. rewrite (Hnot Hs). reflexivity.
    + (* FAddr *) rewrite (wf_addr_no_nul _ Hv) in E1. apply Ok_inj in E1. subst b1. cbn [dec_field]. rewrite (dec_addr_enc _ _ Hv). cbn [obind norm_val].
      rewrite (Hcont seen Hctx Hseen); [reflexivity|]. intros Hs. rewrite (Hnot Hs). reflexivity.
    + (* FDests *) apply andb_true_iff in Hv. destruct Hv as [Hs1 Hd1]. cbn [dec_field].
      rewrite (dec_dests_enc sme dl b1 b2 Hs1 Hd1 E1). cbn [obind norm_val].
      rewrite (Hcont seen Hctx Hseen); [reflexivity|]. intros Hs. rewrite (Hnot Hs). reflexivity.
    + (* FUnsucc *) cbn [dec_field]. rewrite (dec_unsucc_enc l b1 b2 Hv E1). cbn [obind norm_val].
      rewrite (Hcont seen Hctx Hseen); [reflexivity|]. intros Hs. rewrite (Hnot Hs). reflexivity.
    + (* FShortMsg *) apply andb_true_iff in Hctx. destruct Hctx as [Hsm Hctx]. cbn [dec_field].
      assert (Hb : negb (l_replace lay) && l_has_esm lay && u_dec = negb (l_replace lay) && l_has_esm lay && u_enc).
      { destruct seen; [rewrite (Hseen eq_refl); reflexivity|]. cbn [orb] in Hsm.
        apply orb_true_iff in Hsm. destruct Hsm as [Hh|Hr].
        - apply negb_true_iff in Hh. rewrite Hh. now rewrite !andb_false_r.
        - rewrite Hr. reflexivity. }
      rewrite Hb. rewrite (dec_short_enc lay u_enc m b1 b2 Hv E1). cbn [obind norm_val].
      rewrite (Hcont seen Hctx Hseen); [reflexivity|]. intros Hs. rewrite (Hnot Hs). reflexivity.
    + (* FTags: last field, decoded greedily to the end of the frame *)
      destruct ks; [|discriminate]. destruct vs; [|discriminate]. cbn [enc_fields] in E2. apply Ok_inj in E2. subst b2.
      rewrite app_nil_r. cbn [dec_field]. rewrite (dec_tags_enc t b1 Hv E1). cbn [obind dec_fields map].
      rewrite filter_nonempty_norm. reflexivity.
    + (* FSkipped: no octets; only the zero value is representable *)
      apply Ok_inj in E1. subst b1. apply N.eqb_eq in Hv. subst v. cbn [dec_field app obind norm_val].
      rewrite (Hcont seen Hctx Hseen); [reflexivity|]. intros Hs. rewrite (Hnot Hs). reflexivity.
Qed.

(* ============================================================== whole PDUs *)
Definition lay_ok (lay : layout) : bool :=
  match l_fields lay with
  | FHeader :: ks => ctx_ok (l_has_esm lay) (l_replace lay) false ks && (l_id lay <? 4294967296)
  | _ => false
  end.

(* well-formed value list with a zero command_status (body present) *)
Definition wf_vals (lay : layout) (vs : list fval) : Prop :=
  match l_fields lay, vs with
  | FHeader :: ks, VHeader h :: vs' =>
    (0 < h_seq h < 2147483648)%Z /\ h_status h = 0 /\ wf_fields lay (udhi_of vs') ks vs' = true
  | _, _ => False
  end.

(* the value ReadPDU hands back: command_length and command_id filled in, empty TLVs absent *)
Definition received (lay : layout) (vs : list fval) : list fval :=
  match marshal lay vs, vs with
  | Ok f, VHeader h :: vs' =>
    VHeader {| h_len := len f; h_id := l_id lay; h_status := h_status h; h_seq := h_seq h |} :: map norm_val vs'
  | _, _ => vs
  end.

Lemma dec_header_enc n id st sq body :
  16 <= n <= 65536 -> id < 4294967296 -> st < 4294967296 -> sq < 4294967296 ->
  dec_header (be32 n ++ be32 id ++ be32 st ++ be32 sq ++ body)
  = Ok ({| h_len := n; h_id := id; h_status := st; h_seq := i32_of_u32 sq |}, body).
Proof.
  intros Hn Hi Hs Hq. unfold be32. cbn [app]. unfold dec_header.
  rewrite !de32_be32 by lia.
  destruct (N.ltb_spec n 16); [lia|]. destruct (N.ltb_spec 65536 n); [lia|]. reflexivity.
Qed.

Lemma patch_len_shape L0 id st sq body :
  patch_len (enc_header L0 id st sq ++ body)
  = be32 (len (enc_header L0 id st sq ++ body) mod 4294967296) ++ be32 id ++ be32 st ++ be32 (u32_of_i32 sq) ++ body.
Proof. reflexivity. Qed.

Lemma u32_of_i32_lt z : u32_of_i32 z < 4294967296.
Proof. unfold u32_of_i32. pose proof (Z.mod_pos_bound z 4294967296 eq_refl). lia. Qed.

Lemma dec_header_marshalled L0 id st sq body :
  len (enc_header L0 id st sq ++ body) <= 65536 -> id < 4294967296 -> st < 4294967296 ->
  (0 < sq < 2147483648)%Z ->
  dec_header (patch_len (enc_header L0 id st sq ++ body))
  = Ok ({| h_len := len (enc_header L0 id st sq ++ body); h_id := id; h_status := st; h_seq := sq |}, body).
Proof.
  intros Hl Hi Hs Hq. rewrite patch_len_shape.
  pose proof (hdr_body_len L0 id st sq body) as H16.
  rewrite N.mod_small by lia.
  rewrite dec_header_enc; try assumption; try lia; [|apply u32_of_i32_lt].
  rewrite i32_u32 by exact Hq. reflexivity.
Qed.

Theorem roundtrip lay vs f :
  lay_ok lay = true -> wf_vals lay vs -> marshal lay vs = Ok f -> len f <= 65536 ->
  unmarshal lay f = Ok (received lay vs).
Proof.
  unfold lay_ok, wf_vals, received. intros Hlay Hwf Hm Hlen. rewrite Hm.
  unfold marshal, unmarshal in *.
  destruct (l_fields lay) as [|k ks]; [discriminate|]. destruct k; try discriminate.
  destruct vs as [|v vs']; [contradiction|]. destruct v as [h| | | | | | | | | | |]; try contradiction.
  destruct Hwf as (Hseq & Hst & Hw). apply andb_true_iff in Hlay. destruct Hlay as [Hctx Hid].
  destruct (Z.leb_spec (h_seq h) 0); [lia|]. rewrite Hst in *. cbn [N.eqb negb] in *.
  destruct (enc_fields lay (udhi_of vs') ks vs') as [body| |] eqn:Eb; cbn [obind] in Hm; try discriminate.
  apply Ok_inj in Hm. subst f.
  rewrite patch_len_len in Hlen by (pose proof (hdr_body_len (h_len h) (l_id lay) 0 (h_seq h) body); lia).
  rewrite dec_header_marshalled; try assumption; try lia.
  cbn [obind h_status N.eqb negb].
  rewrite (fields_roundtrip lay ks vs' false (udhi_of vs') false body Hctx); try reflexivity; try assumption; try discriminate.
Qed.

(* a non-zero command_status: only the header travels *)
Theorem roundtrip_status lay h ks vs :
  l_fields lay = FHeader :: ks -> l_id lay < 4294967296 ->
  (0 < h_seq h < 2147483648)%Z -> 0 < h_status h < 4294967296 ->
  exists f, marshal lay (VHeader h :: vs) = Ok f /\ len f = 16 /\
            unmarshal lay f = Ok (VHeader {| h_len := 16; h_id := l_id lay; h_status := h_status h; h_seq := h_seq h |}
                                  :: map zero_val ks).
Proof.
  intros Hl Hid Hseq Hst. eexists. split; [eapply marshal_status_frame; [exact Hl | lia | lia]|].
  split; [reflexivity|].
  unfold unmarshal. rewrite Hl.
  rewrite <- (app_nil_r (enc_header _ _ _ _)).
  rewrite dec_header_marshalled; try assumption; try lia; [|rewrite app_nil_r; cbn; lia].
  cbn [obind h_status]. destruct (N.eqb_spec (h_status h) 0); [lia|]. cbn [negb].
  rewrite app_nil_r. reflexivity.
Qed.

(* Marshal output with a zero status: its first 16 octets are an acceptable header stating the frame length and the type's id *)
Lemma marshal_frame_header lay vs f :
  lay_ok lay = true -> wf_vals lay vs -> marshal lay vs = Ok f -> len f <= 65536 ->
  exists sq, dec_header (firstn 16 f) = Ok ({| h_len := len f; h_id := l_id lay; h_status := 0; h_seq := sq |}, []).
Proof.
  unfold lay_ok, wf_vals. intros Hlay Hwf Hm Hlen. unfold marshal in Hm.
  destruct (l_fields lay) as [|k ks]; [discriminate|]. destruct k; try discriminate.
  destruct vs as [|v vs']; [contradiction|]. destruct v as [h| | | | | | | | | | |]; try contradiction.
  destruct Hwf as (Hseq & Hst & Hw). apply andb_true_iff in Hlay. destruct Hlay as [Hctx Hid].
  destruct (Z.leb_spec (h_seq h) 0); [lia|]. rewrite Hst in *. cbn [N.eqb negb] in *.
  destruct (enc_fields lay (udhi_of vs') ks vs') as [body| |] eqn:Eb; cbn [obind] in Hm; try discriminate.
  apply Ok_inj in Hm. subst f.
  pose proof (hdr_body_len (h_len h) (l_id lay) 0 (h_seq h) body) as H16.
  rewrite patch_len_len in Hlen by lia.
  pose proof (dec_header_marshalled (h_len h) (l_id lay) 0 (h_seq h) body Hlen ltac:(lia) ltac:(lia) Hseq) as Hd.
  pose proof (dec_header_firstn16 (patch_len (enc_header (h_len h) (l_id lay) 0 (h_seq h) ++ body))) as Hf.
  rewrite Hd in Hf.
  assert (H16' : (16 <= List.length (patch_len (enc_header (h_len h) (l_id lay) 0 (h_seq h) ++ body)))%nat).
  { pose proof (patch_len_len (enc_header (h_len h) (l_id lay) 0 (h_seq h) ++ body) ltac:(lia)) as Hp. unfold len in *. lia. }
  specialize (Hf H16').
  destruct (dec_header (firstn 16 _)) as [[h' r']| |] eqn:E; try contradiction.
  destruct Hf as [<- ->]. exists (h_seq h). rewrite patch_len_len by lia. reflexivity.
Qed.

Lemma marshal_well_framed lay vs f :
  lay_ok lay = true -> wf_vals lay vs -> marshal lay vs = Ok f -> len f <= 65536 -> well_framed f.
Proof.
  intros Hlay Hwf Hm Hlen. destruct (marshal_frame_header lay vs f Hlay Hwf Hm Hlen) as [sq E].
  eexists _, _. split; [exact E | reflexivity].
Qed.

(* ReadPDU's one-shot view of such a frame, given that the id finds its layout *)
Lemma decode_frame_marshalled layouts lay vs f :
  lay_ok lay = true -> wf_vals lay vs -> marshal lay vs = Ok f -> len f <= 65536 ->
  find_layout layouts (l_id lay) = Some lay ->
  decode_frame layouts f = RpOk lay (received lay vs).
Proof.
  intros Hlay Hwf Hm Hlen Hfind.
  pose proof (roundtrip lay vs f Hlay Hwf Hm Hlen) as Hu.
  destruct (marshal_frame_header lay vs f Hlay Hwf Hm Hlen) as [sq Eh].
  unfold decode_frame. rewrite Eh. cbn [h_id]. rewrite Hfind, Hu. reflexivity.
Qed.

(* =================================== the table regenerated from the running code *)
From V Require Import Gen.PduLayouts.

Lemma layouts_ok l : In l layouts -> lay_ok l = true.
Proof.
  assert (H : forallb lay_ok layouts = true) by (vm_compute; reflexivity).
  rewrite forallb_forall in H. apply H.
Qed.

Lemma layouts_find l : In l layouts -> find_layout layouts (l_id l) = Some l.
Proof.
  intros Hin. unfold layouts in Hin.
  repeat (destruct Hin as [<-|Hin]; [vm_compute; reflexivity|]). contradiction.
Qed.

(* ------------------------------------------------- C01: the representable domain *)
Definition tlv_domain (v : fval) : bool :=
  match v with
  | VTags t => forallb (fun e => (1 <=? len (snd e)) && (len (snd e) <=? 65534)) t
  | _ => true
  end.

(* positive sequence number, zero status, NUL-free C-strings, every octet field an
   octet, UDH present exactly when the indicator is set, data_coding <> 0xBF
   (replace_sm: no data_coding at all), TLV values of 1..65534 octets, maps in
   canonical (key-sorted) form; a field neither walk handles must be zero (D5). *)
Definition dom (lay : layout) (vs : list fval) : Prop :=
  wf_vals lay vs /\ forallb tlv_domain vs = true.

Definition with_header (lay : layout) (n : N) (vs : list fval) : list fval :=
  match vs with
  | VHeader h :: vs' => VHeader {| h_len := n; h_id := l_id lay; h_status := h_status h; h_seq := h_seq h |} :: vs'
  | _ => vs
  end.

Lemma norm_val_id v : tlv_domain v = true -> norm_val v = v.
Proof.
  destruct v; try reflexivity. cbn [tlv_domain norm_val]. intros H. f_equal.
  induction t as [|e t IH]; [reflexivity|]. cbn [forallb filter] in *.
  apply andb_true_iff in H. destruct H as [He Ht]. apply andb_true_iff in He. destruct He as [He _].
  destruct (N.eqb_spec (len (snd e)) 0); [lia|]. cbn [negb]. f_equal. apply IH; exact Ht.
Qed.

Lemma map_norm_id vs : forallb tlv_domain vs = true -> map norm_val vs = vs.
Proof.
  induction vs as [|v vs IH]; [reflexivity|]. cbn [forallb map]. intros H.
  apply andb_true_iff in H. destruct H as [Hv Hvs]. rewrite (norm_val_id v Hv), (IH Hvs). reflexivity.
Qed.

Lemma received_dom lay vs f : dom lay vs -> marshal lay vs = Ok f -> received lay vs = with_header lay (len f) vs.
Proof.
  intros [Hwf Ht] Hm. unfold received, with_header. rewrite Hm.
  destruct vs as [|v vs']; [reflexivity|]. destruct v; try reflexivity.
  cbn [forallb tlv_domain andb] in Ht. rewrite (map_norm_id vs' Ht). reflexivity.
Qed.

(* C01: Marshal then ReadPDU, under every read schedule *)
Theorem marshal_readpdu lay vs f : In lay layouts -> dom lay vs -> marshal lay vs = Ok f -> len f <= 65536 ->
  forall rest sched, exists sched',
    read_pdu layouts {| st_data := f ++ rest; st_sched := sched |}
    = (RpOk lay (with_header lay (len f) vs), len f, {| st_data := rest; st_sched := sched' |}).
Proof.
  intros Hin Hd Hm Hlen rest sched.
  destruct (read_pdu_well_framed layouts f (marshal_well_framed lay vs f (layouts_ok lay Hin) (proj1 Hd) Hm Hlen) rest sched) as [s' E].
  exists s'. rewrite E.
  rewrite (decode_frame_marshalled layouts lay vs f (layouts_ok lay Hin) (proj1 Hd) Hm Hlen (layouts_find lay Hin)).
  rewrite (received_dom lay vs f Hd Hm). reflexivity.
Qed.

(* non-zero command_status: the header fields survive *)
Theorem marshal_readpdu_status lay h vs : In lay layouts ->
  (0 < h_seq h < 2147483648)%Z -> 0 < h_status h < 4294967296 ->
  exists f ks, marshal lay (VHeader h :: vs) = Ok f /\ len f = 16 /\ l_fields lay = FHeader :: ks /\
    forall rest sched, exists sched',
      read_pdu layouts {| st_data := f ++ rest; st_sched := sched |}
      = (RpOk lay (VHeader {| h_len := 16; h_id := l_id lay; h_status := h_status h; h_seq := h_seq h |} :: map zero_val ks),
         16, {| st_data := rest; st_sched := sched' |}).
Proof.
  intros Hin Hseq Hst. pose proof (layouts_ok lay Hin) as Hok. unfold lay_ok in Hok.
  destruct (l_fields lay) as [|k ks] eqn:El; [discriminate|]. destruct k; try discriminate.
  apply andb_true_iff in Hok. destruct Hok as [_ Hid].
  destruct (roundtrip_status lay h ks vs El ltac:(lia) Hseq Hst) as (f & Hm & Hl & Hu).
  exists f, ks. split; [exact Hm|]. split; [exact Hl|]. split; [reflexivity|].
  intros rest sched.
  assert (Hw : well_framed f /\ decode_frame layouts f =
          RpOk lay (VHeader {| h_len := 16; h_id := l_id lay; h_status := h_status h; h_seq := h_seq h |} :: map zero_val ks)).
  { unfold unmarshal in Hu. rewrite El in Hu.
    assert (H16 : (16 <= List.length f)%nat) by (unfold len in Hl; lia).
    pose proof (dec_header_firstn16 f H16) as Hf.
    destruct (dec_header f) as [[h0 r0]| |] eqn:E0; cbn [obind] in Hu; try discriminate.
    destruct (dec_header (firstn 16 f)) as [[h1 r1]| |] eqn:E1; try contradiction. destruct Hf as [<- ->].
    assert (Hh : h0 = {| h_len := 16; h_id := l_id lay; h_status := h_status h; h_seq := h_seq h |}).
    { destruct (negb (h_status h0 =? 0)).
      - apply Ok_inj in Hu. congruence.
      - destruct (dec_fields lay ks r0 false); cbn [obind] in Hu; try discriminate. apply Ok_inj in Hu. congruence. }
    split.
    - exists h0, []. split; [exact E1|]. rewrite Hh, Hl. reflexivity.
    - unfold decode_frame. rewrite E1, Hh. cbn [h_id]. rewrite (layouts_find lay Hin).
      unfold unmarshal. rewrite El, E0, Hh. cbn [obind h_status].
      destruct (N.eqb_spec (h_status h) 0); [lia|]. reflexivity. }
  destruct Hw as [Hw Hd].
  destruct (read_pdu_well_framed layouts f Hw rest sched) as [s' E]. exists s'. rewrite E, Hd, Hl. reflexivity.
Qed.

(* C03: a stream of valid PDUs returns exactly those PDUs, in order, then EOF *)
Definition frame_of (p : layout * list fval) : bytes :=
  match marshal (fst p) (snd p) with Ok f => f | _ => [] end.
Definition valid_pdu (p : layout * list fval) : Prop :=
  In (fst p) layouts /\ wf_vals (fst p) (snd p) /\ exists f, marshal (fst p) (snd p) = Ok f /\ len f <= 65536.

Theorem reframe_pdus (pdus : list (layout * list fval)) : Forall valid_pdu pdus -> forall sched fuel,
  map fst (read_many (List.length pdus + S fuel) layouts
             {| st_data := List.concat (map frame_of pdus); st_sched := sched |})
  = map (fun p => RpOk (fst p) (received (fst p) (snd p))) pdus ++ [RpEOF].
Proof.
  intros Hv sched fuel.
  assert (Hw : Forall well_framed (map frame_of pdus)).
  { induction Hv as [|p ps (Hin & Hwf & f & Hm & Hl) _ IH]; cbn [map]; constructor; [|exact IH].
    unfold frame_of. rewrite Hm. eapply marshal_well_framed; eauto using layouts_ok. }
  pose proof (reframe layouts (map frame_of pdus) Hw sched fuel) as E. rewrite map_length in E. rewrite E.
  rewrite map_app, !map_map. cbn [map fst]. f_equal.
  clear E Hw. induction Hv as [|p ps (Hin & Hwf & f & Hm & Hl) _ IH]; [reflexivity|].
  cbn [map fst]. f_equal; [|exact IH].
  unfold frame_of. rewrite Hm.
  apply decode_frame_marshalled; auto using layouts_ok, layouts_find.
Qed.

(* ------------------------------------------------------------------ examples *)
Definition ex_enquire : list fval := [VHeader {| h_len := 0; h_id := 0; h_status := 0; h_seq := 5 |}; VTags []].
Definition ex_submit_resp : list fval := [VHeader {| h_len := 0; h_id := 0; h_status := 0; h_seq := 9 |}; VStr [65]; VTags []].
Definition lay_of (id : N) : layout := match find_layout layouts id with Some l => l | None => hd_layout end.
Definition C03_ex_f1 : bytes := frame_of (lay_of 2147483652, ex_submit_resp).
Definition C03_ex_f2 : bytes := frame_of (lay_of 21, ex_enquire).

Lemma C03_example :
  Forall well_framed [C03_ex_f1; C03_ex_f2] /\
  map snd (read_many 5 layouts {| st_data := C03_ex_f1 ++ C03_ex_f2; st_sched := [1; 3; 5; 5; 5; 2]%nat |}) = [18; 16; 0].
Proof.
  split; [|vm_compute; reflexivity].
  repeat constructor; eexists _, _; (split; [vm_compute; reflexivity | vm_compute; reflexivity]).
Qed.

Definition C01_example_value : list fval :=
  [VHeader {| h_len := 0; h_id := 0; h_status := 0; h_seq := 7 |}; VStr []; ex_addr; ex_addr;
   VEsm {| e_mode := 0; e_type := 0; e_udhi := true; e_reply := false |}; VU8 0; VU8 0; VStr []; VStr []; ex_rd; VBool true;
   VShort {| sm_dflt := 0; sm_dc := 8; sm_udh := Some [(0, [7; 2; 1])]; sm_msg := [104; 105] |}; VTags [(5, [1; 2]); (1060, [9])]].
Lemma C01_example_dom : In (lay_of 4) layouts /\ dom (lay_of 4) C01_example_value /\
  exists f, marshal (lay_of 4) C01_example_value = Ok f /\ len f = 56.
Proof.
  split; [vm_compute; tauto|]. split.
  - split; [|vm_compute; reflexivity]. vm_compute. repeat split; reflexivity.
  - eexists. split; vm_compute; reflexivity.
Qed.

(* D5: query_sm_resp with a non-zero error_code does not come back *)
Definition ex_query_resp : list fval :=
  [VHeader {| h_len := 0; h_id := 0; h_status := 0; h_seq := 3 |}; VStr [49]; VStr []; VU8 2; VSkipped 8].
Lemma skipped_field_lost :
  exists lay vs f, In lay layouts /\ marshal lay vs = Ok f /\
    fst (fst (read_pdu layouts {| st_data := f; st_sched := [] |})) <> RpOk lay (with_header lay (len f) vs).
Proof.
  exists (lay_of 2147483651), ex_query_resp. eexists. split; [vm_compute; tauto|].
  split; [vm_compute; reflexivity|]. vm_compute. intros H. discriminate H.
Qed.
