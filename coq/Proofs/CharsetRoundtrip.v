(* decode (encode t) = t for the single-octet codings and UCS-2 (the multi-octet codings and ISO-2022-JP are in
   CharsetProofs.v), and the nine round trips assembled by coding.  Used by C09 (DetectProofs.v) and by the
   payload-level reassembly theorem of C07 (ComposeText.v). *)
From V Require Import Model.Base Model.IntervalMap Spec.Iso8859 Spec.Utf16 Gen.Charsets Model.Charset Proofs.CharsetProofs.
From Coq Require Import ZifyN ZifyNat ZifyBool Arith.
Ltac Zify.zify_post_hook ::= Z.div_mod_to_equations.
Open Scope N_scope.

(* ------------------------------------------- single-octet decoders invert *)
Section SingleOctetDecode.
  Variable tbl : list N.
  Variable t : runs.
  Definition runD (q : run) : bool :=
    let '(lo, hi, n, v) := q in
    (n =? 1) && (lo <=? hi) && (v + (hi - lo) <? 256) &&
    forall_in lo hi (fun r => match nth_error tbl (N.to_nat (v + (r - lo))) with
                              | Some r' => r' =? r | None => false end).
  Definition checkD : bool := forallb runD t.
  Hypothesis HD : checkD = true.

  Theorem sb_roundtrip : forall rs bs, encode_t t rs = Ok bs -> decode_sb tbl bs = Ok rs.
  Proof.
    induction rs as [|r rest IH]; intros bs H; cbn [encode_t] in H.
    - injection H as <-. reflexivity.
    - unfold enc_rune_t in H. destruct (lookup r t) as [[n x]|] eqn:Hl; [|discriminate].
      destruct (encode_t t rest) as [bs'| |] eqn:Hr; try discriminate. injection H as <-.
      destruct (lookup_forall runD t HD r n x Hl) as (lo & hi & v & HP & Hrr & Hx).
      unfold runD in HP. rewrite !andb_true_iff in HP. destruct HP as [[[H1 H2] H3] H4].
      apply N.eqb_eq in H1. apply N.leb_le in H2. apply N.ltb_lt in H3. subst n.
      pose proof (forall_in_sound _ _ _ H4 r Hrr) as H5. cbv beta in H5. rewrite <- Hx in H5.
      change (N.to_nat 1) with 1%nat. rewrite be_bytes_1 by (clear - Hx Hrr H3; lia).
      cbn [app decode_sb]. destruct (nth_error tbl (N.to_nat x)) as [r'|]; [|discriminate].
      apply N.eqb_eq in H5. subst r'. rewrite (IH bs' eq_refl). reflexivity.
  Qed.
End SingleOctetDecode.

Lemma ascii_D : checkD dec_sb_ascii enc_runs_ascii = true. Proof. vm_compute. reflexivity. Qed.
Lemma latin1_D : checkD dec_sb_latin1 enc_runs_latin1 = true. Proof. vm_compute. reflexivity. Qed.
Lemma cyrillic_D : checkD dec_sb_cyrillic enc_runs_cyrillic = true. Proof. vm_compute. reflexivity. Qed.
Lemma hebrew_D : checkD dec_sb_hebrew enc_runs_hebrew = true. Proof. vm_compute. reflexivity. Qed.

(* ------------------------------------------------------ UTF-16 round trip *)
Lemma units_of_bytes_be16 u rest : u < 65536 ->
  units_of_bytes (be16 u ++ rest) = option_map (cons u) (units_of_bytes rest).
Proof.
  intros Hu. unfold be16. cbn [app units_of_bytes].
  replace ((u / 256) mod 256 * 256 + u mod 256) with u by lia. reflexivity.
Qed.

Lemma utf16_units_bound r : scalar r -> Forall (fun u => u < 65536) (utf16_units r).
Proof.
  intros Hs. unfold utf16_units. destruct (r <? 65536) eqn:E.
  - apply N.ltb_lt in E. constructor; [exact E|constructor].
  - apply N.ltb_ge in E. cbv zeta. destruct Hs as [Hs|Hs]; [lia|].
    constructor; [lia|]. constructor; [lia|constructor].
Qed.

Lemma units_of_bytes_units us rest : Forall (fun u => u < 65536) us ->
  units_of_bytes (flat_map be16 us ++ rest) = option_map (app us) (units_of_bytes rest).
Proof.
  induction 1 as [|u us Hu _ IH]; cbn [flat_map app].
  - destruct (units_of_bytes rest); reflexivity.
  - rewrite <- app_assoc, (units_of_bytes_be16 u _ Hu), IH. destruct (units_of_bytes rest); reflexivity.
Qed.

Lemma units_of_bytes_text : forall rs, Forall scalar rs ->
  units_of_bytes (utf16be_text rs) = Some (flat_map utf16_units rs).
Proof.
  induction rs as [|r rest IH]; intros H; [reflexivity|].
  inversion H as [|? ? H1 H2]; subst. unfold utf16be_text. cbn [flat_map]. unfold utf16be at 1.
  rewrite (units_of_bytes_units _ _ (utf16_units_bound r H1)).
  fold (utf16be_text rest). rewrite (IH H2). reflexivity.
Qed.

Lemma scalars_of_units_text : forall rs, Forall scalar rs ->
  scalars_of_units (flat_map utf16_units rs) = Some rs.
Proof.
  induction rs as [|r rest IH]; intros H; [reflexivity|].
  inversion H as [|? ? H1 H2]; subst. cbn [flat_map]. unfold utf16_units at 1.
  destruct (r <? 65536) eqn:E.
  - apply N.ltb_lt in E. cbn [app scalars_of_units].
    assert (Hh : is_high r = false).
    { unfold is_high. destruct H1 as [H1|H1]; apply andb_false_iff; [|right; apply N.ltb_ge; lia].
      destruct (N.lt_ge_cases r 55296); [left; apply N.leb_gt; lia|lia]. }
    assert (Hl : is_low r = false).
    { unfold is_low. destruct H1 as [H1|H1]; apply andb_false_iff; [left; apply N.leb_gt; lia|right; apply N.ltb_ge; lia]. }
    rewrite Hh, Hl, (IH H2). reflexivity.
  - apply N.ltb_ge in E. cbv zeta. cbn [app scalars_of_units].
    assert (Hr : r < 1114112) by (destruct H1; lia).
    assert (Hh : is_high (55296 + (r - 65536) / 1024) = true).
    { unfold is_high. apply andb_true_iff. split; [apply N.leb_le|apply N.ltb_lt]; lia. }
    assert (Hl : is_low (56320 + (r - 65536) mod 1024) = true).
    { unfold is_low. apply andb_true_iff. split; [apply N.leb_le|apply N.ltb_lt]; lia. }
    rewrite Hh, Hl, (IH H2). cbn [option_map]. f_equal. f_equal. lia.
Qed.

Theorem ucs2_roundtrip : forall rs bs, Forall scalar rs ->
  encode_t enc_runs_ucs2 rs = Ok bs -> decode_ucs2 bs = Ok rs.
Proof.
  intros rs bs Hs H. rewrite (ucs2_text rs Hs) in H. injection H as <-.
  unfold decode_ucs2, utf16be_decode. rewrite (units_of_bytes_text rs Hs), (scalars_of_units_text rs Hs). reflexivity.
Qed.


(* ------------------------------------------------ the nine codings, assembled *)
(* the texts the property speaks about: ISO-2022-JP without ESC (RFC 1468 reserves it), UCS-2 over scalar values *)
Definition cs_scope (c : coding) (rs : list N) : Prop :=
  (c = CIso2022jp -> ~ In 27 rs) /\ (c = CUcs2 -> Forall scalar rs).

Theorem cs_roundtrip c rs bs : cs_scope c rs -> encode c rs = Ok bs -> decode c bs = Ok rs.
Proof.
  intros [Hj Hu] H. destruct c; cbn [encode enc_runs] in H; cbn [decode dec_sb].
  - exact (sb_roundtrip dec_sb_ascii enc_runs_ascii ascii_D rs bs H).
  - exact (sb_roundtrip dec_sb_latin1 enc_runs_latin1 latin1_D rs bs H).
  - exact (mb_roundtrip lead_lens_sjis dec_runs_sjis enc_runs_sjis sjis_M rs bs H).
  - exact (sb_roundtrip dec_sb_cyrillic enc_runs_cyrillic cyrillic_D rs bs H).
  - exact (sb_roundtrip dec_sb_hebrew enc_runs_hebrew hebrew_D rs bs H).
  - exact (ucs2_roundtrip rs bs (Hu eq_refl) H).
  - exact (jp_roundtrip rs 0 bs (or_introl eq_refl) (Hj eq_refl) H).
  - exact (mb_roundtrip lead_lens_eucjp dec_runs_eucjp enc_runs_eucjp eucjp_M rs bs H).
  - exact (mb_roundtrip lead_lens_euckr dec_runs_euckr enc_runs_euckr euckr_M rs bs H).
Qed.

(* the model encoders fail only with "not in the code" *)
Lemma encode_t_err t : forall rs e, encode_t t rs = Err e -> e = EText.
Proof.
  induction rs as [|r rest IH]; intros e H; cbn [encode_t] in H; [discriminate|].
  destruct (enc_rune_t t r); [|congruence]. destruct (encode_t t rest) as [bs|e'|]; try discriminate.
  injection H as <-. exact (IH e' eq_refl).
Qed.
Lemma encode_jp_err : forall rs st e, encode_jp st rs = Err e -> e = EText.
Proof.
  induction rs as [|r rest IH]; intros st e H; cbn [encode_jp] in H; [discriminate|].
  destruct (lookup5 r enc_runs_iso2022jp) as [[[m n] x]|]; [|congruence].
  destruct (encode_jp m rest) as [bs|e'|] eqn:E; try discriminate. injection H as <-. exact (IH m e' E).
Qed.
Lemma encode_err c rs e : encode c rs = Err e -> e = EText.
Proof. destruct c; cbn [encode]; try apply encode_t_err. apply encode_jp_err. Qed.
