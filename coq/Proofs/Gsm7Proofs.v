(* Theorems about the model of the GSM 7-bit packed codec (Model/Gsm7.v):
   finite repertoire, septet count, length formula, bit layout, CR filler,
   round trip modulo the trailing-CR rule, totality of both transformers for
   every destination capacity, detector <-> encoder. *)
From V Require Import Model.Base Model.Gsm7 Proofs.Gsm7Bits.
From Coq Require Import ZifyN ZifyNat ZifyBool Arith.
Ltac Zify.zify_post_hook ::= Z.div_mod_to_equations.
Open Scope nat_scope.
Local Notation length := List.length.

(* ---------------------------------------------------------------- the repertoire is finite *)
(* every rune the tables mention (a superset of what is accepted: it still has U+00A0) *)
Definition repertoire_all : list N := reverse_lookup ++ map fst forward_escapes.

Lemma fwd_build_notin skip : forall tbl i r acc, ~ In r tbl -> fwd_build skip i tbl r acc = acc.
Proof.
  induction tbl as [|u tbl IH]; intros i r acc H; cbn [fwd_build]; [reflexivity|].
  rewrite IH by (intros X; apply H; now right).
  replace (u =? r)%N with false; [now rewrite andb_false_r|].
  symmetry. apply N.eqb_neq. intros ->. apply H. now left.
Qed.

Lemma assoc_fst_notin k : forall l, ~ In k (map fst l) -> assoc_fst k l = None.
Proof.
  induction l as [|[a b] l IH]; intros H; cbn [assoc_fst]; [reflexivity|].
  cbn [map fst In] in H. replace (a =? k)%N with false; [apply IH; tauto|].
  symmetry. apply N.eqb_neq. intros ->. apply H. now left.
Qed.

Lemma rune_septets_notin r : ~ In r repertoire_all -> rune_septets r = None.
Proof.
  unfold repertoire_all. rewrite in_app_iff. intros H. unfold rune_septets, forward_lookup, forward_escape.
  rewrite fwd_build_notin by tauto. now rewrite assoc_fst_notin by tauto.
Qed.

(* lift a boolean fact checked on the repertoire to every rune *)
Lemma all_runes (P : N -> bool) :
  forallb P repertoire_all = true -> (forall r, rune_septets r = None -> P r = true) -> forall r, P r = true.
Proof.
  intros Hin Hout r. destruct (in_dec N.eq_dec r repertoire_all) as [I|I].
  - rewrite forallb_forall in Hin. now apply Hin.
  - now apply Hout, rune_septets_notin.
Qed.

(* what the decoder's lookups do with the septets of one accepted rune *)
Definition rune_ok (r : N) : bool :=
  match rune_septets r with
  | None => true
  | Some [c] => (c <? 128)%N && negb (c =? esc)%N && beq_opt N.eqb (nth_error reverse_lookup (N.to_nat c)) (Some r)
                && (negb (c =? cr)%N || (r =? 13)%N) && (negb (r =? 13)%N || (c =? cr)%N)
  | Some [e; c] => (e =? esc)%N && (c <? 128)%N && beq_opt N.eqb (reverse_escape c) (Some r)
                   && negb (c =? cr)%N && negb (r =? 13)%N
  | Some _ => false
  end.

Lemma rune_ok_all r : rune_ok r = true.
Proof.
  apply all_runes; [vm_compute; reflexivity|]. intros r0 H. unfold rune_ok. now rewrite H.
Qed.

Lemma beq_opt_N a b : beq_opt N.eqb a (Some b) = true -> a = Some b.
Proof. destruct a as [x|]; cbn; [|discriminate]. intros H. apply N.eqb_eq in H. congruence. Qed.

Inductive rune_shape (r : N) : list N -> Prop :=
| shape_single c : (c < 128)%N -> c <> esc -> nth_error reverse_lookup (N.to_nat c) = Some r ->
    (c = cr <-> r = 13%N) -> rune_shape r [c]
| shape_escape c : (c < 128)%N -> reverse_escape c = Some r -> c <> cr -> r <> 13%N -> rune_shape r [esc; c].

Lemma rune_septets_shape r s : rune_septets r = Some s -> rune_shape r s.
Proof.
  intros H. pose proof (rune_ok_all r) as K. unfold rune_ok in K. rewrite H in K.
  destruct s as [|c [|c2 [|]]]; try discriminate.
  - repeat (apply andb_true_iff in K; destruct K as [K ?]).
    constructor; try lia.
    now apply beq_opt_N.
  - repeat (apply andb_true_iff in K; destruct K as [K ?]).
    assert (c = esc) by lia. subst c. constructor; try lia. now apply beq_opt_N.
Qed.

(* ---------------------------------------------------------------- toSeptets *)
Lemma to_septets_no_panic t : to_septets t <> Panic.
Proof.
  induction t as [|r t IH]; cbn [to_septets]; [discriminate|].
  destruct (rune_septets r); [|discriminate]. destruct (to_septets t); cbn; congruence.
Qed.

Lemma to_septets_cons r t S : to_septets (r :: t) = Ok S ->
  exists s S', rune_septets r = Some s /\ to_septets t = Ok S' /\ S = s ++ S'.
Proof.
  cbn [to_septets]. destruct (rune_septets r) as [s|]; [|discriminate].
  destruct (to_septets t) as [S'| |]; cbn [obind]; try discriminate.
  intros [= <-]. now exists s, S'.
Qed.

Lemma to_septets_lt128 : forall t S, to_septets t = Ok S -> Forall (fun s => (s < 128)%N) S.
Proof.
  induction t as [|r t IH]; intros S H.
  - cbn in H. injection H as <-. constructor.
  - apply to_septets_cons in H. destruct H as (s & S' & Hs & Ht & ->).
    apply Forall_app. split; [|now apply IH].
    destruct (rune_septets_shape _ _ Hs); repeat constructor; auto.
Qed.

Lemma to_septets_nonempty t S : to_septets t = Ok S -> t <> [] -> S <> [].
Proof.
  destruct t as [|r t]; [congruence|]. intros H _. apply to_septets_cons in H.
  destruct H as (s & S' & Hs & _ & ->). destruct (rune_septets_shape _ _ Hs); discriminate.
Qed.

Lemma to_septets_app t1 t2 S1 S2 : to_septets t1 = Ok S1 -> to_septets t2 = Ok S2 ->
  to_septets (t1 ++ t2) = Ok (S1 ++ S2).
Proof.
  revert S1. induction t1 as [|r t1 IH]; intros S1 H1 H2.
  - cbn in H1. injection H1 as <-. exact H2.
  - apply to_septets_cons in H1. destruct H1 as (s & S' & Hs & Ht & ->).
    cbn [app to_septets]. rewrite Hs, (IH _ Ht H2). cbn [obind]. now rewrite app_assoc.
Qed.

(* number of septets of a text: escape-table characters count twice *)
Definition rune_width (r : N) : nat :=
  match forward_lookup r with Some _ => 1 | None => match forward_escape r with Some _ => 2 | None => 0 end end.
Definition septet_count (t : list N) : nat := fold_right (fun r a => rune_width r + a) 0 t.

Lemma to_septets_length : forall t S, to_septets t = Ok S -> length S = septet_count t.
Proof.
  induction t as [|r t IH]; intros S H.
  - cbn in H. injection H as <-. reflexivity.
  - apply to_septets_cons in H. destruct H as (s & S' & Hs & Ht & ->).
    rewrite app_length, (IH _ Ht). cbn [septet_count fold_right]. f_equal.
    unfold rune_septets in Hs. unfold rune_width.
    destruct (forward_lookup r); [injection Hs as <-; reflexivity|].
    destruct (forward_escape r); [injection Hs as <-; reflexivity|discriminate].
Qed.

(* the text ends in CR exactly when its septets do *)
Definition ends_cr (t : list N) : bool := (last t 0 =? 13)%N.

Lemma last_app_ne {A} (a b : list A) d : b <> [] -> last (a ++ b) d = last b d.
Proof.
  intros Hb. induction a as [|x a IH]; [reflexivity|]. cbn [app].
  destruct (a ++ b) eqn:E; [destruct a; cbn in E; congruence|]. cbn [last]. exact IH.
Qed.

Lemma to_septets_last : forall t S, to_septets t = Ok S -> t <> [] -> (last S 0%N = cr <-> last t 0%N = 13%N).
Proof.
  induction t as [|r t IH]; intros S H Hne; [congruence|].
  apply to_septets_cons in H. destruct H as (s & S' & Hs & Ht & ->).
  destruct t as [|r2 t].
  - cbn in Ht. injection Ht as <-. rewrite app_nil_r. cbn [last].
    destruct (rune_septets_shape _ _ Hs) as [c ? ? ? Hc|c ? ? Hc Hr]; cbn [last]; [exact Hc|]. split; intros; congruence.
  - assert (Hne2 : r2 :: t <> []) by discriminate.
    rewrite last_app_ne by (eapply to_septets_nonempty; eauto).
    rewrite (IH _ Ht Hne2). reflexivity.
Qed.

(* ---------------------------------------------------------------- the decoding loop inverts toSeptets *)
Lemma dec_septets_app : forall t S rest, to_septets t = Ok S ->
  dec_septets (S ++ rest) = (do rs <- dec_septets rest; Ok (t ++ rs)).
Proof.
  induction t as [|r t IH]; intros S rest H.
  - cbn in H. injection H as <-. cbn [app]. destruct (dec_septets rest); reflexivity.
  - apply to_septets_cons in H. destruct H as (s & S' & Hs & Ht & ->).
    destruct (rune_septets_shape _ _ Hs) as [c Hc Hne Hn _|c Hc Hr _ _].
    + cbn [app dec_septets].
      replace ((c <=? 127)%N && negb (c =? esc)%N) with true
        by (symmetry; apply andb_true_iff; split; [apply N.leb_le; lia | apply negb_true_iff, N.eqb_neq; exact Hne]).
      rewrite Hn, (IH _ rest Ht). destruct (dec_septets rest); reflexivity.
    + cbn [app dec_septets]. replace ((esc <=? 127)%N && negb (esc =? esc)%N) with false by reflexivity.
      rewrite Hr, (IH _ rest Ht). destruct (dec_septets rest); reflexivity.
Qed.

Lemma dec_septets_to_septets t S : to_septets t = Ok S -> dec_septets S = Ok t.
Proof.
  intros H. rewrite <- (app_nil_r S), (dec_septets_app t S [] H). cbn. now rewrite app_nil_r.
Qed.

(* ---------------------------------------------------------------- encoder: layout for every destination capacity *)
Lemma get_bit_firstn n d q : length d = n + (length d - n) ->
  get_bit (firstn n d) q = if q / 8 <? n then get_bit d q else false.
Proof.
  intros _. unfold get_bit. destruct (Nat.ltb_spec (q / 8) n) as [L|G].
  - f_equal. rewrite <- (firstn_skipn n d) at 2.
    destruct (Nat.lt_ge_cases (q / 8) (length (firstn n d))) as [L2|G2].
    + now rewrite app_nth1.
    + rewrite firstn_length in G2. rewrite !nth_overflow; auto; rewrite ?app_length, ?firstn_length, ?skipn_length; lia.
  - rewrite nth_overflow by (rewrite firstn_length; lia). apply N.bits_0.
Qed.

Lemma firstn_octets n d : octets d -> octets (firstn n d).
Proof.
  unfold octets. intros H. apply Forall_forall. intros x Hx. rewrite Forall_forall in H. apply H.
  rewrite <- (firstn_skipn n d). apply in_or_app. now left.
Qed.

Definition layout (S : list N) (out : bytes) : Prop :=
  length out = blocks (7 * length S) /\ octets out /\
  forall q, get_bit out q = nth q (septet_bits (with_filler S)) false.

Lemma layout_unique S a b : layout S a -> layout S b -> a = b.
Proof.
  intros (La & Oa & Ba) (Lb & Ob & Bb). apply bytes_ext; auto; [congruence|]. intros q. now rewrite Ba, Bb.
Qed.

Theorem enc_transform_spec dstlen t S : t <> [] -> to_septets t = Ok S ->
  (dstlen < blocks (7 * length S) -> enc_transform dstlen t = Err ESize) /\
  (blocks (7 * length S) <= dstlen -> exists out, enc_transform dstlen t = Ok out /\ layout S out).
Proof.
  intros Hne HS. unfold enc_transform. destruct t as [|r t]; [congruence|]. rewrite HS. cbn [obind].
  split; intros H.
  - destruct (Nat.ltb_spec dstlen (blocks (7 * length S))); [reflexivity|lia].
  - destruct (Nat.ltb_spec dstlen (blocks (7 * length S))); [lia|].
    destruct (pack_septets_zeroed dstlen S) as [_ K]. destruct (K H) as (d & E & L & O & B).
    rewrite E. cbn [obind]. eexists. split; [reflexivity|]. unfold layout. repeat split.
    + rewrite firstn_length. lia.
    + now apply firstn_octets.
    + intros q. rewrite get_bit_firstn by lia. destruct (Nat.ltb_spec (q / 8) (blocks (7 * length S))) as [L1|G1]; [apply B|].
      rewrite nth_overflow; [reflexivity|]. rewrite septet_bits_length. rewrite <- (blocks_with_filler S), blocks_spec in G1. lia.
Qed.

Lemma needed_ok t S : to_septets t = Ok S -> needed t = blocks (7 * length S).
Proof. unfold needed. now intros ->. Qed.

Lemma encode_nil : encode [] = Ok [].
Proof. reflexivity. Qed.

Theorem encode_layout t S : t <> [] -> to_septets t = Ok S -> exists out, encode t = Ok out /\ layout S out.
Proof.
  intros Hne HS. unfold encode. rewrite (needed_ok _ _ HS).
  destruct (enc_transform_spec (blocks (7 * length S)) t S Hne HS) as [_ K]. now apply K.
Qed.

(* The octets returned do not depend on how much room the caller offered. *)
Theorem enc_transform_any_dst dstlen t : is_ok (to_septets t) = true ->
  enc_transform dstlen t = if dstlen <? needed t then Err ESize else encode t.
Proof.
  destruct (to_septets t) as [S| |] eqn:HS; try discriminate. intros _.
  destruct t as [|r t].
  - cbn in HS. injection HS as <-. reflexivity.
  - assert (Hne : r :: t <> []) by discriminate. rewrite (needed_ok _ _ HS).
    destruct (enc_transform_spec dstlen _ _ Hne HS) as [K1 K2].
    destruct (Nat.ltb_spec dstlen (blocks (7 * length S))) as [L|G]; [now apply K1|].
    destruct (K2 G) as (o1 & E1 & L1). destruct (encode_layout _ _ Hne HS) as (o2 & E2 & L2).
    rewrite E1, E2. f_equal. eapply layout_unique; eauto.
Qed.

Lemma enc_transform_err dstlen t e : to_septets t = Err e -> enc_transform dstlen t = Err e.
Proof.
  intros H. unfold enc_transform. destruct t as [|r t]; [discriminate|]. now rewrite H.
Qed.

(* ---------------------------------------------------------------- encoder totality, for every dst capacity *)
Theorem enc_transform_total dstlen t : enc_transform dstlen t <> Panic.
Proof.
  destruct (to_septets t) as [S|e|] eqn:HS.
  - rewrite enc_transform_any_dst by (now rewrite HS).
    destruct (dstlen <? needed t); [discriminate|].
    destruct t as [|r t]; [discriminate|].
    destruct (encode_layout (r :: t) S) as (o & E & _); [discriminate|exact HS|]. now rewrite E.
  - now rewrite (enc_transform_err _ _ _ HS).
  - now apply to_septets_no_panic in HS.
Qed.

Theorem encode_total t : encode t <> Panic.
Proof. apply enc_transform_total. Qed.

Theorem encode_ok_iff t : is_ok (encode t) = is_ok (to_septets t).
Proof.
  destruct (to_septets t) as [S|e|] eqn:HS.
  - destruct t as [|r t]; [reflexivity|].
    destruct (encode_layout (r :: t) S) as (o & E & _); [discriminate|exact HS|]. now rewrite E.
  - unfold encode. now rewrite (enc_transform_err _ _ _ HS).
  - now apply to_septets_no_panic in HS.
Qed.

(* ---------------------------------------------------------------- length, bit layout, filler *)
Theorem encode_length t S out : to_septets t = Ok S -> encode t = Ok out ->
  length out = (7 * septet_count t + 7) / 8.
Proof.
  intros HS E. rewrite <- (to_septets_length _ _ HS), <- blocks_spec. destruct t as [|r t].
  - cbn in HS, E. injection HS as <-. injection E as <-. reflexivity.
  - destruct (encode_layout (r :: t) S) as (o & E' & L & _); [discriminate|exact HS|]. congruence.
Qed.

Theorem encode_bit_layout t S out i j : to_septets t = Ok S -> encode t = Ok out ->
  i < length S -> j < 7 -> get_bit out (7 * i + j) = N.testbit (nth i S 0%N) (N.of_nat j).
Proof.
  intros HS E Hi Hj. destruct t as [|r t]; [cbn in HS; injection HS as <-; cbn in Hi; lia|].
  destruct (encode_layout (r :: t) S) as (o & E' & _ & _ & B); [discriminate|exact HS|].
  assert (o = out) by congruence. subst o. rewrite B.
  rewrite nth_septet_bits by (rewrite ?with_filler_length; lia). f_equal.
  unfold with_filler. destruct (Nat.eqb (length S mod 8) 7); [now rewrite app_nth1|reflexivity].
Qed.

(* seven spare bits <-> CR filler; otherwise the spare bits are zero *)
Theorem encode_filler t S out : to_septets t = Ok S -> encode t = Ok out -> t <> [] ->
  (length S mod 8 = 7 ->
     8 * length out = 7 * (length S + 1) /\
     forall j, j < 7 -> get_bit out (7 * length S + j) = N.testbit cr (N.of_nat j)) /\
  (length S mod 8 <> 7 ->
     8 * length out < 7 * (length S + 1) /\
     forall q, 7 * length S <= q -> get_bit out q = false).
Proof.
  intros HS E Hne. destruct (encode_layout t S Hne HS) as (o & E' & L & _ & B).
  assert (o = out) by congruence. subst o. rewrite L, blocks_spec. split; intros H.
  - split; [lia|]. intros j Hj. rewrite B. unfold with_filler.
    replace (Nat.eqb (length S mod 8) 7) with true by (symmetry; apply Nat.eqb_eq; exact H).
    rewrite nth_septet_bits by (rewrite ?app_length; cbn [length]; lia).
    now rewrite app_nth2, Nat.sub_diag by lia.
  - split; [lia|]. intros q Hq. rewrite B. unfold with_filler.
    replace (Nat.eqb (length S mod 8) 7) with false by (symmetry; apply Nat.eqb_neq; exact H).
    apply nth_overflow. rewrite septet_bits_length. lia.
Qed.

(* ---------------------------------------------------------------- decoder *)
Lemma reverse_lookup_length : length reverse_lookup = 128.
Proof. reflexivity. Qed.

Lemma dec_septets_no_panic_n : forall n ss, length ss <= n -> Forall (fun s => (s < 128)%N) ss -> dec_septets ss <> Panic.
Proof.
  induction n as [|n IH]; intros ss Hl Hs.
  - destruct ss; [discriminate|cbn in Hl; lia].
  - destruct ss as [|s rest]; [discriminate|]. cbn [length] in Hl. inversion Hs as [|? ? Hs1 Hs2]; subst.
    cbn [dec_septets]. destruct ((s <=? 127)%N && negb (s =? esc)%N).
    + destruct (nth_error reverse_lookup (N.to_nat s)) eqn:En.
      * specialize (IH rest). destruct (dec_septets rest); cbn; try discriminate. apply IH; [lia|exact Hs2].
      * apply nth_error_None in En. rewrite reverse_lookup_length in En. lia.
    + destruct rest as [|c rest']; [discriminate|]. destruct (reverse_escape c); [|discriminate].
      inversion Hs2; subst. cbn [length] in Hl.
      specialize (IH rest'). destruct (dec_septets rest'); cbn; try discriminate. apply IH; [lia|assumption].
Qed.

Lemma dec_septets_no_panic ss : Forall (fun s => (s < 128)%N) ss -> dec_septets ss <> Panic.
Proof. apply (dec_septets_no_panic_n (length ss)). lia. Qed.

(* if the septets end in CR and decode, the text ends in CR (an escape followed by 0x0D is refused) *)
Lemma dec_septets_last_cr_n : forall n ss rs, length ss <= n -> ss <> [] ->
  dec_septets ss = Ok rs -> last ss 0%N = cr -> exists rs', rs = rs' ++ [13%N].
Proof.
  induction n as [|n IH]; intros ss rs Hl Hne H Hlast.
  - destruct ss; [congruence|cbn in Hl; lia].
  - destruct ss as [|s rest]; [congruence|]. cbn [length] in Hl. cbn [dec_septets] in H.
    destruct ((s <=? 127)%N && negb (s =? esc)%N).
    + destruct (nth_error reverse_lookup (N.to_nat s)) as [r|] eqn:En; [|discriminate].
      destruct (dec_septets rest) as [rs0| |] eqn:Er; cbn [obind] in H; try discriminate. injection H as <-.
      destruct rest as [|s2 rest2].
      * cbn in Hlast. subst s. cbn in En. injection En as <-. cbn in Er. injection Er as <-. now exists [].
      * destruct (IH (s2 :: rest2) rs0) as (rs' & ->); [lia|discriminate|exact Er|exact Hlast|]. now exists (r :: rs').
    + destruct rest as [|c rest']; [discriminate|]. destruct (reverse_escape c) as [r|] eqn:Ec; [|discriminate].
      destruct (dec_septets rest') as [rs0| |] eqn:Er; cbn [obind] in H; try discriminate. injection H as <-.
      destruct rest' as [|s2 rest2].
      * cbn in Hlast. subst c. discriminate.
      * cbn [length] in Hl. destruct (IH (s2 :: rest2) rs0) as (rs' & ->); [cbn [length]; lia|discriminate|exact Er|exact Hlast|].
        now exists (r :: rs').
Qed.

Lemma drop_last_octet_cr rs : drop_last_octet (rs ++ [13%N]) = Ok rs.
Proof. unfold drop_last_octet. rewrite rev_app_distr. cbn. now rewrite rev_involutive. Qed.

Lemma filler_present_spec ss : filler_present ss =
  Ok (Nat.ltb 0 (length ss) && Nat.eqb (length ss mod 8) 0 && (last ss 0%N =? cr)%N).
Proof.
  unfold filler_present. destruct (Nat.ltb_spec 0 (length ss)) as [L|G]; cbn [andb]; [|reflexivity].
  destruct (Nat.eqb (length ss mod 8) 0); [|reflexivity].
  destruct ss as [|s ss] using rev_ind; [cbn in L; lia|].
  rewrite app_length. cbn [length]. replace (length ss + 1 - 1) with (length ss) by lia.
  rewrite nth_error_app2, Nat.sub_diag by lia. cbn [nth_error]. rewrite last_app_ne by discriminate. reflexivity.
Qed.

(* the finishing step never panics and never cuts inside a character *)
Lemma dec_finish_good ss rs : dec_septets ss = Ok rs ->
  dec_finish ss rs = Ok (if Nat.ltb 0 (length ss) && Nat.eqb (length ss mod 8) 0 && (last ss 0%N =? cr)%N
                         then removelast rs else rs).
Proof.
  intros H. unfold dec_finish. rewrite filler_present_spec. cbn [obind].
  destruct (Nat.ltb_spec 0 (length ss)) as [L|G]; cbn [andb]; [|reflexivity].
  destruct (Nat.eqb (length ss mod 8) 0); cbn [andb]; [|reflexivity].
  destruct (N.eqb_spec (last ss 0%N) cr) as [E|E]; [|reflexivity].
  destruct (dec_septets_last_cr_n (length ss) ss rs) as (rs' & ->); auto.
  - intros ->. cbn in L. lia.
  - rewrite drop_last_octet_cr. now rewrite removelast_last.
Qed.

Theorem dec_transform_any_dst dstlen src :
  dec_transform dstlen src = decode src \/ dec_transform dstlen src = Err ESize.
Proof.
  unfold dec_transform, decode. destruct src as [|b src]; [now left|].
  destruct (dec_septets (unpack_septets (b :: src))); cbn [obind]; auto.
  destruct (dstlen <? utf8_total a); auto.
Qed.

Theorem dec_transform_enough dstlen src rs :
  dec_septets (unpack_septets src) = Ok rs -> utf8_total rs <= dstlen -> dec_transform dstlen src = decode src.
Proof.
  intros H L. unfold dec_transform, decode. destruct src as [|b src]; [reflexivity|]. rewrite H. cbn [obind].
  destruct (Nat.ltb_spec dstlen (utf8_total rs)); [lia|reflexivity].
Qed.

(* decoder totality: arbitrary octets (indeed arbitrary N), never Panic, never the
   "cut inside a character" marker, for every destination capacity *)
Theorem decode_total src : decode src <> Panic /\ decode src <> Err EOther.
Proof.
  unfold decode. destruct src as [|b src]; [split; discriminate|].
  set (ss := unpack_septets (b :: src)).
  destruct (dec_septets ss) as [rs|e|] eqn:H; cbn [obind].
  - rewrite (dec_finish_good _ _ H). split; discriminate.
  - split; [discriminate|]. intros [= ->]. revert H. clear.
    (* dec_septets only ever returns EDecode *)
    assert (G : forall n l, length l <= n -> dec_septets l <> Err EOther).
    { induction n as [|n IH]; intros l Hl.
      - destruct l; [discriminate|cbn in Hl; lia].
      - destruct l as [|s rest]; [discriminate|]. cbn [length] in Hl. cbn [dec_septets].
        destruct ((s <=? 127)%N && negb (s =? esc)%N).
        + destruct (nth_error reverse_lookup (N.to_nat s)); [|discriminate].
          specialize (IH rest). destruct (dec_septets rest); cbn; try discriminate. intros [= ->]. apply IH; [lia|reflexivity].
        + destruct rest as [|c rest']; [discriminate|]. destruct (reverse_escape c); [|discriminate].
          cbn [length] in Hl. specialize (IH rest'). destruct (dec_septets rest'); cbn; try discriminate.
          intros [= ->]. apply IH; [lia|reflexivity]. }
    apply (G (length ss)). lia.
  - exfalso. revert H. apply dec_septets_no_panic, unpack_septets_lt128.
Qed.

Theorem dec_transform_total dstlen src : dec_transform dstlen src <> Panic /\ dec_transform dstlen src <> Err EOther.
Proof.
  destruct (dec_transform_any_dst dstlen src) as [-> | ->]; [apply decode_total|split; discriminate].
Qed.

(* ---------------------------------------------------------------- round trip *)
Lemma unpack_encode t S out : t <> [] -> to_septets t = Ok S -> encode t = Ok out ->
  unpack_septets out = with_filler S /\ out <> [].
Proof.
  intros Hne HS E. destruct (encode_layout t S Hne HS) as (o & E' & L & _ & B).
  assert (o = out) by congruence. subst o. split.
  - apply unpack_of_layout; [| |exact B].
    + pose proof (to_septets_lt128 _ _ HS) as F. unfold with_filler.
      destruct (Nat.eqb (length S mod 8) 7); [apply Forall_app; split; [exact F|repeat constructor]|exact F].
    + rewrite L. pose proof (spare_with_filler S). rewrite with_filler_length in *. rewrite blocks_spec in *.
      destruct (Nat.eqb_spec (length S mod 8) 7); lia.
  - intros ->. cbn [length] in L. rewrite blocks_spec in L.
    pose proof (to_septets_nonempty _ _ HS Hne). destruct S; [congruence|cbn [length] in L; lia].
Qed.

(* exact form: what decode returns on the encoder's output *)
Theorem roundtrip_exact t S : to_septets t = Ok S ->
  exists out, encode t = Ok out /\
    decode out = Ok (if Nat.eqb (length S mod 8) 0 && ends_cr t then removelast t else t).
Proof.
  intros HS. destruct t as [|r t].
  - exists []. split; [reflexivity|]. cbn in HS. injection HS as <-. reflexivity.
  - set (t0 := r :: t) in *. assert (Hne : t0 <> []) by discriminate.
    destruct (encode_layout t0 S Hne HS) as (out & E & _). exists out. split; [exact E|].
    destruct (unpack_encode t0 S out Hne HS E) as [U Hout].
    unfold decode. destruct out as [|b out]; [congruence|]. rewrite U.
    pose proof (to_septets_nonempty _ _ HS Hne) as HSne.
    assert (HSlen : 0 < length S) by (destruct S; [congruence|cbn; lia]).
    unfold with_filler. destruct (Nat.eqb_spec (length S mod 8) 7) as [E7|E7].
    + (* filler added by the encoder, removed by the decoder *)
      assert (D : dec_septets (S ++ [cr]) = Ok (t0 ++ [13%N])) by (rewrite (dec_septets_app _ _ _ HS); reflexivity).
      rewrite D. cbn [obind]. rewrite (dec_finish_good _ _ D). rewrite app_length. cbn [length].
      rewrite last_app_ne by discriminate. cbn [last].
      replace (Nat.eqb ((length S + 1) mod 8) 0) with true by (symmetry; apply Nat.eqb_eq; lia).
      replace (0 <? length S + 1) with true by (symmetry; apply Nat.ltb_lt; lia).
      replace (Nat.eqb (length S mod 8) 0) with false by (symmetry; apply Nat.eqb_neq; lia).
      cbn [andb]. rewrite N.eqb_refl. now rewrite removelast_last.
    + pose proof (dec_septets_to_septets _ _ HS) as D. rewrite D. cbn [obind]. rewrite (dec_finish_good _ _ D).
      replace (0 <? length S) with true by (symmetry; apply Nat.ltb_lt; lia). cbn [andb]. do 2 f_equal.
      unfold ends_cr. pose proof (to_septets_last _ _ HS Hne) as K.
      destruct (N.eqb_spec (last S 0%N) cr), (N.eqb_spec (last t0 0%N) 13%N); auto; tauto.
Qed.

(* the form the property is stated in *)
Theorem roundtrip t S : to_septets t = Ok S ->
  exists out t', encode t = Ok out /\ decode out = Ok t' /\
    (t' = t \/ (length S mod 8 = 0 /\ t = t' ++ [13%N])).
Proof.
  intros HS. destruct (roundtrip_exact t S HS) as (out & E & D). exists out. eexists. split; [exact E|]. split; [exact D|].
  destruct (Nat.eqb_spec (length S mod 8) 0) as [E0|E0]; cbn [andb]; [|now left].
  destruct (ends_cr t) eqn:Ec; [|now left]. right. split; [exact E0|].
  unfold ends_cr in Ec. apply N.eqb_eq in Ec. destruct t as [|r t] using rev_ind; [discriminate|].
  rewrite last_app_ne in Ec by discriminate. cbn in Ec. subst r. now rewrite removelast_last.
Qed.

(* outside the ambiguous case the round trip is exact *)
Corollary roundtrip_unambiguous t S : to_septets t = Ok S -> (length S mod 8 <> 0 \/ ends_cr t = false) ->
  exists out, encode t = Ok out /\ decode out = Ok t.
Proof.
  intros HS H. destruct (roundtrip_exact t S HS) as (out & E & D). exists out. split; [exact E|]. rewrite D.
  destruct H as [H|H]; [replace (Nat.eqb (length S mod 8) 0) with false by (symmetry; apply Nat.eqb_neq; exact H)|rewrite H, andb_false_r]; reflexivity.
Qed.

(* ---------------------------------------------------------------- detector <-> encoder *)
Fixpoint nrange (a : N) (len : nat) : list N :=
  match len with O => [] | S k => a :: nrange (a + 1) k end.
Definition expand_ranges (l : list (N * N)) : list N :=
  flat_map (fun p => nrange (fst p) (N.to_nat (snd p + 1 - fst p))) l.

Lemma in_nrange : forall len a r, (a <= r)%N -> (N.to_nat (r - a) < len) -> In r (nrange a len).
Proof.
  induction len as [|len IH]; intros a r H1 H2; [lia|]. cbn [nrange].
  destruct (N.eq_dec a r) as [->|Hn]; [now left|]. right. apply IH; lia.
Qed.

Lemma in_ranges_expand r l : in_ranges r l = true -> In r (expand_ranges l).
Proof.
  unfold in_ranges. rewrite existsb_exists. intros ((a, b) & Hin & H). cbn [fst snd] in H.
  apply andb_true_iff in H. destruct H as [H1 H2]. apply N.leb_le in H1, H2.
  unfold expand_ranges. apply in_flat_map. exists (a, b). split; [exact Hin|]. cbn [fst snd]. apply in_nrange; lia.
Qed.

Lemma alphabet_subset : forallb (fun x => existsb (N.eqb x) repertoire_all) (expand_ranges default_alphabet) = true.
Proof. vm_compute. reflexivity. Qed.

Definition is_some {A} (o : option A) : bool := match o with Some _ => true | None => false end.

Lemma validate_repertoire :
  forallb (fun r => Bool.eqb (validate_rune r) (is_some (rune_septets r))) repertoire_all = true.
Proof. vm_compute. reflexivity. Qed.

(* per rune: the detector's range table and the encoder's tables describe the same set *)
Theorem validate_rune_iff r : validate_rune r = is_some (rune_septets r).
Proof.
  destruct (in_dec N.eq_dec r repertoire_all) as [I|I].
  - pose proof validate_repertoire as K. rewrite forallb_forall in K. apply eqb_prop. now apply K.
  - rewrite (rune_septets_notin r I). cbn [is_some]. destruct (validate_rune r) eqn:V; [|reflexivity]. exfalso. apply I.
    apply in_ranges_expand in V. pose proof alphabet_subset as A. rewrite forallb_forall in A. apply A in V.
    apply existsb_exists in V. destruct V as (x & Hx & Ex). apply N.eqb_eq in Ex. now subst x.
Qed.

Theorem validate_iff t : validate t = is_ok (to_septets t).
Proof.
  induction t as [|r t IH]; [reflexivity|]. cbn [validate forallb to_septets]. fold (validate t).
  rewrite validate_rune_iff, IH. destruct (rune_septets r); cbn [is_some andb]; [|reflexivity].
  destruct (to_septets t); reflexivity.
Qed.

Theorem detector_iff t : validate t = is_ok (encode t).
Proof. now rewrite validate_iff, encode_ok_iff. Qed.
