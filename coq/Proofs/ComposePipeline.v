(* C09, the pipeline  text -> BestCoding / BestSafeCoding -> ComposeMultipartShortMessage with the detected coding
   (Model/ComposePipeline.v): it never fails for lack of an encoding, never panics, and the parts are the encodings of
   consecutive pieces of the text which - for every coding but GSM 7-bit, where the C08 trailing-CR rule applies per
   part - decode back to those pieces. *)
From V Require Import Model.Base Model.IntervalMap Model.Splitter Model.Compose Gen.Charsets Model.Charset
  Gen.Detect Gen.KnownBad Model.Detect Model.ComposePipeline
  Proofs.SplitterProofs Proofs.ComposeProofs Proofs.CharsetProofs Proofs.CharsetRoundtrip Proofs.DetectProofs.
From Coq Require Import Lia ZifyN ZifyNat ZifyBool.
Open Scope N_scope.
Local Notation length := List.length.
Local Notation concat := List.concat.

Lemma w_label_pos l r : (0 < w_label l r)%nat.
Proof. unfold w_label. lia. Qed.

(* pieces of a text the label validates are validated, scalar and free of known-bad runes *)
Lemma validates_sub l rs s : (forall r, In r s -> In r rs) -> validates l rs = true -> validates l s = true.
Proof.
  intros Hsub. destruct l as [|c]; [|destruct c]; cbn [validates]; try reflexivity;
    rewrite !forallb_forall; intros H r Hr; exact (H r (Hsub r Hr)).
Qed.

Lemma label_encodes l rs : detectable l -> Forall scalar rs -> validates l rs = true ->
  (forall r, In r rs -> mem r (known_bad_of l) = false) -> exists bs, encode_l l rs = Ok bs.
Proof.
  intros Hd Hs Hv Hk. destruct l as [|c].
  - assert (Ha : forall r, In r rs -> mem r (accept_ranges LGsm7) = true)
      by (apply (accepted LGsm7 rs); [discriminate|exact incl_gsm7|exact Hv|exact Hk]).
    destruct (g7_septets_total rs Ha) as [ss Hss]. exists (g7_pack ss). cbn [encode_l]. unfold g7_encode. rewrite Hss. reflexivity.
  - destruct (label_represents (LCs c) rs Hd Hs Hv Hk) as (bs & E & _); [discriminate|]. exists bs. exact E.
Qed.

Lemma g7_septets_no_panic : forall s, g7_septets s <> Panic.
Proof.
  induction s as [|r t IH]; cbn [g7_septets]; [discriminate|].
  destruct (g7_rune r); [|discriminate]. destruct (g7_septets t); [discriminate|discriminate|congruence].
Qed.

Lemma encode_l_no_panic l s : encode_l l s <> Panic.
Proof.
  destruct l as [|c]; cbn [encode_l]; [|apply encode_no_panic].
  unfold g7_encode. pose proof (g7_septets_no_panic s) as H. destruct (g7_septets s); [discriminate|discriminate|congruence].
Qed.

Theorem compose_label_no_panic l rs ref : compose_label l ref rs <> Panic.
Proof. unfold compose_label. apply compose_no_panic. intros s. apply encode_l_no_panic. Qed.

Section Pipeline.
  Variable l : label.
  Variable rs : list N.
  Hypothesis Hd : detectable l.
  Hypothesis Hs : Forall scalar rs.
  Hypothesis Hv : validates l rs = true.
  Hypothesis Hk : forall r, In r rs -> mem r (known_bad_of l) = false.

  Lemma piece_ok s : (forall r, In r s -> In r rs) ->
    Forall scalar s /\ validates l s = true /\ (forall r, In r s -> mem r (known_bad_of l) = false).
  Proof.
    intros Hsub. split; [|split].
    - rewrite Forall_forall in Hs |- *. intros r Hr. exact (Hs r (Hsub r Hr)).
    - exact (validates_sub l rs s Hsub Hv).
    - intros r Hr. exact (Hk r (Hsub r Hr)).
  Qed.

  (* never an encoder error: the detected coding can encode every piece of the text *)
  Theorem compose_label_no_etext ref : compose_label l ref rs <> Err EText.
  Proof.
    unfold compose_label. apply compose_err_local.
    - apply w_label_pos.
    - intros X; discriminate X.
    - intros X; discriminate X.
    - intros X; discriminate X.
    - intros s Hsub E.
      destruct (piece_ok s Hsub) as (A & B & C).
      destruct (label_encodes l s Hd A B C) as [bs Hbs]. congruence.
  Qed.

  (* the parts are the encodings of consecutive pieces that join to the text; they decode back to them *)
  Theorem compose_label_segments ref parts : compose_label l ref rs = Ok parts ->
    exists segs, concat segs = rs /\
      Forall2 (fun pt s => encode_l l s = Ok (pt_payload pt) /\
                           ((l = LGsm7 -> g7_clear s) -> decode_l l (pt_payload pt) = Ok s)) parts segs.
  Proof.
    intros H. unfold compose_label in H.
    destruct (compose_segments bytes (@length N) (w_label l) (encode_l l) (w_label_pos l) ref rs parts H) as (segs & C & F & _).
    exists segs. split; [exact C|].
    assert (G : forall s, In s segs -> forall r, In r s -> In r rs).
    { intros s Hin r Hr. rewrite <- C. apply in_concat. exists s. split; assumption. }
    clear H C. induction F as [|pt s parts segs E F IH]; constructor.
    - split; [exact E|]. intros Hc. destruct (piece_ok s (G s (or_introl eq_refl))) as (A & B & K).
      destruct (label_represents l s Hd A B K Hc) as (bs & E' & D). congruence.
    - apply IH. intros s' Hs'. apply G. right. exact Hs'.
  Qed.
End Pipeline.

(* assembled for BestCoding and BestSafeCoding *)
Theorem pipeline_best ref rs : Forall scalar rs ->
  (forall r, In r rs -> mem r (known_bad_of (best rs)) = false) ->
  pipeline ref rs <> Err EText /\ pipeline ref rs <> Panic /\
  forall parts, pipeline ref rs = Ok parts ->
    exists segs, concat segs = rs /\
      Forall2 (fun pt s => encode_l (best rs) s = Ok (pt_payload pt) /\
                           ((best rs = LGsm7 -> g7_clear s) -> decode_l (best rs) (pt_payload pt) = Ok s)) parts segs.
Proof.
  intros Hs Hk. destruct (best_spec rs) as [Hd Hv]. unfold pipeline. split; [|split].
  - exact (compose_label_no_etext (best rs) rs Hd Hs Hv Hk ref).
  - exact (compose_label_no_panic (best rs) rs ref).
  - exact (compose_label_segments (best rs) rs Hd Hs Hv Hk ref).
Qed.

Theorem pipeline_best_safe ref rs : Forall scalar rs ->
  pipeline_safe ref rs <> Err EText /\ pipeline_safe ref rs <> Panic /\
  forall parts, pipeline_safe ref rs = Ok parts ->
    exists segs, concat segs = rs /\
      Forall2 (fun pt s => encode_l (best_safe rs) s = Ok (pt_payload pt) /\
                           ((best_safe rs = LGsm7 -> g7_clear s) -> decode_l (best_safe rs) (pt_payload pt) = Ok s)) parts segs.
Proof.
  intros Hs. destruct (best_safe_spec rs) as [Hd Hv]. unfold pipeline_safe.
  assert (Hk : forall r, In r rs -> mem r (known_bad_of (best_safe rs)) = false).
  { intros r _. unfold best_safe. destruct (validates LGsm7 rs); reflexivity. }
  split; [|split].
  - exact (compose_label_no_etext (best_safe rs) rs Hd Hs Hv Hk ref).
  - exact (compose_label_no_panic (best_safe rs) rs ref).
  - exact (compose_label_segments (best_safe rs) rs Hd Hs Hv Hk ref).
Qed.
