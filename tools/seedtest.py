#!/usr/bin/env python3
"""Confirm a seeded change and run the checks against it.

  tools/seedtest.py <PID> <src-dir> <name> [other PIDs to run too]

<src-dir> holds patch.diff, a demonstration (demo_test.go with a first-line comment naming its
package directory, or demo/main.go) and meta.json, as written by a seeding sub-agent.
Steps: (1) in a scratch worktree of /repo: the demonstration passes on the unchanged tree;
with the patch the tree builds, the repository's test-suite passes and the demonstration fails;
(2) the patch is applied to /repo, `./check <PID> quick` is run for each PID, the patch is undone;
(3) everything is stored under /verif/seeded/<PID>-<name>/ with the outcome in meta.json.
"""
import json, os, re, shutil, subprocess, sys, time
ENV = dict(os.environ, GOFLAGS="-mod=mod", GOPROXY="off", GOSUMDB="off", GOTOOLCHAIN="local")
VROOT = os.environ.get("SEED_VERIF", "/verif")   # the /verif copy whose checks are run (parallel lanes use copies)
REPO = os.environ.get("VERIF_REPO", "/repo")     # the tree the change is applied to for the checks
KEEP = "/root/evidence_keep_%d" % os.getpid()

def sh(cmd, cwd=None, timeout=900):
    p = subprocess.run(cmd, cwd=cwd, env=ENV, shell=isinstance(cmd, str), stdout=subprocess.PIPE, stderr=subprocess.STDOUT, text=True, timeout=timeout)
    return p.returncode, p.stdout

def main():
    pid, src, name = sys.argv[1:4]
    others = sys.argv[4:]
    out = "/verif/seeded/%s-%s" % (pid, name)
    os.makedirs(out, exist_ok=True)
    patch = os.path.join(src, "patch.diff")
    demo = None
    for cand in ("demo_test.go", "demo/main.go", "demo.go"):
        if os.path.exists(os.path.join(src, cand)):
            demo = os.path.join(src, cand)
    meta = json.load(open(os.path.join(src, "meta.json"))) if os.path.exists(os.path.join(src, "meta.json")) else {}
    ran = []
    wt = "/root/seedwt_%d" % os.getpid()
    sh("git -C %s worktree add -q --detach %s HEAD" % (REPO, wt))
    try:
        # where does the demonstration go?
        head = open(demo).read(400) if demo else ""
        pkgdir = None
        m = re.search(r"directory:?\s*`?([A-Za-z0-9_/\.]+)", head)
        if m and os.path.isdir(os.path.join(wt, m.group(1).rstrip("/") or ".")):
            pkgdir = m.group(1).rstrip("/") or "."
        if pkgdir is None and demo:
            pm = re.search(r"^package\s+(\w+)", open(demo).read(), re.M)
            pkgdir = {"pdu": "pdu", "pdu_test": "pdu", "coding": "coding", "gsm7bit": "coding/gsm7bit", "semioctet": "coding/semioctet",
                      "sms": "sms", "smpp": ".", "smpp_test": "."}.get(pm.group(1) if pm else "", "pdu")
        if demo and demo.endswith("_test.go"):
            dst = os.path.join(wt, pkgdir, "zz_seed_demo_test.go")
            shutil.copy(demo, dst)
            pm = re.search(r"^package\s+(\w+)", open(demo).read(), re.M)
            runname = "./" + pkgdir if pkgdir != "." else "."
            race = " -race" if ("-race" in open(demo).read(3000) or "race" in json.dumps(meta).lower() and pid == "C06") else ""
            democmd = "go test%s -vet=off -count=1 %s" % (race, runname)
        elif demo:
            os.makedirs(os.path.join(wt, "zz_seed_demo"), exist_ok=True)
            shutil.copy(demo, os.path.join(wt, "zz_seed_demo", "main.go"))
            democmd = "go run ./zz_seed_demo"
        else:
            democmd = None
        res = {}
        if democmd:
            rc, o = sh("timeout 600 " + democmd, cwd=wt)
            res["demo_on_unchanged_tree"] = "passes" if rc == 0 else "FAILS: " + o[-400:]
            ran.append(democmd + " (unchanged tree): rc=%d" % rc)
        rc, o = sh("git apply %s" % patch, cwd=wt)
        res["patch_applies"] = rc == 0
        rc, o = sh("timeout 600 go build ./...", cwd=wt)
        res["builds"] = rc == 0
        if democmd and demo.endswith("_test.go"):
            os.remove(os.path.join(wt, pkgdir, "zz_seed_demo_test.go"))
        rc, o = sh("timeout 900 go test -vet=off -count=1 ./...", cwd=wt)
        res["repo_tests_pass_with_change"] = rc == 0
        ran.append("go test ./... with the change (demonstration removed): rc=%d" % rc)
        if democmd:
            if demo.endswith("_test.go"):
                shutil.copy(demo, os.path.join(wt, pkgdir, "zz_seed_demo_test.go"))
            rc, o = sh("timeout 600 " + democmd, cwd=wt)
            res["demo_with_change"] = "fails" if rc != 0 else "PASSES (not a demonstration)"
            ran.append(democmd + " (with the change): rc=%d" % rc)
    finally:
        sh("git -C %s worktree remove --force %s" % (REPO, wt))
    confirmed = res.get("patch_applies") and res.get("builds") and res.get("repo_tests_pass_with_change") and \
        res.get("demo_on_unchanged_tree") == "passes" and res.get("demo_with_change") == "fails"
    res["confirmed"] = bool(confirmed)
    checks = {}
    if confirmed:
        sh("rm -rf %s && cp -r %s/evidence %s" % (KEEP, VROOT, KEEP))
        rc, o = sh("git -C %s apply %s" % (REPO, patch))
        try:
            for p in [pid] + others:
                t0 = time.time()
                rc, o = sh("timeout 1500 ./check %s quick" % p, cwd=VROOT, timeout=1600)
                lines = [l for l in o.splitlines() if l.startswith(("VIOLATION", "OK ", "KNOWN-FINDING", "TOOL-ERROR"))]
                viol = [l for l in lines if l.startswith("VIOLATION")]
                detail = ""
                if viol:
                    mm = re.search(r"replay=(\S+)", viol[0])
                    if mm and os.path.exists(mm.group(1)):
                        rp = json.load(open(mm.group(1)))
                        fi = rp.get("failing_input") or {}
                        detail = "%s | %s | input: %s" % (rp.get("kind"), rp.get("class", ""), (fi.get("input") or "")[:300])
                checks[p] = {"exit": rc, "caught": bool(viol), "with_failing_input": any("no-failing-input-found" not in l for l in viol),
                             "lines": [l[:200] for l in lines[:6]], "first_replay": detail, "wall_s": round(time.time() - t0, 1)}
                ran.append("./check %s quick with the change applied to /repo: exit %d" % (p, rc))
        finally:
            sh("git -C %s checkout -- ." % REPO)
            sh("git -C %s clean -fdq" % REPO)
            sh("cp %s/*.json %s/evidence/ && rm -rf %s" % (KEEP, VROOT, KEEP))
    shutil.copy(patch, os.path.join(out, "patch.diff"))
    if demo:
        shutil.copy(demo, os.path.join(out, os.path.basename(demo)))
    first = None
    try:
        prev = json.load(open(os.path.join(out, "meta.json")))
        first = prev.get("first_contact") or {"checks": prev.get("checks"), "note": "outcome of the first run of the checks against this change, before any strengthening"}
    except Exception:
        pass
    meta_out = {"first_contact": first, "property": pid, "name": name, "summary": meta.get("summary"), "needs_to_manifest": meta.get("needs_to_manifest"),
                "seeded_by": "independent sub-agent given only the property text and a scratch worktree",
                "confirmation": res, "checks": checks, "ran": ran}
    json.dump(meta_out, open(os.path.join(out, "meta.json"), "w"), indent=1)
    print(json.dumps({"confirmed": res["confirmed"], "res": res, "checks": {k: (v["caught"], v["with_failing_input"], v["first_replay"][:160]) for k, v in checks.items()}}, indent=1))

main()
