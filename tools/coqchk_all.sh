#!/bin/sh
# Independent re-check (coqchk) of every property file and everything it depends on; prints the axiom summary.
cd "$(dirname "$0")/../coq" || exit 2
mods=$(ls Properties/*.v | sed 's|/|.|; s|\.v$||; s|^|V.|')
timeout ${COQCHK_TIMEOUT:-7200} coqchk -silent -o -Q . V $mods 2>&1 | tail -25
