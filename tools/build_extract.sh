#!/bin/sh
# Build the extracted OCaml models into .work/ocaml/ (reusable extraction path).
#   tools/build_extract.sh            build every extraction listed below if stale
# Called by `./check setup` (lib/props.d/*.py: SETUP) and, before it pipes op lines
# through the driver, by the harness in the thorough tier.  No-op when the inputs
# (model sources, extraction file, driver) are unchanged since the last build.
# To add an engine: append a line "name|extract .v|driver .ml|model .v files in build order".
set -e
ROOT=$(cd "$(dirname "$0")/.." && pwd)
OUT="$ROOT/.work/ocaml"
mkdir -p "$OUT"
ENGINES="c20|coq/Extract/C20Extract.v|ocaml/c20_driver.ml|coq/Model/Base.v coq/Model/Civil.v coq/Model/SmppTime.v
pdu|coq/Extract/PduExtract.v|ocaml/pdu_driver.ml|coq/Model/Base.v coq/Model/Flags.v coq/Model/Pdu.v coq/Gen/PduLayouts.v coq/Model/PduRun.v"

echo "$ENGINES" | while IFS='|' read -r name ext drv models; do
  [ -n "$name" ] || continue
  key=$( (cat $(for f in $models $ext $drv; do echo "$ROOT/$f"; done); coqc --version; ocamlfind ocamlopt -version) | sha256sum | cut -c1-32)
  if [ -x "$OUT/${name}_driver" ] && [ "$(cat "$OUT/${name}.key" 2>/dev/null)" = "$key" ]; then
    continue
  fi
  # the models' .vo (normally already built by make; rebuilt here only if missing or older than the source)
  for f in $models; do
    vo="$ROOT/${f%.v}.vo"
    if [ ! -f "$vo" ] || [ "$ROOT/$f" -nt "$vo" ]; then
      (cd "$ROOT/coq" && timeout 600 coqc -Q . V "${f#coq/}")
    fi
  done
  base=$(basename "$ext")
  cp "$ROOT/$ext" "$OUT/$base"
  (cd "$OUT" && timeout 600 coqc -Q "$ROOT/coq" V "$base" > "${name}_extract.log" 2>&1) || { cat "$OUT/${name}_extract.log"; exit 1; }
  cp "$ROOT/$drv" "$OUT/$(basename "$drv")"
  (cd "$OUT" && timeout 600 ocamlfind ocamlopt -w -a "${name}_model.mli" "${name}_model.ml" "$(basename "$drv")" -o "${name}_driver" > "${name}_ocaml.log" 2>&1) || { cat "$OUT/${name}_ocaml.log"; exit 1; }
  echo "$key" > "$OUT/${name}.key"
  echo "built $OUT/${name}_driver"
done
