#!/bin/sh
# tools/refactest.sh <dir-with-k/patch.diff>: apply each behaviour-preserving patch to /repo, run every check,
# report any alarm (there must be none), undo.  Evidence files are saved and restored.
cd "$(dirname "$0")/.." || exit 2
src=$1
rm -rf /root/evidence_keep2 && cp -r evidence /root/evidence_keep2
for d in "$src"/*/; do
  k=$(basename "$d")
  [ -f "$d/patch.diff" ] || continue
  if ! git -C /repo apply "$d/patch.diff" 2>/dev/null; then echo "refactor $k: patch does not apply"; continue; fi
  (cd /repo && GOFLAGS=-mod=mod GOPROXY=off GOSUMDB=off GOTOOLCHAIN=local timeout 600 go test -vet=off -count=1 ./... >/dev/null 2>&1) || echo "refactor $k: REPO TESTS FAIL (not harmless)"
  out=$(tools/runall.sh 2>&1)
  bad=$(echo "$out" | grep -v "exit=0" | grep "^C")
  if [ -n "$bad" ]; then echo "refactor $k: ALARM"; echo "$bad" | cut -c1-300; else echo "refactor $k: quiet ($(echo "$out" | grep -c 'exit=0') checks)"; fi
  git -C /repo checkout -- . ; git -C /repo clean -fdq
done
cp /root/evidence_keep2/*.json evidence/ && rm -rf /root/evidence_keep2
