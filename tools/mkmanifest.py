#!/usr/bin/env python3
"""Regenerates /verif/MANIFEST.json from lib/props.py (single source of truth) and validates it."""
import json, os, subprocess, sys
ROOT = os.path.dirname(os.path.dirname(os.path.abspath(__file__)))
sys.path.insert(0, os.path.join(ROOT, "lib"))
from props import PROPS, MANIFEST_TEXT, NOT_APPLICABLE, ENGINES  # noqa

hook_commits = subprocess.run(["git", "-C", "/repo", "log", "--format=%H %s"], capture_output=True, text=True).stdout
hooks = [l.split()[0] for l in hook_commits.splitlines() if "verif hook" in l]

m = {
    "version": 1,
    "setup_cmd": "./check setup",
    "hooks": {
        "guard": "verif",
        "enable": "go build -tags verif (harness module /verif/harness with `replace github.com/M2MGateway/go-smpp => /repo`)",
        "baseline_off_cmd": "cd /repo && GOFLAGS=-mod=mod GOPROXY=off go test -vet=off -count=1 ./...",
        "source_commits": hooks,
        "add_only": True,
    },
    "engines": ENGINES,
    "checks": [],
    "notes": "All checks: ./check <id> <tier>. Technique family: machine-checked proof in Coq 8.16.1 over hand-written executable "
             "Gallina models; tables of every finite domain are regenerated from the running code on every run and the theorems "
             "re-checked against them; infinite domains are tied by a correspondence check that evaluates the model inside coqc "
             "(vm_compute) on the inputs the implementation just ran. See DESIGN.md.",
    "not_applicable": NOT_APPLICABLE,
}
for pid in sorted(PROPS):
    t = MANIFEST_TEXT[pid]
    m["checks"].append({
        "property_id": pid,
        "quick_cmd": "./check %s quick" % pid,
        "thorough_cmd": "./check %s thorough" % pid,
        "evidence_file": "/verif/evidence/%s.json" % pid,
        "replay_cmd_template": "./check %s --replay {path}" % pid,
        "engine": t["engine"],
        "level_claimed": {"category": "proof", "text": t["text"], "design_ref": t["design_ref"]},
        "level_note": t["note"],
        "technique": t["technique"],
    })
open(os.path.join(ROOT, "MANIFEST.json"), "w").write(json.dumps(m, indent=1) + "\n")
try:
    import jsonschema
    jsonschema.validate(m, json.load(open("/root/.vp/MANIFEST.schema.json")))
    print("MANIFEST.json valid;", len(m["checks"]), "checks,", len(NOT_APPLICABLE), "not_applicable")
except ImportError:
    print("MANIFEST.json written (jsonschema not importable here; validate with python3-vt)")
