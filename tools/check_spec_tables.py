#!/usr/bin/env python3
"""Development-time cross-check of coq/Spec/Iso8859.v and coq/Spec/Utf16.v against
Python's independent codecs.  NOT part of any check and not in the trusted base:
it only guards the hand transcription of the standards against typing mistakes.

  python3 tools/check_spec_tables.py
"""
import os
import re
import sys

ROOT = os.path.dirname(os.path.dirname(os.path.abspath(__file__)))
src = open(os.path.join(ROOT, "coq", "Spec", "Iso8859.v")).read()
src = re.sub(r"\(\*.*?\*\)", "", src, flags=re.S)


def table(name):
    m = re.search(r"Definition %s : list seg := \[(.*?)\]\." % name, src, re.S)
    out = {}
    for a, b, u in re.findall(r"\((\d+),\s*(\d+),\s*(\d+)\)", m.group(1)):
        for k in range(int(a), int(b) + 1):
            assert k not in out, (name, k)
            out[k] = int(u) + k - int(a)
    return out


bad = 0
for name, codec in (("g1_8859_1", "iso8859_1"), ("g1_8859_5", "iso8859_5"), ("g1_8859_8", "iso8859_8")):
    t = table(name)
    for b in range(0xA0, 0x100):
        try:
            u = ord(bytes([b]).decode(codec))
        except UnicodeDecodeError:
            u = None
        if t.get(b) != u:
            print("MISMATCH %s octet %02X: spec %s python %s" % (name, b, t.get(b), u))
            bad += 1
    print(name, "defines", len(t), "octets")
g0, c0 = table("g0_646"), table("c0_del")
for b in range(0x80):
    if {**g0, **c0}.get(b) != b:
        print("MISMATCH ascii", b)
        bad += 1

# UTF-16BE formula of Spec/Utf16.v
def utf16be(r):
    if r < 65536:
        us = [r]
    else:
        u = r - 65536
        us = [55296 + u // 1024, 56320 + u % 1024]
    return b"".join(bytes([x // 256 % 256, x % 256]) for x in us)

for r in list(range(0, 0xD800)) + list(range(0xE000, 0x110000)):
    if utf16be(r) != chr(r).encode("utf-16-be"):
        print("MISMATCH utf16", hex(r))
        bad += 1
        break
print("mismatches:", bad)
sys.exit(1 if bad else 0)
