#!/bin/sh
# run every registered check on the current /repo tree (quick tier unless $1 = thorough); print one line each
cd "$(dirname "$0")/.." || exit 2
tier=${1:-quick}
git -C /repo status --short | grep -q . && echo "WARNING: /repo working tree is not clean"
rc=0
for p in $(python3 -c "import json;print(' '.join(c['property_id'] for c in json.load(open('MANIFEST.json'))['checks']))"); do
  start=$(date +%s)
  out=$(timeout 3000 ./check $p $tier 2>&1); e=$?
  end=$(date +%s)
  echo "$p exit=$e $((end-start))s $(echo "$out" | grep -c '^KNOWN-FINDING') known | $(echo "$out" | grep -E '^(OK|VIOLATION|TOOL-ERROR)' | head -2 | cut -c1-160 | tr '\n' ' ')"
  [ $e -ne 0 ] && rc=1
done
exit $rc
