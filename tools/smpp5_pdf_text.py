import re, sys, zlib, hashlib, struct
data=open(sys.argv[1],'rb').read()
PAD=bytes([0x28,0xBF,0x4E,0x5E,0x4E,0x75,0x8A,0x41,0x64,0x00,0x4E,0x56,0xFF,0xFA,0x01,0x08,0x2E,0x2E,0x00,0xB6,0xD0,0x68,0x3E,0x80,0x2F,0x0C,0xA9,0xFE,0x64,0x53,0x69,0x7A])
def rc4(key, d):
    S=list(range(256)); j=0
    for i in range(256):
        j=(j+S[i]+key[i%len(key)])&255; S[i],S[j]=S[j],S[i]
    i=j=0; out=bytearray()
    for b in d:
        i=(i+1)&255; j=(j+S[i])&255; S[i],S[j]=S[j],S[i]
        out.append(b^S[(S[i]+S[j])&255])
    return bytes(out)
def pdfstr(b):
    # parse literal string starting after '('
    out=bytearray(); i=0; depth=1
    while i<len(b):
        c=b[i]
        if c==0x5c:
            i+=1; c=b[i]
            m={ord('n'):10,ord('r'):13,ord('t'):9,ord('b'):8,ord('f'):12}
            if c in m: out.append(m[c])
            elif 0x30<=c<=0x37:
                s=bytes([c]); 
                while len(s)<3 and i+1<len(b) and 0x30<=b[i+1]<=0x37:
                    i+=1; s+=bytes([b[i]])
                out.append(int(s,8)&255)
            elif c in (10,13): pass
            else: out.append(c)
        elif c==0x28: depth+=1; out.append(c)
        elif c==0x29:
            depth-=1
            if depth==0: return bytes(out), i
            out.append(c)
        else: out.append(c)
        i+=1
    return bytes(out), i
i=data.find(b'/Filter /Standard')
seg=data[i:i+400]
o,_=pdfstr(seg[seg.find(b'/O (')+4:])
P=int(re.search(rb'/P (-?\d+)',seg).group(1))
idm=re.search(rb'/ID\s*\[\s*<([0-9a-fA-F]+)>',data)
if idm: ID=bytes.fromhex(idm.group(1).decode())
else:
    k=data.find(b'/ID'); s=data[k:k+200]; ID,_=pdfstr(s[s.find(b'(')+1:])
key=hashlib.md5(PAD+o+struct.pack('<i',P)+ID).digest()[:5]
pages=[]
for m in re.finditer(rb'(\d+) (\d+) obj', data):
    num=int(m.group(1)); gen=int(m.group(2))
    e=data.find(b'endobj', m.end())
    body=data[m.end():e]
    s=re.search(rb'stream\r?\n', body)
    if not s: continue
    lm=re.search(rb'/Length (\d+)(?! \d+ R)', body[:s.start()])
    raw=body[s.end():]
    if lm: raw=raw[:int(lm.group(1))]
    else: raw=raw[:raw.rfind(b'endstream')]
    okey=hashlib.md5(key+struct.pack('<I',num)[:3]+struct.pack('<H',gen)).digest()[:10]
    dec=rc4(okey,raw)
    if b'FlateDecode' in body[:s.start()]:
        try: dec=zlib.decompress(dec)
        except Exception as ex:
            try: dec=zlib.decompressobj().decompress(dec)
            except Exception: continue
    if b'BT' not in dec: continue
    txt=[]
    for t in re.finditer(rb'\[((?:[^\]\\]|\\.)*)\]\s*TJ|\(((?:[^)\\]|\\.)*)\)\s*Tj|(T\*|Td|TD|Tm)', dec, re.S):
        if t.group(1) is not None:
            txt.append(b''.join(re.findall(rb'\(((?:[^)\\]|\\.)*)\)', t.group(1), re.S)))
        elif t.group(2) is not None: txt.append(t.group(2))
        else: txt.append(b'\n')
    pages.append((num,b''.join(txt)))
sys.stdout.buffer.write(b'\n=====OBJ=====\n'.join(b'#%d\n'%n+t for n,t in pages))
