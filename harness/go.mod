module verif/harness

go 1.16

require (
	github.com/M2MGateway/go-smpp v0.0.0
	golang.org/x/text v0.3.6
)

replace github.com/M2MGateway/go-smpp => /repo
