package main

import (
	"encoding/binary"
	"fmt"
	"hash/fnv"
	"sync"

	"github.com/M2MGateway/go-smpp/coding"
)

// Which base coding does each of the 256 data_coding values behave like?  Decided by BEHAVIOUR, separately for the
// encoder, the decoder and the splitter that DataCoding(dc).Encoding() / .Splitter() hand out - never by comparing
// interface values (an encoding wrapped in another struct, or created per call, is still the same coding):
//   encoder : every probe character as a one-character text (accepted? octets) + whole probe texts
//   decoder : the encoder's output for every accepted probe character, every 1- and 2-octet sequence, the encoded probe texts
//   splitter: the bits charged for every probe character + Len / Split of the probe texts
// probe characters: every scalar value of the basic plane (where all codings but UCS-2 have their characters) and every
// 16th above (58 values x 1,112,064 characters is too slow for the quick tier; the full per-character behaviour of the
// ten table constants themselves is what Gen/Charsets.v, Gen/Widths.v tabulate exhaustively).
// Two values with equal digests behave alike on all of that.  The class of a value is the smallest of the ten table
// constants with an equal digest (clsNone when there is nothing, clsOther when it matches no table constant).
const (
	clsNone  = 255
	clsOther = 254
)

var closureBases = []coding.DataCoding{coding.GSM7BitCoding, coding.ASCIICoding, coding.Latin1Coding, coding.ShiftJISCoding,
	coding.CyrillicCoding, coding.HebrewCoding, coding.UCS2Coding, coding.ISO2022JPCoding, coding.EUCJPCoding, coding.EUCKRCoding}

// whole texts: mixed scripts so that state (ISO-2022-JP escapes, GSM escape/filler, surrogate pairs) takes part
var closureProbeTexts = []string{
	"", "a", "hello world", "abcdefg\r", "1234567\r", "€uro [x] {y} ~^|\\", "naïve café £¥§", "ÄÖÑÜà ΔΦΓΛΩ",
	"Привет, мир №1", "שלום עולם", "日本語のテキスト ABC ｱｲｳ", "こんにちは a 世界 b ｶﾅ c", "안녕하세요 KS X 1001", "\U0001F48A pill \U00010000 x \U0010FFFF",
	"\ufeffbom", "\ufffe\ufffd", "a\nb\x1bc\x0e\x0f", "\x00\x7f\x80\x9f\xa0", "丂丄丅 JIS X 0212 ň", "mixed Ж ש 日 가 € é",
}

type dcClass struct {
	enc, dec, spl int
	// a text / rune on which the value differs from closure base `against` (for failure reports)
}

func sweepProbe(f func(r rune)) {
	sweepRunes(func(r rune) {
		if r < 0x10000 || r&15 == 0 || r&0xFFFF == 0xFFFF {
			f(r)
		}
	})
}

type dcDigest struct {
	hasEnc, hasDec, hasSpl bool
	enc, dec, spl          uint64
}

func digestDC(c coding.DataCoding) (d dcDigest) {
	guard(func() {
		e := c.Encoding()
		if e == nil {
			return
		}
		enc, dec := e.NewEncoder(), e.NewDecoder()
		d.hasEnc, d.hasDec = enc != nil, dec != nil
		if !d.hasEnc {
			return
		}
		he, hd := fnv.New64a(), fnv.New64a()
		var tag [5]byte
		sweepProbe(func(r rune) {
			b, ok := encodeOne(enc, r)
			binary.LittleEndian.PutUint32(tag[:4], uint32(r))
			tag[4] = 0
			if ok {
				tag[4] = byte(1 + len(b))
			}
			he.Write(tag[:])
			he.Write(b)
			if ok && d.hasDec {
				x, dok := dec.Bytes(b)
				hd.Write(tag[:4])
				if dok != nil {
					hd.Write([]byte{0xff})
				}
				hd.Write(x)
				hd.Write([]byte{0})
			}
		})
		for _, t := range closureProbeTexts {
			b, err := e.NewEncoder().Bytes([]byte(t))
			he.Write([]byte{0xfe, byte(len(b))})
			if err != nil {
				he.Write([]byte("error"))
				continue
			}
			he.Write(b)
			if d.hasDec {
				x, derr := e.NewDecoder().Bytes(b)
				if derr != nil {
					hd.Write([]byte("error"))
				}
				hd.Write(x)
				hd.Write([]byte{0})
			}
		}
		if d.hasDec {
			var seq [2]byte
			for b1 := 0; b1 < 256; b1++ {
				seq[0] = byte(b1)
				x, err := dec.Bytes(seq[:1])
				if err != nil {
					hd.Write([]byte{0xff})
				}
				hd.Write(x)
				hd.Write([]byte{1})
				for b2 := 0; b2 < 256; b2++ {
					seq[1] = byte(b2)
					x, err := dec.Bytes(seq[:2])
					if err != nil {
						hd.Write([]byte{0xff})
					}
					hd.Write(x)
					hd.Write([]byte{2})
				}
			}
		}
		d.enc, d.dec = he.Sum64(), hd.Sum64()
	})
	guard(func() {
		sp := c.Splitter()
		if sp == nil {
			return
		}
		d.hasSpl = true
		hs := fnv.New64a()
		var tag [8]byte
		sweepProbe(func(r rune) {
			binary.LittleEndian.PutUint32(tag[:4], uint32(r))
			binary.LittleEndian.PutUint32(tag[4:], uint32(sp(r)))
			hs.Write(tag[:])
		})
		for _, t := range closureProbeTexts {
			ok := true
			for _, x := range t {
				if sp(x) > 8*5 || sp(x) <= 0 {
					ok = false // Split does not terminate on a character wider than the limit
				}
			}
			hs.Write([]byte{0xfe, byte(sp.Len(t))})
			if ok {
				for _, seg := range sp.Split(t, 5) {
					hs.Write([]byte(seg))
					hs.Write([]byte{0})
				}
			}
		}
		d.spl = hs.Sum64()
	})
	return
}

var closureOnce sync.Once
var closureTab [256]dcClass
var closureDig [256]dcDigest

// dcClosure classifies all 256 data_coding values (computed once per process, in parallel).
func dcClosure() *[256]dcClass {
	closureOnce.Do(func() {
		var wg sync.WaitGroup
		sem := make(chan struct{}, 12)
		for b := 0; b < 256; b++ {
			wg.Add(1)
			go func(b int) {
				defer wg.Done()
				sem <- struct{}{}
				closureDig[b] = digestDC(coding.DataCoding(b))
				<-sem
			}(b)
		}
		wg.Wait()
		for b := 0; b < 256; b++ {
			d := closureDig[b]
			cl := dcClass{clsNone, clsNone, clsNone}
			if d.hasEnc {
				cl.enc = clsOther
			}
			if d.hasDec {
				cl.dec = clsOther
			}
			if d.hasSpl {
				cl.spl = clsOther
			}
			for i := len(closureBases) - 1; i >= 0; i-- { // smallest base wins
				bd := closureDig[closureBases[i]]
				if d.hasEnc && bd.hasEnc && bd.enc == d.enc {
					cl.enc = int(closureBases[i])
				}
				if d.hasDec && bd.hasDec && bd.dec == d.dec {
					cl.dec = int(closureBases[i])
				}
				if d.hasSpl && bd.hasSpl && bd.spl == d.spl {
					cl.spl = int(closureBases[i])
				}
			}
			closureTab[b] = cl
		}
	})
	return &closureTab
}

// encBaseOf: the table constant whose encoder dc's encoder behaves like (ok=false: no encoder, or like none of them)
func encBaseOf(dc coding.DataCoding) (coding.DataCoding, bool) {
	cl := dcClosure()[byte(dc)]
	if cl.enc >= clsOther {
		return 0, false
	}
	return coding.DataCoding(cl.enc), true
}

// aliasValues: data_coding values other than the table constants whose encoder behaves like that of base
func aliasValues(base coding.DataCoding) (out []coding.DataCoding) {
	tab := dcClosure()
	isBase := map[coding.DataCoding]bool{}
	for _, b := range closureBases {
		isBase[b] = true
	}
	want := tab[byte(base)].enc
	for b := 0; b < 256; b++ {
		if c := coding.DataCoding(b); !isBase[c] && tab[b].enc == want && want < clsOther {
			out = append(out, c)
		}
	}
	return
}

func emitClosure(w *CoqWriter) {
	tab := dcClosure()
	w.P("(* data_coding c -> (c, e, d, s): the table constant whose ENCODER / DECODER / SPLITTER the one that DataCoding(c).Encoding()")
	w.P("   / .Splitter() hands out behaves like - decided by behaviour (every scalar value of the basic plane and every 16th above as a one-character text, every 1- and")
	w.P("   2-octet sequence through the decoder, the bits charged per scalar value, %d whole probe texts), smallest constant with", len(closureProbeTexts))
	w.P("   equal behaviour; 255 = there is none, 254 = behaves like none of the ten constants *)")
	w.P("Definition dc_closure : list (N * N * N * N) := [")
	for b := 0; b < 256; b++ {
		w.P(" (%d, %d, %d, %d)%s", b, tab[b].enc, tab[b].dec, tab[b].spl, sep(b, 256))
	}
	w.P("].")
	_ = fmt.Sprint
}
