package main

// C11, round 6: semantically loaded field CONTENTS.  A text method may treat
// particular contents specially (an international prefix, a leading '+', an
// alphanumeric sender, one TON/NPI pair, one command_status …); random bodies
// meet such contents with negligible probability.  So, on every run and
// independent of the seed:
//   * Address: every (TON, NPI) pair in 0..7 x 0..15 with every loaded number
//     ("", "0", "00", "000", "+", "+0", "00x", "+00", long digit strings,
//     letters …) through every text route (String(), %v, %+v, %s, %#v, JSON,
//     inside an UnsuccessfulRecord);
//   * every registered PDU type with those contents placed in EVERY address,
//     C-string and octet field at once (time strings in the string fields,
//     every octet value in the octet fields), through every accessor; a part of
//     them also through Marshal/ReadPDU first;
//   * Resp() of every request type for every command_status of the sweep and
//     extreme sequence numbers.

import (
	"bytes"
	"encoding/hex"
	"encoding/json"
	"fmt"
	"reflect"
	"strings"

	"github.com/M2MGateway/go-smpp/pdu"
)

// c11LoadedNumbers: what a number-formatting routine may special-case
func c11LoadedNumbers() []string {
	return []string{"", "0", "00", "000", "0000", "+", "+0", "+00", "00x", "00+", "0+", "001", "0049170", "+49170", "49170", "1", "+1", "++", "+ ",
		"12345678901234567890", "00000000000000000000", "Bank", "bank", "A", " ", "00 ", "\xc3\xa9", "\xff", "+\xff", "-1", "*100#", "#"}
}

// numbers every (TON, NPI) pair is combined with in the PDU-level sweep (the direct Address sweep combines every pair with every number)
func c11GridNumbers() []string { return []string{"00", "", "+", "0", "+0", "0049170"} }

// c11LoadedStrings go into the C-string fields (service type, ids, passwords, date fields …)
func c11LoadedStrings() []string {
	return append(c11LoadedNumbers(), "240229235959000+", "991231235959948-", "000000000000000R", "000007000000000R", "999999999999999R",
		"240229235959000", "24022923595900+", "9999", "2402292359590000+", "ABCDEFGHIJKLMNO+", "000000000000000+", "CMT", "WAP", "%s%d%v")
}

func statusPage(s uint32) string {
	if s < 0x10000 {
		return fmt.Sprintf("0x%Xxx", s>>8)
	}
	return "above-0xFFFF"
}

func hasPanicMarker(s string) bool {
	// fmt recovers a panicking String/Error/GoString/Format method and prints "%!v(PANIC=String method: ...)"
	return strings.Contains(s, "(PANIC=")
}

// addressTextClass runs every text route of an Address; 0 all returned, 2 one panicked (which: route)
func addressTextClass(a pdu.Address) (cls int, route, msg string) {
	routes := []struct {
		name string
		f    func() string
	}{
		{"String", func() string { return a.String() }},
		{"%v", func() string { return fmt.Sprintf("%v", a) }},
		{"%+v", func() string { return fmt.Sprintf("%+v", a) }},
		{"%s", func() string { return fmt.Sprintf("%s", a) }},
		{"%#v", func() string { return fmt.Sprintf("%#v", a) }},
		{"%v-pointer", func() string { return fmt.Sprintf("%v|%s", &a, &a) }},
		{"JSON", func() string { b, _ := json.Marshal(a); return string(b) }},
		{"UnsuccessfulRecord.String", func() string {
			u := pdu.UnsuccessfulRecord{DestAddr: a, ErrorStatusCode: 8}
			return u.String() + fmt.Sprintf("%v|%+v|%s", u, u, u)
		}},
		{"DestinationAddresses", func() string {
			d := pdu.DestinationAddresses{Addresses: []pdu.Address{a, a}}
			return fmt.Sprintf("%v|%+v|%s", d, d, d)
		}},
	}
	for _, rt := range routes {
		var s string
		if pk, m := guard(func() { s = rt.f() }); pk {
			return 2, rt.name, m
		}
		if hasPanicMarker(s) && !strings.Contains(a.No, "(PANIC=") {
			return 2, rt.name, "fmt reported a panicking method: " + s[strings.Index(s, "(PANIC="):]
		}
	}
	return 0, "", ""
}

func numberClass(no string) string {
	if len(no) > 8 {
		return fmt.Sprintf("%q...(%d octets)", no[:8], len(no))
	}
	return fmt.Sprintf("%q", no)
}

// setContents places one combination of loaded contents in every address, C-string and octet field of p.
func setContents(p interface{}, a pdu.Address, strs []string, k int) {
	v := reflect.ValueOf(p).Elem()
	for i := 0; i < v.NumField(); i++ {
		f := v.Field(i)
		if v.Type().Field(i).PkgPath != "" {
			continue
		}
		switch f.Interface().(type) {
		case pdu.Header:
			continue
		case pdu.Address:
			f.Set(reflect.ValueOf(a))
		case pdu.DestinationAddresses:
			f.Set(reflect.ValueOf(pdu.DestinationAddresses{Addresses: []pdu.Address{a, {TON: a.TON, NPI: a.NPI, No: strs[(k+1)%len(strs)]}}, DistributionList: []string{strs[k%len(strs)]}}))
		case pdu.UnsuccessfulRecords:
			f.Set(reflect.ValueOf(pdu.UnsuccessfulRecords{{DestAddr: a, ErrorStatusCode: pdu.CommandStatus(k)}, {DestAddr: pdu.Address{TON: a.TON, NPI: a.NPI, No: strs[(k+2)%len(strs)]}}}))
		case pdu.ESMClass:
			var e pdu.ESMClass
			_ = e.WriteByte(byte(k*37 + i))
			e.UDHIndicator = false // (the message below carries no header)
			f.Set(reflect.ValueOf(e))
		case pdu.RegisteredDelivery:
			var d pdu.RegisteredDelivery
			_ = d.WriteByte(byte(k*41 + i))
			f.Set(reflect.ValueOf(d))
		case pdu.ShortMessage:
			m := f.Interface().(pdu.ShortMessage)
			m.UDHeader = nil
			m.Message = []byte(strs[(k+i)%len(strs)])
			f.Set(reflect.ValueOf(m))
		default:
			switch f.Kind() {
			case reflect.String:
				f.SetString(strs[(k+i)%len(strs)])
			case reflect.Uint8:
				f.SetUint(uint64(byte(k*29 + i*7)))
			}
		}
	}
}

// timeRoutes: the date fields of a PDU are plain strings; the library offers Time and Duration to read them
func timeRoutes(s string) (panicked bool, msg string) {
	return guard(func() {
		var t pdu.Time
		_ = t.From(s)
		x := t.String() + fmt.Sprintf("%v|%s", t, &t)
		var d pdu.Duration
		_ = d.From(s)
		x += d.String() + fmt.Sprintf("%v|%s", d, &d)
		if hasPanicMarker(x) {
			panic("fmt reported a panicking method: " + x)
		}
	})
}

func c11Contents(r *Run, ts []pduType) {
	nums := c11LoadedNumbers()
	strs := c11LoadedStrings()
	// ---- 1. Address, every (TON, NPI) x every loaded number, every text route
	for ton := 0; ton < 8; ton++ {
		for npi := 0; npi < 16; npi++ {
			for ni, no := range nums {
				a := pdu.Address{TON: byte(ton), NPI: byte(npi), No: no}
				cls, route, msg := addressTextClass(a)
				r.Count(fmt.Sprintf("addr/%d/%d/%d", ton, npi, ni), no != "", "Address text routes/(TON,NPI) x loaded numbers")
				in := fmt.Sprintf("address %d %d %s", ton, npi, hex.EncodeToString([]byte(no)))
				if cls != 0 {
					r.Fail(fmt.Sprintf("address-text-panic/%s/ton=%d,npi=%d", route, ton, npi), "a text route of pdu.Address panicked on number "+numberClass(no), in, msg, "returns a text")
				}
				if (ton <= 2 && npi <= 1) || (ton == 5 && npi == 0) || (ton == 7 && npi == 15) || no == "00" || (cls != 0 && route == "String") {
					c := cls
					if route != "String" {
						c = 0 // the model is Address.String itself; the other routes are fmt on top of it
						if pk, _ := guard(func() { _ = a.String() }); pk {
							c = 2
						}
					}
					r.Case(in, fmt.Sprintf("ocls (address_string %s) =? %d", coqAddr(a), c))
				}
			}
		}
	}
	// ---- 2. every PDU type, the contents in every field at once, every accessor
	type combo struct {
		a pdu.Address
	}
	var combos []combo
	for _, no := range c11GridNumbers() {
		for ton := 0; ton < 8; ton++ {
			for npi := 0; npi < 16; npi++ {
				combos = append(combos, combo{pdu.Address{TON: byte(ton), NPI: byte(npi), No: no}})
			}
		}
	}
	for _, no := range nums {
		for _, tn := range [][2]byte{{1, 1}, {0, 0}, {1, 0}, {0, 1}, {2, 1}, {5, 0}, {2, 8}, {7, 15}} {
			combos = append(combos, combo{pdu.Address{TON: tn[0], NPI: tn[1], No: no}})
		}
	}
	for _, t := range ts {
		hasAddr := false
		for i := 0; i < t.T.NumField(); i++ {
			switch reflect.New(t.T.Field(i).Type).Elem().Interface().(type) {
			case pdu.Address, pdu.DestinationAddresses, pdu.UnsuccessfulRecords:
				hasAddr = true
			}
		}
		n := len(combos)
		if !hasAddr {
			n = 2 * len(strs) // only the string and octet fields vary
		}
		for k := 0; k < n; k++ {
			p := reflect.New(t.T).Interface()
			pdu.WriteSequence(p, int32(k+1))
			setContents(p, combos[k%len(combos)].a, strs, k)
			bucket := "loaded contents in every field/" + t.Name
			var frame []byte
			var buf bytes.Buffer
			if _, err := pdu.Marshal(&buf, p); err == nil {
				frame = buf.Bytes()
			}
			if frame != nil && k%8 == 0 {
				// through the wire: what ReadPDU returns for these contents
				c11Frame(r, frame, bucket, false, nil, k%64 == 0)
				continue
			}
			res := runAccessors(p)
			if res.Skipped {
				continue
			}
			in := fmt.Sprintf("value %s %+v", t.Name, p)
			if frame != nil {
				in = "frame " + hex.EncodeToString(frame)
			}
			reportAccessorPanics(r, in, res)
			r.Count(fmt.Sprintf("%s/%d", bucket, k), true, bucket)
		}
	}
	// ---- 3. the date fields as Time / Duration
	for i, s := range strs {
		r.Count(fmt.Sprintf("time/%d", i), s != "", "loaded strings through Time/Duration From+String")
		if pk, msg := timeRoutes(s); pk {
			r.Fail("time-text-panic", "pdu.Time / pdu.Duration From or String panicked on a date field content", fmt.Sprintf("time %s", hex.EncodeToString([]byte(s))), msg, "returns a value or an error")
		}
	}
	// ---- 4. Resp() of every request type, for every command_status of the sweep and extreme sequence numbers
	sweep := statusSweep()
	for _, t := range ts {
		p0 := reflect.New(t.T).Interface()
		if _, ok := p0.(pdu.Responsable); !ok {
			continue
		}
		for si, s := range sweep {
			seqs := []int32{1}
			if si%16 == 0 {
				seqs = []int32{1, 0, -1, 0x7FFFFFFF, -0x80000000}
			}
			for _, seq := range seqs {
				p := reflect.New(t.T).Interface()
				hv := reflect.ValueOf(p).Elem().FieldByName("Header")
				if hv.IsValid() {
					h := hv.Interface().(pdu.Header)
					h.CommandStatus, h.Sequence = pdu.CommandStatus(s), seq
					hv.Set(reflect.ValueOf(h))
				}
				r.Count(fmt.Sprintf("resp/%s/%d/%d", t.Name, s, seq), s != 0, "Resp() per command_status/"+t.Name)
				pk, msg := guard(func() {
					resp := p.(pdu.Responsable).Resp()
					x := fmt.Sprintf("%v|%+v|%s", resp, resp, resp)
					_ = pdu.ReadSequence(resp)
					_ = pdu.ReadCommandStatus(resp)
					if hasPanicMarker(x) {
						panic("fmt reported a panicking method: " + x[strings.Index(x, "(PANIC="):])
					}
				})
				if pk {
					r.Fail(fmt.Sprintf("accessor-panic/Resp/%s/status=%s", t.Name, statusPage(s)), "Resp() (or formatting the response) panicked for a request carrying this command_status",
						fmt.Sprintf("frame %s", hex.EncodeToString(rawFrameOf(t.ID, s, seq, nil))), msg, "returns the response")
				}
			}
		}
	}
	r.Sample(map[string]interface{}{"what": "loaded contents", "numbers": nums, "pairs": "every (TON, NPI) in 0..7 x 0..15",
		"routes": "String(), %v, %+v, %s, %#v, JSON, UnsuccessfulRecord, every accessor of every PDU type with the contents in every field, Resp() per command_status"})
}
