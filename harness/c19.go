package main

import (
	"bytes"
	"encoding/hex"
	"fmt"
	"strings"
	"time"

	"github.com/M2MGateway/go-smpp/sms"
)

func init() { corrTable["C19"] = corrC19 }

// known-finding classes (KNOWN_FINDINGS.txt); each is a predicate on the spec value T
const (
	c19D21 = "address/alphanumeric-8k+7-septets-fill-bits-decoded-as-at-sign" // 7 septets: seven fill bits read as a character
	c19CR8 = "address/alphanumeric-8-septets-ending-in-cr-loses-the-cr"       // the decoder takes the CR for the filler
	c19D16 = "address/alphanumeric-septet-09-decoded-as-small-c-cedilla"      // GSM 03.38 has capital C cedilla at 0x09
	// DeliverFlags.ReplyPath / .UDHIndicator read bits 3 / 4, which GSM 03.40 9.2.2.1 leaves unused; TP-RP / TP-UDHI
	// (bits 7 / 6) are in the fields TPRP / TPUDHI appended by the D24 fix.  TestFlags pins the two old fields there.
	c19DFl = "deliver/flags/ReplyPath-and-UDHIndicator-fields-hold-unused-bits-3-4"
	// UserData of a septet-coded message of 8 or more septets: TP-UDL octets, the user data then zero octets
	c19UDPad = "value/user-data/septet-coded-8-or-more-septets-zero-padded-to-tp-udl-octets"
)

type c19Segs struct {
	names []string
	segs  [][]byte
}

func (s *c19Segs) add(n string, b ...byte) { s.names = append(s.names, n); s.segs = append(s.segs, b) }
func (s *c19Segs) bytes() []byte {
	var out []byte
	for _, b := range s.segs {
		out = append(out, b...)
	}
	return out
}

// D21 (what is left of it): with 8k+7 septets the seven fill bits are decoded as one more septet ('@'),
// and the length octet comes back as that of 8k+8 septets
func c19KnownAddr(a specAddr) []byte {
	b := specTPAddr(a)
	if addrIsD21(a) {
		b[0] = byte(((len(a.Septets)+1)*7 + 3) / 4)
	}
	return b
}

func addrIsD21(a specAddr) bool { return a.Alnum && len(a.Septets)%8 == 7 }
func addrIsCR8(a specAddr) bool {
	return a.Alnum && len(a.Septets)%8 == 0 && len(a.Septets) > 0 && a.Septets[len(a.Septets)-1] == 13
}

func specDigitsString(d []int) string {
	b := make([]byte, len(d))
	for i, x := range d {
		b[i] = byte('0' + x)
	}
	return string(b)
}

// the GSM 03.38 default alphabet, basic table (spec side of the alphanumeric address text)
var gsmBasic = []rune("@£$¥èéùìòÇ\nØø\rÅåΔ_ΦΓΛΩΠΨΣΘΞ\x1bÆæßÉ !\"#¤%&'()*+,-./0123456789:;<=>?¡ABCDEFGHIJKLMNOPQRSTUVWXYZÄÖÑÜ§¿abcdefghijklmnopqrstuvwxyzäöñüà")

// GSM 03.38 6.2.1.1 extension table: code after ESC -> character
var gsmExt = map[int]rune{10: 0x0C, 20: '^', 40: '{', 41: '}', 47: '\\', 60: '[', 61: '~', 62: ']', 64: '|', 101: 0x20AC}
var gsmExtCodes = []int{10, 20, 40, 41, 47, 60, 61, 62, 64, 101}

func specAlnumText(ss []int) string {
	var rs []rune
	for i := 0; i < len(ss); i++ {
		if ss[i] == 27 && i+1 < len(ss) {
			i++
			rs = append(rs, gsmExt[ss[i]])
			continue
		}
		rs = append(rs, gsmBasic[ss[i]])
	}
	return string(rs)
}

func c19TimeEqual(got time.Time, t specTime) bool {
	off := t.ZQ * 900
	if t.ZNeg {
		off = -off
	}
	want := time.Date(2000+t.YY, time.Month(t.Mo), t.DD, t.HH, t.Mi, t.SS, 0, time.FixedZone("", off))
	_, goff := got.Zone()
	return got.Equal(want) && goff == off && got.Year() == 2000+t.YY && int(got.Month()) == t.Mo && got.Day() == t.DD &&
		got.Hour() == t.HH && got.Minute() == t.Mi && got.Second() == t.SS
}

type c19Ctx struct {
	r       *Run
	seen    map[string]bool
	nSample int
	nLong   int
	nHist   int
	nAfter  int
}

func (c *c19Ctx) fail(class, what, in, observed, required string) {
	class = strings.ReplaceAll(class, " ", "-")
	c.r.Fail(class, what, "smsrt "+in, observed, required)
}

// addrCheck compares a decoded address with the spec value
func (c *c19Ctx) addrCheck(field string, npi, ton byte, no string, a specAddr, in string) {
	want := specDigitsString(a.Digits)
	if a.Alnum {
		want = specAlnumText(a.Septets)
	}
	if int(npi) != a.NPI || int(ton) != a.TON {
		c.fail("value/"+field+"-type", field+": type-of-number / numbering-plan differ from the type-of-address octet", in,
			fmt.Sprintf("ton=%d npi=%d", ton, npi), fmt.Sprintf("ton=%d npi=%d", a.TON, a.NPI))
	}
	if no != want {
		class := "value/" + field + "-digits"
		if a.Alnum {
			class = "value/" + field + "-text"
			// expected under the listed findings: septet 0x09 as U+00E7 (D16), a trailing '@' from seven fill
			// bits (D21), the final CR of eight septets taken for the filler
			known, has09 := strings.ReplaceAll(want, "Ç", "ç"), strings.Contains(want, "Ç")
			pad, cr8 := addrIsD21(a), addrIsCR8(a)
			if pad {
				known += "@"
			}
			if cr8 {
				known = strings.TrimSuffix(known, "\r")
			}
			if no == known && (has09 || pad || cr8) {
				if has09 {
					c.fail(c19D16, field+": decoded address text has U+00E7 where the default alphabet has U+00C7", in, fmt.Sprintf("%q", no), fmt.Sprintf("%q", want))
				}
				if cr8 {
					c.fail(c19CR8, field+": eight septets ending in CR are decoded without the CR", in, fmt.Sprintf("%q", no), fmt.Sprintf("%q", want))
				}
				if !pad {
					return
				}
				class = c19D21
			}
		}
		c.fail(class, field+": decoded address value differs from the laid-out one", in, fmt.Sprintf("%q", no), fmt.Sprintf("%q", want))
	}
}

// udCheck: the decoded UserData against the user-data octets of the TPDU, exactly.  Known finding c19UDPad: for a
// septet-counted data coding scheme with 8 or more septets UserData holds TP-UDL octets, i.e. the user data followed by
// UDL - ceil(7 UDL / 8) zero octets (the slice length is where the structure keeps TP-UDL).  A difference is attributed to
// that class only if the input lies in it AND the value is exactly what the finding predicts; anything else is value/user-data.
func (c *c19Ctx) udCheck(got []byte, u specUD, in string) {
	want := specUDOctets(u)
	if bytes.Equal(got, want) {
		return
	}
	n := specUDL(u)
	if u.IsSeptets && n >= 8 && len(got) == n && bytes.Equal(got[:len(want)], want) && len(bytes.Trim(got[len(want):], "\x00")) == 0 {
		c.fail(c19UDPad, "decoded UserData is the user data followed by zero octets up to TP-UDL", in,
			hex.EncodeToString(got), hex.EncodeToString(want))
		return
	}
	c.fail("value/user-data", "decoded user data is not the user-data octets of the TPDU", in, hex.EncodeToString(got), hex.EncodeToString(want))
}

// roundtrip compares the re-encoded octets; a difference must be exactly what the known findings produce
func (c *c19Ctx) roundtrip(in, out []byte, knownOut []byte, knownClasses []string, label string) {
	if bytes.Equal(in, out) {
		return
	}
	h := hex.EncodeToString(in)
	if len(knownClasses) > 0 && bytes.Equal(out, knownOut) {
		for _, k := range knownClasses {
			c.fail(k, "Unmarshal followed by Marshal does not reproduce the TPDU", h, hex.EncodeToString(out), h)
		}
		return
	}
	c.fail("roundtrip/"+label, "Unmarshal followed by Marshal does not reproduce the TPDU (and not in the way any listed finding explains)",
		h, hex.EncodeToString(out), h)
}

func (c *c19Ctx) cases(in []byte, o smsObs, label, specTerm string) {
	r := c.r
	desc := label + " " + hex.EncodeToString(in)
	// the Coq spec lays out the same octets as its Go transliteration
	r.Case("spec-layout "+desc, fmt.Sprintf("beq_bytes (%s) %s", specTerm, coqHex(in)))
	switch {
	case o.Class == 0 && o.ValidType && o.EncClass == 0:
		r.Case(desc, fmt.Sprintf("sms_dec_is %s \"%s\" %s && sms_enc_is %s %s", coqHex(in), o.Name, o.Term, coqHex(in), coqHex(o.Out)))
		if c.nAfter++; c.nAfter%8 == 0 && o.TermAfter != "" {
			// the structure AFTER Marshal, against the model of what Marshal writes into its argument
			r.Case("after-marshal "+desc, fmt.Sprintf("sms_arg_after_is %s \"%s\" %s", coqHex(in), o.Name, o.TermAfter))
		}
	default:
		r.Case(desc, fmt.Sprintf("sms_class %s =? %d", coqHex(in), o.Class))
	}
}

// readers: the same TPDU through readers that hand the octets out in pieces, and followed by more than a
// bufio buffer of further octets, must decode to the same value; Marshal called twice must write the TPDU twice
func (c *c19Ctx) readers(in []byte, o smsObs, label string) {
	label = strings.ReplaceAll(label, " ", "-")
	key := hex.EncodeToString(in)
	smsReaderIndependence(c.r, in, o, label, "smsrt "+key)
	smsMarshalTwice(c.r, o, label, "smsrt "+key, true)
	if o.Class == 0 && o.EncClass == 0 && o.TermAfter != "" && o.TermAfter != o.Term {
		c.r.Fail("marshal-changes-its-argument/"+label, "sms.Marshal changed the structure sms.Unmarshal returned (the value read back afterwards differs)", "smsrt "+key,
			o.TermAfter, "unchanged: "+o.Term)
	}
	c.nLong++
	if c.nLong%8 == 3 {
		// the decoder written over the bufio model, on the schedule the implementation was run with (C19_*_any_reader)
		smsReaderCase(c.r, in, randSched(c.r.Rng, len(in)), c.r.Rng.Bool(), true, label, "smsrt "+key)
	}
	if c.nLong%40 == 1 {
		// trailing octets: a septet-counted TP-UD reads TP-UDL octets, more than the packed data, so the decoded user data
		// may take in what follows; everything before the user data and the error class must be unaffected
		long := append(append([]byte{}, in...), make([]byte, 4096+c.r.Rng.Intn(3000))...)
		o2 := smsRun(long)
		if o2.Class != o.Class || o2.Name != o.Name || o2.Term != o.Term || !bytes.Equal(o2.Out, o.Out) {
			c.r.Fail("reader/long-input/"+label, "the TPDU followed by more than 4096 zero octets decodes / re-encodes differently", "smsrt "+key+" + zero octets",
				fmt.Sprintf("class=%d %s %x", o2.Class, o2.Name, o2.Out), fmt.Sprintf("class=%d %s %x", o.Class, o.Name, o.Out))
		}
		smsReaderIndependence(c.r, long, o2, label+"/long-input", "smsrt "+key+" + zero octets")
	}
}

func (c *c19Ctx) deliver(t specDeliver, label string) {
	in := specLayoutDeliver(t)
	key := hex.EncodeToString(in)
	if c.seen[key] {
		return
	}
	c.seen[key] = true
	o := smsRun(in)
	c.readers(in, o, "deliver/"+label)
	c.r.Count(key, true, "SMS-DELIVER: "+label)
	c.cases(in, o, "deliver/"+label, "layout_deliver "+coqSpecDeliver(t))
	p, ok := o.Packet.(*sms.Deliver)
	if o.Class != 0 || !ok {
		c.fail("decode/deliver/"+label, "a well-formed SMS-DELIVER is not decoded to *sms.Deliver", key,
			fmt.Sprintf("class=%d type=%T panic=%s", o.Class, o.Packet, o.PanicMsg), "*sms.Deliver, nil error")
		return
	}
	// values: the first octet's parameters under the names the structure gives them (GSM 03.40 9.2.2.1)
	fl := p.Flags
	if fl.MessageType != sms.MessageTypeDeliver || fl.MoreMessagesToSend != t.MMS || fl.StatusReportIndication != t.SRI ||
		fl.TPUDHI != t.UDHI || fl.TPRP != t.RP {
		c.fail("value/deliver-flags", "decoded first-octet parameters differ from the bits GSM 03.40 9.2.2.1 assigns (TP-MTI, TP-MMS bit 2, TP-SRI bit 5, TP-UDHI bit 6, TP-RP bit 7)", key,
			fmt.Sprintf("%+v", fl), fmt.Sprintf("MessageType=SMS-DELIVER MoreMessagesToSend=%v StatusReportIndication=%v TPUDHI=%v TPRP=%v", t.MMS, t.SRI, t.UDHI, t.RP))
	}
	if fl.ReplyPath != t.RP || fl.UDHIndicator != t.UDHI {
		class := "value/deliver-flags"
		if fl.ReplyPath == t.Bit3 && fl.UDHIndicator == t.Bit4 {
			class = c19DFl // exactly what the listed finding predicts: the two fields show bits 3 and 4
		}
		c.fail(class, "DeliverFlags.ReplyPath / .UDHIndicator are not TP-RP (bit 7) / TP-UDHI (bit 6) of the first octet", key,
			fmt.Sprintf("ReplyPath=%v UDHIndicator=%v", fl.ReplyPath, fl.UDHIndicator), fmt.Sprintf("ReplyPath=%v UDHIndicator=%v", t.RP, t.UDHI))
	}
	c.addrCheck("sc-address", p.SCAddress.NPI, p.SCAddress.TON, p.SCAddress.No, t.SC, key)
	c.addrCheck("originating-address", p.OriginatingAddress.NPI, p.OriginatingAddress.TON, p.OriginatingAddress.No, t.OA, key)
	if int(p.ProtocolIdentifier) != t.PID || int(p.DataCoding) != t.DCS {
		c.fail("value/pid-dcs", "PID / DCS differ", key, fmt.Sprintf("pid=%d dcs=%d", p.ProtocolIdentifier, p.DataCoding), fmt.Sprintf("pid=%d dcs=%d", t.PID, t.DCS))
	}
	if !c19TimeEqual(p.ServiceCentreTimestamp.Time, t.SCTS) {
		c.fail("value/scts", "decoded time stamp is not the instant and offset the standard assigns", key,
			p.ServiceCentreTimestamp.Time.Format(time.RFC3339), fmt.Sprintf("%+v", t.SCTS))
	}
	c.udCheck(p.UserData, t.UD, key)
	// round trip
	if o.EncClass != 0 {
		c.fail("marshal/deliver/"+label, "Marshal of the decoded SMS-DELIVER does not return normally", key, o.EncErr+o.EncPanic, "octets")
		return
	}
	var k c19Segs
	var classes []string
	k.add("SC", specSCAddr(t.SC)...)
	k.add("FO", specDeliverFO(t))
	k.add("OA", c19KnownAddr(t.OA)...)
	if addrIsD21(t.OA) {
		classes = append(classes, c19D21)
	}
	k.add("PID", byte(t.PID), byte(t.DCS))
	k.add("SCTS", specSCTS(t.SCTS)...)
	k.add("UDL", byte(specUDL(t.UD)))
	k.add("UD", specUDOctets(t.UD)...)
	c.roundtrip(in, o.Out, k.bytes(), classes, "deliver/"+label)
	if c.nSample < 5 {
		c.nSample++
		c.r.Sample(map[string]interface{}{"type": "SMS-DELIVER", "class": label, "tpdu": key, "re-encoded": hex.EncodeToString(o.Out)})
	}
}

func (c *c19Ctx) submit(t specSubmit, label string) {
	in := specLayoutSubmit(t)
	key := hex.EncodeToString(in)
	if c.seen[key] {
		return
	}
	c.seen[key] = true
	o := smsRun(in)
	c.readers(in, o, "submit/"+label)
	c.r.Count(key, true, "SMS-SUBMIT: "+label)
	c.cases(in, o, "submit/"+label, "layout_submit "+coqSpecSubmit(t))
	p, ok := o.Packet.(*sms.Submit)
	if o.Class != 0 || !ok {
		c.fail("decode/submit/"+label, "a well-formed SMS-SUBMIT is not decoded to *sms.Submit", key,
			fmt.Sprintf("class=%d type=%T panic=%s", o.Class, o.Packet, o.PanicMsg), "*sms.Submit, nil error")
		return
	}
	if fl := p.Flags; fl.MessageType != sms.MessageTypeSubmit || fl.RejectDuplicates != t.RD || int(fl.ValidityPeriodFormat) != t.VP.Kind ||
		fl.StatusReportRequest != t.SRR || fl.UserDataHeaderIndicator != t.UDHI || fl.ReplyPath != t.RP {
		c.fail("value/submit-flags", "decoded first-octet parameters differ from the bits GSM 03.40 9.2.2.2 assigns (TP-MTI, TP-RD bit 2, TP-VPF bits 3-4, TP-SRR bit 5, TP-UDHI bit 6, TP-RP bit 7)", key,
			fmt.Sprintf("%+v", fl), fmt.Sprintf("MessageType=SMS-SUBMIT RejectDuplicates=%v ValidityPeriodFormat=%d StatusReportRequest=%v UserDataHeaderIndicator=%v ReplyPath=%v", t.RD, t.VP.Kind, t.SRR, t.UDHI, t.RP))
	}
	if int(p.MessageReference) != t.MR {
		c.fail("value/mr", "message reference differs", key, fmt.Sprint(p.MessageReference), fmt.Sprint(t.MR))
	}
	c.addrCheck("destination-address", p.DestinationAddress.NPI, p.DestinationAddress.TON, p.DestinationAddress.No, t.DA, key)
	if int(p.ProtocolIdentifier) != t.PID || int(p.DataCoding) != t.DCS {
		c.fail("value/pid-dcs", "PID / DCS differ", key, fmt.Sprintf("pid=%d dcs=%d", p.ProtocolIdentifier, p.DataCoding), fmt.Sprintf("pid=%d dcs=%d", t.PID, t.DCS))
	}
	// validity period
	vpBad := func(obs, want string) {
		c.fail("value/validity-period", "decoded validity period is not the one the standard assigns", key, obs, want)
	}
	switch t.VP.Kind {
	case 0:
		if p.ValidityPeriod != nil {
			vpBad(fmt.Sprintf("%T", p.ValidityPeriod), "absent")
		}
	case 1:
		d, ok := p.ValidityPeriod.(sms.EnhancedDuration)
		if !ok || d.Duration != time.Duration(specEnhSeconds(t.VP.Enh))*time.Second || d.Indicator != specEnhIndicator(t.VP.Enh) {
			vpBad(fmt.Sprintf("%+v", p.ValidityPeriod), fmt.Sprintf("enhanced %d s indicator %#x", specEnhSeconds(t.VP.Enh), specEnhIndicator(t.VP.Enh)))
		}
	case 2:
		d, ok := p.ValidityPeriod.(sms.Duration)
		if !ok || d.Duration != time.Duration(specRelSeconds(t.VP.Rel))*time.Second {
			vpBad(fmt.Sprintf("%+v", p.ValidityPeriod), fmt.Sprintf("relative %d s", specRelSeconds(t.VP.Rel)))
		}
	case 3:
		d, ok := p.ValidityPeriod.(sms.Time)
		if !ok || !c19TimeEqual(d.Time, t.VP.Abs) {
			vpBad(fmt.Sprintf("%+v", p.ValidityPeriod), fmt.Sprintf("%+v", t.VP.Abs))
		}
	}
	c.udCheck(p.UserData, t.UD, key)
	if o.EncClass == 0 {
		// a history on ONE packet value: Marshal three more times, take the validity period away and put it back - the
		// value and the octets written must be those of the first Marshal every time it holds the decoded value again
		c.nHist++
		if c.nHist%3 == 0 {
			orig := p.ValidityPeriod
			step := func(what string, mustEqual bool) {
				var b bytes.Buffer
				var merr error
				pn, msg := guard(func() { _, merr = sms.Marshal(&b, p) })
				switch {
				case pn:
					c.fail("marshal-history/panic/"+label, "sms.Marshal panics in a history of calls on one decoded structure ("+what+")", key, "panic: "+msg, "returns normally")
				case mustEqual && (merr != nil || !bytes.Equal(b.Bytes(), o.Out) || smsObsTerm(p) != o.Term):
					c.fail("marshal-history/"+label, "in a history of sms.Marshal calls on one decoded structure ("+what+") the octets or the structure differ from the first call", key,
						fmt.Sprintf("err=%v %x %s", merr, b.Bytes(), smsObsTerm(p)), fmt.Sprintf("%x %s", o.Out, o.Term))
				}
			}
			step("third call", true)
			step("fourth call", true)
			p.ValidityPeriod = nil
			step("validity period removed", false)
			p.ValidityPeriod = sms.Duration{Duration: 10 * time.Minute}
			step("relative validity period put in", false)
			p.ValidityPeriod = orig
			step("decoded validity period put back", true)
		}
	}
	if o.EncClass != 0 {
		c.fail("marshal/submit/"+label, "Marshal of the decoded SMS-SUBMIT does not return normally", key, o.EncErr+o.EncPanic, "octets")
		return
	}
	var k c19Segs
	var classes []string
	k.add("HDR", 0, specSubmitFO(t), byte(t.MR))
	k.add("DA", c19KnownAddr(t.DA)...)
	if addrIsD21(t.DA) {
		classes = append(classes, c19D21)
	}
	k.add("PID", byte(t.PID), byte(t.DCS))
	k.add("VP", specVPOctets(t.VP)...)
	k.add("UDL", byte(specUDL(t.UD)))
	k.add("UD", specUDOctets(t.UD)...)
	c.roundtrip(in, o.Out, k.bytes(), classes, "submit/"+label)
	if c.nSample < 10 && c.nSample >= 5 {
		c.nSample++
		c.r.Sample(map[string]interface{}{"type": "SMS-SUBMIT", "class": label, "tpdu": key, "re-encoded": hex.EncodeToString(o.Out)})
	}
}

// ---------------------------------------------------------------- generators over the quantifier's classes
func c19Digits(r *Rng, n int, leadingZero bool) []int {
	d := make([]int, n)
	for i := range d {
		d[i] = r.Intn(10)
	}
	if leadingZero {
		d[0] = 0
		if n > 1 && r.Bool() {
			d[1] = 0
		}
	} else if d[0] == 0 {
		d[0] = 1 + r.Intn(9)
	}
	return d
}
func c19NumAddr(r *Rng, n int, leadingZero bool) specAddr {
	ton := r.Pick([]int{0, 1, 2, 3, 4, 6, 7})
	return specAddr{TON: ton, NPI: r.Intn(16), Digits: c19Digits(r, n, leadingZero)}
}

// alphanumeric text of exactly n septets over the full GSM 03.38 repertoire: basic-table characters
// (CR included) and extension-table characters (ESC + code, two septets)
func c19Alnum(r *Rng, n int) specAddr {
	var ss []int
	for len(ss) < n {
		switch {
		case n-len(ss) >= 2 && r.Intn(5) == 0:
			ss = append(ss, 27, gsmExtCodes[r.Intn(len(gsmExtCodes))])
		case r.Intn(12) == 0:
			ss = append(ss, 13)
		case r.Intn(16) == 0:
			ss = append(ss, 9)
		default:
			c := r.Intn(128)
			if c == 27 {
				c = 0
			}
			ss = append(ss, c)
		}
	}
	return specAddr{TON: 5, NPI: r.Intn(16), Septets: ss, Alnum: true}
}
func c19Time(r *Rng, zq int) specTime {
	yy, mo := r.Intn(100), 1+r.Intn(12)
	dim := []int{31, 28, 31, 30, 31, 30, 31, 31, 30, 31, 30, 31}[mo-1]
	if mo == 2 && yy%4 == 0 {
		dim = 29
	}
	dd := 1 + r.Intn(dim)
	if r.Intn(4) == 0 {
		dd = dim
	}
	t := specTime{YY: yy, Mo: mo, DD: dd, HH: r.Intn(24), Mi: r.Intn(60), SS: r.Intn(60), ZQ: zq}
	if zq < 0 {
		t.ZNeg, t.ZQ = true, -zq
	}
	return t
}

var c19DCS7 = []int{0x00, 0x0C, 0x10, 0x40, 0xC0, 0xD8, 0xF0, 0xF3} // TP-UDL counts septets
var c19DCS8 = []int{0x04, 0x08, 0x20, 0x24, 0x14, 0x18, 0xE0, 0xF4} // TP-UDL counts octets

// user data: kind 0 septets, 1 8-bit, 2 UCS-2; trailing: 0 none (last octet non-zero), 1 last octet zero
func c19UD(r *Rng, kind, n int, trailingZero bool) (dcs int, u specUD) {
	switch kind {
	case 0:
		dcs = c19DCS7[r.Intn(len(c19DCS7))]
		ss := make([]int, n)
		for i := range ss {
			ss[i] = r.Intn(128)
		}
		u = specUD{IsSeptets: true, Septets: ss}
		if n > 0 {
			// the last packed octet holds the top bit of the last septet and nothing older than the last two septets
			if trailingZero {
				ss[n-1] = 0
				if n > 1 {
					ss[n-2] = 0
				}
			} else {
				ss[n-1] |= 64
			}
		}
	default:
		dcs = c19DCS8[r.Intn(len(c19DCS8))]
		if kind == 2 {
			dcs = 0x08
			n &^= 1
		}
		os := r.Bytes(n)
		if n > 0 {
			if trailingZero {
				os[n-1] = 0
			} else if os[n-1] == 0 {
				os[n-1] = byte(1 + r.Intn(255))
			}
		}
		u = specUD{Octets: os}
	}
	if specDcsCountsSeptets(dcs) != u.IsSeptets {
		panic("generator: DCS / user-data kind disagree")
	}
	return
}

func c19BaseDeliver(r *Rng) specDeliver {
	dcs, ud := c19UD(r, r.Intn(3), r.Pick([]int{0, 1, 5, 8, 17, 70, 140}), false)
	return specDeliver{SC: c19NumAddr(r, 1+r.Intn(20), false), MMS: r.Bool(), SRI: r.Bool(),
		OA: c19NumAddr(r, 1+r.Intn(20), false), PID: r.Intn(256), DCS: dcs, SCTS: c19Time(r, r.Intn(49)), UD: ud}
}
func c19BaseSubmit(r *Rng) specSubmit {
	dcs, ud := c19UD(r, r.Intn(3), r.Pick([]int{0, 1, 5, 8, 17, 70, 140}), false)
	return specSubmit{RD: r.Bool(), SRR: r.Bool(), UDHI: r.Bool(), RP: r.Bool(), MR: r.Intn(256),
		DA: c19NumAddr(r, 1+r.Intn(20), false), PID: r.Intn(256), DCS: dcs, UD: ud}
}
func c19Enh(r *Rng, f int) specEnh {
	e := specEnh{SingleShot: r.Bool(), Reserved: r.Intn(8), Fmt: f}
	switch f {
	case 1, 2:
		e.V = r.Pick([]int{0, 1, 143, 144, 167, 168, 196, 197, 255, r.Intn(256)})
	case 3:
		e.HH, e.MM, e.SS = r.Pick([]int{0, 9, 10, 23, 99, r.Intn(100)}), r.Intn(60), r.Intn(60)
	}
	return e
}

func corrC19(r *Run) {
	r.Import("Model.TpduRun")
	r.Import("Spec.Gsm0340")
	r.Import("Proofs.TpduMarshalEffect")
	r.Import("Model.TpduReaderRun")
	r.Rule = "TPDUs laid out by the Go transliteration of Spec/Gsm0340.v over the quantifier's classes: digit counts 1..20 (odd/even, leading zeros) " +
		"for OA/DA/SC, alphanumeric 1..11, all 64 first octets of each type, all 256 relative VPs, enhanced (4 formats) and absolute VPs, " +
		"zones -79..+79, 7-bit/8-bit/UCS-2 user data of boundary lengths with and without trailing zero octets, then random combinations; " +
		"every TPDU is distinct and non-trivial; each is three model cases (spec layout = octets, decoded value, re-encoded octets)"
	r.PerShard(300)
	c := &c19Ctx{r: r, seen: map[string]bool{}}
	g := r.Rng
	// addresses: every digit count, odd/even, leading zeros
	for n := 1; n <= 20; n++ {
		for _, lz := range []bool{false, true} {
			d := c19BaseDeliver(g)
			d.OA = c19NumAddr(g, n, lz)
			c.deliver(d, fmt.Sprintf("OA %d digits", n))
			d = c19BaseDeliver(g)
			d.SC = c19NumAddr(g, n, lz)
			c.deliver(d, fmt.Sprintf("SC %d digits", n))
			s := c19BaseSubmit(g)
			s.DA = c19NumAddr(g, n, lz)
			c.submit(s, fmt.Sprintf("DA %d digits", n))
		}
	}
	// the same address digits under another type-of-address, one after the other in one process (a memo keyed on the
	// value octets would return the first decoding)
	for n := 4; n <= 20; n += 3 {
		a := c19NumAddr(g, n, false)
		for _, tn := range [][2]int{{1, 1}, {0, 1}, {2, 8}, {1, 1}, {6, 0}} {
			a.TON, a.NPI = tn[0], tn[1]
			d := c19BaseDeliver(g)
			d.OA, d.SC = a, a
			c.deliver(d, "same digits, other type-of-address")
			s := c19BaseSubmit(g)
			s.DA = a
			c.submit(s, "same digits, other type-of-address")
		}
	}
	for n := 1; n <= 11; n++ {
		for k := 0; k < r.N(6, 24); k++ {
			d := c19BaseDeliver(g)
			d.OA = c19Alnum(g, n)
			c.deliver(d, fmt.Sprintf("OA alphanumeric %d", n))
			s := c19BaseSubmit(g)
			s.DA = c19Alnum(g, n)
			c.submit(s, fmt.Sprintf("DA alphanumeric %d", n))
		}
	}
	// eight septets ending in CR, seven septets ending in an extension character, all-extension texts
	for k := 0; k < r.N(4, 16); k++ {
		a := c19Alnum(g, 8)
		a.Septets[7] = 13
		if a.Septets[6] == 27 {
			a.Septets[6] = 65
		}
		s := c19BaseSubmit(g)
		s.DA = a
		c.submit(s, "DA alphanumeric 8 ending in CR")
		b := c19Alnum(g, 5)
		b.Septets = append(b.Septets, 27, gsmExtCodes[g.Intn(len(gsmExtCodes))])
		d := c19BaseDeliver(g)
		d.OA = b
		c.deliver(d, "OA alphanumeric 7 ending in extension character")
		e := specAddr{TON: 5, NPI: g.Intn(16), Alnum: true}
		for i := 0; i < 1+g.Intn(5); i++ {
			e.Septets = append(e.Septets, 27, gsmExtCodes[g.Intn(len(gsmExtCodes))])
		}
		s = c19BaseSubmit(g)
		s.DA = e
		c.submit(s, "DA alphanumeric extension characters only")
	}
	// every first octet of both types
	for fo := 0; fo < 64; fo++ {
		d := c19BaseDeliver(g)
		d.MMS, d.Bit3, d.Bit4, d.SRI, d.UDHI, d.RP = fo&1 != 0, fo&2 != 0, fo&4 != 0, fo&8 != 0, fo&16 != 0, fo&32 != 0
		c.deliver(d, "first octet")
		s := c19BaseSubmit(g)
		s.RD, s.SRR, s.UDHI, s.RP = fo&1 != 0, fo&8 != 0, fo&16 != 0, fo&32 != 0
		s.VP.Kind = fo >> 1 & 3
		switch s.VP.Kind {
		case 1:
			s.VP.Enh = c19Enh(g, g.Intn(4))
		case 2:
			s.VP.Rel = g.Intn(256)
		case 3:
			s.VP.Abs = c19Time(g, g.Intn(49))
		}
		c.submit(s, "first octet")
	}
	// all 256 relative validity periods, also inside the enhanced format
	for v := 0; v < 256; v++ {
		s := c19BaseSubmit(g)
		s.VP = specVP{Kind: 2, Rel: v}
		c.submit(s, "relative VP")
		if v%4 == 0 || !r.Quick {
			s = c19BaseSubmit(g)
			s.VP = specVP{Kind: 1, Enh: specEnh{Fmt: 1, V: v, SingleShot: g.Bool()}}
			c.submit(s, "enhanced VP relative")
		}
	}
	for f := 0; f < 4; f++ {
		for k := 0; k < r.N(12, 60); k++ {
			s := c19BaseSubmit(g)
			s.VP = specVP{Kind: 1, Enh: c19Enh(g, f)}
			c.submit(s, fmt.Sprintf("enhanced VP format %d", f))
		}
	}
	// zones
	zones := []int{0, 1, 4, 9, 10, 19, 20, 32, 48, 56, 79, -1, -4, -9, -10, -12, -19, -20, -28, -32, -48, -79}
	for _, zq := range zones {
		d := c19BaseDeliver(g)
		d.SCTS = c19Time(g, zq)
		c.deliver(d, "time zone")
		s := c19BaseSubmit(g)
		s.VP = specVP{Kind: 3, Abs: c19Time(g, zq)}
		c.submit(s, "absolute VP")
	}
	{ // minus zero: sign bit set, magnitude 0 (a pinned repository sample has zone octet 0x08)
		d := c19BaseDeliver(g)
		d.SCTS = c19Time(g, 0)
		d.SCTS.ZNeg = true
		c.deliver(d, "time zone minus zero")
		s := c19BaseSubmit(g)
		s.VP = specVP{Kind: 3, Abs: d.SCTS}
		c.submit(s, "absolute VP minus zero")
	}
	for k := 0; k < r.N(20, 200); k++ {
		d := c19BaseDeliver(g)
		d.SCTS = c19Time(g, g.Intn(159)-79)
		c.deliver(d, "time zone")
	}
	// calendar boundaries
	for _, t := range []specTime{{0, 1, 1, 0, 0, 0, false, 0}, {99, 12, 31, 23, 59, 59, false, 79}, {0, 2, 29, 12, 0, 0, false, 4},
		{4, 2, 29, 0, 0, 0, false, 8}, {99, 2, 28, 23, 59, 59, false, 48}, {23, 3, 31, 1, 2, 3, false, 0}, {96, 2, 29, 9, 9, 9, false, 9}} {
		d := c19BaseDeliver(g)
		d.SCTS = t
		c.deliver(d, "calendar boundary")
		s := c19BaseSubmit(g)
		s.VP = specVP{Kind: 3, Abs: t}
		c.submit(s, "absolute VP calendar boundary")
	}
	// user data
	for kind := 0; kind < 3; kind++ {
		lens := []int{0, 1, 2, 6, 7, 8, 9, 15, 16, 17, 139, 140}
		if kind == 0 {
			lens = append(lens, 152, 153, 159, 160)
		}
		for _, n := range lens {
			for _, tz := range []bool{false, true} {
				if n == 0 && tz {
					continue
				}
				dcs, ud := c19UD(g, kind, n, tz)
				d := c19BaseDeliver(g)
				d.DCS, d.UD = dcs, ud
				lab := fmt.Sprintf("user data %s", []string{"7-bit", "8-bit", "UCS-2"}[kind])
				if tz {
					lab += " ending in 00"
				}
				c.deliver(d, lab)
				s := c19BaseSubmit(g)
				s.DCS, s.UD = dcs, ud
				c.submit(s, lab)
			}
		}
	}
	// every DCS value once (alphabet decided by the spec function)
	for dcs := 0; dcs < 256; dcs += r.N(3, 1) {
		d := c19BaseDeliver(g)
		k := 1
		if specDcsCountsSeptets(dcs) {
			k = 0
		}
		_, ud := c19UD(g, k, 1+g.Intn(20), false)
		d.DCS, d.UD = dcs, ud
		c.deliver(d, "DCS sweep")
	}
	// ordered histories in fresh processes (sms_history.go): well-formed TPDUs of both types with every validity-period
	// format, numeric / alphanumeric addresses, both zone signs - the decoded value and the re-encoding of each must be
	// the same whatever the process decoded before
	{
		var hc []histItem
		addD := func(l string, d specDeliver) { hc = append(hc, histItem{"deliver/" + l, specLayoutDeliver(d)}) }
		addS := func(l string, x specSubmit) { hc = append(hc, histItem{"submit/" + l, specLayoutSubmit(x)}) }
		d := c19BaseDeliver(g)
		addD("numeric", d)
		d2 := c19BaseDeliver(g)
		d2.OA = c19Alnum(g, 5)
		d2.SCTS = c19Time(g, -9)
		addD("alphanumeric-negative-zone", d2)
		d3 := c19BaseDeliver(g)
		d3.SC, d3.OA = d.SC, d.OA                 // the same digits ...
		d3.SC.TON, d3.OA.TON, d3.OA.NPI = 2, 0, 8 // ... under another type-of-address
		addD("same-digits-other-type-of-address", d3)
		for k := 0; k < 4; k++ {
			x := c19BaseSubmit(g)
			x.VP.Kind = k
			switch k {
			case 1:
				x.VP.Enh = c19Enh(g, 3)
			case 2:
				x.VP.Rel = 144
			case 3:
				x.VP.Abs = c19Time(g, 4)
			}
			addS(fmt.Sprintf("vp-format-%d", k), x)
		}
		for f := 0; f < 3; f++ {
			x := c19BaseSubmit(g)
			x.VP = specVP{Kind: 1, Enh: c19Enh(g, f)}
			x.DA = c19Alnum(g, 3+f)
			addS(fmt.Sprintf("enhanced-vp-%d-alphanumeric", f), x)
		}
		smsHistories(r, hc, r.N(1, 10))
	}
	// random combinations of everything (mostly one unusual feature at a time)
	for i := 0; i < r.N(230, 3300); i++ {
		d := c19BaseDeliver(g)
		s := c19BaseSubmit(g)
		switch g.Intn(8) {
		case 0:
			d.OA, s.DA = c19Alnum(g, 1+g.Intn(11)), c19Alnum(g, 1+g.Intn(11))
		case 1:
			d.OA, s.DA = c19NumAddr(g, 1+g.Intn(20), true), c19NumAddr(g, 1+g.Intn(20), true)
		case 2:
			d.UDHI, d.RP, d.Bit3, d.Bit4 = g.Bool(), g.Bool(), g.Bool(), g.Bool()
		case 3:
			d.SCTS = c19Time(g, g.Intn(159)-79)
			s.VP = specVP{Kind: 3, Abs: c19Time(g, g.Intn(159)-79)}
		case 4:
			k := g.Intn(3)
			dcs, ud := c19UD(g, k, 1+g.Intn(140), true)
			d.DCS, d.UD, s.DCS, s.UD = dcs, ud, dcs, ud
		case 5:
			s.VP = specVP{Kind: 1, Enh: c19Enh(g, g.Intn(4))}
		case 6:
			s.VP = specVP{Kind: 2, Rel: g.Intn(256)}
		}
		c.deliver(d, "random")
		c.submit(s, "random")
	}
}
