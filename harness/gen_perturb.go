package main

// Table generators must not depend on what was called before (or in between): with VERIF_GEN_PERTURB set, every
// generator of this engine pokes the package-level coding objects before and during its sweeps - refused texts with an
// encodable prefix, decodes of octets that are no text, detector calls on mixed texts.  The output must be the same,
// line for line, as without the pokes.  tablePerturbTest (run by the corr step in a child process) compares the two;
// the first differing row is a failing history: "this row of the table depends on the calls made before it".

import (
	"bytes"
	"fmt"
	"os"
	"os/exec"
	"path/filepath"
	"strings"
	"time"

	"github.com/M2MGateway/go-smpp/coding"
	"github.com/M2MGateway/go-smpp/pdu"
)

var genPerturbOn = os.Getenv("VERIF_GEN_PERTURB") != ""
var perturbCount int

var perturbTexts = []string{"Hi ✓ there", "ab\U0001F600", "naïve café ✓", "Привет ✓", "שלום ✓", "日本語 ✓ ｱ", "안녕 ✓", "€{[~]} ✓", "plain ascii", "ΔΦΓ"}

// perturbCodecs: a few calls whose results are thrown away
func perturbCodecs() {
	if !genPerturbOn {
		return
	}
	perturbCount++
	guard(func() {
		for i, dc := range closureBases {
			t := perturbTexts[(perturbCount+i)%len(perturbTexts)]
			if e := dc.Encoding(); e != nil {
				_, _ = e.NewEncoder().Bytes([]byte(t))
				_, _ = e.NewDecoder().Bytes([]byte{0x1b, 0x1b, byte(perturbCount), 0xff, 0x8f})
			}
		}
		t := perturbTexts[perturbCount%len(perturbTexts)]
		_ = coding.BestCoding(t)
		_ = coding.BestSafeCoding(t)
		var m pdu.ShortMessage
		_ = m.Compose(t)
		_, _ = pdu.ComposeMultipartShortMessage(t+strings.Repeat("x", 150), coding.GSM7BitCoding, uint16(perturbCount))
	})
}

// perturbEvery: called from inside the sweeps with the scalar value being looked at
func perturbEvery(r rune) {
	if genPerturbOn && r&0x3FFF == 0x1234 {
		perturbCodecs()
	}
}

var genFileOf = map[string]string{"charsets": "Charsets.v", "detect": "Detect.v", "widths": "Widths.v"}

func verifRoot() string {
	if d := os.Getenv("VERIF_ROOT"); d != "" {
		return d
	}
	exe, _ := os.Executable()
	return filepath.Dir(filepath.Dir(exe))
}

func runGenChild(table, outDir string, perturb bool) error {
	_ = os.MkdirAll(outDir, 0o755)
	var last error
	for attempt := 0; attempt < 2; attempt++ {
		cmd := exec.Command(os.Args[0], "gen", table, filepath.Join(outDir, genFileOf[table]))
		cmd.Env = os.Environ()
		if perturb {
			cmd.Env = append(cmd.Env, "VERIF_GEN_PERTURB=1")
		}
		done := make(chan error, 1)
		go func() { done <- cmd.Run() }()
		select {
		case err := <-done:
			if err == nil {
				return nil
			}
			last = err
		case <-time.After(240 * time.Second):
			if cmd.Process != nil {
				_ = cmd.Process.Kill()
			}
			last = fmt.Errorf("timed out")
		}
	}
	return last
}

// firstDiff compares the generated files of two directories: "" when identical
func firstDiff(dirA, dirB string) string {
	files, _ := filepath.Glob(filepath.Join(dirB, "*.v"))
	for _, fb := range files {
		a, errA := os.ReadFile(filepath.Join(dirA, filepath.Base(fb)))
		b, _ := os.ReadFile(fb)
		if errA != nil {
			continue
		}
		if bytes.Equal(a, b) {
			continue
		}
		la, lb := strings.Split(string(a), "\n"), strings.Split(string(b), "\n")
		name := ""
		for i := 0; i < len(la) || i < len(lb); i++ {
			x, y := "", ""
			if i < len(la) {
				x = la[i]
			}
			if i < len(lb) {
				y = lb[i]
			}
			if strings.HasPrefix(x, "Definition ") {
				name = strings.Fields(x)[1]
			}
			if x != y {
				return fmt.Sprintf("%s, table %s, line %d: `%s` without the pokes, `%s` with them", filepath.Base(fb), name, i+1, clip(strings.TrimSpace(x), 80), clip(strings.TrimSpace(y), 80))
			}
		}
	}
	return ""
}

// tablePerturbTest starts, in the background, a second generation of the tables (child process, pokes on); the returned
// function waits for it and reports a difference from the tables the theorems are about (coq/Gen) as a direct failure.
func tablePerturbTest(r *Run, tables ...string) (finish func()) {
	type res struct{ table, diff, err string }
	ch := make(chan res, len(tables))
	for _, t := range tables {
		go func(t string) {
			dir := filepath.Join(r.Dir, "perturbed_"+t)
			_ = os.RemoveAll(dir)
			if err := runGenChild(t, dir, true); err != nil {
				ch <- res{t, "", err.Error()}
				return
			}
			ch <- res{t, firstDiff(filepath.Join(verifRoot(), "coq", "Gen"), dir), ""}
			_ = os.RemoveAll(dir)
		}(t)
	}
	return func() {
		for range tables {
			x := <-ch
			r.Count("table-perturb "+x.table, true, "table regenerated with pokes between the calls")
			if x.err != "" {
				r.Notes = append(r.Notes, "perturbed generation of "+x.table+" could not be run: "+x.err)
			} else if x.diff != "" {
				r.Fail(histPrefix+"/table-"+x.table+"-depends-on-earlier-calls", "a regenerated table changes when other calls are made on the coding objects before and between the calls that fill it",
					"table-perturb "+x.table, x.diff, "the same table")
			}
		}
	}
}

func init() {
	replayExtra["table-perturb"] = func(f []string) string {
		t := f[1]
		base, _ := os.MkdirTemp("", "perturb")
		defer os.RemoveAll(base)
		if err := runGenChild(t, filepath.Join(base, "a"), false); err != nil {
			return "generation failed: " + err.Error()
		}
		if err := runGenChild(t, filepath.Join(base, "b"), true); err != nil {
			return "generation failed: " + err.Error()
		}
		if d := firstDiff(filepath.Join(base, "a"), filepath.Join(base, "b")); d != "" {
			return "two generations in fresh processes differ: " + d
		}
		return "two generations in fresh processes (without / with pokes) are identical"
	}
}
