//go:build !race
// +build !race

package main

const raceEnabled = false
