package main

// C10, round 5: what separates messages, at scale.
//   * every class of 16-bit reference value open at once between one address
//     pair (surrogate range, 0xFFFD..0xFFFF, high bit, values equal mod 256 …),
//     and ALL 65,536 references open at once (direct test);
//   * many messages open at once: K = 5 … 5000 first segments of distinct keys
//     (distinct by reference, by destination number, by source number), then
//     the remaining segments round by round in other orders (chk_open);
//   * two combiner instances fed alternately (the registry is per instance);
//   * a failing long history is cut down to the arrivals that matter before it
//     is reported (shrinkHistory), so the replay input stays small.

import (
	"fmt"
	"strconv"
	"strings"

	"github.com/M2MGateway/go-smpp/pdu"
)

// shrinkHistory removes arrivals from a failing history as long as the same
// failure class remains (delta debugging over chunks of halving size).
// shrinkBudget bounds the work (arrivals re-run) all shrinking of one run may spend: a change that breaks
// many long histories must not turn the check into a long-running job.
var shrinkBudget = 12_000_000

func shrinkHistory(table []segVal, hist []int, class string) []int {
	hangRuns := 0
	fails := func(h []int) bool {
		if hangRuns > 12 {
			return false // every failing candidate of this class costs a patience window: enough
		}
		c, _, _, _ := judge(table, h, runCombine(table, h))
		if c == class && strings.HasSuffix(class, "never-returns") {
			hangRuns++
		}
		return c == class
	}
	cur := hist
	if strings.HasSuffix(class, "never-returns") {
		// nothing after the call that did not return matters
		if o := runCombine(table, hist); o.Hung && o.PanicAt+1 < len(cur) {
			cur = cur[:o.PanicAt+1]
		}
	}
	for chunk := (len(cur) + 1) / 2; chunk >= 1 && shrinkBudget > 0; {
		removed := false
		for start := 0; start < len(cur) && shrinkBudget > 0; {
			end := start + chunk
			if end > len(cur) {
				end = len(cur)
			}
			cand := append(append([]int(nil), cur[:start]...), cur[end:]...)
			shrinkBudget -= len(cand) + 1
			if len(cand) > 0 && fails(cand) {
				cur, removed = cand, true
			} else {
				start = end
			}
		}
		if chunk == 1 {
			if !removed {
				break
			}
			continue
		}
		chunk = (chunk + 1) / 2
		if chunk > len(cur) {
			chunk = len(cur)
		}
	}
	return cur
}

// compactHistory renumbers a history over the table entries it uses.
func compactHistory(table []segVal, hist []int) ([]segVal, []int) {
	newIx := map[int]int{}
	var t []segVal
	h := make([]int, len(hist))
	for j, ix := range hist {
		n, ok := newIx[ix]
		if !ok {
			n = len(t)
			newIx[ix] = n
			t = append(t, table[ix])
		}
		h[j] = n
	}
	return t, h
}

// judgeBig judges a (possibly very long) history; a failure is reported on the
// shrunk history, as an ordinary replayable "combine" input.
func judgeBig(r *Run, table []segVal, hist []int, obs combineObs, what string) bool {
	class, _, _, _ := judge(table, hist, obs)
	if class == "" {
		return true
	}
	if r.failSeen[class] >= 2 {
		r.failSeen[class]++ // already reported with a concrete input: counted, not shrunk again
		return false
	}
	small := shrinkHistory(table, hist, class)
	t, h := compactHistory(table, small)
	o := runCombine(t, h)
	c2, what2, observed, required := judge(t, h, o)
	if c2 != class { // (cannot happen: shrinking keeps the class)
		t, h = compactHistory(table, hist)
		o = runCombine(t, h)
		c2, what2, observed, required = judge(t, h, o)
	}
	r.Fail(c2, what2+" ("+what+fmt.Sprintf(", cut down from %d to %d arrivals)", len(hist), len(h)), histInput(t, h), observed, required)
	return false
}

// reference values of every class a key encoding could confuse
func refClasses() []int {
	return []int{0, 1, 5, 0x7F, 0x80, 0xFF, 0x100, 0x105, 0x205, 0x500, 0x7FF, 0x800, 0xFFF, 0x1000, 0x7FFF, 0x8000, 0x8005, 0x8105,
		0xD7FF, 0xD800, 0xD801, 0xDBFF, 0xDC00, 0xDFFF, 0xE000, 0xFFFC, 0xFFFD, 0xFFFE, 0xFFFF}
}

func sparseAgainst(tr [][][]int, dflt [][][]int) string {
	var exc []string
	for j, cbs := range tr {
		if fmt.Sprint(cbs) == fmt.Sprint(dflt[j]) || (len(cbs) == 0 && len(dflt[j]) == 0) {
			continue
		}
		cs := make([]string, len(cbs))
		for k, cb := range cbs {
			ids := make([]string, len(cb))
			for l, x := range cb {
				if x < 0 {
					x = 99999999
				}
				ids[l] = fmt.Sprint(x)
			}
			cs[k] = coqList(ids)
		}
		exc = append(exc, fmt.Sprintf("(%d, %s)", j+1, coqList(cs)))
	}
	return coqList(exc)
}

// ---------------------------------------------------------------- many messages open at once
type openCase struct {
	Form    int      `json:"form"`    // 0: 8-bit reference element, 1: 16-bit
	Variant int      `json:"variant"` // keys differ in 0: reference, 1: destination number, 2: source number
	Lo      int      `json:"lo"`
	K       int      `json:"k"`
	Rounds  [][2]int `json:"rounds"` // per round (= sequence number) the permutation j -> (s*j+b) mod K
}

func segForm(form int, src, dst pdu.Address, ref, total, seq int) segVal {
	if form == 0 {
		return segVal{src, dst, ie0(ref&0xFF, total, seq)}
	}
	return seg16(src, dst, ref&0xFFFF, total, seq)
}

func (c openCase) seg(i, total, seq int) segVal {
	src, dst := longSrc, longDst
	switch c.Variant {
	case 0:
		return segForm(c.Form, src, dst, (c.Lo+i)&0xFFFF, total, seq)
	case 1:
		dst.No += strconv.Itoa(c.Lo + i)
	default:
		src.No += strconv.Itoa(c.Lo + i)
	}
	return segForm(c.Form, src, dst, c.Lo&0xFFFF, total, seq)
}

func aperm(k, s, b, j int) int { return (s*j + b) % k }

// history (table in arrival order) and the expected trace of an open case
func (c openCase) build() (table []segVal, dflt [][][]int) {
	total := len(c.Rounds)
	pos := make([][]int, total) // pos[q][m] = arrival position (from 1) of segment q+1 of message m
	for q, sb := range c.Rounds {
		pos[q] = make([]int, c.K)
		for j := 0; j < c.K; j++ {
			m := aperm(c.K, sb[0], sb[1], j)
			table = append(table, c.seg(m, total, q+1))
			pos[q][m] = q*c.K + j + 1
		}
	}
	dflt = make([][][]int, len(table))
	last := c.Rounds[total-1]
	for j := 0; j < c.K; j++ {
		m := aperm(c.K, last[0], last[1], j)
		cb := make([]int, total)
		for q := range cb {
			cb[q] = pos[q][m]
		}
		dflt[(total-1)*c.K+j] = [][]int{cb}
	}
	return
}

func c10Open(r *Run) {
	type spec struct {
		k, total, variant, form int
		model                   bool
	}
	specs := []spec{{5, 2, 0, 1, true}, {8, 3, 1, 0, true}, {9, 2, 2, 1, true}, {64, 2, 0, 0, true}, {65, 3, 1, 1, true}, {200, 2, 2, 0, true},
		{512, 2, int(r.Seed) % 3, 1, true}, {1000, 2, 0, 1, !r.Quick}, {1025, 2, 1, 1, !r.Quick}, {1025, 2, 2, 1, !r.Quick}, {4097, 2, 0, 1, false}, {5000, 2, 1, 1, false}, {5000, 3, 0, 1, false}}
	if !r.Quick {
		specs = append(specs, spec{2500, 2, 0, 1, true}, spec{3000, 2, 1, 1, true}, spec{20000, 2, 0, 1, false}, spec{60000, 2, 0, 1, false}, spec{256, 2, 0, 0, true})
	}
	for _, sp := range specs {
		c := openCase{Form: sp.form, Variant: sp.variant, Lo: r.Rng.Pick([]int{0, 100, 255, 0xD7F0, 60000}), K: sp.k}
		if sp.form == 0 && sp.variant == 0 {
			c.Lo = r.Rng.Intn(256 - sp.k%256)
			if sp.k > 256 {
				continue
			}
		}
		if sp.variant == 0 && c.Lo+sp.k > 0x10000 {
			c.Lo = 0x10000 - sp.k
		}
		c.Rounds = append(c.Rounds, [2]int{1, 0}) // every first segment, in order
		for q := 1; q < sp.total; q++ {
			s := 1
			if r.Rng.Bool() {
				s = sp.k - 1
			}
			c.Rounds = append(c.Rounds, [2]int{s, r.Rng.Intn(sp.k)})
		}
		table, dflt := c.build()
		hist := seqInts(0, len(table))
		obs := runCombine(table, hist)
		in := fmt.Sprintf("open form=%d variant=%d lo=%d K=%d rounds=%v", c.Form, c.Variant, c.Lo, c.K, c.Rounds)
		r.Count(in, true, fmt.Sprintf("messages open at once=%s", bucketK(sp.k)))
		ok := judgeBig(r, table, hist, obs, in)
		if sp.model && obs.PanicAt < 0 {
			rounds := make([]string, len(c.Rounds))
			for i, sb := range c.Rounds {
				rounds[i] = fmt.Sprintf("(%d, %d)", sb[0], sb[1])
			}
			exc := sparseAgainst(obs.Trace, dflt)
			if !ok && len(exc) > 4000 {
				exc = "[]" // the direct failure stands; keep the case small
			}
			r.Case(in, fmt.Sprintf("chk_open %d %s %s %d %d %d%%nat %s %s", c.Form, coqAddr(longSrc), coqAddr(longDst), c.Variant, c.Lo, c.K, coqList(rounds), exc))
		}
		// the same K messages with the later segments in a random order (oracle only)
		if sp.k <= 5000 {
			h2 := seqInts(0, len(table))
			tail := h2[sp.k:]
			for i := len(tail) - 1; i > 0; i-- {
				j := r.Rng.Intn(i + 1)
				tail[i], tail[j] = tail[j], tail[i]
			}
			o2 := runCombine(table, h2)
			r.Count(in+"/shuffled", true, fmt.Sprintf("messages open at once=%s", bucketK(sp.k)))
			judgeBig(r, table, h2, o2, in+" (later segments shuffled)")
		}
	}
	r.Sample(map[string]interface{}{"op": "combine", "what": "many messages open at once", "shape": "the first segments of K messages with pairwise different keys (K up to 5000), then the other segments round by round in other orders",
		"required": "no callback before a message's last segment, then that message alone and complete"})
}

// ---------------------------------------------------------------- reference classes
func c10RefClasses(r *Run) {
	src, dst := longSrc, longDst
	refs := refClasses()
	// every class open at once, 16-bit form, two parts each: model case + oracle
	for rep := 0; rep < r.N(3, 12); rep++ {
		var table []segVal
		for _, ref := range refs {
			table = append(table, seg16(src, dst, ref, 2, 1))
		}
		for _, ref := range refs {
			table = append(table, seg16(src, dst, ref, 2, 2))
		}
		n := len(refs)
		first, second := r.Rng.perm(n), r.Rng.perm(n)
		var hist []int
		switch rep % 3 {
		case 0: // all first segments, then all second segments
			for _, i := range first {
				hist = append(hist, i)
			}
			for _, i := range second {
				hist = append(hist, n+i)
			}
		case 1: // second segments first
			for _, i := range second {
				hist = append(hist, n+i)
			}
			for _, i := range first {
				hist = append(hist, i)
			}
		default:
			hist = r.Rng.perm(2 * n)
		}
		obs := c10One(r, table, "refclasses", hist, "reference classes open at once", nil, false)
		if len(hist) > 40 { // chk_history carries the reference/set-spec part for histories up to 90 arrivals over 60 entries
			referenceCases(r, table, hist, obs)
		}
	}
	// pairs of classes, in the four-arrival history that mixes them if their keys collide
	var table []segVal
	for _, ref := range refs {
		table = append(table, seg16(src, dst, ref, 2, 1), seg16(src, dst, ref, 2, 2))
	}
	for i := range refs {
		for j := range refs {
			if i == j {
				continue
			}
			h := []int{2 * i, 2 * j, 2*i + 1, 2*j + 1}
			c10One(r, table, "refpairs", h, "pairs of reference classes", nil, false)
		}
	}
	// ALL 65,536 references open at once between one address pair (and all 256 of the 8-bit form between another)
	{
		big := make([]segVal, 0, 2*65536)
		for ref := 0; ref < 65536; ref++ {
			big = append(big, seg16(src, dst, ref, 2, 1))
		}
		for ref := 0; ref < 65536; ref++ {
			big = append(big, seg16(src, dst, ref, 2, 2))
		}
		hist := make([]int, 0, 2*65536)
		step := []int{1, 3, 7, 0xFFFF, 0x8001, 0x101}[int(r.Seed)%6] // odd: a permutation of 0..65535
		off := r.Rng.Intn(65536)
		for j := 0; j < 65536; j++ {
			hist = append(hist, (j*step+off)&0xFFFF)
		}
		for j := 0; j < 65536; j++ {
			hist = append(hist, 65536+((j*7+off*3)&0xFFFF))
		}
		obs := runCombine(big, hist)
		in := "all 65536 16-bit references open at once"
		r.Count(in, true, "messages open at once=8192+")
		judgeBig(r, big, hist, obs, in)
	}
	{
		d2 := pdu.Address{TON: 1, NPI: 1, No: "13"}
		var small []segVal
		for ref := 0; ref < 256; ref++ {
			small = append(small, segVal{src, d2, ie0(ref, 2, 1)})
		}
		for ref := 0; ref < 256; ref++ {
			small = append(small, segVal{src, d2, ie0(ref, 2, 2)})
		}
		hist := append(r.Rng.perm(256), r.Rng.perm(256)...)
		for j := 256; j < 512; j++ {
			hist[j] += 256
		}
		obs := runCombine(small, hist)
		r.Count("all 256 8-bit references open at once", true, "messages open at once=256-4095")
		judgeBig(r, small, hist, obs, "all 256 8-bit references open at once")
	}
	r.Sample(map[string]interface{}{"op": "combine", "what": "reference classes", "classes": strings.ReplaceAll(fmt.Sprintf("%x", refs), " ", ","),
		"required": "two messages that differ in the reference only are never delivered together"})
}

// ---------------------------------------------------------------- two instances
func c10TwoInstances(r *Run) {
	sets := keySets()
	for rep := 0; rep < r.N(40, 400) && !stallsExhausted(); rep++ {
		ks := sets["equal-ref-different-dst"]
		if rep%2 == 1 {
			ks = sets["ref-8bit-vs-16bit"]
		}
		var table []segVal
		for mi := 0; mi < 2; mi++ {
			for q := 1; q <= 2; q++ {
				table = append(table, ks[mi].seg(2, q))
			}
		}
		hA, hB := r.Rng.perm(4), r.Rng.perm(4)
		// A and B are fed alternately; each must behave as if it were alone
		var obsA, obsB combineObs
		{
			psA, psB := make([]*pdu.DeliverSM, 4), make([]*pdu.DeliverSM, 4)
			idsA, idsB := map[*pdu.DeliverSM]int{}, map[*pdu.DeliverSM]int{}
			var curA, curB [][]int
			mk := func(ids map[*pdu.DeliverSM]int, cur *[][]int) func([]*pdu.DeliverSM) {
				return func(parts []*pdu.DeliverSM) {
					l := make([]int, len(parts))
					for i, p := range parts {
						if p == nil {
							l[i] = 0
						} else if id, ok := ids[p]; ok {
							l[i] = id
						} else {
							l[i] = -1
						}
					}
					*cur = append(*cur, l)
				}
			}
			addA, addB := pdu.CombineMultipartDeliverSM(mk(idsA, &curA)), pdu.CombineMultipartDeliverSM(mk(idsB, &curB))
			obsA.PanicAt, obsB.PanicAt = -1, -1
			for j := 0; j < 4 && obsA.PanicAt < 0 && obsB.PanicAt < 0; j++ {
				psA[j], psB[j] = table[hA[j]].build(), table[hB[j]].build()
				idsA[psA[j]], idsB[psB[j]] = j+1, j+1
				curA, curB = nil, nil
				if hung, pk, msg := callWatch(func() { addA(psA[j]) }); pk || hung {
					obsA.PanicAt, obsA.PanicMsg, obsA.Hung = j, msg, hung
				}
				if hung, pk, msg := callWatch(func() { addB(psB[j]) }); pk || hung {
					obsB.PanicAt, obsB.PanicMsg, obsB.Hung = j, msg, hung
				}
				obsA.Trace, obsB.Trace = append(obsA.Trace, curA), append(obsB.Trace, curB)
			}
		}
		for _, x := range []struct {
			h   []int
			obs combineObs
		}{{hA, obsA}, {hB, obsB}} {
			r.Count(fmt.Sprintf("two/%d/%v/%v", rep, hA, hB), true, "two combiner instances fed alternately")
			if class, what, observed, required := judge(table, x.h, x.obs); class != "" {
				r.Fail("two-instances/"+strings.TrimPrefix(class, "combine/"), what+" (two combiners created by two calls of CombineMultipartDeliverSM, fed alternately; this is the history one of them saw)",
					histInput(table, x.h), observed, required)
			}
		}
	}
}

// spreadHeavy moves the model cases that take seconds to evaluate (long generated histories, the 65,536-pair
// grids) to evenly spaced positions of the case list: the driver cuts the list into shards of consecutive
// cases evaluated in parallel, and several heavy cases in one shard make that shard the critical path.
func spreadHeavy(r *Run, heavy func(expr string) bool) {
	var hd, he, ld, le []string
	for i, e := range r.caseExprs {
		if heavy(e) {
			hd, he = append(hd, r.caseDescs[i]), append(he, e)
		} else {
			ld, le = append(ld, r.caseDescs[i]), append(le, e)
		}
	}
	if len(he) == 0 || len(le) == 0 {
		return
	}
	step := len(le) / len(he)
	if step < 1 {
		step = 1
	}
	var od, oe []string
	k := 0
	for i := range le {
		if i%step == 0 && k < len(he) {
			od, oe = append(od, hd[k]), append(oe, he[k])
			k++
		}
		od, oe = append(od, ld[i]), append(oe, le[i])
	}
	for ; k < len(he); k++ {
		od, oe = append(od, hd[k]), append(oe, he[k])
	}
	r.caseDescs, r.caseExprs = od, oe
}
