package main

import (
	"errors"
	"fmt"
	"io"
	"reflect"
	"strings"

	"github.com/M2MGateway/go-smpp/pdu"
)

// readObs is the projected observation of one pdu.ReadPDU call.
type readObs struct {
	Kind     string      // ok | decode-err | unknown-id | bad-len | eof | truncated | panic
	PDU      interface{} // non-nil for ok and decode-err
	Consumed int
	Err      error
	Msg      string
}

// term renders the observation as a Gallina [rp_obs * N] (Model/PduRun.v).
func (o readObs) term() string {
	var t string
	switch o.Kind {
	case "ok":
		id := uint32(reflect.ValueOf(o.PDU).Elem().Field(0).Interface().(pdu.Header).CommandID)
		t = fmt.Sprintf("OOk %d %s", id, coqValue(o.PDU))
	case "decode-err":
		h := reflect.ValueOf(o.PDU).Elem().Field(0).Interface().(pdu.Header)
		t = fmt.Sprintf("ODecodeErr %d %s", uint32(h.CommandID), coqZ(int64(h.Sequence)))
	case "unknown-id":
		t = "OUnknownId"
	case "bad-len":
		t = "OBadLen"
	case "eof":
		t = "OEOF"
	case "truncated":
		t = "OTruncated"
	default:
		t = "OPanic"
	}
	return fmt.Sprintf("(%s, %d)", t, o.Consumed)
}

// readOnce calls pdu.ReadPDU on the reader and classifies the outcome; the
// octets taken from the transport are measured on the chunkReader.
func readOnce(c *chunkReader) (o readObs) {
	start := c.pos
	var p interface{}
	var err error
	var panicked bool
	var msg string
	if stallsExhausted() {
		return readObs{Kind: "truncated", Err: fmt.Errorf("not called: calls did not return %d times in this run", maxStalls)}
	}
	if hung, pk, m := callWatch(func() { p, err = pdu.ReadPDU(c) }); hung {
		return readObs{Kind: "panic", Msg: neverReturns + m, Consumed: 0}
	} else {
		panicked, msg = pk, m
	}
	o.Consumed = c.pos - start
	o.Err = err
	switch {
	case panicked:
		o.Kind, o.Msg = "panic", msg
	case err == nil && p != nil:
		o.Kind, o.PDU = "ok", p
	case err == nil && p == nil:
		o.Kind, o.Msg = "neither", "nil PDU and nil error"
	case p != nil && !isNilPtr(p):
		o.Kind, o.PDU = "decode-err", p
	case errors.Is(err, pdu.ErrInvalidCommandID):
		o.Kind = "unknown-id"
	case errors.Is(err, pdu.ErrInvalidCommandLength):
		o.Kind = "bad-len"
	case err == io.EOF:
		o.Kind = "eof"
	default:
		o.Kind = "truncated"
	}
	return
}

func isNilPtr(p interface{}) bool {
	v := reflect.ValueOf(p)
	return v.Kind() == reflect.Ptr && v.IsNil()
}

// readAll runs successive ReadPDU calls until EOF / truncation / panic (at most max calls).
func readAll(data []byte, sched []int, max int) []readObs {
	return readAllAttr(data, sched, max, false, 0)
}

// readAllAttr: the same over a transport that returns the last octets together with io.EOF and / or returns 0, nil now and then.
func readAllAttr(data []byte, sched []int, max int, eofWithData bool, zeroEvery int) []readObs {
	c := &chunkReader{data: data, sched: sched, eofWithData: eofWithData, zeroEvery: zeroEvery}
	var out []readObs
	for i := 0; i < max; i++ {
		o := readOnce(c)
		out = append(out, o)
		if o.Kind == "eof" || o.Kind == "truncated" || o.Kind == "panic" || o.Kind == "neither" {
			break
		}
	}
	return out
}

func obsListTerm(os []readObs) string {
	items := make([]string, len(os))
	for i, o := range os {
		items[i] = o.term()
	}
	return coqList(items)
}

func schedTerm(s []int) string {
	items := make([]string, len(s))
	for i, x := range s {
		items[i] = fmt.Sprintf("%d%%nat", x)
	}
	return coqList(items)
}

func schedString(s []int) string {
	if len(s) > 40 {
		return fmt.Sprint(s[:40]) + fmt.Sprintf("…(%d)", len(s))
	}
	return fmt.Sprint(s)
}

// uniform schedule: chunks of k octets
func uniformSched(total, k int) []int {
	var s []int
	for n := 0; n < total; n += k {
		s = append(s, k)
	}
	return s
}

func randomSched(r *Rng, total int) []int {
	var s []int
	for n := 0; n < total; {
		var k int
		switch r.Intn(6) {
		case 0:
			k = 1
		case 1:
			k = 1 + r.Intn(4)
		case 2:
			k = 1 + r.Intn(16)
		case 3:
			k = 16
		case 4:
			k = 1 + r.Intn(300)
		default:
			k = 1 + r.Intn(5000)
		}
		s = append(s, k)
		n += k
	}
	return s
}

// a valid frame of a random registered type, in the representable domain
func genFrame(r *Rng, ts []pduType) (frame []byte, p interface{}, t pduType) {
	for {
		t = ts[r.Intn(len(ts))]
		p = genPDU(r, t, modeDomain)
		// fields neither codec walk puts on the wire (finding D5, reported under C01) stay zero here
		pv := reflect.ValueOf(p).Elem()
		for i := 0; i < pv.NumField(); i++ {
			if classify(pv.Type().Field(i).Type) == "FSkipped" {
				pv.Field(i).Set(reflect.Zero(pv.Field(i).Type()))
			}
		}
		if r.Intn(8) == 0 {
			// header-only error response
			h := reflect.ValueOf(p).Elem().Field(0).Addr().Interface().(*pdu.Header)
			h.CommandStatus = pdu.CommandStatus(1 + r.Intn(255))
		}
		_, err, w, panicked, _ := marshalRec(p)
		if err == nil && !panicked && len(w.calls) == 1 && len(w.calls[0]) <= 65536 {
			return w.calls[0], p, t
		}
	}
}

func shortHex(b []byte) string {
	const max = 96
	s := fmt.Sprintf("%x", b)
	if len(s) > 2*max {
		return s[:2*max] + fmt.Sprintf("…(%d octets)", len(b))
	}
	return s
}

func kinds(os []readObs) string {
	ks := make([]string, len(os))
	for i, o := range os {
		ks[i] = fmt.Sprintf("%s/%d", o.Kind, o.Consumed)
	}
	return strings.Join(ks, ",")
}
