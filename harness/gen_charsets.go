package main

import (
	"fmt"
	"os"
	"path/filepath"
	"strings"
	"sync"
	"unicode/utf8"

	"github.com/M2MGateway/go-smpp/coding"
	"golang.org/x/text/encoding"
)

func init() { genTable["charsets"] = genCharsets }

// The nine text codings of package coding other than GSM 7-bit, by data_coding value.
type csInfo struct {
	dc   coding.DataCoding
	name string // Gallina suffix
	kind int    // 0 single octet, 1 multi octet (lead octet determines length), 2 UTF-16, 3 ISO-2022-JP
}

var charsetList = []csInfo{
	{coding.ASCIICoding, "ascii", 0},
	{coding.Latin1Coding, "latin1", 0},
	{coding.ShiftJISCoding, "sjis", 1},
	{coding.CyrillicCoding, "cyrillic", 0},
	{coding.HebrewCoding, "hebrew", 0},
	{coding.UCS2Coding, "ucs2", 2},
	{coding.ISO2022JPCoding, "iso2022jp", 3},
	{coding.EUCJPCoding, "eucjp", 1},
	{coding.EUCKRCoding, "euckr", 1},
}

// encRun: every rune r in [lo,hi] is accepted and its octets are the nbytes-octet
// big-endian representation of v + (r - lo).  Runs are maximal.
type encRun struct {
	lo, hi rune
	n      int
	v      uint64
}

func beValue(b []byte) (uint64, bool) {
	if len(b) == 0 || len(b) > 8 {
		return 0, false
	}
	var v uint64
	for _, x := range b {
		v = v<<8 | uint64(x)
	}
	return v, true
}

func isScalar(r rune) bool { return r >= 0 && r <= 0x10FFFF && !(r >= 0xD800 && r < 0xE000) }

// sweepRunes calls f for every Unicode scalar value in increasing order.
func sweepRunes(f func(r rune)) {
	for r := rune(0); r <= 0x10FFFF; r++ {
		if r == 0xD800 {
			r = 0xE000
		}
		perturbEvery(r)
		f(r)
	}
}

// runBuilder folds (rune, octets) observations into maximal affine runs.
type runBuilder struct {
	runs []encRun
	open bool
}

func (rb *runBuilder) add(r rune, b []byte) {
	v, ok := beValue(b)
	if !ok {
		fmt.Fprintf(os.Stderr, "gen: U+%04X encodes to %d octets; the run format holds 1..8\n", r, len(b))
		os.Exit(2)
	}
	if rb.open {
		c := &rb.runs[len(rb.runs)-1]
		if r == c.hi+1 && len(b) == c.n && v == c.v+uint64(r-c.lo) {
			c.hi = r
			return
		}
	}
	rb.runs = append(rb.runs, encRun{r, r, len(b), v})
	rb.open = true
}
func (rb *runBuilder) reject() { rb.open = false }

// encodeOne returns the octets the encoder of c produces for the one-rune text r.
func encodeOne(enc *encoding.Encoder, r rune) ([]byte, bool) {
	var buf [4]byte
	n := utf8.EncodeRune(buf[:], r)
	b, err := enc.Bytes(buf[:n])
	if err != nil {
		return nil, false
	}
	return b, true
}

func decodeRunes(dec *encoding.Decoder, b []byte) ([]rune, bool) {
	d, err := dec.Bytes(b)
	if err != nil {
		return nil, false
	}
	return []rune(string(d)), true
}

func sweepEncoder(c coding.DataCoding) (runs []encRun, rtBad []rune, accepted int) {
	enc := c.Encoding().NewEncoder()
	dec := c.Encoding().NewDecoder()
	var rb runBuilder
	sweepRunes(func(r rune) {
		b, ok := encodeOne(enc, r)
		if ok && (len(b) == 0 || len(b) > 8) {
			// outside the run format (1..8 octets): listed as not surviving, which the theorems require to be empty
			if len(rtBad) < 64 {
				rtBad = append(rtBad, r)
			}
			ok = false
		}
		if !ok {
			rb.reject()
			return
		}
		accepted++
		rb.add(r, b)
		// single-character decode result observed directly on the running code
		d, ok := decodeRunes(dec, b)
		if (!ok || len(d) != 1 || d[0] != r) && len(rtBad) < 64 {
			rtBad = append(rtBad, r)
		}
	})
	return rb.runs, rtBad, accepted
}

func emitRuns(w *CoqWriter, name string, runs []encRun) {
	w.P("Definition %s : list (N * N * N * N) := [", name)
	for i, r := range runs {
		w.P(" (%d, %d, %d, %d)%s", r.lo, r.hi, r.n, r.v, sep(i, len(runs)))
	}
	w.P("].")
}

// decOne: sequence decodes to exactly one rune that is not U+FFFD.
func decOne(dec *encoding.Decoder, seq []byte) (rune, bool) {
	d, ok := decodeRunes(dec, seq)
	if !ok || len(d) != 1 || d[0] == utf8.RuneError {
		return 0, false
	}
	return d[0], true
}

// sweepDecoderMB tabulates the decoder of a multi-octet coding on every octet
// sequence of length 1 and 2, and of length 3 behind the lead octets given in
// lead3 (those the encoder emits 3-octet codes for).  A code is listed when it
// decodes to exactly one rune other than U+FFFD and no proper prefix is itself
// a code.  Returns runs keyed by (length, big-endian value) and the set of code
// lengths seen behind each lead octet.
func sweepDecoderMB(c coding.DataCoding, lead3 map[byte]bool) (runs []encRun, leadLens [256][]int) {
	dec := c.Encoding().NewDecoder()
	var rb1, rb2, rb3 runBuilder
	addLen := func(b byte, n int) {
		for _, x := range leadLens[b] {
			if x == n {
				return
			}
		}
		leadLens[b] = append(leadLens[b], n)
	}
	// the roles of rune and code are swapped in the run format: "lo..hi" are code
	// values, v is the rune at lo
	one := [256]bool{}
	for b := 0; b < 256; b++ {
		if r, ok := decOne(dec, []byte{byte(b)}); ok {
			one[b] = true
			rb1.add(rune(b), runeBytes(r))
			addLen(byte(b), 1)
		} else {
			rb1.reject()
		}
	}
	two := map[int]bool{}
	for b := 0; b < 256; b++ {
		if one[b] {
			continue
		}
		for b2 := 0; b2 < 256; b2++ {
			if r, ok := decOne(dec, []byte{byte(b), byte(b2)}); ok {
				two[b<<8|b2] = true
				rb2.add(rune(b<<8|b2), runeBytes(r))
				addLen(byte(b), 2)
			} else {
				rb2.reject()
			}
		}
	}
	for b := 0; b < 256; b++ {
		if one[b] || !lead3[byte(b)] {
			continue
		}
		for b2 := 0; b2 < 256; b2++ {
			if two[b<<8|b2] {
				continue
			}
			for b3 := 0; b3 < 256; b3++ {
				if r, ok := decOne(dec, []byte{byte(b), byte(b2), byte(b3)}); ok {
					rb3.add(rune(b<<16|b2<<8|b3), runeBytes(r))
					addLen(byte(b), 3)
				} else {
					rb3.reject()
				}
			}
		}
	}
	fix := func(rs []encRun, n int) {
		for _, r := range rs {
			runs = append(runs, encRun{r.lo, r.hi, n, r.v})
		}
	}
	fix(rb1.runs, 1)
	fix(rb2.runs, 2)
	fix(rb3.runs, 3)
	return
}

// runeBytes represents a rune as 3 octets so that runBuilder can be reused with
// code and rune swapped (value = the rune).
func runeBytes(r rune) []byte { return []byte{byte(r >> 16), byte(r >> 8), byte(r)} }

// ISO-2022-JP: the one-rune output is  [ESC seq] payload [ESC ( B].  The dumper
// splits it and checks that the parts recompose to exactly what the encoder
// returned, so a parsing mistake here is a tool error, not a silent table.
const (
	jpASCII = 0
	jpKana  = 1
	jpJIS   = 2
)

type jpRun struct {
	lo, hi rune
	mode   int
	n      int
	v      uint64
}

func jpEsc(mode int) []byte {
	switch mode {
	case jpKana:
		return []byte{0x1b, '(', 'I'}
	case jpJIS:
		return []byte{0x1b, '$', 'B'}
	}
	return nil
}

func splitJP(b []byte) (mode int, payload []byte, ok bool) {
	if len(b) >= 1 && b[0] != 0x1b {
		return jpASCII, b, len(b) == 1
	}
	if len(b) < 7 {
		return 0, nil, false
	}
	switch {
	case b[1] == '$' && b[2] == 'B':
		mode = jpJIS
	case b[1] == '(' && b[2] == 'I':
		mode = jpKana
	default:
		return 0, nil, false
	}
	tail := b[len(b)-3:]
	if tail[0] != 0x1b || tail[1] != '(' || tail[2] != 'B' {
		return 0, nil, false
	}
	payload = b[3 : len(b)-3]
	re := append(append(append([]byte{}, jpEsc(mode)...), payload...), 0x1b, '(', 'B')
	return mode, payload, string(re) == string(b)
}

func sweepJP() (runs []jpRun, unparsed []rune) {
	enc := coding.ISO2022JPCoding.Encoding().NewEncoder()
	open := false
	sweepRunes(func(r rune) {
		b, ok := encodeOne(enc, r)
		if !ok {
			open = false
			return
		}
		var mode int
		var payload []byte
		if r == 0x1b {
			// ESC itself is written raw in ASCII state (RFC 1468 reserves it; texts containing it are out of scope)
			mode, payload, ok = jpASCII, b, len(b) == 1
		} else {
			mode, payload, ok = splitJP(b)
		}
		if !ok || len(payload) == 0 || len(payload) > 8 {
			// not of the form [ESC seq] payload [ESC ( B]: listed, and the theorems require the list to be empty
			if len(unparsed) < 64 {
				unparsed = append(unparsed, r)
			}
			open = false
			return
		}
		v, _ := beValue(payload)
		if open {
			c := &runs[len(runs)-1]
			if r == c.hi+1 && mode == c.mode && len(payload) == c.n && v == c.v+uint64(r-c.lo) {
				c.hi = r
				return
			}
		}
		runs = append(runs, jpRun{r, r, mode, len(payload), v})
		open = true
	})
	return
}

// jpDecodeTable tabulates the running decoder behind each escape sequence the
// encoder uses: code (1 octet for ASCII / katakana, 2 octets for JIS X 0208) -> rune.
func jpDecodeTable(mode int) (runs []encRun) {
	dec := coding.ISO2022JPCoding.Encoding().NewDecoder()
	var rb runBuilder
	esc := jpEsc(mode)
	try := func(code int, seq ...byte) {
		in := append(append([]byte{}, esc...), seq...)
		if r, ok := decOne(dec, in); ok {
			rb.add(rune(code), runeBytes(r))
		} else {
			rb.reject()
		}
	}
	if mode == jpJIS {
		// the 94x94 code space of JIS X 0208: both octets in 0x21..0x7E (the running decoder does not
		// range-check them and aliases other octet pairs onto the same table; those are not codes)
		for b := 0x21; b <= 0x7e; b++ {
			for b2 := 0x21; b2 <= 0x7e; b2++ {
				try(b<<8|b2, byte(b), byte(b2))
			}
			rb.reject()
		}
	} else {
		for b := 0; b < 256; b++ {
			if b == 0x1b {
				rb.reject()
				continue
			}
			try(b, byte(b))
		}
	}
	n := 1
	if mode == jpJIS {
		n = 2
	}
	for _, r := range rb.runs {
		runs = append(runs, encRun{r.lo, r.hi, n, r.v})
	}
	return
}

// Big tables go to sibling files of the main output (Gen/Cs<Name>.v) so that
// coqc compiles them in parallel; the main file re-exports them.
type subFiles struct {
	names []string
	ws    map[string]*CoqWriter
}

func (s *subFiles) get(name string) *CoqWriter {
	if w, ok := s.ws[name]; ok {
		return w
	}
	if s.ws == nil {
		s.ws = map[string]*CoqWriter{}
	}
	w := NewCoqWriter()
	w.P("(* GENERATED by `harness gen` from the running code; part of the table file that re-exports it. Do not edit. *)")
	w.P("From V Require Import Model.Base.")
	w.P("Open Scope N_scope.")
	s.ws[name] = w
	s.names = append(s.names, name)
	return w
}

func (s *subFiles) flush(main *CoqWriter) {
	dir := "."
	if len(os.Args) > 3 {
		dir = filepath.Dir(os.Args[3])
	}
	for _, n := range s.names {
		if err := s.ws[n].WriteIfChanged(filepath.Join(dir, n+".v")); err != nil {
			fmt.Fprintln(os.Stderr, err)
			os.Exit(2)
		}
		main.P("From V Require Export Gen.%s.", n)
	}
}

func genCharsets(w *CoqWriter) {
	perturbCodecs()
	var subs subFiles
	w.P("(* GENERATED by `harness gen charsets` from the running code (package coding + golang.org/x/text as")
	w.P("   linked into the harness).  Do not edit.  Every Unicode scalar value (1,112,064 of them) went through")
	w.P("   each encoder as a one-character text.")
	w.P("   enc_runs_<c> : (lo, hi, nbytes, v)  every rune r in lo..hi is accepted and its octets are the nbytes-octet")
	w.P("                  big-endian form of v + (r - lo); runes in no run are rejected with an error; runs are maximal.")
	w.P("   rt_bad_<c>   : runes r (first 64) whose octets the running decoder does not turn back into exactly r.")
	w.P("   dec_sb_<c>   : 256 rows, octet b -> rune the decoder returns for the one-octet input [b] (65533 = U+FFFD).")
	w.P("   dec_runs_<c> : (lo, hi, nbytes, r)  the nbytes-octet code with big-endian value k in lo..hi decodes to the single")
	w.P("                  rune r + (k - lo), not U+FFFD; every 1- and 2-octet sequence was tried, 3-octet ones behind the")
	w.P("                  lead octets the encoder uses for 3-octet codes.")
	w.P("   lead_lens_<c>: 256 rows, lead octet -> lengths of the codes that start with it (the decoder sweep). *)")
	w.P("From V Require Import Model.Base.")
	w.P("Open Scope N_scope.")

	type result struct {
		runs     []encRun
		rtBad    []rune
		accepted int
		dec      []encRun
		leads    [256][]int
		sb       [256]rune
	}
	res := make([]result, len(charsetList))
	var wg sync.WaitGroup
	for i, cs := range charsetList {
		if cs.kind == 3 {
			continue
		}
		wg.Add(1)
		go func(i int, cs csInfo) {
			defer wg.Done()
			r := &res[i]
			r.runs, r.rtBad, r.accepted = sweepEncoder(cs.dc)
			switch cs.kind {
			case 0:
				dec := cs.dc.Encoding().NewDecoder()
				for b := 0; b < 256; b++ {
					d, ok := decodeRunes(dec, []byte{byte(b)})
					if !ok || len(d) != 1 {
						r.sb[b] = utf8.RuneError
					} else {
						r.sb[b] = d[0]
					}
				}
			case 1:
				lead3 := map[byte]bool{}
				for _, x := range r.runs {
					if x.n == 3 {
						lead3[byte(x.v>>16)] = true
						lead3[byte((x.v+uint64(x.hi-x.lo))>>16)] = true
					}
				}
				r.dec, r.leads = sweepDecoderMB(cs.dc, lead3)
			}
		}(i, cs)
	}
	var jp []jpRun
	var jpUnparsed []rune
	var jpDec [3][]encRun
	var jpBad []rune
	jpAccepted := 0
	wg.Add(1)
	go func() {
		defer wg.Done()
		jp, jpUnparsed = sweepJP()
		for m := 0; m < 3; m++ {
			jpDec[m] = jpDecodeTable(m)
		}
		_, jpBad, jpAccepted = sweepEncoder(coding.ISO2022JPCoding)
	}()
	wg.Wait()

	for i, cs := range charsetList {
		if cs.kind == 3 {
			continue
		}
		r := &res[i]
		w.P("(* data_coding %d: %d scalar values accepted, %d runs *)", byte(cs.dc), r.accepted, len(r.runs))
		ew := w
		if len(r.runs) > 2000 {
			ew = subs.get("Cs" + strings.Title(cs.name) + "Enc")
		}
		emitRuns(ew, "enc_runs_"+cs.name, r.runs)
		w.P("Definition rt_bad_%s : list N := %s.", cs.name, coqRunes(r.rtBad))
		switch cs.kind {
		case 0:
			w.P("Definition dec_sb_%s : list N := %s.", cs.name, coqRunes(r.sb[:]))
		case 1:
			emitRuns(subs.get("Cs"+strings.Title(cs.name)+"Dec"), "dec_runs_"+cs.name, r.dec)
			w.P("Definition lead_lens_%s : list (list N) := [", cs.name)
			for b := 0; b < 256; b++ {
				xs := make([]uint64, len(r.leads[b]))
				for k, x := range r.leads[b] {
					xs[k] = uint64(x)
				}
				w.P(" %s%s", coqNList(xs), sep(b, 256))
			}
			w.P("].")
		}
	}
	w.P("(* data_coding 10 (ISO-2022-JP): %d scalar values accepted.  (lo, hi, mode, nbytes, v): the one-rune output is", jpAccepted)
	w.P("   esc(mode) ++ payload ++ (ESC ( B unless mode = 0), payload = nbytes-octet big-endian v + (r - lo);")
	w.P("   mode 0 ASCII (no escape), 1 JIS X 0201 katakana (ESC ( I), 2 JIS X 0208 (ESC $ B).  The dumper re-composed")
	w.P("   every output from these parts and compared it with what the encoder returned. *)")
	jw := subs.get("CsIso2022jpEnc")
	jw.P("Definition enc_runs_iso2022jp : list (N * N * N * N * N) := [")
	for i, r := range jp {
		jw.P(" (%d, %d, %d, %d, %d)%s", r.lo, r.hi, r.mode, r.n, r.v, sep(i, len(jp)))
	}
	jw.P("].")
	w.P("Definition rt_bad_iso2022jp : list N := %s.", coqRunes(jpBad))
	w.P("(* accepted runes whose output is not of that form (first 64) *)")
	w.P("Definition unparsed_iso2022jp : list N := %s.", coqRunes(jpUnparsed))
	for m, nm := range []string{"ascii", "kana", "jis"} {
		emitRuns(subs.get("CsIso2022jpDec"), "dec_runs_iso2022jp_"+nm, jpDec[m])
	}

	// availability: all 256 data_coding values
	w.P("(* data_coding c -> has encoder, has decoder, has splitter, base coding whose encoder the one Encoding() hands out behaves like")
	w.P("   (smallest of the ten table constants with equal behaviour, see dc_closure; 255 = no encoder, 254 = like none of them) *)")
	w.P("Definition dc_table : list (N * bool * bool * bool * N) := [")
	tab := dcClosure()
	for b := 0; b < 256; b++ {
		d := closureDig[b]
		w.P(" (%d, %s, %s, %s, %d)%s", b, coqBool(d.hasEnc), coqBool(d.hasDec), coqBool(d.hasSpl), tab[b].enc, sep(b, 256))
	}
	w.P("].")
	emitClosure(w)
	subs.flush(w)
}
