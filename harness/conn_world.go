package main

// One run of the real smpp.Conn on a scripted transport, driven as a forced
// schedule and recorded as the event list of coq/Model/ConnLTS.v.
//
// Every library goroutine (Watch, Submit/Send/Close callers, EnquireLink) is
// started here under recover, so a panic anywhere is an observation, not a
// crash.  After every forced event the World waits until every goroutine of
// the process other than the controller is blocked (goroutine dump, no
// timing), takes a snapshot, and appends the event (plus the calls that
// began as a consequence) to the schedule handed to the Coq model.

import (
	"bytes"
	"context"
	"fmt"
	"io"
	"os"
	"reflect"
	"regexp"
	"runtime"
	"sort"
	"strconv"
	"strings"
	"sync"
	"time"

	smpp "github.com/M2MGateway/go-smpp"
	"github.com/M2MGateway/go-smpp/pdu"
)

var (
	quiesceCap = 3 * time.Second // a run that does not come to rest within this is reported
	promptly   = time.Second     // C15: a blocked call must return within this after the event
	relaxed    = false           // third run of a scenario that failed twice / VERIF_RELAXED=1: wall-clock bounds five times as wide
)

// setRelaxed widens every wall-clock bound of the harness (never a bound of the library): used for the
// last re-run of a scenario before a timing-dependent failure is reported.
func setRelaxed(on bool) {
	relaxed = on
	if on {
		quiesceCap, promptly = 15*time.Second, 5*time.Second
	} else {
		quiesceCap, promptly = 3*time.Second, time.Second
	}
}

func init() {
	if os.Getenv("VERIF_RELAXED") == "1" {
		setRelaxed(true)
	}
}

var (
	idOfTypeOnce sync.Once
	idOfTypeMap  map[reflect.Type]uint32
)

func idOfPDU(p interface{}) uint32 {
	idOfTypeOnce.Do(func() {
		idOfTypeMap = map[reflect.Type]uint32{}
		for id, t := range pdu.VerifTypes() {
			idOfTypeMap[t] = uint32(id)
		}
	})
	t := reflect.TypeOf(p)
	if t != nil && t.Kind() == reflect.Ptr {
		t = t.Elem()
	}
	return idOfTypeMap[t]
}

func frameOf(p interface{}) []byte {
	var b bytes.Buffer
	_, _ = pdu.Marshal(&b, p)
	return b.Bytes()
}

// ---------------------------------------------------------------- goroutine states
var goHeader = regexp.MustCompile(`(?m)^goroutine (\d+) \[([^\]]*)\]:`)

func goDump() string {
	buf := make([]byte, 1<<16)
	for {
		n := runtime.Stack(buf, true)
		if n < len(buf) {
			return string(buf[:n])
		}
		buf = make([]byte, 2*len(buf))
	}
}

func curGoid() int64 {
	var buf [64]byte
	n := runtime.Stack(buf[:], false)
	f := strings.Fields(string(buf[:n]))
	if len(f) < 2 {
		return -1
	}
	id, _ := strconv.ParseInt(f[1], 10, 64)
	return id
}

func blockedState(st string) bool {
	if i := strings.IndexByte(st, ','); i >= 0 {
		st = st[:i]
	}
	switch st {
	// "semacquire" is deliberately absent: a goroutine whose allocation starts a GC cycle waits
	// on the world semaphore while this process takes the dump, and is about to run again
	case "chan receive", "chan send", "select", "sync.Cond.Wait", "sync.Mutex.Lock",
		"sync.RWMutex.RLock", "sync.RWMutex.Lock", "chan receive (nil chan)",
		"chan send (nil chan)", "select (no cases)":
		return true
	}
	return false
}

// goStates returns goid -> state for every goroutine but the calling one.
func goStates() map[int64]string {
	self := curGoid()
	out := map[int64]string{}
	for _, m := range goHeader.FindAllStringSubmatch(goDump(), -1) {
		id, _ := strconv.ParseInt(m[1], 10, 64)
		if id != self {
			out[id] = m[2]
		}
	}
	return out
}

// ---------------------------------------------------------------- calls
type CallSpec struct {
	Kind string // "submit" | "send" | "close"
	Seq  int32  // submit/close: what NextSequence returns for it; send: the packet's sequence
	P    interface{}
	// DeadlineFails: the transport refuses SetWriteDeadline during this call (only felt when Conn.WriteTimeout > 0)
	DeadlineFails bool
	// WriteFails: the transport's Write fails during this call, no octet reaches the peer
	WriteFails bool
}

type Call struct {
	ID            int
	G             int
	Kind          string // submit | send | close | ping | kaclose
	Seq           int32
	P             interface{}
	DeadlineFails bool
	WriteFails    bool
	cancelled     bool   // CancelCtx was forced on it
	term          string // Gallina term of what Send obtains before it calls the transport Write
	ctx           context.Context
	stop          context.CancelFunc
	begun         int // begin order, 0 = not begun
	said          bool
	ret           bool
	Resp          interface{}
	Err           error
	Panic         string
	RetAt         time.Time
}

type Delivery struct {
	ID  uint32
	Seq int32
}

type World struct {
	T      *Transport
	C      *smpp.Conn
	Cancel context.CancelFunc // parent context

	mu       sync.Mutex
	calls    []*Call
	nBegun   int
	seqQ     map[int64][]int32 // goroutine id -> sequence numbers NextSequence hands out
	goids    map[int64]string
	app      []Delivery
	appClose bool
	autoApp  bool
	appGate  chan struct{}
	appStop  chan struct{}

	watchGoid  int64
	watchRet   bool
	watchPanic string
	kaGoid     int64
	kaStarted  bool
	kaRet      bool
	kaPanic    string
	kaG        int

	// schedule for the model
	groups   [][]string
	cur      []string
	snaps    []string
	order    []*Call // calls in the order their Start events were emitted
	Stuck    string  // non-empty: the run did not come to rest
	Problems []string
}

func NewWorld(autoApp bool) *World {
	w := &World{T: NewTransport(), appStop: make(chan struct{}), autoApp: autoApp,
		seqQ: map[int64][]int32{}, goids: map[int64]string{}, kaG: 9000}
	w.T.HoldAll = true
	ctx, cancel := context.WithCancel(context.Background())
	w.Cancel = cancel
	w.C = smpp.NewConn(ctx, w.T)
	w.C.ReadTimeout = 0 // deadlines are scripted: the transport delivers the timeout error itself
	w.C.WriteTimeout = 0
	w.C.NextSequence = w.nextSeq
	if !autoApp {
		w.appGate = make(chan struct{}, 4096)
	}
	return w
}

func (w *World) nextSeq() int32 {
	id := curGoid()
	w.mu.Lock()
	defer w.mu.Unlock()
	q := w.seqQ[id]
	if len(q) == 0 {
		w.Problems = append(w.Problems, "NextSequence called with no scripted value")
		return 1 << 30
	}
	w.seqQ[id] = q[1:]
	return q[0]
}

func (w *World) spawn(name string, f func(), after func(panic string)) int64 {
	ready := make(chan int64)
	go func() {
		id := curGoid()
		w.mu.Lock()
		w.goids[id] = name
		w.mu.Unlock()
		ready <- id
		msg := ""
		defer func() {
			if e := recover(); e != nil {
				msg = fmt.Sprint(e)
			}
			w.mu.Lock()
			delete(w.goids, id)
			after(msg)
			w.mu.Unlock()
		}()
		f()
	}()
	return <-ready
}

// ---------------------------------------------------------------- model terms
func kindTerm(k string) string {
	switch k {
	case "submit":
		return "KSubmit"
	case "send":
		return "KSend"
	case "close":
		return "KClose"
	case "ping":
		return "KPing"
	}
	return "KKaClose"
}

func frameTerm(p interface{}, seq int32) string {
	return fmt.Sprintf("(frame_of %d %s %s)", idOfPDU(p), coqZ(int64(seq)), coqValue(p))
}

func (c *Call) resTerm() string {
	switch {
	case !c.ret:
		return "CBlocked"
	case c.Panic != "":
		return "CBlocked" // a panic has no counterpart in the model; it is reported directly
	case c.Err != nil:
		return "(CRet RErr)"
	case c.Kind == "submit" && c.Resp != nil:
		return fmt.Sprintf("(CRet (ROk (%d, %s)))", idOfPDU(c.Resp), coqZ(int64(pdu.ReadSequence(c.Resp))))
	default:
		return "(CRet RSent)"
	}
}

// Class is the projected outcome of a call: "blocked", "panic", "err", "sent", "ok:<id>:<seq>".
func (c *Call) Class() string {
	switch {
	case !c.ret:
		return "blocked"
	case c.Panic != "":
		return "panic"
	case c.Err != nil:
		return "err"
	case c.Kind == "submit" && c.Resp != nil:
		return fmt.Sprintf("ok:%#x:%d", idOfPDU(c.Resp), pdu.ReadSequence(c.Resp))
	}
	return "sent"
}

func (w *World) watchCode() int {
	switch {
	case w.watchPanic != "":
		return 2
	case w.watchRet:
		return 1
	}
	return 0
}

func (w *World) kaCode() int {
	switch {
	case !w.kaStarted:
		return 0
	case w.kaRet:
		return 2
	}
	return 1
}

func (w *World) doneClosed() bool {
	select {
	case <-w.C.Done():
		return true
	default:
		return false
	}
}

// ---------------------------------------------------------------- quiescence
// quiesce waits until every goroutine of the process except the caller is blocked.
func (w *World) quiesce() bool {
	deadline := time.Now().Add(quiesceCap)
	calm := 0
	for i := 0; ; i++ {
		ok := true
		for _, st := range goStates() {
			if !blockedState(st) {
				ok = false
				break
			}
		}
		if ok {
			// two dumps in a row, with a yield in between, must agree
			if calm++; calm >= 2 {
				return true
			}
			runtime.Gosched()
			continue
		}
		calm = 0
		if time.Now().After(deadline) {
			return false
		}
		if i < 20 {
			runtime.Gosched()
		} else {
			time.Sleep(50 * time.Microsecond)
		}
	}
}

// watchSending: Watch is blocked handing a PDU to the application.
func (w *World) watchSending() bool {
	st, ok := goStates()[w.watchGoid]
	if !ok {
		return false
	}
	if i := strings.IndexByte(st, ','); i >= 0 {
		st = st[:i]
	}
	return st == "select" || st == "chan send"
}

// force records a forced event; sync closes the group after the system came to rest.
func (w *World) force(ev string) { w.cur = append(w.cur, ev) }

func (w *World) sync() {
	if w.Stuck != "" {
		return
	}
	if !w.quiesce() {
		w.Stuck = "library goroutines did not come to rest within " + quiesceCap.String() + ":\n" + goDump()
		return
	}
	w.mu.Lock()
	defer w.mu.Unlock()
	// calls that began as a consequence, in begin order
	var fresh []*Call
	for _, c := range w.calls {
		if c.begun > 0 && !c.said {
			fresh = append(fresh, c)
		}
	}
	sort.Slice(fresh, func(i, j int) bool { return fresh[i].begun < fresh[j].begun })
	for _, c := range fresh {
		c.said = true
		w.order = append(w.order, c)
		w.cur = append(w.cur, fmt.Sprintf("Start %d %s %d %s %s", c.ID, kindTerm(c.Kind), c.G, coqZ(int64(c.Seq)), c.term))
	}
	if len(w.cur) == 0 {
		return
	}
	w.groups = append(w.groups, w.cur)
	w.cur = nil
	if len(w.groups)%16 == 1 { // what the child was doing, should it die (cheap: not on every event)
		connProgress(w.Script())
	}
	w.snaps = append(w.snaps, w.snapTerm())
}

func (w *World) snapTerm() string {
	var rets []string
	for _, c := range w.order {
		if c.ret && c.Kind != "ping" && c.Kind != "kaclose" {
			rets = append(rets, fmt.Sprintf("(%d%%nat, %s)", c.ID, c.resTerm()))
		}
	}
	// ... and whose frames have reached the transport so far, in order (the ids [wire_ids] of the model)
	ws := w.T.Writes()
	ids := make([]string, len(ws))
	for i, wr := range ws {
		ids[i] = coqZ(w.wireID(wr))
	}
	return fmt.Sprintf("((%s, %d, %d, %d, %s), %s)", coqList(rets), len(w.app), len(ws), w.watchCode(), coqBool(w.doneClosed()), coqList(ids))
}

// wireID: the caller id of a Write (99999: not attributable), -1-|seq| for a generic_nack of Watch.
func (w *World) wireID(wr *WriteRec) int64 {
	if wr.ByReader && wr.Full && wr.ID == idGenericNack {
		q := int64(wr.Seq)
		if q < 0 {
			q = -q
		}
		return -1 - q
	}
	if c := w.callOfSeq(wr.Seq); c != nil && len(wr.Data) >= 16 {
		return int64(c.ID)
	}
	return 99999
}

// callOfSeq: the call whose frame carries that sequence number (world-unique by construction).
func (w *World) callOfSeq(seq int32) *Call {
	for _, c := range w.calls {
		if c.Seq == seq && c.begun > 0 {
			return c
		}
	}
	return nil
}

func (w *World) obsTerm() string {
	w.mu.Lock()
	defer w.mu.Unlock()
	var calls, app, wire []string
	for _, c := range w.order {
		if c.Kind != "ping" && c.Kind != "kaclose" {
			calls = append(calls, fmt.Sprintf("(%d%%nat, %s)", c.ID, c.resTerm()))
		}
	}
	for _, d := range w.app {
		app = append(app, fmt.Sprintf("(%d, %s)", d.ID, coqZ(int64(d.Seq))))
	}
	for _, wr := range w.T.Writes() {
		switch {
		case wr.ByReader && wr.Full && wr.ID == idGenericNack:
			wire = append(wire, fmt.Sprintf("WNack %s", coqZ(int64(wr.Seq))))
		default:
			id := 99999
			if c := w.callOfSeq(wr.Seq); c != nil && len(wr.Data) >= 16 {
				id = c.ID
			}
			wire = append(wire, fmt.Sprintf("WCall %d %s", id, coqHex(wr.Data)))
		}
	}
	return fmt.Sprintf("(mkObs %s %s %s %d %s %d)", coqList(calls), coqList(app), coqList(wire),
		w.watchCode(), coqBool(w.doneClosed()), w.kaCode())
}

// groupTerm: a forced group as a Gallina list of events; an entry "@@t" stands for the list-valued term t.
func groupTerm(g []string) string {
	var parts []string
	var plain []string
	flush := func() {
		if len(plain) > 0 {
			parts = append(parts, coqList(plain))
			plain = nil
		}
	}
	for _, e := range g {
		if strings.HasPrefix(e, "@@") {
			flush()
			parts = append(parts, e[2:])
		} else {
			plain = append(plain, e)
		}
	}
	flush()
	if len(parts) == 1 {
		return parts[0]
	}
	return "(" + strings.Join(parts, " ++ ") + ")"
}

// CaseExpr is the closed boolean term: the model, driven through the same
// forced events, shows the same snapshots and the same final observation.
func (w *World) CaseExpr(variant string) string {
	gs := make([]string, len(w.groups))
	for i, g := range w.groups {
		gs[i] = groupTerm(g)
	}
	return fmt.Sprintf("sched_admits %s %s %s %s %s", variant, coqBool(w.autoApp), coqList(gs), coqList(w.snaps), w.obsTerm())
}

// EnvExpr: the trace the model takes for this schedule satisfies the hypotheses of C05
// (distinct positive sequence numbers; the peer answers once and only after the frame reached the transport).
func (w *World) EnvExpr(variant string) string {
	gs := make([]string, len(w.groups))
	for i, g := range w.groups {
		gs[i] = groupTerm(g)
	}
	return fmt.Sprintf("sched_env_admits %s %s %s %s %s", variant, coqBool(w.autoApp), coqList(gs), coqList(w.snaps), w.obsTerm())
}

// Script is the human-readable replayable form of the schedule.
func (w *World) Script() string {
	var parts []string
	for _, g := range w.groups {
		parts = append(parts, strings.Join(g, "; "))
	}
	s := strings.Join(parts, " | ")
	if len(s) > 3000 {
		s = s[:3000] + "…"
	}
	return s
}

// ---------------------------------------------------------------- forced events
// StartWatch starts Watch and the PDU() consumer.  Not an event of the model
// (Watch runs from the initial state); the initial settle brings it into its first Read.
func (w *World) StartWatch() {
	w.watchGoid = w.spawn("watch", func() { w.C.Watch() }, func(p string) { w.watchRet = true; w.watchPanic = p })
	w.spawn("app", w.consume, func(string) {})
	if !w.quiesce() {
		w.Stuck = "Watch did not reach its first Read:\n" + goDump()
	}
}

func (w *World) consume() {
	ch := w.C.PDU()
	for {
		if w.appGate != nil {
			select {
			case <-w.appGate:
			case <-w.appStop:
				return
			}
		}
		select {
		case p, ok := <-ch:
			if !ok || p == nil {
				w.mu.Lock()
				w.appClose = true
				w.mu.Unlock()
				return
			}
			d := Delivery{Seq: pdu.ReadSequence(p), ID: idOfPDU(p)}
			w.mu.Lock()
			w.app = append(w.app, d)
			w.mu.Unlock()
		case <-w.appStop:
			return
		}
	}
}

// Go starts goroutine g issuing the given calls one after the other.
func (w *World) Go(g int, specs ...CallSpec) []*Call {
	var cs []*Call
	w.mu.Lock()
	for _, sp := range specs {
		c := &Call{ID: len(w.calls), G: g, Kind: sp.Kind, Seq: sp.Seq, P: sp.P, DeadlineFails: sp.DeadlineFails, WriteFails: sp.WriteFails}
		c.ctx, c.stop = context.WithCancel(context.Background())
		switch sp.Kind {
		case "close":
			c.term = frameTerm(&pdu.Unbind{}, sp.Seq)
		default:
			c.term = frameTerm(sp.P, sp.Seq)
		}
		if sp.DeadlineFails || sp.WriteFails {
			c.term = "(send_prep false " + c.term + ")"
		}
		w.calls = append(w.calls, c)
		cs = append(cs, c)
	}
	w.mu.Unlock()
	w.spawn(fmt.Sprintf("g%d", g), func() {
		id := curGoid()
		for _, c := range cs {
			w.mu.Lock()
			w.nBegun++
			c.begun = w.nBegun
			if c.Kind != "send" {
				w.seqQ[id] = append(w.seqQ[id], c.Seq)
			}
			w.mu.Unlock()
			w.T.FailWriteDeadline(id, c.DeadlineFails)
			w.T.FailWriteFor(id, c.WriteFails)
			w.runCall(c)
		}
	}, func(string) {})
	w.sync()
	return cs
}

func (w *World) runCall(c *Call) {
	defer func() {
		e := recover()
		w.mu.Lock()
		if e != nil {
			c.Panic = fmt.Sprint(e)
		}
		c.ret = true
		c.RetAt = time.Now()
		w.mu.Unlock()
	}()
	switch c.Kind {
	case "submit":
		c.Resp, c.Err = w.C.Submit(c.ctx, c.P.(pdu.Responsable))
	case "send":
		c.Err = w.C.Send(c.P)
	case "close":
		c.Err = w.C.Close()
	}
}

// Release lets the held transport Write of call c return.
func (w *World) Release(c *Call) bool {
	for _, wr := range w.T.Writes() {
		if wr.held && wr.Seq == c.Seq && len(wr.Data) >= 16 {
			w.force(fmt.Sprintf("WriteReturn %d", c.ID))
			w.T.ReleaseWrite(wr.Idx)
			w.sync()
			return true
		}
	}
	return false
}

// ReleaseNoSync lets the held Write of call c return without closing the forced group: used when what
// follows is driven by a timer of the library, so that no snapshot depends on the timer's progress.
func (w *World) ReleaseNoSync(c *Call) bool {
	for _, wr := range w.T.Writes() {
		if wr.held && wr.Seq == c.Seq && len(wr.Data) >= 16 {
			w.force(fmt.Sprintf("WriteReturn %d", c.ID))
			w.T.ReleaseWrite(wr.Idx)
			return true
		}
	}
	return false
}

// Held: call c sits in a transport Write that has not returned.
func (w *World) Held(c *Call) bool {
	for _, wr := range w.T.Writes() {
		if wr.held && wr.Seq == c.Seq && len(wr.Data) >= 16 {
			return true
		}
	}
	return false
}

// Written: the frame of call c has reached the transport (its Write may still be open).
func (w *World) Written(c *Call) bool {
	for _, wr := range w.T.Writes() {
		if wr.Seq == c.Seq && len(wr.Data) >= 16 {
			return true
		}
	}
	return false
}

func natList(xs []int) string {
	s := make([]string, len(xs))
	for i, x := range xs {
		s[i] = fmt.Sprintf("%d%%nat", x)
	}
	return coqList(s)
}

// Peer makes the given frames readable at once (one forced group).  cuts[i]
// are the piece sizes of frame i (nil: one piece).
func (w *World) Peer(frames [][]byte, cuts [][]int) {
	for i, f := range frames {
		var c []int
		if i < len(cuts) {
			c = cuts[i]
		}
		w.force(fmt.Sprintf("PeerFrame (frame_item %s %s)", coqHex(f), natList(c)))
	}
	// inject after recording; all octets become readable back to back
	for i, f := range frames {
		var c []int
		if i < len(cuts) {
			c = cuts[i]
		}
		w.T.Inject(f, c)
	}
	w.sync()
}

// PeerSplit makes the first k octets of a frame readable, lets the system come
// to rest (Watch waits inside the frame; no event of the model), then the rest.
func (w *World) PeerSplit(f []byte, k int) {
	w.T.Inject(f[:k], nil)
	w.sync()
	w.force(fmt.Sprintf("PeerFrame (frame_item %s %s)", coqHex(f), natList([]int{k})))
	w.T.Inject(f[k:], nil)
	w.sync()
}

// PeerStream makes the concatenation of the frames readable at once, cut into pieces of the given sizes
// regardless of the frame boundaries (one TCP segment may carry the end of a frame and the start of the next).
// The model reads the items off the same octets with its own stream reader.
func (w *World) PeerStream(frames [][]byte, cuts []int) {
	var all []byte
	for _, f := range frames {
		all = append(all, f...)
	}
	w.force(fmt.Sprintf("@@(peer_stream %s %s)", coqHex(all), natList(cuts)))
	w.T.Inject(all, cuts)
	w.sync()
}

// PeerTrunc makes the first k octets of a frame readable and then lets the transport report err:
// the read fails inside the frame.  once: the error is reported by one Read only (a timeout).
func (w *World) PeerTrunc(f []byte, k int, err error, once bool) {
	w.force(fmt.Sprintf("@@(peer_stream %s [])", coqHex(f[:k])))
	w.T.Inject(f[:k], nil)
	if once {
		w.T.EndOnce(err)
	} else {
		w.force("PeerEnd")
		w.T.End(err)
	}
	w.sync()
}

func (w *World) PeerPDU(p interface{}) { w.Peer([][]byte{frameOf(p)}, nil) }

// PeerEnd: after the octets injected so far the transport reports err.
func (w *World) PeerEnd(err error) {
	w.force("PeerEnd")
	w.T.End(err)
	w.sync()
}

// PeerEndOnce: the transport reports err to one Read call only (a timeout); for the model it is the same event:
// Watch ends on the first report.
func (w *World) PeerEndOnce(err error) {
	w.force("PeerEnd")
	w.T.EndOnce(err)
	w.sync()
}

func (w *World) CancelCtx(c *Call) {
	w.force(fmt.Sprintf("CancelCtx %d", c.ID))
	c.cancelled = true
	c.stop()
	w.sync()
}

func (w *World) CancelParent() {
	w.force("CancelParent")
	w.Cancel()
	w.sync()
}

// AppGrant lets the gated consumer receive one value (valid when Watch is handing one over).
func (w *World) AppGrant() {
	w.force("AppRecv")
	w.appGate <- struct{}{}
	w.sync()
}

// KeepAlive starts EnquireLink; seqs are the sequence numbers its Submit calls will draw.
func (w *World) KeepAlive(tick, timeout time.Duration, seqs ...int32) {
	w.kaStarted = true
	w.force("KaStart")
	ready := make(chan struct{})
	w.kaGoid = w.spawn("keepalive", func() {
		<-ready
		w.C.EnquireLink(tick, timeout)
	}, func(p string) { w.kaRet = true; w.kaPanic = p })
	w.mu.Lock()
	w.seqQ[w.kaGoid] = append(w.seqQ[w.kaGoid], seqs...)
	w.mu.Unlock()
	close(ready)
}

// KaCall declares the call the keep-alive goroutine has begun on its own (its
// frame has reached the transport): kind "ping" or "kaclose".
func (w *World) KaCall(kind string, seq int32) *Call {
	w.mu.Lock()
	c := &Call{ID: len(w.calls), G: w.kaG, Kind: kind, Seq: seq}
	if kind == "ping" {
		c.term = frameTerm(&pdu.EnquireLink{}, seq)
	} else {
		c.term = frameTerm(&pdu.Unbind{}, seq)
	}
	c.ctx, c.stop = context.WithCancel(context.Background())
	w.nBegun++
	c.begun = w.nBegun
	w.calls = append(w.calls, c)
	w.mu.Unlock()
	return c
}

// WaitUntil polls pred (cap d) — used only for events a timer of the library produces.
func (w *World) WaitUntil(d time.Duration, pred func() bool) bool {
	deadline := time.Now().Add(d)
	for !pred() {
		if time.Now().After(deadline) {
			return false
		}
		time.Sleep(200 * time.Microsecond)
	}
	return true
}

func (w *World) Returned(c *Call) bool {
	w.mu.Lock()
	defer w.mu.Unlock()
	return c.ret
}

func (w *World) App() []Delivery {
	w.mu.Lock()
	defer w.mu.Unlock()
	return append([]Delivery(nil), w.app...)
}

func (w *World) WatchReturned() bool {
	w.mu.Lock()
	defer w.mu.Unlock()
	return w.watchRet
}

func (w *World) KaReturned() bool {
	w.mu.Lock()
	defer w.mu.Unlock()
	return w.kaRet
}

// Panics lists every panic seen in a library goroutine.
func (w *World) Panics() []string {
	w.mu.Lock()
	defer w.mu.Unlock()
	var out []string
	for _, c := range w.calls {
		if c.Panic != "" {
			out = append(out, fmt.Sprintf("%s(seq %d): %s", c.Kind, c.Seq, c.Panic))
		}
	}
	if w.watchPanic != "" {
		out = append(out, "Watch: "+w.watchPanic)
	}
	if w.kaPanic != "" {
		out = append(out, "EnquireLink: "+w.kaPanic)
	}
	return out
}

// Shutdown releases everything so that no goroutine of this run survives.
func (w *World) Shutdown() {
	w.Cancel()
	w.T.ReleaseAll()
	w.T.End(errScriptedReset)
	_ = w.T.Close()
	close(w.appStop)
	w.mu.Lock()
	for _, c := range w.calls {
		c.stop()
	}
	w.mu.Unlock()
	deadline := time.Now().Add(2 * time.Second)
	for i := 0; ; i++ {
		w.mu.Lock()
		n := len(w.goids)
		w.mu.Unlock()
		if n == 0 || time.Now().After(deadline) {
			return
		}
		if i%8 == 7 {
			// everything released and every goroutine blocked all the same: what is left of this run
			// will never finish (e.g. a Watch stuck in a send nobody receives); leave it behind
			blocked := true
			for _, st := range goStates() {
				if !blockedState(st) {
					blocked = false
					break
				}
			}
			if blocked {
				return
			}
		}
		time.Sleep(100 * time.Microsecond)
	}
}

var _ = io.EOF
